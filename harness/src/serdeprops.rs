//! C04, C14, C18: Serde round trip, documented shapes, total deserialization.
use crate::enc::{enc_case_value, enc_value, hex};
use crate::genval::{gen_char, gen_f64, gen_string, gen_value, FloatMode, GenCfg, NameMode};
use crate::out::Out;
use crate::rng::Rng;
use lexpr::Value;
use serde::de::DeserializeOwned;
use serde::Serialize;
use serde_bytes::ByteBuf;
use serde_derive::{Deserialize, Serialize};
use serde_json::json;
use std::collections::{BTreeMap, BTreeSet, HashMap, HashSet};
use std::fmt::Debug;

/// A Rust type of the family together with its description for the model.
pub trait Model: Serialize + DeserializeOwned + PartialEq + Debug + Clone {
    fn ty() -> String;
    /// encoding of the value; `norm` sorts and dedupes sets and maps
    fn data(&self, norm: bool) -> String;
    fn gen(r: &mut Rng, depth: u32) -> Self;
    /// the documented S-expression shape, written from serde-lexpr/src/lib.rs
    fn shape(&self) -> Value;
}

macro_rules! model_int {
    ($t:ty, $code:expr) => {
        impl Model for $t {
            fn ty() -> String { $code.to_string() }
            fn data(&self, _n: bool) -> String { format!("i{}", self) }
            fn gen(r: &mut Rng, _d: u32) -> Self {
                match r.below(6) {
                    0 => <$t>::MIN,
                    1 => <$t>::MAX,
                    2 => 0 as $t,
                    3 => (<$t>::MAX / 2) as $t,
                    4 => (r.next() % 100) as $t,
                    _ => r.next() as $t,
                }
            }
            fn shape(&self) -> Value {
                // every integer is the integer of the same mathematical value
                if (*self as i128) < 0 { Value::from(*self as i128 as i64) } else { Value::from(*self as i128 as u64) }
            }
        }
    };
}
model_int!(i8, "i8");
model_int!(i16, "i16");
model_int!(i32, "i32");
model_int!(i64, "i64");
model_int!(u8, "u8");
model_int!(u16, "u16");
model_int!(u32, "u32");
model_int!(u64, "u64");

fn fbits(f: f64) -> u64 { crate::enc::fbits(f) }

impl Model for bool {
    fn ty() -> String { "b".into() }
    fn data(&self, _n: bool) -> String { format!("b{}", *self as u8) }
    fn gen(r: &mut Rng, _d: u32) -> Self { r.chance(1, 2) }
    fn shape(&self) -> Value { Value::Bool(*self) }
}
impl Model for f64 {
    fn ty() -> String { "f64".into() }
    fn data(&self, _n: bool) -> String { format!("f{:016x}", fbits(*self)) }
    fn gen(r: &mut Rng, _d: u32) -> Self { gen_f64(r, FloatMode::Finite) }
    fn shape(&self) -> Value { Value::from(*self) }
}
impl Model for f32 {
    fn ty() -> String { "f32".into() }
    fn data(&self, _n: bool) -> String { format!("f{:016x}", fbits(*self as f64)) }
    fn gen(r: &mut Rng, _d: u32) -> Self {
        loop {
            let f = match r.below(4) { 0 => r.below(1000) as f32 / 8.0, 1 => f32::from_bits(r.next() as u32), 2 => *r.pick(&[0.0f32, -0.0, 1.5, f32::MAX, f32::MIN_POSITIVE, 1e-45, 0.1, 16777217.0]), _ => (r.below(2000) as f32 - 1000.0) };
            if f.is_finite() { return f; }
        }
    }
    fn shape(&self) -> Value { Value::from(*self as f64) }
}
impl Model for char {
    fn ty() -> String { "c".into() }
    fn data(&self, _n: bool) -> String { format!("c{:x}", *self as u32) }
    fn gen(r: &mut Rng, _d: u32) -> Self { gen_char(r) }
    fn shape(&self) -> Value { Value::Char(*self) }
}
impl Model for String {
    fn ty() -> String { "s".into() }
    fn data(&self, _n: bool) -> String { format!("s:{}", hex(self.as_bytes())) }
    fn gen(r: &mut Rng, _d: u32) -> Self { gen_string(r) }
    fn shape(&self) -> Value { Value::string(self.as_str()) }
}
impl Model for ByteBuf {
    fn ty() -> String { "B".into() }
    fn data(&self, _n: bool) -> String { format!("B:{}", hex(self)) }
    fn gen(r: &mut Rng, _d: u32) -> Self { ByteBuf::from(crate::genval::gen_bytes(r)) }
    fn shape(&self) -> Value { Value::bytes(self.to_vec()) }
}
impl Model for () {
    fn ty() -> String { "U".into() }
    fn data(&self, _n: bool) -> String { "U".into() }
    fn gen(_r: &mut Rng, _d: u32) -> Self {}
    fn shape(&self) -> Value { Value::Null }
}
impl<T: Model> Model for Option<T> {
    fn ty() -> String { format!("O {}", T::ty()) }
    fn data(&self, n: bool) -> String { match self { None => "-".into(), Some(x) => format!("+ {}", x.data(n)) } }
    fn gen(r: &mut Rng, d: u32) -> Self { if r.chance(1, 3) { None } else { Some(T::gen(r, d + 1)) } }
    fn shape(&self) -> Value { match self { None => Value::Null, Some(x) => Value::list(vec![x.shape()]) } }
}
fn gen_len(r: &mut Rng, d: u32) -> usize {
    if d > 3 { return r.below(2) as usize; }
    match r.below(8) { 0 => 0, 1 => 1, 7 => r.below(20) as usize, _ => r.below(5) as usize }
}
impl<T: Model> Model for Vec<T> {
    fn ty() -> String { format!("S {}", T::ty()) }
    fn data(&self, n: bool) -> String { format!("L{}{}", self.len(), self.iter().map(|x| format!(" {}", x.data(n))).collect::<String>()) }
    fn gen(r: &mut Rng, d: u32) -> Self { (0..gen_len(r, d)).map(|_| T::gen(r, d + 1)).collect() }
    fn shape(&self) -> Value { Value::list(self.iter().map(|x| x.shape()).collect::<Vec<_>>()) }
}
fn norm_set(items: Vec<String>, n: bool) -> String {
    let mut v = items;
    if n { v.sort(); v.dedup(); }
    format!("L{}{}", v.len(), v.iter().map(|x| format!(" {}", x)).collect::<String>())
}
impl<T: Model + Ord> Model for BTreeSet<T> {
    fn ty() -> String { format!("H {}", T::ty()) }
    fn data(&self, n: bool) -> String { norm_set(self.iter().map(|x| x.data(n)).collect(), n) }
    fn gen(r: &mut Rng, d: u32) -> Self { (0..gen_len(r, d)).map(|_| T::gen(r, d + 1)).collect() }
    fn shape(&self) -> Value { Value::list(self.iter().map(|x| x.shape()).collect::<Vec<_>>()) }
}
impl<T: Model + Eq + std::hash::Hash> Model for HashSet<T> {
    fn ty() -> String { format!("H {}", T::ty()) }
    fn data(&self, n: bool) -> String { norm_set(self.iter().map(|x| x.data(n)).collect(), n) }
    fn gen(r: &mut Rng, d: u32) -> Self { (0..gen_len(r, d)).map(|_| T::gen(r, d + 1)).collect() }
    fn shape(&self) -> Value { Value::list(self.iter().map(|x| x.shape()).collect::<Vec<_>>()) }
}
fn norm_map(items: Vec<(String, String)>, n: bool) -> String {
    let mut v = items;
    if n { v.sort(); }
    format!("M{}{}", v.len(), v.iter().map(|(k, x)| format!(" {} {}", k, x)).collect::<String>())
}
impl<K: Model + Ord, V: Model> Model for BTreeMap<K, V> {
    fn ty() -> String { format!("M {} {}", K::ty(), V::ty()) }
    fn data(&self, n: bool) -> String { norm_map(self.iter().map(|(k, v)| (k.data(n), v.data(n))).collect(), n) }
    fn gen(r: &mut Rng, d: u32) -> Self { (0..gen_len(r, d)).map(|_| (K::gen(r, d + 1), V::gen(r, d + 1))).collect() }
    fn shape(&self) -> Value { Value::list(self.iter().map(|(k, v)| Value::cons(k.shape(), v.shape())).collect::<Vec<_>>()) }
}
impl<K: Model + Eq + std::hash::Hash, V: Model> Model for HashMap<K, V> {
    fn ty() -> String { format!("M {} {}", K::ty(), V::ty()) }
    fn data(&self, n: bool) -> String { norm_map(self.iter().map(|(k, v)| (k.data(n), v.data(n))).collect(), n) }
    fn gen(r: &mut Rng, d: u32) -> Self { (0..gen_len(r, d)).map(|_| (K::gen(r, d + 1), V::gen(r, d + 1))).collect() }
    fn shape(&self) -> Value { Value::list(self.iter().map(|(k, v)| Value::cons(k.shape(), v.shape())).collect::<Vec<_>>()) }
}
impl<A: Model> Model for (A,) {
    fn ty() -> String { format!("T1 {}", A::ty()) }
    fn data(&self, n: bool) -> String { format!("T1 {}", self.0.data(n)) }
    fn gen(r: &mut Rng, d: u32) -> Self { (A::gen(r, d + 1),) }
    fn shape(&self) -> Value { Value::vector(vec![self.0.shape()]) }
}
impl<A: Model, B: Model> Model for (A, B) {
    fn ty() -> String { format!("T2 {} {}", A::ty(), B::ty()) }
    fn data(&self, n: bool) -> String { format!("T2 {} {}", self.0.data(n), self.1.data(n)) }
    fn gen(r: &mut Rng, d: u32) -> Self { (A::gen(r, d + 1), B::gen(r, d + 1)) }
    fn shape(&self) -> Value { Value::vector(vec![self.0.shape(), self.1.shape()]) }
}
impl<A: Model, B: Model, C: Model> Model for (A, B, C) {
    fn ty() -> String { format!("T3 {} {} {}", A::ty(), B::ty(), C::ty()) }
    fn data(&self, n: bool) -> String { format!("T3 {} {} {}", self.0.data(n), self.1.data(n), self.2.data(n)) }
    fn gen(r: &mut Rng, d: u32) -> Self { (A::gen(r, d + 1), B::gen(r, d + 1), C::gen(r, d + 1)) }
    fn shape(&self) -> Value { Value::vector(vec![self.0.shape(), self.1.shape(), self.2.shape()]) }
}

fn nm(s: &str) -> String { hex(s.as_bytes()) }
fn sym(s: &str) -> Value { Value::symbol(s) }

// ---- user-defined types ----
#[derive(Serialize, Deserialize, PartialEq, Debug, Clone)]
pub struct Unit;
impl Model for Unit {
    fn ty() -> String { "U".into() }
    fn data(&self, _n: bool) -> String { "U".into() }
    fn gen(_r: &mut Rng, _d: u32) -> Self { Unit }
    fn shape(&self) -> Value { Value::Null }
}
#[derive(Serialize, Deserialize, PartialEq, Debug, Clone)]
pub struct Meters(pub f64);
impl Model for Meters {
    fn ty() -> String { "N f64".into() }
    fn data(&self, n: bool) -> String { format!("N {}", self.0.data(n)) }
    fn gen(r: &mut Rng, d: u32) -> Self { Meters(f64::gen(r, d)) }
    fn shape(&self) -> Value { self.0.shape() }
}
#[derive(Serialize, Deserialize, PartialEq, Debug, Clone)]
pub struct Wrap(pub Vec<Option<i16>>);
impl Model for Wrap {
    fn ty() -> String { format!("N {}", <Vec<Option<i16>>>::ty()) }
    fn data(&self, n: bool) -> String { format!("N {}", self.0.data(n)) }
    fn gen(r: &mut Rng, d: u32) -> Self { Wrap(Model::gen(r, d)) }
    fn shape(&self) -> Value { self.0.shape() }
}
#[derive(Serialize, Deserialize, PartialEq, Debug, Clone)]
pub struct Pair(pub i32, pub String);
impl Model for Pair {
    fn ty() -> String { "T2 i32 s".into() }
    fn data(&self, n: bool) -> String { format!("T2 {} {}", self.0.data(n), self.1.data(n)) }
    fn gen(r: &mut Rng, d: u32) -> Self { Pair(Model::gen(r, d), Model::gen(r, d)) }
    fn shape(&self) -> Value { Value::vector(vec![self.0.shape(), self.1.shape()]) }
}
#[derive(Serialize, Deserialize, PartialEq, Debug, Clone)]
pub struct Point { pub x: i32, pub y: u8 }
impl Model for Point {
    fn ty() -> String { format!("R2 {} i32 {} u8", nm("x"), nm("y")) }
    fn data(&self, n: bool) -> String { format!("R2 {} {}", self.x.data(n), self.y.data(n)) }
    fn gen(r: &mut Rng, d: u32) -> Self { Point { x: Model::gen(r, d), y: Model::gen(r, d) } }
    fn shape(&self) -> Value { Value::list(vec![Value::cons(sym("x"), self.x.shape()), Value::cons(sym("y"), self.y.shape())]) }
}
#[derive(Serialize, Deserialize, PartialEq, Debug, Clone)]
pub struct Person { pub name: String, pub age: Option<u8>, pub tags: Vec<String>, pub unit: (), pub nick: Option<Option<char>> }
impl Model for Person {
    fn ty() -> String { format!("R5 {} s {} O u8 {} S s {} U {} O O c", nm("name"), nm("age"), nm("tags"), nm("unit"), nm("nick")) }
    fn data(&self, n: bool) -> String { format!("R5 {} {} {} {} {}", self.name.data(n), self.age.data(n), self.tags.data(n), self.unit.data(n), self.nick.data(n)) }
    fn gen(r: &mut Rng, d: u32) -> Self { Person { name: Model::gen(r, d), age: Model::gen(r, d), tags: Model::gen(r, d + 1), unit: (), nick: Model::gen(r, d) } }
    fn shape(&self) -> Value {
        Value::list(vec![Value::cons(sym("name"), self.name.shape()), Value::cons(sym("age"), self.age.shape()), Value::cons(sym("tags"), self.tags.shape()), Value::cons(sym("unit"), Value::Null), Value::cons(sym("nick"), self.nick.shape())])
    }
}
#[derive(Serialize, Deserialize, PartialEq, Debug, Clone)]
pub struct Empty {}
impl Model for Empty {
    fn ty() -> String { "R0".into() }
    fn data(&self, _n: bool) -> String { "R0".into() }
    fn gen(_r: &mut Rng, _d: u32) -> Self { Empty {} }
    fn shape(&self) -> Value { Value::Null }
}
#[derive(Serialize, Deserialize, PartialEq, Debug, Clone, PartialOrd, Ord, Eq)]
pub enum Color { Red, Green, Blue }
impl Model for Color {
    fn ty() -> String { format!("E3 {} vu {} vu {} vu", nm("Red"), nm("Green"), nm("Blue")) }
    fn data(&self, _n: bool) -> String { format!("E:{} pu", nm(match self { Color::Red => "Red", Color::Green => "Green", Color::Blue => "Blue" })) }
    fn gen(r: &mut Rng, _d: u32) -> Self { match r.below(3) { 0 => Color::Red, 1 => Color::Green, _ => Color::Blue } }
    fn shape(&self) -> Value { sym(match self { Color::Red => "Red", Color::Green => "Green", Color::Blue => "Blue" }) }
}
#[derive(Serialize, Deserialize, PartialEq, Debug, Clone)]
pub enum Shape {
    Dot,
    Circle(f64),
    Seq(Vec<i32>),
    Rect(i32, i32),
    One(u8,),
    NoneT(),
    Named { w: u16, h: Option<u16> },
    NoFields {},
    Nested(Option<Box<Color>>),
}
impl Model for Shape {
    fn ty() -> String {
        format!("E9 {} vu {} vn f64 {} vn S i32 {} vt2 i32 i32 {} vn u8 {} vt0 {} vs2 {} u16 {} O u16 {} vs0 {} vn O {}",
            nm("Dot"), nm("Circle"), nm("Seq"), nm("Rect"), nm("One"), nm("NoneT"), nm("Named"), nm("w"), nm("h"), nm("NoFields"), nm("Nested"), Color::ty())
    }
    fn data(&self, n: bool) -> String {
        match self {
            Shape::Dot => format!("E:{} pu", nm("Dot")),
            Shape::Circle(f) => format!("E:{} pn {}", nm("Circle"), f.data(n)),
            Shape::Seq(v) => format!("E:{} pn {}", nm("Seq"), v.data(n)),
            Shape::Rect(a, b) => format!("E:{} pt2 {} {}", nm("Rect"), a.data(n), b.data(n)),
            Shape::One(a) => format!("E:{} pn {}", nm("One"), a.data(n)),
            Shape::NoneT() => format!("E:{} pt0", nm("NoneT")),
            Shape::Named { w, h } => format!("E:{} ps2 {} {}", nm("Named"), w.data(n), h.data(n)),
            Shape::NoFields {} => format!("E:{} ps0", nm("NoFields")),
            Shape::Nested(o) => format!("E:{} pn {}", nm("Nested"), match o { None => "-".to_string(), Some(c) => format!("+ {}", c.data(n)) }),
        }
    }
    fn gen(r: &mut Rng, d: u32) -> Self {
        match r.below(9) {
            0 => Shape::Dot,
            1 => Shape::Circle(Model::gen(r, d)),
            2 => Shape::Seq(Model::gen(r, d + 1)),
            3 => Shape::Rect(Model::gen(r, d), Model::gen(r, d)),
            4 => Shape::One(Model::gen(r, d)),
            5 => Shape::NoneT(),
            6 => Shape::Named { w: Model::gen(r, d), h: Model::gen(r, d) },
            7 => Shape::NoFields {},
            _ => Shape::Nested(if r.chance(1, 3) { None } else { Some(Box::new(Color::gen(r, d))) }),
        }
    }
    fn shape(&self) -> Value {
        match self {
            Shape::Dot => sym("Dot"),
            Shape::Circle(f) => Value::cons(sym("Circle"), f.shape()),
            Shape::Seq(v) => Value::cons(sym("Seq"), v.shape()),
            Shape::Rect(a, b) => Value::list(vec![sym("Rect"), a.shape(), b.shape()]),
            Shape::One(a) => Value::cons(sym("One"), a.shape()), // a one-field tuple variant is a newtype variant to Serde
            Shape::NoneT() => Value::list(vec![sym("NoneT")]),
            Shape::Named { w, h } => Value::list(vec![sym("Named"), Value::cons(sym("w"), w.shape()), Value::cons(sym("h"), h.shape())]),
            Shape::NoFields {} => Value::list(vec![sym("NoFields")]),
            Shape::Nested(o) => Value::cons(sym("Nested"), match o { None => Value::Null, Some(c) => Value::list(vec![c.shape()]) }),
        }
    }
}
#[derive(Serialize, Deserialize, PartialEq, Debug, Clone)]
pub struct Config { pub by_name: BTreeMap<String, Shape>, pub by_id: BTreeMap<u32, Vec<Color>>, pub by_char: BTreeMap<char, (i8, bool)>, pub origin: Point, pub blob: ByteBuf }
impl Model for Config {
    fn ty() -> String { format!("R5 {} {} {} {} {} {} {} {} {} B", nm("by_name"), <BTreeMap<String, Shape>>::ty(), nm("by_id"), <BTreeMap<u32, Vec<Color>>>::ty(), nm("by_char"), <BTreeMap<char, (i8, bool)>>::ty(), nm("origin"), Point::ty(), nm("blob")) }
    fn data(&self, n: bool) -> String { format!("R5 {} {} {} {} {}", self.by_name.data(n), self.by_id.data(n), self.by_char.data(n), self.origin.data(n), self.blob.data(n)) }
    fn gen(r: &mut Rng, d: u32) -> Self { Config { by_name: Model::gen(r, d + 2), by_id: Model::gen(r, d + 2), by_char: Model::gen(r, d + 2), origin: Model::gen(r, d), blob: Model::gen(r, d) } }
    fn shape(&self) -> Value {
        Value::list(vec![Value::cons(sym("by_name"), self.by_name.shape()), Value::cons(sym("by_id"), self.by_id.shape()), Value::cons(sym("by_char"), self.by_char.shape()), Value::cons(sym("origin"), self.origin.shape()), Value::cons(sym("blob"), self.blob.shape())])
    }
}

// ---- the checks ----

fn ser_case<T: Model>(out: &mut Out, x: &T) -> Option<Value> {
    let case = format!("ser {} ; {}", T::ty(), x.data(false));
    out.oracle_checks += 1;
    let v = match std::panic::catch_unwind(std::panic::AssertUnwindSafe(|| serde_lexpr::to_value(x))) {
        Ok(Ok(v)) => v,
        Ok(Err(e)) => { out.fail("serialize", format!("to_value failed: {}", e), case, json!({})); return None; }
        Err(_) => { out.fail("panic", "to_value panicked".into(), case, json!({})); return None; }
    };
    // C14: the documented shape (floats may be NaN-free here, so == is exact)
    let want = x.shape();
    if v != want {
        out.fail("shape", format!("to_value produced {} but the documented shape is {}", enc_value(&v), enc_value(&want)), case.clone(), json!({}));
    }
    out.case(case, enc_value(&v), true);
    Some(v)
}

fn de_obs<T: Model>(v: &Value) -> Result<Result<T, serde_lexpr::Error>, ()> {
    std::panic::catch_unwind(std::panic::AssertUnwindSafe(|| serde_lexpr::from_value::<T>(v))).map_err(|_| ())
}

fn de_case<T: Model>(out: &mut Out, v: &Value, nontrivial: bool) -> Option<T> {
    let case = format!("de {} ; {}", T::ty(), enc_case_value(v));
    out.oracle_checks += 1;
    match de_obs::<T>(v) {
        Err(()) => { out.fail("panic", "from_value panicked".into(), case, json!({})); None }
        Ok(Ok(x)) => {
            out.case(case.clone(), format!("ok {}", x.data(true)), nontrivial);
            // C18: what was accepted is normalised, not misread
            match serde_lexpr::to_value(&x).ok().and_then(|v2| serde_lexpr::from_value::<T>(&v2).ok()) {
                Some(y) if y == x => {}
                _ => out.fail("normalise", "deserialization accepted a value whose result does not survive serialize + deserialize".into(), case, json!({"value": enc_value(v)})),
            }
            Some(x)
        }
        Ok(Err(e)) => {
            if e.classify() != serde_lexpr::error::Category::Data {
                out.fail("category", format!("deserialization error is not a data error: {:?}", e.classify()), case.clone(), json!({}));
            }
            out.case(case, "err data".into(), nontrivial);
            None
        }
    }
}

/// Alternative and near-miss encodings of a serialized value.
fn mutate_value(v: &Value, r: &mut Rng) -> Value {
    let cfg = GenCfg { max_depth: 2, max_len: 3, names: NameMode::Any, floats: FloatMode::Finite, nil_bool: true };
    match r.below(10) {
        0 => match v { // list <-> vector
            Value::Vector(els) => Value::list(els.to_vec()),
            _ => match v.to_vec() { Some(xs) => Value::Vector(xs.into()), None => v.clone() },
        },
        1 => match v.as_cons() { // improper tail
            Some(c) => { let (xs, _) = c.to_vec(); Value::append(xs, crate::genval::gen_atom(r, &cfg)) }
            None => v.clone(),
        },
        2 => match v.as_cons() { // drop / duplicate / reorder an element
            Some(c) => {
                let (mut xs, t) = c.to_vec();
                match r.below(3) { 0 => { let i = r.below(xs.len() as u64) as usize; xs.remove(i); } 1 => { let i = r.below(xs.len() as u64) as usize; let e = xs[i].clone(); xs.push(e); } _ => xs.reverse() }
                Value::append(xs, t)
            }
            None => v.clone(),
        },
        3 => crate::genval::gen_atom(r, &cfg),
        4 | 5 | 6 => match v { // recurse into an element
            Value::Cons(c) => {
                let (mut xs, t) = c.to_vec();
                let i = r.below(xs.len() as u64 + 1) as usize;
                if i < xs.len() { xs[i] = mutate_value(&xs[i], r); Value::append(xs, t) } else { Value::append(xs, mutate_value(&t, r)) }
            }
            Value::Vector(els) if !els.is_empty() => { let mut xs = els.to_vec(); let i = r.below(xs.len() as u64) as usize; xs[i] = mutate_value(&xs[i], r); Value::Vector(xs.into()) }
            Value::Symbol(s) => match r.below(3) { 0 => Value::string(&**s), 1 => Value::keyword(&**s), _ => Value::symbol(format!("{}x", s)) },
            Value::Number(n) => match r.below(6) { 0 => Value::from(n.as_f64().unwrap_or(0.0) + 0.5), 1 => Value::from(u64::MAX), 2 => Value::from(i64::MIN), 3 => Value::from(-1i64),
                // finite doubles beyond the range of a narrower float, and below its smallest subnormal
                4 => Value::from(*r.pick(&[1e39f64, -4e38, 3.4028235677973366e38, 3.4028236e38, f64::MAX, -1e300, 1e-46, 7e-46])), _ => Value::from(n.as_f64().unwrap_or(1.0) * 1e38) },
            Value::Null => Value::Nil,
            other => other.clone(),
        },
        7 => Value::cons(v.clone(), Value::Null),
        8 => gen_value(r, &cfg, 0),
        _ => v.clone(),
    }
}

pub fn run_type<T: Model>(out: &mut Out, r: &mut Rng, n: usize, which: &str) {
    let tyname = std::any::type_name::<T>().replace("harness::serdeprops::", "").replace("alloc::", "").replace("std::", "");
    for _ in 0..n {
        let x = T::gen(r, 0);
        out.count(&format!("type:{}", tyname));
        let v = match ser_case(out, &x) { Some(v) => v, None => continue };
        if which == "C04" || which == "C14" {
            // value path
            out.oracle_checks += 1;
            match de_case::<T>(out, &v, true) {
                Some(back) if back == x => {}
                Some(back) => out.fail("roundtrip", format!("from_value(to_value(x)) != x for {}", tyname), format!("ser {} ; {}", T::ty(), x.data(false)), json!({"x": format!("{:?}", x), "back": format!("{:?}", back)})),
                None => out.fail("roundtrip", format!("from_value rejects to_value(x) for {}", tyname), format!("ser {} ; {}", T::ty(), x.data(false)), json!({"value": enc_value(&v)})),
            }
        }
        if which == "C04" {
            // text path with the default printer and parser
            out.oracle_checks += 1;
            let text = serde_lexpr::to_string(&x);
            match text.as_ref().map_err(|e| e.to_string()).and_then(|t| serde_lexpr::from_str::<T>(t).map_err(|e| e.to_string())) {
                Ok(back) => {
                    let same = back == x || { // floats to the accuracy of C05
                        let (a, b) = (serde_lexpr::to_value(&back).unwrap(), v.clone());
                        crate::dialect::value_eq(&a, &b, false)
                    };
                    if !same { out.fail("text-roundtrip", format!("from_str(to_string(x)) != x for {}", tyname), format!("ser {} ; {}", T::ty(), x.data(false)), json!({"text": text.unwrap_or_default()})); }
                }
                Err(e) => out.fail("text-roundtrip", format!("text round trip fails for {}: {}", tyname, e), format!("ser {} ; {}", T::ty(), x.data(false)), json!({"text": text.unwrap_or_default()})),
            }
        }
        if which == "C14" {
            // accepted alternatives: vector for a sequence, proper list for a tuple
            let alt = match &v { Value::Vector(els) => Some(Value::list(els.to_vec())), _ => v.to_vec().filter(|xs| !xs.is_empty() || true).map(|xs| Value::Vector(xs.into())) };
            if let Some(a) = alt { de_case::<T>(out, &a, true); }
            for _ in 0..2 { let m = mutate_value(&v, r); de_case::<T>(out, &m, true); }
            // improper lists in sequence and tuple positions must be rejected
            let elems: Option<Vec<Value>> = match &v { Value::Vector(els) => Some(els.to_vec()), Value::Cons(_) => v.to_vec(), _ => None };
            if let Some(els) = elems {
                if !els.is_empty() {
                    let tail = match r.below(4) { 0 => Value::from(3), 1 => Value::symbol("x"), 2 => Value::Nil, _ => Value::string("t") };
                    let imp = Value::append(els.clone(), tail.clone());
                    out.oracle_checks += 1;
                    if let Some(_) = de_case::<T>(out, &imp, true) {
                        out.fail("improper-accepted", format!("an improper list is accepted where a sequence or tuple is expected ({})", tyname), format!("de {} ; {}", T::ty(), enc_case_value(&imp)), json!({}));
                    }
                    // ... also when it is one cell shorter: the last element standing as the tail (a pair for a 2-tuple)
                    if els.len() >= 2 && !els[els.len() - 1].is_list() {
                        let imp3 = Value::append(els[..els.len() - 1].to_vec(), els[els.len() - 1].clone());
                        out.oracle_checks += 1;
                        if let Some(_) = de_case::<T>(out, &imp3, true) {
                            out.fail("improper-accepted", format!("an improper list whose tail is the last element is accepted where a sequence or tuple is expected ({})", tyname), format!("de {} ; {}", T::ty(), enc_case_value(&imp3)), json!({}));
                        }
                    }
                    // ... also when it is longer than what a fixed-size visitor reads
                    let mut longer = els;
                    longer.push(Value::from(7));
                    let imp2 = Value::append(longer, tail);
                    out.oracle_checks += 1;
                    if let Some(_) = de_case::<T>(out, &imp2, true) {
                        out.fail("improper-accepted", format!("an improper list longer than the expected tuple is accepted ({})", tyname), format!("de {} ; {}", T::ty(), enc_case_value(&imp2)), json!({}));
                    }
                }
            }
        }
        if which == "C18" {
            for _ in 0..4 { let m = mutate_value(&v, r); de_case::<T>(out, &m, true); }
            let cfg = GenCfg { max_depth: 3, max_len: 3, names: NameMode::Any, floats: FloatMode::Finite, nil_bool: true };
            let a = gen_value(r, &cfg, 0);
            de_case::<T>(out, &a, true);
        }
    }
}

macro_rules! family {
    ($out:expr, $r:expr, $n:expr, $w:expr; $($t:ty),* $(,)?) => { $( run_type::<$t>($out, $r, $n, $w); )* };
}

pub fn run(which: &str, tier: &str, seed: u64, out: &mut Out) {
    let mut r = Rng::new(seed);
    let n = match tier { "thorough" => 1500, "search" => 400, _ => 40 };
    family!(out, &mut r, n, which;
        bool, i8, i16, i32, i64, u8, u16, u32, u64, f32, f64, char, String, ByteBuf, (),
        Option<i32>, Option<Option<u8>>, Option<()>, Option<Vec<u16>>, Vec<Option<i8>>, Vec<Vec<String>>, Option<Option<Option<bool>>>,
        (i32,), (u8, String), (char, Option<bool>, Vec<i64>), Vec<(i16, f64)>,
        BTreeSet<u32>, HashSet<String>, BTreeMap<String, i32>, HashMap<u64, String>, BTreeMap<char, Vec<u8>>, BTreeMap<i8, Option<String>>,
        Unit, Meters, Wrap, Pair, Point, Person, Empty, Color, Shape, Config,
        Vec<Shape>, Option<Shape>, BTreeMap<String, Person>, (Color, Shape), Vec<Point>, Option<Point>,
    );
    out.extra.insert("types_in_family".into(), json!(48));
    if which == "C04" { run_foreign(out, &mut r, n); }
}

// Serialize / Deserialize implementations the model does not describe: std
// types whose impls are written by hand in serde (several choose their shape by
// asking the format whether it is human readable, which the two halves of a
// format must answer alike). Oracle only: the value path and the text path.
fn foreign_case<T>(out: &mut Out, x: T)
where T: serde::Serialize + serde::de::DeserializeOwned + PartialEq + std::fmt::Debug {
    let tyname = std::any::type_name::<T>().replace("core::", "").replace("alloc::", "").replace("std::", "");
    out.count(&format!("foreign:{}", tyname));
    let case = format!("foreign {} ; {:?}", tyname, x);
    out.oracle_checks += 2;
    let r = std::panic::catch_unwind(std::panic::AssertUnwindSafe(|| {
        let v = serde_lexpr::to_value(&x).map_err(|e| format!("to_value: {}", e))?;
        let back: T = serde_lexpr::from_value(&v).map_err(|e| format!("from_value rejects to_value(x) = {}: {}", v, e))?;
        if back != x { return Err(format!("from_value(to_value(x)) = {:?}", back)); }
        let t = serde_lexpr::to_string(&x).map_err(|e| format!("to_string: {}", e))?;
        let back: T = serde_lexpr::from_str(&t).map_err(|e| format!("from_str rejects to_string(x) = {}: {}", t, e))?;
        if back != x { return Err(format!("from_str(to_string(x)) = {:?} (text {})", back, t)); }
        let back: T = serde_lexpr::from_slice(t.as_bytes()).map_err(|e| format!("from_slice rejects to_string(x) = {}: {}", t, e))?;
        if back != x { return Err(format!("from_slice(to_string(x)) = {:?} (text {})", back, t)); }
        Ok(())
    }));
    match r {
        Ok(Ok(())) => {}
        Ok(Err(e)) => out.fail("foreign-roundtrip", format!("round trip fails for {}: {}", tyname, e), case, json!({})),
        Err(_) => out.fail("foreign-roundtrip", format!("round trip panics for {}", tyname), case, json!({})),
    }
}

// derive attributes that change what is written: fields left out, renamed, defaulted
// (not #[serde(flatten)]: it re-routes a struct through the map category with keys that are
// written as strings and read back as identifiers - outside the family of types C04 names)
#[derive(serde_derive::Serialize, serde_derive::Deserialize, PartialEq, Debug, Clone)]
struct Job {
    name: String,
    priority: u8,
    #[serde(skip_serializing_if = "Option::is_none")]
    retries: Option<u32>,
}
#[derive(serde_derive::Serialize, serde_derive::Deserialize, PartialEq, Debug, Clone)]
struct Sparse {
    #[serde(skip_serializing_if = "Option::is_none")]
    first: Option<bool>,
    id: i64,
    #[serde(skip_serializing_if = "Vec::is_empty", default)]
    tags: Vec<String>,
    #[serde(rename = "kind-of", default)]
    kind: Option<char>,
    #[serde(skip_serializing_if = "Option::is_none")]
    last: Option<String>,
}
#[derive(serde_derive::Serialize, serde_derive::Deserialize, PartialEq, Debug, Clone)]
enum Event {
    Started { id: u32, #[serde(skip_serializing_if = "Option::is_none")] by: Option<String> },
    #[serde(rename = "stopped-at")]
    Stopped(u64),
    Idle,
}

fn run_foreign(out: &mut Out, r: &mut Rng, n: usize) {
    for i in 0..n.min(200) {
        let a = r.next();
        let opt = |k: u64| if (a >> k) & 1 == 0 { None } else { Some((a >> (k + 1)) as u32 % 1000) };
        foreign_case(out, Job { name: format!("j{}", a % 5), priority: a as u8, retries: opt(3) });
        foreign_case(out, Sparse { first: if i % 3 == 0 { None } else { Some(i % 2 == 0) }, id: a as i64, tags: (0..(a % 3)).map(|k| format!("t{}", k)).collect(),
                                   kind: if (a >> 9) & 1 == 0 { None } else { Some('k') }, last: opt(11).map(|x| x.to_string()) });
        foreign_case(out, Event::Started { id: a as u32, by: opt(5).map(|x| format!("u{}", x)) });
        foreign_case(out, Event::Stopped(a));
        foreign_case(out, vec![Event::Idle, Event::Started { id: 1, by: None }]);
        foreign_case(out, Some(Job { name: String::new(), priority: 0, retries: None }));
    }
    use std::net::{IpAddr, Ipv4Addr, Ipv6Addr, SocketAddr, SocketAddrV4, SocketAddrV6};
    use std::num::{NonZeroI64, NonZeroU8, Wrapping};
    use std::time::Duration;
    for i in 0..n.min(200) {
        let a = r.next();
        let b = r.next();
        let v4 = match i % 4 { 0 => Ipv4Addr::new(0, 0, 0, 0), 1 => Ipv4Addr::new(255, 255, 255, 255), _ => Ipv4Addr::from(a as u32) };
        let v6 = match i % 5 { 0 => Ipv6Addr::UNSPECIFIED, 1 => Ipv6Addr::LOCALHOST, 2 => Ipv4Addr::from(a as u32).to_ipv6_mapped(), _ => Ipv6Addr::from(((a as u128) << 64) | b as u128) };
        foreign_case(out, v4);
        foreign_case(out, v6);
        foreign_case(out, IpAddr::V4(v4));
        foreign_case(out, IpAddr::V6(v6));
        foreign_case(out, SocketAddrV4::new(v4, b as u16));
        foreign_case(out, SocketAddrV6::new(v6, a as u16, 0, 0));
        foreign_case(out, SocketAddr::new(if i % 2 == 0 { IpAddr::V4(v4) } else { IpAddr::V6(v6) }, (a >> 7) as u16));
        foreign_case(out, vec![IpAddr::V4(v4), IpAddr::V6(v6)]);
        foreign_case(out, Some((a as u8, v4)));
        foreign_case(out, { let mut m = BTreeMap::new(); m.insert(format!("h{}", a % 7), IpAddr::V6(v6)); m.insert("gw".to_string(), IpAddr::V4(v4)); m });
        foreign_case(out, Duration::new(a >> (b % 64), (b % 1_000_000_000) as u32));
        foreign_case(out, (a as u32 % 100)..(b as u32));
        foreign_case(out, (a as i8)..=(b as i8));
        foreign_case(out, std::ops::Bound::Included(a as i16));
        foreign_case(out, std::ops::Bound::<u8>::Unbounded);
        foreign_case(out, NonZeroU8::new((a as u8) | 1).unwrap());
        foreign_case(out, NonZeroI64::new((a as i64) | 1).unwrap());
        foreign_case(out, Wrapping(a as i16));
        foreign_case(out, std::cmp::Reverse(b as u32));
        foreign_case(out, Box::new((a as i32, format!("b{}", b % 9))));
        foreign_case(out, std::collections::VecDeque::from(vec![a as u8, b as u8]));
        foreign_case(out, std::collections::LinkedList::from([a as i64, -(b as i32 as i64)]));
        foreign_case(out, std::collections::BinaryHeap::from(vec![a as u16, b as u16]).into_sorted_vec());
        foreign_case(out, [a as u8, b as u8, (a >> 8) as u8]);
        foreign_case(out, std::path::PathBuf::from(format!("/tmp/p{}/f{}", a % 10, b % 10)));
        foreign_case(out, Ok::<u8, String>(a as u8));
        foreign_case(out, Err::<u8, String>(format!("e{}", b % 5)));
        foreign_case(out, std::marker::PhantomData::<u8>);
        foreign_case(out, std::cell::Cell::new(a as i32));
        foreign_case(out, std::cell::RefCell::new(vec![b as u8]));
    }
}
