#![allow(dead_code)]
mod c03;
mod c07;
mod c15;
mod c16;
mod c20;
mod macroprops;
#[path = "/repo/lexpr-macros/src/value.rs"]
mod value;
#[path = "/repo/lexpr-macros/src/parser.rs"]
mod parser;
mod dialect;
mod indep;
mod parseprops;
mod roundtrip;
#[cfg(feature = "with-serde")]
mod serdeprops;
mod enc;
mod gentext;
mod genval;
mod out;
mod pobs;
mod popts;
mod rng;

use std::path::PathBuf;

fn main() {
    let args: Vec<String> = std::env::args().collect();
    if args.len() < 5 {
        eprintln!("usage: harness <ID> <tier> <seed> <outdir> [extra...]");
        std::process::exit(2);
    }
    let id = args[1].as_str();
    let tier = args[2].as_str();
    let seed: u64 = args[3].parse().unwrap_or(0);
    if id == "C09" && tier == "macrogen" {
        // harness C09 macrogen <seed> <outfile> <n>
        std::fs::write(&args[4], macroprops::macrogen(seed, args[5].parse().unwrap())).unwrap();
        return;
    }
    let dir = PathBuf::from(&args[4]);
    std::fs::create_dir_all(&dir).ok();
    if id == "C16" && tier == "child" {
        // harness C16 child <op> unused <n> <dotted>
        c16::child(&args[3], args[5].parse().unwrap(), args[6] == "1");
        return;
    }
    if id == "C03" && tier == "deepchild" {
        // harness C03 deepchild <kind> unused <n> <api>
        c03::deep_child(args[3].parse().unwrap(), args[5].parse().unwrap(), &args[6]);
        return;
    }
    let mut out = out::Out::new();
    pobs::write_alpha_table(&dir.join("alpha.txt"));
    match id {
        "C01" => roundtrip::run_c01(tier, seed, &mut out),
        "C02" => roundtrip::run_c02(tier, seed, &mut out),
        "C12" => roundtrip::run_c12(tier, seed, &mut out),
        "C13" => roundtrip::run_c13(tier, seed, &mut out),
        "C05" => parseprops::run_c05(tier, seed, &mut out),
        "C06" => parseprops::run_c06(tier, seed, &mut out),
        "C08" => parseprops::run_c08(tier, seed, &mut out),
        "C10" => parseprops::run_c10(tier, seed, &mut out),
        "C11" => parseprops::run_c11(tier, seed, &mut out),
        "C17" => parseprops::run_c17(tier, seed, &mut out),
        "C19" => parseprops::run_c19(tier, seed, &mut out),
        #[cfg(feature = "with-serde")]
        "C04" | "C14" | "C18" => serdeprops::run(id, tier, seed, &mut out),
        "C09" => macroprops::run(tier, seed, &mut out),
        "C16" => c16::run(tier, seed, &mut out),
        "C03" => c03::run(tier, seed, &mut out),
        "C07" => c07::run(tier, seed, &mut out),
        "C20" => c20::run(tier, seed, &mut out),
        "C15" => c15::run(tier, seed, &mut out),
        _ => {
            eprintln!("unknown property {}", id);
            std::process::exit(2);
        }
    }
    out.write(&dir);
}
