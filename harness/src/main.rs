#![allow(dead_code)]
mod c07;
mod c15;
mod c20;
mod enc;
mod genval;
mod out;
mod popts;
mod rng;

use std::path::PathBuf;

fn main() {
    let args: Vec<String> = std::env::args().collect();
    if args.len() < 5 {
        eprintln!("usage: harness <ID> <tier> <seed> <outdir> [extra...]");
        std::process::exit(2);
    }
    let id = args[1].as_str();
    let tier = args[2].as_str();
    let seed: u64 = args[3].parse().unwrap_or(0);
    let dir = PathBuf::from(&args[4]);
    let mut out = out::Out::new();
    match id {
        "C07" => c07::run(tier, seed, &mut out),
        "C20" => c20::run(tier, seed, &mut out),
        "C15" => c15::run(tier, seed, &mut out),
        _ => {
            eprintln!("unknown property {}", id);
            std::process::exit(2);
        }
    }
    out.write(&dir);
}
