//! Enumerations of printer and parser option sets, with the digit codes used
//! in case files.
use lexpr::parse::{self, Brackets, KeywordSyntax, NilSymbol, TSymbol};
use lexpr::print::{self, BoolSyntax, BytesSyntax, CharSyntax, NilSyntax, StringSyntax, VectorSyntax};

#[derive(Clone, Copy, Debug, PartialEq, Eq, Hash)]
pub struct Po {
    pub kw: u8,   // 0 prefix, 1 postfix, 2 octothorpe
    pub nil: u8,  // 0 symbol, 1 token, 2 empty list, 3 false
    pub boo: u8,  // 0 token, 1 symbol
    pub vec: u8,  // 0 octothorpe, 1 brackets
    pub bytes: u8, // 0 r6rs, 1 r7rs, 2 elisp
    pub string: u8, // 0 r6rs, 1 elisp
    pub chr: u8,  // 0 r6rs, 1 elisp
}

impl Po {
    pub const DEFAULT: Po = Po { kw: 2, nil: 1, boo: 0, vec: 0, bytes: 1, string: 0, chr: 0 };
    pub const ELISP: Po = Po { kw: 0, nil: 0, boo: 1, vec: 1, bytes: 2, string: 1, chr: 1 };
    pub fn code(&self) -> String {
        format!("{}{}{}{}{}{}{}", self.kw, self.nil, self.boo, self.vec, self.bytes, self.string, self.chr)
    }
    pub fn all() -> Vec<Po> {
        let mut v = vec![];
        for kw in 0..3 {
            for nil in 0..4 {
                for boo in 0..2 {
                    for vec in 0..2 {
                        for bytes in 0..3 {
                            for string in 0..2 {
                                for chr in 0..2 {
                                    v.push(Po { kw, nil, boo, vec, bytes, string, chr });
                                }
                            }
                        }
                    }
                }
            }
        }
        v
    }
    pub fn from_index(i: u64) -> Po {
        Po::all()[(i % 576) as usize]
    }
    pub fn options(&self) -> print::Options {
        print::Options::default()
            .with_keyword_syntax(match self.kw {
                0 => KeywordSyntax::ColonPrefix,
                1 => KeywordSyntax::ColonPostfix,
                _ => KeywordSyntax::Octothorpe,
            })
            .with_nil_syntax(match self.nil {
                0 => NilSyntax::Symbol,
                1 => NilSyntax::Token,
                2 => NilSyntax::EmptyList,
                _ => NilSyntax::False,
            })
            .with_bool_syntax(if self.boo == 0 { BoolSyntax::Token } else { BoolSyntax::Symbol })
            .with_vector_syntax(if self.vec == 0 { VectorSyntax::Octothorpe } else { VectorSyntax::Brackets })
            .with_bytes_syntax(match self.bytes {
                0 => BytesSyntax::R6RS,
                1 => BytesSyntax::R7RS,
                _ => BytesSyntax::Elisp,
            })
            .with_string_syntax(if self.string == 0 { StringSyntax::R6RS } else { StringSyntax::Elisp })
            .with_char_syntax(if self.chr == 0 { CharSyntax::R6RS } else { CharSyntax::Elisp })
    }
}

#[derive(Clone, Copy, Debug, PartialEq, Eq, Hash)]
pub struct Ro {
    pub kw: u8,    // bit 0 prefix, bit 1 postfix, bit 2 octothorpe
    pub nil: u8,   // 0 empty list, 1 default, 2 special
    pub t: u8,     // 0 true, 1 default
    pub brackets: u8, // 0 list, 1 vector
    pub string: u8, // 0 r6rs, 1 elisp
    pub chr: u8,   // 0 r6rs, 1 elisp
    pub racket: u8,
    pub digit: u8,
}

impl Ro {
    pub const DEFAULT: Ro = Ro { kw: 4, nil: 1, t: 1, brackets: 0, string: 0, chr: 0, racket: 0, digit: 0 };
    pub const ELISP: Ro = Ro { kw: 1, nil: 0, t: 1, brackets: 1, string: 1, chr: 1, racket: 0, digit: 1 };
    pub const NEW: Ro = Ro { kw: 0, nil: 1, t: 1, brackets: 0, string: 0, chr: 0, racket: 0, digit: 0 };
    pub fn code(&self) -> String {
        format!("{}{}{}{}{}{}{}{}", self.kw, self.nil, self.t, self.brackets, self.string, self.chr, self.racket, self.digit)
    }
    pub fn all() -> Vec<Ro> {
        let mut v = vec![];
        for kw in 0..8 {
            for nil in 0..3 {
                for t in 0..2 {
                    for brackets in 0..2 {
                        for string in 0..2 {
                            for chr in 0..2 {
                                for racket in 0..2 {
                                    for digit in 0..2 {
                                        v.push(Ro { kw, nil, t, brackets, string, chr, racket, digit });
                                    }
                                }
                            }
                        }
                    }
                }
            }
        }
        v
    }
    /// The same option set built another way: from any base set, with the keyword
    /// syntaxes given as a list (in a random order, entries possibly repeated:
    /// with_keyword_syntaxes *sets* the syntaxes) and every other field overridden.
    pub fn options_alt(&self, r: &mut crate::rng::Rng) -> parse::Options {
        let base = match r.below(3) { 0 => parse::Options::new(), 1 => parse::Options::default(), _ => parse::Options::elisp() };
        let mut list: Vec<KeywordSyntax> = vec![];
        for (bit, s) in [(1u8, KeywordSyntax::ColonPrefix), (2, KeywordSyntax::ColonPostfix), (4, KeywordSyntax::Octothorpe)] {
            if self.kw & bit != 0 { for _ in 0..1 + r.below(3) { list.push(s); } }
        }
        for i in (1..list.len()).rev() { let j = r.below(i as u64 + 1) as usize; list.swap(i, j); }
        // every setter determines its own option completely, so the order of the calls -
        // and calling one twice - must not matter: apply them in a random order
        let mut order: Vec<u8> = (0..8).collect();
        if r.chance(1, 2) { order.push(r.below(8) as u8); }
        for i in (1..order.len()).rev() { let j = r.below(i as u64 + 1) as usize; order.swap(i, j); }
        let mut o = base;
        for step in order {
            o = match step {
                0 => o.with_keyword_syntaxes(list.clone()),
                1 => o.with_nil_symbol(match self.nil { 0 => NilSymbol::EmptyList, 1 => NilSymbol::Default, _ => NilSymbol::Special }),
                2 => o.with_t_symbol(if self.t == 0 { TSymbol::True } else { TSymbol::Default }),
                3 => o.with_brackets(if self.brackets == 0 { Brackets::List } else { Brackets::Vector }),
                4 => o.with_string_syntax(if self.string == 0 { parse::StringSyntax::R6RS } else { parse::StringSyntax::Elisp }),
                5 => o.with_char_syntax(if self.chr == 0 { parse::CharSyntax::R6RS } else { parse::CharSyntax::Elisp }),
                6 => o.with_racket_hash_percent_symbols(self.racket == 1),
                _ => o.with_leading_digit_symbols(self.digit == 1),
            };
        }
        o
    }
    /// What the getters of an option set report, as a Ro.
    pub fn of_options(o: parse::Options) -> Ro {
        Ro {
            kw: (o.keyword_syntax(KeywordSyntax::ColonPrefix) as u8) | ((o.keyword_syntax(KeywordSyntax::ColonPostfix) as u8) << 1) | ((o.keyword_syntax(KeywordSyntax::Octothorpe) as u8) << 2),
            nil: match o.nil_symbol() { NilSymbol::EmptyList => 0, NilSymbol::Default => 1, _ => 2 },
            t: match o.t_symbol() { TSymbol::True => 0, _ => 1 },
            brackets: match o.brackets() { Brackets::List => 0, _ => 1 },
            string: match o.string_syntax() { parse::StringSyntax::R6RS => 0, _ => 1 },
            chr: match o.char_syntax() { parse::CharSyntax::R6RS => 0, _ => 1 },
            racket: o.racket_hash_percent_symbols() as u8,
            digit: o.leading_digit_symbols() as u8,
        }
    }
    pub fn options(&self) -> parse::Options {
        let mut o = parse::Options::new();
        if self.kw & 1 != 0 {
            o = o.with_keyword_syntax(KeywordSyntax::ColonPrefix);
        }
        if self.kw & 2 != 0 {
            o = o.with_keyword_syntax(KeywordSyntax::ColonPostfix);
        }
        if self.kw & 4 != 0 {
            o = o.with_keyword_syntax(KeywordSyntax::Octothorpe);
        }
        o.with_nil_symbol(match self.nil {
            0 => NilSymbol::EmptyList,
            1 => NilSymbol::Default,
            _ => NilSymbol::Special,
        })
        .with_t_symbol(if self.t == 0 { TSymbol::True } else { TSymbol::Default })
        .with_brackets(if self.brackets == 0 { Brackets::List } else { Brackets::Vector })
        .with_string_syntax(if self.string == 0 { parse::StringSyntax::R6RS } else { parse::StringSyntax::Elisp })
        .with_char_syntax(if self.chr == 0 { parse::CharSyntax::R6RS } else { parse::CharSyntax::Elisp })
        .with_racket_hash_percent_symbols(self.racket == 1)
        .with_leading_digit_symbols(self.digit == 1)
    }
}
