//! C09: sexp! builds the value the parser reads from the same S-expression.
//! (1) The macro's own parser (lexpr-macros/src/parser.rs, compiled into this
//!     harness with #[path]) runs on token streams lexed by proc-macro2 from
//!     generated source text; its AST is compared with the model's.
//! (2) End to end: a throw-away crate full of sexp!(...) invocations next to
//!     lexpr::from_str("...") of the equivalent text is generated, compiled
//!     against /repo and run (see macrogen below, driven by bin/check).
use crate::enc::hex;
use crate::out::Out;
use crate::rng::Rng;
use proc_macro2::{Delimiter, Spacing, TokenStream, TokenTree};
use serde_json::json;
use std::str::FromStr;

fn enc_lit(l: &proc_macro2::Literal) -> String {
    let s = l.to_string();
    if s.starts_with('"') {
        let raw = &s[1..s.len() - 1];
        // cooked value: the generator only emits \" \\ \n escapes
        let mut cooked = String::new();
        let mut it = raw.chars();
        while let Some(c) = it.next() {
            if c == '\\' {
                match it.next() { Some('n') => cooked.push('\n'), Some('"') => cooked.push('"'), Some('\\') => cooked.push('\\'), Some(o) => { cooked.push('\\'); cooked.push(o) } None => cooked.push('\\') }
            } else { cooked.push(c) }
        }
        format!("Ls:{}:{}", hex(raw.as_bytes()), hex(cooked.as_bytes()))
    } else if s.starts_with('\'') {
        let inner: Vec<char> = s[1..s.len() - 1].chars().collect();
        let c = if inner.len() == 1 { inner[0] } else { match inner.get(1) { Some('n') => '\n', Some('\'') => '\'', Some('\\') => '\\', Some('t') => '\t', _ => '?' } };
        format!("Lc{:x}", c as u32)
    } else if s.bytes().all(|b| b.is_ascii_digit()) {
        format!("Li{}", s)
    } else if let Ok(f) = s.parse::<f64>() {
        format!("Lf{:016x}", f.to_bits())
    } else if s.starts_with(|c: char| c.is_ascii_digit()) {
        "Lon".into()
    } else {
        "Lo".into()
    }
}

pub fn enc_tokens(ts: TokenStream, out: &mut String) {
    for t in ts {
        out.push(' ');
        match t {
            TokenTree::Punct(p) => out.push_str(&format!("P{:x}{}", p.as_char() as u32, if p.spacing() == Spacing::Joint { 'j' } else { 'a' })),
            TokenTree::Literal(l) => out.push_str(&enc_lit(&l)),
            TokenTree::Ident(i) => out.push_str(&format!("I:{}", hex(i.to_string().as_bytes()))),
            TokenTree::Group(g) => {
                let d = match g.delimiter() { Delimiter::Parenthesis => 'p', Delimiter::Brace => 'b', Delimiter::Bracket => 'k', Delimiter::None => 'n' };
                let n = g.stream().into_iter().count();
                out.push_str(&format!("G{}{}", d, n));
                enc_tokens(g.stream(), out);
            }
        }
    }
}

fn enc_mvalue(v: &crate::value::Value, out: &mut String) {
    use crate::value::Value as M;
    match v {
        M::Nil => out.push_str("nil"),
        M::Literal(l) => out.push_str(&format!("lit {}", enc_lit(l))),
        M::Negated(l) => out.push_str(&format!("neg {}", enc_lit(l))),
        M::Bool(b) => out.push_str(if *b { "true" } else { "false" }),
        M::Symbol(s) => out.push_str(&format!("sym:{}", hex(s.as_bytes()))),
        M::Keyword(s) => out.push_str(&format!("kw:{}", hex(s.as_bytes()))),
        M::Unquoted(t) => { out.push_str("unq"); enc_tokens(TokenStream::from(t.clone()), out) }
        M::List(l) => { out.push_str(&format!("list{}", l.len())); for x in l { out.push(' '); enc_mvalue(x, out) } }
        M::ImproperList(l, r) => { out.push_str(&format!("improper{}", l.len())); for x in l { out.push(' '); enc_mvalue(x, out) } out.push(' '); enc_mvalue(r, out) }
        M::Vector(l) => { out.push_str(&format!("vec{}", l.len())); for x in l { out.push(' '); enc_mvalue(x, out) } }
    }
}

const IDENTS: &[&str] = &["foo", "bar", "x", "lambda", "nil", "t", "f", "Foo_1", "a1", "quote", "define"];
const PUNCT_SYMS: &[&str] = &["+", "-", "*", "/", "...", "<=", ">=", "=", "<", ">", "->", "=>", "!", "?", "..", "<=>", "&", "%", "^", "~", "::", "+=", "&&", "@", "$"];
const STRS: &[&str] = &["", "abc", "a b", "with \\\"quote\\\"", "line\\nbreak", "λ", "x-y"];

/// source text of one S-expression in the macro's syntax, and the equivalent lexpr text
pub fn gen_sx(r: &mut Rng, depth: u32, documented: bool) -> (String, String) {
    let atom = |r: &mut Rng| -> (String, String) {
        match r.below(if documented { 13 } else { 17 }) {
            // integers within i32 (the property's range: an unsuffixed Rust integer literal is an i32), floats in every spelling (fraction, exponent only, both)
            0 => { let n = if r.chance(1, 4) { *r.pick(&[2147483647u64, 2147483646, 1073741824, 65536]) } else { r.below(100000) }; (n.to_string(), n.to_string()) }
            1 => { let n = if r.chance(1, 4) { *r.pick(&[2147483648u64, 2147483647, 1073741824, 65536]) } else { r.below(100000) }; (format!("-{}", n), format!("-{}", n)) }
            2 if r.chance(1, 3) => { let t = *r.pick(&["1e21", "1e5", "5e-3", "2E3", "3e0", "1.5e3", "1e-7", "4.0e2", "6.02e23", "1e300"]); (t.to_string(), t.to_string()) }
            3 if r.chance(1, 3) => { let t = *r.pick(&["1e21", "1e5", "5e-3", "4e2", "2.5E-3", "1e300"]); (format!("-{}", t), format!("-{}", t)) }
            2 => { let f = r.below(10000) as f64 / 8.0 + 0.5; (format!("{:?}", f), format!("{:?}", f)) }
            3 => { let f = r.below(10000) as f64 / 8.0 + 0.5; (format!("-{:?}", f), format!("-{:?}", f)) }
            4 => { let s = *r.pick(STRS); (format!("\"{}\"", s), format!("\"{}\"", s)) }
            5 => { let c = *r.pick(&['a', 'Z', '0', '(', ' ', 'λ']); (format!("'{}'", c), if c == ' ' { "#\\space".to_string() } else { format!("#\\{}", c) }) }
            6 => { let b = *r.pick(&["#t", "#f", "#nil"]); (b.to_string(), b.to_string()) }
            7 | 8 => { let s = *r.pick(IDENTS); (s.to_string(), s.to_string()) }
            9 => { let s = *r.pick(&["foo-bar", "list->vector", "set!", "with.dot", "x:y"]); (format!("#\"{}\"", s), if s.contains(' ') { return_sym_text(s) } else { s.to_string() }) }
            10 => { let s = *r.pick(PUNCT_SYMS); (s.to_string(), s.to_string()) }
            11 => { let s = *r.pick(IDENTS); match r.below(2) { 0 => (format!("#:{}", s), format!("#:{}", s)), _ => (format!(":{}", s), format!("#:{}", s)) } }
            12 => { let s = *r.pick(&["foo-bar", "x", "a.b"]); (format!("#:\"{}\"", s), format!("#:{}", s)) }
            // outside the documented syntax
            13 => (*r.pick(&["#x", "#foo", "# :", "#[a]", "{a}", "[a]", "# (a)"])).to_string().pipe2(),
            14 => (*r.pick(&["foo-bar", "a.b", "x::y", "-x", "- 1", ": a", ":\"s\"", "#:+", "#:", "1.5e3", "0x10", "1u8", "b\"x\""])).to_string().pipe2(),
            15 => (*r.pick(&[",x", ",(1+2)", ", x", ",", "'a'", "b'a'"])).to_string().pipe2(),
            _ => (*r.pick(&[". x", "a . b . c", ".", "..."])).to_string().pipe2(),
        }
    };
    if depth >= 4 || r.chance(2, 5) {
        return atom(r);
    }
    let n = r.below(5) as usize;
    let mut items: Vec<(String, String)> = (0..n).map(|_| gen_sx(r, depth + 1, documented)).collect();
    // neighbours that only token adjacency could confuse (the macro sees tokens,
    // not whitespace): a keyword, then a punctuation symbol, then an identifier
    if r.chance(1, 6) {
        let k = *r.pick(IDENTS);
        let kw = match r.below(3) { 0 => (format!(":{}", k), format!("#:{}", k)), _ => (format!("#:{}", k), format!("#:{}", k)) };
        let p = *r.pick(&["-", "+", "*", "/", "->", "=", "<", "..", "::", "!", "?", "&", "%"]);
        let id = *r.pick(IDENTS);
        let at = r.below(items.len() as u64 + 1) as usize;
        items.insert(at, (id.to_string(), id.to_string()));
        items.insert(at, (p.to_string(), p.to_string()));
        items.insert(at, kw);
    }
    let n = items.len();
    let a: Vec<&str> = items.iter().map(|x| x.0.as_str()).collect();
    let b: Vec<&str> = items.iter().map(|x| x.1.as_str()).collect();
    match r.below(4) {
        0 => (format!("#({})", a.join(" ")), format!("#({})", b.join(" "))),
        1 if n > 0 => {
            let t = gen_sx(r, depth + 1, documented);
            (format!("({} . {})", a.join(" "), t.0), format!("({} . {})", b.join(" "), t.1))
        }
        _ => (format!("({})", a.join(" ")), format!("({})", b.join(" "))),
    }
}
fn return_sym_text(_s: &str) -> String { "|unprintable|".into() }
trait Pipe2 { fn pipe2(self) -> (String, String); }
impl Pipe2 for String { fn pipe2(self) -> (String, String) { (self.clone(), self) } }

pub fn run(tier: &str, seed: u64, out: &mut Out) {
    let mut r = Rng::new(seed);
    let n = match tier { "thorough" => 200_000, "search" => 60_000, _ => 12_000 };
    for i in 0..n {
        let documented = i % 3 != 2;
        let (src, _text) = gen_sx(&mut r, 0, documented);
        let ts = match TokenStream::from_str(&src) { Ok(t) => t, Err(_) => { out.count("lex:rejected"); continue } };
        out.count(if documented { "syntax:documented" } else { "syntax:foreign" });
        let mut case = String::from("macro");
        enc_tokens(ts.clone(), &mut case);
        let res = std::panic::catch_unwind(|| crate::parser::parse(ts));
        out.oracle_checks += 1;
        match res {
            Ok(Ok(v)) => { let mut o = String::from("ok "); enc_mvalue(&v, &mut o); out.case(case, o, true) }
            Ok(Err(e)) => {
                use crate::parser::ParseError as E;
                let k = match e { E::ExpectedStringLiteral(_) => "ExpectedStringLiteral".to_string(), E::UnexpectedToken(_) => "UnexpectedToken".to_string(), E::UnexpectedChar(c) => format!("UnexpectedChar {:x}", c as u32), E::UnexpectedDelimiter(_) => "UnexpectedDelimiter".to_string(), E::UnexpectedEnd => "UnexpectedEnd".to_string() };
                out.case(case, format!("err {}", k), true)
            }
            Err(_) => out.fail("panic", "the macro's parser panicked".into(), case, json!({"source": src})),
        }
    }
}

/// Source of the end-to-end crate: N invocations, each compared at run time.
pub fn macrogen(seed: u64, n: usize) -> String {
    let mut r = Rng::new(seed ^ 0x5eed);
    let mut s = String::from("// generated by harness C09 macrogen\n#![allow(unused_parens, clippy::all)]\nuse lexpr::sexp;\nfn main() {\n    let mut bad = 0usize;\n    let mut n = 0usize;\n");
    let mut k = 0;
    while k < n {
        // the first program is always the recorded known finding, so that every run exhibits it
        let (src, text) = if k == 0 { ("(- 1 2)".to_string(), "(- 1 2)".to_string()) }
            // regression: a minus sign before a character or string literal is the symbol `-`
            else if k == 1 { ("(- 'a' \"s\")".to_string(), "(- #\\a \"s\")".to_string()) }
            else if k == 2 { ("(#t #f - '0')".to_string(), "(#t #f - #\\0)".to_string()) }
            else { gen_sx(&mut r, 0, true) };
        if text.contains("|unprintable|") || TokenStream::from_str(&src).is_err() { continue; }
        // the inherent `- 1` ambiguity: a lone minus directly before a numeric literal
        let known = src.contains("- 0") || src.contains("- 1") || src.contains("- 2") || src.contains("- 3") || src.contains("- 4") || src.contains("- 5") || src.contains("- 6") || src.contains("- 7") || src.contains("- 8") || src.contains("- 9");
        s.push_str(&format!("    {{ let m = sexp!({}); let p = lexpr::from_str({:?}); n += 1; match p {{ Ok(p) if p == m => {{}} other => {{ bad += 1; println!(\"MISMATCH known={} src={{:?}} text={{:?}} macro={{}} parser={{:?}}\", {:?}, {:?}, m, other.map(|v| v.to_string()).map_err(|e| e.to_string())); }} }} }}\n", src, text, known, src, text));
        k += 1;
    }
    // unquoting
    s.push_str("    { let x = 42u8; let v = vec![lexpr::Value::from(1), lexpr::Value::from(\"s\")]; let m = sexp!((a ,x (b . ,(x as i64 - 50)) . ,(v.clone()))); n += 1; let want = lexpr::Value::append(vec![lexpr::Value::symbol(\"a\"), lexpr::Value::from(42u8), lexpr::Value::cons(lexpr::Value::symbol(\"b\"), lexpr::Value::from(-8i64))], lexpr::Value::from(v.clone())); if m != want { bad += 1; println!(\"MISMATCH known=false src=\\\"unquote\\\" text=\\\"\\\" macro={} parser={}\", m, want); } }\n");
    s.push_str("    println!(\"DONE n={} bad={}\", n, bad);\n}\n");
    s
}
