//! Structured value generation: every kind, boundary-heavy atoms, nested
//! proper/dotted lists and vectors.
use crate::rng::Rng;
use lexpr::{Number, Value};

#[derive(Clone, Copy, PartialEq, Debug)]
pub enum NameMode {
    /// any non-empty valid UTF-8 text (printing only)
    Any,
    /// R7RS identifiers without the |...| form (plain under default options)
    PlainR7rs,
    /// conservative names that are plain under every option set
    PlainAllDialects,
}

#[derive(Clone, Copy, PartialEq, Debug)]
pub enum FloatMode {
    None,
    /// finite, shortest form <= 15 significant digits and |exponent| <= 22
    ExactFast,
    Finite,
    All,
}

#[derive(Clone, Copy, Debug)]
pub struct GenCfg {
    pub max_depth: u32,
    pub max_len: u64,
    pub names: NameMode,
    pub floats: FloatMode,
    pub nil_bool: bool,
}

impl Default for GenCfg {
    fn default() -> Self {
        GenCfg { max_depth: 4, max_len: 5, names: NameMode::PlainR7rs, floats: FloatMode::Finite, nil_bool: true }
    }
}

pub const ALPHA_NONASCII: &[char] = &['λ', 'é', 'ж', '中', 'ß', 'ª', 'Ω', '𝒜', 'ａ', 'ǅ', 'あ', '\u{10400}'];
pub const OTHER_NONASCII: &[char] = &[
    '→', '😀', '\u{85}', '\u{a0}', '\u{2028}', '×', '¡', '\u{200b}', '\u{301}', '\u{ffff}', '\u{10ffff}', '٣',
];
const SPECIAL_INITIAL: &[u8] = b"!$%&*/:<=>?^_~";

pub fn gen_u64(r: &mut Rng) -> u64 {
    match r.below(8) {
        0 => r.below(10),
        1 => {
            let k = r.below(64);
            (1u64 << k).wrapping_add(r.below(3)).wrapping_sub(1)
        }
        2 => {
            let k = r.below(20) as u32;
            10u64.pow(k).wrapping_add(r.below(3)).wrapping_sub(1)
        }
        3 => u64::MAX - r.below(3),
        4 => (i64::MAX as u64).wrapping_add(r.below(3)).wrapping_sub(1),
        5 => r.next() >> r.below(64),
        6 => r.below(100_000),
        _ => r.next(),
    }
}

pub fn gen_i64_neg(r: &mut Rng) -> i64 {
    match r.below(6) {
        0 => -(r.below(10) as i64) - 1,
        1 => {
            let k = r.below(63);
            -((1i64 << k).wrapping_add(r.below(3) as i64).wrapping_sub(1)).max(1)
        }
        2 => i64::MIN + r.below(3) as i64,
        3 => -(10i64.pow(r.below(19) as u32)),
        _ => {
            let v = (r.next() >> (1 + r.below(63))) as i64;
            -(v.max(1))
        }
    }
}

pub fn shortest_is_exact_fast(f: f64) -> bool {
    // shortest decimal form has <= 15 significant digits and |exponent| <= 22,
    // where the value is digits * 10^exponent with digits an integer
    if !f.is_finite() {
        return false;
    }
    if f == 0.0 {
        return true;
    }
    let mut b = ryu::Buffer::new();
    let s = b.format(f).trim_start_matches('-').to_string();
    let (mant, exp) = match s.find('e') {
        Some(i) => (&s[..i], s[i + 1..].parse::<i32>().unwrap()),
        None => (&s[..], 0),
    };
    let (ip, fp) = match mant.find('.') {
        Some(i) => (&mant[..i], &mant[i + 1..]),
        None => (mant, ""),
    };
    let fp = fp.trim_end_matches('0');
    let digits = format!("{}{}", ip, fp);
    let digits = digits.trim_start_matches('0');
    let e10 = exp - fp.len() as i32;
    // what the parser computes: significand = all digits, exponent = e10
    // (trailing zeros of the integer part stay in the significand)
    digits.len() <= 15 && e10.abs() <= 22
}

pub fn gen_f64(r: &mut Rng, mode: FloatMode) -> f64 {
    loop {
        let f = match r.below(12) {
            0 => {
                let m = r.below(1_000_000_000_000_000) as f64;
                let e = r.below(45) as i32 - 22;
                // may be inexact; filtered below when required
                format!("{}e{}", m, e).parse::<f64>().unwrap()
            }
            1 => (r.below(2000) as f64 - 1000.0) / [1.0, 2.0, 4.0, 8.0, 10.0, 100.0][r.below(6) as usize],
            2 => 2f64.powi(r.below(2098) as i32 - 1074),
            3 => format!("1e{}", r.below(632) as i32 - 323).parse::<f64>().unwrap(),
            4 => f64::from_bits(r.next() & 0x7FFF_FFFF_FFFF_FFFF),
            5 => f64::from_bits(r.below(1 << 52)), // subnormals
            6 => *r.pick(&[0.0, -0.0, 1.0, -1.0, 1.5, f64::MAX, f64::MIN_POSITIVE, 5e-324, 1e21, 1e22, 1e23, 9007199254740993.0, 0.1, 0.3, 1e-7, 123456789012345680.0, 1e15, 1e16, 1e-5]),
            7 => (r.next() >> r.below(64)) as f64,
            8 => {
                // 16-17 significant digits
                let m = r.range(1_000_000_000_000_000, 99_999_999_999_999_999);
                let e = r.below(600) as i32 - 300;
                format!("{}e{}", m, e).parse::<f64>().unwrap()
            }
            9 => match mode {
                FloatMode::All => *r.pick(&[f64::NAN, f64::INFINITY, f64::NEG_INFINITY]),
                _ => 2.5,
            },
            10 => f64::from(f32::from_bits(r.next() as u32)),
            _ => {
                let m = r.below(100000) as f64;
                m / 1000.0
            }
        };
        let f = if r.chance(1, 4) { -f } else { f };
        match mode {
            FloatMode::All => return f,
            FloatMode::Finite => {
                if f.is_finite() {
                    return f;
                }
            }
            FloatMode::ExactFast => {
                if shortest_is_exact_fast(f) {
                    return f;
                }
            }
            FloatMode::None => return 0.0,
        }
    }
}

pub fn gen_char(r: &mut Rng) -> char {
    match r.below(12) {
        0 => r.range(0x20, 0x7e) as u8 as char,
        1 => r.below(0x20) as u8 as char,
        2 => '\x7f',
        3 => char::from_u32(r.range(0x80, 0xff) as u32).unwrap(),
        4 => char::from_u32(r.range(0x100, 0xd7ff) as u32).unwrap(),
        5 => char::from_u32(r.range(0xe000, 0xffff) as u32).unwrap(),
        6 => char::from_u32(r.range(0x10000, 0x10ffff) as u32).unwrap(),
        7 => *r.pick(&['\u{d7ff}', '\u{e000}', '\u{fffd}', '\u{10ffff}', '\u{0}', '\u{7ff}', '\u{800}', '\u{ffff}', '\u{10000}']),
        8 => *r.pick(&['(', ')', '[', ']', '"', ';', '#', ' ', 'x', '\\', '|', '\'', '`', ',', '.', '?', 'a', 'f', '0', '7', '\n', '\t']),
        9 => *r.pick(ALPHA_NONASCII),
        10 => *r.pick(OTHER_NONASCII),
        _ => r.range(0x61, 0x7a) as u8 as char,
    }
}

pub fn gen_string(r: &mut Rng) -> String {
    let n = match r.below(6) {
        0 => 0,
        1 => 1,
        5 => r.below(40),
        _ => r.below(10),
    };
    let mut s = String::new();
    for _ in 0..n {
        if r.chance(1, 2) {
            s.push(r.range(0x61, 0x7a) as u8 as char);
        } else {
            s.push(gen_char(r));
        }
    }
    s
}

fn push_initial(r: &mut Rng, s: &mut String) {
    match r.below(10) {
        0..=4 => s.push(r.range(0x61, 0x7a) as u8 as char),
        5 => s.push(r.range(0x41, 0x5a) as u8 as char),
        6 | 7 => s.push(*r.pick(SPECIAL_INITIAL) as char),
        _ => s.push(*r.pick(ALPHA_NONASCII)),
    }
}

fn push_subsequent(r: &mut Rng, s: &mut String) {
    match r.below(12) {
        0..=5 => push_initial(r, s),
        6 | 7 => s.push(r.range(0x30, 0x39) as u8 as char),
        8 | 9 => s.push(*r.pick(b"+-.@") as char),
        10 => s.push(*r.pick(OTHER_NONASCII)),
        _ => s.push(*r.pick(ALPHA_NONASCII)),
    }
}

fn push_sign_subsequent(r: &mut Rng, s: &mut String) {
    if r.chance(1, 3) {
        s.push(*r.pick(b"+-@") as char)
    } else {
        push_initial(r, s)
    }
}

/// An R7RS <identifier> (without the |...| form).
pub fn gen_r7rs_identifier(r: &mut Rng) -> String {
    let mut s = String::new();
    let tail = |r: &mut Rng, s: &mut String| {
        let n = r.below(6);
        for _ in 0..n {
            push_subsequent(r, s);
        }
    };
    match r.below(12) {
        0 => return (*r.pick(&["+", "-", "...", "..", "<=>", "->", "a", "nil", "t", "x", "e", "1+".trim_start_matches('1'), "list->vector", "set!", "&rest", ":a", "a:", "?a", "%x"])).to_string(),
        1 => {
            // <sign> <sign subsequent> <subsequent>*
            s.push(*r.pick(b"+-") as char);
            push_sign_subsequent(r, &mut s);
            tail(r, &mut s);
        }
        2 => {
            // <sign> . <dot subsequent> <subsequent>*
            s.push(*r.pick(b"+-") as char);
            s.push('.');
            if r.chance(1, 4) { s.push('.') } else { push_sign_subsequent(r, &mut s) }
            tail(r, &mut s);
        }
        3 => {
            // . <dot subsequent> <subsequent>*
            s.push('.');
            if r.chance(1, 4) { s.push('.') } else { push_sign_subsequent(r, &mut s) }
            tail(r, &mut s);
        }
        _ => {
            push_initial(r, &mut s);
            tail(r, &mut s);
        }
    }
    s
}

/// Names that every dialect reads back as the same symbol/keyword name:
/// ASCII letter first, then letters, digits and a few safe marks; never
/// nil/t, no colon at either end.
pub fn gen_safe_identifier(r: &mut Rng) -> String {
    loop {
        let mut s = String::new();
        s.push(r.range(0x61, 0x7a) as u8 as char);
        let n = r.below(6);
        for _ in 0..n {
            match r.below(8) {
                0 => s.push(r.range(0x30, 0x39) as u8 as char),
                1 => s.push(*r.pick(b"-_*!<=>/") as char),
                2 => s.push(*r.pick(ALPHA_NONASCII)),
                _ => s.push(r.range(0x61, 0x7a) as u8 as char),
            }
        }
        if s != "nil" && s != "t" {
            return s;
        }
    }
}

pub fn gen_name(r: &mut Rng, mode: NameMode) -> String {
    match mode {
        NameMode::Any => loop {
            let s = if r.chance(1, 2) { gen_string(r) } else { gen_r7rs_identifier(r) };
            if !s.is_empty() {
                return s;
            }
        },
        NameMode::PlainR7rs => gen_r7rs_identifier(r),
        NameMode::PlainAllDialects => gen_safe_identifier(r),
    }
}

pub fn gen_bytes(r: &mut Rng) -> Vec<u8> {
    let n = match r.below(5) {
        0 => 0,
        1 => 1,
        _ => r.below(12),
    };
    (0..n)
        .map(|_| match r.below(4) {
            0 => *r.pick(&[0u8, 1, 7, 8, 9, 10, 34, 92, 127, 128, 255, 63, 64]),
            _ => r.below(256) as u8,
        })
        .collect()
}

pub fn gen_atom(r: &mut Rng, cfg: &GenCfg) -> Value {
    loop {
        match r.below(12) {
            0 if cfg.nil_bool => return Value::Nil,
            1 => return Value::Null,
            2 if cfg.nil_bool => return Value::Bool(r.chance(1, 2)),
            3 => return Value::Number(Number::from(gen_u64(r))),
            4 => return Value::Number(Number::from(gen_i64_neg(r))),
            5 if cfg.floats != FloatMode::None => return Value::Number(Number::from(gen_f64(r, cfg.floats))),
            6 => return Value::Char(gen_char(r)),
            7 => return Value::String(gen_string(r).into()),
            8 | 11 => return Value::Symbol(gen_name(r, cfg.names).into()),
            9 => return Value::Keyword(gen_name(r, cfg.names).into()),
            10 => return Value::Bytes(gen_bytes(r).into()),
            _ => {}
        }
    }
}

/// A wide, shallow value: 130..300 elements of ONE kind in a list or a vector, possibly one level
/// down. What a parser does per element of a kind (a budget it charges, a buffer it reuses) adds up
/// here and nowhere else: nesting limits are about depth, not about how many datums sit side by side.
pub fn gen_wide(r: &mut Rng) -> Value {
    let n = 130 + r.below(171) as usize;
    let kind = r.below(9);
    let mut elems: Vec<Value> = Vec::with_capacity(n);
    for i in 0..n {
        elems.push(match kind {
            0 => Value::bytes(vec![(i % 256) as u8]),
            1 => Value::bytes(Vec::<u8>::new()),
            2 => Value::Vector(vec![Value::from(i as u64)].into()),
            3 => Value::list(vec![Value::symbol("quote"), Value::symbol("x")]),
            4 => Value::list(vec![Value::from(i as u64)]),
            5 => Value::string(format!("s{}", i)),
            6 => Value::Char(char::from_u32(0x61 + (i % 26) as u32).unwrap()),
            7 => Value::keyword(format!("k{}", i)),
            _ => Value::cons(Value::symbol("a"), Value::bytes(vec![1u8, 2])),
        });
    }
    let body = if r.chance(1, 2) { Value::list(elems) } else { Value::Vector(elems.into()) };
    match r.below(3) { 0 => body, 1 => Value::list(vec![Value::symbol("wide"), body]), _ => Value::Vector(vec![body, Value::Null].into()) }
}

pub fn gen_value(r: &mut Rng, cfg: &GenCfg, depth: u32) -> Value {
    if depth >= cfg.max_depth || r.chance(2, 5) {
        return gen_atom(r, cfg);
    }
    let n = r.below(cfg.max_len + 1);
    match r.below(5) {
        0 => {
            // vector
            Value::Vector((0..n).map(|_| gen_value(r, cfg, depth + 1)).collect())
        }
        1 => {
            // dotted list: tail is a non-null atom or vector
            let elems: Vec<Value> = (0..n.max(1)).map(|_| gen_value(r, cfg, depth + 1)).collect();
            let tail = loop {
                let t = if r.chance(1, 5) {
                    Value::Vector((0..r.below(3)).map(|_| gen_value(r, cfg, depth + 1)).collect())
                } else {
                    gen_atom(r, cfg)
                };
                if !t.is_null() {
                    break t;
                }
            };
            Value::append(elems, tail)
        }
        _ => Value::list((0..n).map(|_| gen_value(r, cfg, depth + 1)).collect::<Vec<_>>()),
    }
}

/// Does the value contain this kind? Used for histograms.
pub fn kind_name(v: &Value) -> &'static str {
    match v {
        Value::Nil => "nil",
        Value::Null => "null",
        Value::Bool(_) => "bool",
        Value::Number(n) => {
            if n.is_f64() { "float" } else if n.is_u64() { "posint" } else { "negint" }
        }
        Value::Char(_) => "char",
        Value::String(_) => "string",
        Value::Symbol(_) => "symbol",
        Value::Keyword(_) => "keyword",
        Value::Bytes(_) => "bytes",
        Value::Cons(_) => "cons",
        Value::Vector(_) => "vector",
    }
}

pub fn walk<F: FnMut(&Value)>(v: &Value, f: &mut F) {
    f(v);
    match v {
        Value::Cons(c) => {
            let mut cur = c;
            loop {
                walk(cur.car(), f);
                match cur.cdr() {
                    Value::Cons(n) => {
                        f(cur.cdr());
                        cur = n
                    }
                    t => {
                        walk(t, f);
                        break;
                    }
                }
            }
        }
        Value::Vector(els) => {
            for e in els.iter() {
                walk(e, f)
            }
        }
        _ => {}
    }
}

pub fn size(v: &Value) -> usize {
    let mut n = 0;
    walk(v, &mut |_| n += 1);
    n
}
