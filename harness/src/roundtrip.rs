//! C01, C02, C12, C13: print/parse round trips, datum sequences, fixed points.
use crate::c03::pick_ro;
use crate::dialect::*;
use crate::enc::{enc_case_value, enc_value, hex};
use crate::gentext::{gen_foreign, layout, trivia};
use crate::genval::{gen_value, kind_name, shortest_is_exact_fast, walk, FloatMode, GenCfg, NameMode};
use crate::indep::{read_one, Dialect};
use crate::out::Out;
use crate::pobs::*;
use crate::popts::{Po, Ro};
use crate::rng::Rng;
use lexpr::Value;
use serde_json::json;

const FAST: bool = cfg!(feature = "fast-float-parsing");

/// Are all floats of the value read back exactly in this build?
pub fn floats_exact(v: &Value) -> bool {
    if !FAST {
        return true;
    }
    let mut ok = true;
    all_floats(v, &mut |f| ok &= shortest_is_exact_fast(f));
    ok
}

fn print_entry_points(out: &mut Out, v: &Value, case: &str) -> Option<Vec<u8>> {
    // a panicking printer is a finding about this value, not a crash of the harness
    let printed = std::panic::catch_unwind(std::panic::AssertUnwindSafe(|| {
        let a = lexpr::to_string(v).ok()?;
        let b = lexpr::to_vec(v).ok()?;
        let mut c = Vec::new();
        lexpr::to_writer(&mut c, v).ok()?;
        let d = format!("{}", v);
        Some((a, b, c, d))
    }));
    let (a, b, c, d) = match printed {
        Ok(x) => x?,
        Err(_) => {
            out.fail("print-panic", "the printer panicked".into(), case.to_string(), json!({}));
            return Some(b"<printer panicked>".to_vec());
        }
    };
    out.oracle_checks += 1;
    if a.as_bytes() != &b[..] || b != c || d.as_bytes() != &b[..] {
        out.fail("print-entry-points", "to_string / to_vec / to_writer / Display disagree".into(), case.to_string(), json!({"to_string": a, "display": d}));
    }
    Some(b)
}

// ---------------------------------------------------------------- C01

pub fn c01_value(out: &mut Out, v: &Value) {
    walk(v, &mut |x| out.count(&format!("kind:{}", kind_name(x))));
    let case = format!("print0 {}", enc_case_value(v));
    let text = match print_entry_points(out, v, &case) {
        Some(t) => t,
        None => {
            out.fail("print-error", "printing failed".into(), case, json!({}));
            return;
        }
    };
    out.case(case.clone(), hex(&text), text.len() > 2);
    let exact = floats_exact(v);
    out.count(if exact { "floats:exact" } else { "floats:tolerance" });
    // four parse entry points
    let s = std::str::from_utf8(&text).unwrap();
    let results: Vec<(&str, Result<Value, lexpr::parse::Error>)> = vec![
        ("from_str", lexpr::from_str(s)),
        ("from_slice", lexpr::from_slice(&text)),
        ("from_reader", lexpr::from_reader(EvReader::new(vec![Ev::Bytes(text.clone())], 3))),
        ("FromStr", s.parse::<Value>()),
    ];
    for (name, r) in &results {
        out.oracle_checks += 1;
        match r {
            Ok(back) if value_eq(back, v, exact) => {}
            Ok(back) => out.fail("roundtrip", format!("{} of the printed text gives a different value", name), case.clone(), json!({"text": String::from_utf8_lossy(&text), "got": enc_value(back)})),
            Err(e) => out.fail("roundtrip", format!("{} rejects the printed text: {}", name, e), case.clone(), json!({"text": String::from_utf8_lossy(&text)})),
        }
    }
    for src in [Src::Str, Src::Slice, Src::Io] {
        let pc = format!("parse {} {} {}", src.name(), Ro::DEFAULT.code(), bytes_code(&text));
        if let Ok(r) = parse_value(src, Ro::DEFAULT, &text) {
            out.case(pc, vres_obs(&r), true);
        }
    }
    // independent reader of the documented R6RS/R7RS-style grammar
    out.oracle_checks += 1;
    match read_one(&text, Dialect::Scheme) {
        Some(back) if value_eq(&back, v, true) || value_eq(&back, v, false) => {}
        Some(back) => out.fail("independent-reader", "an independent R7RS-style reader reads the printed text as a different datum".into(), case.clone(), json!({"text": String::from_utf8_lossy(&text), "got": enc_value(&back)})),
        None => out.fail("independent-reader", "an independent R7RS-style reader cannot read the printed text".into(), case.clone(), json!({"text": String::from_utf8_lossy(&text)})),
    }
}

pub fn run_c01(tier: &str, seed: u64, out: &mut Out) {
    let mut r = Rng::new(seed);
    let n = match tier { "thorough" => 150_000, "search" => 40_000, _ => 4_000 };
    let cfg = GenCfg { max_depth: 4, max_len: 5, names: NameMode::PlainR7rs, floats: FloatMode::Finite, nil_bool: true };
    for _ in 0..n {
        let v = gen_value(&mut r, &cfg, 0);
        c01_value(out, &v);
    }
    // wide, shallow values: hundreds of datums of one kind side by side
    for _ in 0..(n / 100).max(18) {
        let v = crate::genval::gen_wide(&mut r);
        c01_value(out, &v);
    }
    // every byte in a byte vector, chars and one-char strings over scalar classes
    for b in 0..=255u8 {
        c01_value(out, &Value::bytes(vec![b]));
    }
    let step = if tier == "thorough" { 5 } else { 257 };
    let mut c = 0u32;
    while c <= 0x10ffff {
        if let Some(ch) = char::from_u32(c) {
            c01_value(out, &Value::Char(ch));
            c01_value(out, &Value::string(ch.to_string()));
        }
        c += step;
    }
    for k in 0..64 {
        for d in [-1i128, 0, 1] {
            let x = (1i128 << k) + d;
            if x >= 0 && x <= u64::MAX as i128 { c01_value(out, &Value::from(x as u64)); }
            if -x >= i64::MIN as i128 { c01_value(out, &Value::from((-x) as i64)); }
        }
    }
    c01_value(out, &Value::from(u64::MAX));
    c01_value(out, &Value::from(i64::MIN));
}

// ---------------------------------------------------------------- C02

fn gen_compatible_ro(r: &mut Rng, po: Po) -> Ro {
    let mut kw = match po.kw { 0 => 1, 1 => 2, _ => 4 };
    if r.chance(1, 3) {
        kw |= r.below(8) as u8;
    }
    Ro {
        kw,
        nil: r.below(3) as u8,
        t: r.below(2) as u8,
        brackets: if po.vec == 1 { 1 } else { r.below(2) as u8 },
        string: po.string,
        chr: po.chr,
        racket: r.below(2) as u8,
        digit: r.below(2) as u8,
    }
}

pub fn c02_case(out: &mut Out, v: &Value, po: Po, ro: Ro) {
    let case = format!("printc {} {}", po.code(), enc_case_value(v));
    let text = match lexpr::to_vec_custom(v, po.options()) {
        Ok(t) => t,
        Err(_) => return,
    };
    out.case(case.clone(), hex(&text), text.len() > 2);
    let want = fold(v, po, ro);
    let exact = floats_exact(v);
    let rcase = format!("{} ;; parse str {} {}", case, ro.code(), bytes_code(&text));
    out.oracle_checks += 1;
    match lexpr::from_str_custom(std::str::from_utf8(&text).unwrap(), ro.options()) {
        Ok(back) if value_eq(&back, &want, exact) => {}
        Ok(back) => out.fail("roundtrip", format!("printer options {} then parser options {}: a different value comes back", po.code(), ro.code()), rcase.clone(), json!({"text": String::from_utf8_lossy(&text), "got": enc_value(&back), "want": enc_value(&want)})),
        Err(e) => out.fail("roundtrip", format!("printer options {} then parser options {}: the printed text is rejected: {}", po.code(), ro.code(), e), rcase.clone(), json!({"text": String::from_utf8_lossy(&text)})),
    }
    for src in [Src::Str, Src::Io] {
        let pc = format!("parse {} {} {}", src.name(), ro.code(), bytes_code(&text));
        if let Ok(r) = parse_value(src, ro, &text) {
            out.case(pc, vres_obs(&r), true);
        }
    }
    if po == Po::ELISP && ro == Ro::ELISP {
        out.oracle_checks += 1;
        match read_one(&text, Dialect::Elisp) {
            Some(back) if value_eq(&back, &want, false) => {}
            Some(back) => out.fail("independent-reader", "an independent Emacs Lisp reader reads the printed text as a different datum".into(), rcase.clone(), json!({"text": String::from_utf8_lossy(&text), "got": enc_value(&back), "want": enc_value(&want)})),
            None => out.fail("independent-reader", "an independent Emacs Lisp reader cannot read the printed text".into(), rcase, json!({"text": String::from_utf8_lossy(&text)})),
        }
    }
}

pub fn run_c02(tier: &str, seed: u64, out: &mut Out) {
    let mut r = Rng::new(seed);
    let (n, per_po) = match tier { "thorough" => (60_000, 40), "search" => (30_000, 10), _ => (3_000, 2) };
    let cfg = GenCfg { max_depth: 4, max_len: 5, names: NameMode::PlainR7rs, floats: FloatMode::Finite, nil_bool: true };
    let all = Po::all();
    let mut run_one = |out: &mut Out, r: &mut Rng, po: Po| {
        if po.bytes == 2 && po.string == 0 {
            // Emacs unibyte strings for bytes next to R6RS strings: no parser
            // option set recognises both string syntaxes at once
            out.count("pairing:no-compatible-parser");
            return;
        }
        let ro = if po == Po::ELISP && r.chance(1, 2) { Ro::ELISP } else { gen_compatible_ro(r, po) };
        debug_assert!(compatible(po, ro));
        // names must be plain in this dialect: regenerate until they are
        for _ in 0..50 {
            let v = gen_value(r, &cfg, 0);
            if all_names_plain(&v, ro) {
                out.count(&format!("pairing:{}", if po == Po::ELISP && ro == Ro::ELISP { "elisp/elisp" } else if po == Po::DEFAULT { "default-po" } else { "mixed" }));
                c02_case(out, &v, po, ro);
                return;
            }
        }
    };
    for i in 0..n {
        let po = match i % 4 { 0 => Po::ELISP, 1 => Po::DEFAULT, _ => all[r.below(576) as usize] };
        run_one(out, &mut r, po);
    }
    for po in &all {
        for _ in 0..per_po {
            run_one(out, &mut r, *po);
        }
    }
    out.extra.insert("printer_option_sets_covered".into(), json!(576));
}

// ---------------------------------------------------------------- C12

fn items_four_ways(out: &mut Out, text: &[u8], ro: Ro, case: &str) -> Option<Vec<String>> {
    let cap = text.len() + 3;
    let mut all: Vec<Vec<String>> = vec![];
    for mode in ['n', 'v', 'p'] {
        match iterate(Src::Str, ro, text, mode, cap) {
            Ok(items) => all.push(items),
            Err(p) => {
                out.fail("panic", format!("iteration panicked: {}", p), case.to_string(), json!({}));
                return None;
            }
        }
    }
    // datum_iter, reduced to values
    let d = {
        let mut p = lexpr::Parser::from_str_custom(std::str::from_utf8(text).unwrap(), ro.options());
        let mut v = vec![];
        for it in p.datum_iter().take(cap) {
            v.push(match it { Ok(d) => format!("ok {}", enc_value(d.value())), Err(e) => err_obs(&e) });
        }
        v
    };
    all.push(d);
    out.oracle_checks += 1;
    if all.iter().any(|x| x != &all[0]) {
        out.fail("four-ways", "next_value loop, value_iter, Iterator for Parser and datum_iter disagree".into(), case.to_string(), json!({"text": String::from_utf8_lossy(text)}));
    }
    if all[0].len() >= cap {
        out.fail("nontermination", "iteration did not end".into(), case.to_string(), json!({}));
    }
    Some(all.remove(0))
}

pub fn run_c12(tier: &str, seed: u64, out: &mut Out) {
    let mut r = Rng::new(seed);
    let n = match tier { "thorough" => 60_000, "search" => 20_000, _ => 2_000 };
    for i in 0..n {
        let (po, ro, names) = if i % 2 == 0 { (Po::DEFAULT, Ro::DEFAULT, NameMode::PlainR7rs) } else { (Po::ELISP, Ro::ELISP, NameMode::PlainAllDialects) };
        let cfg = GenCfg { max_depth: 3, max_len: 4, names, floats: FloatMode::ExactFast, nil_bool: true };
        let k = r.below(6) as usize;
        let vals: Vec<Value> = loop {
            let vs: Vec<Value> = (0..k).map(|_| gen_value(&mut r, &cfg, 0)).collect();
            if vs.iter().all(|v| all_names_plain(v, ro)) { break vs; }
        };
        out.count(&format!("dialect:{}", if i % 2 == 0 { "default" } else { "elisp" }));
        out.count(&format!("values:{}", k));
        // two layouts of the same token sequence
        let mut texts: Vec<String> = vec![];
        for p in [0u64, 35, 80] {
            let mut t = String::new();
            if r.chance(1, 3) { t.push_str(&trivia(&mut r)); }
            for (j, v) in vals.iter().enumerate() {
                if j > 0 { t.push_str(&if p == 0 { " ".to_string() } else { trivia(&mut r) }); }
                layout(v, po, &mut r, p, &mut t);
            }
            if r.chance(1, 3) { t.push_str(&trivia(&mut r)); }
            if r.chance(1, 5) { t.push_str(";final comment without newline"); }
            texts.push(t);
        }
        let want: Vec<String> = vals.iter().map(|v| format!("ok {}", enc_value(&fold(v, po, ro)))).collect();
        for t in &texts {
            let case = format!("iter str {} v {} {}", ro.code(), t.len() + 3, bytes_code(t.as_bytes()));
            if let Some(items) = items_four_ways(out, t.as_bytes(), ro, &case) {
                out.oracle_checks += 1;
                if items != want {
                    out.fail("sequence", "parsing the concatenation of printed values with trivia does not yield exactly those values".into(), case.clone(), json!({"text": t, "got": items, "want": want}));
                }
                out.case(case, items.join(" ;; "), k > 0);
            }
        }
    }
    // malformed streams: termination and four-way agreement
    for _ in 0..n / 2 {
        let t = gen_foreign(&mut r);
        let ro = if r.chance(1, 2) { Ro::DEFAULT } else { Ro::ELISP };
        let case = format!("iter str {} v {} {}", ro.code(), t.len() + 3, bytes_code(t.as_bytes()));
        if let Some(items) = items_four_ways(out, t.as_bytes(), ro, &case) {
            out.count("stream:foreign");
            out.case(case, items.join(" ;; "), true);
        }
    }
    // hundreds of datums of one kind on one parser, runs of failing datums followed by ordinary ones
    for t in crate::gentext::wide_sequences() {
        for ro in [Ro::DEFAULT, Ro::ELISP] {
            let case = format!("iter str {} v {} {}", ro.code(), t.len() + 3, bytes_code(t.as_bytes()));
            if let Some(items) = items_four_ways(out, t.as_bytes(), ro, &case) {
                out.count("stream:wide");
                out.case(case, items.join(" ;; "), true);
            }
        }
    }
}

// ---------------------------------------------------------------- C13

pub fn c13_text(out: &mut Out, text: &[u8], ro: Ro) {
    let po = corr(ro);
    let case = format!("parse slice {} {}", ro.code(), bytes_code(text));
    let v = match parse_value(Src::Slice, ro, text) {
        Ok(Ok(v)) => v,
        Ok(Err(_)) => {
            out.count("first-parse:rejected");
            return;
        }
        Err(p) => {
            out.fail("panic", format!("parse panicked: {}", p), case, json!({}));
            return;
        }
    };
    out.count("first-parse:accepted");
    out.case(case.clone(), vres_obs(&Ok(v.clone())), true);
    let t1 = match lexpr::to_vec_custom(&v, po.options()) {
        Ok(t) => t,
        Err(e) => {
            out.fail("print-error", format!("printing the parsed value failed: {}", e), case, json!({}));
            return;
        }
    };
    out.case(format!("printc {} {}", po.code(), enc_case_value(&v)), hex(&t1), true);
    let want = fold(&v, po, ro);
    let exact = floats_exact(&v);
    out.oracle_checks += 1;
    let v2 = match parse_value(Src::Slice, ro, &t1) {
        Ok(Ok(v2)) => v2,
        Ok(Err(e)) => {
            out.fail("reparse", format!("the parser accepts a text whose value is printed as something it rejects: {}", e), case, json!({"input": String::from_utf8_lossy(text), "printed": String::from_utf8_lossy(&t1), "options": ro.code()}));
            return;
        }
        Err(p) => {
            out.fail("panic", format!("re-parse panicked: {}", p), case, json!({}));
            return;
        }
    };
    if !value_eq(&v2, &want, exact) {
        out.fail("reparse", "parse, print, parse gives a different value".into(), case.clone(), json!({"input": String::from_utf8_lossy(text), "printed": String::from_utf8_lossy(&t1), "first": enc_value(&v), "second": enc_value(&v2), "options": ro.code()}));
        return;
    }
    if exact {
        out.oracle_checks += 1;
        let t2 = lexpr::to_vec_custom(&v2, po.options()).unwrap_or_default();
        // the fold may change the value once (empty byte vector -> ""), after that the text is fixed
        let t3 = parse_value(Src::Slice, ro, &t2).ok().and_then(|r| r.ok()).and_then(|v3| lexpr::to_vec_custom(&v3, po.options()).ok()).unwrap_or_default();
        if value_eq(&v2, &v, true) && t2 != t1 {
            out.fail("fixpoint", "printing the re-parsed value gives a different text".into(), case.clone(), json!({"printed": String::from_utf8_lossy(&t1), "printed_again": String::from_utf8_lossy(&t2)}));
        } else if t3 != t2 {
            out.fail("fixpoint", "parse/print does not reach a fixed point".into(), case, json!({"printed": String::from_utf8_lossy(&t2), "printed_again": String::from_utf8_lossy(&t3)}));
        }
    }
}

pub fn run_c13(tier: &str, seed: u64, out: &mut Out) {
    let mut r = Rng::new(seed);
    let n = match tier { "thorough" => 200_000, "search" => 60_000, _ => 8_000 };
    let all = Ro::all();
    for i in 0..n {
        let t = gen_foreign(&mut r);
        let ro = pick_ro(&mut r, &all);
        out.count(&format!("ro:{}", if ro == Ro::DEFAULT { "default" } else if ro == Ro::ELISP { "elisp" } else { "mixed" }));
        c13_text(out, t.as_bytes(), ro);
        if i % 4 == 0 {
            // single tokens, where near misses live
            let tok = *r.pick(crate::gentext::NEAR_MISS);
            c13_text(out, tok.as_bytes(), ro);
            // the same token quoted and inside a list: a token must read the same in every context
            c13_text(out, format!("'{}", tok).as_bytes(), ro);
            c13_text(out, format!("(z {})", tok).as_bytes(), ro);
            let tok = *r.pick(crate::gentext::NUM_TOKENS);
            c13_text(out, tok.as_bytes(), ro);
            let tok = *r.pick(crate::gentext::STR_TOKENS);
            c13_text(out, tok.as_bytes(), ro);
        }
    }
}
