//! C05, C06, C08, C10, C11, C17, C19.
use crate::c03::{pick_ro, srcs_for};
use crate::dialect::*;
use crate::enc::{enc_case_value, enc_value, hex};
use crate::gentext::*;
use crate::genval::{gen_f64, gen_u64, gen_value, FloatMode, GenCfg, NameMode};
use crate::out::Out;
use crate::pobs::*;
use crate::popts::{Po, Ro};
use crate::rng::Rng;
use lexpr::datum::Ref;
use lexpr::parse::error::Category;
use lexpr::Value;
use serde_json::json;

const FAST: bool = cfg!(feature = "fast-float-parsing");

// ================================================================ C05

/// Minimal big natural number (base 10^9) for exact integer literals.
#[derive(Clone, Debug)]
struct Big(Vec<u32>);
impl Big {
    fn zero() -> Big { Big(vec![]) }
    fn mul_add(&mut self, m: u32, a: u32) {
        let mut carry = a as u64;
        for d in self.0.iter_mut() {
            let x = *d as u64 * m as u64 + carry;
            *d = (x % 1_000_000_000) as u32;
            carry = x / 1_000_000_000;
        }
        while carry > 0 {
            self.0.push((carry % 1_000_000_000) as u32);
            carry /= 1_000_000_000;
        }
    }
    fn from_digits(digits: &str, radix: u32) -> Big {
        let mut b = Big::zero();
        for c in digits.chars() {
            b.mul_add(radix, c.to_digit(radix).unwrap());
        }
        b
    }
    fn to_dec(&self) -> String {
        if self.0.is_empty() { return "0".into(); }
        let mut s = format!("{}", self.0.last().unwrap());
        for d in self.0.iter().rev().skip(1) { s.push_str(&format!("{:09}", d)); }
        s
    }
    fn to_u128(&self) -> Option<u128> {
        if self.0.len() > 4 { return None; }
        let mut v: u128 = 0;
        for d in self.0.iter().rev() { v = v.checked_mul(1_000_000_000)?.checked_add(*d as u128)?; }
        Some(v)
    }
}

fn gen_int_literal(r: &mut Rng) -> (String, u32, bool, String) {
    // (literal text, radix, negative, digits)
    let radix = *r.pick(&[10u32, 10, 10, 2, 8, 16]);
    let neg = r.chance(1, 3);
    let mag: u128 = match r.below(6) {
        0 => gen_u64(r) as u128,
        1 => (1u128 << r.below(70)) + r.below(3) as u128 - 1,
        2 => 10u128.pow(r.below(25) as u32) + r.below(3) as u128 - 1,
        3 => (u64::MAX as u128) + r.below(3) as u128 - 1,
        4 => (1u128 << 63) + r.below(3) as u128 - 1,
        _ => r.next() as u128 * (r.next() >> r.below(64)) as u128,
    };
    let mut digits = match radix { 2 => format!("{:b}", mag), 8 => format!("{:o}", mag), 16 => if r.chance(1, 2) { format!("{:x}", mag) } else { format!("{:X}", mag) }, _ => format!("{}", mag) };
    if r.chance(1, 20) {
        // very long digit strings
        let extra = r.below(380) as usize;
        for _ in 0..extra { digits.push(std::char::from_digit(r.below(radix as u64) as u32, radix).unwrap()); }
    }
    if r.chance(1, 5) { digits = "0".repeat(r.below(4) as usize + 1) + &digits; }
    let prefix = match radix { 2 => "#b", 8 => "#o", 16 => "#x", _ => if r.chance(1, 4) { "#d" } else { "" } };
    let sign = if neg { "-" } else if r.chance(1, 5) { "+" } else { "" };
    (format!("{}{}{}", prefix, sign, digits), radix, neg, digits)
}

fn gen_dec_literal(r: &mut Rng) -> String {
    match r.below(8) {
        0 | 1 => {
            // shortest form of a double
            let f = gen_f64(r, FloatMode::Finite);
            let mut b = ryu::Buffer::new();
            b.format(f).to_string()
        }
        2 => {
            // 17 significant digits
            let f = gen_f64(r, FloatMode::Finite);
            format!("{:.16e}", f)
        }
        3 => {
            let ip = r.below(1_000_000);
            let fp = r.below(1_000_000_000);
            format!("{}{}.{}", if r.chance(1, 3) { "-" } else { "" }, ip, fp)
        }
        4 => {
            // digits fit 2^53, |exp| <= 22
            let m = r.below(1 << 53);
            let e = r.below(45) as i32 - 22;
            format!("{}{}{}", m, *r.pick(&["e", "E"]), e)
        }
        5 => {
            // long digit strings with fraction and exponent
            let n = 1 + r.below(60) as usize;
            let mut s = String::new();
            for i in 0..n { s.push(std::char::from_digit(if i == 0 { 1 + r.below(9) as u32 } else { r.below(10) as u32 }, 10).unwrap()); }
            let cut = r.below(n as u64 + 1) as usize;
            let (a, b) = s.split_at(cut);
            let a = if a.is_empty() { "0" } else { a };
            let e = r.below(700) as i32 - 350;
            if b.is_empty() { format!("{}{}{}", a, *r.pick(&["e", "E"]), e) } else { format!("{}.{}{}{}", a, b, *r.pick(&["e", "E"]), e) }
        }
        6 => {
            // halfway cases: 2^53 + 1 and neighbours scaled
            let base = (1u64 << 53) + r.below(5);
            format!("{}{}", base, "0".repeat(r.below(5) as usize))
        }
        _ => {
            // exponents at the edges of the double range and of i32, digits (zeros too) after the overflow point
            let e = *r.pick(&[308i64, 309, -323, -324, -325, 400, -400, 22, 23, -22, -23, 2147483647, 2147483648, -2147483648, 99999999999,
                              21474836470, -21474836480, 30000000000, -30000000000, 1000000000000000, -1000000000000000, 2147483650, -2147483650]);
            // ... and within a few units of the i32 limits, so that the fraction
            // digits (each lowers the exponent by one) carry the sum across them
            let e = if r.chance(1, 3) { let k = r.below(40) as i64; *r.pick(&[2147483648i64 - k, -2147483648 + k, 2147483648 + k, -2147483648 - k]) } else { e };
            match r.below(6) {
                0 => format!("0e{}", e),
                1 => format!("0.0e{}", e),
                2 | 3 => {
                    let nf = 1 + r.below(25) as usize;
                    let mut fr = String::new();
                    for _ in 0..nf { fr.push(std::char::from_digit(r.below(10) as u32, 10).unwrap()); }
                    format!("{}{}.{}{}{}", if r.chance(1, 4) { "-" } else { "" }, r.below(20), fr, *r.pick(&["e", "E"]), e)
                }
                _ => format!("{}e{}", 1 + r.below(20), e),
            }
        }
    }
}

/// digits (significand as the parser accumulates it, capped at u64) and final exponent
fn fast_path_exact(lit: &str) -> bool {
    let t = lit.trim_start_matches(|c| c == '+' || c == '-');
    let (mant, exp) = match t.find(|c| c == 'e' || c == 'E') { Some(i) => (&t[..i], t[i + 1..].parse::<i64>().unwrap_or(i64::MAX)), None => (t, 0) };
    let (ip, fp) = match mant.find('.') { Some(i) => (&mant[..i], &mant[i + 1..]), None => (mant, "") };
    let digits = format!("{}{}", ip, fp);
    let digits = digits.trim_start_matches('0');
    if digits.len() > 16 { return false; }
    let sig: u64 = digits.parse().unwrap_or(0);
    let e = exp.saturating_sub(fp.len() as i64);
    sig < (1u64 << 53) && e.abs() <= 22
}

fn sig_digits(lit: &str) -> usize {
    let t = lit.trim_start_matches(|c| c == '+' || c == '-');
    let mant = match t.find(|c| c == 'e' || c == 'E') { Some(i) => &t[..i], None => t };
    mant.replace('.', "").trim_start_matches('0').len()
}

pub fn run_c05(tier: &str, seed: u64, out: &mut Out) {
    let mut r = Rng::new(seed);
    let n = match tier { "thorough" => 400_000, "search" => 100_000, _ => 12_000 };
    for _ in 0..n {
        // integers
        let (lit, radix, neg, digits) = gen_int_literal(&mut r);
        let case = format!("parse str {} {}", Ro::DEFAULT.code(), bytes_code(lit.as_bytes()));
        let res = match parse_value(Src::Str, Ro::DEFAULT, lit.as_bytes()) {
            Ok(x) => x,
            Err(p) => { out.fail("panic", format!("the parser panicked on the numeric literal {}: {}", lit, p), case.clone(), json!({"literal": lit})); continue; }
        };
        out.count(&format!("int-radix:{}", radix));
        out.oracle_checks += 1;
        let big = Big::from_digits(&digits, radix);
        let exact = big.to_u128();
        let in_range = match exact { Some(m) => if neg { m <= 1u128 << 63 } else { m <= u64::MAX as u128 }, None => false };
        match &res {
            Ok(Value::Number(nm)) => {
                if in_range {
                    let m = exact.unwrap();
                    let ok = if neg && m > 0 { nm.as_i64().map(|i| i as i128) == Some(-(m as i128)) } else { nm.as_u64().map(|u| u as u128) == Some(m) };
                    if !ok { out.fail("integer", format!("integer literal {} does not parse to its exact value", lit), case.clone(), json!({"got": format!("{:?}", nm)})); }
                } else {
                    let want: f64 = big.to_dec().parse::<f64>().unwrap() * if neg { -1.0 } else { 1.0 };
                    let ok = nm.is_f64() && float_close(nm.as_f64().unwrap(), want) && nm.as_f64().unwrap().is_finite();
                    if !ok && want.is_finite() { out.fail("integer", format!("out-of-range integer literal {} does not parse to a float near its value {}", lit, want), case.clone(), json!({"got": format!("{:?}", nm)})); }
                }
                out.count(if in_range { "int:in-range" } else { "int:beyond-64-bits" });
            }
            Ok(other) => out.fail("integer", format!("integer literal {} parsed to a non-number", lit), case.clone(), json!({"got": enc_value(other)})),
            Err(e) => {
                let want: f64 = big.to_dec().parse::<f64>().unwrap();
                if in_range || want.is_finite() { out.fail("integer", format!("integer literal {} rejected: {}", lit, e), case.clone(), json!({})); }
            }
        }
        out.case(case, vres_obs(&res), true);

        // decimals (an exponent without a sign is given an explicit '+' now and then)
        let lit = {
            let l = gen_dec_literal(&mut r);
            match l.find(|c| c == 'e' || c == 'E') {
                Some(i) if r.chance(1, 3) && l[i + 1..].starts_with(|c: char| c.is_ascii_digit()) => format!("{}+{}", &l[..=i], &l[i + 1..]),
                _ => l,
            }
        };
        let case = format!("parse str {} {}", Ro::DEFAULT.code(), bytes_code(lit.as_bytes()));
        let res = match parse_value(Src::Str, Ro::DEFAULT, lit.as_bytes()) {
            Ok(x) => x,
            Err(p) => { out.fail("panic", format!("the parser panicked on the numeric literal {}: {}", lit, p), case.clone(), json!({"literal": lit})); continue; }
        };
        out.oracle_checks += 1;
        let is_decimal = lit.contains('.') || lit.contains('e') || lit.contains('E');
        if is_decimal {
            let reference: f64 = lit.parse::<f64>().unwrap_or(f64::NAN);
            match &res {
                Ok(Value::Number(nm)) if nm.is_f64() => {
                    let got = nm.as_f64().unwrap();
                    let must_be_exact = fast_path_exact(&lit) || (!FAST && sig_digits(&lit) <= 19);
                    out.count(if must_be_exact { "dec:exact-class" } else { "dec:tolerance-class" });
                    if !got.is_finite() {
                        out.fail("decimal", format!("literal {} parsed to a non-finite float", lit), case.clone(), json!({}));
                    } else if must_be_exact && got.to_bits() != reference.to_bits() {
                        out.fail("decimal", format!("literal {} is not correctly rounded: got {:e}, want {:e}", lit, got, reference), case.clone(), json!({}));
                    } else if !float_close(got, reference) {
                        out.fail("decimal", format!("literal {} is outside the error bound: got {:e}, want {:e}", lit, got, reference), case.clone(), json!({}));
                    }
                }
                Ok(other) => out.fail("decimal", format!("decimal literal {} parsed to {}", lit, enc_value(other)), case.clone(), json!({})),
                Err(e) => {
                    out.count("dec:rejected");
                    if reference.is_finite() || !e.to_string().contains("number out of range") {
                        out.fail("decimal", format!("decimal literal {} rejected ({}) although its value {:e} is in range", lit, e, reference), case.clone(), json!({}));
                    }
                }
            }
        }
        out.case(case, vres_obs(&res), true);

        // the same literal under option sets with leading_digit_symbols (the digit-initial arm re-parses the
        // scanned symbol): a numeric literal is still that number; compared with the model too
        if !lit.starts_with('+') && !lit.starts_with('-') && lit.is_ascii() {
            for ro in [Ro::ELISP, Ro { digit: 1, ..Ro::DEFAULT }] {
                let case = format!("parse str {} {}", ro.code(), bytes_code(lit.as_bytes()));
                out.oracle_checks += 1;
                match (parse_value(Src::Str, ro, lit.as_bytes()), &res) {
                    (Ok(r2), _) => {
                        let same = match (&r2, &res) { (Ok(a), Ok(b)) => value_eq(a, b, true), (Err(_), Err(_)) => true, (Ok(Value::Symbol(s)), Err(_)) => &**s == lit.as_str(), _ => false };
                        if !same { out.fail("decimal-digit-option", format!("literal {} reads as {} under default options but as {} with leading_digit_symbols", lit, vres_obs(&res), vres_obs(&r2)), case.clone(), json!({})); }
                        out.case(case, vres_obs(&r2), true);
                    }
                    (Err(p), _) => out.fail("panic", p, case, json!({})),
                }
            }
        }
    }
    // every number the printer emits is a literal that reads back
    for _ in 0..n / 2 {
        let v = match r.below(3) { 0 => Value::from(gen_u64(&mut r)), 1 => Value::from(crate::genval::gen_i64_neg(&mut r)), _ => Value::from(gen_f64(&mut r, FloatMode::Finite)) };
        let t = lexpr::to_string(&v).unwrap();
        out.oracle_checks += 1;
        let exact = crate::roundtrip::floats_exact(&v);
        match lexpr::from_str(&t) {
            Ok(b) if value_eq(&b, &v, exact) => {}
            other => out.fail("printed-number", format!("printed number {} does not read back as the same number: {:?}", t, other.map(|x| enc_value(&x))), format!("print0 {}", enc_case_value(&v)), json!({})),
        }
        out.case(format!("parse str {} {}", Ro::DEFAULT.code(), bytes_code(t.as_bytes())), vres_obs(&lexpr::from_str(&t)), true);
    }
}

// ================================================================ C06

fn kind_of(r: &Result<Value, lexpr::parse::Error>) -> String {
    match r { Ok(v) => format!("ok {}", enc_value(v)), Err(e) => err_kind(e) }
}

pub fn run_c06(tier: &str, seed: u64, out: &mut Out) {
    let mut r = Rng::new(seed);
    let n = match tier { "thorough" => 60_000, "search" => 20_000, _ => 2_500 };
    let all = Ro::all();
    let cfg = GenCfg { max_depth: 3, max_len: 4, names: NameMode::PlainR7rs, floats: FloatMode::Finite, nil_bool: true };
    for i in 0..n {
        let text: Vec<u8> = match i % 4 {
            0 => lexpr::to_vec(&gen_value(&mut r, &cfg, 0)).unwrap(),
            1 => gen_foreign(&mut r).into_bytes(),
            _ => mutate(gen_foreign(&mut r).as_bytes(), &mut r),
        };
        let ro = pick_ro(&mut r, &all);
        let is_utf8 = std::str::from_utf8(&text).is_ok();
        out.count(if is_utf8 { "input:utf8" } else { "input:arbitrary-bytes" });
        let slice_r = match parse_value(Src::Slice, ro, &text) { Ok(x) => x, Err(p) => { out.fail("panic", p, format!("parse slice {} {}", ro.code(), bytes_code(&text)), json!({})); continue; } };
        let want = kind_of(&slice_r);
        out.count(&format!("outcome:{}", if slice_r.is_ok() { "ok".to_string() } else { want.clone() }));
        // str vs slice
        if is_utf8 {
            out.oracle_checks += 1;
            if let Ok(sr) = parse_value(Src::Str, ro, &text) {
                if kind_of(&sr) != want {
                    out.fail("sources", format!("&str and byte-slice input disagree: {} vs {}", kind_of(&sr), want), format!("parse str {} {}", ro.code(), bytes_code(&text)), json!({"text": hex(&text)}));
                }
            }
        }
        // stream with chunking and interrupts
        for variant in 0..3 {
            let cap = match variant { 0 => 1, 1 => 1 + r.below(7) as usize, _ => 1 << 20 };
            let mut evs: Vec<Ev> = vec![];
            let mut pos = 0;
            if r.chance(1, 3) { evs.push(Ev::Interrupted); }
            while pos < text.len() {
                let k = (1 + r.below(6) as usize).min(text.len() - pos);
                evs.push(Ev::Bytes(text[pos..pos + k].to_vec()));
                pos += k;
                if r.chance(1, 4) { evs.push(Ev::Interrupted); }
                if r.chance(1, 20) { evs.push(Ev::Interrupted); evs.push(Ev::Interrupted); }
            }
            if r.chance(1, 3) { evs.push(Ev::Interrupted); }
            let case = format!("parse io {} {}", ro.code(), events_code(&evs));
            out.oracle_checks += 1;
            match parse_value_events(ro, evs, cap) {
                Ok(ir) => {
                    if kind_of(&ir) != want {
                        out.fail("sources", format!("stream input (cap {}, interrupts) and byte-slice input disagree: {} vs {}", cap, kind_of(&ir), want), case.clone(), json!({"text": hex(&text)}));
                    }
                    out.case(case, vres_obs(&ir), true);
                }
                Err(p) => out.fail("panic", p, case, json!({})),
            }
        }
        // a hard error at byte offsets
        let offs: Vec<usize> = if i < n / 10 || tier == "thorough" && i < n / 3 { (0..=text.len()).collect() } else {
            let mut o = vec![0, text.len(), text.len() / 2, text.len().saturating_sub(1)];
            o.push(r.below(text.len() as u64 + 1) as usize);
            o.sort(); o.dedup(); o
        };
        for off in offs {
            let id = 1 + r.below(1000) as u32;
            let mut evs = vec![];
            if off > 0 { evs.push(Ev::Bytes(text[..off].to_vec())); }
            evs.push(Ev::Fail(id));
            if off < text.len() { evs.push(Ev::Bytes(text[off..].to_vec())); }
            let case = format!("parse io {} {}", ro.code(), events_code(&evs));
            out.oracle_checks += 1;
            let mut rd = EvReader::new(evs, 1 << 20);
            let res = std::panic::catch_unwind(std::panic::AssertUnwindSafe(|| lexpr::from_reader_custom(&mut rd, ro.options())));
            match res {
                Ok(ir) => {
                    let obs = vres_obs(&ir);
                    // Is the outcome already determined by the bytes delivered before the failure?
                    let prefix = &text[..off];
                    let mut kinds: Vec<String> = vec![];
                    for q in [&b""[..], b" zz", b")", b"]", b"\"", b"0", b"a", b" . ", b"\n", b"|", b"#", b"\\", b";", b"e1", b".5", b"\nzz", b"\n)", b"\n\"", b"\"zz", b"\") zz", b"))) zz", b"]]] zz", b" 1)", b" 1]"] {
                        let mut t = prefix.to_vec();
                        t.extend_from_slice(q);
                        if let Ok(x) = parse_value(Src::Slice, ro, &t) { let k = kind_of(&x); if !kinds.contains(&k) { kinds.push(k); } }
                    }
                    let determined = kinds.len() == 1;
                    let is_that_io = match &ir { Err(e) => { e.classify() == Category::Io && { let _ = e; true } } _ => false } && obs == format!("io {}", id);
                    if !is_that_io {
                        if !determined {
                            out.fail("fault", format!("a read failure at offset {} came before the outcome was determined, yet the result is {}", off, obs), case.clone(), json!({"text": hex(&text), "possible_outcomes": kinds}));
                        } else if kind_of(&ir) != kinds[0] {
                            out.fail("fault", format!("with a read failure at offset {} the result {} is neither that error nor the outcome the delivered bytes determine ({})", off, obs, kinds[0]), case.clone(), json!({"text": hex(&text)}));
                        }
                    } else {
                        // carries the original error
                        if let Err(e) = ir {
                            let io: std::io::Error = e.into();
                            if !io.to_string().contains(&format!("#{}", id)) { out.fail("fault", "the I/O error returned does not carry the stream's error".into(), case.clone(), json!({})); }
                        }
                    }
                    out.case(case, obs, true);
                }
                Err(_) => out.fail("panic", "from_reader panicked on a failing stream".into(), case, json!({})),
            }
        }
    }
}

/// parse::Error is not Clone; re-create an equivalent I/O error for the
/// conversion check (the kind and message are what From<Error> must preserve).
fn clone_err(e: &lexpr::parse::Error, id: u32) -> lexpr::parse::Error {
    let _ = e;
    let rd = EvReader::new(vec![Ev::Fail(id)], 1);
    lexpr::from_reader(rd).unwrap_err()
}

// ================================================================ C08

#[derive(Debug, Clone, PartialEq)]
enum Expect {
    Val(Value),
    AnyError,
    Unknown,
}

/// What the option documentation says a single token reads as.
fn documented_reading(tok: &str, ro: Ro) -> Expect {
    let sym = |s: &str| Expect::Val(Value::symbol(s));
    let kw = |s: &str| Expect::Val(Value::keyword(s));
    match tok {
        "nil" => Expect::Val(match ro.nil { 0 => Value::Null, 1 => Value::symbol("nil"), _ => Value::Nil }),
        "t" => Expect::Val(if ro.t == 0 { Value::Bool(true) } else { Value::symbol("t") }),
        "nilx" | "tt" => sym(tok),
        ":a" => if ro.kw & 1 != 0 { kw("a") } else { sym(":a") },
        "a:" => if ro.kw & 2 != 0 { kw("a") } else { sym("a:") },
        "$x:" | "_a:" => if ro.kw & 2 != 0 { kw(&tok[..tok.len() - 1]) } else { sym(tok) },
        "nil:" => if ro.kw & 2 != 0 { kw("nil") } else { sym("nil:") },
        "#:a" => if ro.kw & 4 != 0 { kw("a") } else { Expect::AnyError },
        "?a" => if ro.chr == 1 { Expect::Val(Value::Char('a')) } else { sym("?a") },
        "#%a" => if ro.racket == 1 { sym("#%a") } else { Expect::AnyError },
        "1+" | "1-" | "1/2" | "1.5.6" | "0x10" | "12ab" | "1e3x" | "1_000" => if ro.digit == 1 { sym(tok) } else { Expect::AnyError },
        "1e3" => Expect::Val(Value::from(1000.0)),
        "42" => Expect::Val(Value::from(42u64)),
        "-23" => Expect::Val(Value::from(-23i64)),
        "4.5" => Expect::Val(Value::from(4.5)),
        "'x" => Expect::Val(Value::list(vec![Value::symbol("quote"), Value::symbol("x")])),
        "`x" => Expect::Val(Value::list(vec![Value::symbol("quasiquote"), Value::symbol("x")])),
        ",x" => Expect::Val(Value::list(vec![Value::symbol("unquote"), Value::symbol("x")])),
        ",@x" => Expect::Val(Value::list(vec![Value::symbol("unquote-splicing"), Value::symbol("x")])),
        "[x y]" => Expect::Val(if ro.brackets == 0 { Value::list(vec![Value::symbol("x"), Value::symbol("y")]) } else { Value::vector(vec![Value::symbol("x"), Value::symbol("y")]) }),
        "[]" => Expect::Val(if ro.brackets == 0 { Value::Null } else { Value::vector(Vec::<Value>::new()) }),
        "+" | "-" | "..." | "foo" | "<=" => sym(tok),
        _ => Expect::Unknown,
    }
}

/// Syntactic over-approximation of "the input exercises option field f".
fn exercises(field: usize, text: &str) -> bool {
    match field {
        0 => text.contains(':'),                       // keyword flags
        1 => text.contains("nil"),
        2 => text.contains('t'),
        3 => text.contains('[') || text.contains(']'),
        4 => text.contains('"'),
        5 => text.contains('?'),
        6 => text.contains("#%"),
        _ => text.bytes().any(|b| b.is_ascii_digit()),
    }
}

fn with_field(ro: Ro, field: usize, val: u8) -> Ro {
    let mut x = ro;
    match field { 0 => x.kw = val, 1 => x.nil = val, 2 => x.t = val, 3 => x.brackets = val, 4 => x.string = val, 5 => x.chr = val, 6 => x.racket = val, _ => x.digit = val }
    x
}
fn field_range(field: usize) -> u8 { match field { 0 => 8, 1 => 3, _ => 2 } }

pub fn run_c08(tier: &str, seed: u64, out: &mut Out) {
    let mut r = Rng::new(seed);
    let all = Ro::all();
    let ros: Vec<Ro> = if tier == "thorough" { all.clone() } else {
        let mut v = vec![Ro::DEFAULT, Ro::ELISP, Ro::NEW];
        for _ in 0..if tier == "search" { 200 } else { 45 } { v.push(all[r.below(1536) as usize]); }
        v
    };
    let documented = ["nil", "t", "nilx", "tt", ":a", "a:", "$x:", "_a:", "nil:", "#:a", "?a", "#%a", "1+", "1-", "1/2", "1.5.6", "0x10", "12ab", "1e3x", "1_000", "1e3", "42", "-23", "4.5", "'x", "`x", ",x", ",@x", "[x y]", "[]", "+", "-", "...", "foo", "<="];
    let mut corpus: Vec<String> = documented.iter().map(|s| s.to_string()).collect();
    for t in NEAR_MISS.iter().chain(NUM_TOKENS.iter()).chain(STR_TOKENS.iter()) { corpus.push(t.to_string()); }
    // every printable ASCII character (and a non-ASCII one) directly after a numeric prefix and inside a symbol
    for c in (33u8..=126).map(|b| b as char).chain(std::iter::once('\u{3bb}')) {
        if c == ';' { continue; }
        for t in [format!("12{}", c), format!("12{}x", c), format!("1.5{}x", c), format!("1e3{}", c), format!("ab{}cd", c)] { corpus.push(t); }
    }
    // an option set is what its getters say it is, however it was built: from any base set,
    // keyword syntaxes listed in any order with repetitions, every other field overridden;
    // and the set so built reads the keyword spellings like the canonical one
    for ro in &all {
        for _ in 0..3 {
            let alt = ro.options_alt(&mut r);
            out.oracle_checks += 1;
            let seen = Ro::of_options(alt);
            if seen != *ro || Ro::of_options(ro.options()) != *ro {
                out.fail("options-construction", format!("an option set built with with_keyword_syntaxes and the other setters reports {} through its getters, expected {}", seen.code(), ro.code()), format!("options {}", ro.code()), json!({}));
            }
            for tok in [":a", "a:", "#:a", "nil", "t", "[x]", "?a", "#%a", "1+"] {
                let a = lexpr::from_str_custom(tok, alt).map_err(|e| e.to_string());
                let b = lexpr::from_str_custom(tok, ro.options()).map_err(|e| e.to_string());
                if a != b {
                    out.fail("options-construction", format!("token {:?} reads differently under two constructions of the option set {}: {:?} vs {:?}", tok, ro.code(), a, b), format!("options {} {}", ro.code(), tok), json!({}));
                }
            }
        }
    }
    for ro in &ros {
        for tok in &corpus {
            // syntactic positions
            let positions: Vec<(String, Box<dyn Fn(Value) -> Value>)> = vec![
                (tok.clone(), Box::new(|v| v)),
                (format!("({} z)", tok), Box::new(|v| Value::list(vec![v, Value::symbol("z")]))),
                (format!("(z {})", tok), Box::new(|v| Value::list(vec![Value::symbol("z"), v]))),
                (format!("(z . {})", tok), Box::new(|v| Value::append(vec![Value::symbol("z")], v))),
                (format!("#(z {})", tok), Box::new(|v| Value::vector(vec![Value::symbol("z"), v]))),
            ];
            for (pi, (text, wrap)) in positions.iter().enumerate() {
                let case = format!("parse str {} {}", ro.code(), bytes_code(text.as_bytes()));
                let res = match parse_value(Src::Str, *ro, text.as_bytes()) { Ok(x) => x, Err(p) => { out.fail("panic", p, case, json!({})); continue; } };
                out.case(case.clone(), vres_obs(&res), true);
                out.count(&format!("position:{}", pi));
                // documented reading
                let exp = documented_reading(tok, *ro);
                out.oracle_checks += 1;
                match (&exp, &res) {
                    (Expect::Val(v), Ok(got)) => {
                        let want = wrap(v.clone());
                        if !value_eq(got, &want, false) { out.fail("classification", format!("token {:?} in {:?} under options {} reads as {}, documented: {}", tok, text, ro.code(), enc_value(got), enc_value(&want)), case.clone(), json!({})); }
                    }
                    (Expect::Val(v), Err(e)) => out.fail("classification", format!("token {:?} in {:?} under options {} is rejected ({}), documented: {}", tok, text, ro.code(), e, enc_value(v)), case.clone(), json!({})),
                    (Expect::AnyError, Ok(got)) => out.fail("classification", format!("token {:?} in {:?} under options {} reads as {}, documented: not a datum", tok, text, ro.code(), enc_value(got)), case.clone(), json!({})),
                    _ => {}
                }
                // a token is a number only if all of it is a numeric literal
                if pi == 0 {
                    if let Ok(Value::Number(_)) = &res {
                        out.oracle_checks += 1;
                        let t = tok.trim();
                        let numeric = crate::indep::read_one(t.as_bytes(), crate::indep::Dialect::Scheme).map(|v| v.is_number()).unwrap_or(false)
                            || t.starts_with("#x") || t.starts_with("#b") || t.starts_with("#o") || t.starts_with("#d") || t.starts_with("#e") || t.ends_with('.') && false;
                        if !numeric { out.fail("classification", format!("token {:?} is read as a number although it is not a numeric literal", tok), case.clone(), json!({})); }
                    }
                }
                // non-interference: flipping an option the input does not exercise
                if pi <= 1 {
                    for field in 0..8 {
                        if exercises(field, text) { continue; }
                        let alt = with_field(*ro, field, (match field { 0 => ro.kw, 1 => ro.nil, 2 => ro.t, 3 => ro.brackets, 4 => ro.string, 5 => ro.chr, 6 => ro.racket, _ => ro.digit } + 1) % field_range(field));
                        out.oracle_checks += 1;
                        if let Ok(res2) = parse_value(Src::Str, alt, text.as_bytes()) {
                            if vres_obs(&res2) != vres_obs(&res) {
                                out.fail("noninterference", format!("input {:?} does not exercise option field {} yet reads differently under {} and {}", text, field, ro.code(), alt.code()), case.clone(), json!({"a": vres_obs(&res), "b": vres_obs(&res2)}));
                            }
                        }
                    }
                }
            }
        }
    }
    out.extra.insert("option_sets".into(), json!(ros.len()));
}

// ================================================================ C10 / C11

fn walk_refs(out: &mut Out, r: Ref<'_>, case: &str, depth: usize) {
    // the datum accessors expose what the value accessors expose
    let v: &Value = r.value();
    out.oracle_checks += 1;
    match (r.list_iter(), v.list_iter()) {
        (Some(di), Some(vi)) => {
            // each step: what peek() and is_empty() say before next(), then the item
            let d: Vec<(Option<String>, bool, Option<String>)> = { let mut it = di; (0..10_000).map_while(|_| { let pk = it.peek().map(|y| enc_value(y.value())); let em = it.is_empty(); let x = it.next(); if x.is_none() && it.is_empty() { None } else { Some((pk, em, x.map(|y| enc_value(y.value())))) } }).collect() };
            let w: Vec<(Option<String>, bool, Option<String>)> = { let mut it = vi; (0..10_000).map_while(|_| { let pk = it.peek().map(enc_value); let em = it.is_empty(); let x = it.next(); if x.is_none() && it.is_empty() { None } else { Some((pk, em, x.map(enc_value))) } }).collect() };
            if d != w { out.fail("accessors", "Datum list_iter and Value list_iter expose different structure".into(), case.to_string(), json!({"datum": d, "value": w})); }
        }
        (None, None) => {}
        _ => out.fail("accessors", "list_iter is available on one of datum/value only".into(), case.to_string(), json!({})),
    }
    match (r.vector_iter(), v.as_slice()) {
        (Some(di), Some(els)) => {
            let d: Vec<String> = di.map(|y| enc_value(y.value())).collect();
            let w: Vec<String> = els.iter().map(enc_value).collect();
            if d != w { out.fail("accessors", "vector_iter and as_slice expose different elements".into(), case.to_string(), json!({})); }
        }
        (None, None) => {}
        _ => out.fail("accessors", "vector_iter / as_slice availability differs".into(), case.to_string(), json!({})),
    }
    match (r.as_pair(), v.as_pair()) {
        (Some((a, d)), Some((va, vd))) => {
            if a.value() != va || d.value() != vd { out.fail("accessors", "as_pair exposes different car/cdr".into(), case.to_string(), json!({})); }
        }
        (None, None) => {}
        _ => out.fail("accessors", "as_pair availability differs".into(), case.to_string(), json!({})),
    }
    let back: lexpr::Datum = r.into();
    if back.value() != v { out.fail("accessors", "Datum::from(ref) changes the value".into(), case.to_string(), json!({})); }
    if depth > 40 { return; }
    if let Some(it) = r.list_iter() { for x in it.take(200) { walk_refs(out, x, case, depth + 1); } }
    if let Some(it) = r.vector_iter() { for x in it.take(200) { walk_refs(out, x, case, depth + 1); } }
}

pub fn run_c10(tier: &str, seed: u64, out: &mut Out) {
    let mut r = Rng::new(seed);
    let n = match tier { "thorough" => 100_000, "search" => 30_000, _ => 3_000 };
    let all = Ro::all();
    // every kind of datum in every position of a chain of cells, in particular as the dotted tail
    let kinds = ["x", "12", "\"s\"", "#\\a", "#t", "#nil", "#:k", "#u8(1 2)", "#(1 2)", "#()", "()", "(p q)", "(p . q)", "'q", "`(a ,b)", "#(1 (2 . #(3 4)))", "[c d]", "(a . [c d])"];
    let mut shapes: Vec<String> = vec![];
    for k in kinds {
        shapes.push(format!("(a . {})", k));
        shapes.push(format!("(a b . {})", k));
        shapes.push(format!("({} . {})", k, k));
        shapes.push(format!("((k . {}) z)", k));
        shapes.push(format!("#((a . {}) {})", k, k));
        shapes.push(format!("'(a . {})", k));
    }
    for i in 0..n + 2 * shapes.len() {
        let fixed = i < 2 * shapes.len();
        let text: Vec<u8> = if fixed { shapes[i / 2].clone().into_bytes() } else if i % 3 == 2 { mutate(gen_foreign(&mut r).as_bytes(), &mut r) } else { gen_foreign(&mut r).into_bytes() };
        let ro = if fixed { if i % 2 == 0 { Ro::DEFAULT } else { Ro::ELISP } } else { pick_ro(&mut r, &all) };
        for src in srcs_for(&text) {
            let cap = text.len() + 3;
            let case = format!("iter {} {} d {} {}", src.name(), ro.code(), cap, bytes_code(&text));
            let dv = iterate(src, ro, &text, 'd', cap);
            let vv = iterate(src, ro, &text, 'v', cap);
            out.oracle_checks += 1;
            match (dv, vv) {
                (Ok(d), Ok(v)) => {
                    // reduce datum items to values: "ok <value> @ <spans>"
                    let reduced: Vec<String> = d.iter().map(|x| match x.find(" @ ") { Some(k) if x.starts_with("ok ") => x[..k].to_string(), _ => x.clone() }).collect();
                    if reduced != v {
                        out.fail("api-agreement", "datum_iter and value_iter yield different items".into(), case.clone(), json!({"datum": reduced, "value": v, "text": hex(&text)}));
                    }
                    out.count(&format!("items:{}", v.len().min(5)));
                    out.case(case.clone(), d.join(" ;; "), true);
                    out.case(format!("iter {} {} v {} {}", src.name(), ro.code(), cap, bytes_code(&text)), v.join(" ;; "), true);
                }
                _ => out.fail("panic", "iteration panicked".into(), case.clone(), json!({})),
            }
        }
        // accessors on every sub-datum
        if let Ok(Ok(d)) = parse_datum(Src::Slice, ro, &text) {
            let case = format!("datum slice {} {}", ro.code(), bytes_code(&text));
            let res = std::panic::catch_unwind(std::panic::AssertUnwindSafe(|| { let mut o = Out::new(); walk_refs(&mut o, d.as_ref(), &case, 0); o }));
            match res {
                Ok(o) => { out.oracle_checks += o.oracle_checks; out.failures.extend(o.failures); }
                Err(_) => out.fail("panic", "a datum accessor panicked".into(), case.clone(), json!({})),
            }
            let v: Value = d.clone().into();
            if &v != d.value() { out.fail("accessors", "Value::from(datum) differs from datum.value()".into(), case.clone(), json!({})); }
            // an owned copy - a clone, or a datum made from a reference to the whole - is walked by the
            // accessors exactly like the parsed datum, and the accessors stay coherent on it
            {
                let orig = crate::pobs::refwalk_res(&Ok(d.clone()));
                let copy = d.clone();
                let from_ref: lexpr::Datum = d.as_ref().into();
                out.oracle_checks += 2;
                for (what, c) in [("clone", &copy), ("Datum::from(Ref)", &from_ref)] {
                    let w = { let mut s = String::new(); let r = std::panic::catch_unwind(std::panic::AssertUnwindSafe(|| { crate::pobs::refwalk_obs(c.as_ref(), &mut s); })); if r.is_err() { s = "PANIC".into(); } format!("ok {}", s) };
                    if w != orig { out.fail("copy-walk", format!("the accessor walk of a {} differs from the walk of the parsed datum", what), case.clone(), json!({})); }
                    let res = std::panic::catch_unwind(std::panic::AssertUnwindSafe(|| { let mut o = Out::new(); walk_refs(&mut o, c.as_ref(), &case, 0); o }));
                    match res {
                        Ok(o) => { out.oracle_checks += o.oracle_checks; out.failures.extend(o.failures); }
                        Err(_) => out.fail("panic", format!("a datum accessor panicked on a {}", what), case.clone(), json!({})),
                    }
                }
            }
            // datum equality: equal to its clone and to a second parse of the same text; the same datum
            // moved one column to the right has other spans
            out.oracle_checks += 1;
            if d != d.clone() { out.fail("datum-eq", "a datum differs from its clone".into(), case.clone(), json!({})); }
            if let Ok(Ok(d2)) = parse_datum(Src::Slice, ro, &text) {
                if d != d2 { out.fail("datum-eq", "two parses of the same text give unequal datums".into(), case.clone(), json!({})); }
            }
            let mut shifted = vec![b' '];
            shifted.extend_from_slice(&text);
            if let Ok(Ok(d3)) = parse_datum(Src::Slice, ro, &shifted) {
                if d.span().start().line() == 1 && d3.value() == d.value() && d3 == d { out.fail("datum-eq", "datums with different spans compare equal".into(), case, json!({})); }
            }
        }
        // the full accessor walk (list_iter with peek / is_empty / next, vector_iter, as_pair) against the model's
        for src in srcs_for(&text) {
            if let Ok(res) = parse_datum(src, ro, &text) {
                let nontrivial = res.is_ok();
                out.case(format!("refwalk {} {} {}", src.name(), ro.code(), bytes_code(&text)), refwalk_res(&res), nontrivial);
            }
        }
    }
}

fn offset_of(text: &[u8], line: usize, col: usize) -> Option<usize> {
    if line == 0 { return None; }
    let mut l = 1;
    let mut start = 0;
    if line > 1 {
        let mut found = false;
        for (i, b) in text.iter().enumerate() {
            if *b == b'\n' { l += 1; if l == line { start = i + 1; found = true; break; } }
        }
        if !found { return None; }
    }
    let end = text[start..].iter().position(|b| *b == b'\n').map(|p| start + p).unwrap_or(text.len());
    if start + col <= end || (start + col == end + 1 && false) { Some(start + col) } else if start + col <= text.len() { Some(start + col) } else { None }
}

fn span_offsets(text: &[u8], r: Ref<'_>) -> Option<(usize, usize)> {
    let s = r.span();
    let a = offset_of(text, s.start().line(), s.start().column())?;
    let b = offset_of(text, s.end().line(), s.end().column())?;
    Some((a, b))
}

fn check_spans(out: &mut Out, text: &[u8], ro: Ro, r: Ref<'_>, parent: Option<(usize, usize)>, is_quote_head: Option<&str>, case: &str, depth: usize) {
    out.oracle_checks += 1;
    let (a, b) = match span_offsets(text, r) {
        Some(x) => x,
        None => { out.fail("span", format!("span of {} lies outside the input", enc_value(r.value())), case.to_string(), json!({})); return; }
    };
    if !(a < b && b <= text.len()) { out.fail("span", format!("span {}..{} of {} is empty or outside the input", a, b, enc_value(r.value())), case.to_string(), json!({})); return; }
    if let Some((pa, pb)) = parent {
        if !(pa <= a && b <= pb) { out.fail("span", format!("span {}..{} is not contained in its parent's span {}..{}", a, b, pa, pb), case.to_string(), json!({})); }
    }
    let piece = &text[a..b];
    if let Some(name) = is_quote_head {
        let want: &[u8] = match name { "quote" => b"'", "quasiquote" => b"`", "unquote" => b",", _ => b",@" };
        if piece != want { out.fail("span", format!("span of the quote head covers {:?}, not the shorthand characters", String::from_utf8_lossy(piece)), case.to_string(), json!({})); }
    } else if matches!((r.value(), piece), (Value::Symbol(s), p) if matches!((&**s, p), ("quote", b"'") | ("quasiquote", b"`") | ("unquote", b",") | ("unquote-splicing", b",@"))) {
        // the head of a quote shorthand that a dotted tail merged into the enclosing list, as in (a . 'x) = (a quote x):
        // its span covers just the shorthand characters, which is what the property asks of a quote head
    } else {
        match parse_value(Src::Slice, ro, piece) {
            Ok(Ok(v)) if &v == r.value() => {}
            other => out.fail("span", format!("the text covered by a span ({:?}) does not parse to that sub-datum's value {}: {:?}", String::from_utf8_lossy(piece), enc_value(r.value()), other.map(|x| x.map(|v| enc_value(&v)).map_err(|e| e.to_string()))), case.to_string(), json!({})),
        }
    }
    if depth > 40 { return; }
    // children: in order, without overlap
    let mut prev_end = a;
    let quote_name: Option<String> = match r.value() {
        Value::Cons(c) => match (c.car(), c.cdr()) {
            (Value::Symbol(s), Value::Cons(d)) if d.cdr().is_null() && ["quote", "quasiquote", "unquote", "unquote-splicing"].contains(&&**s) && [b'\'', b'`', b','].contains(&text[a]) => Some(s.to_string()),
            _ => None,
        },
        _ => None,
    };
    let kids: Vec<Ref<'_>> = if let Some(it) = r.list_iter() { it.collect() } else if let Some(it) = r.vector_iter() { it.collect() } else { vec![] };
    // a dotted tail comes after the None marker: list_iter yields it too
    let kids: Vec<Ref<'_>> = if r.value().is_cons() { let mut v = vec![]; let mut it = r.list_iter().unwrap(); loop { match it.next() { Some(x) => v.push(x), None => { if it.is_empty() { break; } } } } v } else { kids };
    for (i, k) in kids.iter().enumerate() {
        if let Some((ka, kb)) = span_offsets(text, *k) {
            if ka < prev_end { out.fail("span", format!("sibling spans overlap or are out of order at element {}", i), case.to_string(), json!({})); }
            prev_end = kb;
        }
        let qh = if i == 0 { quote_name.as_deref() } else { None };
        check_spans(out, text, ro, *k, Some((a, b)), qh, case, depth + 1);
    }
}

pub fn run_c11(tier: &str, seed: u64, out: &mut Out) {
    let mut r = Rng::new(seed);
    let n = match tier { "thorough" => 60_000, "search" => 20_000, _ => 2_500 };
    for i in 0..n {
        let (po, ro, names) = match i % 3 { 0 => (Po::ELISP, Ro::ELISP, NameMode::PlainAllDialects), _ => (Po::DEFAULT, Ro::DEFAULT, NameMode::PlainR7rs) };
        let cfg = GenCfg { max_depth: 4, max_len: 4, names, floats: FloatMode::ExactFast, nil_bool: true };
        let text: String = if i % 5 == 4 {
            gen_foreign(&mut r)
        } else {
            let v = loop { let v = gen_value(&mut r, &cfg, 0); if all_names_plain(&v, ro) { break v; } };
            let mut t = String::new();
            if r.chance(1, 2) { t.push_str(&trivia(&mut r)); }
            if r.chance(1, 4) { t.push_str("; λ non-ASCII before the datum é\n"); }
            if r.chance(1, 5) { t.push_str(*r.pick(&["'", "`", ",", ",@"])); }
            layout(&v, po, &mut r, 40, &mut t);
            if r.chance(1, 2) { t.push_str(&trivia(&mut r)); }
            t
        };
        let tb = text.as_bytes();
        let mut obs: Vec<String> = vec![];
        for src in [Src::Str, Src::Slice, Src::Io] {
            let case = format!("datum {} {} {}", src.name(), ro.code(), bytes_code(tb));
            match parse_datum(src, ro, tb) {
                Ok(res) => {
                    let o = dres_obs(&res);
                    out.case(case.clone(), o.clone(), true);
                    obs.push(o);
                    if let (Ok(d), Src::Slice) = (&res, src) {
                        out.count("datum:parsed");
                        let c = case.clone();
                        let chk = std::panic::catch_unwind(std::panic::AssertUnwindSafe(|| {
                            let mut o = Out::new();
                            check_spans(&mut o, tb, ro, d.as_ref(), None, None, &c, 0);
                            // owned copies of the datum and of its parts report the same spans
                            let copy = d.clone();
                            check_spans(&mut o, tb, ro, copy.as_ref(), None, None, &c, 0);
                            let kids: Vec<Ref<'_>> = if d.value().is_cons() { let mut v = vec![]; let mut it = d.as_ref().list_iter().unwrap(); loop { match it.next() { Some(x) => v.push(x), None => { if it.is_empty() { break; } } } } v }
                                                     else if let Some(it) = d.as_ref().vector_iter() { it.collect() } else { vec![] };
                            for k in kids {
                                let owned: lexpr::Datum = k.into();
                                if owned.span() != k.span() { o.fail("span", "a datum made from a reference reports another span than the reference".into(), c.clone(), json!({})); }
                                let parent = span_offsets(tb, d.as_ref());
                                check_spans(&mut o, tb, ro, owned.as_ref(), parent, None, &c, 1);
                            }
                            o
                        }));
                        match chk { Ok(o) => { out.oracle_checks += o.oracle_checks; out.failures.extend(o.failures); } Err(_) => out.fail("panic", "span walk panicked".into(), case.clone(), json!({})) }
                    }
                }
                Err(p) => out.fail("panic", p, case, json!({})),
            }
        }
        // a stream that fails once (a transient error) and then delivers the rest: the caller carries on;
        // what is read after the failure, spans included, is what the model reads from the same events
        if i % 4 == 0 && tb.len() >= 2 {
            let cut = 1 + r.below(tb.len() as u64 - 1) as usize;
            let id = r.below(1000) as u32;
            let evs = vec![Ev::Bytes(tb[..cut].to_vec()), Ev::Fail(id), Ev::Bytes(tb[cut..].to_vec())];
            let cap = tb.len() + 3;
            let case = format!("iter io {} d {} {}", ro.code(), cap, events_code(&evs));
            out.oracle_checks += 1;
            match iterate_events(ro, evs, 'd', cap) {
                Ok(items) => { out.count("stream:transient-failure"); out.case(case, items.join(" ;; "), true) }
                Err(p) => out.fail("panic", p, case, json!({})),
            }
        }
        out.oracle_checks += 1;
        if obs.len() == 3 && (obs[0] != obs[1] || obs[1] != obs[2]) && obs[1].starts_with("ok ") {
            out.fail("span-sources", "spans differ between &str, byte-slice and stream input".into(), format!("datum io {} {}", ro.code(), bytes_code(tb)), json!({"str": obs[0], "slice": obs[1], "io": obs[2]}));
        }
    }
}

// ================================================================ C17

fn strs_valid(v: &Value) -> bool {
    let mut ok = true;
    crate::genval::walk(v, &mut |x| match x {
        Value::String(s) | Value::Symbol(s) | Value::Keyword(s) => ok &= std::str::from_utf8(s.as_bytes()).is_ok() && s.chars().all(|c| (c as u32) < 0x110000),
        _ => {}
    });
    ok
}

const UTF8_SEQS: &[&[u8]] = &[
    b"\xc3\xa9", b"\xe2\x82\xac", b"\xf0\x9f\x98\x80", b"\xc3", b"\xe2\x82", b"\xf0\x9f\x98", b"\xc0\x80", b"\xc1\xbf", b"\xe0\x80\x80", b"\xe0\x9f\xbf",
    b"\xed\xa0\x80", b"\xed\xbf\xbf", b"\xf0\x80\x80\x80", b"\xf0\x8f\xbf\xbf", b"\xf4\x8f\xbf\xbf", b"\xf4\x90\x80\x80", b"\xf5\x80\x80\x80", b"\xf8\x88\x80\x80\x80",
    b"\x80", b"\xbf", b"\xfe", b"\xff", b"\xef\xbf\xbf", b"\xef\xbf\xbd", b"\xee\x80\x80", b"\xdf\xbf", b"\xc2\x80", b"\xe1\x80", b"\xf1\x80\x80", b"\xce\xbb",
];

pub fn run_c17(tier: &str, seed: u64, out: &mut Out) {
    let mut r = Rng::new(seed);
    let all = Ro::all();
    let contexts: Vec<(&str, &str)> = vec![("", ""), ("a", "b"), ("\"", "\""), ("\"x", "y\""), ("#\\", ""), ("?", ""), ("\"\\", "\""), (";", "\n1"), ("(a ", ")"), ("\"\\x41;", "\""), ("\"\\101", "\""), ("\"\\u00e9", "\""), ("#:", ""), (":", ""), ("+", ""), ("(. ", ")"), ("?\\", ""), ("\"\\N{U+41}", "\""),
        // after a backslash and blanks / a line ending inside a string (line continuations, Emacs "\ ")
        ("\"a\\\n", "b\""), ("\"a\\\n   ", "\""), ("\"\\ \t\n \t", "z\""), ("\"\\\r\n", "\""), ("\"\\\r", "\""), ("\"\\\n\u{a0}", "\""), ("\"\\ ", "\""), ("\"\\\t", "\""),
        ("\"\\\n\u{a0} ", " \""), ("\"x\\  \n\t", "\"")];
    let mut seqs: Vec<Vec<u8>> = UTF8_SEQS.iter().map(|s| s.to_vec()).collect();
    // every 2-byte sequence with a lead in c0..ff and continuation classes; every 1-byte
    for a in 0x80..=0xffu32 { seqs.push(vec![a as u8]); for b in [0x00u8, 0x41, 0x7f, 0x80, 0xa0, 0xbf, 0xc0, 0xff] { seqs.push(vec![a as u8, b]); } }
    if tier != "quick" {
        for a in [0xe0u8, 0xe1, 0xed, 0xee, 0xf0, 0xf1, 0xf4] { for b in (0x80..=0xbfu8).step_by(8) { for c in [0x7fu8, 0x80, 0xbf, 0xc0] { seqs.push(vec![a, b, c]); } } }
    }
    let ros: Vec<Ro> = vec![Ro::DEFAULT, Ro::ELISP, Ro { kw: 7, nil: 1, t: 1, brackets: 0, string: 1, chr: 0, racket: 1, digit: 1 }];
    for ro in &ros {
        for (pre, post) in &contexts {
            for s in &seqs {
                let mut text = pre.as_bytes().to_vec();
                text.extend_from_slice(s);
                text.extend_from_slice(post.as_bytes());
                out.count(&format!("context:{}", pre));
                for src in srcs_for(&text) {
                    let case = format!("parse {} {} {}", src.name(), ro.code(), bytes_code(&text));
                    out.oracle_checks += 1;
                    match parse_value(src, *ro, &text) {
                        Ok(res) => {
                            if let Ok(v) = &res { if !strs_valid(v) { out.fail("utf8", "a parsed value contains a str that is not well-formed UTF-8".into(), case.clone(), json!({"text": hex(&text)})); } }
                            out.case(case, vres_obs(&res), true);
                        }
                        Err(p) => out.fail("utf8-panic", format!("parse panicked (hook assertions included): {}", p), case, json!({"text": hex(&text)})),
                    }
                }
            }
        }
    }
    // a token that leaves raw bytes in the parser's scratch space (an Emacs string with byte
    // escapes, a cut multi-byte character) directly followed by each kind of token that is
    // scanned into it: dot-initial symbols inside lists, sign-initial symbols, keywords, strings
    {
        let firsts = ["\"\\377\"", "\"\\xff\"", "\"\\211PNG\"", "\"a\\x80;\"", "\"\\303\"", "\"\\M-a\"", "?\\377", "\"\\xc3\\ \""];
        let nexts = ["...", ".foo", ".\u{e9}", "+x", "-", "#:k", ":k", "k:", "\"s\"", "\u{3bb}y", "12ab", "#%r", "|"];
        let mut texts: Vec<String> = vec![];
        for f in firsts { for nx in nexts {
            texts.push(format!("({} {})", f, nx));
            texts.push(format!("({}{})", f, nx));
            texts.push(format!("[{} ;c\n {} z]", f, nx));
            texts.push(format!("({} . {})", f, nx));
        } }
        let ros2: Vec<Ro> = vec![Ro::DEFAULT, Ro::ELISP, Ro { kw: 7, nil: 1, t: 1, brackets: 1, string: 1, chr: 1, racket: 1, digit: 1 }];
        for ro in &ros2 { for t in &texts {
            let text = t.as_bytes().to_vec();
            out.count("context:after-raw-bytes");
            for src in srcs_for(&text) {
                let case = format!("parse {} {} {}", src.name(), ro.code(), bytes_code(&text));
                out.oracle_checks += 1;
                match parse_value(src, *ro, &text) {
                    Ok(res) => {
                        if let Ok(v) = &res { if !strs_valid(v) { out.fail("utf8", "a parsed value contains a str that is not well-formed UTF-8".into(), case.clone(), json!({"text": hex(&text)})); } }
                        out.case(case, vres_obs(&res), true);
                    }
                    Err(p) => out.fail("utf8-panic", format!("parse panicked (hook assertions included): {}", p), case, json!({"text": hex(&text)})),
                }
            }
        } }
    }
    // random streams: all strs of all parsed values, all sources; iterated parsing
    let n = match tier { "thorough" => 80_000, "search" => 30_000, _ => 3_000 };
    for _ in 0..n {
        let text = mutate(gen_foreign(&mut r).as_bytes(), &mut r);
        let ro = pick_ro(&mut r, &all);
        for src in srcs_for(&text) {
            let case = format!("iter {} {} v {} {}", src.name(), ro.code(), text.len() + 3, bytes_code(&text));
            out.oracle_checks += 1;
            let res = std::panic::catch_unwind(std::panic::AssertUnwindSafe(|| {
                let mut bad = false;
                let mut check = |p: &mut dyn Iterator<Item = lexpr::parse::Result<Value>>| { for it in p.take(text.len() + 3) { if let Ok(v) = it { if !strs_valid(&v) { bad = true; } } } };
                match src {
                    Src::Str => check(&mut lexpr::Parser::from_str_custom(std::str::from_utf8(&text).unwrap(), ro.options())),
                    Src::Slice => check(&mut lexpr::Parser::from_slice_custom(&text, ro.options())),
                    Src::Io => check(&mut lexpr::Parser::from_reader_custom(&text[..], ro.options())),
                }
                bad
            }));
            match res {
                Ok(true) => out.fail("utf8", "a parsed value contains a str that is not well-formed UTF-8".into(), case, json!({"text": hex(&text)})),
                Ok(false) => out.oracle_only(&case, true),
                Err(_) => out.fail("utf8-panic", "parse panicked (hook assertions included)".into(), case, json!({"text": hex(&text)})),
            }
        }
    }
    // output side: the printed String is well-formed and equals the sink bytes
    let cfg = GenCfg { max_depth: 3, max_len: 4, names: NameMode::Any, floats: FloatMode::All, nil_bool: true };
    let pos = Po::all();
    for i in 0..n {
        let v = gen_value(&mut r, &cfg, 0);
        let po = if i % 3 == 0 { Po::DEFAULT } else { pos[r.below(576) as usize] };
        out.oracle_checks += 1;
        let case = format!("printc {} {}", po.code(), enc_case_value(&v));
        let res = std::panic::catch_unwind(std::panic::AssertUnwindSafe(|| {
            let s = lexpr::to_string_custom(&v, po.options()).unwrap();
            let mut w = Vec::new();
            lexpr::to_writer_custom(&mut w, &v, po.options()).unwrap();
            (std::str::from_utf8(s.as_bytes()).is_ok(), s.as_bytes() == &w[..], w)
        }));
        match res {
            Ok((valid, same, w)) => {
                if !valid { out.fail("utf8", "to_string_custom returned an ill-formed String".into(), case.clone(), json!({})); }
                if !same { out.fail("utf8", "to_string_custom differs from the bytes written to a sink".into(), case.clone(), json!({})); }
                out.case(case, hex(&w), true);
            }
            Err(_) => out.fail("utf8-panic", "printing panicked (hook assertions included)".into(), case, json!({})),
        }
    }
}

// ================================================================ C19

fn check_location(out: &mut Out, text: &[u8], e: &lexpr::parse::Error, case: &str) {
    out.oracle_checks += 1;
    if let Some(loc) = e.location() {
        let lines: Vec<&[u8]> = text.split(|b| *b == b'\n').collect();
        let nlines = lines.len();
        let ok_line = loc.line() >= 1 && loc.line() <= nlines + 1;
        let len = if loc.line() >= 1 && loc.line() <= nlines { lines[loc.line() - 1].len() } else { 0 };
        if !ok_line || loc.column() > len + 1 {
            out.fail("location", format!("error location {}:{} is out of bounds ({} lines, that line has {} bytes)", loc.line(), loc.column(), nlines, len), case.to_string(), json!({"text": hex(text)}));
        }
    } else if e.classify() != Category::Io {
        out.fail("location", "a syntax/EOF error carries no location".into(), case.to_string(), json!({}));
    }
}

fn check_io_conversion(out: &mut Out, e: lexpr::parse::Error, case: &str) {
    out.oracle_checks += 1;
    let cat = e.classify();
    let io: std::io::Error = e.into();
    let ok = match cat {
        Category::Syntax => io.kind() == std::io::ErrorKind::InvalidData,
        Category::Eof => io.kind() == std::io::ErrorKind::UnexpectedEof,
        Category::Io => {
            // the carried io::Error comes back itself: message and kind
            let t = io.to_string();
            match t.find("injected read failure #") {
                Some(i) => match t[i + "injected read failure #".len()..].trim().parse::<u32>() {
                    Ok(id) => io.kind() == fail_kind(id),
                    Err(_) => false,
                },
                None => false,
            }
        }
    };
    if !ok { out.fail("io-kind", format!("conversion to io::Error gives kind {:?} for category {:?}", io.kind(), cat), case.to_string(), json!({})); }
}

pub fn run_c19(tier: &str, seed: u64, out: &mut Out) {
    let mut r = Rng::new(seed);
    let n = match tier { "thorough" => 60_000, "search" => 20_000, _ => 2_500 };
    let all = Ro::all();
    // escapes at the numeric thresholds of the hex / octal / \u escape loops (24 bits, the
    // scalar range, the surrogates), in every place an escape can stand, both dialects
    {
        let hexes = ["D7FF", "D800", "DFFF", "E000", "10FFFF", "110000", "FFFFFF", "1000000", "10000000", "1000000F", "0FFFFFF0", "7FFFFFFF", "FFFFFFFF", "100000000", "0000000041"];
        let mut texts: Vec<(String, Ro)> = vec![];
        for h in hexes {
            texts.push((format!("\"a\\x{};b\"", h), Ro::DEFAULT));
            texts.push((format!("#\\x{}", h), Ro::DEFAULT));
            texts.push((format!("(#\\x{} 1)", h), Ro::DEFAULT));
            texts.push((format!("\"a\\x{}\\ b\"", h), Ro::ELISP));
            texts.push((format!("?\\x{}", h), Ro::ELISP));
            texts.push((format!("\"\\U{:0>8}\"", &h[..h.len().min(8)]), Ro::ELISP));
            texts.push((format!("?\\U{:0>8}", &h[..h.len().min(8)]), Ro::ELISP));
            texts.push((format!("\"\\N{{U+{}}}\"", h), Ro::ELISP));
        }
        for o in ["177", "200", "377", "400", "7777777", "77777777", "100000000", "177777777", "37777777777", "40000000000"] {
            texts.push((format!("\"\\{}\"", o), Ro::ELISP));
            texts.push((format!("?\\{}", o), Ro::ELISP));
        }
        for u in ["D7FF", "D800", "DFFF", "E000", "FFFF", "0041"] {
            texts.push((format!("\"\\u{}\"", u), Ro::ELISP));
            texts.push((format!("?\\u{}", u), Ro::ELISP));
        }
        for (t, ro) in texts {
            let text = t.into_bytes();
            for src in srcs_for(&text) {
                let case = format!("parse {} {} {}", src.name(), ro.code(), bytes_code(&text));
                out.count("escape-threshold");
                if let Ok(res) = parse_value(src, ro, &text) {
                    out.case(case.clone(), vres_obs(&res), true);
                    if let Err(e) = res { check_location(out, &text, &e, &case); }
                }
            }
        }
    }
    // locations and conversions on malformed streams
    for _ in 0..n {
        let text = mutate(gen_foreign(&mut r).as_bytes(), &mut r);
        let ro = pick_ro(&mut r, &all);
        for src in srcs_for(&text) {
            let case = format!("parse {} {} {}", src.name(), ro.code(), bytes_code(&text));
            if let Ok(res) = parse_value(src, ro, &text) {
                out.case(case.clone(), vres_obs(&res), true);
                if let Err(e) = res {
                    out.count(&format!("category:{:?}", e.classify()));
                    check_location(out, &text, &e, &case);
                    check_io_conversion(out, e, &case);
                }
            }
        }
        // an injected stream failure converts back to the original error
        let fid = r.below(1000) as u32;
        let rd = EvReader::new(vec![Ev::Bytes(text[..text.len() / 2].to_vec()), Ev::Fail(fid)], 1 << 20);
        if let Err(e) = lexpr::from_reader_custom(rd, ro.options()) {
            if e.location().is_none() {
                out.oracle_checks += 1;
                if e.classify() != Category::Io {
                    out.fail("io-category", format!("a read failure of kind {:?} is reported in category {:?}", fail_kind(fid), e.classify()), format!("io conversion f{}", fid), json!({"text": hex(&text)}));
                }
                check_io_conversion(out, e, "io conversion");
            }
        }
    }
    // truncation: every proper prefix of a well-formed single-datum text
    let cfg_d = GenCfg { max_depth: 3, max_len: 3, names: NameMode::PlainR7rs, floats: FloatMode::Finite, nil_bool: true };
    let cfg_e = GenCfg { max_depth: 3, max_len: 3, names: NameMode::PlainAllDialects, floats: FloatMode::Finite, nil_bool: true };
    let singles: Vec<&str> = vec!["#nil", "#t", "#f", "#x1F", "#b-101", "#o17", "#d9", "1.5e10", "-0.25", "1e21", "5e-324", "#\\space", "#\\newline", "#\\nul", "#\\null", "#\\alarm", "#\\backspace", "#\\tab", "#\\linefeed", "#\\vtab", "#\\page", "#\\return", "#\\esc", "#\\escape", "#\\delete", "#\\rubout", "#\\altmode", "#\\x41", "#\\λ", "\"a\\x41;b\"", "\"\\n\\t\\\\\"", "#u8(1 2 255)", "#vu8(0)", "'(a b)", "`(a ,b ,@c)", "λx", "(a . b)", "#(1 #(2))", "#:kw", "(1 (2 (3)))", "\"λ→\"", "+.a", "...", "(a ;c\n b)", "#\\xD8A5D", "(a #\\xDB864 b)", "'.|x", "(a .\"b\")"];
    // numeric literals whose digits alone are beyond the range of a double and whose
    // exponent brings them back (and the reverse: a fraction of hundreds of zeros)
    let long_a = format!("1{}e-320", "0".repeat(320));
    let long_b = format!("(x -25{}.5e-400 y)", "0".repeat(330));
    let long_c = format!("0.{}1e330", "0".repeat(320));
    let long_d = format!("#(1{}e-309)", "0".repeat(309));
    let mut singles = singles;
    singles.extend([long_a.as_str(), long_b.as_str(), long_c.as_str(), long_d.as_str()]);
    let esingles: Vec<&str> = vec!["?\\xD8A5D", "[?\\154000 ?\\xdce48]", "(a . [?\\xd7ff])"];
    let m = n / 4;
    for i in 0..m + singles.len() + esingles.len() {
        let (text, ro): (Vec<u8>, Ro) = if i < singles.len() { (singles[i].as_bytes().to_vec(), Ro::DEFAULT) }
        else if i < singles.len() + esingles.len() { (esingles[i - singles.len()].as_bytes().to_vec(), Ro::ELISP) } else if i % 2 == 0 {
            (lexpr::to_vec(&gen_value(&mut r, &cfg_d, 0)).unwrap(), Ro::DEFAULT)
        } else {
            let v = loop { let v = gen_value(&mut r, &cfg_e, 0); if all_names_plain(&v, Ro::ELISP) { break v; } };
            (lexpr::to_vec_custom(&v, Po::ELISP.options()).unwrap(), Ro::ELISP)
        };
        if !matches!(parse_value(Src::Slice, ro, &text), Ok(Ok(_))) { continue; }
        out.count("truncation:texts");
        for k in 0..text.len() {
            let p = &text[..k];
            let case = format!("parse slice {} {}", ro.code(), bytes_code(p));
            out.oracle_checks += 1;
            match parse_value(Src::Slice, ro, p) {
                Ok(Ok(_)) => {}
                Ok(Err(e)) => {
                    check_location(out, p, &e, &case);
                    if e.classify() != Category::Eof {
                        let cut_utf8 = std::str::from_utf8(p).is_err();
                        // the recorded finding, by call site: the prefix ends with a complete decimal
                        // literal whose magnitude really is beyond a double (std agrees) and the
                        // error is the range check's
                        let last_tok: &[u8] = { let st = p.iter().rposition(|b| b" \t\r\n\x0c()[]\";'`,".contains(b)).map(|i| i + 1).unwrap_or(0); &p[st..] };
                        let genuinely_out_of_range = std::str::from_utf8(last_tok).ok().and_then(|t| t.parse::<f64>().ok()).map_or(false, |f| f.is_infinite())
                            && last_tok.iter().all(|b| b.is_ascii_digit() || b"+-.eE".contains(b));
                        let range_error = e.to_string().starts_with("number out of range");
                        out.fail(if cut_utf8 { "truncation-cut-utf8" } else if range_error && genuinely_out_of_range { "truncation-out-of-range-literal" } else { "truncation" }, format!("a proper prefix of a well-formed text fails with a {:?}-category error ({}) instead of EOF", e.classify(), e), case.clone(), json!({"full": String::from_utf8_lossy(&text), "prefix": hex(p)}));
                    }
                    out.case(case, err_obs(&e), true);
                }
                Err(pn) => out.fail("panic", pn, case, json!({})),
            }
        }
    }
}
