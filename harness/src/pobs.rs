//! Running the parser entry points and encoding what they return.
use crate::enc::{enc_value, hex};
use crate::popts::Ro;
use lexpr::datum::Ref;
use lexpr::parse::Error;
use lexpr::{Datum, Parser, Value};
use std::io::{self, Read};
use std::panic::{catch_unwind, AssertUnwindSafe};

#[derive(Clone, Debug)]
pub enum Ev {
    Bytes(Vec<u8>),
    Interrupted,
    Fail(u32),
}

pub fn events_code(evs: &[Ev]) -> String {
    if evs.is_empty() {
        return "-".into();
    }
    evs.iter()
        .map(|e| match e {
            Ev::Bytes(b) => format!("b{}", hex(b)),
            Ev::Interrupted => "i".into(),
            Ev::Fail(id) => format!("f{}", id),
        })
        .collect::<Vec<_>>()
        .join(" ")
}

pub fn bytes_code(b: &[u8]) -> String {
    if b.is_empty() { "-".into() } else { format!("b{}", hex(b)) }
}

/// io::Read over an event list; `cap` bounds the bytes delivered per call.
pub struct EvReader {
    pub evs: Vec<Ev>,
    pub i: usize,
    pub off: usize,
    pub cap: usize,
    pub reads: usize,
}

impl EvReader {
    pub fn new(evs: Vec<Ev>, cap: usize) -> Self {
        EvReader { evs, i: 0, off: 0, cap: cap.max(1), reads: 0 }
    }
}

impl Read for EvReader {
    fn read(&mut self, buf: &mut [u8]) -> io::Result<usize> {
        self.reads += 1;
        if buf.is_empty() {
            return Ok(0);
        }
        loop {
            match self.evs.get(self.i) {
                None => return Ok(0),
                Some(Ev::Bytes(b)) => {
                    if self.off >= b.len() {
                        self.i += 1;
                        self.off = 0;
                        continue;
                    }
                    let n = buf.len().min(b.len() - self.off).min(self.cap);
                    buf[..n].copy_from_slice(&b[self.off..self.off + n]);
                    self.off += n;
                    return Ok(n);
                }
                Some(Ev::Interrupted) => {
                    self.i += 1;
                    return Err(io::Error::new(io::ErrorKind::Interrupted, "injected interrupt"));
                }
                Some(Ev::Fail(id)) => {
                    let id = *id;
                    self.i += 1;
                    return Err(io::Error::new(fail_kind(id), format!("injected read failure #{}", id)));
                }
            }
        }
    }
}

/// The kind of the injected hard error with identity `id`: every kind a real
/// stream may report, chosen by the id so that a run replays exactly.
/// (Interrupted is not a hard error: io::Bytes retries it.)
pub fn fail_kind(id: u32) -> io::ErrorKind {
    const KINDS: [io::ErrorKind; 12] = [
        io::ErrorKind::Other, io::ErrorKind::UnexpectedEof, io::ErrorKind::InvalidData, io::ErrorKind::BrokenPipe,
        io::ErrorKind::TimedOut, io::ErrorKind::WouldBlock, io::ErrorKind::ConnectionReset, io::ErrorKind::InvalidInput,
        io::ErrorKind::PermissionDenied, io::ErrorKind::NotFound, io::ErrorKind::WriteZero, io::ErrorKind::ConnectionAborted,
    ];
    KINDS[(id as usize) % KINDS.len()]
}

pub fn code_name(msg: &str) -> &'static str {
    match msg {
        "EOF while parsing a list" => "EofWhileParsingList",
        "EOF while parsing a vector" => "EofWhileParsingVector",
        "EOF while parsing a string" => "EofWhileParsingString",
        "EOF while parsing a value" => "EofWhileParsingValue",
        "EOF while parsing a character constant" => "EofWhileParsingCharacterConstant",
        "expected ident" => "ExpectedSomeIdent",
        "expected value" => "ExpectedSomeValue",
        "expected vector" => "ExpectedVector",
        "expected octet" => "ExpectedOctet",
        "invalid escape" => "InvalidEscape",
        "invalid number" => "InvalidNumber",
        "invalid symbol" => "InvalidSymbol",
        "mismatched parenthesis" => "MismatchedParenthesis",
        "number out of range" => "NumberOutOfRange",
        "invalid unicode code point" => "InvalidUnicodeCodePoint",
        "invalid character constant" => "InvalidCharacterConstant",
        "trailing characters" => "TrailingCharacters",
        "recursion limit exceeded" => "RecursionLimitExceeded",
        _ => "UnknownCode",
    }
}

pub fn err_obs(e: &Error) -> String {
    let text = e.to_string();
    // the is_io / is_syntax / is_eof helpers say what classify() says
    {
        use lexpr::parse::error::Category;
        let c = e.classify();
        if (e.is_io(), e.is_syntax(), e.is_eof()) != (c == Category::Io, c == Category::Syntax, c == Category::Eof) {
            return format!("HELPERS-DISAGREE is_io={} is_syntax={} is_eof={} classify={:?} ({})", e.is_io(), e.is_syntax(), e.is_eof(), c, text);
        }
    }
    match e.location() {
        Some(loc) => {
            let msg = match text.rfind(" at line ") {
                Some(i) => &text[..i],
                None => &text[..],
            };
            format!("err {} {} {}", code_name(msg), loc.line(), loc.column())
        }
        None => {
            // an error without a location is a read failure: it is in the I/O
            // category whatever its kind, and carries the stream's own error
            use lexpr::parse::error::Category;
            if e.classify() != Category::Io {
                return format!("IO-MISCLASSIFIED classify={:?} ({})", e.classify(), text);
            }
            match text.find("injected read failure #") {
                Some(i) => {
                    let idtxt = &text[i + "injected read failure #".len()..];
                    if let (Ok(id), Some(src)) = (idtxt.trim().parse::<u32>(), std::error::Error::source(e)) {
                        match src.downcast_ref::<io::Error>() {
                            Some(ioe) if ioe.kind() == fail_kind(id) => {}
                            Some(ioe) => return format!("IO-KIND-CHANGED {:?} for injected {:?} ({})", ioe.kind(), fail_kind(id), text),
                            None => return format!("IO-SOURCE-NOT-IO-ERROR ({})", text),
                        }
                    }
                    format!("io {}", idtxt)
                }
                None => format!("io ?{}", text),
            }
        }
    }
}

/// (category, code) without the location
pub fn err_kind(e: &Error) -> String {
    let o = err_obs(e);
    let mut it = o.split(' ');
    let a = it.next().unwrap_or("");
    let b = it.next().unwrap_or("");
    if a == "io" { "io".into() } else { format!("{:?}/{}", e.classify(), b) }
}

pub fn vres_obs(r: &Result<Value, Error>) -> String {
    match r {
        Ok(v) => format!("ok {}", enc_value(v)),
        Err(e) => err_obs(e),
    }
}

fn span_str(s: lexpr::datum::Span) -> String {
    format!("{}:{}-{}:{}", s.start().line(), s.start().column(), s.end().line(), s.end().column())
}

/// The span tree reachable through Ref::{span, as_pair, vector_iter}.
pub fn info_obs(r: Ref<'_>, out: &mut String) {
    match r.value() {
        Value::Cons(_) => {
            let (a, d) = r.as_pair().unwrap();
            out.push_str(&format!("c({} ", span_str(r.span())));
            info_obs(a, out);
            out.push(' ');
            info_obs(d, out);
            out.push(')');
        }
        Value::Vector(els) => {
            out.push_str(&format!("v({} {}", span_str(r.span()), els.len()));
            match r.vector_iter() {
                Some(it) => {
                    for e in it {
                        out.push(' ');
                        info_obs(e, out);
                    }
                }
                None => out.push_str(" BADSHAPE"),
            }
            out.push(')');
        }
        _ => out.push_str(&format!("p({})", span_str(r.span()))),
    }
}

pub fn datum_obs(d: &Datum) -> String {
    let mut s = enc_value(d.value());
    s.push_str(" @ ");
    // deep cdr chains recurse once per element: run on a big stack
    let mut t = String::new();
    info_obs(d.as_ref(), &mut t);
    s + &t
}

/// The transcript of a full walk of a datum with Ref::list_iter (peek,
/// is_empty, next), vector_iter and as_pair; the model's walk_ref prints the same.
pub fn refwalk_obs(r: lexpr::datum::Ref<'_>, out: &mut String) {
    out.push_str(&format!("{{{}", span_str(r.span())));
    out.push_str(" L:");
    match r.list_iter() {
        None => out.push('-'),
        Some(mut it) => {
            out.push('[');
            loop {
                let pk = it.peek().is_some();
                let emp = it.is_empty();
                out.push(if pk { 'p' } else { '-' });
                out.push(if emp { 'e' } else { 'n' });
                match it.next() {
                    Some(x) => refwalk_obs(x, out),
                    None => {
                        out.push('_');
                        if it.is_empty() {
                            break;
                        }
                    }
                }
            }
            out.push(']');
        }
    }
    out.push_str(" V:");
    match r.vector_iter() {
        None => out.push('-'),
        Some(it) => {
            out.push('[');
            for e in it {
                refwalk_obs(e, out);
            }
            out.push(']');
        }
    }
    out.push_str(" P:");
    match r.as_pair() {
        None => out.push('-'),
        Some((a, d)) => out.push_str(&format!("({},{})", span_str(a.span()), span_str(d.span()))),
    }
    out.push('}');
}

pub fn refwalk_res(r: &Result<Datum, Error>) -> String {
    match r {
        Ok(d) => {
            let res = catch_unwind(AssertUnwindSafe(|| {
                let mut s = String::new();
                refwalk_obs(d.as_ref(), &mut s);
                s
            }));
            match res {
                Ok(s) => format!("ok {}", s),
                Err(_) => "PANIC".to_string(),
            }
        }
        Err(e) => err_obs(e),
    }
}

pub fn dres_obs(r: &Result<Datum, Error>) -> String {
    match r {
        Ok(d) => format!("ok {}", datum_obs(d)),
        Err(e) => err_obs(e),
    }
}

#[derive(Clone, Copy, Debug, PartialEq)]
pub enum Src {
    Str,
    Slice,
    Io,
}
impl Src {
    pub fn name(&self) -> &'static str {
        match self { Src::Str => "str", Src::Slice => "slice", Src::Io => "io" }
    }
}

fn guard<T, F: FnOnce() -> T>(f: F) -> Result<T, String> {
    catch_unwind(AssertUnwindSafe(f)).map_err(|p| {
        if let Some(s) = p.downcast_ref::<&str>() { s.to_string() }
        else if let Some(s) = p.downcast_ref::<String>() { s.clone() }
        else { "panic".into() }
    })
}

/// from_str_custom / from_slice_custom / from_reader_custom under catch_unwind.
pub fn parse_value(src: Src, ro: Ro, text: &[u8]) -> Result<Result<Value, Error>, String> {
    guard(|| match src {
        Src::Str => lexpr::from_str_custom(std::str::from_utf8(text).unwrap(), ro.options()),
        Src::Slice => lexpr::from_slice_custom(text, ro.options()),
        Src::Io => lexpr::from_reader_custom(EvReader::new(vec![Ev::Bytes(text.to_vec())], 1 << 30), ro.options()),
    })
}

pub fn parse_datum(src: Src, ro: Ro, text: &[u8]) -> Result<Result<Datum, Error>, String> {
    guard(|| match src {
        Src::Str => lexpr::datum::from_str_custom(std::str::from_utf8(text).unwrap(), ro.options()),
        Src::Slice => lexpr::datum::from_slice_custom(text, ro.options()),
        Src::Io => lexpr::datum::from_reader_custom(EvReader::new(vec![Ev::Bytes(text.to_vec())], 1 << 30), ro.options()),
    })
}

pub fn parse_value_events(ro: Ro, evs: Vec<Ev>, cap: usize) -> Result<Result<Value, Error>, String> {
    guard(|| lexpr::from_reader_custom(EvReader::new(evs, cap), ro.options()))
}

/// Items of value_iter (mode 'v'), datum_iter ('d') or Iterator for Parser ('p'),
/// capped so that a non-terminating iterator becomes an observation.
pub fn iterate(src: Src, ro: Ro, text: &[u8], mode: char, cap: usize) -> Result<Vec<String>, String> {
    fn go<'a, R: lexpr::parse::Read<'a>>(mut p: Parser<R>, mode: char, cap: usize) -> Vec<String> {
        let mut out = vec![];
        match mode {
            'v' => {
                for it in p.value_iter().take(cap) { out.push(vres_obs(&it)); }
            }
            'd' => {
                for it in p.datum_iter().take(cap) { out.push(dres_obs(&it)); }
            }
            'n' => {
                // next_value loop
                for _ in 0..cap {
                    match p.next_value() {
                        Ok(None) => break,
                        Ok(Some(v)) => out.push(vres_obs(&Ok(v))),
                        Err(e) => out.push(err_obs(&e)),
                    }
                }
            }
            _ => {
                for it in (&mut p).take(cap) { out.push(vres_obs(&it)); }
            }
        }
        out
    }
    guard(|| match src {
        Src::Str => go(Parser::from_str_custom(std::str::from_utf8(text).unwrap(), ro.options()), mode, cap),
        Src::Slice => go(Parser::from_slice_custom(text, ro.options()), mode, cap),
        Src::Io => go(Parser::from_reader_custom(EvReader::new(vec![Ev::Bytes(text.to_vec())], 1 << 30), ro.options()), mode, cap),
    })
}

/// value_iter / datum_iter over a stream given as events (bytes, Interrupted results, read
/// failures that happen once): the caller carries on after every error.
pub fn iterate_events(ro: Ro, evs: Vec<Ev>, mode: char, cap: usize) -> Result<Vec<String>, String> {
    guard(|| {
        let mut p = Parser::from_reader_custom(EvReader::new(evs, 1 << 30), ro.options());
        let mut out = vec![];
        if mode == 'd' {
            for it in p.datum_iter().take(cap) { out.push(dres_obs(&it)); }
        } else {
            for it in p.value_iter().take(cap) { out.push(vres_obs(&it)); }
        }
        out
    })
}

/// A call history on one parser: v next_value, d next_datum, V expect_value,
/// D expect_datum, E expect_end.
pub fn history(src: Src, ro: Ro, text: &[u8], calls: &str) -> Result<Vec<String>, String> {
    fn go<'a, R: lexpr::parse::Read<'a>>(mut p: Parser<R>, calls: &str) -> Vec<String> {
        calls
            .chars()
            .map(|c| match c {
                'v' => match p.next_value() {
                    Ok(None) => "v -".into(),
                    Ok(Some(v)) => format!("v {}", enc_value(&v)),
                    Err(e) => err_obs(&e),
                },
                'd' => match p.next_datum() {
                    Ok(None) => "d -".into(),
                    Ok(Some(d)) => format!("d {}", datum_obs(&d)),
                    Err(e) => err_obs(&e),
                },
                'V' => match p.expect_value() {
                    Ok(v) => format!("v {}", enc_value(&v)),
                    Err(e) => err_obs(&e),
                },
                'D' => match p.expect_datum() {
                    Ok(d) => format!("d {}", datum_obs(&d)),
                    Err(e) => err_obs(&e),
                },
                _ => match p.expect_end() {
                    Ok(()) => "u".into(),
                    Err(e) => err_obs(&e),
                },
            })
            .collect()
    }
    guard(|| match src {
        Src::Str => go(Parser::from_str_custom(std::str::from_utf8(text).unwrap(), ro.options()), calls),
        Src::Slice => go(Parser::from_slice_custom(text, ro.options()), calls),
        Src::Io => go(Parser::from_reader_custom(EvReader::new(vec![Ev::Bytes(text.to_vec())], 1 << 30), ro.options()), calls),
    })
}

/// char::is_alphabetic as a range table for the model's oracle.
pub fn write_alpha_table(path: &std::path::Path) {
    let mut out = String::new();
    let mut start: Option<u32> = None;
    for c in 0..=0x110000u32 {
        let a = char::from_u32(c).map(|ch| ch.is_alphabetic()).unwrap_or(false);
        match (a, start) {
            (true, None) => start = Some(c),
            (false, Some(s)) => {
                out.push_str(&format!("{} {}\n", s, c - 1));
                start = None;
            }
            _ => {}
        }
    }
    std::fs::write(path, out).unwrap();
}
