//! Spec-level helpers written from the property texts and the documentation
//! (never from the parser/printer code): compatibility of option sets, the
//! documented folding, plainness of names, float tolerance.
use crate::popts::{Po, Ro};
use lexpr::Value;

/// A parser option set recognises what a printer option set emits.
pub fn compatible(po: Po, ro: Ro) -> bool {
    let kw_ok = match po.kw {
        0 => ro.kw & 1 != 0,
        1 => ro.kw & 2 != 0,
        _ => ro.kw & 4 != 0,
    };
    let vec_ok = po.vec == 0 || ro.brackets == 1;
    let str_ok = po.string == ro.string;
    let chr_ok = po.chr == ro.chr;
    let bytes_ok = po.bytes != 2 || ro.string == 1;
    kw_ok && vec_ok && str_ok && chr_ok && bytes_ok
}

/// The printer options corresponding to a parser option set (C13).
pub fn corr(ro: Ro) -> Po {
    Po {
        kw: if ro.kw & 4 != 0 { 2 } else if ro.kw & 1 != 0 { 0 } else if ro.kw & 2 != 0 { 1 } else { 2 },
        nil: 1,
        boo: 0,
        vec: if ro.brackets == 1 { 1 } else { 0 },
        bytes: if ro.string == 1 { 2 } else { 1 },
        string: ro.string,
        chr: ro.chr,
    }
}

fn nil_text_reads_as(ro: Ro) -> Value {
    match ro.nil {
        0 => Value::Null,
        1 => Value::symbol("nil"),
        _ => Value::Nil,
    }
}

/// The documented dialect folding: nil/booleans printed as the symbols nil/t
/// read back as the parser's nil/t treatment dictates; an empty byte vector
/// printed as an Emacs unibyte string reads back as the empty string.
pub fn fold(v: &Value, po: Po, ro: Ro) -> Value {
    match v {
        Value::Nil => match po.nil {
            0 => nil_text_reads_as(ro),
            1 => Value::Nil,
            2 => Value::Null,
            _ => fold(&Value::Bool(false), po, ro),
        },
        Value::Bool(b) => {
            if po.boo == 0 {
                Value::Bool(*b)
            } else if *b {
                if ro.t == 0 { Value::Bool(true) } else { Value::symbol("t") }
            } else {
                nil_text_reads_as(ro)
            }
        }
        Value::Bytes(b) if b.is_empty() && po.bytes == 2 => Value::string(""),
        Value::Cons(c) => {
            // iterative along the cdr chain
            let (xs, t) = c.to_ref_vec();
            let xs: Vec<Value> = xs.into_iter().map(|x| fold(x, po, ro)).collect();
            Value::append(xs, fold(t, po, ro))
        }
        Value::Vector(els) => Value::Vector(els.iter().map(|x| fold(x, po, ro)).collect()),
        other => other.clone(),
    }
}

fn is_initial(c: char) -> bool {
    c.is_ascii_alphabetic() || "!$%&*/:<=>?^_~".contains(c) || (!c.is_ascii() && c.is_alphabetic())
}
fn is_subsequent(c: char) -> bool {
    is_initial(c) || c.is_ascii_digit() || "+-.@".contains(c) || !c.is_ascii()
}
fn is_sign_subsequent(c: char) -> bool {
    is_initial(c) || "+-@".contains(c)
}
fn is_dot_subsequent(c: char) -> bool {
    is_sign_subsequent(c) || c == '.'
}

/// R7RS <identifier> without the |...| form (7.1.1).
pub fn is_r7rs_identifier(s: &str) -> bool {
    let cs: Vec<char> = s.chars().collect();
    if cs.is_empty() {
        return false;
    }
    let rest_ok = |from: usize| cs[from..].iter().all(|c| is_subsequent(*c));
    if is_initial(cs[0]) {
        return rest_ok(1);
    }
    if cs[0] == '+' || cs[0] == '-' {
        if cs.len() == 1 {
            return true;
        }
        if is_sign_subsequent(cs[1]) {
            return rest_ok(2);
        }
        if cs[1] == '.' {
            return cs.len() >= 3 && is_dot_subsequent(cs[2]) && rest_ok(3);
        }
        return false;
    }
    if cs[0] == '.' {
        return cs.len() >= 2 && is_dot_subsequent(cs[1]) && rest_ok(2);
    }
    false
}

/// Plain in the dialect of (po, ro), as the quantifier of C02 lists it.
pub fn is_plain_name(s: &str, is_symbol: bool, ro: Ro) -> bool {
    if !is_r7rs_identifier(s) {
        return false;
    }
    if ro.chr == 1 && s.starts_with('?') {
        return false;
    }
    if (ro.kw & 3) != 0 && (s.starts_with(':') || s.ends_with(':')) {
        return false;
    }
    if is_symbol && ro.nil != 1 && s == "nil" {
        return false;
    }
    if is_symbol && ro.t != 1 && s == "t" {
        return false;
    }
    true
}

pub fn all_names_plain(v: &Value, ro: Ro) -> bool {
    let mut ok = true;
    crate::genval::walk(v, &mut |x| match x {
        Value::Symbol(s) => ok &= is_plain_name(s, true, ro),
        Value::Keyword(s) => ok &= is_plain_name(s, false, ro),
        _ => {}
    });
    ok
}

/// Relative accuracy the properties allow for floats that are not read exactly.
pub fn float_close(a: f64, b: f64) -> bool {
    if a.to_bits() == b.to_bits() {
        return true;
    }
    if a.is_nan() || b.is_nan() || a.is_infinite() || b.is_infinite() {
        return false;
    }
    let diff = (a - b).abs();
    let mag = a.abs().max(b.abs());
    if mag < f64::MIN_POSITIVE {
        // below the normal range: two units of the last subnormal place
        return diff <= 2.0 * f64::from_bits(1) + 0.0;
    }
    diff <= mag * 2f64.powi(-50)
}

/// Equality of values; floats bit-exact when `exact`, else within tolerance.
pub fn value_eq(a: &Value, b: &Value, exact: bool) -> bool {
    match (a, b) {
        (Value::Number(x), Value::Number(y)) => {
            if x.is_f64() && y.is_f64() {
                let (p, q) = (x.as_f64().unwrap(), y.as_f64().unwrap());
                if exact { p.to_bits() == q.to_bits() } else { float_close(p, q) }
            } else {
                x == y
            }
        }
        (Value::Cons(_), Value::Cons(_)) => {
            let (xs, xt) = a.as_cons().unwrap().to_ref_vec();
            let (ys, yt) = b.as_cons().unwrap().to_ref_vec();
            xs.len() == ys.len() && xs.iter().zip(ys.iter()).all(|(p, q)| value_eq(p, q, exact)) && value_eq(xt, yt, exact)
        }
        (Value::Vector(x), Value::Vector(y)) => x.len() == y.len() && x.iter().zip(y.iter()).all(|(p, q)| value_eq(p, q, exact)),
        (Value::Cons(_), _) | (_, Value::Cons(_)) | (Value::Vector(_), _) | (_, Value::Vector(_)) => false,
        _ => a == b,
    }
}

pub fn all_floats<F: FnMut(f64)>(v: &Value, f: &mut F) {
    crate::genval::walk(v, &mut |x| {
        if let Value::Number(n) = x {
            if n.is_f64() {
                f(n.as_f64().unwrap())
            }
        }
    });
}
