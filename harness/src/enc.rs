//! Canonical text encodings shared with the OCaml driver.
use lexpr::{Number, Value};

pub fn hex(b: &[u8]) -> String {
    let mut s = String::with_capacity(b.len() * 2);
    for x in b {
        s.push_str(&format!("{:02x}", x));
    }
    s
}

/// Bit pattern of a double for observations; all NaNs are one value in the
/// model (spec_float has a single NaN), so their payload and sign are dropped.
pub fn fbits(f: f64) -> u64 {
    if f.is_nan() { 0x7ff8_0000_0000_0000 } else { f.to_bits() }
}

pub fn unhex(s: &str) -> Vec<u8> {
    (0..s.len() / 2)
        .map(|i| u8::from_str_radix(&s[2 * i..2 * i + 2], 16).unwrap())
        .collect()
}

fn enc_number(n: &Number, with_ryu: bool, out: &mut String) {
    if let Some(u) = n.as_u64() {
        out.push_str(&format!("I+{}", u));
    } else if let Some(i) = n.as_i64() {
        // negative
        out.push_str(&format!("I-{}", (i as i128).unsigned_abs()));
    } else {
        let f = n.as_f64().unwrap();
        out.push_str(&format!("D{:016x}", fbits(f)));
        if with_ryu {
            let mut b = ryu::Buffer::new();
            out.push(':');
            out.push_str(&hex(b.format(f).as_bytes()));
        }
    }
}

/// Encode a value; cdr chains are written iteratively as `L<n> e.. tail`.
pub fn enc_value_opt(v: &Value, with_ryu: bool, out: &mut String) {
    match v {
        Value::Nil => out.push('N'),
        Value::Null => out.push('U'),
        Value::Bool(true) => out.push('T'),
        Value::Bool(false) => out.push('F'),
        Value::Number(n) => enc_number(n, with_ryu, out),
        Value::Char(c) => out.push_str(&format!("C{:x}", *c as u32)),
        Value::String(s) => {
            out.push_str("S:");
            out.push_str(&hex(s.as_bytes()))
        }
        Value::Symbol(s) => {
            out.push_str("Y:");
            out.push_str(&hex(s.as_bytes()))
        }
        Value::Keyword(s) => {
            out.push_str("K:");
            out.push_str(&hex(s.as_bytes()))
        }
        Value::Bytes(b) => {
            out.push_str("B:");
            out.push_str(&hex(b))
        }
        Value::Cons(c) => {
            let mut n = 0usize;
            let mut cur = c;
            loop {
                n += 1;
                match cur.cdr() {
                    Value::Cons(next) => cur = next,
                    _ => break,
                }
            }
            out.push_str(&format!("L{}", n));
            let mut cur = c;
            loop {
                out.push(' ');
                enc_value_opt(cur.car(), with_ryu, out);
                match cur.cdr() {
                    Value::Cons(next) => cur = next,
                    tail => {
                        out.push(' ');
                        enc_value_opt(tail, with_ryu, out);
                        break;
                    }
                }
            }
        }
        Value::Vector(els) => {
            out.push_str(&format!("V{}", els.len()));
            for e in els.iter() {
                out.push(' ');
                enc_value_opt(e, with_ryu, out);
            }
        }
    }
}

/// For case files (floats carry their ryu text for the model's oracle).
pub fn enc_case_value(v: &Value) -> String {
    let mut s = String::new();
    enc_value_opt(v, true, &mut s);
    s
}

/// For observations.
pub fn enc_value(v: &Value) -> String {
    let mut s = String::new();
    enc_value_opt(v, false, &mut s);
    s
}
