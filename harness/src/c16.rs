//! C16: stack use does not grow with the number of list elements.
//! Every list-walking operation of the public API runs in a child process on
//! a thread with a fixed 2 MiB stack, on lists of growing length; the exit
//! status is the observation. Parsing and printing additionally record the
//! address of a local from inside the io::Read / io::Write callbacks, so the
//! stack actually used can be compared between lengths.
use crate::out::Out;
use lexpr::Value;
use serde_json::json;
use std::io::{Read, Write};

pub const OPS: &[&str] = &[
    "parse", "parse_io", "parse_datum", "print", "print_elisp", "display", "to_vec", "to_ref_vec", "into_vec", "cons_to_vec",
    "iter", "list_iter", "into_iter", "get", "index", "is_list", "clone", "eq", "drop", "datum_clone", "datum_eq", "datum_drop",
    "datum_list_iter", "datum_to_value", "to_value", "from_value", "serde_text", "value_list", "value_append", "alist_get",
    "parse_err", "parse_datum_err", "datum_tail", "datum_from_ref", "datum_pair_walk",
    "parse_spellings", "datum_spans",
    "serde_ignored", "serde_unknown_field", "serde_ignored_slot", "serde_text_unknown_field", "serde_tuple_variant", "serde_map",
];

fn build(n: usize, dotted: bool) -> Value {
    let xs: Vec<Value> = (0..n as i64).map(Value::from).collect();
    if dotted { Value::append(xs, Value::symbol("end")) } else { Value::list(xs) }
}
fn text(n: usize, dotted: bool) -> String {
    let mut s = String::with_capacity(2 * n + 16);
    s.push('(');
    for i in 0..n { s.push_str(if i % 2 == 0 { "1 " } else { "x " }); }
    if dotted { s.push_str(". end"); }
    s.push(')');
    s
}

pub fn run_op(op: &str, n: usize, dotted: bool) {
    let t = text(n, dotted);
    let datum = || lexpr::datum::from_reader(t.as_bytes()).unwrap();
    match op {
        "parse" => { let v = lexpr::from_str(&t).unwrap(); assert!(v.is_cons()); std::mem::forget(v); }
        "parse_io" => { let v = lexpr::from_reader(t.as_bytes()).unwrap(); std::mem::forget(v); }
        "parse_datum" => { let d = datum(); std::mem::forget(d); }
        "print" => { let v = build(n, dotted); let s = lexpr::to_string(&v).unwrap(); assert!(s.len() > n); std::mem::forget(v); }
        "print_elisp" => { let v = build(n, dotted); let s = lexpr::to_string_custom(&v, lexpr::print::Options::elisp()).unwrap(); assert!(s.len() > n); std::mem::forget(v); }
        "display" => { let v = build(n, dotted); let s = format!("{}", v); assert!(s.len() > n); std::mem::forget(v); }
        "to_vec" => { let v = build(n, dotted); assert_eq!(v.to_vec().map(|x| x.len()), if dotted { None } else { Some(n) }); std::mem::forget(v); }
        "to_ref_vec" => { let v = build(n, dotted); assert_eq!(v.to_ref_vec().map(|x| x.len()), if dotted { None } else { Some(n) }); std::mem::forget(v); }
        "cons_to_vec" => { let v = build(n, dotted); let (a, _) = v.as_cons().unwrap().to_vec(); let (b, _) = v.as_cons().unwrap().to_ref_vec(); assert_eq!(a.len(), b.len()); std::mem::forget(v); }
        "into_vec" => { if let Value::Cons(c) = build(n, dotted) { let (xs, _) = c.into_vec(); assert_eq!(xs.len(), n); } }
        "iter" => { let v = build(n, dotted); assert_eq!(v.as_cons().unwrap().iter().count(), n); std::mem::forget(v); }
        "list_iter" => { let v = build(n, dotted); assert!(v.list_iter().unwrap().count() >= n); std::mem::forget(v); }
        "into_iter" => { if let Value::Cons(c) = build(n, dotted) { assert_eq!(c.into_iter().count(), n); } }
        "get" => { let v = build(n, dotted); assert!(v.get(n - 1).is_some() && v.get(n).is_none()); std::mem::forget(v); }
        "index" => { let v = build(n, dotted); assert!(!v[n - 1].is_nil() && v[n].is_nil() && v[usize::MAX].is_nil()); std::mem::forget(v); }
        "is_list" => { let v = build(n, dotted); assert!(v.is_list() != dotted && v.is_dotted_list() == dotted); std::mem::forget(v); }
        "clone" => { let v = build(n, dotted); let w = v.clone(); assert!(w.is_cons()); }
        "eq" => { let v = build(n, dotted); let w = build(n, dotted); assert!(v == w); }
        "drop" => { let v = build(n, dotted); drop(v); }
        "datum_clone" => { let d = datum(); let e = d.clone(); assert!(e.value().is_cons()); }
        "datum_eq" => { let d = datum(); let e = datum(); assert!(d == e); }
        "datum_drop" => { let d = datum(); drop(d); }
        "datum_list_iter" => { let d = datum(); assert!(d.list_iter().unwrap().count() >= n); }
        "datum_to_value" => { let d = datum(); let v: Value = d.into(); assert!(v.is_cons()); }
        // spans asked of every part of a long list: the whole, the rest after the first
        // element, an owned copy of that rest, and each element
        "datum_spans" => {
            let d = datum();
            let whole = d.span();
            let (first, rest) = d.as_ref().as_pair().unwrap();
            let _ = (first.span(), rest.span());
            let owned: lexpr::Datum = rest.into();
            let _ = owned.span();
            let _ = owned.as_ref().as_pair().map(|(a, b)| (a.span(), b.span()));
            let mut count = 0usize;
            let mut it = d.list_iter().unwrap();
            loop { match it.next() { Some(x) => { let _ = x.span(); count += 1; } None => { if it.is_empty() { break; } } } }
            assert!(count >= n && whole.start().line() == 1);
        }
        // other spellings of a long list: every cdr written out as a dotted tail
        // (a . (b . (c . ()))), and every element under a quote shorthand; whether
        // the reader accepts the text or refuses it (the nesting limit), it must
        // do so on a bounded stack, from every source, through both APIs
        "parse_spellings" => {
            let mut chain = String::with_capacity(8 * n + 8);
            for i in 0..n { chain.push_str(if i % 2 == 0 { "(1 . " } else { "(x . " }); }
            chain.push_str(if dotted { "end" } else { "()" });
            for _ in 0..n { chain.push(')'); }
            let mut quoted = String::with_capacity(3 * n + 8);
            quoted.push('(');
            for i in 0..n { quoted.push_str(if i % 2 == 0 { "'1 " } else { ",x " }); }
            if dotted { quoted.push_str(". 'end"); }
            quoted.push(')');
            for t in [&chain, &quoted] {
                let a = lexpr::from_str(t).is_ok();
                let b = lexpr::from_slice(t.as_bytes()).is_ok();
                let c = lexpr::from_reader(t.as_bytes()).is_ok();
                // (the datum API through a stream: SliceRead computes each position in O(n))
                let e = lexpr::datum::from_reader(t.as_bytes()).is_ok();
                assert!(a == b && b == c && c == e);
                let mut p = lexpr::Parser::from_str(t);
                let first = p.next_value();
                if let Ok(Some(v)) = first { std::mem::forget(v); }
            }
        }
        // a long list that ends badly: the parser has to unwind what it has built
        "parse_err" => {
            for bad in [&t[..t.len() - 1], &format!("{}]", &t[..t.len() - 1])[..], &format!("{} . )", &t[..t.len() - 1])[..]] {
                assert!(lexpr::from_str(bad).is_err());
                assert!(lexpr::from_slice(bad.as_bytes()).is_err());
                assert!(lexpr::from_reader(bad.as_bytes()).is_err());
            }
        }
        "parse_datum_err" => {
            for bad in [&t[..t.len() - 1], &format!("{}]", &t[..t.len() - 1])[..], &format!("{} . )", &t[..t.len() - 1])[..]] {
                assert!(lexpr::datum::from_reader(bad.as_bytes()).is_err());
                let mut p = lexpr::Parser::from_reader(bad.as_bytes());
                assert!(p.expect_datum().is_err());
            }
        }
        // owned datums made from inner references: their span chains do not start at a list head
        "datum_tail" => {
            let d = datum();
            let tail: lexpr::Datum = d.as_ref().as_pair().unwrap().1.into();
            let tail2 = tail.clone();
            assert!(tail == tail2);
            drop(d);
            drop(tail);
            assert!(tail2.value().is_cons());
            drop(tail2);
        }
        "datum_from_ref" => {
            let d = datum();
            let e: lexpr::Datum = d.as_ref().into();
            assert!(d == e);
            let first: lexpr::Datum = d.list_iter().unwrap().next().unwrap().into();
            assert!(!first.value().is_cons());
            drop(e);
        }
        "datum_pair_walk" => {
            // walk the cdr chain with as_pair, turning every 1000th tail into an owned datum
            let d = datum();
            let mut r = d.as_ref();
            let mut i = 0usize;
            let mut kept = Vec::new();
            while let Some((_, cdr)) = r.as_pair() {
                if i % 100_000 == 1 { kept.push(lexpr::Datum::from(cdr)); }
                r = cdr;
                i += 1;
            }
            assert_eq!(i, n);
            drop(kept);
        }
        #[cfg(feature = "with-serde")]
        "to_value" => { let xs: Vec<i64> = (0..n as i64).collect(); let v = serde_lexpr::to_value(&xs).unwrap(); assert!(v.is_cons()); }
        #[cfg(feature = "with-serde")]
        "from_value" => { let v = build(n, false); let xs: Vec<i64> = serde_lexpr::from_value(&v).unwrap(); assert_eq!(xs.len(), n); }
        // a long list that is skipped rather than read: IgnoredAny directly, as the value of a key the
        // struct does not declare (serde_derive skips it), as a tuple slot; long sequences inside a variant and a map
        #[cfg(feature = "with-serde")]
        "serde_ignored" => { let v = build(n, dotted); let _: serde::de::IgnoredAny = serde_lexpr::from_value(&v).unwrap(); std::mem::forget(v); }
        #[cfg(feature = "with-serde")]
        "serde_unknown_field" => {
            #[derive(serde_derive::Deserialize)] struct Known { a: i64 }
            let v = Value::list(vec![Value::cons(Value::symbol("junk"), build(n, dotted)), Value::cons(Value::symbol("a"), Value::from(7))]);
            let k: Known = serde_lexpr::from_value(&v).unwrap(); assert_eq!(k.a, 7); std::mem::forget(v);
        }
        #[cfg(feature = "with-serde")]
        "serde_ignored_slot" => { let v = Value::vector(vec![Value::from(1), build(n, dotted)]); let (a, _): (u8, serde::de::IgnoredAny) = serde_lexpr::from_value(&v).unwrap(); assert_eq!(a, 1); std::mem::forget(v); }
        #[cfg(feature = "with-serde")]
        "serde_text_unknown_field" => {
            #[derive(serde_derive::Deserialize)] struct Known { a: i64 }
            let s = format!("((junk . {}) (a . 7))", text(n, dotted));
            let k: Known = serde_lexpr::from_str(&s).unwrap(); assert_eq!(k.a, 7);
        }
        #[cfg(feature = "with-serde")]
        "serde_tuple_variant" => {
            #[derive(serde_derive::Serialize, serde_derive::Deserialize, PartialEq, Debug)] enum E { V(Vec<i64>, u8) }
            let e = E::V((0..n as i64).collect(), 3); let v = serde_lexpr::to_value(&e).unwrap(); let f: E = serde_lexpr::from_value(&v).unwrap(); assert_eq!(e, f); std::mem::forget(v);
        }
        #[cfg(feature = "with-serde")]
        "serde_map" => {
            let m: std::collections::BTreeMap<i64, i64> = (0..n as i64).map(|i| (i, i)).collect();
            let v = serde_lexpr::to_value(&m).unwrap(); let m2: std::collections::BTreeMap<i64, i64> = serde_lexpr::from_value(&v).unwrap(); assert_eq!(m.len(), m2.len()); std::mem::forget(v);
        }
        #[cfg(feature = "with-serde")]
        "serde_text" => { let xs: Vec<i64> = (0..n as i64).collect(); let s = serde_lexpr::to_string(&xs).unwrap(); let ys: Vec<i64> = serde_lexpr::from_str(&s).unwrap(); assert_eq!(xs, ys); }
        "value_list" => { let v = Value::list((0..n as i64).map(Value::from)); assert!(v.is_cons()); }
        "value_append" => { let v = Value::append((0..n as i64).map(Value::from), Value::list(vec![1, 2])); assert!(v.is_list()); }
        "alist_get" => { let v = Value::list((0..n as i64).map(|i| Value::cons(Value::from(i), Value::from(i)))); assert!(v.get("missing").is_none()); assert!(v.get(Value::from(n as i64 - 1)).is_some()); }
        _ => panic!("unknown op {}", op),
    }
}

pub fn child(op: &str, n: usize, dotted: bool) {
    let op = op.to_string();
    let t = std::thread::Builder::new().stack_size(2 << 20).spawn(move || run_op(&op, n, dotted)).unwrap();
    t.join().unwrap();
    println!("OK");
}

struct ProbeRead<'a> { data: &'a [u8], pos: usize, lo: usize, hi: usize }
impl<'a> Read for ProbeRead<'a> {
    fn read(&mut self, buf: &mut [u8]) -> std::io::Result<usize> {
        let marker = 0u8;
        let a = &marker as *const u8 as usize;
        self.lo = self.lo.min(a);
        self.hi = self.hi.max(a);
        let n = buf.len().min(self.data.len() - self.pos);
        buf[..n].copy_from_slice(&self.data[self.pos..self.pos + n]);
        self.pos += n;
        Ok(n)
    }
}
struct ProbeWrite { lo: usize, hi: usize, n: usize }
impl Write for ProbeWrite {
    fn write(&mut self, buf: &[u8]) -> std::io::Result<usize> {
        let marker = 0u8;
        let a = &marker as *const u8 as usize;
        self.lo = self.lo.min(a);
        self.hi = self.hi.max(a);
        self.n += buf.len();
        Ok(buf.len())
    }
    fn flush(&mut self) -> std::io::Result<()> { Ok(()) }
}

/// Stack span (bytes) seen from the callbacks while parsing / printing a flat list of n elements
fn probe(n: usize, nest: usize) -> (usize, usize) {
    let mut t = "(".repeat(nest);
    t.push_str(&text(n, false));
    t.push_str(&")".repeat(nest));
    let mut r = ProbeRead { data: t.as_bytes(), pos: 0, lo: usize::MAX, hi: 0 };
    let v = lexpr::from_reader(&mut r).unwrap();
    let mut w = ProbeWrite { lo: usize::MAX, hi: 0, n: 0 };
    lexpr::to_writer(&mut w, &v).unwrap();
    (r.hi - r.lo, w.hi - w.lo)
}

pub fn run(tier: &str, _seed: u64, out: &mut Out) {
    let sizes: Vec<usize> = if tier == "quick" { vec![1_000, 300_000] } else { vec![1_000, 100_000, 1_000_000, 3_000_000] };
    let exe = std::env::current_exe().unwrap();
    for op in OPS {
        for dotted in [false, true] {
            if dotted && ["from_value", "to_value", "serde_text", "value_list", "value_append", "alist_get", "serde_tuple_variant", "serde_map"].contains(op) { continue; }
            for n in &sizes {
                // datum parsing through a stream keeps positions O(1); SliceRead's are O(n) each
                out.oracle_checks += 1;
                let case = format!("stack op={} n={} dotted={}", op, n, dotted);
                out.oracle_only(&case, true);
                out.count(&format!("op:{}", op));
                let o = std::process::Command::new(&exe).args(["C16", "child", op, "unused", &n.to_string(), if dotted { "1" } else { "0" }]).output();
                match o {
                    Ok(o) => {
                        let so = String::from_utf8_lossy(&o.stdout).to_string();
                        if !o.status.success() || !so.contains("OK") {
                            let se = String::from_utf8_lossy(&o.stderr);
                            out.fail("stack", format!("{} on a {} list of {} elements dies on a 2 MiB stack: {:?} {}", op, if dotted { "dotted" } else { "proper" }, n, o.status.code(), se.lines().last().unwrap_or("")), case, json!({"op": op, "n": n}));
                            break;
                        }
                    }
                    Err(e) => out.fail("stack", format!("could not run child: {}", e), case, json!({})),
                }
            }
        }
    }
    // stack actually used by parse / print: constant in n, linear in nesting
    let (p1, w1) = probe(1_000, 0);
    let (p2, w2) = probe(200_000, 0);
    let (p3, w3) = probe(1_000, 50);
    out.oracle_checks += 1;
    out.extra.insert("stack_bytes_parse_print".into(), json!({"n=1000": [p1, w1], "n=200000": [p2, w2], "n=1000,nesting=50": [p3, w3]}));
    if p2 > p1 + 4096 || w2 > w1 + 4096 {
        out.fail("stack-growth", format!("stack used while parsing/printing grows with the list length: parse {} -> {} bytes, print {} -> {} bytes", p1, p2, w1, w2), "probe".into(), json!({}));
    }
}
