//! Collects what a run produced: cases for the model, implementation
//! observations, oracle failures and coverage statistics.
use serde_json::{json, Value as J};
use std::collections::{BTreeMap, HashSet};
use std::fs;
use std::hash::{Hash, Hasher};
use std::path::Path;

pub struct Failure {
    pub key: String,
    pub what: String,
    pub case: String,
    pub detail: J,
}

#[derive(Default)]
pub struct Out {
    pub cases: Vec<String>,
    pub impls: Vec<String>,
    pub failures: Vec<Failure>,
    pub hist: BTreeMap<String, u64>,
    pub samples: Vec<String>,
    distinct: HashSet<u64>,
    pub evaluations: u64,
    pub oracle_checks: u64,
    pub extra: BTreeMap<String, J>,
}

fn h(s: &str) -> u64 {
    let mut hs = std::collections::hash_map::DefaultHasher::new();
    s.hash(&mut hs);
    hs.finish()
}

impl Out {
    pub fn new() -> Self {
        Default::default()
    }
    /// A case compared between model and implementation.
    pub fn case(&mut self, case: String, imp: String, nontrivial: bool) {
        self.evaluations += 1;
        if nontrivial {
            self.distinct.insert(h(&case));
        }
        if self.samples.len() < 12 && (self.evaluations % 97 == 1) {
            self.samples.push(format!("{} => {}", clip(&case), clip(&imp)));
        }
        self.cases.push(case);
        self.impls.push(imp);
    }
    /// An implementation-only evaluation of the property oracle.
    pub fn oracle_only(&mut self, case: &str, nontrivial: bool) {
        self.evaluations += 1;
        if nontrivial {
            self.distinct.insert(h(case));
        }
    }
    pub fn count(&mut self, k: &str) {
        *self.hist.entry(k.to_string()).or_insert(0) += 1;
    }
    pub fn fail(&mut self, key: &str, what: String, case: String, detail: J) {
        if self.failures.len() < 200 {
            self.failures.push(Failure { key: key.to_string(), what, case, detail });
        }
    }
    pub fn write(&self, dir: &Path) {
        fs::create_dir_all(dir).unwrap();
        let nl = if self.cases.is_empty() { "" } else { "\n" };
        fs::write(dir.join("cases.txt"), self.cases.join("\n") + nl).unwrap();
        fs::write(dir.join("impl.txt"), self.impls.join("\n") + nl).unwrap();
        let fails: Vec<J> = self
            .failures
            .iter()
            .map(|f| json!({"key": f.key, "what": f.what, "case": f.case, "detail": f.detail}))
            .collect();
        let stats = json!({
            "evaluations": self.evaluations,
            "distinct_nontrivial": self.distinct.len(),
            "oracle_checks": self.oracle_checks,
            "compared_cases": self.cases.len(),
            "histogram": self.hist,
            "samples": self.samples,
            "failures": fails,
            "extra": self.extra,
        });
        fs::write(dir.join("stats.json"), serde_json::to_string_pretty(&stats).unwrap()).unwrap();
    }
}

pub fn clip(s: &str) -> String {
    if s.len() > 160 {
        let mut e = 160;
        while !s.is_char_boundary(e) {
            e -= 1;
        }
        format!("{}…", &s[..e])
    } else {
        s.to_string()
    }
}
