//! Independent readers for the documented subsets of R6RS/R7RS Scheme and of
//! Emacs Lisp, written from the grammars (R7RS 7.1, Elisp manual 2.3-2.4,
//! docs/elisp-strings.md). They share no code with lexpr's parser and are
//! used as the "independent reader" of C01 / C02.
use crate::dialect::is_r7rs_identifier;
use lexpr::{Number, Value};

#[derive(Clone, Copy, PartialEq)]
pub enum Dialect {
    Scheme,
    Elisp,
}

struct Rd<'a> {
    s: &'a [u8],
    i: usize,
    d: Dialect,
}

fn is_ws(b: u8) -> bool {
    b == b' ' || b == b'\t' || b == b'\n' || b == b'\r' || b == 0x0c
}

impl<'a> Rd<'a> {
    fn peek(&self) -> Option<u8> {
        self.s.get(self.i).copied()
    }
    fn skip_ws(&mut self) {
        loop {
            match self.peek() {
                Some(b) if is_ws(b) => self.i += 1,
                Some(b';') => {
                    while let Some(b) = self.peek() {
                        self.i += 1;
                        if b == b'\n' {
                            break;
                        }
                    }
                }
                _ => break,
            }
        }
    }
    fn is_delim(&self, b: u8) -> bool {
        match self.d {
            Dialect::Scheme => is_ws(b) || b"|()\";".contains(&b),
            Dialect::Elisp => is_ws(b) || b"()[]\";".contains(&b),
        }
    }
    fn token(&mut self) -> &'a str {
        let st = self.i;
        while let Some(b) = self.peek() {
            if self.is_delim(b) {
                break;
            }
            self.i += 1;
        }
        std::str::from_utf8(&self.s[st..self.i]).unwrap_or("\u{fffd}")
    }

    fn datum(&mut self) -> Option<Value> {
        self.skip_ws();
        let b = self.peek()?;
        match b {
            b'(' => {
                self.i += 1;
                self.list(b')')
            }
            b'[' if self.d == Dialect::Elisp => {
                self.i += 1;
                let mut els = vec![];
                loop {
                    self.skip_ws();
                    if self.peek()? == b']' {
                        self.i += 1;
                        return Some(Value::Vector(els.into()));
                    }
                    els.push(self.datum()?);
                }
            }
            b'"' => {
                self.i += 1;
                self.string()
            }
            b'\'' | b'`' | b',' => {
                self.i += 1;
                let name = match b {
                    b'\'' => "quote",
                    b'`' => "quasiquote",
                    _ => {
                        if self.peek() == Some(b'@') {
                            self.i += 1;
                            "unquote-splicing"
                        } else {
                            "unquote"
                        }
                    }
                };
                let d = self.datum()?;
                Some(Value::list(vec![Value::symbol(name), d]))
            }
            b'?' if self.d == Dialect::Elisp => {
                self.i += 1;
                self.elisp_char()
            }
            b'#' if self.d == Dialect::Scheme => self.hash(),
            _ => {
                let t = self.token();
                if t.is_empty() {
                    return None;
                }
                self.atom(t)
            }
        }
    }

    fn list(&mut self, close: u8) -> Option<Value> {
        let mut els = vec![];
        loop {
            self.skip_ws();
            let b = self.peek()?;
            if b == close {
                self.i += 1;
                return Some(Value::list(els));
            }
            if b == b'.' && self.s.get(self.i + 1).map(|c| self.is_delim(*c)).unwrap_or(true) {
                if els.is_empty() {
                    return None;
                }
                self.i += 1;
                let t = self.datum()?;
                self.skip_ws();
                if self.peek()? != close {
                    return None;
                }
                self.i += 1;
                return Some(Value::append(els, t));
            }
            els.push(self.datum()?);
        }
    }

    fn number(t: &str) -> Option<Value> {
        let (neg, digits) = match t.as_bytes().first()? {
            b'-' => (true, &t[1..]),
            b'+' => (false, &t[1..]),
            _ => (false, t),
        };
        if digits.is_empty() || !digits.as_bytes()[0].is_ascii_digit() {
            return None;
        }
        if digits.bytes().all(|b| b.is_ascii_digit()) {
            // integer: exact when it fits, else the nearest double
            let trimmed = digits.trim_start_matches('0');
            if trimmed.len() <= 20 {
                if let Ok(u) = trimmed.parse::<u128>().or_else(|_| if trimmed.is_empty() { Ok(0) } else { Err(()) }) {
                    if !neg && u <= u64::MAX as u128 {
                        return Some(Value::from(u as u64));
                    }
                    if neg && u <= (1u128 << 63) {
                        return Some(if u == 0 { Value::from(0u64) } else { Value::from((-(u as i128)) as i64) });
                    }
                }
            }
            let f: f64 = t.parse().ok()?;
            return Some(Value::from(f));
        }
        // decimal: digits [. digits] [e [sign] digits]
        let mut seen_dot = false;
        let mut seen_e = false;
        let bs = digits.as_bytes();
        let mut k = 0;
        while k < bs.len() {
            match bs[k] {
                b'0'..=b'9' => {}
                b'.' if !seen_dot && !seen_e => {
                    seen_dot = true;
                    if k + 1 >= bs.len() || !bs[k + 1].is_ascii_digit() {
                        return None;
                    }
                }
                b'e' | b'E' if !seen_e => {
                    seen_e = true;
                    if k + 1 < bs.len() && (bs[k + 1] == b'+' || bs[k + 1] == b'-') {
                        k += 1;
                    }
                    if k + 1 >= bs.len() || !bs[k + 1].is_ascii_digit() {
                        return None;
                    }
                }
                _ => return None,
            }
            k += 1;
        }
        let f: f64 = t.parse().ok()?;
        if f.is_infinite() {
            return None;
        }
        Some(Value::from(f))
    }

    fn atom(&mut self, t: &str) -> Option<Value> {
        if let Some(n) = Self::number(t) {
            return Some(n);
        }
        match self.d {
            Dialect::Scheme => {
                if is_r7rs_identifier(t) {
                    Some(Value::symbol(t))
                } else {
                    None
                }
            }
            Dialect::Elisp => {
                if t == "nil" {
                    return Some(Value::Null);
                }
                if t.starts_with(':') && t.len() > 1 {
                    return Some(Value::keyword(&t[1..]));
                }
                if t.starts_with(|c: char| c.is_ascii_digit()) || t.starts_with('?') || t.contains(|c: char| "#'`,".contains(c)) {
                    return None;
                }
                Some(Value::symbol(t))
            }
        }
    }

    fn hash(&mut self) -> Option<Value> {
        // at '#'
        let rest = &self.s[self.i..];
        if rest.starts_with(b"#(") {
            self.i += 2;
            let mut els = vec![];
            loop {
                self.skip_ws();
                if self.peek()? == b')' {
                    self.i += 1;
                    return Some(Value::Vector(els.into()));
                }
                els.push(self.datum()?);
            }
        }
        for pre in [&b"#u8("[..], &b"#vu8("[..]] {
            if rest.starts_with(pre) {
                self.i += pre.len();
                let mut bytes = vec![];
                loop {
                    self.skip_ws();
                    if self.peek()? == b')' {
                        self.i += 1;
                        return Some(Value::Bytes(bytes.into()));
                    }
                    let t = self.token();
                    let n: u32 = t.parse().ok()?;
                    if n > 255 {
                        return None;
                    }
                    bytes.push(n as u8);
                }
            }
        }
        if rest.starts_with(b"#\\") {
            self.i += 2;
            // the character itself, then the rest of the token
            let st = self.i;
            let text = std::str::from_utf8(&self.s[st..]).ok()?;
            let first = text.chars().next()?;
            self.i += first.len_utf8();
            let more = self.token();
            if more.is_empty() {
                return Some(Value::Char(first));
            }
            let name = format!("{}{}", first, more);
            if first == 'x' {
                let n = u32::from_str_radix(more, 16).ok()?;
                return char::from_u32(n).map(Value::Char);
            }
            let c = match name.as_str() {
                "nul" | "null" => '\0',
                "alarm" => '\x07',
                "backspace" => '\x08',
                "tab" => '\t',
                "linefeed" | "newline" => '\n',
                "vtab" => '\x0b',
                "page" => '\x0c',
                "return" => '\r',
                "esc" | "escape" => '\x1b',
                "space" => ' ',
                "delete" => '\x7f',
                _ => return None,
            };
            return Some(Value::Char(c));
        }
        self.i += 1;
        let t = self.token();
        match t {
            "t" | "true" => Some(Value::Bool(true)),
            "f" | "false" => Some(Value::Bool(false)),
            "nil" => Some(Value::Nil),
            _ if t.starts_with(':') => {
                let n = &t[1..];
                if is_r7rs_identifier(n) { Some(Value::keyword(n)) } else { None }
            }
            _ => None,
        }
    }

    fn string(&mut self) -> Option<Value> {
        let mut out: Vec<u8> = vec![];
        let mut byte_escape = false;
        let mut multibyte = false;
        loop {
            let b = self.peek()?;
            self.i += 1;
            match b {
                b'"' => break,
                b'\\' => {
                    let e = self.peek()?;
                    self.i += 1;
                    let simple = match e {
                        b'a' => Some(7u8),
                        b'b' => Some(8),
                        b't' => Some(9),
                        b'n' => Some(10),
                        b'r' => Some(13),
                        b'"' => Some(b'"'),
                        b'\\' => Some(b'\\'),
                        b'v' => Some(11),
                        b'f' => Some(12),
                        _ => None,
                    };
                    if let Some(x) = simple {
                        out.push(x);
                        continue;
                    }
                    match (self.d, e) {
                        (Dialect::Scheme, b'x') => {
                            let st = self.i;
                            while self.peek()? != b';' {
                                self.i += 1;
                            }
                            let n = u32::from_str_radix(std::str::from_utf8(&self.s[st..self.i]).ok()?, 16).ok()?;
                            self.i += 1;
                            let c = char::from_u32(n)?;
                            out.extend_from_slice(c.encode_utf8(&mut [0; 4]).as_bytes());
                        }
                        (Dialect::Scheme, b'|') => out.push(b'|'),
                        (Dialect::Elisp, b'u') => {
                            let h = std::str::from_utf8(self.s.get(self.i..self.i + 4)?).ok()?;
                            let n = u32::from_str_radix(h, 16).ok()?;
                            self.i += 4;
                            let c = char::from_u32(n)?;
                            out.extend_from_slice(c.encode_utf8(&mut [0; 4]).as_bytes());
                            multibyte = true;
                        }
                        (Dialect::Elisp, b'0'..=b'7') => {
                            let mut n = (e - b'0') as u32;
                            while let Some(d @ b'0'..=b'7') = self.peek() {
                                n = n * 8 + (d - b'0') as u32;
                                self.i += 1;
                            }
                            if n > 255 {
                                return None;
                            }
                            out.push(n as u8);
                            byte_escape = true;
                        }
                        (Dialect::Elisp, b'e') => out.push(27),
                        (Dialect::Elisp, b's') => out.push(32),
                        (Dialect::Elisp, b'd') => out.push(127),
                        _ => return None,
                    }
                }
                _ => {
                    if b >= 0x80 {
                        multibyte = true;
                    }
                    out.push(b)
                }
            }
        }
        if self.d == Dialect::Elisp && byte_escape && !multibyte {
            return Some(Value::Bytes(out.into()));
        }
        String::from_utf8(out).ok().map(Value::string)
    }

    fn elisp_char(&mut self) -> Option<Value> {
        let text = std::str::from_utf8(&self.s[self.i..]).ok()?;
        let c = text.chars().next()?;
        self.i += c.len_utf8();
        if c != '\\' {
            if "()[];".contains(c) {
                return None;
            }
            return Some(Value::Char(c));
        }
        let text = std::str::from_utf8(&self.s[self.i..]).ok()?;
        let e = text.chars().next()?;
        self.i += e.len_utf8();
        if e == 'x' {
            let st = self.i;
            while let Some(b) = self.peek() {
                if b.is_ascii_hexdigit() { self.i += 1 } else { break }
            }
            let n = u32::from_str_radix(std::str::from_utf8(&self.s[st..self.i]).ok()?, 16).ok()?;
            return char::from_u32(n).map(Value::Char);
        }
        Some(Value::Char(match e {
            'a' => '\x07',
            'b' => '\x08',
            't' => '\t',
            'n' => '\n',
            'v' => '\x0b',
            'f' => '\x0c',
            'r' => '\r',
            'e' => '\x1b',
            's' => ' ',
            'd' => '\x7f',
            other => other,
        }))
    }
}

/// Read exactly one datum (then only trivia) from the text.
pub fn read_one(text: &[u8], d: Dialect) -> Option<Value> {
    let mut r = Rd { s: text, i: 0, d };
    let v = r.datum()?;
    r.skip_ws();
    if r.i == text.len() { Some(v) } else { None }
}

#[allow(dead_code)]
pub fn number_of(n: &Number) -> f64 {
    n.as_f64().unwrap_or(0.0)
}
