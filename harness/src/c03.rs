//! C03: parsing is total -- any bytes, any options -> value or error; bounded recursion.
use crate::enc::hex;
use crate::gentext::{gen_foreign, mutate, pathological};
use crate::out::Out;
use crate::pobs::*;
use crate::popts::Ro;
use crate::rng::Rng;
use serde_json::json;

pub fn pick_ro(r: &mut Rng, all: &[Ro]) -> Ro {
    match r.below(6) {
        0 => Ro::DEFAULT,
        1 => Ro::ELISP,
        2 => Ro::NEW,
        _ => all[r.below(all.len() as u64) as usize],
    }
}

pub fn srcs_for(text: &[u8]) -> Vec<Src> {
    if std::str::from_utf8(text).is_ok() { vec![Src::Str, Src::Slice, Src::Io] } else { vec![Src::Slice, Src::Io] }
}

/// One text through the single-shot entry points; every outcome must be a
/// value or an error (a panic is a violation).
pub fn single_shot(out: &mut Out, text: &[u8], ro: Ro, srcs: &[Src], with_datum: bool, nontrivial: bool) {
    for src in srcs {
        let case = format!("parse {} {} {}", src.name(), ro.code(), bytes_code(text));
        out.oracle_checks += 1;
        match parse_value(*src, ro, text) {
            Ok(r) => {
                out.count(&format!("outcome:{}", match &r { Ok(_) => "ok".to_string(), Err(e) => err_kind(e) }));
                out.case(case, vres_obs(&r), nontrivial)
            }
            Err(p) => out.fail("panic", format!("from_{}_custom panicked: {}", src.name(), p), case, json!({"text": hex(text)})),
        }
        if with_datum {
            let case = format!("datum {} {} {}", src.name(), ro.code(), bytes_code(text));
            out.oracle_checks += 1;
            match parse_datum(*src, ro, text) {
                Ok(r) => out.case(case, dres_obs(&r), nontrivial),
                Err(p) => out.fail("panic", format!("datum::from_{}_custom panicked: {}", src.name(), p), case, json!({"text": hex(text)})),
            }
        }
    }
}

pub fn iterated(out: &mut Out, r: &mut Rng, text: &[u8], ro: Ro, srcs: &[Src]) {
    let cap = text.len() + 3;
    for src in srcs {
        for mode in ['v', 'd'] {
            let case = format!("iter {} {} {} {} {}", src.name(), ro.code(), mode, cap, bytes_code(text));
            out.oracle_checks += 1;
            match iterate(*src, ro, text, mode, cap) {
                Ok(items) => {
                    if items.len() >= cap {
                        out.fail("nontermination", format!("iteration over {} bytes yielded {} items without ending", text.len(), items.len()), case.clone(), json!({"text": hex(text)}));
                    }
                    out.case(case, items.join(" ;; "), true)
                }
                Err(p) => out.fail("panic", format!("iteration panicked: {}", p), case, json!({"text": hex(text)})),
            }
        }
    }
    // a call history on one parser, continuing after errors
    let n = 2 + r.below(10) as usize;
    let calls: String = (0..n).map(|_| *r.pick(&['v', 'd', 'V', 'D', 'E', 'v', 'd'])).collect();
    let src = *r.pick(srcs);
    let case = format!("hist {} {} {} {}", src.name(), ro.code(), calls, bytes_code(text));
    out.oracle_checks += 1;
    match history(src, ro, text, &calls) {
        Ok(items) => out.case(case, items.join(" ;; "), true),
        Err(p) => out.fail("panic", format!("call history {} panicked: {}", calls, p), case, json!({"text": hex(text)})),
    }
}

/// Runs in a child process: a stack overflow aborts, which the parent observes.
pub fn deep_child(kind: u64, n: usize, api: &str) {
    let api = api.to_string();
    let text = pathological(kind, n);
    let ro = if api.ends_with('e') { Ro::ELISP } else { Ro::DEFAULT };
    let t = std::thread::Builder::new().stack_size(2 << 20).spawn(move || {
        let r = match &api[..1] {
            "v" => parse_value(Src::Slice, ro, &text).map(|r| vres_obs(&r)),
            "d" => parse_datum(Src::Slice, ro, &text).map(|r| dres_obs(&r)),
            "i" => parse_value(Src::Io, ro, &text).map(|r| vres_obs(&r)),
            _ => iterate(Src::Slice, ro, &text, 'v', 5).map(|v| v.join(" ;; ")),
        };
        match r {
            Ok(o) => {
                let short: String = o.chars().take(60).collect();
                println!("RESULT {}", short);
            }
            Err(p) => println!("PANIC {}", p),
        }
    });
    t.unwrap().join().unwrap();
}

pub fn run(tier: &str, seed: u64, out: &mut Out) {
    let mut r = Rng::new(seed);
    let all = Ro::all();
    let (nfuzz, exh_len, nhist) = match tier { "thorough" => (60_000, 2, 20_000), "search" => (30_000, 1, 8_000), _ => (2_500, 1, 800) };

    // exhaustive short byte strings
    let exh_ros: Vec<Ro> = if tier == "thorough" {
        vec![Ro::DEFAULT, Ro::ELISP, Ro::NEW, Ro { kw: 7, nil: 2, t: 0, brackets: 1, string: 0, chr: 1, racket: 1, digit: 1 }]
    } else {
        vec![Ro::DEFAULT, Ro { kw: 7, nil: 0, t: 0, brackets: 1, string: 1, chr: 1, racket: 1, digit: 1 }]
    };
    for ro in &exh_ros {
        single_shot(out, b"", *ro, &[Src::Str, Src::Slice, Src::Io], true, false);
        for a in 0..=255u8 {
            single_shot(out, &[a], *ro, &srcs_for(&[a]), true, true);
            if exh_len >= 2 || tier == "quick" {
                // quick: second byte from a covering alphabet; thorough: all
                let seconds: Vec<u8> = if exh_len >= 2 { (0..=255).collect() } else { b"()[]\"\\;#.'`,|? \n\x0c0179aexX:+-@\x00\x7f\x80\xa9\xc3\xe2\xf0\xff".to_vec() };
                for b in seconds {
                    let t = [a, b];
                    single_shot(out, &t, *ro, &[Src::Slice], false, true);
                    out.count("exhaustive:2");
                }
            }
        }
    }
    out.extra.insert("exhaustive_lengths".into(), json!(if exh_len >= 2 { "all strings of length <= 2" } else { "all strings of length <= 1, length 2 over a 34-byte second-byte alphabet" }));

    // token-alphabet fuzzing and byte-level damage
    for i in 0..nfuzz {
        let base = gen_foreign(&mut r);
        let text: Vec<u8> = match i % 3 {
            0 => base.into_bytes(),
            _ => mutate(base.as_bytes(), &mut r),
        };
        let ro = pick_ro(&mut r, &all);
        out.count(&format!("textlen:{}", match text.len() { 0..=7 => "0-7", 8..=31 => "8-31", 32..=127 => "32-127", _ => "128+" }));
        out.count(if i % 3 == 0 { "stream:token-fuzz" } else { "stream:mutated" });
        let srcs = srcs_for(&text);
        single_shot(out, &text, ro, &srcs, true, true);
        if i < nhist {
            iterated(out, &mut r, &text, ro, &srcs);
        }
    }

    // nesting limit: accepted up to the limit, rejected beyond, for every construct
    for kind in 9..14u64 {
        for n in [1usize, 50, 100, 126, 127, 128, 129, 200, 1000] {
            let text = pathological(kind, n);
            let levels = match kind { 13 => 2 * n, _ => n };
            let ro = Ro::DEFAULT;
            out.oracle_checks += 1;
            let r0 = parse_value(Src::Slice, ro, &text);
            let case = format!("parse slice {} {}", ro.code(), bytes_code(&text));
            match &r0 {
                Ok(res) => {
                    let accepted = res.is_ok();
                    if levels <= 100 && !accepted {
                        out.fail("depth", format!("{} levels of nesting (shape {}) rejected", levels, kind), case.clone(), json!({}));
                    }
                    if levels > 128 && accepted {
                        out.fail("depth", format!("{} levels of nesting (shape {}) accepted", levels, kind), case.clone(), json!({}));
                    }
                    out.count(&format!("depth:{}:{}", if levels <= 127 { "<=127" } else { ">127" }, if accepted { "accepted" } else { "rejected" }));
                }
                Err(p) => out.fail("panic", format!("deep nesting panicked: {}", p), case.clone(), json!({})),
            }
            single_shot(out, &text, ro, &[Src::Slice, Src::Io], true, true);
        }
    }

    // long runs of openers through the iterators on one parser: every call hits
    // the nesting limit, and the budget must come back each time
    for kind in [0u64, 1, 2, 3, 6, 8] {
        let text = pathological(kind, if tier == "quick" { 12_000 } else { 40_000 });
        for (src, mode) in [(Src::Slice, 'v'), (Src::Io, 'd'), (Src::Str, 'n')] {
            let cap = 400;
            let case = format!("iter {} {} {} {} {}", src.name(), Ro::DEFAULT.code(), if mode == 'n' { 'v' } else { mode }, cap, bytes_code(&text));
            out.oracle_checks += 1;
            match iterate(src, Ro::DEFAULT, &text, mode, cap) {
                Ok(items) => {
                    out.count("long-opener-run:iterated");
                    out.case(case, items.join(" ;; "), true)
                }
                Err(p) => out.fail("panic", format!("iterating over a run of {} openers (shape {}) panicked: {}", text.len(), kind, p), case, json!({"shape": kind})),
            }
        }
    }

    // hundreds of datums of one kind, and runs of failing datums, through the iterators on one parser
    for t in crate::gentext::wide_sequences() {
        for (src, mode) in [(Src::Slice, 'v'), (Src::Io, 'd')] {
            let cap = 700;
            let case = format!("iter {} {} {} {} {}", src.name(), Ro::DEFAULT.code(), mode, cap, bytes_code(t.as_bytes()));
            out.oracle_checks += 1;
            match iterate(src, Ro::DEFAULT, t.as_bytes(), mode, cap) {
                Ok(items) => { out.count("wide-sequence:iterated"); out.case(case, items.join(" ;; "), true) }
                Err(p) => out.fail("panic", format!("iterating over a wide sequence panicked: {}", p), case, json!({})),
            }
        }
    }

    // pathological shapes in a child process with a 2 MiB stack
    let deep_n = if tier == "quick" { 200_000 } else { 1_000_000 };
    let exe = std::env::current_exe().unwrap();
    for kind in 0..27u64 {
        for api in ["v", "d", "i", "n", "ve"] {
            if tier == "quick" && (api == "i" || api == "n") && kind % 3 != 0 {
                continue;
            }
            out.oracle_checks += 1;
            let o = std::process::Command::new(&exe).args(["C03", "deepchild", &kind.to_string(), "unused", &deep_n.to_string(), api]).output();
            let case = format!("deepchild shape={} n={} api={}", kind, deep_n, api);
            out.oracle_only(&case, true);
            match o {
                Ok(o) => {
                    let so = String::from_utf8_lossy(&o.stdout).to_string();
                    if !o.status.success() || !so.starts_with("RESULT") {
                        out.fail("abort", format!("{} repetitions of shape {} through api {}: process ended with {:?} / {}", deep_n, kind, api, o.status.code(), so.trim()), case, json!({}));
                    }
                    out.count("deep:ran");
                }
                Err(e) => out.fail("abort", format!("could not run child: {}", e), case, json!({})),
            }
        }
    }
}
