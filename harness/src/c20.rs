//! C20: accessors, conversions and comparisons are coherent.
use crate::enc::{enc_case_value, enc_value, fbits, hex};
use crate::genval::{gen_f64, gen_i64_neg, gen_string, gen_u64, gen_value, kind_name, FloatMode, GenCfg, NameMode};
use crate::out::Out;
use crate::rng::Rng;
use lexpr::{Number, Value};
use serde_json::json;

fn opt<T, F: Fn(T) -> String>(o: Option<T>, f: F) -> String {
    match o {
        Some(x) => f(x),
        None => "-".into(),
    }
}
fn b01(b: bool) -> &'static str {
    if b { "1" } else { "0" }
}

pub fn acc(v: &Value) -> String {
    let kinds = [
        v.is_nil(), v.is_null(), v.is_boolean(), v.is_number(), v.is_char(), v.is_string(), v.is_symbol(),
        v.is_keyword(), v.is_bytes(), v.is_cons(), v.is_vector(),
    ];
    format!(
        "k={} str={} sym={} kw={} name={} bytes={} bool={} char={} i64={} u64={} f64={} is={}{}{}",
        kinds.iter().map(|b| b01(*b)).collect::<String>(),
        opt(v.as_str(), |s| hex(s.as_bytes())),
        opt(v.as_symbol(), |s| hex(s.as_bytes())),
        opt(v.as_keyword(), |s| hex(s.as_bytes())),
        opt(v.as_name(), |s| hex(s.as_bytes())),
        opt(v.as_bytes(), |s| hex(s)),
        opt(v.as_bool(), |b| b01(b).to_string()),
        opt(v.as_char(), |c| format!("{:x}", c as u32)),
        opt(v.as_i64(), |i| i.to_string()),
        opt(v.as_u64(), |i| i.to_string()),
        opt(v.as_f64(), |f| format!("{:016x}", fbits(f))),
        b01(v.is_i64()),
        b01(v.is_u64()),
        b01(v.is_f64()),
    )
}

/// The property evaluated directly on the implementation.
fn oracle_value(out: &mut Out, v: &Value, case: &str) {
    out.oracle_checks += 1;
    let kinds = [
        v.is_nil(), v.is_null(), v.is_boolean(), v.is_number(), v.is_char(), v.is_string(), v.is_symbol(),
        v.is_keyword(), v.is_bytes(), v.is_cons(), v.is_vector(),
    ];
    let mut bad = vec![];
    if kinds.iter().filter(|b| **b).count() != 1 {
        bad.push("not exactly one kind predicate holds");
    }
    if v.is_string() != v.as_str().is_some() { bad.push("is_string vs as_str"); }
    if v.is_symbol() != v.as_symbol().is_some() { bad.push("is_symbol vs as_symbol"); }
    if v.is_keyword() != v.as_keyword().is_some() { bad.push("is_keyword vs as_keyword"); }
    if v.is_bytes() != v.as_bytes().is_some() { bad.push("is_bytes vs as_bytes"); }
    if v.is_number() != v.as_number().is_some() { bad.push("is_number vs as_number"); }
    if v.is_boolean() != v.as_bool().is_some() { bad.push("is_boolean vs as_bool"); }
    if v.is_char() != v.as_char().is_some() { bad.push("is_char vs as_char"); }
    if v.is_nil() != v.as_nil().is_some() { bad.push("is_nil vs as_nil"); }
    if v.is_null() != v.as_null().is_some() { bad.push("is_null vs as_null"); }
    if v.is_cons() != v.as_cons().is_some() { bad.push("is_cons vs as_cons"); }
    if v.is_vector() != v.as_slice().is_some() { bad.push("is_vector vs as_slice"); }
    if v.is_i64() != v.as_i64().is_some() { bad.push("is_i64 vs as_i64"); }
    if v.is_u64() != v.as_u64().is_some() { bad.push("is_u64 vs as_u64"); }
    if v.as_f64().is_some() != v.is_number() { bad.push("as_f64 is Some exactly for numbers"); }
    if v.is_f64() && (v.as_i64().is_some() || v.as_u64().is_some()) { bad.push("a float is reported as an integer"); }
    // an integer within the range of the other signedness is seen through it too
    if let Some(i) = v.as_i64() { if i >= 0 && v.as_u64() != Some(i as u64) { bad.push("a non-negative integer is not returned by as_u64"); } }
    if let Some(u) = v.as_u64() { if u <= i64::MAX as u64 && v.as_i64() != Some(u as i64) { bad.push("an integer within i64 is not returned by as_i64"); } }
    if let Some(i) = v.as_i64() { if v.as_f64() != Some(i as f64) { bad.push("as_f64 of an integer is not the nearest double"); } }
    let name_kinds = v.is_string() || v.is_symbol() || v.is_keyword();
    if v.as_name().is_some() != name_kinds { bad.push("as_name is Some exactly for strings, symbols and keywords"); }
    for b in bad {
        out.fail("accessor", b.to_string(), case.to_string(), json!({"value": enc_value(v)}));
    }
}

#[derive(Clone, Debug)]
pub enum Prim {
    I8(i8), I16(i16), I32(i32), I64(i64), U8(u8), U16(u16), U32(u32), U64(u64), F32(f32), F64(f64), B(bool), S(String),
}

impl Prim {
    pub fn code(&self) -> String {
        match self {
            Prim::I8(x) => format!("s8:{}", x),
            Prim::I16(x) => format!("s16:{}", x),
            Prim::I32(x) => format!("s32:{}", x),
            Prim::I64(x) => format!("s64:{}", x),
            Prim::U8(x) => format!("u8:{}", x),
            Prim::U16(x) => format!("u16:{}", x),
            Prim::U32(x) => format!("u32:{}", x),
            Prim::U64(x) => format!("u64:{}", x),
            Prim::F32(x) => format!("f32:{:08x}", if x.is_nan() { 0x7fc0_0000 } else { x.to_bits() }),
            Prim::F64(x) => format!("f64:{:016x}", fbits(*x)),
            Prim::B(x) => format!("b:{}", b01(*x)),
            Prim::S(x) => format!("str:{}", hex(x.as_bytes())),
        }
    }
    pub fn to_value(&self) -> Value {
        match self {
            Prim::I8(x) => Value::from(*x),
            Prim::I16(x) => Value::from(*x),
            Prim::I32(x) => Value::from(*x),
            Prim::I64(x) => Value::from(*x),
            Prim::U8(x) => Value::from(*x),
            Prim::U16(x) => Value::from(*x),
            Prim::U32(x) => Value::from(*x),
            Prim::U64(x) => Value::from(*x),
            Prim::F32(x) => Value::from(*x),
            Prim::F64(x) => Value::from(*x),
            Prim::B(x) => Value::from(*x),
            Prim::S(x) => Value::from(x.as_str()),
        }
    }
    /// (v == p, p == v, &v == p, &mut v == p where available)
    pub fn cmp(&self, v: &mut Value) -> Vec<bool> {
        macro_rules! num {
            ($x:expr) => {{
                let a = *v == *$x;
                let b = *$x == *v;
                let c = &*v == *$x;
                let d = &mut *v == *$x;
                vec![a, b, c, d]
            }};
        }
        match self {
            Prim::I8(x) => num!(x),
            Prim::I16(x) => num!(x),
            Prim::I32(x) => num!(x),
            Prim::I64(x) => num!(x),
            Prim::U8(x) => num!(x),
            Prim::U16(x) => num!(x),
            Prim::U32(x) => num!(x),
            Prim::U64(x) => num!(x),
            Prim::F32(x) => num!(x),
            Prim::F64(x) => num!(x),
            Prim::B(x) => num!(x),
            Prim::S(x) => {
                let s: &str = x.as_str();
                vec![*v == *s, *s == *v, *v == s, s == *v, *v == *x, *x == *v]
            }
        }
    }
    /// What the property says the comparison must equal.
    pub fn via_accessor(&self, v: &Value) -> bool {
        match self {
            Prim::I8(x) => v.as_i64() == Some(*x as i64),
            Prim::I16(x) => v.as_i64() == Some(*x as i64),
            Prim::I32(x) => v.as_i64() == Some(*x as i64),
            Prim::I64(x) => v.as_i64() == Some(*x),
            Prim::U8(x) => v.as_u64() == Some(*x as u64),
            Prim::U16(x) => v.as_u64() == Some(*x as u64),
            Prim::U32(x) => v.as_u64() == Some(*x as u64),
            Prim::U64(x) => v.as_u64() == Some(*x),
            Prim::F32(x) => v.as_f64().map_or(false, |f| f == *x as f64),
            Prim::F64(x) => v.as_f64().map_or(false, |f| f == *x),
            Prim::B(x) => v.as_bool() == Some(*x),
            Prim::S(x) => v.as_str() == Some(x.as_str()),
        }
    }
}

fn boundary_i(r: &mut Rng, bits: u32) -> i64 {
    let lo = if bits == 64 { i64::MIN } else { -(1i64 << (bits - 1)) };
    let hi = if bits == 64 { i64::MAX } else { (1i64 << (bits - 1)) - 1 };
    match r.below(8) {
        0 => lo,
        1 => hi,
        2 => lo + r.below(3) as i64,
        3 => hi - r.below(3) as i64,
        4 => r.below(3) as i64 - 1,
        5 => {
            let x = gen_i64_neg(r);
            if x >= lo { x } else { lo }
        }
        _ => {
            let x = (gen_u64(r) >> 1) as i64;
            if x <= hi { x } else { hi }
        }
    }
}

fn boundary_u(r: &mut Rng, bits: u32) -> u64 {
    let hi = if bits == 64 { u64::MAX } else { (1u64 << bits) - 1 };
    match r.below(6) {
        0 => 0,
        1 => hi,
        2 => hi - r.below(3),
        3 => (hi >> 1) + r.below(3),
        _ => gen_u64(r).min(hi),
    }
}

pub fn gen_prim(r: &mut Rng) -> Prim {
    match r.below(14) {
        0 => Prim::I8(boundary_i(r, 8) as i8),
        1 => Prim::I16(boundary_i(r, 16) as i16),
        2 => Prim::I32(boundary_i(r, 32) as i32),
        3 | 12 => Prim::I64(boundary_i(r, 64)),
        4 => Prim::U8(boundary_u(r, 8) as u8),
        5 => Prim::U16(boundary_u(r, 16) as u16),
        6 => Prim::U32(boundary_u(r, 32) as u32),
        7 | 13 => Prim::U64(boundary_u(r, 64)),
        8 => Prim::F32(match r.below(6) {
            0 => *r.pick(&[0.0f32, -0.0, 1.0, f32::MAX, f32::MIN_POSITIVE, 1e-45, f32::NAN, f32::INFINITY, f32::NEG_INFINITY, 0.1, 16777216.0, 16777217.0]),
            1 => f32::from_bits(r.below(1 << 23) as u32),
            2 => r.below(1000) as f32,
            _ => f32::from_bits(r.next() as u32),
        }),
        9 => Prim::F64(if r.chance(1, 3) { gen_u64(r) as f64 } else { gen_f64(r, FloatMode::All) }),
        10 => Prim::B(r.chance(1, 2)),
        _ => Prim::S(gen_string(r)),
    }
}

/// Values that come out of the reader are values too: integer literals in every
/// spelling (sign, leading zeros, radix prefix) against the value built from the
/// same mathematical integer by conversion.
fn reader_values(out: &mut Out, r: &mut Rng, n: usize) {
    let mags: Vec<u64> = vec![0, 1, 2, 7, 127, 128, 255, 256, 32767, 32768, 65535, 65536, 2147483647, 2147483648, 4294967295, 4294967296,
        i64::MAX as u64 - 1, i64::MAX as u64, i64::MAX as u64 + 1, u64::MAX - 1, u64::MAX];
    for k in 0..n {
        let m = if k < mags.len() * 12 { mags[k % mags.len()] } else { boundary_u(r, 64) };
        let sign = ["", "+", "-"][(k / mags.len()) % 3];
        let zeros = ["", "0", "000"][r.below(3) as usize];
        let (prefix, digits) = match (k / (mags.len() * 3)) % 4 { 0 => ("", format!("{}", m)), 1 => ("#x", format!("{:x}", m)), 2 => ("#b", format!("{:b}", m)), _ => ("#o", format!("{:o}", m)) };
        let lit = format!("{}{}{}{}", prefix, sign, zeros, digits);
        let texts = [lit.clone(), format!("({} . #({}))", lit, lit)];
        // the value the literal denotes, built by conversion
        let want: Option<Value> = if sign == "-" {
            if m <= i64::MAX as u64 + 1 { Some(Value::from((m as i128).wrapping_neg() as i64)) } else { None }
        } else { Some(Value::from(m)) };
        for (ti, text) in texts.iter().enumerate() {
            out.oracle_checks += 1;
            out.count("reader-literal");
            let case = format!("parse {}", hex(text.as_bytes()));
            let parsed = match lexpr::from_str(text) { Ok(v) => v, Err(e) => { out.fail("reader-value", format!("integer literal rejected: {}", e), case, json!({"text": text})); continue; } };
            let leaves: Vec<Value> = if ti == 0 { vec![parsed] } else {
                match parsed.as_cons() { Some(c) => vec![c.car().clone(), c.cdr().as_slice().map(|s| s[0].clone()).unwrap_or(Value::Null)], None => vec![parsed] }
            };
            for v in leaves {
                oracle_value(out, &v, &case);
                if let Some(w) = &want {
                    if acc(&v) != acc(w) || v != *w || *w != v {
                        out.fail("reader-value", format!("the value read from {} differs from the value converted from the same integer", text), case.clone(), json!({"read": acc(&v), "converted": acc(w)}));
                    }
                    // comparisons with primitives of every width, both operand orders
                    let mut prims = vec![Prim::U64(m), Prim::I64(m as i64), Prim::U8(m as u8), Prim::U16(m as u16), Prim::U32(m as u32), Prim::I8(m as i8), Prim::I32(m as i32), Prim::F64(m as f64)];
                    if sign == "-" { prims.push(Prim::I64((m as i128).wrapping_neg() as i64)); prims.push(Prim::I16((m as i128).wrapping_neg() as i16)); }
                    for p in prims {
                        let mut t = v.clone();
                        let res = p.cmp(&mut t);
                        let wantc = p.via_accessor(w);
                        out.oracle_checks += 1;
                        if res.iter().any(|b| *b != wantc) {
                            out.fail("reader-value", format!("comparing the value read from {} with {} gives {:?}, the converted value gives {}", text, p.code(), res, wantc), case.clone(), json!({}));
                        }
                    }
                }
            }
        }
    }
}

pub fn run(tier: &str, seed: u64, out: &mut Out) {
    let mut r = Rng::new(seed);
    let n = match tier { "thorough" => 400_000, "search" => 60_000, _ => 6_000 };
    reader_values(out, &mut r, match tier { "thorough" => 20_000, "search" => 4_000, _ => 600 });
    let cfg = GenCfg { max_depth: 2, max_len: 3, names: NameMode::Any, floats: FloatMode::All, nil_bool: true };
    let mut pool: Vec<Value> = vec![];
    for _ in 0..n {
        // accessors on arbitrary values
        let v = gen_value(&mut r, &cfg, 0);
        out.count(&format!("kind:{}", kind_name(&v)));
        let case = format!("acc {}", enc_case_value(&v));
        oracle_value(out, &v, &case);
        out.case(case, acc(&v), !v.is_null() && !v.is_nil());
        if pool.len() < 4000 {
            pool.push(v);
        }
        // conversions from primitives
        let p = gen_prim(&mut r);
        out.count(&format!("prim:{}", p.code().split(':').next().unwrap()));
        let pv = p.to_value();
        let case = format!("from {}", p.code());
        oracle_value(out, &pv, &case);
        // payload preserved
        out.oracle_checks += 1;
        let ok = match &p {
            Prim::I8(x) => pv.as_i64() == Some(*x as i64) && pv.as_u64() == u64::try_from(*x).ok() && !pv.is_f64() && pv.as_f64() == Some(*x as f64),
            Prim::I16(x) => pv.as_i64() == Some(*x as i64) && pv.as_u64() == u64::try_from(*x).ok() && !pv.is_f64() && pv.as_f64() == Some(*x as f64),
            Prim::I32(x) => pv.as_i64() == Some(*x as i64) && pv.as_u64() == u64::try_from(*x).ok() && !pv.is_f64() && pv.as_f64() == Some(*x as f64),
            Prim::I64(x) => pv.as_i64() == Some(*x) && pv.as_u64() == u64::try_from(*x).ok() && !pv.is_f64() && pv.as_f64() == Some(*x as f64),
            Prim::U8(x) => pv.as_u64() == Some(*x as u64) && pv.as_i64() == Some(*x as i64) && !pv.is_f64() && pv.as_f64() == Some(*x as f64),
            Prim::U16(x) => pv.as_u64() == Some(*x as u64) && pv.as_i64() == Some(*x as i64) && !pv.is_f64() && pv.as_f64() == Some(*x as f64),
            Prim::U32(x) => pv.as_u64() == Some(*x as u64) && pv.as_i64() == Some(*x as i64) && !pv.is_f64() && pv.as_f64() == Some(*x as f64),
            Prim::U64(x) => pv.as_u64() == Some(*x) && pv.as_i64() == i64::try_from(*x).ok() && !pv.is_f64() && pv.as_f64() == Some(*x as f64),
            Prim::F32(x) => pv.as_f64().map(|f| f.to_bits()) == Some((*x as f64).to_bits()) && pv.as_i64().is_none() && pv.as_u64().is_none() && pv.is_f64(),
            Prim::F64(x) => pv.as_f64().map(|f| f.to_bits()) == Some(x.to_bits()) && pv.as_i64().is_none() && pv.as_u64().is_none() && pv.is_f64(),
            Prim::B(x) => pv.as_bool() == Some(*x),
            Prim::S(x) => pv.as_str() == Some(x.as_str()),
        };
        if !ok {
            out.fail("conversion", format!("conversion from {} does not preserve the payload", p.code()), case.clone(), json!({"value": enc_value(&pv)}));
        }
        out.case(case, format!("{} {}", enc_value(&pv), acc(&pv)), true);
        if let Prim::F64(f) = &p {
            let nf = Number::from_f64(*f);
            out.oracle_checks += 1;
            if nf.is_some() != f.is_finite() {
                out.fail("conversion", "Number::from_f64 accepts a non-finite or rejects a finite float".into(), format!("fromf64 {:016x}", fbits(*f)), json!({}));
            }
            out.case(format!("fromf64 {:016x}", fbits(*f)), opt(nf, |n| enc_value(&Value::Number(n))), true);
        }
        // comparisons: against the converted value itself, a pool value, and a near miss
        let mut targets: Vec<Value> = vec![pv.clone()];
        if !pool.is_empty() {
            targets.push(pool[r.below(pool.len() as u64) as usize].clone());
        }
        targets.push(gen_prim(&mut r).to_value());
        // cross-sign: the same mathematical integer through the other signedness
        if let Some(i) = pv.as_i64() {
            targets.push(Value::from(i));
            if i >= 0 { targets.push(Value::from(i as u64)); }
            targets.push(Value::from(i as f64));
        }
        if let Some(u) = pv.as_u64() {
            targets.push(Value::from(u));
        }
        for mut t in targets {
            let res = p.cmp(&mut t);
            let want = p.via_accessor(&t);
            let case = format!("cmp {} {}", p.code(), enc_case_value(&t));
            out.oracle_checks += 1;
            if res.iter().any(|b| *b != want) {
                out.fail("comparison", format!("comparison results {:?} differ from the accessor-based answer {}", res, want), case.clone(), json!({}));
            }
            out.case(case, format!("{}{}", b01(res[0]), b01(res[1])), true);
        }
    }
}
