//! C15: list construction, traversal, conversion and indexing are consistent.
use crate::enc::{enc_case_value, enc_value, hex};
use crate::genval::{gen_atom, gen_string, gen_value, kind_name, FloatMode, GenCfg, NameMode};
use crate::out::Out;
use crate::rng::Rng;
use lexpr::{Cons, Value};
use serde_json::json;

fn show_list<'a, I: Iterator<Item = &'a Value>>(l: I) -> String {
    format!("[{}]", l.map(enc_value).collect::<Vec<_>>().join(" | "))
}
fn show_ov(o: Option<&Value>) -> String {
    match o {
        Some(v) => format!("S {}", enc_value(v)),
        None => "-".into(),
    }
}
fn b01(b: bool) -> &'static str {
    if b { "1" } else { "0" }
}

pub fn observe(v: &Value, idx: &[u64]) -> String {
    let ncells = v.as_cons().map(|c| c.iter().count()).unwrap_or(0);
    let tv = match v.as_cons() {
        Some(c) => {
            let (xs, t) = c.to_vec();
            let (rxs, rt) = c.to_ref_vec();
            let a = format!("{} . {}", show_list(xs.iter()), enc_value(&t));
            let b = format!("{} . {}", show_list(rxs.into_iter()), enc_value(rt));
            if a == b { a } else { format!("to_vec/to_ref_vec differ: {} vs {}", a, b) }
        }
        None => "-".into(),
    };
    let iv = match v.as_cons() {
        Some(c) => {
            let (xs, t) = c.clone().into_vec();
            format!("{} . {}", show_list(xs.iter()), enc_value(&t))
        }
        None => "-".into(),
    };
    let vtv = {
        let a = v.to_vec().map(|l| show_list(l.iter()));
        let b = v.to_ref_vec().map(|l| show_list(l.into_iter()));
        if a == b { a.unwrap_or("-".into()) } else { format!("Value::to_vec/to_ref_vec differ: {:?} vs {:?}", a, b) }
    };
    let li = match v.list_iter() {
        Some(mut it) => (0..ncells + 4).map(|_| show_ov(it.next())).collect::<Vec<_>>().join(" , "),
        None => "-".into(),
    };
    let ii = match v.as_cons() {
        Some(c) => c
            .clone()
            .into_iter()
            .map(|(x, o)| format!("{} / {}", enc_value(&x), show_ov(o.as_ref())))
            .collect::<Vec<_>>()
            .join(" , "),
        None => "-".into(),
    };
    let get = idx
        .iter()
        .map(|i| format!("{} / {}", show_ov(v.get(*i as usize)), enc_value(&v[*i as usize])))
        .collect::<Vec<_>>()
        .join(" , ");
    format!(
        "tv={} ; iv={} ; vtv={} ; cells={} ; li={} ; ii={} ; isl={}{} ; get={}",
        tv, iv, vtv, ncells, li, ii, b01(v.is_list()), b01(v.is_dotted_list()), get
    )
}

/// The property against the Vec-based reference (xs, t), t not a cons.
fn oracle(out: &mut Out, v: &Value, xs: &[Value], t: &Value, idx: &[u64], case: &str) {
    out.oracle_checks += 1;
    let mut bad: Vec<String> = vec![];
    if let Some(c) = v.as_cons() {
        let (a, at) = c.to_vec();
        if a != xs || &at != t { bad.push("Cons::to_vec does not return (xs, t)".into()); }
        let (b, bt) = c.to_ref_vec();
        if b.len() != xs.len() || b.iter().zip(xs).any(|(p, q)| *p != q) || bt != t { bad.push("Cons::to_ref_vec does not return (xs, t)".into()); }
        let (d, dt) = c.clone().into_vec();
        if d != xs || &dt != t { bad.push("Cons::into_vec does not return (xs, t)".into()); }
        if c.iter().count() != xs.len() { bad.push("cell iteration does not visit |xs| cells".into()); }
        let items: Vec<(Value, Option<Value>)> = c.clone().into_iter().collect();
        let ok = items.len() == xs.len()
            && items.iter().zip(xs).all(|((x, _), y)| x == y)
            && items.iter().take(xs.len() - 1).all(|(_, o)| o.is_none())
            && items.last().map(|(_, o)| o.as_ref() == Some(t)).unwrap_or(false);
        if !ok { bad.push("consuming iterator does not yield each element once with the tail on the last".into()); }
        let mut it = c.list_iter();
        let mut seq: Vec<Option<Value>> = vec![];
        for _ in 0..xs.len() + 4 { seq.push(it.next().cloned()); }
        let mut want: Vec<Option<Value>> = xs.iter().cloned().map(Some).collect();
        if !t.is_null() { want.push(None); want.push(Some(t.clone())); }
        while want.len() < xs.len() + 4 { want.push(None); }
        if seq != want { bad.push("element iterator does not yield xs then (for a non-empty tail) None, t, None".into()); }
    } else if !xs.is_empty() {
        bad.push("a non-empty element sequence did not build a cons chain".into());
    }
    let want_vec: Option<Vec<Value>> = if xs.is_empty() { if t.is_null() { Some(vec![]) } else { None } } else if t.is_null() { Some(xs.to_vec()) } else { None };
    if v.to_vec() != want_vec { bad.push("Value::to_vec wrong".into()); }
    if v.is_list() == v.is_dotted_list() { bad.push("is_list and is_dotted_list are not complementary".into()); }
    if (v.is_cons() || v.is_null()) && v.is_list() != t.is_null() { bad.push("is_list is not 'the tail is the empty list'".into()); }
    for i in idx {
        let want = if v.is_cons() { xs.get(*i as usize) } else if let Value::Vector(els) = v { els.get(*i as usize) } else { None };
        if v.get(*i as usize) != want { bad.push(format!("get({}) wrong", i)); }
        let ix = &v[*i as usize];
        if ix != want.unwrap_or(&Value::Nil) { bad.push(format!("index [{}] wrong", i)); }
    }
    for b in bad {
        out.fail("list", b, case.to_string(), json!({"value": enc_value(v)}));
    }
}

fn gen_tail(r: &mut Rng, cfg: &GenCfg) -> Value {
    loop {
        let t = match r.below(6) {
            0 | 1 | 2 => Value::Null,
            3 => Value::Vector((0..r.below(3)).map(|_| gen_atom(r, cfg)).collect()),
            _ => gen_atom(r, cfg),
        };
        if !t.is_cons() {
            return t;
        }
    }
}

fn indices(r: &mut Rng, n: usize) -> Vec<u64> {
    let mut v = vec![0, n as u64, (n as u64).saturating_sub(1), n as u64 + 1, u64::MAX, u64::MAX - 1, 1 << 32, 1 << 63];
    for _ in 0..3 {
        v.push(r.below(n as u64 + 2));
    }
    v
}

pub fn run(tier: &str, seed: u64, out: &mut Out) {
    let mut r = Rng::new(seed);
    let (n, maxlen) = match tier { "thorough" => (60_000, 10_000), "search" => (20_000, 2000), _ => (2_500, 400) };
    let cfg = GenCfg { max_depth: 2, max_len: 3, names: NameMode::Any, floats: FloatMode::Finite, nil_bool: true };
    for it in 0..n {
        let len = match r.below(10) {
            0 => 0,
            1 => 1,
            2 => 2,
            9 if it % 50 == 0 => r.below(maxlen as u64) as usize,
            _ => r.below(12) as usize,
        };
        let xs: Vec<Value> = (0..len).map(|_| gen_value(&mut r, &cfg, 1)).collect();
        let t = gen_tail(&mut r, &cfg);
        out.count(&format!("len:{}", match len { 0 => "0", 1 => "1", 2..=11 => "2-11", 12..=999 => "12-999", _ => "1000+" }));
        out.count(&format!("tail:{}", kind_name(&t)));
        // several ways of building the same chain
        let how = r.below(4);
        let v = match how {
            0 => Value::append(xs.clone(), t.clone()),
            1 if t.is_null() => Value::list(xs.clone()),
            2 => {
                // cons by cons from the back
                let mut acc = t.clone();
                for x in xs.iter().rev() { acc = Value::cons(x.clone(), acc); }
                acc
            }
            3 if len >= 2 => {
                // a tail that is itself a list merges into the chain
                let k = 1 + r.below(len as u64 - 1) as usize;
                Value::append(xs[..k].to_vec(), Value::append(xs[k..].to_vec(), t.clone()))
            }
            _ => {
                let mut acc = t.clone();
                for x in xs.iter().rev() { acc = Value::from(Cons::new(x.clone(), acc)); }
                acc
            }
        };
        out.count(&format!("built:{}", how));
        // the constructor against the model's build
        let bcase = format!("build {} {} {}", len, xs.iter().map(enc_case_value).collect::<Vec<_>>().join(" "), enc_case_value(&t));
        out.case(bcase, enc_value(&Value::append(xs.clone(), t.clone())), len > 0);
        let idx = indices(&mut r, len);
        let case = format!("lst {} {} {}", enc_case_value(&v), idx.len(), idx.iter().map(|i| i.to_string()).collect::<Vec<_>>().join(" "));
        oracle(out, &v, &xs, &t, &idx, &case);
        out.case(case, observe(&v, &idx), len > 0);
        // non-list targets and vectors
        if it % 5 == 0 {
            let a = if r.chance(1, 2) { Value::Vector(xs.iter().cloned().collect()) } else { gen_atom(&mut r, &cfg) };
            if !a.is_cons() {
                let case = format!("lst {} {} {}", enc_case_value(&a), idx.len(), idx.iter().map(|i| i.to_string()).collect::<Vec<_>>().join(" "));
                let r0 = std::panic::catch_unwind(|| observe(&a, &idx));
                match r0 {
                    Ok(o) => {
                        out.oracle_checks += 1;
                        if a.is_list() == a.is_dotted_list() {
                            out.fail("list", "is_list and is_dotted_list are not complementary on a non-list".into(), case.clone(), json!({}));
                        }
                        out.case(case, o, true)
                    }
                    Err(_) => out.fail("panic", "accessor panicked on a non-list value".into(), case, json!({})),
                }
            }
        }
        // association lists
        if it % 2 == 0 {
            let nent = r.below(7) as usize;
            let keys: Vec<String> = (0..3).map(|_| gen_string(&mut r)).collect();
            let mut entries: Vec<Value> = vec![];
            for _ in 0..nent {
                let k = keys[r.below(3) as usize].clone();
                let key = match r.below(5) {
                    0 => Value::string(k),
                    1 => Value::symbol(k),
                    2 => Value::keyword(k),
                    3 => gen_atom(&mut r, &cfg),
                    _ => Value::symbol(k),
                };
                let e = match r.below(6) {
                    0 => gen_atom(&mut r, &cfg), // non-pair entry
                    _ => Value::cons(key, gen_value(&mut r, &cfg, 1)),
                };
                entries.push(e);
            }
            let at = gen_tail(&mut r, &cfg);
            let al = Value::append(entries.clone(), at);
            out.count(&format!("alist:{}", nent));
            for k in &keys {
                let want = entries.iter().find_map(|e| match e {
                    Value::Cons(c) if c.car().as_name() == Some(k.as_str()) => Some(c.cdr()),
                    _ => None,
                });
                let got = al.get(k.as_str());
                let got2 = al.get(k.clone());
                let ix = &al[k.as_str()];
                let case = format!("agets {} {}", if k.is_empty() { "00".to_string().replace("00", "") + "-" } else { hex(k.as_bytes()) }, enc_case_value(&al));
                out.oracle_checks += 1;
                if got != want || got2 != want || ix != want.unwrap_or(&Value::Nil) {
                    out.fail("alist", "lookup by name is not the cdr of the first entry whose key matches".into(), case.clone(), json!({}));
                }
                if !k.is_empty() {
                    out.case(case, format!("{} / {}", show_ov(got), enc_value(ix)), nent > 0);
                }
            }
            // lookup by value
            let probe = if !entries.is_empty() && r.chance(2, 3) {
                match &entries[r.below(entries.len() as u64) as usize] {
                    Value::Cons(c) => c.car().clone(),
                    other => other.clone(),
                }
            } else {
                gen_atom(&mut r, &cfg)
            };
            let want = entries.iter().find_map(|e| match e {
                Value::Cons(c) if c.car() == &probe => Some(c.cdr()),
                _ => None,
            });
            let got = al.get(&probe);
            let ix = &al[&probe];
            let case = format!("agetv {} {}", enc_case_value(&probe), enc_case_value(&al));
            out.oracle_checks += 1;
            if got != want || ix != want.unwrap_or(&Value::Nil) {
                out.fail("alist", "lookup by value is not the cdr of the first entry whose key matches".into(), case.clone(), json!({}));
            }
            // NaN keys never match (IEEE ==); the model's value_eqb agrees
            out.case(case, format!("{} / {}", show_ov(got), enc_value(ix)), nent > 0);
        }
    }
}
