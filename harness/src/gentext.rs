//! Text generation: printer output with trivia, a token-alphabet grammar
//! fuzzer for mostly-valid foreign text, malformed streams, exhaustive short
//! strings and pathological shapes.
use crate::popts::Po;
use crate::rng::Rng;
use lexpr::Value;

pub fn trivia(r: &mut Rng) -> String {
    let mut s = String::new();
    let n = 1 + r.below(3);
    for _ in 0..n {
        match r.below(8) {
            0 | 1 | 2 => s.push(' '),
            3 => s.push('\t'),
            4 => s.push('\n'),
            5 => s.push('\r'),
            6 => s.push('\x0c'),
            _ => {
                s.push(';');
                for _ in 0..r.below(6) {
                    s.push(*r.pick(&['a', ' ', ')', '(', '"', '\\', ';', 'é', '#', '|', '\r', '\t', '\x0c', '\'', '.', '1']));
                }
                s.push('\n');
            }
        }
    }
    s
}

/// Trivia that may also be empty (only where no separator is required).
fn opt_trivia(r: &mut Rng, p: u64) -> String {
    if r.chance(p, 100) { trivia(r) } else { String::new() }
}

fn atom_text(v: &Value, po: Po) -> String {
    lexpr::to_string_custom(v, po.options()).unwrap()
}

/// Print `v` like the printer does, with random trivia inserted at token
/// boundaries (probability p percent); separators are always kept.
pub fn layout(v: &Value, po: Po, r: &mut Rng, p: u64, out: &mut String) {
    match v {
        Value::Cons(c) => {
            out.push('(');
            out.push_str(&opt_trivia(r, p));
            let mut cur = c;
            let mut first = true;
            loop {
                if !first {
                    out.push_str(&if r.chance(p, 100) { trivia(r) } else { " ".to_string() });
                }
                first = false;
                layout(cur.car(), po, r, p, out);
                match cur.cdr() {
                    Value::Cons(n) => cur = n,
                    Value::Null => break,
                    t => {
                        out.push_str(&if r.chance(p, 100) { trivia(r) } else { " ".to_string() });
                        out.push('.');
                        out.push_str(&if r.chance(p, 100) { trivia(r) } else { " ".to_string() });
                        layout(t, po, r, p, out);
                        break;
                    }
                }
            }
            out.push_str(&opt_trivia(r, p));
            out.push(')');
        }
        Value::Vector(els) => {
            out.push_str(if po.vec == 0 { "#(" } else { "[" });
            out.push_str(&opt_trivia(r, p));
            for (i, e) in els.iter().enumerate() {
                if i > 0 {
                    out.push_str(&if r.chance(p, 100) { trivia(r) } else { " ".to_string() });
                }
                layout(e, po, r, p, out);
            }
            out.push_str(&opt_trivia(r, p));
            out.push(if po.vec == 0 { ')' } else { ']' });
        }
        _ => out.push_str(&atom_text(v, po)),
    }
}

pub const NUM_TOKENS: &[&str] = &[
    "0", "1", "42", "-23", "+23", "007", "-0", "4.5", "-0.5e10", "1e3", "1E3", "1e21", "5e-324", "1.0e21", "1e-7",
    "18446744073709551615", "18446744073709551616", "-9223372036854775808", "-9223372036854775809", "9223372036854775807",
    "#x42", "#xDEADBEEF", "#x-23", "#b1010", "#b-100", "#o0777", "#d99", "#xff", "#x+1F", "#e1", "#b102", "#o8",
    "#x10000000000000000", "#b11111111111111111111111111111111111111111111111111111111111111111", "123456789012345678901234567890",
    "1.7976931348623157e308", "1e400", "1e-400", "0.1", "0.30000000000000004", "100000000000000000000.5", "1.e3", "1.5e", "1e+", "1e-",
    "3.", "3.e", "0.000001", "0.0000001234", "100000000000000000000000.0", "0.1e-5", "-0.000001", "12345678.9e-20", "12345678901234567890.12345678901234567890e10", "1e2147483648", "1e-2147483649", "0e99999999999", "2e308", "9007199254740993",
    "1e-99999999990", "0e99999999900", "1e+99999999990", "-1e-10000000000", "0.0e-30000000000",
    "1e+5", "1E+5", "2.5e+3", "6.02e+22", "0e+0", "1.5e-7", "4.5e-8",
    "1.5e-2147483647", "-0.5e-2147483647", "1.25e-2147483646", "0.0e-2147483647", "15e-2147483647", "1.5e2147483647", "1.5e-2147483648", "0.5e+2147483647",
];
/// Character names of R6RS, R7RS and neighbouring Scheme dialects: a reader
/// accepts the documented ones and must treat their proper prefixes at the
/// end of input as cut short.
pub const CHAR_NAME_WORDS: &[&str] = &[
    "nul", "null", "alarm", "backspace", "tab", "linefeed", "newline", "vtab", "page", "return", "esc", "escape", "space", "delete",
    "rubout", "altmode", "bell", "del", "nl", "lf", "cr", "formfeed", "ht", "bs",
];
pub const NEAR_MISS: &[&str] = &[
    "1+", "1-", "1/2", "1.5.6", "0x10", "12ab", "1e3x", ":a", "a:", ":a:", "::", ":", "nil", "nil:", "nilx", "t", "tt", "#nil", "#n", "#t", "#f",
    "#true", "#fx", "?a", "?\\(", "?\\n", "?\\x41", "?\\^a", "?\\N{U+41}", "?\\u0041", "?\\101", "?", "?(", "#%a", "#%", "#:a", "#:", "#:a:", "#a",
    "+", "-", "...", "..", ".", "+.a", "-.5", "+a", "-b", "->x", "+5x", "-1+", "a.b", ".a", "a#b", "a|b", "|a|", "a'b", "1'a", "a\"b", "'", "`", ",", ",@",
    "#\\a", "#\\space", "#\\spa", "#\\x41", "#\\x", "#\\xZ", "#\\x110000", "#\\xD800", "#\\(", "#\\)", "#\\ ", "#\\λ", "#\\nul", "#\\newline", "#\\delete1",
    "#u8(", "#vu8(", "#u8", "#u", "#v", "#vu9(", "#(", "#[", "{", "}", "\\", "|", "@", "λ", "λx", "→", "+λ", "$x:", "_a:", "é:", ".a:", "..:", "(.k: v)", "(x .y:)", "(.nil .t)", "#(.k:)", ".nil", "-:", "+t:", "#!eof", "1_000",
    ".|x", ".\"x", ".\u{0}x", "'.|x", "(a .|x)", "(a .\"b\")", "(a .|b|)", "#(.|x)", ".(", ".;c", "+|x", "+\"x",
    // a dotted tail that is itself written as a list, an empty list or a nil spelling
    "(a . ())", "(a b . ( ))", "(a . nil)", "((a . nil) (b . 1))", "#((1 . ()))", "(a . (b . ()))", "(a . (b c))", "(a . #nil)", "(a . [])", "[a . ()]", "(a . '())", "(() . ())", "(a . (b . c))", "'(a . ())",
];
pub const STR_TOKENS: &[&str] = &[
    "\"\"", "\"abc\"", "\"a\\nb\"", "\"\\a\\b\\t\\n\\v\\f\\r\\\"\\\\\"", "\"\\x41;bc\"", "\"\\x41bc;\"", "\"\\x41\"", "\"\\x;\"", "\"\\x110000;\"",
    "\"\\xD800;\"", "\"\\q\"", "\"\\|\"", "\"λ\"", "\"a\nb\"", "\"\\u00e9\"", "\"\\U0001F600\"", "\"\\N{U+41}\"", "\"\\101\"", "\"\\x41\"", "\"\\x41\\ 1\"",
    "\"\\001\\002\"", "\"\\377\"", "\"\\400\"", "\"\\xff\"", "\"\\x100\"", "\"\\^a\"", "\"\\^1\"", "\"\\e\\s\\d\"", "\"\\ \"", "\"\\é\"", "\"\\001é\"", "\"\\u12\"",
    "\"\u{7f}\"", "\"\\377\u{7f}\"", "\"\u{7f}\\x41\"", "\"unterminated", "\"esc at end\\", "\"\\x41", "\"\\N{U+41\"", "\"\\N{X}\"", "\"\\u00zz\"", "\"\\7777777777\"", "\"\\xFFFFFFFFF\"",
];
const SYM_TOKENS: &[&str] = &[
    "a", "foo", "foo-bar", "list->vector", "set!", "&rest", "<=", "x1", "A", "Z9", "λ", "éa", "a→b", "*", "/", "%x", "_", "~", "^", "=", "<", ">", "!", "$", "&",
    "quote", "quasiquote", "unquote", "unquote-splicing", "e", "E", "x", "b", "d", "o", "f", "n",
];

fn chars_from(r: &mut Rng, alphabet: &str, lo: u64, hi: u64) -> String {
    let cs: Vec<char> = alphabet.chars().collect();
    let n = r.range(lo, hi);
    (0..n).map(|_| *r.pick(&cs)).collect()
}

/// A token assembled from character classes rather than picked from a list:
/// number-like, symbol-like, character-like, string-like and '#'-forms, valid
/// and nearly valid, so that coverage does not depend on the dictionaries.
pub fn synth_token(r: &mut Rng) -> String {
    let mut s = String::new();
    match r.below(6) {
        0 => {
            let prefix = *r.pick(&["", "", "", "#x", "#b", "#o", "#d", "#X", "#e", "#i"]);
            s.push_str(prefix);
            s.push_str(*r.pick(&["", "", "-", "+"]));
            // mostly the digits of the radix (long enough to overflow 64 bits now and then), sometimes anything
            let (digits, long) = match prefix { "#b" => ("01", 70), "#o" => ("01234567", 24), "#x" => ("0123456789abcdefABCDEF", 18), _ => ("0123456789", 25) };
            let body = if r.chance(3, 4) { digits } else { "0123456789.eE+-abcdefABCDEF_/" };
            let n = *r.pick(&[1u64, 2, 3, 5, 9, 17, 19, 20, 21, long]);
            s.push_str(&chars_from(r, body, 1, n));
            if r.chance(1, 3) {
                s.push('.');
                let n = *r.pick(&[0u64, 1, 2, 5, 18, 22]);
                s.push_str(&chars_from(r, "0123456789", 0, n));
            }
            if r.chance(1, 3) {
                s.push(*r.pick(&['e', 'E']));
                s.push_str(*r.pick(&["", "", "-", "+"]));
                if r.chance(1, 5) {
                    let k = r.below(30) as i64;
                    s.push_str(&format!("{}", *r.pick(&[2147483648i64 - k, 2147483648 + k])));
                } else {
                    let n = *r.pick(&[0u64, 1, 2, 4, 4, 12]);
                    s.push_str(&chars_from(r, "0123456789", 0, n));
                }
            }
        }
        1 => s.push_str(&chars_from(r, "abcxyzABC!$%&*/:<=>?@^_~+-.0123456789#|'\u{3bb}\u{e9}\u{2192}", 1, 6)),
        2 if r.chance(1, 3) => {
            // a character name, whole, cut short or extended
            s.push_str("#\\");
            let w = *r.pick(CHAR_NAME_WORDS);
            match r.below(4) {
                0 => s.push_str(&w[..1 + r.below(w.len() as u64) as usize]),
                1 => { s.push_str(w); s.push_str(&chars_from(r, "aelx1", 1, 2)); }
                _ => s.push_str(w),
            }
        }
        2 => {
            s.push_str("#\\");
            s.push_str(&chars_from(r, "axXsn 0(;\u{3bb}\u{e9}\"\u{7f}\u{1b}", 1, 1));
            s.push_str(&chars_from(r, "0123456789abcdefxpace\u{3bb}\u{e9}", 0, 5));
        }
        3 => {
            s.push('?');
            if r.chance(1, 2) {
                s.push('\\');
            }
            s.push_str(&chars_from(r, "axNuU{}+^C-M\\01234567sde(\u{3bb}\u{e9}\u{7f}\u{1b}", 1, 4));
        }
        4 => {
            s.push('"');
            for _ in 0..r.below(6) {
                match r.below(6) {
                    0 => {
                        s.push('\\');
                        s.push_str(&chars_from(r, "abtnvfr\"\\|xuUN^CMesd01234567 \nq\u{e9}", 1, 1));
                    }
                    1 => {
                        s.push_str("\\x");
                        s.push_str(&chars_from(r, "0123456789abcdefABCDEFg", 0, 7));
                        if r.chance(2, 3) {
                            s.push(';');
                        }
                    }
                    2 => s.push_str(&chars_from(r, "\u{3bb}\u{e9}\u{1f600}", 1, 1)),
                    3 => s.push_str(*r.pick(&["\n", "\\\n  ", "\\ \n", "\t", "\r"])),
                    _ => s.push_str(&chars_from(r, "ab ()#;'\u{7f}", 1, 2)),
                }
            }
            if r.chance(19, 20) {
                s.push('"');
            }
        }
        _ => {
            s.push('#');
            s.push_str(&chars_from(r, "tfnuv8(:\\%!;|xbodei1a[il", 1, 4));
        }
    }
    s
}

fn pick_token(r: &mut Rng) -> String {
    if r.chance(1, 4) {
        return synth_token(r);
    }
    match r.below(10) {
        0 | 1 => (*r.pick(NUM_TOKENS)).to_string(),
        2 | 3 | 4 => (*r.pick(NEAR_MISS)).to_string(),
        5 => (*r.pick(STR_TOKENS)).to_string(),
        _ => (*r.pick(SYM_TOKENS)).to_string(),
    }
}

/// Hundreds of top-level datums of one kind side by side, and runs of failing datums followed by
/// ordinary ones: what a parser does per datum of a kind - a nesting budget charged and handed
/// back, also on the error paths - adds up over one parser's lifetime.
pub fn wide_sequences() -> Vec<String> {
    let tail = " (a b 1 \"x\") '(c . d) #(1 (2 3)) #u8(1 2) ; done";
    let mut v = vec![];
    for unit in ["#u8(1) ", "#vu8() ", "'x ", "`(a ,b) ", "(a) ", "#(1) ", "\"s\" ", "#\\a ", "(a . b) ", ",@x "] {
        v.push(format!("{}{}", unit.repeat(300), tail));
    }
    for unit in ["') ;oops\n", "'#z ", "(a . ) ", "#u8(1 x) ", "#(a ] ", "`,) ", "'(a . b c) ", "(1 (2 ] ", "'\"unterminated\\", "#u8(256) "] {
        v.push(format!("{}{}", unit.repeat(140), tail));
    }
    v.push(format!("{}){}", "'".repeat(127), tail));
    v
}

/// Mostly well-nested token soup.
pub fn foreign_text(r: &mut Rng, depth: u32, out: &mut String) {
    let n = 1 + r.below(4);
    for i in 0..n {
        if i > 0 {
            out.push_str(&if r.chance(1, 5) { trivia(r) } else { " ".to_string() });
        }
        match r.below(16) {
            0 | 1 if depth < 5 => {
                let (o, c) = *r.pick(&[("(", ")"), ("[", "]"), ("#(", ")"), ("(", ")"), ("#u8(", ")"), ("#vu8(", ")"), ("(", "]"), ("[", ")")]);
                out.push_str(o);
                if r.chance(4, 5) {
                    foreign_text(r, depth + 1, out);
                }
                if o == "(" || o == "[" {
                    if r.chance(1, 4) {
                        out.push_str(" . ");
                        match r.below(6) {
                            // the tail written as an empty list, a nil spelling, or a list of its own
                            0 => out.push_str(*r.pick(&["()", "( )", "nil", "[]", "#nil", "'()"])),
                            1 if depth < 5 => {
                                let (o2, c2) = *r.pick(&[("(", ")"), ("[", "]"), ("#(", ")")]);
                                out.push_str(o2);
                                if r.chance(3, 4) { foreign_text(r, depth + 1, out); }
                                out.push_str(c2);
                            }
                            _ => out.push_str(&pick_token(r)),
                        }
                    }
                }
                if r.chance(19, 20) {
                    out.push_str(c);
                }
            }
            2 => {
                out.push_str(*r.pick(&["'", "`", ",", ",@", "' ", "'\n"]));
                out.push_str(&pick_token(r));
            }
            3 if depth < 5 => {
                // byte vector with octets
                out.push_str(*r.pick(&["#u8(", "#vu8(", "#u8 (", "#u8\n("]));
                for _ in 0..r.below(4) {
                    out.push_str(*r.pick(&["0", "1", "255", "256", "#xff", "-1", "1.5", "a", "#b11", "007", "1e2", "#x1G", "#"]));
                    out.push(' ');
                }
                out.push(')');
            }
            _ => out.push_str(&pick_token(r)),
        }
    }
}

pub fn gen_foreign(r: &mut Rng) -> String {
    let mut s = String::new();
    if r.chance(1, 6) {
        s.push_str(&trivia(r));
    }
    foreign_text(r, 0, &mut s);
    if r.chance(1, 6) {
        s.push_str(&trivia(r));
    }
    if r.chance(1, 20) {
        s.push_str(";no newline");
    }
    s
}

/// Byte-level damage: flips, insertions, deletions, truncation, raw UTF-8 junk.
pub fn mutate(b: &[u8], r: &mut Rng) -> Vec<u8> {
    let mut v = b.to_vec();
    let n = 1 + r.below(3);
    for _ in 0..n {
        let len = v.len();
        match r.below(8) {
            0 if len > 0 => {
                let i = r.below(len as u64) as usize;
                v[i] = r.below(256) as u8;
            }
            1 if len > 0 => {
                let i = r.below(len as u64) as usize;
                v.remove(i);
            }
            2 => {
                let i = r.below(len as u64 + 1) as usize;
                v.insert(i, *r.pick(b"()[]\"\\;#.'`,|? \n\t\x0c\x00\x7f+-e:xX01789aAfFgG{}@"));
            }
            3 => {
                let i = r.below(len as u64 + 1) as usize;
                v.truncate(i);
            }
            4 => {
                let i = r.below(len as u64 + 1) as usize;
                let junk: &[&[u8]] = &[b"\xc3", b"\xc3\xa9", b"\xe2\x82", b"\xe2\x82\xac", b"\xf0\x9f\x98", b"\xf0\x9f\x98\x80", b"\xc0\x80", b"\xed\xa0\x80", b"\xf4\x90\x80\x80", b"\xff", b"\x80", b"\xf8\x88\x80\x80\x80", b"\xef\xbf\xbf"];
                let j = *r.pick(junk);
                for (k, x) in j.iter().enumerate() {
                    v.insert(i + k, *x);
                }
            }
            5 if len > 1 => {
                let i = r.below(len as u64 - 1) as usize;
                v.swap(i, i + 1);
            }
            6 if len > 0 => {
                let i = r.below(len as u64) as usize;
                let c = v[i];
                v.insert(i, c);
            }
            _ => {
                let i = r.below(len as u64 + 1) as usize;
                v.insert(i, r.below(256) as u8);
            }
        }
    }
    v
}

/// Deep or wide pathological shapes: `n` repetitions of an opener (then
/// optionally the matching closers).
pub fn pathological(kind: u64, n: usize) -> Vec<u8> {
    let rep = |s: &str, n: usize| s.repeat(n).into_bytes();
    match kind % 27 {
        0 => rep("(", n),
        1 => rep("[", n),
        2 => rep("#(", n),
        3 => rep("'", n),
        4 => rep("`", n),
        5 => rep(",", n),
        6 => rep(",@", n),
        7 => rep("(a . ", n),
        8 => rep("('[", n),
        9 => { let mut v = rep("(", n); v.extend(b"x"); v.extend(rep(")", n)); v }
        10 => { let mut v = rep("'", n); v.extend(b"x"); v }
        11 => { let mut v = rep("#(", n); v.extend(rep(")", n)); v }
        12 => { let mut v = rep("(a . ", n); v.extend(b"b"); v.extend(rep(")", n)); v }
        13 => { let mut v = rep("[(", n); v.extend(rep(")]", n)); v }
        // one token with n repetitions of a prefix the lexer handles itself (no nesting
        // budget is involved there: it must simply not recurse)
        14 => { let mut v = b"?".to_vec(); v.extend(rep("\\^", n)); v.extend(b"a"); v }
        15 => { let mut v = b"?".to_vec(); v.extend(rep("\\C-", n)); v.extend(b"a"); v }
        16 => { let mut v = b"?".to_vec(); v.extend(rep("\\M-", n)); v.extend(b"a"); v }
        17 => { let mut v = b"\"".to_vec(); v.extend(rep("\\^", n)); v.extend(b"a\""); v }
        18 => { let mut v = b"#\\x".to_vec(); v.extend(rep("1", n)); v }
        19 => rep("#", n),
        20 => rep("7", n),
        21 => { let mut v = b"1e".to_vec(); v.extend(rep("9", n)); v }
        22 => { let mut v = b"\"".to_vec(); v.extend(rep("\\\\", n)); v.extend(b"\""); v }
        23 => { let mut v = rep(";", n); v.extend(b"\n1"); v }
        24 => { let mut v = b"(a".to_vec(); v.extend(rep(" .", n)); v }
        25 => { let mut v = b"\"".to_vec(); v.extend(rep("\\x41;", n)); v.extend(b"\""); v }
        _ => { let mut v = b"#:".to_vec(); v.extend(rep(":", n)); v }
    }
}
