//! C07: every sink receives exactly the printed text; write errors surface.
use crate::enc::{enc_case_value, hex};
use crate::genval::{gen_value, kind_name, walk, FloatMode, GenCfg, NameMode};
use crate::out::Out;
use crate::popts::Po;
use crate::rng::Rng;
use lexpr::Value;
use serde_json::json;
use std::io::{self, Write};

pub struct SchedSink {
    pub cap: usize,
    pub limit: Option<usize>,
    pub hard: bool,
    pub data: Vec<u8>,
    pub calls: usize,
    pub rand_cap: Option<Rng>,
    /// the failure (hard error or zero-byte write) happens once; afterwards the sink accepts bytes again
    pub transient: bool,
}

impl SchedSink {
    pub fn new(cap: usize, limit: Option<usize>, hard: bool) -> Self {
        SchedSink { cap, limit, hard, data: vec![], calls: 0, rand_cap: None, transient: false }
    }
}

impl Write for SchedSink {
    fn write(&mut self, buf: &[u8]) -> io::Result<usize> {
        self.calls += 1;
        if buf.is_empty() {
            return Ok(0);
        }
        if let Some(l) = self.limit {
            if self.data.len() >= l {
                if self.transient { self.limit = None; }
                return if self.hard {
                    Err(io::Error::new(io::ErrorKind::Other, "injected sink failure"))
                } else {
                    Ok(0)
                };
            }
        }
        let cap = match &mut self.rand_cap {
            Some(r) => 1 + r.below(9) as usize,
            None => self.cap.max(1),
        };
        let mut n = buf.len().min(cap);
        if let Some(l) = self.limit {
            n = n.min(l - self.data.len());
        }
        self.data.extend_from_slice(&buf[..n]);
        Ok(n)
    }
    fn flush(&mut self) -> io::Result<()> {
        Ok(())
    }
}

fn res_name(r: &io::Result<()>) -> String {
    match r {
        Ok(()) => "ok".into(),
        Err(e) if e.kind() == io::ErrorKind::WriteZero => "zero".into(),
        Err(e) if e.to_string().contains("injected sink failure") => "hard".into(),
        Err(e) => format!("err:{:?}", e.kind()),
    }
}

fn check_sink(out: &mut Out, v: &Value, po: Po, cap: usize, limit: Option<usize>, hard: bool, expected: &[u8], compare: bool) {
    let mut sink = SchedSink::new(cap, limit, hard);
    let r = lexpr::to_writer_custom(&mut sink, v, po.options());
    let rn = res_name(&r);
    let case = format!(
        "sink {} {} {} {} {}",
        po.code(),
        cap,
        limit.map(|l| l.to_string()).unwrap_or("-".into()),
        if hard { 1 } else { 0 },
        enc_case_value(v)
    );
    // the property, evaluated on the implementation
    out.oracle_checks += 1;
    let cut = limit.map(|l| l < expected.len()).unwrap_or(false);
    let want_data: &[u8] = if cut { &expected[..limit.unwrap()] } else { expected };
    let want_res = if cut { if hard { "hard" } else { "zero" } } else { "ok" };
    if sink.data != want_data || rn != want_res {
        out.fail(
            "sink",
            format!(
                "sink cap={} limit={:?} hard={} got result {} with {} bytes delivered, expected {} with {} bytes",
                cap, limit, hard, rn, sink.data.len(), want_res, want_data.len()
            ),
            case.clone(),
            json!({"delivered": hex(&sink.data), "expected_text": hex(expected), "options": po.code()}),
        );
    }
    if compare {
        out.case(case, format!("{} {}", rn, hex(&sink.data)), expected.len() > 2);
    } else {
        out.oracle_only(&case, expected.len() > 2);
    }
}

/// A sink with a native gathering write: it takes bytes from the buffers in order up
/// to a per-call budget, so it may stop in the middle of any buffer, not just the first.
pub struct GatherSink { pub budget: usize, pub data: Vec<u8> }
impl Write for GatherSink {
    fn write(&mut self, buf: &[u8]) -> io::Result<usize> {
        let n = buf.len().min(self.budget.max(1));
        self.data.extend_from_slice(&buf[..n]);
        Ok(n)
    }
    fn write_vectored(&mut self, bufs: &[io::IoSlice<'_>]) -> io::Result<usize> {
        let mut left = self.budget.max(1);
        let mut n = 0;
        for b in bufs {
            if left == 0 { break; }
            let k = b.len().min(left);
            self.data.extend_from_slice(&b[..k]);
            left -= k;
            n += k;
        }
        Ok(n)
    }
    fn flush(&mut self) -> io::Result<()> { Ok(()) }
}

pub fn run_value(out: &mut Out, r: &mut Rng, v: &Value, po: Po, every_offset: bool) {
    walk(v, &mut |x| out.count(&format!("kind:{}", kind_name(x))));
    out.count(&format!("po:{}", po.code()));
    let expected = match std::panic::catch_unwind(|| lexpr::to_vec_custom(v, po.options())) {
        Ok(Ok(b)) => b,
        Ok(Err(e)) => {
            out.fail("print-error", format!("to_vec_custom failed: {}", e), format!("printc {} {}", po.code(), enc_case_value(v)), json!({}));
            return;
        }
        Err(_) => {
            out.fail("print-panic", "to_vec_custom panicked".into(), format!("printc {} {}", po.code(), enc_case_value(v)), json!({}));
            return;
        }
    };
    out.count(&format!("len:{}", match expected.len() { 0..=7 => "0-7", 8..=31 => "8-31", 32..=127 => "32-127", _ => "128+" }));
    out.case(format!("printc {} {}", po.code(), enc_case_value(v)), hex(&expected), expected.len() > 2);
    // entry points agree
    out.oracle_checks += 1;
    let s = lexpr::to_string_custom(v, po.options()).unwrap();
    let mut w = Vec::new();
    lexpr::to_writer_custom(&mut w, v, po.options()).unwrap();
    if s.as_bytes() != &expected[..] || w != expected {
        out.fail("entry-points", "to_string_custom / to_vec_custom / to_writer_custom disagree".into(), format!("printc {} {}", po.code(), enc_case_value(v)), json!({}));
    }
    if po == Po::DEFAULT {
        let d1 = lexpr::to_vec(v).unwrap();
        let d2 = lexpr::to_string(v).unwrap();
        let mut d3 = Vec::new();
        lexpr::to_writer(&mut d3, v).unwrap();
        let d4 = format!("{}", v);
        out.case(format!("print0 {}", enc_case_value(v)), hex(&d1), d1.len() > 2);
        if d1 != expected || d2.as_bytes() != &expected[..] || d3 != expected || d4.as_bytes() != &expected[..] {
            out.fail(
                "default-vs-custom",
                "default printer entry points (to_vec, to_string, to_writer, Display) and the customised printer with default options disagree".into(),
                format!("print0 {}", enc_case_value(v)),
                json!({"to_vec": hex(&d1), "custom_default": hex(&expected), "display": hex(d4.as_bytes())}),
            );
        }
        // default formatter through a short-writing sink
        for cap in [1usize, 3] {
            let mut sink = SchedSink::new(cap, None, false);
            let rr = lexpr::to_writer(&mut sink, v);
            out.oracle_checks += 1;
            let case = format!("sink0 {} - 0 {}", cap, enc_case_value(v));
            if res_name(&rr) != "ok" || sink.data != expected {
                out.fail("sink", format!("default printer through a sink accepting {} byte(s) per call lost or changed output", cap), case.clone(), json!({"delivered": hex(&sink.data), "expected_text": hex(&expected)}));
            }
            out.case(case, format!("{} {}", res_name(&rr), hex(&sink.data)), expected.len() > 2);
        }
    }
    // a sink whose gathering write stops anywhere
    for budget in [1usize, 2, 3, 4, 5, 7, 16] {
        let mut sink = GatherSink { budget, data: vec![] };
        let rr = lexpr::to_writer_custom(&mut sink, v, po.options());
        out.oracle_checks += 1;
        if res_name(&rr) != "ok" || sink.data != expected {
            out.fail("sink-gather", format!("a sink with a gathering write taking {} byte(s) per call received other bytes than the text (result {})", budget, res_name(&rr)),
                     format!("printc {} {}", po.code(), enc_case_value(v)), json!({"delivered": hex(&sink.data), "expected_text": hex(&expected), "budget": budget}));
        }
        if po == Po::DEFAULT {
            let mut sink = GatherSink { budget, data: vec![] };
            let rr = lexpr::to_writer(&mut sink, v);
            out.oracle_checks += 1;
            if res_name(&rr) != "ok" || sink.data != expected {
                out.fail("sink-gather", format!("the default printer through a sink with a gathering write taking {} byte(s) per call delivered other bytes than the text", budget),
                         format!("print0 {}", enc_case_value(v)), json!({"delivered": hex(&sink.data), "expected_text": hex(&expected), "budget": budget}));
            }
        }
    }
    // short writes
    for cap in [1usize, 2, 3, 7, 1 << 20] {
        check_sink(out, v, po, cap, None, false, &expected, cap <= 3);
    }
    // random capacity per call (implementation only)
    {
        let mut sink = SchedSink::new(1, None, false);
        sink.rand_cap = Some(r.fork());
        let rr = lexpr::to_writer_custom(&mut sink, v, po.options());
        out.oracle_checks += 1;
        if res_name(&rr) != "ok" || sink.data != expected {
            out.fail("sink", "random short writes lost or changed output".into(), format!("printc {} {}", po.code(), enc_case_value(v)), json!({"delivered": hex(&sink.data), "expected_text": hex(&expected)}));
        }
    }
    // failures at byte offsets
    let n = expected.len();
    let offsets: Vec<usize> = if every_offset {
        (0..=n).collect()
    } else {
        let mut o = vec![0, n.saturating_sub(1), n, n / 2];
        for _ in 0..3 {
            o.push(r.below(n as u64 + 1) as usize);
        }
        o.sort();
        o.dedup();
        o
    };
    for off in offsets {
        for hard in [true, false] {
            let cap = *r.pick(&[1usize, 2, 5, 1 << 20]);
            check_sink(out, v, po, cap, Some(off), hard, &expected, true);
            // the same failure, but only once: a printer that stops at the first
            // error delivers the same prefix and reports the same error
            if off < n {
                for default_printer in [false, true] {
                    if default_printer && po != Po::DEFAULT { continue; }
                    let mut sink = SchedSink::new(cap, Some(off), hard);
                    sink.transient = true;
                    let rr = if default_printer { lexpr::to_writer(&mut sink, v) } else { lexpr::to_writer_custom(&mut sink, v, po.options()) };
                    out.oracle_checks += 1;
                    let want_res = if hard { "hard" } else { "zero" };
                    if sink.data != &expected[..off] || res_name(&rr) != want_res {
                        out.fail("sink-transient", format!("a sink that fails once at offset {} ({}) and then accepts bytes again received {} bytes with result {}: bytes were written after the failure or the failure was not reported", off, want_res, sink.data.len(), res_name(&rr)),
                                 format!("sink {} {} {} {} {}", po.code(), cap, off, if hard { 1 } else { 0 }, enc_case_value(v)),
                                 json!({"delivered": hex(&sink.data), "expected_prefix": hex(&expected[..off]), "options": po.code(), "default_printer": default_printer}));
                    }
                }
                // one Printer used again after the failure: the failed call delivers the
                // prefix and reports the failure, the next call delivers exactly the text
                // of its own value and nothing left over from the failed one
                {
                    let mut sink = SchedSink::new(cap, Some(off), hard);
                    sink.transient = true;
                    let (r1, r2) = {
                        let mut printer = lexpr::print::Printer::with_options(&mut sink, po.options());
                        let r1 = printer.print(v);
                        let r2 = printer.print(v);
                        (r1, r2)
                    };
                    out.oracle_checks += 1;
                    let want_res = if hard { "hard" } else { "zero" };
                    let mut want = expected[..off].to_vec();
                    want.extend_from_slice(&expected);
                    if res_name(&r1) != want_res || res_name(&r2) != "ok" || sink.data != want {
                        out.fail("printer-reuse", format!("a Printer whose first print call failed at offset {} ({}) and which then printed the value again delivered {} bytes with results {} / {}: the second call must deliver exactly the text of its value", off, want_res, sink.data.len(), res_name(&r1), res_name(&r2)),
                                 format!("sink {} {} {} {} {}", po.code(), cap, off, if hard { 1 } else { 0 }, enc_case_value(v)),
                                 json!({"delivered": hex(&sink.data), "expected": hex(&want), "options": po.code()}));
                    }
                }
            }
        }
    }
}

pub fn run(tier: &str, seed: u64, out: &mut Out) {
    let mut r = Rng::new(seed);
    let (nvals, nevery) = match tier { "thorough" => (20000, 1500), "search" => (6000, 600), _ => (700, 60) };
    let cfg = GenCfg { max_depth: 4, max_len: 5, names: NameMode::Any, floats: FloatMode::Finite, nil_bool: true };
    let all = Po::all();
    for i in 0..nvals {
        let v = gen_value(&mut r, &cfg, 0);
        let po = match i % 4 {
            0 => Po::DEFAULT,
            1 => Po::ELISP,
            _ => all[r.below(576) as usize],
        };
        run_value(out, &mut r, &v, po, i < nevery);
    }
    // every printer option set on a fixed battery of values
    let battery: Vec<Value> = (0..if tier == "thorough" { 12 } else { 2 }).map(|_| gen_value(&mut r, &cfg, 0)).collect();
    for po in &all {
        for v in &battery {
            run_value(out, &mut r, v, *po, false);
        }
    }
}
