(* Extraction of the executable model to OCaml. ExtrOcamlBasic only: bool,
   option, unit, list, prod, sumbool, sumor map to the OCaml types; N, Z,
   positive, nat stay the extracted inductives. No Extract Constant. *)
From Coq Require Import Extraction ExtrOcamlBasic.
Require Import Base Value PrintOptions Printer Sink Float NumberOps ListOps ParseOptions Utf8 Reader Scan Num Parser DatumRef SerdeModel Macro.

Extraction "model.ml"
  s2b beq_bytes value_eqb build vlist
  f64_of_bits bits_of_f64
  default_po elisp_po all_po
  trace0 trace_custom print0 print_custom flatten run_sink
  N.add N.mul N.sub N.div N.modulo N.eqb N.leb N.ltb N.of_nat N.to_nat Z.of_N Z.to_N
  f64_of_Z f64_of_N f64_mul f64_div f64_neg pow10_f64 is_finite_f64
  kind_predicates as_str as_symbol as_keyword as_name as_bytes as_bool as_char as_i64 as_u64 as_f64
  is_i64 is_u64 is_f64 value_from_prim value_eq_prim prim_eq_value f32_of_bits num_from_f64
  value_append value_list cons_to_vec cons_into_vec into_iter_items iter_cells value_to_vec
  list_iter_next drain value_list_iter get_usize get_str get_value index_or_nil is_list is_dotted_list
  dec_to_f64 utf8_valid utf8_encode is_scalar
  default_ro elisp_ro new_ro all_ro mk_reader bytes_events init_state fuel_for
  from_trait datum_from_trait next_value next_datum expect_value expect_datum expect_end
  run_history iterate_values iterate_datums classify classify_code
  datum_ref ref_span ref_list_iter ref_list_next ref_list_peek ref_list_is_empty ref_drain ref_vector_iter ref_as_pair
  ser de macro_parse meval.
