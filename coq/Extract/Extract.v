(* Extraction of the executable model to OCaml. ExtrOcamlBasic only: bool,
   option, unit, list, prod, sumbool, sumor map to the OCaml types; N, Z,
   positive, nat stay the extracted inductives. No Extract Constant. *)
From Coq Require Import Extraction ExtrOcamlBasic.
Require Import Base Value PrintOptions Printer Sink Float.

Extraction "model.ml"
  s2b beq_bytes value_eqb build vlist
  f64_of_bits bits_of_f64
  default_po elisp_po all_po
  trace0 trace_custom print0 print_custom flatten run_sink.
