(* C18 -- deserializing any S-expression value is total and self-consistent. *)
From Coq Require Import SpecFloat.
Require Import Base Value Float NumberOps ListOps SerdeModel SerdeProofs.

(* [de] is a total function (structural recursion on the type, accepted by
   Coq's termination checker) whose only failure is a data error: its error
   type has no other constructor, in particular no panic. *)
Theorem C18_total : forall (cast_f32 : f64 -> f64) t v,
  (exists d, de cast_f32 t v = SOk d) \/ de cast_f32 t v = SErr SData.
Proof. intros cast_f32 t v. destruct (de cast_f32 t v) as [d|[]]; [left; now exists d|right; reflexivity]. Qed.
Print Assumptions C18_total.

(* Whatever it returns is a value of the target type (the serializer accepts it) ... *)
Theorem C18_typed : forall (cast_f32 : f64 -> f64) (is_f32 : f64 -> bool),
  (forall f, is_f32 (cast_f32 f) = true) ->
  forall t v d, de cast_f32 t v = SOk d -> exists v', ser is_f32 t d = Some v'.
Proof. exact de_typed. Qed.
Print Assumptions C18_typed.

(* ... and serializing it and deserializing again returns it: accepted
   alternative encodings are normalised rather than misread. *)
Theorem C18_normalise : forall (cast_f32 : f64 -> f64) (is_f32 : f64 -> bool),
  (forall f, is_f32 f = true -> cast_f32 f = f) -> (forall f, is_f32 (cast_f32 f) = true) ->
  forall t v d, wf_ty t -> de cast_f32 t v = SOk d ->
  exists v', ser is_f32 t d = Some v' /\ de cast_f32 t v' = SOk d.
Proof. exact normalise. Qed.
Print Assumptions C18_normalise.

Example C18_nonvacuous :
  (* a vector where a list is expected, an integer where a float is expected, an unknown field *)
  de (fun f => f) (TyStruct [(s2b "xs", TySeq TyF64); (s2b "o", TyOption TyBool)])
     (vlist [Cons (Symbol (s2b "zzz")) Nil; Cons (Symbol (s2b "xs")) (Vector [Number (PosInt 2)])])
  = SOk (DStruct [DSeq [DF64 (f64_of_N 2)]; DNone]).
Proof. vm_compute. reflexivity. Qed.
