(* C11 -- source spans (proved part). For every option set, source kind and
   input, every span stored anywhere in a datum returned by the datum API --
   root, elements, dotted tail, quotation parts, at any depth -- is either the
   documented empty placeholder (the spine cells of a list carry Span::empty())
   or a pair of positions each of which is the position just after a prefix of
   the input (a 1-based line of the text, a column within that line) with
   start <= end, and lies within the reader positions before and after the call
   that produced it; and the elements a list or vector hands out (the cars of
   the chain and a dotted tail; the parts of a quotation) lie one after another,
   without overlap, inside the span of the list or vector itself, at every
   depth (C11_nesting_order_partial); every span handed out is non-empty
   (C11_spans_nonempty_partial). Not proved: that the covered text re-parses to the sub-datum, and that the three sources
   report the same spans; these are decided by the correspondence (spans
   compared on every case, three sources) and the implementation-level oracle
   (theorems.json). *)
From Coq Require Import SpecFloat.
Require Import Base Value Float PrintOptions ParseOptions Utf8 Reader Scan Num NumberOps Parser.
Require Import RelFramework PositionProofs SpanProofs CrossProofs SourcesAgree QuoteSpan ValidTextProofs.

Theorem C11_spans_in_bounds_partial : forall ro alpha fast std_parse k inp d,
  datum_from_trait ro alpha fast std_parse k inp = POk d ->
  all_spans (span_in_bounds (bytes_in inp)) (dinfo d) /\
  real (bytes_in inp) (1, 0) (sp_end (info_span (dinfo d))) (info_span (dinfo d)).
Proof. exact datum_from_trait_spans. Qed.
Print Assumptions C11_spans_in_bounds_partial.

(* any next_datum call on a parser over input W whose reader satisfies the
   position invariant (C19): all spans of the result lie between the reader
   positions before and after the call *)
Theorem C11_every_call_partial : forall W ro alpha fast std_parse fuel s, inv W (rd s) ->
  match next_datum ro alpha fast std_parse fuel s with
  | (POk o, s') => inv W (rd s') /\ pos_le (rpos (rd s)) (rpos (rd s')) /\
                   match o with Some d => dok W (rpos (rd s)) (rpos (rd s')) d | None => True end
  | (PErr _, _) => True
  end.
Proof. intros W ro alpha fast std_parse fuel s Hi. exact (proj1 (datums_spans W ro alpha fast std_parse fuel) s Hi). Qed.
Print Assumptions C11_every_call_partial.

(* Nesting and sibling order. tight i, by recursion over the span tree:
   - a vector's element spans, in order, satisfy
       start(vector) <= start(e1) <= end(e1) <= start(e2) <= ... <= end(en) <= end(vector);
   - the same for a list (a cons chain whose head carries the list's span): its
     elements are the cars along the chain followed by the dotted tail, if any
     (a tail that is itself a list contributes its own elements, as list_iter
     does); the two parts of a quotation are the shorthand and the quoted datum;
   - and every sub-tree is tight.
   seqb_inside / seqb_adjacent spell the chain of inequalities out per element
   and per pair of neighbours. *)
Theorem C11_nesting_order_partial : forall ro alpha fast std_parse k inp d,
  datum_from_trait ro alpha fast std_parse k inp = POk d -> tight (dinfo d).
Proof. exact datum_from_trait_tight. Qed.
Print Assumptions C11_nesting_order_partial.

Theorem C11_children_inside_parent : forall lo hi l i, seqb lo hi l -> In i l ->
  pos_le lo (root_start i) /\ pos_le (root_start i) (root_end i) /\ pos_le (root_end i) hi.
Proof. exact seqb_inside. Qed.
Print Assumptions C11_children_inside_parent.
Theorem C11_siblings_in_order : forall lo hi l1 x y l2, seqb lo hi (l1 ++ x :: y :: l2) -> pos_le (root_end x) (root_start y).
Proof. exact seqb_adjacent. Qed.
Print Assumptions C11_siblings_in_order.

(* on every call, not only the entry point *)
Theorem C11_nesting_every_call_partial : forall W ro alpha fast std_parse fuel s, inv W (rd s) ->
  match next_datum ro alpha fast std_parse fuel s with
  | (POk (Some d), _) => tight (dinfo d)
  | _ => True
  end.
Proof.
  intros W ro alpha fast std_parse fuel s Hi.
  pose proof (proj1 (datums_tight W ro alpha fast std_parse fuel) s Hi) as H.
  destruct (next_datum ro alpha fast std_parse fuel s) as [[[d|]|e] s1]; try exact I. apply H.
Qed.
Print Assumptions C11_nesting_every_call_partial.

(* Non-empty spans. nef false i, by recursion over the span tree: every leaf,
   every vector and every list head has start < end (strictly), and so have
   their elements at every depth; the placeholder cells of a cons chain are
   exempt, as is the one leaf that ends a chain (the end marker, or the atom
   after a dot). The token a datum starts with is consumed (token_strict: for
   every option set and source kind a successful parse_token moves the position
   strictly forward). *)
Theorem C11_spans_nonempty_partial : forall ro alpha fast std_parse k inp d,
  datum_from_trait ro alpha fast std_parse k inp = POk d -> nef false (dinfo d).
Proof. exact datum_from_trait_nonempty. Qed.
Print Assumptions C11_spans_nonempty_partial.

Theorem C11_token_consumes : forall ro alpha fast std_parse fuel b r, RelFramework.at_byte b r ->
  match parse_token ro alpha fast std_parse fuel b r with
  | (Ok _, r') => pos_lt (rpos r) (rpos r')
  | (Err _, _) => True
  end.
Proof. exact token_strict. Qed.
Print Assumptions C11_token_consumes.

(* the reader position never moves backwards, in any token function *)
Theorem C11_position_monotone : forall ro alpha fast std_parse fuel b r,
  pos_le (rpos r) (rpos (snd (parse_token ro alpha fast std_parse fuel b r))).
Proof.
  intros. exact (sat_parse_token Rmono Rmono_ret Rmono_seq Rmono_fuel mono_peek mono_next mono_eat mono_error mono_peek_error
                   mono_error_consume mono_take_run mono_take_symbol fast std_parse ro alpha fuel b r).
Qed.
Print Assumptions C11_position_monotone.

Example C11_nonvacuous :
  match datum_from_trait default_ro (fun _ => true) true dec_to_f64 SrcIo (bytes_events (s2b "(ab 'c
 #(1))")) with
  | POk d => info_span (dinfo d) = mk_span (1, 0) (2, 6) /\
             match dinfo d with
             | SCons _ (SPrim a) (SCons e1 (SCons q (SPrim qh) _) _) =>
                 a = mk_span (1, 1) (1, 3) /\ e1 = span_empty /\ q = mk_span (1, 4) (1, 6) /\ qh = mk_span (1, 4) (1, 5)
             | _ => False
             end
  | PErr _ => False
  end.
Proof. vm_compute. repeat split; reflexivity. Qed.

(* The spans are the same whether the input came from a byte slice or from an
   io::Read stream: the datum API returns the same datum - value and span
   information, at every depth - from both, for every option set and input (or
   errors with the same code). *)
Theorem C11_same_across_slice_and_stream : forall ro alpha fast std_parse (s : bytes),
  match datum_from_trait ro alpha fast std_parse SrcSlice (bytes_events s), datum_from_trait ro alpha fast std_parse SrcIo (bytes_events s) with
  | POk d1, POk d2 => d1 = d2
  | PErr (XErr (ESyntax c1 _ _)), PErr (XErr (ESyntax c2 _ _)) => c1 = c2
  | PErr (XErr (EIo a)), PErr (XErr (EIo b)) => a = b
  | _, _ => False
  end.
Proof. exact slice_stream_agree_datum. Qed.
Print Assumptions C11_same_across_slice_and_stream.

(* ... and between a &str and the byte slice of the same bytes: unless the slice
   parse rejects the input as ill-formed UTF-8 (which a str never is on its own
   terms), the datum API returns exactly the same datum, spans included, or
   exactly the same error at the same position. *)
Theorem C11_same_across_str_and_slice : forall ro alpha fast std_parse (inp : list event),
  (exists l c, datum_from_trait ro alpha fast std_parse SrcSlice inp = PErr (XErr (ESyntax InvalidUnicodeCodePoint l c))) \/
  datum_from_trait ro alpha fast std_parse SrcStr inp = datum_from_trait ro alpha fast std_parse SrcSlice inp.
Proof. exact str_slice_agree_datum. Qed.
Print Assumptions C11_same_across_str_and_slice.

(* on a well-formed text - every str - without exception *)
Theorem C11_same_across_str_and_slice_on_text : forall W, utf8_valid W = true -> forall ro alpha fast std_parse,
  datum_from_trait ro alpha fast std_parse SrcStr (bytes_events W) = datum_from_trait ro alpha fast std_parse SrcSlice (bytes_events W).
Proof. intros W HW ro alpha fast std_parse. exact (proj2 (valid_text_agree W HW ro alpha fast std_parse)). Qed.
Print Assumptions C11_same_across_str_and_slice_on_text.

(* For a quote shorthand the head's span covers just the shorthand characters:
   whenever the datum parser finds, after trivia, one of ' ` , on the input and
   returns a datum, that datum is Datum::quotation of what follows, and the span
   of its head (the symbol quote / quasiquote / unquote / unquote-splicing)
   runs from the position of the shorthand to the position right after its one
   or two characters - ,@ is two - whatever is quoted, for every option set
   and source (pos_from p t is the position reached from p over the text t). *)
Theorem C11_quote_head : forall ro alpha fast std_parse f s b r1 dd s',
  parse_whitespace f (rd s) = (Ok (Some b), r1) -> b = 39 \/ b = 96 \/ b = 44 ->
  next_datum ro alpha fast std_parse (S f) s = (POk (Some dd), s') ->
  exists name quoted,
    dd = quotation_datum name quoted (mk_span (r_position r1) (pos_from (r_position r1) (qtext name))) /\
    hd 0 (qtext name) = b.
Proof. exact quote_head_span. Qed.
Print Assumptions C11_quote_head.
