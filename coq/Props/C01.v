(* C01 -- print then parse returns the same value (default Scheme dialect).
   Proved for every value without floats whose symbols are plain identifiers
   (RoundtripProofs.plain_symbol), for the three input sources at once and
   for values of any size up to the parser's nesting limit. What the theorems
   below do not cover (floats, identifiers that begin with a non-ASCII letter,
   the independent reader) is decided by the correspondence check and the
   implementation-level oracle only; see theorems.json. *)
From Coq Require Import SpecFloat.
Require Import Base Value Float PrintOptions Printer ParseOptions Utf8 Reader Scan Num NumberOps Parser.
Require Import ScanProofs TextProofs TokenProofs CharStrProofs DatumProofs RoundtripProofs.

(* to_string(v) (= to_vec = the bytes a writer receives, C07) read back through
   Parser::from_str / from_slice / from_reader + expect_value + end *)
Theorem C01_roundtrip_partial : forall ryu alpha fast std_parse k v,
  rt_ok alpha v -> (rdepth v <= 127)%nat ->
  from_trait default_ro alpha fast std_parse k (bytes_events (print0 ryu v)) = POk v.
Proof.
  intros ryu alpha fast std_parse k v Hok Hd. rewrite print0_is_txt.
  exact (roundtrip_from_trait ryu alpha fast std_parse k v Hok Hd).
Qed.
Print Assumptions C01_roundtrip_partial.

(* the datum API reads the same value *)
Theorem C01_roundtrip_datum_partial : forall ryu alpha fast std_parse k v,
  rt_ok alpha v -> (rdepth v <= 127)%nat ->
  exists d, datum_from_trait default_ro alpha fast std_parse k (bytes_events (print0 ryu v)) = POk d /\ dvalue d = v.
Proof.
  intros ryu alpha fast std_parse k v Hok Hd.
  pose proof (C01_roundtrip_partial ryu alpha fast std_parse k v Hok Hd) as H.
  rewrite from_trait_agree in H.
  destruct (datum_from_trait default_ro alpha fast std_parse k (bytes_events (print0 ryu v))) as [d|e]; [|discriminate].
  exists d. split; [reflexivity|]. inversion H. reflexivity.
Qed.
Print Assumptions C01_roundtrip_datum_partial.

(* inside a longer input: after any whitespace and line comments, next_value
   reads exactly the printed text and leaves what follows (end of input,
   whitespace, a comment, or a parenthesis or bracket) unread *)
Theorem C01_reads_exactly_partial : forall ryu alpha fast std_parse v fuel r D pre rest,
  trivia pre -> rt_ok alpha v -> N.of_nat (rdepth v) < D -> D <= 128 ->
  (length pre + length (print0 ryu v) + 16 <= fuel)%nat ->
  ReaderProofs.at_bytes r (pre ++ print0 ryu v ++ rest) -> delim_ok rest ->
  exists r', next_value default_ro alpha fast std_parse fuel (mkp r D) = (POk (Some v), mkp r' D) /\
             ReaderProofs.at_bytes r' rest /\ rk r' = rk r.
Proof.
  intros ryu alpha fast std_parse v fuel r D pre rest Hpre Hok HD HD' Hf Ha Hr. rewrite print0_is_txt in *.
  exact (proj1 (next_value_reads_text ryu alpha fast std_parse v) fuel r D pre rest Hpre Hok HD HD' Hf Ha Hr).
Qed.
Print Assumptions C01_reads_exactly_partial.

(* the hypotheses are satisfiable by a value that exercises every arm *)
Definition c01_sample : value :=
  Cons (Symbol (s2b "define"))
   (Cons (Cons (Symbol (s2b "f")) (Cons (Symbol (s2b "...")) (Symbol (s2b "rest"))))
    (Cons (Vector [Number (PosInt 18446744073709551615); Number (NegInt (-9223372036854775808)); Char 955; Char 32;
                   String [34; 92; 7; 10; 206; 187]; Keyword (s2b "key"); Bytes [0; 255]; Bool true; Nil; Null])
     (Cons (Symbol (s2b "+")) (Cons (Symbol (s2b "-x")) (Cons (Symbol [206; 187; 120]) Null))))).
Example C01_nonvacuous : rt_ok (fun _ => true) c01_sample /\ (rdepth c01_sample <= 127)%nat /\
  from_trait default_ro (fun _ => true) true dec_to_f64 SrcIo (bytes_events (print0 (fun _ => []) c01_sample)) = POk c01_sample.
Proof.
  assert (H : rt_ok (fun _ => true) c01_sample /\ (rdepth c01_sample <= 127)%nat).
  { split; [|vm_compute; repeat constructor].
    unfold c01_sample. cbn [rt_ok]. unfold plain_symbol, symbol_ok, no_terminator, octets_ok, u64_MAX, NumberOps.i64_min.
    repeat match goal with
           | |- _ /\ _ => split
           | |- Forall _ _ => repeat constructor
           | |- True => exact I
           end; try reflexivity; try lia; cbn;
      try (left; first [left; reflexivity | right; left; cbn; tauto | right; right; reflexivity]);
      try (right; left; split; [first [left; reflexivity|right; reflexivity]|]; try exact I; try reflexivity);
      try (right; right; split; [reflexivity|split; [reflexivity|exists [187], [120]; repeat split; reflexivity]]). }
  destruct H as [H1 H2]. split; [exact H1|]. split; [exact H2|].
  exact (C01_roundtrip_partial (fun _ => []) (fun _ => true) true dec_to_f64 SrcIo c01_sample H1 H2).
Qed.
