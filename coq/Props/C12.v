(* C12 -- datum sequences: the ways of iterating agree (proved part).
   Concatenation is proved for single-space separation (C12_concat_partial);
   general trivia insensitivity and termination are checked by the
   correspondence and the implementation-level oracle (see theorems.json). *)
From Coq Require Import SpecFloat.
Require Import Base Value Float PrintOptions ParseOptions Reader Scan Num Parser DatumProofs DepthProofs.
Require Import ReaderProofs RoundtripProofs.

(* value_iter().next() and Iterator for Parser are next_value().transpose(),
   datum_iter().next() is next_datum().transpose(): in the model these are
   iterate_values / iterate_datums. They agree item for item: *)
Theorem C12_four_ways : forall ro alpha fast std_parse fuel n s,
  iterate_values ro alpha fast std_parse fuel n s =
  map item_value (iterate_datums ro alpha fast std_parse fuel n s).
Proof. exact iterate_agree. Qed.
Print Assumptions C12_four_ways.

(* Any interleaving of next_value / next_datum / expect_* calls on one parser,
   continuing after errors, never panics (remaining_depth bookkeeping). *)
Theorem C12_histories : forall ro alpha fast std_parse fuel k inp cs,
  Forall (fun r => ~ call_fuel r) (run_history ro alpha fast std_parse fuel cs (init_state k inp)) ->
  Forall call_ok (run_history ro alpha fast std_parse fuel cs (init_state k inp)).
Proof.
  intros ro alpha fast std_parse fuel k inp cs.
  exact (history_no_panic ro alpha fast std_parse fuel cs (init_state k inp) (init_depth_ok k inp)).
Qed.
Print Assumptions C12_histories.

(* Several printed values separated by single spaces read back as exactly those
   values, in order, followed by the end of input (any number of values, any
   sizes; the C01 class of values). Other trivia between the values -- tabs,
   line breaks, form feeds, comments -- is decided by the oracle only. *)
Theorem C12_concat_partial : forall ryu alpha fast std_parse vs fuel n r D,
  Forall (fun v => rt_ok alpha v /\ N.of_nat (rdepth v) < D) vs -> D <= 128 ->
  (length (seq_txt ryu vs) + 16 + 1 <= fuel)%nat -> (length vs < n)%nat -> at_bytes r (seq_txt ryu vs) ->
  iterate_values default_ro alpha fast std_parse fuel n (mkp r D) = map (fun v => POk v) vs.
Proof. exact iterate_sequence. Qed.
Print Assumptions C12_concat_partial.

(* An unexpected closer is consumed when it is reported, so iteration moves on. *)
Example C12_closer_consumed :
  let inp := bytes_events (s2b "1 2 ) 3") in
  map (fun r => match r with POk v => Some v | PErr _ => None end)
      (iterate_values default_ro (fun _ => true) true dec_to_f64 (fuel_for inp) 10 (init_state SrcStr inp))
  = [Some (Number (PosInt 1)); Some (Number (PosInt 2)); None; Some (Number (PosInt 3))].
Proof. vm_compute. reflexivity. Qed.
