(* C12 -- datum sequences: the ways of iterating agree; concatenation and
   trivia insensitivity for the default dialect over the C01 class of values
   (C12_trivia_*: any whitespace and line comments at every list, vector and
   top-level boundary, including a final comment without a newline);
   the same for the Emacs Lisp dialect with bracket vectors
   (C12_trivia_elisp_sequence_partial, C12_trivia_elisp_value_partial); termination and trivia inside byte vectors are checked
   by the correspondence and the implementation-level oracle (see
   theorems.json). *)
From Coq Require Import SpecFloat.
Require Import Base Value Float PrintOptions ParseOptions Reader Scan Num Parser DatumProofs DepthProofs.
Require Import ReaderProofs TokenProofs RoundtripProofs TriviaProofs ElispRoundtrip ElispTrivia PositionProofs SpanProofs FuelProofs FloatFuel CrossProofs SourcesAgree ValidTextProofs.

(* value_iter().next() and Iterator for Parser are next_value().transpose(),
   datum_iter().next() is next_datum().transpose(): in the model these are
   iterate_values / iterate_datums. They agree item for item: *)
Theorem C12_four_ways : forall ro alpha fast std_parse fuel n s,
  iterate_values ro alpha fast std_parse fuel n s =
  map item_value (iterate_datums ro alpha fast std_parse fuel n s).
Proof. exact iterate_agree. Qed.
Print Assumptions C12_four_ways.

(* Any interleaving of next_value / next_datum / expect_* calls on one parser,
   continuing after errors, never panics (remaining_depth bookkeeping). *)
Theorem C12_histories : forall ro alpha fast std_parse fuel k inp cs,
  Forall (fun r => ~ call_fuel r) (run_history ro alpha fast std_parse fuel cs (init_state k inp)) ->
  Forall call_ok (run_history ro alpha fast std_parse fuel cs (init_state k inp)).
Proof.
  intros ro alpha fast std_parse fuel k inp cs.
  exact (history_no_panic ro alpha fast std_parse fuel cs (init_state k inp) (init_depth_ok k inp)).
Qed.
Print Assumptions C12_histories.

(* Several printed values separated by single spaces read back as exactly those
   values, in order, followed by the end of input (any number of values, any
   sizes; the C01 class of values). Other trivia between the values -- tabs,
   line breaks, form feeds, comments -- is decided by the oracle only. *)
Theorem C12_concat_partial : forall ryu alpha fast std_parse vs fuel n r D,
  Forall (fun v => rt_ok alpha v /\ N.of_nat (rdepth v) < D) vs -> D <= 128 ->
  (length (seq_txt ryu vs) + 16 + 1 <= fuel)%nat -> (length vs < n)%nat -> at_bytes r (seq_txt ryu vs) ->
  iterate_values default_ro alpha fast std_parse fuel n (mkp r D) = map (fun v => POk v) vs.
Proof. exact iterate_sequence. Qed.
Print Assumptions C12_concat_partial.

(* Trivia. A layout (TriviaProofs.lay) spells a value with explicit trivia at
   every boundary: before each list or vector element, around the dot of a
   dotted tail, before the closing parenthesis, and - for a byte vector
   (LBytes) - between "#u8" and its parenthesis, before every octet and before
   the closing parenthesis; its other leaves are printed values.
   trivia = any sequence of space, LF, tab, CR, FF and ";...LF" comments;
   trivia_eof additionally allows a last comment cut off by the end of input.
   lok asks only that consecutive elements are set off from each other (by
   non-empty trivia or an opening parenthesis) and that the dot stands alone.

   Any sequence of layouts, each after its own trivia, followed by trailing
   trivia, reads as exactly the laid-out values in order and then the end: *)
Theorem C12_trivia_sequence_partial : forall ryu alpha fast std_parse ls first post fuel n r D,
  seq_ok ryu alpha first D ls -> trivia_eof post -> D <= 128 ->
  (length (seq_ltxt ryu ls post) + 16 + 2 <= fuel)%nat -> (length ls < n)%nat -> at_bytes r (seq_ltxt ryu ls post) ->
  iterate_values default_ro alpha fast std_parse fuel n (mkp r D) = map (fun pl => POk (lval (snd pl))) ls.
Proof. exact iterate_layouts. Qed.
Print Assumptions C12_trivia_sequence_partial.

(* one value through the public entry point, from any of the three sources *)
Theorem C12_trivia_value_partial : forall ryu alpha fast std_parse k l pre post,
  trivia pre -> trivia_eof post -> lok ryu alpha l -> (ldepth l <= 127)%nat ->
  from_trait default_ro alpha fast std_parse k (bytes_events (pre ++ ltxt ryu l ++ post)) = POk (lval l).
Proof. exact layout_from_trait. Qed.
Print Assumptions C12_trivia_value_partial.

(* the value read is lval, which does not look at the trivia: inserting,
   changing or removing trivia (between two well-formed layouts of the same
   value) never changes the result *)
Theorem C12_trivia_insensitive_partial : forall ryu alpha fast std_parse k l1 l2 pre1 post1 pre2 post2,
  trivia pre1 -> trivia_eof post1 -> lok ryu alpha l1 -> (ldepth l1 <= 127)%nat ->
  trivia pre2 -> trivia_eof post2 -> lok ryu alpha l2 -> (ldepth l2 <= 127)%nat -> lval l1 = lval l2 ->
  from_trait default_ro alpha fast std_parse k (bytes_events (pre1 ++ ltxt ryu l1 ++ post1)) =
  from_trait default_ro alpha fast std_parse k (bytes_events (pre2 ++ ltxt ryu l2 ++ post2)).
Proof. exact same_value_same_result. Qed.
Print Assumptions C12_trivia_insensitive_partial.

(* The Emacs Lisp dialect (print::Options::elisp / parse::Options::elisp):
   the same layouts with "[" "]" around vectors; leaves are read up to the
   documented folding (ElispRoundtrip.efold). *)
Theorem C12_trivia_elisp_sequence_partial : forall ryu alpha fast std_parse ls first post fuel n r D,
  eseq_ok ryu first D ls -> trivia_eof post -> D <= 128 ->
  (length (seq_eltxt ryu ls post) + 16 + 2 <= fuel)%nat -> (length ls < n)%nat -> at_bytes r (seq_eltxt ryu ls post) ->
  iterate_values elisp_ro alpha fast std_parse fuel n (mkp r D) = map (fun pl => POk (elval (snd pl))) ls.
Proof. exact elisp_iterate_layouts. Qed.
Print Assumptions C12_trivia_elisp_sequence_partial.

Theorem C12_trivia_elisp_value_partial : forall ryu alpha fast std_parse k l pre post,
  trivia pre -> trivia_eof post -> elok ryu l -> (ldepth l <= 127)%nat ->
  from_trait elisp_ro alpha fast std_parse k (bytes_events (pre ++ eltxt ryu l ++ post)) = POk (elval l).
Proof. exact elisp_layout_from_trait. Qed.
Print Assumptions C12_trivia_elisp_value_partial.

(* "[1 ;c\n 2\t(t . nil)\r]" reads as #(1 2 (t)) under the Emacs Lisp options *)
Definition c12_elayout : lay :=
  LSeq true (BItem [] (LAtom (Number (PosInt 1)))
            (BItem (s2b " ;c" ++ [10; 32]) (LAtom (Number (PosInt 2)))
            (BItem [9] (LSeq false (BItem [] (LAtom (Bool true)) (BDot [32] [32] (LAtom Nil) [])))
            (BEnd [13])))).
Example C12_trivia_elisp_nonvacuous :
  elok (fun _ => []) c12_elayout /\ (ldepth c12_elayout <= 127)%nat /\
  eltxt (fun _ => []) c12_elayout = s2b "[1 ;c" ++ [10] ++ s2b " 2" ++ [9] ++ s2b "(t . nil)" ++ [13] ++ s2b "]" /\
  elval c12_elayout = Vector [Number (PosInt 1); Number (PosInt 2); Cons (Symbol (s2b "t")) Null] /\
  forall k, from_trait elisp_ro (fun _ => true) true dec_to_f64 k (bytes_events (eltxt (fun _ => []) c12_elayout)) =
            POk (elval c12_elayout).
Proof.
  split.
  { cbn [c12_elayout elok ebok]. repeat match goal with
      | |- _ /\ _ => split
      | |- trivia _ => apply is_trivia_ok; reflexivity
      | |- ert_ok (Number _) => cbn; unfold u64_MAX; lia
      | |- ert_ok _ => exact I
      | |- true = true \/ _ => left; reflexivity
      | |- false = true \/ _ => right; reflexivity
      | |- _ = _ => reflexivity
      | |- _ <> _ => discriminate
      | |- delim_ok _ => reflexivity
      end. }
  split; [vm_compute; repeat constructor|]. split; [vm_compute; reflexivity|]. split; [reflexivity|].
  intros k; destruct k; vm_compute; reflexivity.
Qed.

(* trivia between the octets of a byte vector, inside a list:
   "(x #u8 ;c<LF>(<TAB>1<CR><LF>20 ;d<LF> 255<FF>) y)" reads as (x #u8(1 20 255) y) *)
Definition c12_bytes_layout : lay :=
  LSeq false
    (BItem [] (LAtom (Symbol (s2b "x")))
    (BItem [32] (LBytes (s2b " ;c" ++ [10]) [([9], 1); ([13; 10], 20); (s2b " ;d" ++ [10; 32], 255)] [12])
    (BItem [32] (LAtom (Symbol (s2b "y")))
    (BEnd [])))).
Example C12_trivia_bytes_nonvacuous :
  lok (fun _ => []) (fun _ => true) c12_bytes_layout /\ (ldepth c12_bytes_layout <= 127)%nat /\
  lval c12_bytes_layout = build [Symbol (s2b "x"); Bytes [1; 20; 255]; Symbol (s2b "y")] Null /\
  ltxt (fun _ => []) c12_bytes_layout =
    s2b "(x #u8 ;c" ++ [10] ++ s2b "(" ++ [9] ++ s2b "1" ++ [13; 10] ++ s2b "20 ;d" ++ [10] ++ s2b " 255" ++ [12] ++ s2b ") y)" /\
  forall k, from_trait default_ro (fun _ => true) true dec_to_f64 k
              (bytes_events (ltxt (fun _ => []) c12_bytes_layout)) = POk (lval c12_bytes_layout).
Proof.
  split; [|split; [vm_compute; repeat constructor|split; [reflexivity|split; [vm_compute; reflexivity|]]]].
  2:{ intros k; destruct k; vm_compute; reflexivity. }
  assert (Hsym : forall c, is_ascii_alpha c = true -> rt_ok (fun _ => true) (Symbol [c])).
  { intros c Hc. cbn [rt_ok]. unfold plain_symbol, ScanProofs.no_terminator, ScanProofs.symbol_ok.
    repeat split.
    - constructor; [|constructor]. unfold is_ascii_alpha, is_ascii_lower, is_ascii_upper, in_range in Hc.
      unfold is_symbol_terminator, memb. cbn [existsb]. lia.
    - unfold is_ascii_alpha, is_ascii_lower, is_ascii_upper, in_range in Hc. cbn. destruct (c =? 46) eqn:E; [lia|reflexivity].
    - unfold is_ascii_alpha, is_ascii_lower, is_ascii_upper, in_range in Hc. cbn [Utf8.utf8_valid].
      unfold Utf8.utf8_valid. cbn. assert (E : (c <? 128) = true) by lia. rewrite E. reflexivity.
    - left; left; exact Hc. }
  cbn [c12_bytes_layout lok bok BytesLayout.olay_ok].
  repeat match goal with
         | |- _ /\ _ => split
         | |- trivia _ => apply is_trivia_ok; reflexivity
         | |- rt_ok _ (Symbol _) => apply Hsym; reflexivity
         | |- _ \/ _ => first [left; reflexivity | right; first [discriminate | reflexivity]]
         | |- _ < _ => reflexivity
         | |- True => exact I
         end.
Qed.

(* the printer's own text is the layout with no extra trivia *)
Example C12_layout_of_printed : forall ryu v, ltxt ryu (LAtom v) = TextProofs.txt ryu v /\ lval (LAtom v) = v.
Proof. intros; split; reflexivity. Qed.

(* the hypotheses are satisfiable: "\t( a ;c\n\t(b . \rc\f)(d) #(1\n2 ) ) ; end" *)
Definition c12_layout : lay :=
  LSeq false
    (BItem [32] (LAtom (Symbol (s2b "a")))
    (BItem (s2b " ;c" ++ [10; 9])
           (LSeq false (BItem [] (LAtom (Symbol (s2b "b"))) (BDot [32] [32; 13] (LAtom (Symbol (s2b "c"))) [12])))
    (BItem [] (LSeq false (BItem [] (LAtom (Symbol (s2b "d"))) (BEnd [])))
    (BItem [32] (LSeq true (BItem [] (LAtom (Number (PosInt 1))) (BItem [10] (LAtom (Number (PosInt 2))) (BEnd [32]))))
    (BEnd [32]))))).
Definition c12_value : value :=
  build [Symbol (s2b "a"); Cons (Symbol (s2b "b")) (Symbol (s2b "c")); Cons (Symbol (s2b "d")) Null;
         Vector [Number (PosInt 1); Number (PosInt 2)]] Null.
Example C12_trivia_nonvacuous :
  trivia [9] /\ trivia_eof (s2b " ; end") /\ lok (fun _ => []) (fun _ => true) c12_layout /\ (ldepth c12_layout <= 127)%nat /\
  lval c12_layout = c12_value /\
  ltxt (fun _ => []) c12_layout = s2b "( a ;c" ++ [10; 9] ++ s2b "(b . " ++ [13] ++ s2b "c" ++ [12] ++ s2b ")(d) #(1" ++ [10] ++ s2b "2 ) )" /\
  forall k, from_trait default_ro (fun _ => true) true dec_to_f64 k
              (bytes_events ([9] ++ ltxt (fun _ => []) c12_layout ++ s2b " ; end")) = POk c12_value.
Proof.
  assert (Hsym : forall c, is_ascii_alpha c = true -> rt_ok (fun _ => true) (Symbol [c])).
  { intros c Hc. cbn [rt_ok]. unfold plain_symbol, ScanProofs.no_terminator, ScanProofs.symbol_ok.
    assert (Hc' : c = 97 \/ c = 98 \/ c = 99 \/ c = 100 \/ ~ (c = 97 \/ c = 98 \/ c = 99 \/ c = 100)) by lia.
    repeat split.
    - constructor; [|constructor]. unfold is_ascii_alpha, is_ascii_lower, is_ascii_upper, in_range in Hc.
      unfold is_symbol_terminator, memb. cbn [existsb]. lia.
    - unfold is_ascii_alpha, is_ascii_lower, is_ascii_upper, in_range in Hc. cbn. destruct (c =? 46) eqn:E; [lia|reflexivity].
    - unfold is_ascii_alpha, is_ascii_lower, is_ascii_upper, in_range in Hc. cbn [Utf8.utf8_valid].
      unfold Utf8.utf8_valid. cbn. assert (E : (c <? 128) = true) by lia. rewrite E. reflexivity.
    - left; left; exact Hc. }
  split; [apply is_trivia_ok; reflexivity|].
  split; [apply (te_open [32] (s2b " end")); [apply is_trivia_ok; reflexivity|repeat constructor; discriminate]|].
  split.
  { cbn [c12_layout lok bok]. repeat match goal with
      | |- _ /\ _ => split
      | |- trivia _ => apply is_trivia_ok; reflexivity
      | |- rt_ok _ (Symbol _) => apply Hsym; reflexivity
      | |- rt_ok _ (Number _) => cbn; unfold u64_MAX; lia
      | |- true = true \/ _ => left; reflexivity
      | |- false = true \/ _ => right; reflexivity
      | |- _ = _ => reflexivity
      | |- _ <> _ => discriminate
      | |- delim_ok _ => reflexivity
      end. }
  split; [vm_compute; repeat constructor|].
  split; [reflexivity|]. split; [vm_compute; reflexivity|].
  intros k; destruct k; vm_compute; reflexivity.
Qed.

(* Each successful item consumes input: a call that returns a value leaves the
   reader strictly further in the input than it found it (for every input,
   option set, source kind and fuel; inv W is the position invariant of C19,
   which holds initially and which the call re-establishes, so the statement
   chains over any sequence of calls). Since positions are positions of
   prefixes of the input, a finite input admits only finitely many successful
   items. *)
Theorem C12_items_consume_input : forall W ro alpha fast std_parse fuel s, inv W (rd s) ->
  match next_value ro alpha fast std_parse fuel s with
  | (POk (Some v), s') => inv W (rd s') /\ pos_lt (rpos (rd s)) (rpos (rd s'))
  | (POk None, s') => inv W (rd s')
  | (PErr _, _) => True
  end.
Proof.
  intros W ro alpha fast std_parse fuel s Hi.
  rewrite (proj1 (agreement ro alpha fast std_parse fuel) s). unfold pmap.
  pose proof (next_datum_progress W ro alpha fast std_parse fuel s Hi) as H.
  destruct (next_datum ro alpha fast std_parse fuel s) as [[[d|]|e] s1]; cbn [fst snd option_map]; exact H.
Qed.
Print Assumptions C12_items_consume_input.

(* Iteration terminates. Collecting up to n items with value_iter / datum_iter /
   Iterator for Parser from any input, with fuel_for's fuel: no item is the
   model's own fuel error, and at most |input| items are values - each value
   returned is paid for with at least one delivered event, so a loop that
   collects until None or until an error ends after at most |input| + 1 steps
   (every option set, source kind, input; errors included in the items). *)
Theorem C12_iteration_terminates : forall ro alpha fast std_parse k inp n,
  Forall (fun r => r <> PErr (XErr EFuel)) (iterate_values ro alpha fast std_parse (fuel_for inp) n (init_state k inp)) /\
  Forall (fun r => r <> PErr (XErr EFuel)) (iterate_datums ro alpha fast std_parse (fuel_for inp) n (init_state k inp)) /\
  (length (filter is_okb (iterate_values ro alpha fast std_parse (fuel_for inp) n (init_state k inp))) <= length inp)%nat /\
  (length (filter is_okb (iterate_datums ro alpha fast std_parse (fuel_for inp) n (init_state k inp))) <= length inp)%nat.
Proof. exact total_iterate. Qed.
Print Assumptions C12_iteration_terminates.

(* and no call in any history of next_value / next_datum / expect_* calls runs out of fuel *)
Theorem C12_histories_total : forall ro alpha fast std_parse k inp cs,
  Forall call_ok (run_history ro alpha fast std_parse (fuel_for inp) cs (init_state k inp)).
Proof.
  intros ro alpha fast std_parse k inp cs.
  exact (C12_histories ro alpha fast std_parse (fuel_for inp) k inp cs (total_history ro alpha fast std_parse k inp cs)).
Qed.
Print Assumptions C12_histories_total.

(* The ways of iterating agree across sources too: collecting items from a byte
   slice and from a stream of the same bytes gives, item for item, the same
   values and errors with the same code, for every option set and any bytes
   (rpres eq: equal values; errors agree in their code, the position attached
   to an error may differ between SliceRead and IoRead). *)
Theorem C12_iterate_slice_stream : forall ro alpha fast std_parse (s : bytes) n,
  Forall2 (rpres eq)
    (iterate_values ro alpha fast std_parse (fuel_for (bytes_events s)) n (init_state SrcSlice (bytes_events s)))
    (iterate_values ro alpha fast std_parse (fuel_for (bytes_events s)) n (init_state SrcIo (bytes_events s))).
Proof. exact iterate_slice_stream. Qed.
Print Assumptions C12_iterate_slice_stream.

(* ... and from a &str and the byte slice of the same well-formed text exactly
   the same items, values and datums, errors with their positions included, for
   every option set - also past an error, since a str reader is still inside
   the text whatever a call returned. *)
Theorem C12_iterate_str_slice_on_text : forall W, Utf8.utf8_valid W = true -> forall ro alpha fast std_parse n,
  iterate_values ro alpha fast std_parse (fuel_for (bytes_events W)) n (init_state SrcStr (bytes_events W)) =
  iterate_values ro alpha fast std_parse (fuel_for (bytes_events W)) n (init_state SrcSlice (bytes_events W)) /\
  iterate_datums ro alpha fast std_parse (fuel_for (bytes_events W)) n (init_state SrcStr (bytes_events W)) =
  iterate_datums ro alpha fast std_parse (fuel_for (bytes_events W)) n (init_state SrcSlice (bytes_events W)).
Proof. exact valid_text_iterate. Qed.
Print Assumptions C12_iterate_str_slice_on_text.

(* An unexpected closer is consumed when it is reported, so iteration moves on. *)
Example C12_closer_consumed :
  let inp := bytes_events (s2b "1 2 ) 3") in
  map (fun r => match r with POk v => Some v | PErr _ => None end)
      (iterate_values default_ro (fun _ => true) true dec_to_f64 (fuel_for inp) 10 (init_state SrcStr inp))
  = [Some (Number (PosInt 1)); Some (Number (PosInt 2)); None; Some (Number (PosInt 3))].
Proof. vm_compute. reflexivity. Qed.
