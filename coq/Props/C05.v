(* C05 -- numeric literals denote their exact mathematical value (proved
   part). Integers: every decimal digit string, with any number of leading
   zeros and an optional sign, whose value lies in [-2^63, 2^64-1] reads as
   exactly that integer, and every integer the printer emits reads back.
   Floats: on the fast path (significand below 2^53, |exponent| <= 22, feature
   fast-float-parsing) the one IEEE operation performed gives the correctly
   rounded double, stated against Flocq's real-number semantics. Radix
   prefixes, over-long integers, the literal-to-(significand, exponent) step,
   the 2^-50 bound off the fast path and the build without fast-float-parsing
   are decided by the correspondence and the oracle only (theorems.json). *)
From Coq Require Import ZArith Reals SpecFloat.
From Flocq Require Import Core BinarySingleNaN.
Require Import Base Value Float PrintOptions Printer ParseOptions Utf8 Reader Scan Num NumberOps Parser.
Require Import ReaderProofs TokenProofs NumTokenProofs ClingerProofs.
Local Open Scope N_scope.

(* unsigned decimal digit strings *)
Theorem C05_decimal_digits : forall alpha fast std_parse fuel r d ds rest,
  all_digits (d :: ds) -> dfold 0 (d :: ds) <= u64_MAX ->
  (length (d :: ds) < fuel)%nat -> delim_ok rest -> at_bytes r ((d :: ds) ++ rest) ->
  exists r', parse_token default_ro alpha fast std_parse fuel d r =
             (Ok (TNumber (PosInt (dfold 0 (d :: ds)))), r') /\ at_bytes r' rest /\ rk r' = rk r.
Proof. exact tok_digits. Qed.
Print Assumptions C05_decimal_digits.

(* signed ones: +n is n; -n is the integer -n down to -2^63 (a float beyond) *)
Theorem C05_signed_digits : forall alpha fast std_parse fuel r sg d ds rest,
  sg = 43 \/ sg = 45 -> all_digits (d :: ds) -> dfold 0 (d :: ds) <= u64_MAX ->
  (S (length (d :: ds)) < fuel)%nat -> delim_ok rest -> at_bytes r (sg :: (d :: ds) ++ rest) -> peeked r ->
  exists r', parse_token default_ro alpha fast std_parse fuel sg r =
             (Ok (TNumber (int_result (sg =? 43) (dfold 0 (d :: ds)))), r') /\ at_bytes r' rest /\ rk r' = rk r.
Proof. exact tok_signed_digits. Qed.
Print Assumptions C05_signed_digits.

Theorem C05_negative_value : forall n, n <= 9223372036854775808 ->
  int_result false n = num_from_signed (- Z.of_N n).
Proof. exact int_result_neg. Qed.
Print Assumptions C05_negative_value.

(* the digit strings the printer emits denote the number printed *)
Theorem C05_printed_integer : forall n,
  exists ds, dec_of_N n = ds /\ ds <> [] /\ all_digits ds /\ dfold 0 ds = n /\
             (forall d ds', ds = d :: ds' -> ds' <> [] -> d <> 48).
Proof. exact dec_of_N_spec. Qed.
Print Assumptions C05_printed_integer.

(* and read back *)
Theorem C05_printed_posint_reads_back : forall alpha fast std_parse fuel r n rest,
  n <= u64_MAX -> (length (dec_of_N n) < fuel)%nat -> delim_ok rest -> at_bytes r (dec_of_N n ++ rest) ->
  exists c r', hd_error (dec_of_N n ++ rest) = Some c /\
    parse_token default_ro alpha fast std_parse fuel c r = (Ok (TNumber (PosInt n)), r') /\
    at_bytes r' rest /\ rk r' = rk r.
Proof. exact tok_posint. Qed.
Print Assumptions C05_printed_posint_reads_back.

Theorem C05_printed_negint_reads_back : forall alpha fast std_parse fuel r i rest,
  (i64_min <= i < 0)%Z -> (S (length (dec_of_N (Z.to_N (- i)))) < fuel)%nat -> delim_ok rest ->
  at_bytes r (dec_of_Z i ++ rest) -> peeked r ->
  exists r', parse_token default_ro alpha fast std_parse fuel 45 r = (Ok (TNumber (NegInt i)), r') /\
             at_bytes r' rest /\ rk r' = rk r.
Proof. exact tok_negint. Qed.
Print Assumptions C05_printed_negint_reads_back.

(* the Clinger fast path is correctly rounded *)
Theorem C05_fast_path_correctly_rounded : forall std_parse pos sig e r,
  (Z.of_N sig < 2 ^ 53)%Z -> (Z.abs e <= 22)%Z ->
  exists b : binary_float 53 1024,
    f64_from_parts true std_parse pos sig e r = (Ok (if pos then B2SF b else f64_neg (B2SF b)), r) /\
    is_finite b = true /\
    B2R b = round radix2 (SpecFloat.fexp 53 1024) ZnearestE (dec_value sig e).
Proof. exact from_parts_fast. Qed.
Print Assumptions C05_fast_path_correctly_rounded.

(* the theorem is about what the model computes: 0.3 = 3 / 10^1 *)
Example C05_nonvacuous :
  f64_from_parts true dec_to_f64 true 3 (-1) (mk_reader SrcStr []) =
    (Ok (f64_of_bits 4599075939470750515), mk_reader SrcStr []) /\
  all_digits (s2b "007") /\ dfold 0 (s2b "007") = 7.
Proof. split; [vm_compute; reflexivity|]. split; [repeat constructor|reflexivity]. Qed.
