(* C05 -- numeric literals denote their exact mathematical value (proved
   part). Integers: every decimal digit string, with any number of leading
   zeros and an optional sign, whose value lies in [-2^63, 2^64-1] reads as
   exactly that integer, and every integer the printer emits reads back.
   Floats: on the fast path (significand below 2^53, |exponent| <= 22, feature
   fast-float-parsing) the one IEEE operation performed gives the correctly
   rounded double, stated against Flocq's real-number semantics; and every
   literal digits[.digits][(e|E)[+|-]digits] with a fraction or an exponent
   whose digits fit in a u64 reaches f64_from_parts with exactly the
   significand and exponent it denotes (both feature builds), so that on the
   fast path the token read is the correctly rounded double of the literal's
   value (C05_decimal_literal_parts, C05_decimal_literal_fast_correct). Radix prefixes, over-long integers, the
   2^-50 bound off the fast path, out-of-range rejection and the correctness
   of str::parse (the build without fast-float-parsing) are decided by the
   correspondence and the oracle only (theorems.json). *)
From Coq Require Import ZArith Reals SpecFloat.
From Flocq Require Import Core BinarySingleNaN.
Require Import Base Value Float PrintOptions Printer ParseOptions Utf8 Reader Scan Num NumberOps Parser.
Require Import ReaderProofs TokenProofs NumTokenProofs DecimalProofs RadixProofs ClingerProofs FloatLiteralProofs FuelProofs FiniteFloat.
Local Open Scope N_scope.

(* unsigned decimal digit strings *)
Theorem C05_decimal_digits : forall alpha fast std_parse fuel r d ds rest,
  all_digits (d :: ds) -> dfold 0 (d :: ds) <= u64_MAX ->
  (length (d :: ds) < fuel)%nat -> delim_ok rest -> at_bytes r ((d :: ds) ++ rest) ->
  exists r', parse_token default_ro alpha fast std_parse fuel d r =
             (Ok (TNumber (PosInt (dfold 0 (d :: ds)))), r') /\ at_bytes r' rest /\ rk r' = rk r.
Proof. exact tok_digits. Qed.
Print Assumptions C05_decimal_digits.

(* signed ones: +n is n; -n is the integer -n down to -2^63 (a float beyond) *)
Theorem C05_signed_digits : forall alpha fast std_parse fuel r sg d ds rest,
  sg = 43 \/ sg = 45 -> all_digits (d :: ds) -> dfold 0 (d :: ds) <= u64_MAX ->
  (S (length (d :: ds)) < fuel)%nat -> delim_ok rest -> at_bytes r (sg :: (d :: ds) ++ rest) -> peeked r ->
  exists r', parse_token default_ro alpha fast std_parse fuel sg r =
             (Ok (TNumber (int_result (sg =? 43) (dfold 0 (d :: ds)))), r') /\ at_bytes r' rest /\ rk r' = rk r.
Proof. exact tok_signed_digits. Qed.
Print Assumptions C05_signed_digits.

Theorem C05_negative_value : forall n, n <= 9223372036854775808 ->
  int_result false n = num_from_signed (- Z.of_N n).
Proof. exact int_result_neg. Qed.
Print Assumptions C05_negative_value.

(* the digit strings the printer emits denote the number printed *)
Theorem C05_printed_integer : forall n,
  exists ds, dec_of_N n = ds /\ ds <> [] /\ all_digits ds /\ dfold 0 ds = n /\
             (forall d ds', ds = d :: ds' -> ds' <> [] -> d <> 48).
Proof. exact dec_of_N_spec. Qed.
Print Assumptions C05_printed_integer.

(* and read back *)
Theorem C05_printed_posint_reads_back : forall alpha fast std_parse fuel r n rest,
  n <= u64_MAX -> (length (dec_of_N n) < fuel)%nat -> delim_ok rest -> at_bytes r (dec_of_N n ++ rest) ->
  exists c r', hd_error (dec_of_N n ++ rest) = Some c /\
    parse_token default_ro alpha fast std_parse fuel c r = (Ok (TNumber (PosInt n)), r') /\
    at_bytes r' rest /\ rk r' = rk r.
Proof. exact tok_posint. Qed.
Print Assumptions C05_printed_posint_reads_back.

Theorem C05_printed_negint_reads_back : forall alpha fast std_parse fuel r i rest,
  (i64_min <= i < 0)%Z -> (S (length (dec_of_N (Z.to_N (- i)))) < fuel)%nat -> delim_ok rest ->
  at_bytes r (dec_of_Z i ++ rest) -> peeked r ->
  exists r', parse_token default_ro alpha fast std_parse fuel 45 r = (Ok (TNumber (NegInt i)), r') /\
             at_bytes r' rest /\ rk r' = rk r.
Proof. exact tok_negint. Qed.
Print Assumptions C05_printed_negint_reads_back.

(* the Clinger fast path is correctly rounded *)
Theorem C05_fast_path_correctly_rounded : forall std_parse pos sig e r,
  (Z.of_N sig < 2 ^ 53)%Z -> (Z.abs e <= 22)%Z ->
  exists b : binary_float 53 1024,
    f64_from_parts true std_parse pos sig e r = (Ok (if pos then B2SF b else f64_neg (B2SF b)), r) /\
    is_finite b = true /\
    B2R b = round radix2 (SpecFloat.fexp 53 1024) ZnearestE (dec_value sig e).
Proof. exact from_parts_fast. Qed.
Print Assumptions C05_fast_path_correctly_rounded.

(* Integer literals with a radix prefix: "#" (b|o|d|x) [+|-] digits, the digits
   valid in that radix (0-9 and, for #x, a-f / A-F in either case), any number
   of leading zeros, positional value rfold R 0 digits at most 2^64-1: the token
   is exactly that integer, negated after "-" (int_result: a PosInt, a NegInt
   down to -2^63, beyond that the float nearest the negated value). *)
Theorem C05_radix_integers : forall alpha fast std_parse R fuel r sg d ds rest,
  radix_ok R -> (S (length (d :: ds)) < fuel)%nat ->
  all_rdigits R (d :: ds) -> delim_ok rest -> rfold R 0 (d :: ds) <= u64_MAX ->
  at_bytes r (35 :: radix_letter R :: sign_text sg ++ (d :: ds) ++ rest) -> peeked r ->
  exists r', parse_token default_ro alpha fast std_parse fuel 35 r =
               (Ok (TNumber (int_result (sign_pos sg) (rfold R 0 (d :: ds)))), r') /\
             at_bytes r' rest /\ rk r' = rk r.
Proof. exact tok_radix_int. Qed.
Print Assumptions C05_radix_integers.

(* "#x-fF" is -255, "#b+101" is 5, "#o777" is 511 *)
Example C05_radix_nonvacuous :
  radix_ok 16 /\ all_rdigits 16 (s2b "fF") /\ rfold 16 0 (s2b "fF") = 255 /\
  35 :: radix_letter 16 :: sign_text (Some false) ++ s2b "fF" = s2b "#x-fF" /\
  from_trait default_ro (fun _ => true) true dec_to_f64 SrcSlice (bytes_events (s2b "#x-fF")) = POk (Number (NegInt (-255))) /\
  from_trait default_ro (fun _ => true) true dec_to_f64 SrcIo (bytes_events (s2b "#b+101")) = POk (Number (PosInt 5)) /\
  from_trait default_ro (fun _ => true) true dec_to_f64 SrcStr (bytes_events (s2b "#o777")) = POk (Number (PosInt 511)).
Proof.
  split; [right; right; right; reflexivity|].
  split; [repeat constructor; [exists 15|exists 15]; split; reflexivity|].
  repeat split; vm_compute; reflexivity.
Qed.

(* A decimal literal with a fraction and/or an exponent:
     lit_text ip fs ex = ip ++ ["." fs] ++ [(e|E) [+|-] es]
   with ip, fs, es digit strings (ip and es non-empty; fs empty means no
   fraction part). Its digits, read as one integer, are lit_sig ip fs; its
   exponent is the written one minus the number of fraction digits.
   In both feature builds the number routine hands exactly these two numbers
   to f64_from_parts, whenever the digits fit in a u64 and the written
   exponent in an i32 (lit_exp saturates to i32 as the code does): *)
Theorem C05_decimal_literal_parts : forall fast std_parse fuel r pos d ip fs ex rest,
  all_digits (d :: ip) -> all_digits fs -> is_float_lit fs ex -> exp_ok ex -> lit_sig (d :: ip) fs <= u64_MAX ->
  (S (length (lit_text (d :: ip) fs ex)) < fuel)%nat -> delim_ok rest ->
  at_bytes r (lit_text (d :: ip) fs ex ++ rest) ->
  exists r', parse_num_literal fast std_parse fuel 10 pos r =
             (x <- f64_from_parts fast std_parse pos (lit_sig (d :: ip) fs) (lit_exp fs ex) ;; ret (Float x)) r' /\
             at_bytes r' rest /\ rk r' = rk r.
Proof. exact num_literal_decimal. Qed.
Print Assumptions C05_decimal_literal_parts.

(* With fast-float-parsing, when the digits fit in 2^53 and the denoted
   exponent is at most 22 in magnitude, the token read from the text is the
   double nearest (ties to even) to the real number the literal denotes,
   dec_value (digits) (exponent) = digits * 10^exponent. *)
Theorem C05_decimal_literal_fast_correct : forall alpha std_parse fuel r d ip fs ex rest,
  all_digits (d :: ip) -> all_digits fs -> is_float_lit fs ex -> exp_ok ex ->
  (Z.of_N (lit_sig (d :: ip) fs) < 2 ^ 53)%Z -> (Z.abs (lit_exp_exact fs ex) <= 22)%Z ->
  (S (length (lit_text (d :: ip) fs ex)) < fuel)%nat -> delim_ok rest ->
  at_bytes r (lit_text (d :: ip) fs ex ++ rest) ->
  exists (b : binary_float 53 1024) r',
    parse_token default_ro alpha true std_parse fuel d r = (Ok (TNumber (Float (B2SF b))), r') /\
    at_bytes r' rest /\ rk r' = rk r /\ is_finite b = true /\
    B2R b = round radix2 (SpecFloat.fexp 53 1024) ZnearestE (dec_value (lit_sig (d :: ip) fs) (lit_exp_exact fs ex)).
Proof. exact tok_decimal_fast. Qed.
Print Assumptions C05_decimal_literal_fast_correct.

(* the same after a sign; "-" negates the rounded magnitude *)
Theorem C05_signed_decimal_literal_fast_correct : forall alpha std_parse fuel r sg d ip fs ex rest,
  sg = 43 \/ sg = 45 ->
  all_digits (d :: ip) -> all_digits fs -> is_float_lit fs ex -> exp_ok ex ->
  (Z.of_N (lit_sig (d :: ip) fs) < 2 ^ 53)%Z -> (Z.abs (lit_exp_exact fs ex) <= 22)%Z ->
  (S (S (length (lit_text (d :: ip) fs ex))) < fuel)%nat -> delim_ok rest ->
  at_bytes r (sg :: lit_text (d :: ip) fs ex ++ rest) -> peeked r ->
  exists (b : binary_float 53 1024) r',
    parse_token default_ro alpha true std_parse fuel sg r =
      (Ok (TNumber (Float (if sg =? 43 then B2SF b else f64_neg (B2SF b)))), r') /\
    at_bytes r' rest /\ rk r' = rk r /\ is_finite b = true /\
    B2R b = round radix2 (SpecFloat.fexp 53 1024) ZnearestE (dec_value (lit_sig (d :: ip) fs) (lit_exp_exact fs ex)).
Proof. exact tok_signed_decimal_fast. Qed.
Print Assumptions C05_signed_decimal_literal_fast_correct.

(* Never an infinity, never a NaN. Whatever text the number routines are given
   - every radix, sign, digit string of any length, fraction, exponent of any
   size - a float they return is a finite double: the one multiplication that
   can overflow is followed by the infinity test that turns it into
   NumberOutOfRange, a division by a power of ten cannot overflow, a u64 and a
   table power of ten are finite doubles, and 0 * infinity cannot arise in the
   power-of-two radixes because the significand of an over-long integer is at
   least 1. Holds in the default build outright; in the build without
   fast-float-parsing under the stated assumption on str::parse::<f64> (it
   returns a double that is an infinity or finite, never a NaN). Entry points
   of the tokenizer: parse_num_token (digit-initial and signed tokens),
   parse_radix_literal (#b #o #d #x) and parse_number (octets of byte vectors);
   the digit-initial arm under leading_digit_symbols runs parse_num_literal. *)
Theorem C05_never_infinite_or_nan : forall fast std_parse,
  (fast = false -> forall s e, is_infinite_f64 (std_parse s e) = false -> finb (std_parse s e)) ->
  forall fuel radix pos r n r', (radix = 2 \/ radix = 8 \/ radix = 10 \/ radix = 16) ->
  (parse_num_token fast std_parse fuel radix pos r = (Ok n, r') \/
   parse_radix_literal fast std_parse fuel radix r = (Ok n, r') \/
   parse_num_literal fast std_parse fuel radix pos r = (Ok n, r') \/
   parse_number fast std_parse fuel r = (Ok n, r')) ->
  match n with Float f => is_finite_f64 f = true | _ => True end.
Proof.
  intros fast std_parse Hstd fuel radix pos r n r' Hr H.
  assert (Hn : fin_num n).
  { destruct H as [H|[H|[H|H]]].
    - pose proof (num_token_finite fast std_parse Hstd fuel radix pos Hr r) as Hq. rewrite H in Hq. exact Hq.
    - pose proof (radix_literal_finite fast std_parse Hstd fuel radix Hr r) as Hq. rewrite H in Hq. exact Hq.
    - pose proof (num_literal_finite fast std_parse Hstd fuel radix pos Hr r) as Hq. rewrite H in Hq. exact Hq.
    - pose proof (number_finite fast std_parse Hstd fuel r) as Hq. rewrite H in Hq. exact Hq. }
  destruct n; try exact I. apply finb_finite. exact Hn.
Qed.
Print Assumptions C05_never_infinite_or_nan.

(* the oracle assumption is met by the model's own correctly rounded conversion on
   concrete arguments, and a too-large literal is rejected, not returned as infinity *)
Example C05_out_of_range_witness :
  (match from_trait default_ro (fun _ => true) true dec_to_f64 SrcSlice (bytes_events (s2b "1e400")) with
   | PErr (XErr (ESyntax NumberOutOfRange _ _)) => true | _ => false end) &&
  (match from_trait default_ro (fun _ => true) true dec_to_f64 SrcSlice (bytes_events (s2b "#xFFFFFFFFFFFFFFFFFFFF")) with
   | POk (Number (Float f)) => is_finite_f64 f | _ => false end) &&
  (match from_trait default_ro (fun _ => true) false dec_to_f64 SrcSlice (bytes_events (s2b "-2e308")) with
   | PErr (XErr (ESyntax NumberOutOfRange _ _)) => true | _ => false end) = true.
Proof. vm_compute. reflexivity. Qed.

(* the hypotheses are satisfiable: "31.4159E-1" has digits 314159 and exponent -1 - 4 = -5 *)
Example C05_decimal_nonvacuous :
  let ip := s2b "1" in let fs := s2b "4159" in let ex := Some (69, Some false, s2b "1") in
  lit_text (51 :: ip) fs ex = s2b "31.4159E-1" /\
  all_digits (51 :: ip) /\ all_digits fs /\ is_float_lit fs ex /\ exp_ok ex /\
  lit_sig (51 :: ip) fs = 314159 /\ lit_exp_exact fs ex = (-5)%Z /\ lit_exp fs ex = (-5)%Z /\
  from_trait default_ro (fun _ => true) true dec_to_f64 SrcIo (bytes_events (s2b "31.4159E-1")) =
    POk (Number (Float (f64_of_bits 4614256650576692846))).
Proof.
  cbv zeta. split; [reflexivity|]. split; [repeat constructor|]. split; [repeat constructor|].
  split; [left; discriminate|]. split; [cbn; repeat split; try (right; reflexivity); try discriminate; repeat constructor; unfold i32_MAX; cbn; lia|].
  split; [reflexivity|]. split; [reflexivity|]. split; [reflexivity|]. vm_compute. reflexivity.
Qed.

(* the theorem is about what the model computes: 0.3 = 3 / 10^1 *)
Example C05_nonvacuous :
  f64_from_parts true dec_to_f64 true 3 (-1) (mk_reader SrcStr []) =
    (Ok (f64_of_bits 4599075939470750515), mk_reader SrcStr []) /\
  all_digits (s2b "007") /\ dfold 0 (s2b "007") = 7.
Proof. split; [vm_compute; reflexivity|]. split; [repeat constructor|reflexivity]. Qed.
