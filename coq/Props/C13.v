(* C13 -- whatever the parser accepts can be printed and read back unchanged.
   Proved for the default dialect: every value the default parser returns from
   byte-slice or stream input -- for any input text at all -- lies in the class
   of values that round-trip (C13_accepted_in_class), so when it contains no
   float, printing it and parsing the text again, from any source, gives the
   same value (C13_parse_print_parse_partial) and hence the same text again:
   the fixed point is reached after one step. Floats (ryu is an oracle), other
   option sets and &str as the first source (where the parser skips UTF-8
   validation) are decided by the correspondence and the oracle only
   (theorems.json). The proof found a genuine defect on the way: a dot-initial
   symbol directly followed by a vertical bar, a double quote or NUL inside a list (fixed in /repo,
   b08c6f9). *)
From Coq Require Import SpecFloat.
Require Import Base Value Float PrintOptions Printer ParseOptions Utf8 Reader Scan Num NumberOps Parser.
Require Import TextProofs RoundtripProofs AcceptedProofs ValidTextProofs.

Theorem C13_accepted_in_class : forall alpha fast std_parse k inp v, k <> SrcStr ->
  from_trait default_ro alpha fast std_parse k inp = POk v ->
  rt_okf alpha v /\ (rdepth v <= 127)%nat.
Proof. exact accepted_in_class. Qed.
Print Assumptions C13_accepted_in_class.

Theorem C13_float_free_in_c01_class : forall alpha v, rt_okf alpha v -> float_free v -> rt_ok alpha v.
Proof. exact rt_okf_float_free. Qed.
Print Assumptions C13_float_free_in_c01_class.

Theorem C13_parse_print_parse_partial : forall alpha fast std_parse ryu k k' inp v, k <> SrcStr ->
  from_trait default_ro alpha fast std_parse k inp = POk v -> float_free v ->
  from_trait default_ro alpha fast std_parse k' (bytes_events (print0 ryu v)) = POk v.
Proof. exact accepted_roundtrip. Qed.
Print Assumptions C13_parse_print_parse_partial.

(* the first parse from a &str: a str holds a well-formed text, on which the str
   parse is the slice parse (C06_str_slice_agree_on_text) *)
Theorem C13_str_first_source_partial : forall alpha fast std_parse ryu k' W v, utf8_valid W = true ->
  from_trait default_ro alpha fast std_parse SrcStr (bytes_events W) = POk v -> float_free v ->
  from_trait default_ro alpha fast std_parse k' (bytes_events (print0 ryu v)) = POk v.
Proof.
  intros alpha fast std_parse ryu k' W v HW E Hf.
  rewrite (proj1 (valid_text_agree W HW default_ro alpha fast std_parse)) in E.
  apply (accepted_roundtrip alpha fast std_parse ryu SrcSlice k' (bytes_events W) v); [discriminate|exact E|exact Hf].
Qed.
Print Assumptions C13_str_first_source_partial.

(* parse . print is the identity on the class, so print . parse . print = print *)
Theorem C13_fixed_point_partial : forall ryu alpha fast std_parse k v,
  rt_ok alpha v -> (rdepth v <= 127)%nat ->
  exists v', from_trait default_ro alpha fast std_parse k (bytes_events (print0 ryu v)) = POk v' /\
             v' = v /\ print0 ryu v' = print0 ryu v.
Proof.
  intros ryu alpha fast std_parse k v Hok Hd. exists v. rewrite print0_is_txt.
  split; [exact (roundtrip_from_trait ryu alpha fast std_parse k v Hok Hd)|]. split; reflexivity.
Qed.
Print Assumptions C13_fixed_point_partial.

(* a foreign text: comments, brackets, radix literal, quote shorthand, a dotted
   tail that is a list, redundant spaces *)
Example C13_nonvacuous :
  let text := s2b "( a  ;c
 [b . (c)] #x1F '#(1 -2) .d . ""e"")" in
  let run k inp := from_trait default_ro (fun _ => true) true dec_to_f64 k inp in
  match run SrcSlice (bytes_events text) with
  | POk v => float_free v /\ print0 (fun _ => []) v = s2b "(a (b c) 31 (quote #(1 -2)) .d . ""e"")" /\
             run SrcIo (bytes_events (print0 (fun _ => []) v)) = POk v
  | PErr _ => False
  end.
Proof. vm_compute. repeat split; reflexivity. Qed.
