(* C13 -- whatever the parser accepts can be printed and read back unchanged
   (proved part, default dialect). See the header of each theorem; what is not
   proved is listed in theorems.json and decided by the correspondence and the
   oracle (accepted foreign texts under all option sets, parse/print/parse and
   the fixed point on the text). *)
From Coq Require Import SpecFloat.
Require Import Base Value Float PrintOptions Printer ParseOptions Utf8 Reader Scan Num NumberOps Parser.
Require Import TextProofs RoundtripProofs.

(* parse . print is the identity on the covered class, so print . parse . print = print:
   the fixed point is reached after one step *)
Theorem C13_fixed_point_partial : forall ryu alpha fast std_parse k v,
  rt_ok alpha v -> (rdepth v <= 127)%nat ->
  exists v', from_trait default_ro alpha fast std_parse k (bytes_events (print0 ryu v)) = POk v' /\
             v' = v /\ print0 ryu v' = print0 ryu v.
Proof.
  intros ryu alpha fast std_parse k v Hok Hd. exists v. rewrite print0_is_txt.
  split; [exact (roundtrip_from_trait ryu alpha fast std_parse k v Hok Hd)|]. split; reflexivity.
Qed.
Print Assumptions C13_fixed_point_partial.
