(* C08 -- each parser option changes exactly the tokens it is documented to
   govern. Every statement quantifies over all option sets (no fixed dialect),
   all inputs and all three sources. The token-level frame theorem is proved;
   its lift to whole inputs ("options an input does not exercise") is decided
   by the correspondence and the oracle only (see theorems.json). *)
From Coq Require Import SpecFloat.
Require Import Base Value Float PrintOptions ParseOptions Utf8 Reader Scan Num NumberOps Parser.
Require Import ReaderProofs ScanProofs TokenProofs RoundtripProofs OptionProofs FrameProofs NumberToken.

(* nil and t *)
Theorem C08_nil : forall ro,
  symbol_token ro (s2b "nil") =
  match ro_nil ro with NsDefault => TSymbol (s2b "nil") | NsEmptyList => TNull | NsSpecial => TNil end.
Proof. exact symbol_token_nil. Qed.
Print Assumptions C08_nil.

Theorem C08_t : forall ro,
  symbol_token ro (s2b "t") = match ro_t ro with TsTrue => TBool true | TsDefault => TSymbol (s2b "t") end.
Proof. exact symbol_token_t. Qed.
Print Assumptions C08_t.

(* name: is a keyword exactly under the postfix option; other names stay symbols *)
Theorem C08_postfix_keyword : forall ro name,
  ro_kw_postfix ro = true -> (1 < length name)%nat -> ends_with_colon name = true ->
  symbol_token ro name = TKeyword (removelast name).
Proof. exact symbol_token_postfix. Qed.
Print Assumptions C08_postfix_keyword.

Theorem C08_symbol_otherwise : forall ro name,
  ro_kw_postfix ro = false \/ ends_with_colon name = false \/ (length name <= 1)%nat ->
  beq_bytes name (s2b "nil") = false -> beq_bytes name (s2b "t") = false ->
  symbol_token ro name = TSymbol name.
Proof. exact symbol_token_plain. Qed.
Print Assumptions C08_symbol_otherwise.

(* :name *)
Theorem C08_prefix_keyword : forall alpha fast std_parse ro fuel,
  parse_token ro alpha fast std_parse fuel 58 =
  if ro_kw_prefix ro then eat_char ;;; s <- parse_symbol fuel ;; ret (TKeyword s)
  else s <- parse_symbol fuel ;; ret (TSymbol s).
Proof. exact token_colon_any. Qed.
Print Assumptions C08_prefix_keyword.

(* #:name -- keyword with the option, an error without *)
Theorem C08_octothorpe_keyword : forall alpha fast std_parse ro fuel r name rest,
  (length name < fuel)%nat -> no_terminator name -> at_terminator rest -> symbol_ok name ->
  at_bytes r (s2b "#:" ++ name ++ rest) -> peeked r ->
  if ro_kw_octo ro then
    exists r', parse_token ro alpha fast std_parse fuel 35 r = (Ok (TKeyword name), r') /\ at_bytes r' rest
  else exists l cl r', parse_token ro alpha fast std_parse fuel 35 r = (Err (ESyntax ExpectedSomeIdent l cl), r').
Proof. exact hash_keyword. Qed.
Print Assumptions C08_octothorpe_keyword.

(* [ *)
Theorem C08_brackets : forall alpha fast std_parse ro fuel,
  parse_token ro alpha fast std_parse fuel 91 =
  (eat_char ;;; match ro_brackets ro with BrVector => ret (TVecOpen 93) | BrList => ret (TListOpen 93) end).
Proof. exact token_bracket_any. Qed.
Print Assumptions C08_brackets.

(* ?c *)
Theorem C08_question_mark : forall alpha fast std_parse ro fuel,
  parse_token ro alpha fast std_parse fuel 63 =
  match ro_char ro with
  | ChrElisp => eat_char ;;; c <- parse_elisp_char fuel ;; ret (TChar c)
  | ChrR6RS => name <- parse_symbol fuel ;; ret (symbol_token ro name)
  end.
Proof. exact token_question_any. Qed.
Print Assumptions C08_question_mark.

(* #%name *)
Theorem C08_racket : forall alpha fast std_parse ro fuel r name rest,
  (length name < fuel)%nat -> no_terminator name -> at_terminator rest -> symbol_ok (s2b "#%" ++ name) ->
  at_bytes r (s2b "#%" ++ name ++ rest) -> peeked r ->
  if ro_racket ro then
    exists r', parse_token ro alpha fast std_parse fuel 35 r = (Ok (TSymbol (s2b "#%" ++ name)), r') /\ at_bytes r' rest
  else exists l cl r', parse_token ro alpha fast std_parse fuel 35 r = (Err (ESyntax ExpectedSomeIdent l cl), r').
Proof. exact hash_racket. Qed.
Print Assumptions C08_racket.

(* digit-initial tokens *)
Theorem C08_leading_digit : forall alpha fast std_parse ro fuel b, is_digit b = true ->
  parse_token ro alpha fast std_parse fuel b =
  if ro_digit ro then
    symbol <- parse_symbol fuel ;;
    match number_of_symbol fast std_parse fuel symbol with
    | Some n => ret (TNumber n)
    | None => ret (symbol_token ro symbol)
    end
  else n <- parse_num_token fast std_parse fuel 10 true ;; ret (TNumber n).
Proof. exact token_digit_any. Qed.
Print Assumptions C08_leading_digit.

(* the quote shorthands, under every option set and for whatever follows *)
Theorem C08_quote_shorthands : forall alpha fast std_parse ro f r D text name rest,
  shorthand text name -> (2 <= f)%nat -> 1 < D <= 128 -> at_bytes r (text ++ rest) ->
  exists r1, at_bytes r1 rest /\ rk r1 = rk r /\
    forall d r', next_value ro alpha fast std_parse f (mkp r1 (D - 1)) = (POk (Some d), mkp r' (D - 1)) ->
                 next_value ro alpha fast std_parse (S f) (mkp r D) = (POk (Some (vlist [Symbol name; d])), mkp r' D).
Proof. exact quote_shorthand_reads. Qed.
Print Assumptions C08_quote_shorthands.

Theorem C08_unquote : forall alpha fast std_parse ro f r D c rest,
  c <> 64 -> (2 <= f)%nat -> 1 < D <= 128 -> at_bytes r (44 :: c :: rest) ->
  exists r1, at_bytes r1 (c :: rest) /\ rk r1 = rk r /\
    forall d r', next_value ro alpha fast std_parse f (mkp r1 (D - 1)) = (POk (Some d), mkp r' (D - 1)) ->
                 next_value ro alpha fast std_parse (S f) (mkp r D) =
                 (POk (Some (vlist [Symbol (s2b "unquote"); d])), mkp r' D).
Proof. exact unquote_reads. Qed.
Print Assumptions C08_unquote.

(* a token's reading depends only on the options that govern its first byte *)
Theorem C08_token_frame_partial : forall alpha fast std_parse ro1 ro2 fuel b r,
  (b = 35 -> ro_kw_octo ro1 = ro_kw_octo ro2 /\ ro_racket ro1 = ro_racket ro2) ->
  (is_digit b = true -> ro_digit ro1 = ro_digit ro2) ->
  (b = 34 -> ro_string ro1 = ro_string ro2) ->
  (b = 91 -> ro_brackets ro1 = ro_brackets ro2) ->
  (b = 58 -> ro_kw_prefix ro1 = ro_kw_prefix ro2) ->
  (b = 63 -> ro_char ro1 = ro_char ro2) ->
  (symbolish b = true -> ro_kw_postfix ro1 = ro_kw_postfix ro2 /\ ro_nil ro1 = ro_nil ro2 /\ ro_t ro1 = ro_t ro2) ->
  parse_token ro1 alpha fast std_parse fuel b r = parse_token ro2 alpha fast std_parse fuel b r.
Proof. exact parse_token_frame. Qed.
Print Assumptions C08_token_frame_partial.

(* The whole-input frame: two option sets that differ only in options the input
   does not exercise read the whole input identically - same value, same error,
   same position - from every source. "Does not exercise" is a sound condition
   on the bytes of the input W: an option is not exercised when the byte its
   tokens begin with does not occur in W ('#' for #:name and #%name, a digit
   for leading-digit symbols, the double quote for the string syntax, '[' for
   brackets, ':' for both colon keyword spellings, '?' for the character
   syntax), and the nil / t treatments are not exercised when W has no 'n' /
   no 't'. Each hypothesis reads: if the byte occurs, the option is the same
   in both sets. Proved by walking the parser with the invariant that the
   bytes still to be read occur in W and that every scanned symbol consists of
   bytes of W. *)
Theorem C08_input_frame : forall alpha fast std_parse ro1 ro2 (W : bytes) k,
  (In 35 W -> ro_kw_octo ro1 = ro_kw_octo ro2 /\ ro_racket ro1 = ro_racket ro2) ->
  (forall b, In b W -> is_digit b = true -> ro_digit ro1 = ro_digit ro2) ->
  (In 34 W -> ro_string ro1 = ro_string ro2) ->
  (In 91 W -> ro_brackets ro1 = ro_brackets ro2) ->
  (In 58 W -> ro_kw_prefix ro1 = ro_kw_prefix ro2 /\ ro_kw_postfix ro1 = ro_kw_postfix ro2) ->
  (In 63 W -> ro_char ro1 = ro_char ro2) ->
  (In 110 W -> ro_nil ro1 = ro_nil ro2) ->
  (In 116 W -> ro_t ro1 = ro_t ro2) ->
  from_trait ro1 alpha fast std_parse k (bytes_events W) = from_trait ro2 alpha fast std_parse k (bytes_events W).
Proof.
  intros alpha fast std_parse ro1 ro2 W k H1 H2 H3 H4 H5 H6 H7 H8.
  exact (from_trait_frame W alpha fast std_parse ro1 ro2 H1 H2 H3 H4 H5 H6 H7 H8 k).
Qed.
Print Assumptions C08_input_frame.

(* the hypotheses are satisfiable by option sets that do differ: the default and the
   Emacs Lisp options differ in seven fields, none of which "(a (b . c) 'd)" exercises *)
Example C08_input_frame_nonvacuous :
  let W := s2b "(a (b . c) 'd)" in
  default_ro <> elisp_ro /\
  ~ In 35 W /\ (forall b, In b W -> is_digit b = false) /\ ~ In 34 W /\ ~ In 91 W /\ ~ In 58 W /\ ~ In 63 W /\ ~ In 110 W /\ ~ In 116 W /\
  from_trait default_ro (fun _ => true) true dec_to_f64 SrcIo (bytes_events W) =
  from_trait elisp_ro (fun _ => true) true dec_to_f64 SrcIo (bytes_events W).
Proof.
  cbv zeta. split; [discriminate|].
  assert (Hn : forall x, In x (s2b "(a (b . c) 'd)") -> x = 40 \/ x = 97 \/ x = 32 \/ x = 98 \/ x = 46 \/ x = 99 \/ x = 41 \/ x = 39 \/ x = 100).
  { intros x H. cbn in H. repeat (destruct H as [<-|H]; [tauto|]). destruct H. }
  repeat split; try (intros H; apply Hn in H; repeat (destruct H as [H|H]; [discriminate H|]); discriminate H).
  all: try (intros b H; apply Hn in H; repeat (destruct H as [->|H]; [reflexivity|]); subst b; reflexivity).
  all: try (vm_compute; reflexivity).
Qed.

(* the same text under different options *)
Example C08_nonvacuous :
  let run ro txt := from_trait ro (fun _ => true) true dec_to_f64 SrcSlice (bytes_events txt) in
  run default_ro (s2b "nil") = POk (Symbol (s2b "nil")) /\ run elisp_ro (s2b "nil") = POk Null /\
  run default_ro (s2b "[1]") = POk (vlist [Number (PosInt 1)]) /\ run elisp_ro (s2b "[1]") = POk (Vector [Number (PosInt 1)]) /\
  run default_ro (s2b "?a") = POk (Symbol (s2b "?a")) /\ run elisp_ro (s2b "?a") = POk (Char 97) /\
  run default_ro (s2b ":k") = POk (Symbol (s2b ":k")) /\ run elisp_ro (s2b ":k") = POk (Keyword (s2b "k")) /\
  run default_ro (s2b "#:k") = POk (Keyword (s2b "k")) /\
  run default_ro (s2b ",@x") = POk (vlist [Symbol (s2b "unquote-splicing"); Symbol (s2b "x")]) /\
  run elisp_ro (s2b ",@x") = POk (vlist [Symbol (s2b "unquote-splicing"); Symbol (s2b "x")]) /\
  run elisp_ro (s2b "1+") = POk (Symbol (s2b "1+")).
Proof. vm_compute. repeat split; reflexivity. Qed.

(* A token is read as a number only if the whole token is a numeric literal.
   For every option set, source, fuel and dispatch byte: when the token
   dispatcher returns a number n then either leading-digit symbols are enabled
   and the WHOLE symbol token - scanned to its terminator - was accepted by the
   literal parser with nothing left over (number_of_symbol: parse_num_literal
   on the token's text, then end of text), or the literal parser returned n and
   what follows is the end of the input or a delimiter, which is left in
   place. So "1+", "12ab", "1.5.6", "0x10" never yield the number of their
   numeric prefix: they are symbols (leading-digit symbols) or InvalidNumber. *)
Theorem C08_number_whole_token : forall ro alpha fast std_parse fuel b r n r',
  parse_token ro alpha fast std_parse fuel b r = (Ok (TNumber n), r') ->
  (ro_digit ro = true /\ exists name, parse_symbol fuel r = (Ok name, r') /\
                                     number_of_symbol fast std_parse fuel name = Some n) \/
  (exists rs r1 radix pos, parse_num_literal fast std_parse fuel radix pos rs = (Ok n, r1) /\
     (peek r1 = (Ok None, r') \/ exists c, peek r1 = (Ok (Some c), r') /\ is_delimiter c = true)).
Proof.
  intros ro alpha fast std_parse fuel b r n r' E.
  exact (number_token_whole ro alpha fast std_parse fuel b r (TNumber n) r' E).
Qed.
Print Assumptions C08_number_whole_token.

Example C08_number_whole_token_nonvacuous :
  let digit_ro := {| ro_kw_prefix := false; ro_kw_postfix := false; ro_kw_octo := true; ro_nil := NsDefault; ro_t := TsDefault;
                     ro_brackets := BrList; ro_string := StrR6RS; ro_char := ChrR6RS; ro_racket := false; ro_digit := true |} in
  let run ro txt := from_trait ro (fun _ => true) true dec_to_f64 SrcSlice (bytes_events txt) in
  (exists l c, run default_ro (s2b "1+") = PErr (XErr (ESyntax InvalidNumber l c))) /\
  (exists l c, run default_ro (s2b "12ab") = PErr (XErr (ESyntax InvalidNumber l c))) /\
  (exists l c, run default_ro (s2b "(1.5.6)") = PErr (XErr (ESyntax InvalidNumber l c))) /\
  run default_ro (s2b "(12)") = POk (vlist [Number (PosInt 12)]) /\
  run digit_ro (s2b "1+") = POk (Symbol (s2b "1+")) /\ run digit_ro (s2b "12ab") = POk (Symbol (s2b "12ab")) /\
  run digit_ro (s2b "1.5.6") = POk (Symbol (s2b "1.5.6")) /\ run digit_ro (s2b "12") = POk (Number (PosInt 12)).
Proof. cbv zeta. repeat split; try (eexists; eexists); vm_compute; reflexivity. Qed.
