(* C02 -- round trip for consistent printer/parser pairings (proved part: the
   two named dialects). For the Emacs Lisp printer options with the Emacs Lisp
   parser options, every value without floats whose identifiers are plain in
   that dialect -- any size, nesting up to the parser's limit, all three
   sources -- reads back as the value folded exactly as documented: Nil, false
   and the symbol nil become the empty list, true becomes the symbol t, an empty
   byte vector the empty string, everything else itself. The default pairing is
   C01. The other 574 printer option sets with their consistent parser option
   sets, floats, and the independent Emacs Lisp reader are decided by the
   correspondence and the oracle only (theorems.json). *)
From Coq Require Import SpecFloat.
Require Import Base Value Float PrintOptions Printer ParseOptions Utf8 Reader Scan Num NumberOps Parser.
Require Import TextProofs RoundtripProofs ElispText ElispRoundtrip.

Theorem C02_elisp_roundtrip_partial : forall ryu alpha fast std_parse k v,
  ert_ok v -> (rdepth v <= 127)%nat ->
  from_trait elisp_ro alpha fast std_parse k (bytes_events (print_custom ryu elisp_po v)) = POk (efold v).
Proof.
  intros ryu alpha fast std_parse k v Hok Hd. rewrite print_elisp_is_etxt.
  exact (elisp_roundtrip_from_trait ryu alpha fast std_parse k v Hok Hd).
Qed.
Print Assumptions C02_elisp_roundtrip_partial.

(* the folding changes nothing but what is documented *)
Theorem C02_fold_is_documented : forall v,
  efold v = match v with
            | Nil => Null
            | Bool b => if b then Symbol (s2b "t") else Null
            | Symbol s => if beq_bytes s (s2b "nil") then Null else Symbol s
            | Bytes b => match b with [] => String [] | _ => Bytes b end
            | Cons a d => Cons (efold a) (efold d)
            | Vector l => Vector (map efold l)
            | _ => v
            end.
Proof. destruct v; reflexivity. Qed.
Print Assumptions C02_fold_is_documented.

(* the default pairing through the customised formatter is the default printer *)
Theorem C02_default_pairing_partial : forall ryu alpha fast std_parse k v,
  rt_ok alpha v -> (rdepth v <= 127)%nat ->
  from_trait default_ro alpha fast std_parse k (bytes_events (print_custom ryu default_po v)) = POk v.
Proof.
  intros ryu alpha fast std_parse k v Hok Hd.
  assert (E : print_custom ryu default_po v = print0 ryu v)
    by (unfold print_custom, print0, trace_custom, trace0; now rewrite PrinterProofs.custom_default_is_default).
  rewrite E, print0_is_txt. exact (roundtrip_from_trait ryu alpha fast std_parse k v Hok Hd).
Qed.
Print Assumptions C02_default_pairing_partial.

Definition c02_sample : value :=
  Cons (Symbol (s2b "setq"))
   (Cons (Keyword (s2b "key"))
    (Cons (Vector [Nil; Bool true; Bool false; Number (PosInt 42); Number (NegInt (-7)); Char 955; Char 40; Char 97;
                   String [34; 92; 7; 206; 187]; Bytes [0; 255]; Bytes []; Null])
     (Cons (Symbol (s2b "-")) (Symbol (s2b "nil"))))).
Example C02_nonvacuous :
  ert_ok c02_sample /\ (rdepth c02_sample <= 127)%nat /\
  print_custom (fun _ => []) elisp_po c02_sample = s2b "(setq :key [nil t nil 42 -7 ?\x3bb ?\( ?a ""\""\\\a" ++ [206; 187] ++ s2b """ ""\000\377"" """" ()] - . nil)" /\
  from_trait elisp_ro (fun _ => true) true dec_to_f64 SrcSlice (bytes_events (print_custom (fun _ => []) elisp_po c02_sample))
  = POk (efold c02_sample).
Proof.
  assert (H : ert_ok c02_sample /\ (rdepth c02_sample <= 127)%nat).
  { split; [|vm_compute; repeat constructor].
    unfold c02_sample. cbn [ert_ok]. unfold eplain_symbol, ScanProofs.symbol_ok, ScanProofs.no_terminator, CharStrProofs.octets_ok, u64_MAX, NumberOps.i64_min.
    repeat match goal with
           | |- _ /\ _ => split
           | |- Forall _ _ => repeat constructor
           | |- True => exact I
           end; try reflexivity; try lia; cbn;
      try (left; left; reflexivity);
      try (right; split; [right; reflexivity|]; exact I). }
  destruct H as [H1 H2]. split; [exact H1|]. split; [exact H2|]. split; [vm_compute; reflexivity|].
  exact (C02_elisp_roundtrip_partial (fun _ => []) (fun _ => true) true dec_to_f64 SrcSlice c02_sample H1 H2).
Qed.
