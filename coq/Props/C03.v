(* C03 -- parsing is total: value or error, never a panic; recursion bounded. *)
From Coq Require Import SpecFloat.
Require Import Base Value Float PrintOptions ParseOptions Reader Scan Num Parser DepthProofs DepthBoundProofs FuelProofs FloatFuel SourcesAgree RejectProofs.

(* Reader-level code (scanners, escapes, numbers, tokens, whitespace, byte
   vectors, end_seq/expect_end) cannot panic by construction: its error type
   [perr] has no panic constructor. The only panic sites of the model are the
   u8 arithmetic on remaining_depth; the theorems below show they are dead. *)

(* Every call of next_value / next_datum, from any state whose budget is in
   1..128, does not panic and returns the budget unchanged (unless the model
   itself ran out of fuel, see C03_total below). *)
Theorem C03_budget_restored : forall ro alpha fast std_parse fuel s, depth_ok s ->
  (no_panic (fst (next_value ro alpha fast std_parse fuel s)) /\
   (~ out_of_fuel_p (fst (next_value ro alpha fast std_parse fuel s)) ->
    depth (snd (next_value ro alpha fast std_parse fuel s)) = depth s)) /\
  (no_panic (fst (next_datum ro alpha fast std_parse fuel s)) /\
   (~ out_of_fuel_p (fst (next_datum ro alpha fast std_parse fuel s)) ->
    depth (snd (next_datum ro alpha fast std_parse fuel s)) = depth s)).
Proof.
  intros ro alpha fast std_parse fuel s H; split;
    [exact (proj1 (good_values ro alpha fast std_parse fuel) s H)
    |exact (proj1 (good_datums ro alpha fast std_parse fuel) s H)].
Qed.
Print Assumptions C03_budget_restored.

(* All histories of API calls on one parser (next_value, next_datum,
   expect_value, expect_datum, expect_end in any order, continuing after
   errors), from every source kind and input: no call panics. *)
Theorem C03_history : forall ro alpha fast std_parse fuel k inp cs,
  Forall (fun r => ~ call_fuel r) (run_history ro alpha fast std_parse fuel cs (init_state k inp)) ->
  Forall call_ok (run_history ro alpha fast std_parse fuel cs (init_state k inp)).
Proof.
  intros ro alpha fast std_parse fuel k inp cs.
  exact (history_no_panic ro alpha fast std_parse fuel cs (init_state k inp) (init_depth_ok k inp)).
Qed.
Print Assumptions C03_history.

(* The single-shot entry points. *)
Theorem C03_from_trait_no_panic : forall ro alpha fast std_parse k inp,
  no_panic (from_trait ro alpha fast std_parse k inp) /\
  no_panic (datum_from_trait ro alpha fast std_parse k inp).
Proof.
  intros ro alpha fast std_parse k inp. unfold from_trait, datum_from_trait. split.
  - apply (good_bind _ _ (good_expect_value ro alpha fast std_parse _)); [|apply init_depth_ok].
    intros v. apply good_bind; [apply good_liftR|intros; apply good_pret].
  - apply (good_bind _ _ (good_expect_datum ro alpha fast std_parse _)); [|apply init_depth_ok].
    intros v. apply good_bind; [apply good_liftR|intros; apply good_pret].
Qed.
Print Assumptions C03_from_trait_no_panic.

(* Totality. The model's loops run on fuel; fuel_for hands out 3*|input|+600
   units. For every option set, oracle, build, source kind and input - any
   bytes, any interleaving of Interrupted results and read failures - the
   entry points never report the model's own "out of fuel" outcome: every loop
   and every recursive call of the parser consumes at least one delivered event
   per unit of fuel it spends (the measure is the number of events left), and
   the one loop that consumes nothing, the scaling by 1e308 in f64_from_parts,
   stops after at most three rounds because a u64 divided twice by 1e308 is
   zero in binary64 (Flocq). Together with C03_from_trait_no_panic: the result
   is a value or an ordinary parse / I/O error. *)
Theorem C03_total : forall ro alpha fast std_parse k inp,
  (from_trait ro alpha fast std_parse k inp <> PErr (XErr EFuel) /\
   no_panic (from_trait ro alpha fast std_parse k inp)) /\
  (datum_from_trait ro alpha fast std_parse k inp <> PErr (XErr EFuel) /\
   no_panic (datum_from_trait ro alpha fast std_parse k inp)).
Proof.
  intros ro alpha fast std_parse k inp.
  destruct (total_from_trait ro alpha fast std_parse k inp) as [H1 H2].
  destruct (C03_from_trait_no_panic ro alpha fast std_parse k inp) as [H3 H4].
  exact (conj (conj H1 H3) (conj H2 H4)).
Qed.
Print Assumptions C03_total.

(* The same for every history of API calls on one parser (next_value,
   next_datum, expect_value, expect_datum, expect_end in any order, continuing
   after errors): no call runs out of fuel, hence (C03_history) none panics -
   the hypothesis of C03_history is discharged. *)
Theorem C03_history_total : forall ro alpha fast std_parse k inp cs,
  Forall (fun r => ~ call_fuel r) (run_history ro alpha fast std_parse (fuel_for inp) cs (init_state k inp)) /\
  Forall call_ok (run_history ro alpha fast std_parse (fuel_for inp) cs (init_state k inp)).
Proof.
  intros ro alpha fast std_parse k inp cs.
  pose proof (total_history ro alpha fast std_parse k inp cs) as H.
  exact (conj H (C03_history ro alpha fast std_parse (fuel_for inp) k inp cs H)).
Qed.
Print Assumptions C03_history_total.

(* The fuel is irrelevant once it suffices. One place of the model swallows the
   fuel error: the digit-initial arm under leading_digit_symbols re-parses the
   scanned symbol on a fresh reader and reads any failure of that re-parse,
   running out of fuel included, as "not a number". C03_total alone would not
   exclude a run that silently differs for lack of fuel there. This does: with
   ANY step budget of at least fuel_for's, the entry points return exactly what
   they return with fuel_for's, and at every call (from any state with at most
   n events left, budgets fi <= fs of at least 2n+3) next_value and next_datum
   return the same result and state - so no outcome of the model depends on
   how much fuel it was given beyond the bound (the re-parse has enough because
   a scanned symbol is no longer than the input it was scanned from). *)
Theorem C03_fuel_irrelevant : forall ro alpha fast std_parse fuel k inp, (fuel_for inp <= fuel)%nat ->
  from_trait_fuel ro alpha fast std_parse fuel k inp = from_trait ro alpha fast std_parse k inp /\
  datum_from_trait_fuel ro alpha fast std_parse fuel k inp = datum_from_trait ro alpha fast std_parse k inp.
Proof. exact from_trait_fuel_irrelevant. Qed.
Print Assumptions C03_fuel_irrelevant.

Theorem C03_fuel_irrelevant_every_call : forall ro alpha fast std_parse fi fs n s,
  (2 * n + 3 <= fi)%nat -> (fi <= fs)%nat -> (FuelProofs.rem (rd s) <= n)%nat ->
  next_value ro alpha fast std_parse fi s = next_value ro alpha fast std_parse fs s /\
  next_datum ro alpha fast std_parse fi s = next_datum ro alpha fast std_parse fs s.
Proof. exact every_call_fuel_irrelevant. Qed.
Print Assumptions C03_fuel_irrelevant_every_call.

(* Non-vacuity and the nesting limit on concrete inputs (default options, all
   three sources): 127 levels are accepted, 128 are rejected, for parentheses
   and for quote shorthands; the model does not run out of fuel on them. *)
(* Nothing nested more deeply than the budget is ever accepted. vdepth v is the
   nesting of v as the parser sees it (lists, vectors, quotations; a dotted
   tail that is a list counts as written flat; the empty list costs nothing).
   For every option set, input, source kind and fuel: a value returned by a
   call made with remaining budget D has vdepth < D and the budget is handed
   back; from the initial budget of 128 no accepted value nests more than 127
   levels. So input that nests more deeply - through parentheses, brackets,
   vectors, quote shorthands, dotted tails or any mixture - is never accepted;
   by C03_from_trait_no_panic it does not panic; the witnesses below show the
   error it gets and that 127 levels are accepted. *)
Theorem C03_depth_every_call : forall ro alpha fast std_parse fuel D s, depth s = D -> 1 <= D <= 128 ->
  match next_value ro alpha fast std_parse fuel s with
  | (POk (Some v), s') => N.of_nat (vdepth v) < D /\ depth s' = D
  | (POk None, s') => depth s' = D
  | (PErr _, _) => True
  end.
Proof.
  intros ro alpha fast std_parse fuel D s Hd HD.
  pose proof (proj1 (values_depth ro alpha fast std_parse fuel) D s Hd HD) as H.
  destruct (next_value ro alpha fast std_parse fuel s) as [[[v|]|e] s1]; try exact I; [exact H|apply H].
Qed.
Print Assumptions C03_depth_every_call.

Theorem C03_depth_bounded : forall ro alpha fast std_parse k inp v,
  from_trait ro alpha fast std_parse k inp = POk v -> (vdepth v <= 127)%nat.
Proof. exact from_trait_depth. Qed.
Print Assumptions C03_depth_bounded.

(* ... and what nests too deeply is rejected with RecursionLimitExceeded, not with
   some other error: any input that begins with 128 or more nesting openers -
   ( [ #( ' ` , ,@ in any mixture, under every option set (brackets as lists or
   as vectors) and from every source, whatever follows - makes the entry
   point return exactly that error; and at every call a run of D openers
   exhausts a budget of D and hands the budget back. The error raised at the
   innermost opener is the one reported because the recovery code of every
   enclosing form keeps the body's error. *)
Theorem C03_reject_code : forall ro alpha fast std_parse k (ops : list opener) (rest : bytes), (128 <= length ops)%nat ->
  exists l c, from_trait ro alpha fast std_parse k (bytes_events (otexts ops ++ rest)) =
              PErr (XErr (ESyntax RecursionLimitExceeded l c)).
Proof. exact over_deep_rejected. Qed.
Print Assumptions C03_reject_code.

Theorem C03_reject_code_every_call : forall ro alpha fast std_parse (ops : list opener) fuel r (rest : bytes),
  ops <> [] -> N.of_nat (length ops) <= 128 ->
  (2 * length ops + length (otexts ops ++ rest) + 3 <= fuel)%nat -> ReaderProofs.at_bytes r (otexts ops ++ rest) ->
  exists l c s', next_value ro alpha fast std_parse fuel (mk r (N.of_nat (length ops))) =
                   (PErr (XErr (ESyntax RecursionLimitExceeded l c)), s') /\ depth s' = N.of_nat (length ops).
Proof. exact openers_exhaust. Qed.
Print Assumptions C03_reject_code_every_call.

Definition parens (n : nat) : bytes := repeat 40 n ++ [120] ++ repeat 41 n.
Definition quotes (n : nat) : bytes := repeat 39 n ++ [120].
Definition is_ok {A} (r : pres A) : bool := match r with POk _ => true | _ => false end.
Definition is_limit {A} (r : pres A) : bool :=
  match r with PErr (XErr (ESyntax RecursionLimitExceeded _ _)) => true | _ => false end.

Example C03_limit_witness :
  forallb (fun k =>
    is_ok (from_trait default_ro (fun _ => true) true dec_to_f64 k (bytes_events (parens 127))) &&
    is_limit (from_trait default_ro (fun _ => true) true dec_to_f64 k (bytes_events (parens 128))) &&
    is_ok (from_trait default_ro (fun _ => true) true dec_to_f64 k (bytes_events (quotes 127))) &&
    is_limit (from_trait default_ro (fun _ => true) true dec_to_f64 k (bytes_events (quotes 128))) &&
    is_limit (datum_from_trait default_ro (fun _ => true) true dec_to_f64 k (bytes_events (quotes 128))))
    [SrcStr; SrcSlice; SrcIo] = true.
Proof. vm_compute. reflexivity. Qed.

(* the bound is tight: 127 nested lists are accepted and nest exactly 127 levels *)
Example C03_depth_tight :
  match from_trait default_ro (fun _ => true) true dec_to_f64 SrcSlice (bytes_events (parens 127)) with
  | POk v => vdepth v = 127%nat
  | PErr _ => False
  end.
Proof. vm_compute. reflexivity. Qed.
