(* C14 -- serialization produces the documented S-expression shapes. *)
From Coq Require Import SpecFloat.
Require Import Base Value Float NumberOps ListOps SerdeModel SerdeProofs.

(* unit -> (); None -> (); Some x -> (x); sequences -> proper lists; tuples ->
   vectors; maps and structs -> lists of entries; newtype -> content; bytes ->
   byte vector; char -> character; string -> string; bool -> boolean *)
Theorem C14_shapes : forall (is_f32 : f64 -> bool),
  ser is_f32 TyUnit DUnit = Some Null /\
  (forall t, ser is_f32 (TyOption t) DNone = Some Null) /\
  (forall t x, ser is_f32 (TyOption t) (DSome x) = option_map (fun v => vlist [v]) (ser is_f32 t x)) /\
  (forall t l, ser is_f32 (TySeq t) (DSeq l) = option_map value_list (ser_seq is_f32 t l)) /\
  (forall ts l, ser is_f32 (TyTuple ts) (DTuple l) = option_map Vector (ser_tuple is_f32 ts l)) /\
  (forall kt vt l, ser is_f32 (TyMap kt vt) (DMap l) = option_map value_list (ser_map is_f32 kt vt l)) /\
  (forall fs l, ser is_f32 (TyStruct fs) (DStruct l) = option_map value_list (ser_fields is_f32 fs l)) /\
  (forall t x, ser is_f32 (TyNewtype t) (DNewtype x) = ser is_f32 t x) /\
  (forall b, ser is_f32 TyByteBuf (DBytes b) = Some (Bytes b)) /\
  (forall c, ser is_f32 TyChar (DChar c) = Some (Char c)) /\
  (forall s, ser is_f32 TyString (DString s) = Some (String s)) /\
  (forall b, ser is_f32 TyBool (DBool b) = Some (Bool b)).
Proof. exact shapes. Qed.
Print Assumptions C14_shapes.

(* a serialized sequence is a proper list *)
Theorem C14_seq_proper : forall vs, ListOps.is_list (value_list vs) = true.
Proof. exact is_list_value_list. Qed.
Print Assumptions C14_seq_proper.

(* map entries are (key . value) cells; struct entries are (field-name-symbol . value) cells, in field order *)
Theorem C14_entries : forall (is_f32 : f64 -> bool),
  (forall kt vt l vs, ser_map is_f32 kt vt l = Some vs ->
     Forall2 (fun e kv => exists k v, ser is_f32 kt (fst kv) = Some k /\ ser is_f32 vt (snd kv) = Some v /\ e = Cons k v) vs l) /\
  (forall fs l vs, ser_fields is_f32 fs l = Some vs ->
     Forall2 (fun e f => exists v, e = Cons (Symbol (fst f)) v) vs fs).
Proof. intros is_f32; split; [exact (map_entries_shape is_f32)|exact (struct_entries_shape is_f32)]. Qed.
Print Assumptions C14_entries.

(* unit variant -> symbol; newtype variant -> (name . payload); tuple variant
   -> (name item...); struct variant -> (name (field . value)...) *)
Theorem C14_variants : forall (is_f32 : f64 -> bool) name,
  ser_variant is_f32 name VUnit PUnit = Some (Symbol name) /\
  (forall t x, ser_variant is_f32 name (VNewtype t) (PNewtype x) =
               option_map (fun v => Cons (Symbol name) v) (ser is_f32 t x)) /\
  (forall ts l, ser_variant is_f32 name (VTuple ts) (PTuple l) =
                option_map (fun vs => vlist (Symbol name :: vs)) (ser_tuple is_f32 ts l)) /\
  (forall fs l, ser_variant is_f32 name (VStruct fs) (PStruct l) =
                option_map (fun vs => vlist (Symbol name :: vs)) (ser_fields is_f32 fs l)).
Proof. exact variant_shapes. Qed.
Print Assumptions C14_variants.

(* every integer of every width is the integer of the same mathematical value *)
Theorem C14_int_value : forall s bits z, int_in_range s bits z = true -> (bits <= 64)%N ->
  NumberProofs.int_value (ser_int s bits z) = Some z.
Proof. exact int_value_ser. Qed.
Print Assumptions C14_int_value.

(* deserialization accepts a vector for a sequence and a proper list for a tuple *)
Theorem C14_accept_alt : forall (cast_f32 : f64 -> f64),
  (forall t vs, de cast_f32 (TySeq t) (Vector vs) = de cast_f32 (TySeq t) (value_list vs)) /\
  (forall ts vs, length vs = length ts -> vs <> [] ->
                 de cast_f32 (TyTuple ts) (value_list vs) = de cast_f32 (TyTuple ts) (Vector vs)).
Proof. exact accept_alternatives. Qed.
Print Assumptions C14_accept_alt.

(* ... and rejects improper lists and other kinds with a data error *)
Theorem C14_reject : forall (cast_f32 : f64 -> f64) t,
  (forall v, improper_or_wrong v -> de cast_f32 (TySeq t) v = SErr SData) /\
  (forall a xs tl, is_cons tl = false -> is_null tl = false -> improper_or_wrong (Cons a (build xs tl))).
Proof.
  intros cast_f32 t. split; [exact (reject_seq cast_f32 t)|].
  intros a xs tl Hc Hn. cbn [improper_or_wrong]. exists SData. now apply list_elems_improper.
Qed.
Print Assumptions C14_reject.

(* the same for tuples and tuple structs: every improper list, also one longer
   than the tuple, and every other kind is rejected *)
Theorem C14_reject_tuple : forall (cast_f32 : f64 -> f64) ts v,
  improper_or_wrong v -> de cast_f32 (TyTuple ts) v = SErr SData.
Proof. exact reject_tuple. Qed.
Print Assumptions C14_reject_tuple.
