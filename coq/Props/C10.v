(* C10 -- the location-tracking parse API agrees with the plain value API. *)
From Coq Require Import SpecFloat.
Require Import Base Value Float PrintOptions ParseOptions Reader Scan Num Parser ListOps DatumRef DatumProofs DatumRefProofs.

(* One call: next_datum yields a datum whose value is what next_value yields,
   fails with the same error, reaches end of input at the same point, and
   leaves the parser (reader position, pending byte, nesting budget) in the
   same state. For every input, option set, source kind and fuel. *)
Theorem C10_next : forall ro alpha fast std_parse fuel s,
  next_value ro alpha fast std_parse fuel s =
  pmap (option_map dvalue) (next_datum ro alpha fast std_parse fuel s).
Proof. intros ro alpha fast std_parse fuel s. exact (proj1 (agreement ro alpha fast std_parse fuel) s). Qed.
Print Assumptions C10_next.

(* Streams of datums: item for item the same values, the same failing item
   with the same error, the same end. *)
Theorem C10_streams : forall ro alpha fast std_parse fuel n s,
  iterate_values ro alpha fast std_parse fuel n s =
  map item_value (iterate_datums ro alpha fast std_parse fuel n s).
Proof. exact iterate_agree. Qed.
Print Assumptions C10_streams.

(* Single-shot entry points: lexpr::from_* vs lexpr::datum::from_*. *)
Theorem C10_from_trait : forall ro alpha fast std_parse k inp,
  from_trait ro alpha fast std_parse k inp =
  match datum_from_trait ro alpha fast std_parse k inp with
  | POk d => POk (dvalue d)
  | PErr e => PErr e
  end.
Proof. exact from_trait_agree. Qed.
Print Assumptions C10_from_trait.

(* ---- the accessors (datum.rs: Ref::list_iter / vector_iter / as_pair) ----
   shaped v i: the span information i has the shape of the value v (a cons
   chain for a cons chain, one entry per vector element, a leaf otherwise).
   Every datum the parser returns, for any input, option set and source, on
   any call of any history, is well shaped: *)
Theorem C10_datums_shaped : forall ro alpha fast std_parse fuel s d s',
  next_datum ro alpha fast std_parse fuel s = (POk (Some d), s') -> shaped (dvalue d) (dinfo d).
Proof. exact next_datum_shaped. Qed.
Print Assumptions C10_datums_shaped.

Theorem C10_from_trait_shaped : forall ro alpha fast std_parse k inp d,
  datum_from_trait ro alpha fast std_parse k inp = POk d -> shaped (dvalue d) (dinfo d).
Proof. exact datum_from_trait_shaped. Qed.
Print Assumptions C10_from_trait_shaped.

(* What the accessors do on a well-shaped reference r = (value, info):
   list_iter exists exactly when Value::list_iter does; any number of next()
   calls never panic ("badly shaped list span information" is unreachable) and
   yield, item for item including the None before an improper tail, the items
   of the value's iterator; vector_iter yields every element; as_pair never
   panics and returns the value's car and cdr; every reference handed out is
   again well shaped. *)
Definition accessors_agree (r : dref) : Prop :=
  (match ref_list_iter r, value_list_iter (fst r) with
   | Some c, Some vc =>
       forall n, exists items, ref_drain n c = Val items /\ map (option_map fst) items = drain n vc /\
                               Forall (fun o => match o with Some r' => shaped (fst r') (snd r') | None => True end) items
   | None, None => True
   | _, _ => False
   end) /\
  (match ref_vector_iter r, fst r with
   | Some items, Vector els => map fst items = els /\ length items = length els /\
                               Forall (fun r' => shaped (fst r') (snd r')) items
   | None, Vector _ => False
   | Some _, _ => False
   | None, _ => True
   end) /\
  (match ref_as_pair r, fst r with
   | Val (Some (ra, rd)), Cons a d => fst ra = a /\ fst rd = d /\ shaped (fst ra) (snd ra) /\ shaped (fst rd) (snd rd)
   | Val None, Cons _ _ => False
   | Val None, _ => True
   | Val (Some _), _ => False
   | Panic, _ => False
   end).

Theorem C10_accessors : forall r, shaped (fst r) (snd r) -> accessors_agree r.
Proof.
  intros r Hr. split; [|split].
  - pose proof (ref_list_iter_agrees r Hr) as H.
    destruct (ref_list_iter r) as [c|]; destruct (value_list_iter (fst r)) as [vc|]; try exact H.
    destruct H as [<- Hc]. intros n. exact (ref_drain_agrees n c Hc).
  - exact (ref_vector_iter_agrees r Hr).
  - exact (ref_as_pair_agrees r Hr).
Qed.
Print Assumptions C10_accessors.

(* ... hence on every reference reachable from a parsed datum through any
   sequence of accessor calls *)
Theorem C10_accessors_everywhere : forall ro alpha fast std_parse k inp d r,
  datum_from_trait ro alpha fast std_parse k inp = POk d -> reach (datum_ref d) r -> accessors_agree r.
Proof.
  intros ro alpha fast std_parse k inp d r E Hreach. apply C10_accessors.
  apply (reach_shaped (datum_ref d) r Hreach). exact (datum_from_trait_shaped ro alpha fast std_parse k inp d E).
Qed.
Print Assumptions C10_accessors_everywhere.

(* (a 'b . #(1 "x")): iterating the top list gives a, (quote b), None, then the vector *)
Example C10_accessors_nonvacuous :
  match datum_from_trait default_ro (fun _ => true) true dec_to_f64 SrcStr (bytes_events (s2b "(a 'b . #(1 ""x""))")) with
  | POk d =>
      match ref_list_iter (datum_ref d) with
      | Some c =>
          match ref_drain 5 c with
          | Val items => map (option_map fst) items =
                         [Some (Symbol (s2b "a")); Some (vlist [Symbol (s2b "quote"); Symbol (s2b "b")]); None;
                          Some (Vector [Number (PosInt 1); String (s2b "x")]); None]
          | Panic => False
          end
      | None => False
      end
  | PErr _ => False
  end.
Proof. vm_compute. reflexivity. Qed.

Example C10_nonvacuous :
  let inp := bytes_events (s2b "(a 'b . #(1 ""x"")) [c] oops )") in
  let s := init_state SrcIo inp in
  length (iterate_datums default_ro (fun _ => true) true dec_to_f64 (fuel_for inp) 10 s) = 4%nat /\
  map item_value (iterate_datums default_ro (fun _ => true) true dec_to_f64 (fuel_for inp) 10 s) =
  iterate_values default_ro (fun _ => true) true dec_to_f64 (fuel_for inp) 10 s.
Proof. vm_compute. split; reflexivity. Qed.
