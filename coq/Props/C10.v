(* C10 -- the location-tracking parse API agrees with the plain value API. *)
From Coq Require Import SpecFloat.
Require Import Base Value Float PrintOptions ParseOptions Reader Scan Num Parser DatumProofs.

(* One call: next_datum yields a datum whose value is what next_value yields,
   fails with the same error, reaches end of input at the same point, and
   leaves the parser (reader position, pending byte, nesting budget) in the
   same state. For every input, option set, source kind and fuel. *)
Theorem C10_next : forall ro alpha fast std_parse fuel s,
  next_value ro alpha fast std_parse fuel s =
  pmap (option_map dvalue) (next_datum ro alpha fast std_parse fuel s).
Proof. intros ro alpha fast std_parse fuel s. exact (proj1 (agreement ro alpha fast std_parse fuel) s). Qed.
Print Assumptions C10_next.

(* Streams of datums: item for item the same values, the same failing item
   with the same error, the same end. *)
Theorem C10_streams : forall ro alpha fast std_parse fuel n s,
  iterate_values ro alpha fast std_parse fuel n s =
  map item_value (iterate_datums ro alpha fast std_parse fuel n s).
Proof. exact iterate_agree. Qed.
Print Assumptions C10_streams.

(* Single-shot entry points: lexpr::from_* vs lexpr::datum::from_*. *)
Theorem C10_from_trait : forall ro alpha fast std_parse k inp,
  from_trait ro alpha fast std_parse k inp =
  match datum_from_trait ro alpha fast std_parse k inp with
  | POk d => POk (dvalue d)
  | PErr e => PErr e
  end.
Proof. exact from_trait_agree. Qed.
Print Assumptions C10_from_trait.

Example C10_nonvacuous :
  let inp := bytes_events (s2b "(a 'b . #(1 ""x"")) [c] oops )") in
  let s := init_state SrcIo inp in
  length (iterate_datums default_ro (fun _ => true) true dec_to_f64 (fuel_for inp) 10 s) = 4%nat /\
  map item_value (iterate_datums default_ro (fun _ => true) true dec_to_f64 (fuel_for inp) 10 s) =
  iterate_values default_ro (fun _ => true) true dec_to_f64 (fuel_for inp) 10 s.
Proof. vm_compute. split; reflexivity. Qed.
