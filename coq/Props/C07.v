(* C07 -- every output sink receives exactly the printed text; write errors surface. *)
Require Import Base Value PrintOptions Printer Sink PrinterProofs SinkProofs.

(* Every byte the printer emits, with either formatter, goes through write_all. *)
Theorem C07_all_write_all : forall (ryu : f64 -> bytes) (po : print_options) (v : value),
  all_wall (trace_custom ryu po v) /\ all_wall (trace0 ryu v).
Proof.
  intros ryu po v; split;
    [exact (all_wall_print _ (wf_custom ryu po) v) | exact (all_wall_print _ (wf_default ryu) v)].
Qed.
Print Assumptions C07_all_write_all.

(* A trace of write_all calls reaches any short-writing / failing sink intact:
   the delivered bytes are a prefix of the text; Ok means everything arrived;
   a sink that fails or stops accepting before the end makes the call fail
   with exactly the first [lim] bytes delivered; otherwise the call succeeds. *)
Theorem C07_sink : forall (s : sched) (t : trace), all_wall t ->
  let '(r, d) := run_sink s [] t in
  (exists rest, flatten t = d ++ rest) /\
  (r = WOk -> d = flatten t) /\
  (forall lim, limit s = Some lim -> (lim < N.of_nat (length (flatten t)))%N ->
     r = (if hard s then WErrHard else WErrZero) /\ d = firstn (N.to_nat lim) (flatten t)) /\
  ((limit s = None \/ exists lim, limit s = Some lim /\ (N.of_nat (length (flatten t)) <= lim)%N) ->
     r = WOk /\ d = flatten t).
Proof. exact sink_delivery. Qed.
Print Assumptions C07_sink.

(* The two combined: printing to a sink. *)
Theorem C07_print_to_sink : forall (ryu : f64 -> bytes) (po : print_options) (v : value) (s : sched),
  let '(r, d) := run_sink s [] (trace_custom ryu po v) in
  (exists rest, print_custom ryu po v = d ++ rest) /\
  (r = WOk -> d = print_custom ryu po v) /\
  (forall lim, limit s = Some lim -> (lim < N.of_nat (length (print_custom ryu po v)))%N ->
     r <> WOk /\ d = firstn (N.to_nat lim) (print_custom ryu po v)).
Proof.
  intros ryu po v s.
  pose proof (sink_delivery s (trace_custom ryu po v) (all_wall_print _ (wf_custom ryu po) v)) as H.
  destruct (run_sink s [] (trace_custom ryu po v)) as [r d].
  destruct H as (H1 & H2 & H3 & _). repeat split; auto.
  - destruct (H3 lim H H0) as [Hr _]. rewrite Hr. destruct (hard s); discriminate.
  - now destruct (H3 lim H H0).
Qed.
Print Assumptions C07_print_to_sink.

(* The default printer and the customised printer with default options emit
   the same trace, hence the same bytes. *)
Theorem C07_default_eq_custom : forall (ryu : f64 -> bytes) (v : value),
  trace0 ryu v = trace_custom ryu default_po v.
Proof. intros ryu v; unfold trace0, trace_custom; now rewrite custom_default_is_default. Qed.
Print Assumptions C07_default_eq_custom.

(* Non-vacuity: a concrete trace with several chunks and a sink that fails
   mid-chunk. *)
Example C07_nonvacuous :
  run_sink {| cap := 2; limit := Some 5; hard := false |} []
           (trace0 (fun _ => []) (Cons (Number (PosInt 1234567)) (Symbol (s2b "ab"))))
  = (WErrZero, s2b "(1234").
Proof. vm_compute. reflexivity. Qed.
