(* C06 -- read errors surface; the three sources agree (proved part).
   For every option set, input event stream (bytes, Interrupted results, hard
   failures in any order) and fuel: a hard failure met by the reader is
   returned as that I/O error and is never end of input; Interrupted results
   are retried without effect; reader-level code (scanners, numbers, tokens)
   that consumed a failure returns exactly that I/O error; and no parser call
   that consumed a failure returns a value. Agreement of &str, &[u8] and
   io::Read input is proved on the printed text of every value covered by
   C01; for arbitrary input (error cases included) and for the split of the
   stream into read calls it is decided by the correspondence and the oracle
   only (theorems.json). *)
From Coq Require Import SpecFloat.
Require Import Base Value Float PrintOptions Printer ParseOptions Utf8 Reader Scan Num NumberOps Parser.
Require Import RelFramework IoProofs RoundtripProofs TextProofs.
Local Open Scope nat_scope.

Theorem C06_failure_is_error : forall r e l, rpending r = false -> skip_intr (rinput r) = EFail e :: l ->
  (exists r', r_next r = (Err (EIo e), r')) /\ (exists r', r_peek r = (Err (EIo e), r')).
Proof. intros r e l Hp Hs. split; [eapply next_fail|eapply peek_fail]; eassumption. Qed.
Print Assumptions C06_failure_is_error.

Theorem C06_eof_is_real : forall r r', rpending r = false -> r_next r = (Ok None, r') -> skip_intr (rinput r) = [].
Proof.
  intros r r' Hp H. destruct (next_eof_real r r' Hp H) as [E|[l E]]; [exact E|].
  exfalso. eapply skip_intr_no_intr; exact E.
Qed.
Print Assumptions C06_eof_is_real.

Theorem C06_interrupted_retried : forall r, rpending r = false ->
  r_next {| rk := rk r; rline := rline r; rcol := rcol r; rpending := false; rinput := EInterrupted :: rinput r |} = r_next r.
Proof. exact interrupted_invisible_next. Qed.
Print Assumptions C06_interrupted_retried.

Theorem C06_token_io_error : forall ro alpha fast std_parse fuel b r,
  let '(x, r') := parse_token ro alpha fast std_parse fuel b r in
  nf r' <= nf r /\ (nf r' < nf r -> exists io, x = Err (EIo io)).
Proof. exact token_io_error. Qed.
Print Assumptions C06_token_io_error.

Theorem C06_no_swallow_value : forall ro alpha fast std_parse fuel s,
  let '(x, s') := next_value ro alpha fast std_parse fuel s in
  nf (rd s') <= nf (rd s) /\ (nf (rd s') < nf (rd s) -> exists e, x = PErr e).
Proof. exact next_value_no_swallow. Qed.
Print Assumptions C06_no_swallow_value.

Theorem C06_no_swallow_datum : forall ro alpha fast std_parse fuel s,
  let '(x, s') := next_datum ro alpha fast std_parse fuel s in
  nf (rd s') <= nf (rd s) /\ (nf (rd s') < nf (rd s) -> exists e, x = PErr e).
Proof. exact next_datum_no_swallow. Qed.
Print Assumptions C06_no_swallow_datum.

(* the three sources give the same result on everything C01 covers *)
Theorem C06_sources_agree_partial : forall ryu alpha fast std_parse k1 k2 v,
  rt_ok alpha v -> rdepth v <= 127 ->
  from_trait default_ro alpha fast std_parse k1 (bytes_events (print0 ryu v)) =
  from_trait default_ro alpha fast std_parse k2 (bytes_events (print0 ryu v)).
Proof.
  intros ryu alpha fast std_parse k1 k2 v Hok Hd. rewrite print0_is_txt.
  rewrite (roundtrip_from_trait ryu alpha fast std_parse k1 v Hok Hd).
  rewrite (roundtrip_from_trait ryu alpha fast std_parse k2 v Hok Hd). reflexivity.
Qed.
Print Assumptions C06_sources_agree_partial.

(* a failure in the middle of a token, of a list, after an interrupt *)
Example C06_nonvacuous :
  let run inp := from_trait default_ro (fun _ => true) true dec_to_f64 SrcIo inp in
  run [EByte 40%N; EByte 97%N; EFail 5%N; EByte 41%N] = PErr (XErr (EIo 5%N)) /\
  run [EByte 40%N; EInterrupted; EByte 97%N; EInterrupted; EInterrupted; EByte 41%N] = POk (vlist [Symbol [97%N]]) /\
  run [EByte 34%N; EByte 97%N; EInterrupted; EFail 7%N] = PErr (XErr (EIo 7%N)) /\
  run [EByte 49%N; EByte 50%N; EFail 9%N] = PErr (XErr (EIo 9%N)).
Proof. vm_compute. repeat split; reflexivity. Qed.
