(* C06 -- read errors surface; the three sources agree (proved part).
   For every option set, input event stream (bytes, Interrupted results, hard
   failures in any order) and fuel: a hard failure met by the reader is
   returned as that I/O error and is never end of input; Interrupted results
   are retried without effect, and interleaved anywhere in a stream they are
   invisible to the whole parser - same values, same errors at the same
   positions, same end (C06_interrupts_invisible, by a two-run traversal of
   the parser); reader-level code (scanners, numbers, tokens)
   that consumed a failure returns exactly that I/O error; and no parser call
   that consumed a failure returns a value. Agreement of &str, &[u8] and
   io::Read input is proved on the printed text of every value covered by
   C01; for arbitrary input (error cases included) and for the split of the
   stream into read calls it is decided by the correspondence and the oracle
   only (theorems.json). *)
From Coq Require Import SpecFloat.
Require Import Base Value Float PrintOptions Printer ParseOptions Utf8 Reader Scan Num NumberOps Parser.
Require Import RelFramework IoProofs RoundtripProofs TextProofs SimFramework InterruptProofs CrossProofs SourcesAgree StrSliceProofs Utf8StrProofs ValidTextProofs.
Require IoFailProofs.
Local Open Scope nat_scope.

Theorem C06_failure_is_error : forall r e l, rpending r = false -> skip_intr (rinput r) = EFail e :: l ->
  (exists r', r_next r = (Err (EIo e), r')) /\ (exists r', r_peek r = (Err (EIo e), r')).
Proof. intros r e l Hp Hs. split; [eapply next_fail|eapply peek_fail]; eassumption. Qed.
Print Assumptions C06_failure_is_error.

Theorem C06_eof_is_real : forall r r', rpending r = false -> r_next r = (Ok None, r') -> skip_intr (rinput r) = [].
Proof.
  intros r r' Hp H. destruct (next_eof_real r r' Hp H) as [E|[l E]]; [exact E|].
  exfalso. eapply skip_intr_no_intr; exact E.
Qed.
Print Assumptions C06_eof_is_real.

Theorem C06_interrupted_retried : forall r, rpending r = false ->
  r_next {| rk := rk r; rline := rline r; rcol := rcol r; rpending := false; rinput := EInterrupted :: rinput r |} = r_next r.
Proof. exact interrupted_invisible_next. Qed.
Print Assumptions C06_interrupted_retried.

Theorem C06_token_io_error : forall ro alpha fast std_parse fuel b r,
  let '(x, r') := parse_token ro alpha fast std_parse fuel b r in
  nf r' <= nf r /\ (nf r' < nf r -> exists io, x = Err (EIo io)).
Proof. exact token_io_error. Qed.
Print Assumptions C06_token_io_error.

Theorem C06_no_swallow_value : forall ro alpha fast std_parse fuel s,
  let '(x, s') := next_value ro alpha fast std_parse fuel s in
  nf (rd s') <= nf (rd s) /\ (nf (rd s') < nf (rd s) -> exists e, x = PErr e).
Proof. exact next_value_no_swallow. Qed.
Print Assumptions C06_no_swallow_value.

Theorem C06_no_swallow_datum : forall ro alpha fast std_parse fuel s,
  let '(x, s') := next_datum ro alpha fast std_parse fuel s in
  nf (rd s') <= nf (rd s) /\ (nf (rd s') < nf (rd s) -> exists e, x = PErr e).
Proof. exact next_datum_no_swallow. Qed.
Print Assumptions C06_no_swallow_datum.

(* the three sources give the same result on everything C01 covers *)
Theorem C06_sources_agree_partial : forall ryu alpha fast std_parse k1 k2 v,
  rt_ok alpha v -> rdepth v <= 127 ->
  from_trait default_ro alpha fast std_parse k1 (bytes_events (print0 ryu v)) =
  from_trait default_ro alpha fast std_parse k2 (bytes_events (print0 ryu v)).
Proof.
  intros ryu alpha fast std_parse k1 k2 v Hok Hd. rewrite print0_is_txt.
  rewrite (roundtrip_from_trait ryu alpha fast std_parse k1 v Hok Hd).
  rewrite (roundtrip_from_trait ryu alpha fast std_parse k2 v Hok Hd). reflexivity.
Qed.
Print Assumptions C06_sources_agree_partial.

(* A byte slice and an io::Read stream of the same bytes are read alike: for
   every option set, oracle, build and byte string - well-formed or not, valid
   UTF-8 or not - from_slice and from_reader return the same value, or errors
   with the same code (hence the same category and kind; the position attached
   to an error may differ when the error is raised on a byte that was read but
   not peeked). SliceRead and IoRead differ in their symbol and string scanners
   (bulk scans over the slice against a byte-at-a-time loop), in discard (the
   stream only drops a byte it has peeked) and in peek_position; the proof runs
   every function of the parser on both readers side by side, with discards
   justified by the pending byte and the scanner pairs related by induction on
   the input. *)
Theorem C06_slice_stream_agree : forall ro alpha fast std_parse (s : bytes),
  match from_trait ro alpha fast std_parse SrcSlice (bytes_events s), from_trait ro alpha fast std_parse SrcIo (bytes_events s) with
  | POk a, POk b => a = b
  | PErr (XErr (ESyntax c1 _ _)), PErr (XErr (ESyntax c2 _ _)) => c1 = c2
  | PErr (XErr (EIo a)), PErr (XErr (EIo b)) => a = b
  | _, _ => False
  end.
Proof. exact slice_stream_agree. Qed.
Print Assumptions C06_slice_stream_agree.

(* The same at every call: from a slice reader and a stream reader standing at
   the same place of the same bytes, next_value returns the same item (or errors
   with the same code) and leaves the readers at the same place again - unless
   the stream run exhausts the fuel it was given - so the statement chains over
   iterations and call histories. *)
Theorem C06_slice_stream_every_call : forall ro alpha fast std_parse fuel s1 s2, prel s1 s2 ->
  fst (next_value ro alpha fast std_parse fuel s2) = PErr (XErr EFuel) \/
  (rpres eq (fst (next_value ro alpha fast std_parse fuel s1)) (fst (next_value ro alpha fast std_parse fuel s2)) /\
   prel (snd (next_value ro alpha fast std_parse fuel s1)) (snd (next_value ro alpha fast std_parse fuel s2))).
Proof. intros ro alpha fast std_parse fuel. exact (proj1 (cross_values ro alpha fast std_parse fuel)). Qed.
Print Assumptions C06_slice_stream_every_call.

(* ... and a stream that interleaves Interrupted results anywhere among those
   bytes (strip removes them) still reads like the slice: the interrupts are
   invisible (C06_interrupts_invisible), the larger step budget the longer
   event list gets is irrelevant (C03_fuel_irrelevant), and the bytes read
   alike (C06_slice_stream_agree). *)
Theorem C06_slice_stream_interrupts_agree : forall ro alpha fast std_parse (s : bytes) (inp : list event),
  strip inp = bytes_events s ->
  match from_trait ro alpha fast std_parse SrcSlice (bytes_events s), from_trait ro alpha fast std_parse SrcIo inp with
  | POk a, POk b => a = b
  | PErr (XErr (ESyntax c1 _ _)), PErr (XErr (ESyntax c2 _ _)) => c1 = c2
  | PErr (XErr (EIo a)), PErr (XErr (EIo b)) => a = b
  | _, _ => False
  end.
Proof. exact slice_stream_interrupts_agree. Qed.
Print Assumptions C06_slice_stream_interrupts_agree.

Example C06_slice_stream_nonvacuous :
  let bad : bytes := [40; 97; 32; 255; 41]%N in       (* "(a \xFF)": not UTF-8 *)
  from_trait default_ro (fun _ => true) true dec_to_f64 SrcSlice (bytes_events bad) =
    PErr (XErr (ESyntax InvalidUnicodeCodePoint 1 4)) /\
  from_trait default_ro (fun _ => true) true dec_to_f64 SrcIo (bytes_events bad) =
    PErr (XErr (ESyntax InvalidUnicodeCodePoint 1 4)) /\
  prel (init_state SrcSlice (bytes_events bad)) (init_state SrcIo (bytes_events bad)).
Proof. cbv zeta. split; [vm_compute; reflexivity|]. split; [vm_compute; reflexivity|]. apply init_prel. Qed.

(* a failure in the middle of a token, of a list, after an interrupt *)
(* Interrupted results anywhere in the stream: strip removes them; two streams
   with the same strip are read alike by every call (the relation iprel is kept,
   so the statement chains over call histories), by a whole iteration and by
   the single-shot entry point. The step budget is the same on both sides;
   from_trait k inp is from_trait_with (fuel_for inp) k inp. *)
Theorem C06_interrupts_invisible_call : forall ro alpha fast std_parse fuel s1 s2, iprel s1 s2 ->
  fst (next_value ro alpha fast std_parse fuel s1) = fst (next_value ro alpha fast std_parse fuel s2) /\
  iprel (snd (next_value ro alpha fast std_parse fuel s1)) (snd (next_value ro alpha fast std_parse fuel s2)).
Proof. exact next_value_interrupts. Qed.
Print Assumptions C06_interrupts_invisible_call.

Theorem C06_interrupts_invisible_datum_call : forall ro alpha fast std_parse fuel s1 s2, iprel s1 s2 ->
  fst (next_datum ro alpha fast std_parse fuel s1) = fst (next_datum ro alpha fast std_parse fuel s2) /\
  iprel (snd (next_datum ro alpha fast std_parse fuel s1)) (snd (next_datum ro alpha fast std_parse fuel s2)).
Proof. exact next_datum_interrupts. Qed.
Print Assumptions C06_interrupts_invisible_datum_call.

Theorem C06_interrupts_invisible : forall ro alpha fast std_parse fuel inp1 inp2, strip inp1 = strip inp2 ->
  from_trait_with ro alpha fast std_parse fuel SrcIo inp1 = from_trait_with ro alpha fast std_parse fuel SrcIo inp2 /\
  forall n, iterate_values ro alpha fast std_parse fuel n (init_state SrcIo inp1) =
            iterate_values ro alpha fast std_parse fuel n (init_state SrcIo inp2).
Proof.
  intros ro alpha fast std_parse fuel inp1 inp2 H. split; [apply from_trait_interrupts; exact H|].
  intros n. apply iterate_values_interrupts. apply init_related. exact H.
Qed.
Print Assumptions C06_interrupts_invisible.

Example C06_interrupts_nonvacuous :
  let a := [EInterrupted; EByte 40; EInterrupted; EInterrupted; EByte 97; EByte 32; EInterrupted; EByte 34; EByte 120; EInterrupted; EByte 34; EByte 41; EInterrupted] in
  let b := bytes_events (s2b "(a ""x"")") in
  strip a = strip b /\
  from_trait default_ro (fun _ => true) true dec_to_f64 SrcIo a = POk (vlist [Symbol (s2b "a"); String (s2b "x")]) /\
  from_trait default_ro (fun _ => true) true dec_to_f64 SrcIo b = POk (vlist [Symbol (s2b "a"); String (s2b "x")]).
Proof. cbv zeta. split; [reflexivity|]. split; vm_compute; reflexivity. Qed.

Example C06_nonvacuous :
  let run inp := from_trait default_ro (fun _ => true) true dec_to_f64 SrcIo inp in
  run [EByte 40%N; EByte 97%N; EFail 5%N; EByte 41%N] = PErr (XErr (EIo 5%N)) /\
  run [EByte 40%N; EInterrupted; EByte 97%N; EInterrupted; EInterrupted; EByte 41%N] = POk (vlist [Symbol [97%N]]) /\
  run [EByte 34%N; EByte 97%N; EInterrupted; EFail 7%N] = PErr (XErr (EIo 7%N)) /\
  run [EByte 49%N; EByte 50%N; EFail 9%N] = PErr (XErr (EIo 9%N)).
Proof. vm_compute. repeat split; reflexivity. Qed.

(* A &str against the byte slice of the same bytes, for ANY bytes and events:
   the two readers run the same code except that the slice reader validates the
   UTF-8 of scanned symbols and strings; so either the slice parse answers
   InvalidUnicodeCodePoint, or the str parse returns exactly what the slice
   parse returns - value, error code, position. *)
Theorem C06_str_slice_agree : forall ro alpha fast std_parse (inp : list event),
  (exists l c, from_trait ro alpha fast std_parse SrcSlice inp = PErr (XErr (ESyntax InvalidUnicodeCodePoint l c))) \/
  from_trait ro alpha fast std_parse SrcStr inp = from_trait ro alpha fast std_parse SrcSlice inp.
Proof. exact str_slice_agree. Qed.
Print Assumptions C06_str_slice_agree.

Theorem C06_str_slice_agree_datum : forall ro alpha fast std_parse (inp : list event),
  (exists l c, datum_from_trait ro alpha fast std_parse SrcSlice inp = PErr (XErr (ESyntax InvalidUnicodeCodePoint l c))) \/
  datum_from_trait ro alpha fast std_parse SrcStr inp = datum_from_trait ro alpha fast std_parse SrcSlice inp.
Proof. exact str_slice_agree_datum. Qed.
Print Assumptions C06_str_slice_agree_datum.

(* all three sources on plain bytes *)
Theorem C06_three_sources_agree : forall ro alpha fast std_parse (s : bytes),
  (exists l c, from_trait ro alpha fast std_parse SrcSlice (bytes_events s) = PErr (XErr (ESyntax InvalidUnicodeCodePoint l c))) \/
  (from_trait ro alpha fast std_parse SrcStr (bytes_events s) = from_trait ro alpha fast std_parse SrcSlice (bytes_events s) /\
   match from_trait ro alpha fast std_parse SrcSlice (bytes_events s), from_trait ro alpha fast std_parse SrcIo (bytes_events s) with
   | POk a, POk b => a = b
   | PErr (XErr (ESyntax c1 _ _)), PErr (XErr (ESyntax c2 _ _)) => c1 = c2
   | PErr (XErr (EIo a)), PErr (XErr (EIo b)) => a = b
   | _, _ => False
   end).
Proof.
  intros ro alpha fast std_parse s. destruct (str_slice_agree ro alpha fast std_parse (bytes_events s)) as [R|H]; [left; exact R|].
  right. split; [exact H|]. apply slice_stream_agree.
Qed.
Print Assumptions C06_three_sources_agree.

(* both cases occur: a non-ASCII text read alike, an error alike at the same
   position, and ill-formed bytes on which the slice answers the rejection
   (a str can never hold them) *)
Example C06_str_slice_nonvacuous :
  let W : bytes := (s2b "(" ++ [206; 187] ++ s2b "x #:k ""a\x3bb;" ++ [240; 159; 146; 150] ++ s2b "\n"")")%N in
  let E : bytes := (s2b "(a " ++ [206; 187] ++ s2b " . )")%N in
  let bad : bytes := [40; 97; 32; 255; 41]%N in
  from_trait default_ro (fun _ => true) true dec_to_f64 SrcStr (bytes_events W) =
    POk (vlist [Symbol [206; 187; 120]%N; Keyword (s2b "k"); String ([97; 206; 187; 240; 159; 146; 150; 10]%N)]) /\
  from_trait default_ro (fun _ => true) true dec_to_f64 SrcSlice (bytes_events W) =
    POk (vlist [Symbol [206; 187; 120]%N; Keyword (s2b "k"); String ([97; 206; 187; 240; 159; 146; 150; 10]%N)]) /\
  from_trait default_ro (fun _ => true) true dec_to_f64 SrcStr (bytes_events E) =
    from_trait default_ro (fun _ => true) true dec_to_f64 SrcSlice (bytes_events E) /\
  (exists c l cl, from_trait default_ro (fun _ => true) true dec_to_f64 SrcSlice (bytes_events E) = PErr (XErr (ESyntax c l cl))) /\
  from_trait default_ro (fun _ => true) true dec_to_f64 SrcSlice (bytes_events bad) =
    PErr (XErr (ESyntax InvalidUnicodeCodePoint 1 4)).
Proof.
  cbv zeta. split; [vm_compute; reflexivity|]. split; [vm_compute; reflexivity|]. split; [vm_compute; reflexivity|].
  split; [|vm_compute; reflexivity]. eexists; eexists; eexists. vm_compute. reflexivity.
Qed.

(* On a well-formed UTF-8 text - every str is one - the exception never arises:
   from_str and from_slice return exactly the same result, value or error with
   its position, for every option set and build, through the value API and the
   datum API. The str reader is shown to stand inside the text at a character
   boundary wherever a symbol or string is scanned (the reader-state logic of
   C17), so the bytes handed to the validation that SliceRead performs and
   StrRead skips are always well-formed (coq/Proofs/ValidTextProofs.v). *)
Theorem C06_str_slice_agree_on_text : forall W, utf8_valid W = true -> forall ro alpha fast std_parse,
  from_trait ro alpha fast std_parse SrcStr (bytes_events W) = from_trait ro alpha fast std_parse SrcSlice (bytes_events W) /\
  datum_from_trait ro alpha fast std_parse SrcStr (bytes_events W) = datum_from_trait ro alpha fast std_parse SrcSlice (bytes_events W).
Proof. exact valid_text_agree. Qed.
Print Assumptions C06_str_slice_agree_on_text.

(* ... and at every call: a str parser standing anywhere inside such a text
   (okr W) and a slice parser at the same place (sprel) return the same item
   and stay at the same place, so the statement chains over iterations *)
Theorem C06_str_slice_every_call_on_text : forall W, utf8_valid W = true -> forall ro alpha fast std_parse fuel s1 s2,
  sprel s1 s2 -> okr W (rd s1) ->
  fst (next_value ro alpha fast std_parse fuel s1) = fst (next_value ro alpha fast std_parse fuel s2) /\
  sprel (snd (next_value ro alpha fast std_parse fuel s1)) (snd (next_value ro alpha fast std_parse fuel s2)).
Proof.
  intros W HW ro alpha fast std_parse fuel s1 s2 Hs Ho.
  exact (proj1 (twin_values W HW ro alpha fast std_parse fuel) s1 s2 Hs Ho I).
Qed.
Print Assumptions C06_str_slice_every_call_on_text.

(* the three sources on a well-formed text *)
Theorem C06_three_sources_agree_on_text : forall W, utf8_valid W = true -> forall ro alpha fast std_parse,
  from_trait ro alpha fast std_parse SrcStr (bytes_events W) = from_trait ro alpha fast std_parse SrcSlice (bytes_events W) /\
  match from_trait ro alpha fast std_parse SrcSlice (bytes_events W), from_trait ro alpha fast std_parse SrcIo (bytes_events W) with
  | POk a, POk b => a = b
  | PErr (XErr (ESyntax c1 _ _)), PErr (XErr (ESyntax c2 _ _)) => c1 = c2
  | PErr (XErr (EIo a)), PErr (XErr (EIo b)) => a = b
  | _, _ => False
  end.
Proof.
  intros W HW ro alpha fast std_parse. split; [exact (proj1 (valid_text_agree W HW ro alpha fast std_parse))|apply slice_stream_agree].
Qed.
Print Assumptions C06_three_sources_agree_on_text.

(* The error is the I/O error whenever the delivered prefix does not determine
   the outcome. A stream delivers the events pre (bytes, Interrupted results,
   earlier failures) and then fails with e, whatever would follow. Then
   from_reader returns that I/O error - or it returns exactly what it returns
   on pre followed by ANY other continuation: bytes, the end of the input,
   another failure. In the second case the prefix alone determines the result
   (a syntax error already met, or a complete datum followed by a failure that
   only the trailing-input check could meet... which it reports: that is the
   first case). By reading the two streams side by side (IoFailProofs.v): every
   function of the parser either ends in the I/O error on the failing stream
   or returns the same on both with the readers still inside the prefix; an
   error raised inside a nested form wins over whatever the cleanup reads. *)
Theorem C06_io_error_or_determined : forall ro alpha fast std_parse (pre post cont : list event) (e : N),
  from_trait ro alpha fast std_parse SrcIo (pre ++ EFail e :: post) = PErr (XErr (EIo e)) \/
  from_trait ro alpha fast std_parse SrcIo (pre ++ cont) = from_trait ro alpha fast std_parse SrcIo (pre ++ EFail e :: post).
Proof. exact io_error_or_determined. Qed.
Print Assumptions C06_io_error_or_determined.

Theorem C06_io_error_or_determined_datum : forall ro alpha fast std_parse (pre post cont : list event) (e : N),
  datum_from_trait ro alpha fast std_parse SrcIo (pre ++ EFail e :: post) = PErr (XErr (EIo e)) \/
  datum_from_trait ro alpha fast std_parse SrcIo (pre ++ cont) = datum_from_trait ro alpha fast std_parse SrcIo (pre ++ EFail e :: post).
Proof. exact io_error_or_determined_datum. Qed.
Print Assumptions C06_io_error_or_determined_datum.

(* both cases occur: an open list, a complete datum, a token cut short - the
   I/O error; a stray closer or a bad token before the failure - the syntax
   error the prefix already determines, with any continuation *)
Example C06_io_error_or_determined_nonvacuous :
  let run inp := from_trait default_ro (fun _ => true) true dec_to_f64 SrcIo inp in
  run (bytes_events (s2b "(a ") ++ [EFail 5%N]) = PErr (XErr (EIo 5%N)) /\
  run (bytes_events (s2b "12") ++ [EFail 6%N]) = PErr (XErr (EIo 6%N)) /\
  run (bytes_events (s2b "(a) ") ++ [EFail 7%N; EByte 41%N]) = PErr (XErr (EIo 7%N)) /\
  (exists l c, run (bytes_events (s2b "(a #z ") ++ [EFail 8%N]) = PErr (XErr (ESyntax ExpectedSomeIdent l c)) /\
               run (bytes_events (s2b "(a #z ") ++ bytes_events (s2b "b)")) = PErr (XErr (ESyntax ExpectedSomeIdent l c)) /\
               run (bytes_events (s2b "(a #z ")) = PErr (XErr (ESyntax ExpectedSomeIdent l c))).
Proof.
  cbv zeta. split; [vm_compute; reflexivity|]. split; [vm_compute; reflexivity|]. split; [vm_compute; reflexivity|].
  eexists; eexists. split; [vm_compute; reflexivity|]. split; vm_compute; reflexivity.
Qed.

(* ... and at every call: a parser on the failing stream (s2) and a parser on
   the same prefix with any other continuation (s1), standing at the same place
   inside the prefix (IoFailProofs.sprel), make the same call. Then the failing
   stream's call ends in the I/O error e (or a model artefact: fuel, panic -
   excluded for whole parses by C03), or the other runs out of fuel, or both
   return the same item with the same nesting budget and - when it is a value -
   still stand side by side. So the statement chains over iterations. *)
Theorem C06_io_error_or_determined_every_call : forall e post cont ro alpha fast std_parse fuel s1 s2,
  IoFailProofs.sprel e post cont s1 s2 ->
  IoFailProofs.pesc e (fst (next_value ro alpha fast std_parse fuel s2)) \/
  fst (next_value ro alpha fast std_parse fuel s1) = PErr (XErr EFuel) \/
  (fst (next_value ro alpha fast std_parse fuel s1) = fst (next_value ro alpha fast std_parse fuel s2) /\
   depth (snd (next_value ro alpha fast std_parse fuel s1)) = depth (snd (next_value ro alpha fast std_parse fuel s2)) /\
   (IoFailProofs.is_pok (fst (next_value ro alpha fast std_parse fuel s2)) ->
    IoFailProofs.srel e post cont (rd (snd (next_value ro alpha fast std_parse fuel s1))) (rd (snd (next_value ro alpha fast std_parse fuel s2))))).
Proof.
  intros e post cont ro alpha fast std_parse fuel s1 s2 H.
  exact (proj1 (IoFailProofs.str_values e post cont ro alpha fast std_parse fuel) s1 s2 H).
Qed.
Print Assumptions C06_io_error_or_determined_every_call.
