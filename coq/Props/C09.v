(* C09 -- sexp! builds the value the parser reads from the same S-expression
   (proved part). The macro's parser, modelled over Rust token trees, reads the
   documented spelling of every value of the documented class (integers and
   floats with an optional minus sign, strings, characters, #t #f #nil,
   identifier symbols, bare punctuation-only symbols such as + ... <= -> (one
   punctuation token per character) and #"..." symbols, #:name and #:"..."
   keywords, proper
   and dotted lists, vectors, nested arbitrarily, of any size) to code whose
   evaluation is that value; with C01, that is also the value the default text
   parser reads from the printed text. An unquoted expression contributes
   exactly what Value::from of it evaluates to. How rustc lexes source text into
   these token trees is observed (generated crate compiled against /repo), not
   modelled. The inherent ambiguity of a lone minus before a literal is shown as
   a refutation witness and recorded as a known finding. *)
From Coq Require Import SpecFloat.
Require Import Base Value Float NumberOps ListOps Macro PrintOptions Printer ParseOptions Reader Parser.
Require Import TextProofs RoundtripProofs MacroProofs.

Theorem C09_macro_reads_documented_spelling : forall is_ident ev v, cok v ->
  exists m, macro_parse (spell is_ident v) = MOk m /\ meval ev m = v.
Proof. exact macro_value. Qed.
Print Assumptions C09_macro_reads_documented_spelling.

(* ... and the default text parser reads the printed text of the same value to the same value *)
Theorem C09_agrees_with_text_parser_partial : forall is_ident ev ryu alpha fast std_parse k v,
  cok v -> rt_ok alpha v -> (rdepth v <= 127)%nat ->
  exists m, macro_parse (spell is_ident v) = MOk m /\
            from_trait default_ro alpha fast std_parse k (bytes_events (print0 ryu v)) = POk (meval ev m).
Proof.
  intros is_ident ev ryu alpha fast std_parse k v Hc Hok Hd.
  destruct (macro_value is_ident ev v Hc) as (m & E & Ev). exists m. split; [exact E|].
  rewrite Ev, print0_is_txt. exact (roundtrip_from_trait ryu alpha fast std_parse k v Hok Hd).
Qed.
Print Assumptions C09_agrees_with_text_parser_partial.

(* ,expr -- at any position, also as a dotted tail *)
Theorem C09_unquote : forall ev f sp t rest,
  mparse (S f) (Punct 44 sp :: t :: rest) = MOk (MUnquoted t, rest) /\ meval ev (MUnquoted t) = ev t.
Proof. intros. split; reflexivity. Qed.
Print Assumptions C09_unquote.

Example C09_unquote_as_tail : forall ev t,
  match macro_parse [Group Paren [Ident (s2b "a"); Punct 46 Alone; Punct 44 Alone; t]] with
  | MOk m => meval ev m = Cons (Symbol (s2b "a")) (ev t)
  | MErr _ => False
  end.
Proof. intros. reflexivity. Qed.

(* the known finding: to a Rust macro, `- 1` and `-1` are the same tokens *)
Example C09_minus_literal_refuted : forall ev,
  match macro_parse [Group Paren [Punct 45 Alone; Lit (LInt 1); Lit (LInt 2)]] with
  | MOk m => meval ev m = vlist [Number (NegInt (-1)); Number (PosInt 2)]
  | MErr _ => False
  end.
Proof. intros. reflexivity. Qed.

Example C09_nonvacuous :
  let v := Cons (Symbol (s2b "define")) (Cons (Vector [Number (NegInt (-5)); Bool true; Nil; Keyword (s2b "k"); String (s2b "s")])
             (Cons (Number (Float (f64_of_bits 13832806255468478464))) (Symbol (s2b "not an ident")))) in
  cok v /\ match macro_parse (spell (fun s => beq_bytes s (s2b "define") || beq_bytes s (s2b "k")) v) with
           | MOk m => meval (fun _ => Nil) m = v
           | MErr _ => False
           end.
Proof. split; [cbn; repeat split; reflexivity|vm_compute; reflexivity]. Qed.

(* bare punctuation symbols: (<= (+ a ...) -> . /) is spelled with one Punct
   token per character, joint inside a symbol; the lone - : . keep the #"..."
   spelling (a sign, a keyword marker, the dot of a dotted list) *)
Example C09_punctuation_symbols :
  let is_ident := fun s => beq_bytes s (s2b "a") in
  let v := Cons (Symbol (s2b "<=")) (Cons (vlist [Symbol (s2b "+"); Symbol (s2b "a"); Symbol (s2b "...")])
             (Cons (Symbol (s2b "->")) (Symbol (s2b "/")))) in
  cok v /\
  spell is_ident (Symbol (s2b "<=")) = [Punct 60 Joint; Punct 61 Alone] /\
  spell is_ident (Symbol (s2b "...")) = [Punct 46 Joint; Punct 46 Joint; Punct 46 Alone] /\
  spell is_ident (Symbol (s2b "-")) = [Punct 35 Alone; Lit (LStr (s2b "-") (s2b "-"))] /\
  match macro_parse (spell is_ident v) with
  | MOk m => meval (fun _ => Nil) m = v
  | MErr _ => False
  end.
Proof. cbv zeta. split; [cbn; repeat split; reflexivity|]. repeat split; vm_compute; reflexivity. Qed.
