(* C19 -- parse errors carry an in-bounds location (proved part). For every
   option set, source kind and input event stream, the location of every
   syntax or EOF error returned by a single-shot entry point, or by any call
   in any history of calls on one parser, is the position just after a prefix
   of the input's bytes: its line is one of the input's lines (1-based) and its
   column is at most that line's length. The truncation clause (a proper
   prefix of a parsable text fails with category EOF) and the conversion to
   std::io::Error are decided by the correspondence and the oracle only
   (theorems.json). *)
From Coq Require Import SpecFloat.
Require Import Base Value Float PrintOptions ParseOptions Utf8 Reader Scan Num NumberOps Parser.
Require Import RelFramework PositionProofs SourcesAgree ValidTextProofs TruncProofs.

Theorem C19_from_trait_location : forall ro alpha fast std_parse k inp c l cl,
  from_trait ro alpha fast std_parse k inp = PErr (XErr (ESyntax c l cl)) -> in_bounds (bytes_in inp) l cl.
Proof. exact from_trait_positions. Qed.
Print Assumptions C19_from_trait_location.

Theorem C19_datum_from_trait_location : forall ro alpha fast std_parse k inp c l cl,
  datum_from_trait ro alpha fast std_parse k inp = PErr (XErr (ESyntax c l cl)) -> in_bounds (bytes_in inp) l cl.
Proof. exact datum_from_trait_positions. Qed.
Print Assumptions C19_datum_from_trait_location.

(* any call on a parser over input W, in any state it can reach: the
   invariant is kept, so the statement applies to the next call too *)
Theorem C19_every_call_value : forall W ro alpha fast std_parse fuel s, inv W (rd s) ->
  let '(x, s') := next_value ro alpha fast std_parse fuel s in
  inv W (rd s') /\ (forall c l cl, x = PErr (XErr (ESyntax c l cl)) -> prefix_pos W l cl).
Proof. exact next_value_positions. Qed.
Print Assumptions C19_every_call_value.

Theorem C19_every_call_datum : forall W ro alpha fast std_parse fuel s, inv W (rd s) ->
  let '(x, s') := next_datum ro alpha fast std_parse fuel s in
  inv W (rd s') /\ (forall c l cl, x = PErr (XErr (ESyntax c l cl)) -> prefix_pos W l cl).
Proof. exact next_datum_positions. Qed.
Print Assumptions C19_every_call_datum.

Theorem C19_initial_state : forall W k inp, W = bytes_in inp -> inv W (rd (init_state k inp)).
Proof. intros W k inp H. exact (inv_init W k inp H). Qed.
Print Assumptions C19_initial_state.

(* a prefix position is a line of the text and a column within it *)
Theorem C19_prefix_in_bounds : forall W l cl, prefix_pos W l cl -> in_bounds W l cl.
Proof. exact prefix_pos_in_bounds. Qed.
Print Assumptions C19_prefix_in_bounds.

(* the error category is a function of the code alone *)
Theorem C19_category : forall c l cl,
  classify (ESyntax c l cl) = Some (classify_code c) /\ (forall io, classify (EIo io) = Some CatIo).
Proof. intros; split; reflexivity. Qed.
Print Assumptions C19_category.

Example C19_nonvacuous :
  let inp := bytes_events (s2b "(a
  #z)") in
  from_trait default_ro (fun _ => true) true dec_to_f64 SrcSlice inp = PErr (XErr (ESyntax ExpectedSomeIdent 2 5)) /\
  line_lens (bytes_in inp) 0 = [2; 5] /\
  from_trait default_ro (fun _ => true) true dec_to_f64 SrcIo (bytes_events (s2b "(a")) = PErr (XErr (ESyntax EofWhileParsingList 1 2)).
Proof. vm_compute. repeat split; reflexivity. Qed.

(* The truncation clause is FALSE of the model (and of the code: the witness is
   replayed on the implementation by the C19 check and listed as a known
   finding). A decimal literal may need its exponent to be in range: 1 followed
   by 320 zeros and "e-320" reads as the float 1.0, while every prefix that
   ends inside the run of zeros past the 309th digit, or inside the exponent
   before it has brought the magnitude back, is a complete out-of-range literal
   at the end of the input - NumberOutOfRange, category Syntax, not EOF. *)
Definition c19_long_literal : bytes := 49 :: repeat 48 320 ++ s2b "e-320".
Theorem C19_truncation_is_eof_refuted :
  exists (text prefix : bytes) c l cl,
    (exists rest, rest <> [] /\ text = prefix ++ rest) /\
    (exists v, from_trait default_ro (fun _ => true) true dec_to_f64 SrcSlice (bytes_events text) = POk v) /\
    from_trait default_ro (fun _ => true) true dec_to_f64 SrcSlice (bytes_events prefix) = PErr (XErr (ESyntax c l cl)) /\
    classify_code c = CatSyntax.
Proof.
  exists c19_long_literal, (49 :: repeat 48 320), NumberOutOfRange, 1, 321.
  split; [exists (s2b "e-320"); split; [discriminate|reflexivity]|].
  split; [eexists; vm_compute; reflexivity|]. split; vm_compute; reflexivity.
Qed.
Print Assumptions C19_truncation_is_eof_refuted.

(* What a truncated input CAN fail with. If a stream (any events: bytes,
   Interrupted results) parses as a single datum, then every prefix of it
   either parses too or fails with an error of the EOF category - or with one
   of four codes that check data read before the end: NumberOutOfRange (the
   refutation above: that class is real), InvalidUnicodeCodePoint, ExpectedOctet
   and RecursionLimitExceeded (these three cannot occur for a prefix of an
   accepted text either - the whole would fail the same check - but showing
   that needs the relation between the two runs' values, which this proof does
   not keep). Never any of the other fifteen syntax codes: no ExpectedSomeIdent,
   ExpectedSomeValue, InvalidEscape, InvalidNumber, InvalidSymbol,
   InvalidCharacterConstant, TrailingCharacters, MismatchedParenthesis, ...
   Proved by reading the prefix and the whole side by side (TruncProofs.v):
   every function either fails on the whole, or returns the same on both, or the
   prefix has run out - and from then on every function is shown to return a
   value or an EOF-like error at the end of the input, site by site. *)
Theorem C19_truncation_partial : forall ro alpha fast std_parse (pre rest : list event) v,
  from_trait ro alpha fast std_parse SrcIo (pre ++ rest) = POk v ->
  (exists v', from_trait ro alpha fast std_parse SrcIo pre = POk v') \/
  (exists c l cl, from_trait ro alpha fast std_parse SrcIo pre = PErr (XErr (ESyntax c l cl)) /\
     (classify_code c = CatEof \/ c = NumberOutOfRange \/ c = InvalidUnicodeCodePoint \/ c = ExpectedOctet \/ c = RecursionLimitExceeded)).
Proof. exact truncation_partial. Qed.
Print Assumptions C19_truncation_partial.

Theorem C19_truncation_partial_datum : forall ro alpha fast std_parse (pre rest : list event) d,
  datum_from_trait ro alpha fast std_parse SrcIo (pre ++ rest) = POk d ->
  (exists d', datum_from_trait ro alpha fast std_parse SrcIo pre = POk d') \/
  (exists c l cl, datum_from_trait ro alpha fast std_parse SrcIo pre = PErr (XErr (ESyntax c l cl)) /\
     (classify_code c = CatEof \/ c = NumberOutOfRange \/ c = InvalidUnicodeCodePoint \/ c = ExpectedOctet \/ c = RecursionLimitExceeded)).
Proof. exact truncation_partial_datum. Qed.
Print Assumptions C19_truncation_partial_datum.

Theorem C19_truncation_partial_slice : forall ro alpha fast std_parse (p s : bytes) v,
  from_trait ro alpha fast std_parse SrcSlice (bytes_events (p ++ s)) = POk v ->
  (exists v', from_trait ro alpha fast std_parse SrcSlice (bytes_events p) = POk v') \/
  (exists c l cl, from_trait ro alpha fast std_parse SrcSlice (bytes_events p) = PErr (XErr (ESyntax c l cl)) /\
     (classify_code c = CatEof \/ c = NumberOutOfRange \/ c = InvalidUnicodeCodePoint \/ c = ExpectedOctet \/ c = RecursionLimitExceeded)).
Proof. exact truncation_partial_slice. Qed.
Print Assumptions C19_truncation_partial_slice.

(* ... and at every call: a parser on the prefix and a parser on the whole
   stream, standing at the same place inside the prefix (tprel), make the same
   call. Then the whole's call fails, or both return the same item and still
   stand side by side, or the prefix has run out: its reader is at the end and
   its item is a value or an EOF-like error (pokres). So the statement chains
   over iterations until the prefix runs out. *)
Theorem C19_truncation_every_call : forall rest ro alpha fast std_parse fuel s1 s2, tprel rest s1 s2 ->
  (exists x, fst (next_value ro alpha fast std_parse fuel s2) = PErr x) \/
  (fst (next_value ro alpha fast std_parse fuel s1) = fst (next_value ro alpha fast std_parse fuel s2) /\
   tprel rest (snd (next_value ro alpha fast std_parse fuel s1)) (snd (next_value ro alpha fast std_parse fuel s2))) \/
  (ateof (rd (snd (next_value ro alpha fast std_parse fuel s1))) /\ pokres (fst (next_value ro alpha fast std_parse fuel s1))).
Proof. intros rest ro alpha fast std_parse fuel s1 s2 H. exact (proj1 (trunc_values rest ro alpha fast std_parse fuel) s1 s2 H). Qed.
Print Assumptions C19_truncation_every_call.

(* a &str: its prefixes that are themselves strs (cut at a character boundary)
   read like the slices of the same bytes (C06_str_slice_agree_on_text) *)
Theorem C19_truncation_partial_str : forall ro alpha fast std_parse (p s : bytes) v,
  utf8_valid (p ++ s) = true -> utf8_valid p = true ->
  from_trait ro alpha fast std_parse SrcStr (bytes_events (p ++ s)) = POk v ->
  (exists v', from_trait ro alpha fast std_parse SrcStr (bytes_events p) = POk v') \/
  (exists c l cl, from_trait ro alpha fast std_parse SrcStr (bytes_events p) = PErr (XErr (ESyntax c l cl)) /\
     (classify_code c = CatEof \/ c = NumberOutOfRange \/ c = InvalidUnicodeCodePoint \/ c = ExpectedOctet \/ c = RecursionLimitExceeded)).
Proof.
  intros ro alpha fast std_parse p s v Hps Hp E.
  rewrite (proj1 (valid_text_agree (p ++ s) Hps ro alpha fast std_parse)) in E.
  rewrite (proj1 (valid_text_agree p Hp ro alpha fast std_parse)).
  exact (truncation_partial_slice ro alpha fast std_parse p s v E).
Qed.
Print Assumptions C19_truncation_partial_str.

(* premises are satisfiable, and both outcomes occur *)
Example C19_truncation_nonvacuous :
  let run txt := from_trait default_ro (fun _ => true) true dec_to_f64 SrcIo (bytes_events txt) in
  run (s2b "(a #\space ""x\n"" 1.5e3)") = POk (vlist [Symbol (s2b "a"); Char 32; String [120; 10]; Number (Float (f64_of_bits 4654311885213007872))]) /\
  run (s2b "(a #\sp") = PErr (XErr (ESyntax EofWhileParsingCharacterConstant 1 7)) /\
  run (s2b "(a #\space ""x\") = PErr (XErr (ESyntax EofWhileParsingString 1 14)) /\
  run (s2b "(a #\space ""x\n"" 1.5e") = PErr (XErr (ESyntax EofWhileParsingValue 1 21)) /\
  run (s2b "(a #\space ""x\n"" 1.5") = PErr (XErr (ESyntax EofWhileParsingList 1 20)).
Proof. cbv zeta. repeat split; vm_compute; reflexivity. Qed.
