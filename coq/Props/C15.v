(* C15 -- list construction, traversal, conversion and indexing are consistent.
   Reference: an element sequence xs and a tail t that is not a cons cell;
   [build xs t] is the chain the constructors produce (Value::append). *)
Require Import Base Value NumberOps ListOps ListProofs.

(* a tail that is itself a list merges into the chain *)
Theorem C15_merge : forall xs ys t, value_append xs (value_append ys t) = value_append (xs ++ ys) t.
Proof. exact build_app. Qed.
Print Assumptions C15_merge.

(* to_vec / to_ref_vec (by reference, cloned) and into_vec (owned) return xs and t *)
Theorem C15_to_vec : forall x xs t, is_cons t = false ->
  cons_to_vec x (build xs t) = (x :: xs, t) /\ cons_into_vec x (build xs t) = Some (x :: xs, t).
Proof. intros x xs t Ht; split; [exact (cons_to_vec_build x xs t Ht)|exact (cons_into_vec_build x xs t Ht)]. Qed.
Print Assumptions C15_to_vec.

Theorem C15_value_to_vec : forall xs t, is_cons t = false ->
  value_to_vec (build xs t) =
  match xs with
  | [] => match t with Null => Some [] | _ => None end
  | _ => if is_null t then Some xs else None
  end.
Proof. exact value_to_vec_build. Qed.
Print Assumptions C15_value_to_vec.

Theorem C15_iter_cells : forall x xs t, is_cons t = false ->
  length (iter_cells x (build xs t)) = length (x :: xs).
Proof. exact iter_cells_length. Qed.
Print Assumptions C15_iter_cells.

(* the element iterator yields xs, then for a tail other than the empty list
   None, t, None, and None ever after *)
Theorem C15_list_iter : forall x xs t k, is_cons t = false ->
  drain (S (length xs) + (3 + k)) (LCons x (build xs t)) =
  map Some (x :: xs) ++
    (if is_null t then repeat None (3 + k) else [None; Some t; None] ++ repeat None k).
Proof. exact list_iter_build. Qed.
Print Assumptions C15_list_iter.

(* the consuming iterator yields each element once, the tail attached to the last *)
Theorem C15_into_iter : forall pre l t x xs, is_cons t = false -> x :: xs = pre ++ [l] ->
  into_iter_items x (build xs t) = map (fun e => (e, None)) pre ++ [(l, Some t)].
Proof. intros pre l t x xs Ht E; exact (into_iter_build pre l t Ht x xs E). Qed.
Print Assumptions C15_into_iter.

(* positional indexing, for every index value *)
Theorem C15_get_pos : forall xs t i, is_cons t = false -> (xs <> [] \/ is_vector t = false) ->
  get_usize (build xs t) i = nth_error xs (N.to_nat i).
Proof. exact get_usize_build. Qed.
Print Assumptions C15_get_pos.

Theorem C15_get_vector : forall l i, get_usize (Vector l) i = nth_error l (N.to_nat i).
Proof. exact get_usize_vector. Qed.
Print Assumptions C15_get_vector.

Theorem C15_predicates : forall v, is_list v = negb (is_dotted_list v).
Proof. exact predicates_complementary. Qed.
Print Assumptions C15_predicates.

Theorem C15_is_list : forall xs t, is_cons t = false -> is_list (build xs t) = is_null t.
Proof. exact is_list_build. Qed.
Print Assumptions C15_is_list.

(* association lists: the cdr of the first entry whose key matches; entries
   that are not pairs are skipped *)
Theorem C15_assoc : forall xs t, is_cons t = false ->
  (forall name, get_str (build xs t) name =
     match xs with [] => None | _ => first_match (match_pair_name name) xs end) /\
  (forall key, get_value (build xs t) key =
     match xs with [] => None | _ => first_match (match_pair_key key) xs end).
Proof. intros xs t Ht; split; intros k; [exact (get_str_build xs t k Ht)|exact (get_value_build xs t k Ht)]. Qed.
Print Assumptions C15_assoc.

(* indexing is total: a value comes back for every target and index *)
Theorem C15_index_total : forall v i name key,
  (exists r, index_or_nil (get_usize v i) = r) /\
  (exists r, index_or_nil (get_str v name) = r) /\
  (exists r, index_or_nil (get_value v key) = r) /\
  (is_cons_v v = false -> is_vector v = false -> get_usize v i = None) /\
  (is_cons_v v = false -> get_str v name = None /\ get_value v key = None).
Proof.
  intros v i name key. repeat split; try (eexists; reflexivity); destruct v; try discriminate; reflexivity.
Qed.
Print Assumptions C15_index_total.

Example C15_nonvacuous :
  let t := Symbol (s2b "z") in
  let xs := [Number (PosInt 1); Cons (String (s2b "k")) (Bool true); Nil] in
  is_cons t = false /\
  cons_to_vec (Number (PosInt 0)) (build xs t) = (Number (PosInt 0) :: xs, t) /\
  get_str (build xs t) (s2b "k") = Some (Bool true) /\
  get_usize (build xs t) 18446744073709551615 = None.
Proof. vm_compute. repeat split. Qed.
