(* C17 -- only well-formed UTF-8 ever reaches a str (proved part).
   Printer: for every value whose strings, symbols and keywords are
   well-formed UTF-8 (which Rust's str type guarantees) and every one of the
   576 printer option sets, the printed text is well-formed UTF-8 (that it is
   the bytes a sink receives is C07). Parser, byte-slice and stream input:
   every string, symbol and keyword in any value returned, under every option
   set and for every input whatsoever, is well-formed UTF-8 -- a scanned name
   or string that is not is rejected by the from_utf8 check. For &str input the
   code skips that check (from_utf8_unchecked), relying on the input being a
   str; that reliance is proved sound: whenever the whole input is well-formed
   UTF-8, every string, symbol and keyword of every value returned is too, for
   every option set (C17_str_input, C17_str_input_datum, C17_str_every_call) -
   the scanners cut the input only at ASCII bytes or after whole, validated
   characters. The verif-hooks assertions in /repo re-check the bytes at each
   unchecked conversion at run time, tying this to the implementation. *)
From Coq Require Import SpecFloat.
Require Import Base Value Float PrintOptions Printer ParseOptions Utf8 Reader Scan Num NumberOps Parser.
Require Import Utf8Proofs Utf8PrintProofs Utf8ParseProofs DatumProofs Utf8StrProofs.

Theorem C17_printer_default : forall ryu, (forall f, all_ascii (ryu f)) ->
  forall v, strs_valid v -> utf8_valid (print0 ryu v) = true.
Proof. exact print0_utf8. Qed.
Print Assumptions C17_printer_default.

Theorem C17_printer_every_option_set : forall ryu, (forall f, all_ascii (ryu f)) ->
  forall po v, strs_valid v -> utf8_valid (print_custom ryu po v) = true.
Proof. exact print_custom_utf8. Qed.
Print Assumptions C17_printer_every_option_set.

Theorem C17_parser_entry_points : forall ro alpha fast std_parse k inp v, k <> SrcStr ->
  from_trait ro alpha fast std_parse k inp = POk v -> strs_valid v.
Proof. exact from_trait_valid. Qed.
Print Assumptions C17_parser_entry_points.

Theorem C17_parser_datum_entry_points : forall ro alpha fast std_parse k inp d, k <> SrcStr ->
  datum_from_trait ro alpha fast std_parse k inp = POk d -> strs_valid (dvalue d).
Proof. exact datum_from_trait_valid. Qed.
Print Assumptions C17_parser_datum_entry_points.

Theorem C17_parser_every_call : forall ro alpha fast std_parse k fuel s o s', k <> SrcStr -> rk (rd s) = k ->
  next_value ro alpha fast std_parse fuel s = (POk (Some o), s') -> strs_valid o.
Proof. exact next_value_valid. Qed.
Print Assumptions C17_parser_every_call.

(* &str input: bytes_events W is the event stream of the str with bytes W *)
Theorem C17_str_input : forall ro alpha fast std_parse W v, utf8_valid W = true ->
  from_trait ro alpha fast std_parse SrcStr (bytes_events W) = POk v -> strs_valid v.
Proof. exact from_trait_str_valid. Qed.
Print Assumptions C17_str_input.

Theorem C17_str_input_datum : forall ro alpha fast std_parse W d, utf8_valid W = true ->
  datum_from_trait ro alpha fast std_parse SrcStr (bytes_events W) = POk d -> strs_valid (dvalue d).
Proof.
  intros ro alpha fast std_parse W d HW E. apply (from_trait_str_valid ro alpha fast std_parse W _ HW).
  rewrite from_trait_agree, E. reflexivity.
Qed.
Print Assumptions C17_str_input_datum.

(* every call on a str parser: okr W r says r is a str reader somewhere inside W
   (position invariant, source kind, all events are bytes); it holds initially
   and every successful call re-establishes it, so the statement chains *)
Theorem C17_str_every_call : forall W ro alpha fast std_parse fuel s, utf8_valid W = true -> okr W (rd s) ->
  match next_value ro alpha fast std_parse fuel s with
  | (POk (Some v), s') => okr W (rd s') /\ strs_valid v
  | (POk None, s') => okr W (rd s')
  | (PErr _, _) => True
  end.
Proof.
  intros W ro alpha fast std_parse fuel s HW Ho.
  pose proof (proj1 (values_valid_str W HW ro alpha fast std_parse fuel) s Ho I) as H.
  destruct (next_value ro alpha fast std_parse fuel s) as [[[v|]|e] s1]; try exact I; [exact H|apply H].
Qed.
Print Assumptions C17_str_every_call.

(* the unchecked conversions see: a symbol with a non-ASCII first letter, a
   string with escapes next to multi-byte characters, a keyword *)
Example C17_str_nonvacuous :
  let W := s2b "(" ++ [206; 187] ++ s2b "x #:k ""a\x3bb;" ++ [240; 159; 146; 150] ++ s2b "\n"")" in
  utf8_valid W = true /\
  from_trait default_ro (fun _ => true) true dec_to_f64 SrcStr (bytes_events W) =
    POk (vlist [Symbol [206; 187; 120]; Keyword (s2b "k"); String ([97; 206; 187; 240; 159; 146; 150; 10])]).
Proof. cbv zeta. split; vm_compute; reflexivity. Qed.

(* validity is what str::from_utf8 accepts: a concatenation of well-formed sequences *)
Theorem C17_valid_is_sequences : forall l, utf8_valid l = true <-> seqs l.
Proof. exact valid_iff_seqs. Qed.
Print Assumptions C17_valid_is_sequences.

(* ill-formed input inside a symbol or a string is rejected; overlong and
   surrogate encodings are not well-formed *)
Example C17_nonvacuous :
  let run inp := from_trait default_ro (fun _ => true) true dec_to_f64 SrcSlice (bytes_events inp) in
  (exists l cl, run [97; 255] = PErr (XErr (ESyntax InvalidUnicodeCodePoint l cl))) /\
  (exists l cl, run [34; 192; 128; 34] = PErr (XErr (ESyntax InvalidUnicodeCodePoint l cl))) /\
  run [34; 206; 187; 34] = POk (String [206; 187]) /\
  utf8_valid [237; 160; 128] = false /\ utf8_valid [192; 175] = false /\ utf8_valid [240; 159; 146; 150] = true.
Proof. vm_compute. repeat split; try reflexivity; eexists; eexists; reflexivity. Qed.
