(* C04 -- Serde round trip: Rust data -> S-expression value -> Rust data. *)
From Coq Require Import SpecFloat Lia ZifyNat ZifyN.
Require Import Base Value Float NumberOps ListOps SerdeModel SerdeProofs.
Require Import PrintOptions Printer ParseOptions Reader Parser TextProofs RoundtripProofs SerdeTextProofs.

(* For every type of the universe whose structs (and struct variants) have
   distinct field names, and every inhabitant d (ser accepts exactly the
   well-typed data: integers within their width, f32 values that are f32):
   deserializing what the serializer produced gives d back.
   cast_f32 / is_f32 stand for std's `as f32`; the only fact used is that the
   cast is the identity on values that already are f32. *)
Theorem C04_value_roundtrip : forall (cast_f32 : f64 -> f64) (is_f32 : f64 -> bool),
  (forall f, is_f32 f = true -> cast_f32 f = f) ->
  forall t, wf_ty t -> forall d v, ser is_f32 t d = Some v -> de cast_f32 t v = SOk d.
Proof. exact roundtrip. Qed.
Print Assumptions C04_value_roundtrip.

(* No two Rust values collapse onto one S-expression. *)
Theorem C04_injective : forall (cast_f32 : f64 -> f64) (is_f32 : f64 -> bool),
  (forall f, is_f32 f = true -> cast_f32 f = f) ->
  forall t, wf_ty t -> forall d1 d2 v, ser is_f32 t d1 = Some v -> ser is_f32 t d2 = Some v -> d1 = d2.
Proof.
  intros cast_f32 is_f32 Hc t Hw d1 d2 v H1 H2.
  pose proof (roundtrip cast_f32 is_f32 Hc t Hw d1 v H1) as E1.
  pose proof (roundtrip cast_f32 is_f32 Hc t Hw d2 v H2) as E2.
  rewrite E1 in E2. now inversion E2.
Qed.
Print Assumptions C04_injective.

(* The text path: whenever the serialized value lies in the class C01 covers
   (no floats; strings, characters and byte buffers as Rust has them; field and
   variant names that are plain identifiers; nesting within the parser's limit),
   printing it with the default printer, parsing the text with the default
   parser from any source and deserializing gives d back. *)
Theorem C04_text_roundtrip_partial : forall (cast_f32 : f64 -> f64) (is_f32 : f64 -> bool),
  (forall f, is_f32 f = true -> cast_f32 f = f) ->
  forall ryu alpha fast std_parse k t, wf_ty t -> forall d v, ser is_f32 t d = Some v ->
  rt_ok alpha v -> (rdepth v <= 127)%nat ->
  match from_trait default_ro alpha fast std_parse k (bytes_events (print0 ryu v)) with
  | POk v' => de cast_f32 t v' = SOk d
  | PErr _ => False
  end.
Proof.
  intros cast_f32 is_f32 Hc ryu alpha fast std_parse k t Hw d v Hs Hok Hd.
  rewrite print0_is_txt, (roundtrip_from_trait ryu alpha fast std_parse k v Hok Hd).
  exact (roundtrip cast_f32 is_f32 Hc t Hw d v Hs).
Qed.
Print Assumptions C04_text_roundtrip_partial.

(* The hypothesis on the value, discharged from the type and the data: for a
   type with no float in it, integers of at most 64 bits and field and variant
   names that are plain symbols (text_ty; ident_b is a computable sufficient
   condition: Rust identifiers and their snake/kebab-case renamings), and data
   as Rust has it (chars are scalar values, Strings are UTF-8, bytes are u8:
   text_data), what the serializer produces lies in the C01 class and is
   nested no deeper than the type. *)
Theorem C04_serialized_in_class : forall alpha is_f32 t d v,
  text_ty alpha t -> text_data d -> ser is_f32 t d = Some v -> rt_ok alpha v.
Proof. intros alpha is_f32 t d v Ht Hd Hs. exact (ser_in_class alpha is_f32 t Ht d v Hd Hs). Qed.
Print Assumptions C04_serialized_in_class.

Theorem C04_serialized_depth : forall is_f32 t d v, ser is_f32 t d = Some v -> (rdepth v <= tdepth t)%nat.
Proof. intros is_f32 t d v Hs. exact (ser_shallow is_f32 t d v Hs). Qed.
Print Assumptions C04_serialized_depth.

Theorem C04_identifier_names : forall alpha s, ident_b s = true -> plain_symbol alpha s.
Proof. exact ident_plain. Qed.
Print Assumptions C04_identifier_names.

(* Hence the text round trip for every such type and all its data; what is
   still missing from the full statement is floats and printer / parser
   options other than the defaults. *)
Theorem C04_text_roundtrip_float_free_partial : forall (cast_f32 : f64 -> f64) (is_f32 : f64 -> bool),
  (forall f, is_f32 f = true -> cast_f32 f = f) ->
  forall ryu alpha fast std_parse k t, wf_ty t -> text_ty alpha t -> (tdepth t <= 127)%nat ->
  forall d v, text_data d -> ser is_f32 t d = Some v ->
  match from_trait default_ro alpha fast std_parse k (bytes_events (print0 ryu v)) with
  | POk v' => de cast_f32 t v' = SOk d
  | PErr _ => False
  end.
Proof.
  intros cast_f32 is_f32 Hc ryu alpha fast std_parse k t Hw Ht Hdep d v Hd Hs.
  apply (C04_text_roundtrip_partial cast_f32 is_f32 Hc ryu alpha fast std_parse k t Hw d v Hs).
  - exact (ser_in_class alpha is_f32 t Ht d v Hd Hs).
  - pose proof (ser_shallow is_f32 t d v Hs). lia.
Qed.
Print Assumptions C04_text_roundtrip_float_free_partial.

(* Non-vacuity: a struct with an option field, a tuple variant, a map. *)
Example C04_nonvacuous :
  let t := TyStruct [([110], TyString); ([97], TyOption (TyInt false 8));
                     ([115], TyEnum [([68], VUnit); ([82], VTuple [TyInt true 32; TyInt true 32])]);
                     ([109], TyMap TyChar (TySeq TyBool))] in
  let d := DStruct [DString [120]; DNone; DEnum [82] (PTuple [DInt (-3); DInt 4]);
                    DMap [(DChar 97, DSeq [DBool true; DBool false])]] in
  wf_ty t /\ match ser (fun _ => true) t d with Some v => de (fun f => f) t v = SOk d | None => False end.
Proof.
  intros t d. split.
  - unfold t. cbn [wf_ty wf_var names map fst snd].
    split; [|repeat split].
    repeat (constructor; [cbn [In]; intros H; repeat (destruct H as [H|H]; [discriminate H|]); exact H|]).
    constructor.
  - vm_compute. reflexivity.
Qed.

(* ... and the same type and data meet the hypotheses of the text theorem *)
Example C04_text_nonvacuous :
  let t := TyStruct [([110], TyString); ([97], TyOption (TyInt false 8));
                     ([115], TyEnum [([68], VUnit); ([82], VTuple [TyInt true 32; TyInt true 32])]);
                     ([109], TyMap TyChar (TySeq TyBool))] in
  let d := DStruct [DString [120]; DNone; DEnum [82] (PTuple [DInt (-3); DInt 4]);
                    DMap [(DChar 97, DSeq [DBool true; DBool false])]] in
  text_ty (fun _ => false) t /\ text_data d /\ (tdepth t <= 127)%nat.
Proof.
  intros t d. split; [|split].
  - unfold t. cbn [text_ty text_var fst snd].
    repeat match goal with
           | |- _ /\ _ => split
           | |- True => exact I
           | |- plain_symbol _ _ => apply ident_plain; reflexivity
           | |- (_ <= _)%N => lia
           end.
  - unfold d. cbn [text_data text_payload fst snd]. repeat split; reflexivity.
  - vm_compute. repeat constructor.
Qed.
