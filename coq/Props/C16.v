(* C16 -- stack use does not grow with the number of list elements (partial:
   call depth in a cost model of the recursion shapes; bytes per frame,
   inlining and tail calls are rustc's and are observed, not proved). *)
Require Import Base Value Depth DepthCost.
Local Open Scope nat_scope.

(* An operation that loops along the cdr chain and recurses only into cars and
   vector elements -- Printer::print, the hand-written Clone / PartialEq / Drop
   of Cons and of SpanInfo, to_vec, iterators, get, is_list, the Serde
   collectors -- needs at most one frame per nesting level, plus one. *)
Theorem C16_loop_shape_bound : forall v,
  walk_depth v <= nesting v + 1 /\ walk_rest v <= nesting_rest v + 1.
Proof. exact walk_bound. Qed.
Print Assumptions C16_loop_shape_bound.

(* In particular a flat list of any length is walked at depth <= 2. *)
Theorem C16_flat_list : forall xs t,
  Forall (fun x => nesting x = 0) xs -> nesting_rest t = 0 -> xs <> [] ->
  walk_depth (build xs t) <= 2.
Proof. exact walk_flat. Qed.
Print Assumptions C16_flat_list.

(* The shape of a derived implementation (one call per field) is linear in the
   number of elements: this is what #[derive(Clone, PartialEq)] on Cons and on
   SpanInfo did before the fixes, and what the child-process runs catch. *)
Theorem C16_derived_shape_linear : forall xs t, length xs <= derived_depth (build xs t).
Proof. exact derived_linear. Qed.
Print Assumptions C16_derived_shape_linear.

Example C16_nonvacuous :
  let xs := repeat (Number (PosInt 7)) 1000 in
  walk_depth (build xs Null) = 2 /\ derived_depth (build xs Null) = 1001.
Proof. vm_compute. split; reflexivity. Qed.
