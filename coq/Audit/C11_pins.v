(* Pinned statements of the C11 theorems (generated once by bin/genpins, then committed):
   fails to compile if Props/C11.v is weakened, renamed or given other hypotheses. *)
From Coq Require Import SpecFloat.
Require Import Base Value Float PrintOptions ParseOptions Utf8 Reader Scan Num NumberOps Parser.
Require Import RelFramework PositionProofs SpanProofs CrossProofs SourcesAgree QuoteSpan ValidTextProofs.
Require Import Lexpr.Props.C11.

Check (C11_spans_in_bounds_partial :
  forall ro alpha fast std_parse k inp d,
  datum_from_trait ro alpha fast std_parse k inp = POk d ->
  all_spans (span_in_bounds (bytes_in inp)) (dinfo d) /\
  real (bytes_in inp) (1, 0) (sp_end (info_span (dinfo d))) (info_span (dinfo d))).

Check (C11_every_call_partial :
  forall W ro alpha fast std_parse fuel s, inv W (rd s) ->
  match next_datum ro alpha fast std_parse fuel s with
  | (POk o, s') => inv W (rd s') /\ pos_le (rpos (rd s)) (rpos (rd s')) /\
                   match o with Some d => dok W (rpos (rd s)) (rpos (rd s')) d | None => True end
  | (PErr _, _) => True
  end).

Check (C11_nesting_order_partial :
  forall ro alpha fast std_parse k inp d,
  datum_from_trait ro alpha fast std_parse k inp = POk d -> tight (dinfo d)).

Check (C11_children_inside_parent :
  forall lo hi l i, seqb lo hi l -> In i l ->
  pos_le lo (root_start i) /\ pos_le (root_start i) (root_end i) /\ pos_le (root_end i) hi).

Check (C11_siblings_in_order :
  forall lo hi l1 x y l2, seqb lo hi (l1 ++ x :: y :: l2) -> pos_le (root_end x) (root_start y)).

Check (C11_nesting_every_call_partial :
  forall W ro alpha fast std_parse fuel s, inv W (rd s) ->
  match next_datum ro alpha fast std_parse fuel s with
  | (POk (Some d), _) => tight (dinfo d)
  | _ => True
  end).

Check (C11_spans_nonempty_partial :
  forall ro alpha fast std_parse k inp d,
  datum_from_trait ro alpha fast std_parse k inp = POk d -> nef false (dinfo d)).

Check (C11_token_consumes :
  forall ro alpha fast std_parse fuel b r, RelFramework.at_byte b r ->
  match parse_token ro alpha fast std_parse fuel b r with
  | (Ok _, r') => pos_lt (rpos r) (rpos r')
  | (Err _, _) => True
  end).

Check (C11_position_monotone :
  forall ro alpha fast std_parse fuel b r,
  pos_le (rpos r) (rpos (snd (parse_token ro alpha fast std_parse fuel b r)))).

Check (C11_nonvacuous :
  match datum_from_trait default_ro (fun _ => true) true dec_to_f64 SrcIo (bytes_events (s2b "(ab 'c
 #(1))")) with
  | POk d => info_span (dinfo d) = mk_span (1, 0) (2, 6) /\
             match dinfo d with
             | SCons _ (SPrim a) (SCons e1 (SCons q (SPrim qh) _) _) =>
                 a = mk_span (1, 1) (1, 3) /\ e1 = span_empty /\ q = mk_span (1, 4) (1, 6) /\ qh = mk_span (1, 4) (1, 5)
             | _ => False
             end
  | PErr _ => False
  end).

Check (C11_same_across_slice_and_stream :
  forall ro alpha fast std_parse (s : bytes),
  match datum_from_trait ro alpha fast std_parse SrcSlice (bytes_events s), datum_from_trait ro alpha fast std_parse SrcIo (bytes_events s) with
  | POk d1, POk d2 => d1 = d2
  | PErr (XErr (ESyntax c1 _ _)), PErr (XErr (ESyntax c2 _ _)) => c1 = c2
  | PErr (XErr (EIo a)), PErr (XErr (EIo b)) => a = b
  | _, _ => False
  end).

Check (C11_same_across_str_and_slice :
  forall ro alpha fast std_parse (inp : list event),
  (exists l c, datum_from_trait ro alpha fast std_parse SrcSlice inp = PErr (XErr (ESyntax InvalidUnicodeCodePoint l c))) \/
  datum_from_trait ro alpha fast std_parse SrcStr inp = datum_from_trait ro alpha fast std_parse SrcSlice inp).

Check (C11_same_across_str_and_slice_on_text :
  forall W, utf8_valid W = true -> forall ro alpha fast std_parse,
  datum_from_trait ro alpha fast std_parse SrcStr (bytes_events W) = datum_from_trait ro alpha fast std_parse SrcSlice (bytes_events W)).

Check (C11_quote_head :
  forall ro alpha fast std_parse f s b r1 dd s',
  parse_whitespace f (rd s) = (Ok (Some b), r1) -> b = 39 \/ b = 96 \/ b = 44 ->
  next_datum ro alpha fast std_parse (S f) s = (POk (Some dd), s') ->
  exists name quoted,
    dd = quotation_datum name quoted (mk_span (r_position r1) (pos_from (r_position r1) (qtext name))) /\
    hd 0 (qtext name) = b).
