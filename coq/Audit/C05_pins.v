(* Pinned statements of the C05 theorems (generated once by bin/genpins, then committed):
   fails to compile if Props/C05.v is weakened, renamed or given other hypotheses. *)
From Coq Require Import ZArith Reals SpecFloat.
From Flocq Require Import Core BinarySingleNaN.
Require Import Base Value Float PrintOptions Printer ParseOptions Utf8 Reader Scan Num NumberOps Parser.
Require Import ReaderProofs TokenProofs NumTokenProofs DecimalProofs RadixProofs ClingerProofs FloatLiteralProofs FuelProofs FiniteFloat.
Require Import Lexpr.Props.C05.
Local Open Scope N_scope.

Check (C05_decimal_digits :
  forall alpha fast std_parse fuel r d ds rest,
  all_digits (d :: ds) -> dfold 0 (d :: ds) <= u64_MAX ->
  (length (d :: ds) < fuel)%nat -> delim_ok rest -> at_bytes r ((d :: ds) ++ rest) ->
  exists r', parse_token default_ro alpha fast std_parse fuel d r =
             (Ok (TNumber (PosInt (dfold 0 (d :: ds)))), r') /\ at_bytes r' rest /\ rk r' = rk r).

Check (C05_signed_digits :
  forall alpha fast std_parse fuel r sg d ds rest,
  sg = 43 \/ sg = 45 -> all_digits (d :: ds) -> dfold 0 (d :: ds) <= u64_MAX ->
  (S (length (d :: ds)) < fuel)%nat -> delim_ok rest -> at_bytes r (sg :: (d :: ds) ++ rest) -> peeked r ->
  exists r', parse_token default_ro alpha fast std_parse fuel sg r =
             (Ok (TNumber (int_result (sg =? 43) (dfold 0 (d :: ds)))), r') /\ at_bytes r' rest /\ rk r' = rk r).

Check (C05_negative_value :
  forall n, n <= 9223372036854775808 ->
  int_result false n = num_from_signed (- Z.of_N n)).

Check (C05_printed_integer :
  forall n,
  exists ds, dec_of_N n = ds /\ ds <> [] /\ all_digits ds /\ dfold 0 ds = n /\
             (forall d ds', ds = d :: ds' -> ds' <> [] -> d <> 48)).

Check (C05_printed_posint_reads_back :
  forall alpha fast std_parse fuel r n rest,
  n <= u64_MAX -> (length (dec_of_N n) < fuel)%nat -> delim_ok rest -> at_bytes r (dec_of_N n ++ rest) ->
  exists c r', hd_error (dec_of_N n ++ rest) = Some c /\
    parse_token default_ro alpha fast std_parse fuel c r = (Ok (TNumber (PosInt n)), r') /\
    at_bytes r' rest /\ rk r' = rk r).

Check (C05_printed_negint_reads_back :
  forall alpha fast std_parse fuel r i rest,
  (i64_min <= i < 0)%Z -> (S (length (dec_of_N (Z.to_N (- i)))) < fuel)%nat -> delim_ok rest ->
  at_bytes r (dec_of_Z i ++ rest) -> peeked r ->
  exists r', parse_token default_ro alpha fast std_parse fuel 45 r = (Ok (TNumber (NegInt i)), r') /\
             at_bytes r' rest /\ rk r' = rk r).

Check (C05_fast_path_correctly_rounded :
  forall std_parse pos sig e r,
  (Z.of_N sig < 2 ^ 53)%Z -> (Z.abs e <= 22)%Z ->
  exists b : binary_float 53 1024,
    f64_from_parts true std_parse pos sig e r = (Ok (if pos then B2SF b else f64_neg (B2SF b)), r) /\
    is_finite b = true /\
    B2R b = round radix2 (SpecFloat.fexp 53 1024) ZnearestE (dec_value sig e)).

Check (C05_radix_integers :
  forall alpha fast std_parse R fuel r sg d ds rest,
  radix_ok R -> (S (length (d :: ds)) < fuel)%nat ->
  all_rdigits R (d :: ds) -> delim_ok rest -> rfold R 0 (d :: ds) <= u64_MAX ->
  at_bytes r (35 :: radix_letter R :: sign_text sg ++ (d :: ds) ++ rest) -> peeked r ->
  exists r', parse_token default_ro alpha fast std_parse fuel 35 r =
               (Ok (TNumber (int_result (sign_pos sg) (rfold R 0 (d :: ds)))), r') /\
             at_bytes r' rest /\ rk r' = rk r).

Check (C05_radix_nonvacuous :
  radix_ok 16 /\ all_rdigits 16 (s2b "fF") /\ rfold 16 0 (s2b "fF") = 255 /\
  35 :: radix_letter 16 :: sign_text (Some false) ++ s2b "fF" = s2b "#x-fF" /\
  from_trait default_ro (fun _ => true) true dec_to_f64 SrcSlice (bytes_events (s2b "#x-fF")) = POk (Number (NegInt (-255))) /\
  from_trait default_ro (fun _ => true) true dec_to_f64 SrcIo (bytes_events (s2b "#b+101")) = POk (Number (PosInt 5)) /\
  from_trait default_ro (fun _ => true) true dec_to_f64 SrcStr (bytes_events (s2b "#o777")) = POk (Number (PosInt 511))).

Check (C05_decimal_literal_parts :
  forall fast std_parse fuel r pos d ip fs ex rest,
  all_digits (d :: ip) -> all_digits fs -> is_float_lit fs ex -> exp_ok ex -> lit_sig (d :: ip) fs <= u64_MAX ->
  (S (length (lit_text (d :: ip) fs ex)) < fuel)%nat -> delim_ok rest ->
  at_bytes r (lit_text (d :: ip) fs ex ++ rest) ->
  exists r', parse_num_literal fast std_parse fuel 10 pos r =
             (x <- f64_from_parts fast std_parse pos (lit_sig (d :: ip) fs) (lit_exp fs ex) ;; ret (Float x)) r' /\
             at_bytes r' rest /\ rk r' = rk r).

Check (C05_decimal_literal_fast_correct :
  forall alpha std_parse fuel r d ip fs ex rest,
  all_digits (d :: ip) -> all_digits fs -> is_float_lit fs ex -> exp_ok ex ->
  (Z.of_N (lit_sig (d :: ip) fs) < 2 ^ 53)%Z -> (Z.abs (lit_exp_exact fs ex) <= 22)%Z ->
  (S (length (lit_text (d :: ip) fs ex)) < fuel)%nat -> delim_ok rest ->
  at_bytes r (lit_text (d :: ip) fs ex ++ rest) ->
  exists (b : binary_float 53 1024) r',
    parse_token default_ro alpha true std_parse fuel d r = (Ok (TNumber (Float (B2SF b))), r') /\
    at_bytes r' rest /\ rk r' = rk r /\ is_finite b = true /\
    B2R b = round radix2 (SpecFloat.fexp 53 1024) ZnearestE (dec_value (lit_sig (d :: ip) fs) (lit_exp_exact fs ex))).

Check (C05_signed_decimal_literal_fast_correct :
  forall alpha std_parse fuel r sg d ip fs ex rest,
  sg = 43 \/ sg = 45 ->
  all_digits (d :: ip) -> all_digits fs -> is_float_lit fs ex -> exp_ok ex ->
  (Z.of_N (lit_sig (d :: ip) fs) < 2 ^ 53)%Z -> (Z.abs (lit_exp_exact fs ex) <= 22)%Z ->
  (S (S (length (lit_text (d :: ip) fs ex))) < fuel)%nat -> delim_ok rest ->
  at_bytes r (sg :: lit_text (d :: ip) fs ex ++ rest) -> peeked r ->
  exists (b : binary_float 53 1024) r',
    parse_token default_ro alpha true std_parse fuel sg r =
      (Ok (TNumber (Float (if sg =? 43 then B2SF b else f64_neg (B2SF b)))), r') /\
    at_bytes r' rest /\ rk r' = rk r /\ is_finite b = true /\
    B2R b = round radix2 (SpecFloat.fexp 53 1024) ZnearestE (dec_value (lit_sig (d :: ip) fs) (lit_exp_exact fs ex))).

Check (C05_never_infinite_or_nan :
  forall fast std_parse,
  (fast = false -> forall s e, is_infinite_f64 (std_parse s e) = false -> finb (std_parse s e)) ->
  forall fuel radix pos r n r', (radix = 2 \/ radix = 8 \/ radix = 10 \/ radix = 16) ->
  (parse_num_token fast std_parse fuel radix pos r = (Ok n, r') \/
   parse_radix_literal fast std_parse fuel radix r = (Ok n, r') \/
   parse_num_literal fast std_parse fuel radix pos r = (Ok n, r') \/
   parse_number fast std_parse fuel r = (Ok n, r')) ->
  match n with Float f => is_finite_f64 f = true | _ => True end).

Check (C05_out_of_range_witness :
  (match from_trait default_ro (fun _ => true) true dec_to_f64 SrcSlice (bytes_events (s2b "1e400")) with
   | PErr (XErr (ESyntax NumberOutOfRange _ _)) => true | _ => false end) &&
  (match from_trait default_ro (fun _ => true) true dec_to_f64 SrcSlice (bytes_events (s2b "#xFFFFFFFFFFFFFFFFFFFF")) with
   | POk (Number (Float f)) => is_finite_f64 f | _ => false end) &&
  (match from_trait default_ro (fun _ => true) false dec_to_f64 SrcSlice (bytes_events (s2b "-2e308")) with
   | PErr (XErr (ESyntax NumberOutOfRange _ _)) => true | _ => false end) = true).

Check (C05_decimal_nonvacuous :
  let ip := s2b "1" in let fs := s2b "4159" in let ex := Some (69, Some false, s2b "1") in
  lit_text (51 :: ip) fs ex = s2b "31.4159E-1" /\
  all_digits (51 :: ip) /\ all_digits fs /\ is_float_lit fs ex /\ exp_ok ex /\
  lit_sig (51 :: ip) fs = 314159 /\ lit_exp_exact fs ex = (-5)%Z /\ lit_exp fs ex = (-5)%Z /\
  from_trait default_ro (fun _ => true) true dec_to_f64 SrcIo (bytes_events (s2b "31.4159E-1")) =
    POk (Number (Float (f64_of_bits 4614256650576692846)))).

Check (C05_nonvacuous :
  f64_from_parts true dec_to_f64 true 3 (-1) (mk_reader SrcStr []) =
    (Ok (f64_of_bits 4599075939470750515), mk_reader SrcStr []) /\
  all_digits (s2b "007") /\ dfold 0 (s2b "007") = 7).
