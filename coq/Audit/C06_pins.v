(* Pinned statements of the C06 theorems (generated once by bin/genpins, then committed):
   fails to compile if Props/C06.v is weakened, renamed or given other hypotheses. *)
From Coq Require Import SpecFloat.
Require Import Base Value Float PrintOptions Printer ParseOptions Utf8 Reader Scan Num NumberOps Parser.
Require Import RelFramework IoProofs RoundtripProofs TextProofs SimFramework InterruptProofs CrossProofs SourcesAgree StrSliceProofs Utf8StrProofs ValidTextProofs.
Require IoFailProofs.
Require Import Lexpr.Props.C06.
Local Open Scope nat_scope.

Check (C06_failure_is_error :
  forall r e l, rpending r = false -> skip_intr (rinput r) = EFail e :: l ->
  (exists r', r_next r = (Err (EIo e), r')) /\ (exists r', r_peek r = (Err (EIo e), r'))).

Check (C06_eof_is_real :
  forall r r', rpending r = false -> r_next r = (Ok None, r') -> skip_intr (rinput r) = []).

Check (C06_interrupted_retried :
  forall r, rpending r = false ->
  r_next {| rk := rk r; rline := rline r; rcol := rcol r; rpending := false; rinput := EInterrupted :: rinput r |} = r_next r).

Check (C06_token_io_error :
  forall ro alpha fast std_parse fuel b r,
  let '(x, r') := parse_token ro alpha fast std_parse fuel b r in
  nf r' <= nf r /\ (nf r' < nf r -> exists io, x = Err (EIo io))).

Check (C06_no_swallow_value :
  forall ro alpha fast std_parse fuel s,
  let '(x, s') := next_value ro alpha fast std_parse fuel s in
  nf (rd s') <= nf (rd s) /\ (nf (rd s') < nf (rd s) -> exists e, x = PErr e)).

Check (C06_no_swallow_datum :
  forall ro alpha fast std_parse fuel s,
  let '(x, s') := next_datum ro alpha fast std_parse fuel s in
  nf (rd s') <= nf (rd s) /\ (nf (rd s') < nf (rd s) -> exists e, x = PErr e)).

Check (C06_sources_agree_partial :
  forall ryu alpha fast std_parse k1 k2 v,
  rt_ok alpha v -> rdepth v <= 127 ->
  from_trait default_ro alpha fast std_parse k1 (bytes_events (print0 ryu v)) =
  from_trait default_ro alpha fast std_parse k2 (bytes_events (print0 ryu v))).

Check (C06_slice_stream_agree :
  forall ro alpha fast std_parse (s : bytes),
  match from_trait ro alpha fast std_parse SrcSlice (bytes_events s), from_trait ro alpha fast std_parse SrcIo (bytes_events s) with
  | POk a, POk b => a = b
  | PErr (XErr (ESyntax c1 _ _)), PErr (XErr (ESyntax c2 _ _)) => c1 = c2
  | PErr (XErr (EIo a)), PErr (XErr (EIo b)) => a = b
  | _, _ => False
  end).

Check (C06_slice_stream_every_call :
  forall ro alpha fast std_parse fuel s1 s2, prel s1 s2 ->
  fst (next_value ro alpha fast std_parse fuel s2) = PErr (XErr EFuel) \/
  (rpres eq (fst (next_value ro alpha fast std_parse fuel s1)) (fst (next_value ro alpha fast std_parse fuel s2)) /\
   prel (snd (next_value ro alpha fast std_parse fuel s1)) (snd (next_value ro alpha fast std_parse fuel s2)))).

Check (C06_slice_stream_interrupts_agree :
  forall ro alpha fast std_parse (s : bytes) (inp : list event),
  strip inp = bytes_events s ->
  match from_trait ro alpha fast std_parse SrcSlice (bytes_events s), from_trait ro alpha fast std_parse SrcIo inp with
  | POk a, POk b => a = b
  | PErr (XErr (ESyntax c1 _ _)), PErr (XErr (ESyntax c2 _ _)) => c1 = c2
  | PErr (XErr (EIo a)), PErr (XErr (EIo b)) => a = b
  | _, _ => False
  end).

Check (C06_slice_stream_nonvacuous :
  let bad : bytes := [40; 97; 32; 255; 41]%N in       (* "(a \xFF)": not UTF-8 *)
  from_trait default_ro (fun _ => true) true dec_to_f64 SrcSlice (bytes_events bad) =
    PErr (XErr (ESyntax InvalidUnicodeCodePoint 1 4)) /\
  from_trait default_ro (fun _ => true) true dec_to_f64 SrcIo (bytes_events bad) =
    PErr (XErr (ESyntax InvalidUnicodeCodePoint 1 4)) /\
  prel (init_state SrcSlice (bytes_events bad)) (init_state SrcIo (bytes_events bad))).

Check (C06_interrupts_invisible_call :
  forall ro alpha fast std_parse fuel s1 s2, iprel s1 s2 ->
  fst (next_value ro alpha fast std_parse fuel s1) = fst (next_value ro alpha fast std_parse fuel s2) /\
  iprel (snd (next_value ro alpha fast std_parse fuel s1)) (snd (next_value ro alpha fast std_parse fuel s2))).

Check (C06_interrupts_invisible_datum_call :
  forall ro alpha fast std_parse fuel s1 s2, iprel s1 s2 ->
  fst (next_datum ro alpha fast std_parse fuel s1) = fst (next_datum ro alpha fast std_parse fuel s2) /\
  iprel (snd (next_datum ro alpha fast std_parse fuel s1)) (snd (next_datum ro alpha fast std_parse fuel s2))).

Check (C06_interrupts_invisible :
  forall ro alpha fast std_parse fuel inp1 inp2, strip inp1 = strip inp2 ->
  from_trait_with ro alpha fast std_parse fuel SrcIo inp1 = from_trait_with ro alpha fast std_parse fuel SrcIo inp2 /\
  forall n, iterate_values ro alpha fast std_parse fuel n (init_state SrcIo inp1) =
            iterate_values ro alpha fast std_parse fuel n (init_state SrcIo inp2)).

Check (C06_interrupts_nonvacuous :
  let a := [EInterrupted; EByte 40; EInterrupted; EInterrupted; EByte 97; EByte 32; EInterrupted; EByte 34; EByte 120; EInterrupted; EByte 34; EByte 41; EInterrupted] in
  let b := bytes_events (s2b "(a ""x"")") in
  strip a = strip b /\
  from_trait default_ro (fun _ => true) true dec_to_f64 SrcIo a = POk (vlist [Symbol (s2b "a"); String (s2b "x")]) /\
  from_trait default_ro (fun _ => true) true dec_to_f64 SrcIo b = POk (vlist [Symbol (s2b "a"); String (s2b "x")])).

Check (C06_nonvacuous :
  let run inp := from_trait default_ro (fun _ => true) true dec_to_f64 SrcIo inp in
  run [EByte 40%N; EByte 97%N; EFail 5%N; EByte 41%N] = PErr (XErr (EIo 5%N)) /\
  run [EByte 40%N; EInterrupted; EByte 97%N; EInterrupted; EInterrupted; EByte 41%N] = POk (vlist [Symbol [97%N]]) /\
  run [EByte 34%N; EByte 97%N; EInterrupted; EFail 7%N] = PErr (XErr (EIo 7%N)) /\
  run [EByte 49%N; EByte 50%N; EFail 9%N] = PErr (XErr (EIo 9%N))).

Check (C06_str_slice_agree :
  forall ro alpha fast std_parse (inp : list event),
  (exists l c, from_trait ro alpha fast std_parse SrcSlice inp = PErr (XErr (ESyntax InvalidUnicodeCodePoint l c))) \/
  from_trait ro alpha fast std_parse SrcStr inp = from_trait ro alpha fast std_parse SrcSlice inp).

Check (C06_str_slice_agree_datum :
  forall ro alpha fast std_parse (inp : list event),
  (exists l c, datum_from_trait ro alpha fast std_parse SrcSlice inp = PErr (XErr (ESyntax InvalidUnicodeCodePoint l c))) \/
  datum_from_trait ro alpha fast std_parse SrcStr inp = datum_from_trait ro alpha fast std_parse SrcSlice inp).

Check (C06_three_sources_agree :
  forall ro alpha fast std_parse (s : bytes),
  (exists l c, from_trait ro alpha fast std_parse SrcSlice (bytes_events s) = PErr (XErr (ESyntax InvalidUnicodeCodePoint l c))) \/
  (from_trait ro alpha fast std_parse SrcStr (bytes_events s) = from_trait ro alpha fast std_parse SrcSlice (bytes_events s) /\
   match from_trait ro alpha fast std_parse SrcSlice (bytes_events s), from_trait ro alpha fast std_parse SrcIo (bytes_events s) with
   | POk a, POk b => a = b
   | PErr (XErr (ESyntax c1 _ _)), PErr (XErr (ESyntax c2 _ _)) => c1 = c2
   | PErr (XErr (EIo a)), PErr (XErr (EIo b)) => a = b
   | _, _ => False
   end)).

Check (C06_str_slice_nonvacuous :
  let W : bytes := (s2b "(" ++ [206; 187] ++ s2b "x #:k ""a\x3bb;" ++ [240; 159; 146; 150] ++ s2b "\n"")")%N in
  let E : bytes := (s2b "(a " ++ [206; 187] ++ s2b " . )")%N in
  let bad : bytes := [40; 97; 32; 255; 41]%N in
  from_trait default_ro (fun _ => true) true dec_to_f64 SrcStr (bytes_events W) =
    POk (vlist [Symbol [206; 187; 120]%N; Keyword (s2b "k"); String ([97; 206; 187; 240; 159; 146; 150; 10]%N)]) /\
  from_trait default_ro (fun _ => true) true dec_to_f64 SrcSlice (bytes_events W) =
    POk (vlist [Symbol [206; 187; 120]%N; Keyword (s2b "k"); String ([97; 206; 187; 240; 159; 146; 150; 10]%N)]) /\
  from_trait default_ro (fun _ => true) true dec_to_f64 SrcStr (bytes_events E) =
    from_trait default_ro (fun _ => true) true dec_to_f64 SrcSlice (bytes_events E) /\
  (exists c l cl, from_trait default_ro (fun _ => true) true dec_to_f64 SrcSlice (bytes_events E) = PErr (XErr (ESyntax c l cl))) /\
  from_trait default_ro (fun _ => true) true dec_to_f64 SrcSlice (bytes_events bad) =
    PErr (XErr (ESyntax InvalidUnicodeCodePoint 1 4))).

Check (C06_str_slice_agree_on_text :
  forall W, utf8_valid W = true -> forall ro alpha fast std_parse,
  from_trait ro alpha fast std_parse SrcStr (bytes_events W) = from_trait ro alpha fast std_parse SrcSlice (bytes_events W) /\
  datum_from_trait ro alpha fast std_parse SrcStr (bytes_events W) = datum_from_trait ro alpha fast std_parse SrcSlice (bytes_events W)).

Check (C06_str_slice_every_call_on_text :
  forall W, utf8_valid W = true -> forall ro alpha fast std_parse fuel s1 s2,
  sprel s1 s2 -> okr W (rd s1) ->
  fst (next_value ro alpha fast std_parse fuel s1) = fst (next_value ro alpha fast std_parse fuel s2) /\
  sprel (snd (next_value ro alpha fast std_parse fuel s1)) (snd (next_value ro alpha fast std_parse fuel s2))).

Check (C06_three_sources_agree_on_text :
  forall W, utf8_valid W = true -> forall ro alpha fast std_parse,
  from_trait ro alpha fast std_parse SrcStr (bytes_events W) = from_trait ro alpha fast std_parse SrcSlice (bytes_events W) /\
  match from_trait ro alpha fast std_parse SrcSlice (bytes_events W), from_trait ro alpha fast std_parse SrcIo (bytes_events W) with
  | POk a, POk b => a = b
  | PErr (XErr (ESyntax c1 _ _)), PErr (XErr (ESyntax c2 _ _)) => c1 = c2
  | PErr (XErr (EIo a)), PErr (XErr (EIo b)) => a = b
  | _, _ => False
  end).

Check (C06_io_error_or_determined :
  forall ro alpha fast std_parse (pre post cont : list event) (e : N),
  from_trait ro alpha fast std_parse SrcIo (pre ++ EFail e :: post) = PErr (XErr (EIo e)) \/
  from_trait ro alpha fast std_parse SrcIo (pre ++ cont) = from_trait ro alpha fast std_parse SrcIo (pre ++ EFail e :: post)).

Check (C06_io_error_or_determined_datum :
  forall ro alpha fast std_parse (pre post cont : list event) (e : N),
  datum_from_trait ro alpha fast std_parse SrcIo (pre ++ EFail e :: post) = PErr (XErr (EIo e)) \/
  datum_from_trait ro alpha fast std_parse SrcIo (pre ++ cont) = datum_from_trait ro alpha fast std_parse SrcIo (pre ++ EFail e :: post)).

Check (C06_io_error_or_determined_nonvacuous :
  let run inp := from_trait default_ro (fun _ => true) true dec_to_f64 SrcIo inp in
  run (bytes_events (s2b "(a ") ++ [EFail 5%N]) = PErr (XErr (EIo 5%N)) /\
  run (bytes_events (s2b "12") ++ [EFail 6%N]) = PErr (XErr (EIo 6%N)) /\
  run (bytes_events (s2b "(a) ") ++ [EFail 7%N; EByte 41%N]) = PErr (XErr (EIo 7%N)) /\
  (exists l c, run (bytes_events (s2b "(a #z ") ++ [EFail 8%N]) = PErr (XErr (ESyntax ExpectedSomeIdent l c)) /\
               run (bytes_events (s2b "(a #z ") ++ bytes_events (s2b "b)")) = PErr (XErr (ESyntax ExpectedSomeIdent l c)) /\
               run (bytes_events (s2b "(a #z ")) = PErr (XErr (ESyntax ExpectedSomeIdent l c)))).

Check (C06_io_error_or_determined_every_call :
  forall e post cont ro alpha fast std_parse fuel s1 s2,
  IoFailProofs.sprel e post cont s1 s2 ->
  IoFailProofs.pesc e (fst (next_value ro alpha fast std_parse fuel s2)) \/
  fst (next_value ro alpha fast std_parse fuel s1) = PErr (XErr EFuel) \/
  (fst (next_value ro alpha fast std_parse fuel s1) = fst (next_value ro alpha fast std_parse fuel s2) /\
   depth (snd (next_value ro alpha fast std_parse fuel s1)) = depth (snd (next_value ro alpha fast std_parse fuel s2)) /\
   (IoFailProofs.is_pok (fst (next_value ro alpha fast std_parse fuel s2)) ->
    IoFailProofs.srel e post cont (rd (snd (next_value ro alpha fast std_parse fuel s1))) (rd (snd (next_value ro alpha fast std_parse fuel s2)))))).
