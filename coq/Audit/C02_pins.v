(* Pinned statements of the C02 theorems (generated once by bin/genpins, then committed):
   fails to compile if Props/C02.v is weakened, renamed or given other hypotheses. *)
From Coq Require Import SpecFloat.
Require Import Base Value Float PrintOptions Printer ParseOptions Utf8 Reader Scan Num NumberOps Parser.
Require Import TextProofs RoundtripProofs ElispText ElispRoundtrip.
Require Import Lexpr.Props.C02.

Check (C02_elisp_roundtrip_partial :
  forall ryu alpha fast std_parse k v,
  ert_ok v -> (rdepth v <= 127)%nat ->
  from_trait elisp_ro alpha fast std_parse k (bytes_events (print_custom ryu elisp_po v)) = POk (efold v)).

Check (C02_fold_is_documented :
  forall v,
  efold v = match v with
            | Nil => Null
            | Bool b => if b then Symbol (s2b "t") else Null
            | Symbol s => if beq_bytes s (s2b "nil") then Null else Symbol s
            | Bytes b => match b with [] => String [] | _ => Bytes b end
            | Cons a d => Cons (efold a) (efold d)
            | Vector l => Vector (map efold l)
            | _ => v
            end).

Check (C02_default_pairing_partial :
  forall ryu alpha fast std_parse k v,
  rt_ok alpha v -> (rdepth v <= 127)%nat ->
  from_trait default_ro alpha fast std_parse k (bytes_events (print_custom ryu default_po v)) = POk v).

Check (C02_nonvacuous :
  ert_ok c02_sample /\ (rdepth c02_sample <= 127)%nat /\
  print_custom (fun _ => []) elisp_po c02_sample = s2b "(setq :key [nil t nil 42 -7 ?\x3bb ?\( ?a ""\""\\\a" ++ [206; 187] ++ s2b """ ""\000\377"" """" ()] - . nil)" /\
  from_trait elisp_ro (fun _ => true) true dec_to_f64 SrcSlice (bytes_events (print_custom (fun _ => []) elisp_po c02_sample))
  = POk (efold c02_sample)).
