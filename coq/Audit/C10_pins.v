(* Pinned statements of the C10 theorems (generated once by bin/genpins, then committed):
   fails to compile if Props/C10.v is weakened, renamed or given other hypotheses. *)
From Coq Require Import SpecFloat.
Require Import Base Value Float PrintOptions ParseOptions Reader Scan Num Parser DatumProofs.
Require Import Lexpr.Props.C10.

Check (C10_next :
  forall ro alpha fast std_parse fuel s,
  next_value ro alpha fast std_parse fuel s =
  pmap (option_map dvalue) (next_datum ro alpha fast std_parse fuel s)).

Check (C10_streams :
  forall ro alpha fast std_parse fuel n s,
  iterate_values ro alpha fast std_parse fuel n s =
  map item_value (iterate_datums ro alpha fast std_parse fuel n s)).

Check (C10_from_trait :
  forall ro alpha fast std_parse k inp,
  from_trait ro alpha fast std_parse k inp =
  match datum_from_trait ro alpha fast std_parse k inp with
  | POk d => POk (dvalue d)
  | PErr e => PErr e
  end).

Check (C10_nonvacuous :
  let inp := bytes_events (s2b "(a 'b . #(1 ""x"")) [c] oops )") in
  let s := init_state SrcIo inp in
  length (iterate_datums default_ro (fun _ => true) true dec_to_f64 (fuel_for inp) 10 s) = 4%nat /\
  map item_value (iterate_datums default_ro (fun _ => true) true dec_to_f64 (fuel_for inp) 10 s) =
  iterate_values default_ro (fun _ => true) true dec_to_f64 (fuel_for inp) 10 s).
