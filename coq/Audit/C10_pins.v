(* Pinned statements of the C10 theorems (generated once by bin/genpins, then committed):
   fails to compile if Props/C10.v is weakened, renamed or given other hypotheses. *)
From Coq Require Import SpecFloat.
Require Import Base Value Float PrintOptions ParseOptions Reader Scan Num Parser ListOps DatumRef DatumProofs DatumRefProofs.
Require Import Lexpr.Props.C10.

Check (C10_next :
  forall ro alpha fast std_parse fuel s,
  next_value ro alpha fast std_parse fuel s =
  pmap (option_map dvalue) (next_datum ro alpha fast std_parse fuel s)).

Check (C10_streams :
  forall ro alpha fast std_parse fuel n s,
  iterate_values ro alpha fast std_parse fuel n s =
  map item_value (iterate_datums ro alpha fast std_parse fuel n s)).

Check (C10_from_trait :
  forall ro alpha fast std_parse k inp,
  from_trait ro alpha fast std_parse k inp =
  match datum_from_trait ro alpha fast std_parse k inp with
  | POk d => POk (dvalue d)
  | PErr e => PErr e
  end).

Check (C10_datums_shaped :
  forall ro alpha fast std_parse fuel s d s',
  next_datum ro alpha fast std_parse fuel s = (POk (Some d), s') -> shaped (dvalue d) (dinfo d)).

Check (C10_from_trait_shaped :
  forall ro alpha fast std_parse k inp d,
  datum_from_trait ro alpha fast std_parse k inp = POk d -> shaped (dvalue d) (dinfo d)).

Check (C10_accessors :
  forall r, shaped (fst r) (snd r) -> accessors_agree r).

Check (C10_accessors_everywhere :
  forall ro alpha fast std_parse k inp d r,
  datum_from_trait ro alpha fast std_parse k inp = POk d -> reach (datum_ref d) r -> accessors_agree r).

Check (C10_accessors_nonvacuous :
  match datum_from_trait default_ro (fun _ => true) true dec_to_f64 SrcStr (bytes_events (s2b "(a 'b . #(1 ""x""))")) with
  | POk d =>
      match ref_list_iter (datum_ref d) with
      | Some c =>
          match ref_drain 5 c with
          | Val items => map (option_map fst) items =
                         [Some (Symbol (s2b "a")); Some (vlist [Symbol (s2b "quote"); Symbol (s2b "b")]); None;
                          Some (Vector [Number (PosInt 1); String (s2b "x")]); None]
          | Panic => False
          end
      | None => False
      end
  | PErr _ => False
  end).

Check (C10_nonvacuous :
  let inp := bytes_events (s2b "(a 'b . #(1 ""x"")) [c] oops )") in
  let s := init_state SrcIo inp in
  length (iterate_datums default_ro (fun _ => true) true dec_to_f64 (fuel_for inp) 10 s) = 4%nat /\
  map item_value (iterate_datums default_ro (fun _ => true) true dec_to_f64 (fuel_for inp) 10 s) =
  iterate_values default_ro (fun _ => true) true dec_to_f64 (fuel_for inp) 10 s).
