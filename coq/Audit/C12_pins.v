(* Pinned statements of the C12 theorems (generated once by bin/genpins, then committed):
   fails to compile if Props/C12.v is weakened, renamed or given other hypotheses. *)
From Coq Require Import SpecFloat.
Require Import Base Value Float PrintOptions ParseOptions Reader Scan Num Parser DatumProofs DepthProofs.
Require Import ReaderProofs TokenProofs RoundtripProofs TriviaProofs ElispRoundtrip ElispTrivia PositionProofs SpanProofs FuelProofs FloatFuel CrossProofs SourcesAgree ValidTextProofs.
Require Import Lexpr.Props.C12.

Check (C12_four_ways :
  forall ro alpha fast std_parse fuel n s,
  iterate_values ro alpha fast std_parse fuel n s =
  map item_value (iterate_datums ro alpha fast std_parse fuel n s)).

Check (C12_histories :
  forall ro alpha fast std_parse fuel k inp cs,
  Forall (fun r => ~ call_fuel r) (run_history ro alpha fast std_parse fuel cs (init_state k inp)) ->
  Forall call_ok (run_history ro alpha fast std_parse fuel cs (init_state k inp))).

Check (C12_concat_partial :
  forall ryu alpha fast std_parse vs fuel n r D,
  Forall (fun v => rt_ok alpha v /\ N.of_nat (rdepth v) < D) vs -> D <= 128 ->
  (length (seq_txt ryu vs) + 16 + 1 <= fuel)%nat -> (length vs < n)%nat -> at_bytes r (seq_txt ryu vs) ->
  iterate_values default_ro alpha fast std_parse fuel n (mkp r D) = map (fun v => POk v) vs).

Check (C12_trivia_sequence_partial :
  forall ryu alpha fast std_parse ls first post fuel n r D,
  seq_ok ryu alpha first D ls -> trivia_eof post -> D <= 128 ->
  (length (seq_ltxt ryu ls post) + 16 + 2 <= fuel)%nat -> (length ls < n)%nat -> at_bytes r (seq_ltxt ryu ls post) ->
  iterate_values default_ro alpha fast std_parse fuel n (mkp r D) = map (fun pl => POk (lval (snd pl))) ls).

Check (C12_trivia_value_partial :
  forall ryu alpha fast std_parse k l pre post,
  trivia pre -> trivia_eof post -> lok ryu alpha l -> (ldepth l <= 127)%nat ->
  from_trait default_ro alpha fast std_parse k (bytes_events (pre ++ ltxt ryu l ++ post)) = POk (lval l)).

Check (C12_trivia_insensitive_partial :
  forall ryu alpha fast std_parse k l1 l2 pre1 post1 pre2 post2,
  trivia pre1 -> trivia_eof post1 -> lok ryu alpha l1 -> (ldepth l1 <= 127)%nat ->
  trivia pre2 -> trivia_eof post2 -> lok ryu alpha l2 -> (ldepth l2 <= 127)%nat -> lval l1 = lval l2 ->
  from_trait default_ro alpha fast std_parse k (bytes_events (pre1 ++ ltxt ryu l1 ++ post1)) =
  from_trait default_ro alpha fast std_parse k (bytes_events (pre2 ++ ltxt ryu l2 ++ post2))).

Check (C12_trivia_elisp_sequence_partial :
  forall ryu alpha fast std_parse ls first post fuel n r D,
  eseq_ok ryu first D ls -> trivia_eof post -> D <= 128 ->
  (length (seq_eltxt ryu ls post) + 16 + 2 <= fuel)%nat -> (length ls < n)%nat -> at_bytes r (seq_eltxt ryu ls post) ->
  iterate_values elisp_ro alpha fast std_parse fuel n (mkp r D) = map (fun pl => POk (elval (snd pl))) ls).

Check (C12_trivia_elisp_value_partial :
  forall ryu alpha fast std_parse k l pre post,
  trivia pre -> trivia_eof post -> elok ryu l -> (ldepth l <= 127)%nat ->
  from_trait elisp_ro alpha fast std_parse k (bytes_events (pre ++ eltxt ryu l ++ post)) = POk (elval l)).

Check (C12_trivia_elisp_nonvacuous :
  elok (fun _ => []) c12_elayout /\ (ldepth c12_elayout <= 127)%nat /\
  eltxt (fun _ => []) c12_elayout = s2b "[1 ;c" ++ [10] ++ s2b " 2" ++ [9] ++ s2b "(t . nil)" ++ [13] ++ s2b "]" /\
  elval c12_elayout = Vector [Number (PosInt 1); Number (PosInt 2); Cons (Symbol (s2b "t")) Null] /\
  forall k, from_trait elisp_ro (fun _ => true) true dec_to_f64 k (bytes_events (eltxt (fun _ => []) c12_elayout)) =
            POk (elval c12_elayout)).

Check (C12_trivia_bytes_nonvacuous :
  lok (fun _ => []) (fun _ => true) c12_bytes_layout /\ (ldepth c12_bytes_layout <= 127)%nat /\
  lval c12_bytes_layout = build [Symbol (s2b "x"); Bytes [1; 20; 255]; Symbol (s2b "y")] Null /\
  ltxt (fun _ => []) c12_bytes_layout =
    s2b "(x #u8 ;c" ++ [10] ++ s2b "(" ++ [9] ++ s2b "1" ++ [13; 10] ++ s2b "20 ;d" ++ [10] ++ s2b " 255" ++ [12] ++ s2b ") y)" /\
  forall k, from_trait default_ro (fun _ => true) true dec_to_f64 k
              (bytes_events (ltxt (fun _ => []) c12_bytes_layout)) = POk (lval c12_bytes_layout)).

Check (C12_layout_of_printed :
  forall ryu v, ltxt ryu (LAtom v) = TextProofs.txt ryu v /\ lval (LAtom v) = v).

Check (C12_trivia_nonvacuous :
  trivia [9] /\ trivia_eof (s2b " ; end") /\ lok (fun _ => []) (fun _ => true) c12_layout /\ (ldepth c12_layout <= 127)%nat /\
  lval c12_layout = c12_value /\
  ltxt (fun _ => []) c12_layout = s2b "( a ;c" ++ [10; 9] ++ s2b "(b . " ++ [13] ++ s2b "c" ++ [12] ++ s2b ")(d) #(1" ++ [10] ++ s2b "2 ) )" /\
  forall k, from_trait default_ro (fun _ => true) true dec_to_f64 k
              (bytes_events ([9] ++ ltxt (fun _ => []) c12_layout ++ s2b " ; end")) = POk c12_value).

Check (C12_items_consume_input :
  forall W ro alpha fast std_parse fuel s, inv W (rd s) ->
  match next_value ro alpha fast std_parse fuel s with
  | (POk (Some v), s') => inv W (rd s') /\ pos_lt (rpos (rd s)) (rpos (rd s'))
  | (POk None, s') => inv W (rd s')
  | (PErr _, _) => True
  end).

Check (C12_iteration_terminates :
  forall ro alpha fast std_parse k inp n,
  Forall (fun r => r <> PErr (XErr EFuel)) (iterate_values ro alpha fast std_parse (fuel_for inp) n (init_state k inp)) /\
  Forall (fun r => r <> PErr (XErr EFuel)) (iterate_datums ro alpha fast std_parse (fuel_for inp) n (init_state k inp)) /\
  (length (filter is_okb (iterate_values ro alpha fast std_parse (fuel_for inp) n (init_state k inp))) <= length inp)%nat /\
  (length (filter is_okb (iterate_datums ro alpha fast std_parse (fuel_for inp) n (init_state k inp))) <= length inp)%nat).

Check (C12_histories_total :
  forall ro alpha fast std_parse k inp cs,
  Forall call_ok (run_history ro alpha fast std_parse (fuel_for inp) cs (init_state k inp))).

Check (C12_iterate_slice_stream :
  forall ro alpha fast std_parse (s : bytes) n,
  Forall2 (rpres eq)
    (iterate_values ro alpha fast std_parse (fuel_for (bytes_events s)) n (init_state SrcSlice (bytes_events s)))
    (iterate_values ro alpha fast std_parse (fuel_for (bytes_events s)) n (init_state SrcIo (bytes_events s)))).

Check (C12_iterate_str_slice_on_text :
  forall W, Utf8.utf8_valid W = true -> forall ro alpha fast std_parse n,
  iterate_values ro alpha fast std_parse (fuel_for (bytes_events W)) n (init_state SrcStr (bytes_events W)) =
  iterate_values ro alpha fast std_parse (fuel_for (bytes_events W)) n (init_state SrcSlice (bytes_events W)) /\
  iterate_datums ro alpha fast std_parse (fuel_for (bytes_events W)) n (init_state SrcStr (bytes_events W)) =
  iterate_datums ro alpha fast std_parse (fuel_for (bytes_events W)) n (init_state SrcSlice (bytes_events W))).

Check (C12_closer_consumed :
  let inp := bytes_events (s2b "1 2 ) 3") in
  map (fun r => match r with POk v => Some v | PErr _ => None end)
      (iterate_values default_ro (fun _ => true) true dec_to_f64 (fuel_for inp) 10 (init_state SrcStr inp))
  = [Some (Number (PosInt 1)); Some (Number (PosInt 2)); None; Some (Number (PosInt 3))]).
