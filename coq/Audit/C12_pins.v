(* Pinned statements of the C12 theorems (generated once by bin/genpins, then committed):
   fails to compile if Props/C12.v is weakened, renamed or given other hypotheses. *)
From Coq Require Import SpecFloat.
Require Import Base Value Float PrintOptions ParseOptions Reader Scan Num Parser DatumProofs DepthProofs.
Require Import ReaderProofs RoundtripProofs.
Require Import Lexpr.Props.C12.

Check (C12_four_ways :
  forall ro alpha fast std_parse fuel n s,
  iterate_values ro alpha fast std_parse fuel n s =
  map item_value (iterate_datums ro alpha fast std_parse fuel n s)).

Check (C12_histories :
  forall ro alpha fast std_parse fuel k inp cs,
  Forall (fun r => ~ call_fuel r) (run_history ro alpha fast std_parse fuel cs (init_state k inp)) ->
  Forall call_ok (run_history ro alpha fast std_parse fuel cs (init_state k inp))).

Check (C12_concat_partial :
  forall ryu alpha fast std_parse vs fuel n r D,
  Forall (fun v => rt_ok alpha v /\ N.of_nat (rdepth v) < D) vs -> D <= 128 ->
  (length (seq_txt ryu vs) + 16 + 1 <= fuel)%nat -> (length vs < n)%nat -> at_bytes r (seq_txt ryu vs) ->
  iterate_values default_ro alpha fast std_parse fuel n (mkp r D) = map (fun v => POk v) vs).

Check (C12_closer_consumed :
  let inp := bytes_events (s2b "1 2 ) 3") in
  map (fun r => match r with POk v => Some v | PErr _ => None end)
      (iterate_values default_ro (fun _ => true) true dec_to_f64 (fuel_for inp) 10 (init_state SrcStr inp))
  = [Some (Number (PosInt 1)); Some (Number (PosInt 2)); None; Some (Number (PosInt 3))]).
