(* Pinned statements of the C04 theorems (generated once by bin/genpins, then committed):
   fails to compile if Props/C04.v is weakened, renamed or given other hypotheses. *)
From Coq Require Import SpecFloat Lia ZifyNat ZifyN.
Require Import Base Value Float NumberOps ListOps SerdeModel SerdeProofs.
Require Import PrintOptions Printer ParseOptions Reader Parser TextProofs RoundtripProofs SerdeTextProofs.
Require Import Lexpr.Props.C04.

Check (C04_value_roundtrip :
  forall (cast_f32 : f64 -> f64) (is_f32 : f64 -> bool),
  (forall f, is_f32 f = true -> cast_f32 f = f) ->
  forall t, wf_ty t -> forall d v, ser is_f32 t d = Some v -> de cast_f32 t v = SOk d).

Check (C04_injective :
  forall (cast_f32 : f64 -> f64) (is_f32 : f64 -> bool),
  (forall f, is_f32 f = true -> cast_f32 f = f) ->
  forall t, wf_ty t -> forall d1 d2 v, ser is_f32 t d1 = Some v -> ser is_f32 t d2 = Some v -> d1 = d2).

Check (C04_text_roundtrip_partial :
  forall (cast_f32 : f64 -> f64) (is_f32 : f64 -> bool),
  (forall f, is_f32 f = true -> cast_f32 f = f) ->
  forall ryu alpha fast std_parse k t, wf_ty t -> forall d v, ser is_f32 t d = Some v ->
  rt_ok alpha v -> (rdepth v <= 127)%nat ->
  match from_trait default_ro alpha fast std_parse k (bytes_events (print0 ryu v)) with
  | POk v' => de cast_f32 t v' = SOk d
  | PErr _ => False
  end).

Check (C04_serialized_in_class :
  forall alpha is_f32 t d v,
  text_ty alpha t -> text_data d -> ser is_f32 t d = Some v -> rt_ok alpha v).

Check (C04_serialized_depth :
  forall is_f32 t d v, ser is_f32 t d = Some v -> (rdepth v <= tdepth t)%nat).

Check (C04_identifier_names :
  forall alpha s, ident_b s = true -> plain_symbol alpha s).

Check (C04_text_roundtrip_float_free_partial :
  forall (cast_f32 : f64 -> f64) (is_f32 : f64 -> bool),
  (forall f, is_f32 f = true -> cast_f32 f = f) ->
  forall ryu alpha fast std_parse k t, wf_ty t -> text_ty alpha t -> (tdepth t <= 127)%nat ->
  forall d v, text_data d -> ser is_f32 t d = Some v ->
  match from_trait default_ro alpha fast std_parse k (bytes_events (print0 ryu v)) with
  | POk v' => de cast_f32 t v' = SOk d
  | PErr _ => False
  end).

Check (C04_nonvacuous :
  let t := TyStruct [([110], TyString); ([97], TyOption (TyInt false 8));
                     ([115], TyEnum [([68], VUnit); ([82], VTuple [TyInt true 32; TyInt true 32])]);
                     ([109], TyMap TyChar (TySeq TyBool))] in
  let d := DStruct [DString [120]; DNone; DEnum [82] (PTuple [DInt (-3); DInt 4]);
                    DMap [(DChar 97, DSeq [DBool true; DBool false])]] in
  wf_ty t /\ match ser (fun _ => true) t d with Some v => de (fun f => f) t v = SOk d | None => False end).

Check (C04_text_nonvacuous :
  let t := TyStruct [([110], TyString); ([97], TyOption (TyInt false 8));
                     ([115], TyEnum [([68], VUnit); ([82], VTuple [TyInt true 32; TyInt true 32])]);
                     ([109], TyMap TyChar (TySeq TyBool))] in
  let d := DStruct [DString [120]; DNone; DEnum [82] (PTuple [DInt (-3); DInt 4]);
                    DMap [(DChar 97, DSeq [DBool true; DBool false])]] in
  text_ty (fun _ => false) t /\ text_data d /\ (tdepth t <= 127)%nat).
