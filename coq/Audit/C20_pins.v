(* Pinned statements of the C20 theorems (generated once by bin/genpins, then committed):
   fails to compile if Props/C20.v is weakened, renamed or given other hypotheses. *)
From Coq Require Import SpecFloat.
Require Import Base Value Float NumberOps NumberProofs.
Require Import Lexpr.Props.C20.

Check (C20_one_kind :
  forall v, count_true (kind_predicates v) = 1%nat).

Check (C20_is_as :
  forall v,
  is_string v = isSome (as_str v) /\ is_symbol v = isSome (as_symbol v) /\
  is_keyword v = isSome (as_keyword v) /\ is_bytes v = isSome (as_bytes v) /\
  is_number v = isSome (as_number v) /\ is_boolean v = isSome (as_bool v) /\
  is_char v = isSome (as_char v) /\ is_nil v = isSome (as_nil v) /\
  is_null_v v = isSome (as_null v) /\ is_cons_v v = isSome (as_cons v) /\
  is_vector v = isSome (as_slice v) /\
  is_i64 v = isSome (as_i64 v) /\ is_u64 v = isSome (as_u64 v)).

Check (C20_f64 :
  forall v,
  (is_f64 v = true <-> exists f, v = Number (Float f)) /\ isSome (as_f64 v) = is_number v).

Check (C20_as_name :
  forall v,
  isSome (as_name v) = match kind_of v with KString | KSymbol | KKeyword => true | _ => false end).

Check (C20_from_signed :
  forall bits i, signed_in_range bits i = true -> (bits <= 64)%N -> (1 <= bits)%N ->
  let v := value_from_prim (PSigned bits i) in
  as_i64 v = Some i /\
  as_u64 v = (if (0 <=? i)%Z then Some (Z.to_N i) else None) /\
  is_f64 v = false /\
  as_f64 v = Some (f64_of_Z i) /\
  int_value v = Some i).

Check (C20_from_unsigned :
  forall bits u, unsigned_in_range bits u = true -> (bits <= 64)%N ->
  let v := value_from_prim (PUnsigned bits u) in
  as_u64 v = Some u /\
  as_i64 v = (if (Z.of_N u <=? i64_max)%Z then Some (Z.of_N u) else None) /\
  is_f64 v = false /\
  as_f64 v = Some (f64_of_N u) /\
  int_value v = Some (Z.of_N u)).

Check (C20_from_float :
  forall f,
  let v := value_from_prim (PF64 f) in
  as_f64 v = Some f /\ as_i64 v = None /\ as_u64 v = None /\ is_f64 v = true /\
  is_i64 v = false /\ is_u64 v = false).

Check (C20_from_f32 :
  forall x,
  let v := value_from_prim (PF32 x) in
  as_f64 v = Some (f64_of_f32 x) /\ as_i64 v = None /\ as_u64 v = None /\ is_f64 v = true).

Check (C20_payloads :
  (forall s, as_str (String s) = Some s) /\ (forall c, as_char (Char c) = Some c) /\
  (forall b, as_bool (Bool b) = Some b) /\ (forall b, as_bytes (Bytes b) = Some b) /\
  (forall a d, as_pair (Cons a d) = Some (a, d)) /\ (forall l, as_slice (Vector l) = Some l) /\
  (forall s, as_symbol (Symbol s) = Some s) /\ (forall s, as_keyword (Keyword s) = Some s)).

Check (C20_compare :
  forall v p,
  value_eq_prim v p = prim_eq_value p v /\
  value_eq_prim v p =
  match p with
  | PSigned _ i => match as_i64 v with Some x => (x =? i)%Z | None => false end
  | PUnsigned _ u => match as_u64 v with Some x => x =? u | None => false end
  | PF32 x => match as_f64 v with Some y => f64_eqb y (f64_of_f32 x) | None => false end
  | PF64 f => match as_f64 v with Some y => f64_eqb y f | None => false end
  | PBool b => match as_bool v with Some x => Bool.eqb x b | None => false end
  | PStr s => match as_str v with Some x => beq_bytes x s | None => false end
  end).

Check (C20_compare_signed :
  forall v bits i, signed_in_range bits i = true -> (1 <= bits <= 64)%N ->
  (forall z, v = Number (NegInt z) -> (i64_min <= z < 0)%Z) ->
  (forall n, v = Number (PosInt n) -> (n <= u64_max)%N) ->
  value_eq_prim v (PSigned bits i) = true <-> int_value v = Some i).

Check (C20_compare_unsigned :
  forall v bits u, unsigned_in_range bits u = true -> (bits <= 64)%N ->
  (forall z, v = Number (NegInt z) -> (z < 0)%Z) ->
  value_eq_prim v (PUnsigned bits u) = true <-> int_value v = Some (Z.of_N u)).

Check (C20_nonvacuous :
  signed_in_range 64 (-5) = true /\
  value_eq_prim (value_from_prim (PSigned 64 5)) (PUnsigned 64 5) = true /\
  value_eq_prim (value_from_prim (PUnsigned 64 18446744073709551615)) (PSigned 64 (-1)) = false /\
  as_f64 (value_from_prim (PUnsigned 64 9007199254740993)) = Some (f64_of_bits 4845873199050653696)).
