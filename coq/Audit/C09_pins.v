(* Pinned statements of the C09 theorems (generated once by bin/genpins, then committed):
   fails to compile if Props/C09.v is weakened, renamed or given other hypotheses. *)
From Coq Require Import SpecFloat.
Require Import Base Value Float NumberOps ListOps Macro PrintOptions Printer ParseOptions Reader Parser.
Require Import TextProofs RoundtripProofs MacroProofs.
Require Import Lexpr.Props.C09.

Check (C09_macro_reads_documented_spelling :
  forall is_ident ev v, cok v ->
  exists m, macro_parse (spell is_ident v) = MOk m /\ meval ev m = v).

Check (C09_agrees_with_text_parser_partial :
  forall is_ident ev ryu alpha fast std_parse k v,
  cok v -> rt_ok alpha v -> (rdepth v <= 127)%nat ->
  exists m, macro_parse (spell is_ident v) = MOk m /\
            from_trait default_ro alpha fast std_parse k (bytes_events (print0 ryu v)) = POk (meval ev m)).

Check (C09_unquote :
  forall ev f sp t rest,
  mparse (S f) (Punct 44 sp :: t :: rest) = MOk (MUnquoted t, rest) /\ meval ev (MUnquoted t) = ev t).

Check (C09_unquote_as_tail :
  forall ev t,
  match macro_parse [Group Paren [Ident (s2b "a"); Punct 46 Alone; Punct 44 Alone; t]] with
  | MOk m => meval ev m = Cons (Symbol (s2b "a")) (ev t)
  | MErr _ => False
  end).

Check (C09_minus_literal_refuted :
  forall ev,
  match macro_parse [Group Paren [Punct 45 Alone; Lit (LInt 1); Lit (LInt 2)]] with
  | MOk m => meval ev m = vlist [Number (NegInt (-1)); Number (PosInt 2)]
  | MErr _ => False
  end).

Check (C09_nonvacuous :
  let v := Cons (Symbol (s2b "define")) (Cons (Vector [Number (NegInt (-5)); Bool true; Nil; Keyword (s2b "k"); String (s2b "s")])
             (Cons (Number (Float (f64_of_bits 13832806255468478464))) (Symbol (s2b "not an ident")))) in
  cok v /\ match macro_parse (spell (fun s => beq_bytes s (s2b "define") || beq_bytes s (s2b "k")) v) with
           | MOk m => meval (fun _ => Nil) m = v
           | MErr _ => False
           end).

Check (C09_punctuation_symbols :
  let is_ident := fun s => beq_bytes s (s2b "a") in
  let v := Cons (Symbol (s2b "<=")) (Cons (vlist [Symbol (s2b "+"); Symbol (s2b "a"); Symbol (s2b "...")])
             (Cons (Symbol (s2b "->")) (Symbol (s2b "/")))) in
  cok v /\
  spell is_ident (Symbol (s2b "<=")) = [Punct 60 Joint; Punct 61 Alone] /\
  spell is_ident (Symbol (s2b "...")) = [Punct 46 Joint; Punct 46 Joint; Punct 46 Alone] /\
  spell is_ident (Symbol (s2b "-")) = [Punct 35 Alone; Lit (LStr (s2b "-") (s2b "-"))] /\
  match macro_parse (spell is_ident v) with
  | MOk m => meval (fun _ => Nil) m = v
  | MErr _ => False
  end).
