(* Pinned statements of the C15 theorems (generated once by bin/genpins, then committed):
   fails to compile if Props/C15.v is weakened, renamed or given other hypotheses. *)
Require Import Base Value NumberOps ListOps ListProofs.
Require Import Lexpr.Props.C15.

Check (C15_merge :
  forall xs ys t, value_append xs (value_append ys t) = value_append (xs ++ ys) t).

Check (C15_to_vec :
  forall x xs t, is_cons t = false ->
  cons_to_vec x (build xs t) = (x :: xs, t) /\ cons_into_vec x (build xs t) = Some (x :: xs, t)).

Check (C15_value_to_vec :
  forall xs t, is_cons t = false ->
  value_to_vec (build xs t) =
  match xs with
  | [] => match t with Null => Some [] | _ => None end
  | _ => if is_null t then Some xs else None
  end).

Check (C15_iter_cells :
  forall x xs t, is_cons t = false ->
  length (iter_cells x (build xs t)) = length (x :: xs)).

Check (C15_list_iter :
  forall x xs t k, is_cons t = false ->
  drain (S (length xs) + (3 + k)) (LCons x (build xs t)) =
  map Some (x :: xs) ++
    (if is_null t then repeat None (3 + k) else [None; Some t; None] ++ repeat None k)).

Check (C15_into_iter :
  forall pre l t x xs, is_cons t = false -> x :: xs = pre ++ [l] ->
  into_iter_items x (build xs t) = map (fun e => (e, None)) pre ++ [(l, Some t)]).

Check (C15_get_pos :
  forall xs t i, is_cons t = false -> (xs <> [] \/ is_vector t = false) ->
  get_usize (build xs t) i = nth_error xs (N.to_nat i)).

Check (C15_get_vector :
  forall l i, get_usize (Vector l) i = nth_error l (N.to_nat i)).

Check (C15_predicates :
  forall v, is_list v = negb (is_dotted_list v)).

Check (C15_is_list :
  forall xs t, is_cons t = false -> is_list (build xs t) = is_null t).

Check (C15_assoc :
  forall xs t, is_cons t = false ->
  (forall name, get_str (build xs t) name =
     match xs with [] => None | _ => first_match (match_pair_name name) xs end) /\
  (forall key, get_value (build xs t) key =
     match xs with [] => None | _ => first_match (match_pair_key key) xs end)).

Check (C15_index_total :
  forall v i name key,
  (exists r, index_or_nil (get_usize v i) = r) /\
  (exists r, index_or_nil (get_str v name) = r) /\
  (exists r, index_or_nil (get_value v key) = r) /\
  (is_cons_v v = false -> is_vector v = false -> get_usize v i = None) /\
  (is_cons_v v = false -> get_str v name = None /\ get_value v key = None)).

Check (C15_nonvacuous :
  let t := Symbol (s2b "z") in
  let xs := [Number (PosInt 1); Cons (String (s2b "k")) (Bool true); Nil] in
  is_cons t = false /\
  cons_to_vec (Number (PosInt 0)) (build xs t) = (Number (PosInt 0) :: xs, t) /\
  get_str (build xs t) (s2b "k") = Some (Bool true) /\
  get_usize (build xs t) 18446744073709551615 = None).
