(* Pinned statements of the C07 theorems: fails to compile if Props/C07.v is
   weakened, renamed or given different hypotheses. *)
Require Import Base Value PrintOptions Printer Sink PrinterProofs SinkProofs.
Require Import Lexpr.Props.C07.

Check (C07_all_write_all : forall (ryu : f64 -> bytes) (po : print_options) (v : value),
  all_wall (trace_custom ryu po v) /\ all_wall (trace0 ryu v)).

Check (C07_sink : forall (s : sched) (t : trace), all_wall t ->
  let '(r, d) := run_sink s [] t in
  (exists rest, flatten t = d ++ rest) /\
  (r = WOk -> d = flatten t) /\
  (forall lim, limit s = Some lim -> (lim < N.of_nat (length (flatten t)))%N ->
     r = (if hard s then WErrHard else WErrZero) /\ d = firstn (N.to_nat lim) (flatten t)) /\
  ((limit s = None \/ exists lim, limit s = Some lim /\ (N.of_nat (length (flatten t)) <= lim)%N) ->
     r = WOk /\ d = flatten t)).

Check (C07_print_to_sink : forall (ryu : f64 -> bytes) (po : print_options) (v : value) (s : sched),
  let '(r, d) := run_sink s [] (trace_custom ryu po v) in
  (exists rest, print_custom ryu po v = d ++ rest) /\
  (r = WOk -> d = print_custom ryu po v) /\
  (forall lim, limit s = Some lim -> (lim < N.of_nat (length (print_custom ryu po v)))%N ->
     r <> WOk /\ d = firstn (N.to_nat lim) (print_custom ryu po v))).

Check (C07_default_eq_custom : forall (ryu : f64 -> bytes) (v : value),
  trace0 ryu v = trace_custom ryu default_po v).

(* all_wall means: no chunk is a bare write *)
Check (eq_refl : all_wall = fun t => Forall (fun c => fst c = WAll) t).
