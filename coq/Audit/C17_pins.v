(* Pinned statements of the C17 theorems (generated once by bin/genpins, then committed):
   fails to compile if Props/C17.v is weakened, renamed or given other hypotheses. *)
From Coq Require Import SpecFloat.
Require Import Base Value Float PrintOptions Printer ParseOptions Utf8 Reader Scan Num NumberOps Parser.
Require Import Utf8Proofs Utf8PrintProofs Utf8ParseProofs DatumProofs Utf8StrProofs.
Require Import Lexpr.Props.C17.

Check (C17_printer_default :
  forall ryu, (forall f, all_ascii (ryu f)) ->
  forall v, strs_valid v -> utf8_valid (print0 ryu v) = true).

Check (C17_printer_every_option_set :
  forall ryu, (forall f, all_ascii (ryu f)) ->
  forall po v, strs_valid v -> utf8_valid (print_custom ryu po v) = true).

Check (C17_parser_entry_points :
  forall ro alpha fast std_parse k inp v, k <> SrcStr ->
  from_trait ro alpha fast std_parse k inp = POk v -> strs_valid v).

Check (C17_parser_datum_entry_points :
  forall ro alpha fast std_parse k inp d, k <> SrcStr ->
  datum_from_trait ro alpha fast std_parse k inp = POk d -> strs_valid (dvalue d)).

Check (C17_parser_every_call :
  forall ro alpha fast std_parse k fuel s o s', k <> SrcStr -> rk (rd s) = k ->
  next_value ro alpha fast std_parse fuel s = (POk (Some o), s') -> strs_valid o).

Check (C17_str_input :
  forall ro alpha fast std_parse W v, utf8_valid W = true ->
  from_trait ro alpha fast std_parse SrcStr (bytes_events W) = POk v -> strs_valid v).

Check (C17_str_input_datum :
  forall ro alpha fast std_parse W d, utf8_valid W = true ->
  datum_from_trait ro alpha fast std_parse SrcStr (bytes_events W) = POk d -> strs_valid (dvalue d)).

Check (C17_str_every_call :
  forall W ro alpha fast std_parse fuel s, utf8_valid W = true -> okr W (rd s) ->
  match next_value ro alpha fast std_parse fuel s with
  | (POk (Some v), s') => okr W (rd s') /\ strs_valid v
  | (POk None, s') => okr W (rd s')
  | (PErr _, _) => True
  end).

Check (C17_str_nonvacuous :
  let W := s2b "(" ++ [206; 187] ++ s2b "x #:k ""a\x3bb;" ++ [240; 159; 146; 150] ++ s2b "\n"")" in
  utf8_valid W = true /\
  from_trait default_ro (fun _ => true) true dec_to_f64 SrcStr (bytes_events W) =
    POk (vlist [Symbol [206; 187; 120]; Keyword (s2b "k"); String ([97; 206; 187; 240; 159; 146; 150; 10])])).

Check (C17_valid_is_sequences :
  forall l, utf8_valid l = true <-> seqs l).

Check (C17_nonvacuous :
  let run inp := from_trait default_ro (fun _ => true) true dec_to_f64 SrcSlice (bytes_events inp) in
  (exists l cl, run [97; 255] = PErr (XErr (ESyntax InvalidUnicodeCodePoint l cl))) /\
  (exists l cl, run [34; 192; 128; 34] = PErr (XErr (ESyntax InvalidUnicodeCodePoint l cl))) /\
  run [34; 206; 187; 34] = POk (String [206; 187]) /\
  utf8_valid [237; 160; 128] = false /\ utf8_valid [192; 175] = false /\ utf8_valid [240; 159; 146; 150] = true).
