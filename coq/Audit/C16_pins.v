(* Pinned statements of the C16 theorems (generated once by bin/genpins, then committed):
   fails to compile if Props/C16.v is weakened, renamed or given other hypotheses. *)
Require Import Base Value Depth DepthCost.
Require Import Lexpr.Props.C16.
Local Open Scope nat_scope.

Check (C16_loop_shape_bound :
  forall v,
  walk_depth v <= nesting v + 1 /\ walk_rest v <= nesting_rest v + 1).

Check (C16_flat_list :
  forall xs t,
  Forall (fun x => nesting x = 0) xs -> nesting_rest t = 0 -> xs <> [] ->
  walk_depth (build xs t) <= 2).

Check (C16_derived_shape_linear :
  forall xs t, length xs <= derived_depth (build xs t)).

Check (C16_nonvacuous :
  let xs := repeat (Number (PosInt 7)) 1000 in
  walk_depth (build xs Null) = 2 /\ derived_depth (build xs Null) = 1001).
