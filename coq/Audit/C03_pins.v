(* Pinned statements of the C03 theorems (generated once by bin/genpins, then committed):
   fails to compile if Props/C03.v is weakened, renamed or given other hypotheses. *)
From Coq Require Import SpecFloat.
Require Import Base Value Float PrintOptions ParseOptions Reader Scan Num Parser DepthProofs DepthBoundProofs FuelProofs FloatFuel SourcesAgree RejectProofs.
Require Import Lexpr.Props.C03.

Check (C03_budget_restored :
  forall ro alpha fast std_parse fuel s, depth_ok s ->
  (no_panic (fst (next_value ro alpha fast std_parse fuel s)) /\
   (~ out_of_fuel_p (fst (next_value ro alpha fast std_parse fuel s)) ->
    depth (snd (next_value ro alpha fast std_parse fuel s)) = depth s)) /\
  (no_panic (fst (next_datum ro alpha fast std_parse fuel s)) /\
   (~ out_of_fuel_p (fst (next_datum ro alpha fast std_parse fuel s)) ->
    depth (snd (next_datum ro alpha fast std_parse fuel s)) = depth s))).

Check (C03_history :
  forall ro alpha fast std_parse fuel k inp cs,
  Forall (fun r => ~ call_fuel r) (run_history ro alpha fast std_parse fuel cs (init_state k inp)) ->
  Forall call_ok (run_history ro alpha fast std_parse fuel cs (init_state k inp))).

Check (C03_from_trait_no_panic :
  forall ro alpha fast std_parse k inp,
  no_panic (from_trait ro alpha fast std_parse k inp) /\
  no_panic (datum_from_trait ro alpha fast std_parse k inp)).

Check (C03_total :
  forall ro alpha fast std_parse k inp,
  (from_trait ro alpha fast std_parse k inp <> PErr (XErr EFuel) /\
   no_panic (from_trait ro alpha fast std_parse k inp)) /\
  (datum_from_trait ro alpha fast std_parse k inp <> PErr (XErr EFuel) /\
   no_panic (datum_from_trait ro alpha fast std_parse k inp))).

Check (C03_history_total :
  forall ro alpha fast std_parse k inp cs,
  Forall (fun r => ~ call_fuel r) (run_history ro alpha fast std_parse (fuel_for inp) cs (init_state k inp)) /\
  Forall call_ok (run_history ro alpha fast std_parse (fuel_for inp) cs (init_state k inp))).

Check (C03_fuel_irrelevant :
  forall ro alpha fast std_parse fuel k inp, (fuel_for inp <= fuel)%nat ->
  from_trait_fuel ro alpha fast std_parse fuel k inp = from_trait ro alpha fast std_parse k inp /\
  datum_from_trait_fuel ro alpha fast std_parse fuel k inp = datum_from_trait ro alpha fast std_parse k inp).

Check (C03_fuel_irrelevant_every_call :
  forall ro alpha fast std_parse fi fs n s,
  (2 * n + 3 <= fi)%nat -> (fi <= fs)%nat -> (FuelProofs.rem (rd s) <= n)%nat ->
  next_value ro alpha fast std_parse fi s = next_value ro alpha fast std_parse fs s /\
  next_datum ro alpha fast std_parse fi s = next_datum ro alpha fast std_parse fs s).

Check (C03_depth_every_call :
  forall ro alpha fast std_parse fuel D s, depth s = D -> 1 <= D <= 128 ->
  match next_value ro alpha fast std_parse fuel s with
  | (POk (Some v), s') => N.of_nat (vdepth v) < D /\ depth s' = D
  | (POk None, s') => depth s' = D
  | (PErr _, _) => True
  end).

Check (C03_depth_bounded :
  forall ro alpha fast std_parse k inp v,
  from_trait ro alpha fast std_parse k inp = POk v -> (vdepth v <= 127)%nat).

Check (C03_reject_code :
  forall ro alpha fast std_parse k (ops : list opener) (rest : bytes), (128 <= length ops)%nat ->
  exists l c, from_trait ro alpha fast std_parse k (bytes_events (otexts ops ++ rest)) =
              PErr (XErr (ESyntax RecursionLimitExceeded l c))).

Check (C03_reject_code_every_call :
  forall ro alpha fast std_parse (ops : list opener) fuel r (rest : bytes),
  ops <> [] -> N.of_nat (length ops) <= 128 ->
  (2 * length ops + length (otexts ops ++ rest) + 3 <= fuel)%nat -> ReaderProofs.at_bytes r (otexts ops ++ rest) ->
  exists l c s', next_value ro alpha fast std_parse fuel (mk r (N.of_nat (length ops))) =
                   (PErr (XErr (ESyntax RecursionLimitExceeded l c)), s') /\ depth s' = N.of_nat (length ops)).

Check (C03_limit_witness :
  forallb (fun k =>
    is_ok (from_trait default_ro (fun _ => true) true dec_to_f64 k (bytes_events (parens 127))) &&
    is_limit (from_trait default_ro (fun _ => true) true dec_to_f64 k (bytes_events (parens 128))) &&
    is_ok (from_trait default_ro (fun _ => true) true dec_to_f64 k (bytes_events (quotes 127))) &&
    is_limit (from_trait default_ro (fun _ => true) true dec_to_f64 k (bytes_events (quotes 128))) &&
    is_limit (datum_from_trait default_ro (fun _ => true) true dec_to_f64 k (bytes_events (quotes 128))))
    [SrcStr; SrcSlice; SrcIo] = true).

Check (C03_depth_tight :
  match from_trait default_ro (fun _ => true) true dec_to_f64 SrcSlice (bytes_events (parens 127)) with
  | POk v => vdepth v = 127%nat
  | PErr _ => False
  end).
