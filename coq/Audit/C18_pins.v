(* Pinned statements of the C18 theorems (generated once by bin/genpins, then committed):
   fails to compile if Props/C18.v is weakened, renamed or given other hypotheses. *)
From Coq Require Import SpecFloat.
Require Import Base Value Float NumberOps ListOps SerdeModel SerdeProofs.
Require Import Lexpr.Props.C18.

Check (C18_total :
  forall (cast_f32 : f64 -> f64) t v,
  (exists d, de cast_f32 t v = SOk d) \/ de cast_f32 t v = SErr SData).

Check (C18_typed :
  forall (cast_f32 : f64 -> f64) (is_f32 : f64 -> bool),
  (forall f, is_f32 (cast_f32 f) = true) ->
  forall t v d, de cast_f32 t v = SOk d -> exists v', ser is_f32 t d = Some v').

Check (C18_normalise :
  forall (cast_f32 : f64 -> f64) (is_f32 : f64 -> bool),
  (forall f, is_f32 f = true -> cast_f32 f = f) -> (forall f, is_f32 (cast_f32 f) = true) ->
  forall t v d, wf_ty t -> de cast_f32 t v = SOk d ->
  exists v', ser is_f32 t d = Some v' /\ de cast_f32 t v' = SOk d).

Check (C18_nonvacuous :
  (* a vector where a list is expected, an integer where a float is expected, an unknown field *)
  de (fun f => f) (TyStruct [(s2b "xs", TySeq TyF64); (s2b "o", TyOption TyBool)])
     (vlist [Cons (Symbol (s2b "zzz")) Nil; Cons (Symbol (s2b "xs")) (Vector [Number (PosInt 2)])])
  = SOk (DStruct [DSeq [DF64 (f64_of_N 2)]; DNone])).
