(* Pinned statements of the C14 theorems (generated once by bin/genpins, then committed):
   fails to compile if Props/C14.v is weakened, renamed or given other hypotheses. *)
From Coq Require Import SpecFloat.
Require Import Base Value Float NumberOps ListOps SerdeModel SerdeProofs.
Require Import Lexpr.Props.C14.

Check (C14_shapes :
  forall (is_f32 : f64 -> bool),
  ser is_f32 TyUnit DUnit = Some Null /\
  (forall t, ser is_f32 (TyOption t) DNone = Some Null) /\
  (forall t x, ser is_f32 (TyOption t) (DSome x) = option_map (fun v => vlist [v]) (ser is_f32 t x)) /\
  (forall t l, ser is_f32 (TySeq t) (DSeq l) = option_map value_list (ser_seq is_f32 t l)) /\
  (forall ts l, ser is_f32 (TyTuple ts) (DTuple l) = option_map Vector (ser_tuple is_f32 ts l)) /\
  (forall kt vt l, ser is_f32 (TyMap kt vt) (DMap l) = option_map value_list (ser_map is_f32 kt vt l)) /\
  (forall fs l, ser is_f32 (TyStruct fs) (DStruct l) = option_map value_list (ser_fields is_f32 fs l)) /\
  (forall t x, ser is_f32 (TyNewtype t) (DNewtype x) = ser is_f32 t x) /\
  (forall b, ser is_f32 TyByteBuf (DBytes b) = Some (Bytes b)) /\
  (forall c, ser is_f32 TyChar (DChar c) = Some (Char c)) /\
  (forall s, ser is_f32 TyString (DString s) = Some (String s)) /\
  (forall b, ser is_f32 TyBool (DBool b) = Some (Bool b))).

Check (C14_seq_proper :
  forall vs, ListOps.is_list (value_list vs) = true).

Check (C14_entries :
  forall (is_f32 : f64 -> bool),
  (forall kt vt l vs, ser_map is_f32 kt vt l = Some vs ->
     Forall2 (fun e kv => exists k v, ser is_f32 kt (fst kv) = Some k /\ ser is_f32 vt (snd kv) = Some v /\ e = Cons k v) vs l) /\
  (forall fs l vs, ser_fields is_f32 fs l = Some vs ->
     Forall2 (fun e f => exists v, e = Cons (Symbol (fst f)) v) vs fs)).

Check (C14_variants :
  forall (is_f32 : f64 -> bool) name,
  ser_variant is_f32 name VUnit PUnit = Some (Symbol name) /\
  (forall t x, ser_variant is_f32 name (VNewtype t) (PNewtype x) =
               option_map (fun v => Cons (Symbol name) v) (ser is_f32 t x)) /\
  (forall ts l, ser_variant is_f32 name (VTuple ts) (PTuple l) =
                option_map (fun vs => vlist (Symbol name :: vs)) (ser_tuple is_f32 ts l)) /\
  (forall fs l, ser_variant is_f32 name (VStruct fs) (PStruct l) =
                option_map (fun vs => vlist (Symbol name :: vs)) (ser_fields is_f32 fs l))).

Check (C14_int_value :
  forall s bits z, int_in_range s bits z = true -> (bits <= 64)%N ->
  NumberProofs.int_value (ser_int s bits z) = Some z).

Check (C14_accept_alt :
  forall (cast_f32 : f64 -> f64),
  (forall t vs, de cast_f32 (TySeq t) (Vector vs) = de cast_f32 (TySeq t) (value_list vs)) /\
  (forall ts vs, length vs = length ts -> vs <> [] ->
                 de cast_f32 (TyTuple ts) (value_list vs) = de cast_f32 (TyTuple ts) (Vector vs))).

Check (C14_reject :
  forall (cast_f32 : f64 -> f64) t,
  (forall v, improper_or_wrong v -> de cast_f32 (TySeq t) v = SErr SData) /\
  (forall a xs tl, is_cons tl = false -> is_null tl = false -> improper_or_wrong (Cons a (build xs tl)))).

Check (C14_reject_tuple :
  forall (cast_f32 : f64 -> f64) ts v,
  improper_or_wrong v -> de cast_f32 (TyTuple ts) v = SErr SData).
