(* Pinned statements of the C01 theorems (generated once by bin/genpins, then committed):
   fails to compile if Props/C01.v is weakened, renamed or given other hypotheses. *)
From Coq Require Import SpecFloat.
Require Import Base Value Float PrintOptions Printer ParseOptions Utf8 Reader Scan Num NumberOps Parser.
Require Import ScanProofs TextProofs TokenProofs CharStrProofs DatumProofs RoundtripProofs.
Require Import Lexpr.Props.C01.

Check (C01_roundtrip_partial :
  forall ryu alpha fast std_parse k v,
  rt_ok alpha v -> (rdepth v <= 127)%nat ->
  from_trait default_ro alpha fast std_parse k (bytes_events (print0 ryu v)) = POk v).

Check (C01_roundtrip_datum_partial :
  forall ryu alpha fast std_parse k v,
  rt_ok alpha v -> (rdepth v <= 127)%nat ->
  exists d, datum_from_trait default_ro alpha fast std_parse k (bytes_events (print0 ryu v)) = POk d /\ dvalue d = v).

Check (C01_reads_exactly_partial :
  forall ryu alpha fast std_parse v fuel r D pre rest,
  trivia pre -> rt_ok alpha v -> N.of_nat (rdepth v) < D -> D <= 128 ->
  (length pre + length (print0 ryu v) + 16 <= fuel)%nat ->
  ReaderProofs.at_bytes r (pre ++ print0 ryu v ++ rest) -> delim_ok rest ->
  exists r', next_value default_ro alpha fast std_parse fuel (mkp r D) = (POk (Some v), mkp r' D) /\
             ReaderProofs.at_bytes r' rest /\ rk r' = rk r).

Check (C01_nonvacuous :
  rt_ok (fun _ => true) c01_sample /\ (rdepth c01_sample <= 127)%nat /\
  from_trait default_ro (fun _ => true) true dec_to_f64 SrcIo (bytes_events (print0 (fun _ => []) c01_sample)) = POk c01_sample).
