(* Pinned statements of the C19 theorems (generated once by bin/genpins, then committed):
   fails to compile if Props/C19.v is weakened, renamed or given other hypotheses. *)
From Coq Require Import SpecFloat.
Require Import Base Value Float PrintOptions ParseOptions Utf8 Reader Scan Num NumberOps Parser.
Require Import RelFramework PositionProofs SourcesAgree ValidTextProofs TruncProofs.
Require Import Lexpr.Props.C19.

Check (C19_from_trait_location :
  forall ro alpha fast std_parse k inp c l cl,
  from_trait ro alpha fast std_parse k inp = PErr (XErr (ESyntax c l cl)) -> in_bounds (bytes_in inp) l cl).

Check (C19_datum_from_trait_location :
  forall ro alpha fast std_parse k inp c l cl,
  datum_from_trait ro alpha fast std_parse k inp = PErr (XErr (ESyntax c l cl)) -> in_bounds (bytes_in inp) l cl).

Check (C19_every_call_value :
  forall W ro alpha fast std_parse fuel s, inv W (rd s) ->
  let '(x, s') := next_value ro alpha fast std_parse fuel s in
  inv W (rd s') /\ (forall c l cl, x = PErr (XErr (ESyntax c l cl)) -> prefix_pos W l cl)).

Check (C19_every_call_datum :
  forall W ro alpha fast std_parse fuel s, inv W (rd s) ->
  let '(x, s') := next_datum ro alpha fast std_parse fuel s in
  inv W (rd s') /\ (forall c l cl, x = PErr (XErr (ESyntax c l cl)) -> prefix_pos W l cl)).

Check (C19_initial_state :
  forall W k inp, W = bytes_in inp -> inv W (rd (init_state k inp))).

Check (C19_prefix_in_bounds :
  forall W l cl, prefix_pos W l cl -> in_bounds W l cl).

Check (C19_category :
  forall c l cl,
  classify (ESyntax c l cl) = Some (classify_code c) /\ (forall io, classify (EIo io) = Some CatIo)).

Check (C19_nonvacuous :
  let inp := bytes_events (s2b "(a
  #z)") in
  from_trait default_ro (fun _ => true) true dec_to_f64 SrcSlice inp = PErr (XErr (ESyntax ExpectedSomeIdent 2 5)) /\
  line_lens (bytes_in inp) 0 = [2; 5] /\
  from_trait default_ro (fun _ => true) true dec_to_f64 SrcIo (bytes_events (s2b "(a")) = PErr (XErr (ESyntax EofWhileParsingList 1 2))).

Check (C19_truncation_is_eof_refuted :
  exists (text prefix : bytes) c l cl,
    (exists rest, rest <> [] /\ text = prefix ++ rest) /\
    (exists v, from_trait default_ro (fun _ => true) true dec_to_f64 SrcSlice (bytes_events text) = POk v) /\
    from_trait default_ro (fun _ => true) true dec_to_f64 SrcSlice (bytes_events prefix) = PErr (XErr (ESyntax c l cl)) /\
    classify_code c = CatSyntax).

Check (C19_truncation_partial :
  forall ro alpha fast std_parse (pre rest : list event) v,
  from_trait ro alpha fast std_parse SrcIo (pre ++ rest) = POk v ->
  (exists v', from_trait ro alpha fast std_parse SrcIo pre = POk v') \/
  (exists c l cl, from_trait ro alpha fast std_parse SrcIo pre = PErr (XErr (ESyntax c l cl)) /\
     (classify_code c = CatEof \/ c = NumberOutOfRange \/ c = InvalidUnicodeCodePoint \/ c = ExpectedOctet \/ c = RecursionLimitExceeded))).

Check (C19_truncation_partial_datum :
  forall ro alpha fast std_parse (pre rest : list event) d,
  datum_from_trait ro alpha fast std_parse SrcIo (pre ++ rest) = POk d ->
  (exists d', datum_from_trait ro alpha fast std_parse SrcIo pre = POk d') \/
  (exists c l cl, datum_from_trait ro alpha fast std_parse SrcIo pre = PErr (XErr (ESyntax c l cl)) /\
     (classify_code c = CatEof \/ c = NumberOutOfRange \/ c = InvalidUnicodeCodePoint \/ c = ExpectedOctet \/ c = RecursionLimitExceeded))).

Check (C19_truncation_partial_slice :
  forall ro alpha fast std_parse (p s : bytes) v,
  from_trait ro alpha fast std_parse SrcSlice (bytes_events (p ++ s)) = POk v ->
  (exists v', from_trait ro alpha fast std_parse SrcSlice (bytes_events p) = POk v') \/
  (exists c l cl, from_trait ro alpha fast std_parse SrcSlice (bytes_events p) = PErr (XErr (ESyntax c l cl)) /\
     (classify_code c = CatEof \/ c = NumberOutOfRange \/ c = InvalidUnicodeCodePoint \/ c = ExpectedOctet \/ c = RecursionLimitExceeded))).

Check (C19_truncation_every_call :
  forall rest ro alpha fast std_parse fuel s1 s2, tprel rest s1 s2 ->
  (exists x, fst (next_value ro alpha fast std_parse fuel s2) = PErr x) \/
  (fst (next_value ro alpha fast std_parse fuel s1) = fst (next_value ro alpha fast std_parse fuel s2) /\
   tprel rest (snd (next_value ro alpha fast std_parse fuel s1)) (snd (next_value ro alpha fast std_parse fuel s2))) \/
  (ateof (rd (snd (next_value ro alpha fast std_parse fuel s1))) /\ pokres (fst (next_value ro alpha fast std_parse fuel s1)))).

Check (C19_truncation_partial_str :
  forall ro alpha fast std_parse (p s : bytes) v,
  utf8_valid (p ++ s) = true -> utf8_valid p = true ->
  from_trait ro alpha fast std_parse SrcStr (bytes_events (p ++ s)) = POk v ->
  (exists v', from_trait ro alpha fast std_parse SrcStr (bytes_events p) = POk v') \/
  (exists c l cl, from_trait ro alpha fast std_parse SrcStr (bytes_events p) = PErr (XErr (ESyntax c l cl)) /\
     (classify_code c = CatEof \/ c = NumberOutOfRange \/ c = InvalidUnicodeCodePoint \/ c = ExpectedOctet \/ c = RecursionLimitExceeded))).

Check (C19_truncation_nonvacuous :
  let run txt := from_trait default_ro (fun _ => true) true dec_to_f64 SrcIo (bytes_events txt) in
  run (s2b "(a #\space ""x\n"" 1.5e3)") = POk (vlist [Symbol (s2b "a"); Char 32; String [120; 10]; Number (Float (f64_of_bits 4654311885213007872))]) /\
  run (s2b "(a #\sp") = PErr (XErr (ESyntax EofWhileParsingCharacterConstant 1 7)) /\
  run (s2b "(a #\space ""x\") = PErr (XErr (ESyntax EofWhileParsingString 1 14)) /\
  run (s2b "(a #\space ""x\n"" 1.5e") = PErr (XErr (ESyntax EofWhileParsingValue 1 21)) /\
  run (s2b "(a #\space ""x\n"" 1.5") = PErr (XErr (ESyntax EofWhileParsingList 1 20))).
