(* Pinned statements of the C13 theorems (generated once by bin/genpins, then committed):
   fails to compile if Props/C13.v is weakened, renamed or given other hypotheses. *)
From Coq Require Import SpecFloat.
Require Import Base Value Float PrintOptions Printer ParseOptions Utf8 Reader Scan Num NumberOps Parser.
Require Import TextProofs RoundtripProofs AcceptedProofs ValidTextProofs.
Require Import Lexpr.Props.C13.

Check (C13_accepted_in_class :
  forall alpha fast std_parse k inp v, k <> SrcStr ->
  from_trait default_ro alpha fast std_parse k inp = POk v ->
  rt_okf alpha v /\ (rdepth v <= 127)%nat).

Check (C13_float_free_in_c01_class :
  forall alpha v, rt_okf alpha v -> float_free v -> rt_ok alpha v).

Check (C13_parse_print_parse_partial :
  forall alpha fast std_parse ryu k k' inp v, k <> SrcStr ->
  from_trait default_ro alpha fast std_parse k inp = POk v -> float_free v ->
  from_trait default_ro alpha fast std_parse k' (bytes_events (print0 ryu v)) = POk v).

Check (C13_str_first_source_partial :
  forall alpha fast std_parse ryu k' W v, utf8_valid W = true ->
  from_trait default_ro alpha fast std_parse SrcStr (bytes_events W) = POk v -> float_free v ->
  from_trait default_ro alpha fast std_parse k' (bytes_events (print0 ryu v)) = POk v).

Check (C13_fixed_point_partial :
  forall ryu alpha fast std_parse k v,
  rt_ok alpha v -> (rdepth v <= 127)%nat ->
  exists v', from_trait default_ro alpha fast std_parse k (bytes_events (print0 ryu v)) = POk v' /\
             v' = v /\ print0 ryu v' = print0 ryu v).

Check (C13_nonvacuous :
  let text := s2b "( a  ;c
 [b . (c)] #x1F '#(1 -2) .d . ""e"")" in
  let run k inp := from_trait default_ro (fun _ => true) true dec_to_f64 k inp in
  match run SrcSlice (bytes_events text) with
  | POk v => float_free v /\ print0 (fun _ => []) v = s2b "(a (b c) 31 (quote #(1 -2)) .d . ""e"")" /\
             run SrcIo (bytes_events (print0 (fun _ => []) v)) = POk v
  | PErr _ => False
  end).
