(* C17, parser side: from byte-slice and stream input every str inside a
   returned value is well-formed UTF-8. (For &str input the code skips the
   check, relying on the type of its input; see Props/C17.v.) *)
From Coq Require Import SpecFloat Lia ZifyBool ZifyNat ZifyN.
Require Import Base Value Float PrintOptions ParseOptions Utf8 Reader Scan Num NumberOps Parser.
Require Import RelFramework Utf8Proofs Utf8PrintProofs DepthProofs.

(* ---- the source kind never changes: an instance of the generic traversal ---- *)
Definition Rrk (r : reader) (x : option perr) (r' : reader) : Prop := rk r' = rk r.

Lemma Rrk_ret r : Rrk r None r.  Proof. reflexivity. Qed.
Lemma Rrk_seq r r1 x r2 : Rrk r None r1 -> Rrk r1 x r2 -> Rrk r x r2.
Proof. unfold Rrk. congruence. Qed.
Lemma Rrk_fuel r : Rrk r (Some EFuel) r.  Proof. reflexivity. Qed.
Lemma Rrk_rec1 r e r1 x r2 : Rrk r (Some e) r1 -> Rrk r1 x r2 -> Rrk r (Some e) r2.
Proof. unfold Rrk. congruence. Qed.
Lemma Rrk_rec2 r e r1 e' r2 : Rrk r (Some e) r1 -> Rrk r1 (Some e') r2 -> Rrk r (Some e') r2.
Proof. unfold Rrk. congruence. Qed.

Lemma consume_rk r b l : rk (consume r b l) = rk r.
Proof. unfold consume. destruct (advance _ _ _). reflexivity. Qed.
Lemma discard_rk r : rk (r_discard r) = rk r.
Proof.
  unfold r_discard. destruct (rk r) eqn:E; try destruct (rpending r); try congruence;
    destruct (rinput r) as [|[b| |e] l]; try congruence; rewrite consume_rk; congruence.
Qed.
Lemma advance_over_rk r bs rest : rk (advance_over r bs rest) = rk r.
Proof. unfold advance_over. destruct (fold_left _ _ _). reflexivity. Qed.

Lemma rk_peek : sat Rrk peek.
Proof.
  intros r. unfold peek, r_peek, R, Rrk. destruct (rpending r).
  - destruct (rinput r) as [|[b| |e] l]; reflexivity.
  - destruct (skip_intr (rinput r)) as [|[b| |e] l]; reflexivity.
Qed.
Lemma rk_next : sat Rrk next_char.
Proof.
  intros r. unfold next_char, r_next, R, Rrk.
  destruct (if rpending r then rinput r else skip_intr (rinput r)) as [|[b| |e] l]; cbn [fst snd]; try reflexivity.
  apply consume_rk.
Qed.
Lemma rk_eat : sat Rrk eat_char.
Proof. intros r. unfold eat_char, R, Rrk. cbn [fst snd]. apply discard_rk. Qed.
Lemma rk_error A c : sat Rrk (@error A c).
Proof. intros r. unfold error, R, Rrk. destruct (r_position r). reflexivity. Qed.
Lemma rk_peek_error A c : sat Rrk (@peek_error A c).
Proof. intros r. unfold peek_error, R, Rrk. destruct (r_peek_position r). reflexivity. Qed.
Lemma rk_error_consume A c : sat Rrk (@error_consume A c).
Proof. intros r. unfold error_consume, peek_error, R, Rrk. destruct (r_peek_position r). cbn [fst snd]. apply discard_rk. Qed.
Lemma rk_take_run : sat Rrk take_run.
Proof.
  intros r. unfold take_run, R, Rrk. destruct (span_plain (rinput r) []) as [run rest].
  destruct rest as [|[b| |e] rest']; cbn [fst snd]; rewrite ?consume_rk, advance_over_rk; reflexivity.
Qed.
Lemma rk_take_symbol : sat Rrk take_symbol_run.
Proof.
  intros r. unfold take_symbol_run, R, Rrk. destruct (span_symbol (rinput r) []) as [run rest].
  cbn [fst snd]. apply advance_over_rk.
Qed.
#[export] Hint Resolve Rrk_ret Rrk_seq Rrk_fuel Rrk_rec1 Rrk_rec2 rk_peek rk_next rk_eat rk_error rk_peek_error
  rk_error_consume rk_take_run rk_take_symbol : rkprims.

Ltac rk_prim :=
  first [ exact Rrk_ret | exact Rrk_seq | exact Rrk_fuel | exact Rrk_rec1 | exact Rrk_rec2 | exact rk_peek | exact rk_next
        | exact rk_eat | exact rk_error | exact rk_peek_error | exact rk_error_consume | exact rk_take_run | exact rk_take_symbol ].

(* discharge [sat Rrk m] / [psat Rrk m] for a model function by the generic theorem *)
Ltac rk_solve :=
  first [ solve [rk_prim]
        | solve [apply (sat_next_or_eof Rrk); rk_prim]
        | solve [apply (sat_next_or_eof_char Rrk); rk_prim]
        | solve [apply (sat_take_bytes Rrk); rk_prim]
        | solve [apply (sat_r6rs_char_hex_loop Rrk); rk_prim]
        | solve [apply (sat_char_name_loop Rrk); rk_prim]
        | solve [apply (sat_parse_number Rrk); rk_prim]
        | solve [apply (sat_parse_num_literal Rrk); rk_prim]
        | solve [apply (sat_decode_utf8_sequence Rrk); rk_prim]
        | solve [apply (sat_peek_or_null Rrk); rk_prim]
        | solve [apply (sat_as_str Rrk); rk_prim]
        | solve [apply (sat_finish_str Rrk); rk_prim]
        | solve [apply (sat_parse_r6rs_str_rd Rrk); rk_prim]
        | solve [apply (sat_parse_elisp_str_rd Rrk); rk_prim]
        | solve [apply (sat_parse_radix_literal Rrk); rk_prim]
        | solve [apply (sat_parse_r6rs_char Rrk); rk_prim]
        | solve [apply (sat_parse_num_token Rrk); rk_prim]
        | solve [apply (sat_parse_elisp_char Rrk); rk_prim]
        | solve [apply (sat_scan_symbol_io Rrk); rk_prim]
        | solve [apply (sat_scan_symbol_slice Rrk); rk_prim]
        | solve [apply (sat_r6rs_str_io Rrk); rk_prim]
        | solve [apply (sat_r6rs_str_slice Rrk); rk_prim]
        | solve [apply (sat_parse_elisp_escape Rrk); rk_prim]
        | solve [apply (sat_elisp_finish Rrk); rk_prim]
        | solve [apply (sat_parse_symbol_rd Rrk); rk_prim]
        | solve [apply (sat_parse_symbol Rrk); rk_prim]
        | solve [apply (sat_parse_symbol_suffix Rrk); rk_prim]
        | solve [apply (sat_expect_ident Rrk); rk_prim]
        | solve [apply (sat_decode_utf8_sequence_b Rrk); rk_prim]
        | solve [apply (sat_parse_whitespace Rrk); rk_prim]
        | solve [apply (sat_parse_token Rrk); rk_prim]
        | solve [apply (sat_parse_byte_list Rrk); rk_prim]
        | solve [apply (sat_end_seq Rrk); rk_prim]
        | solve [apply (sat_position Rrk); rk_prim]
        | solve [apply (psat_enter_nesting Rrk); rk_prim]
        | solve [apply (psat_inc_depth Rrk); rk_prim] ].

(* ---- postconditions on successful results, for a fixed source kind ---- *)
Definition ens {A} (k : src_kind) (m : M A) (post : A -> Prop) : Prop :=
  forall r, rk r = k -> match fst (m r) with Ok a => post a | Err _ => True end.

Lemma ens_bind {A B} k (m : M A) (f : A -> M B) (p : A -> Prop) (q : B -> Prop) :
  sat Rrk m -> ens k m p -> (forall a, p a -> ens k (f a) q) -> ens k (bind m f) q.
Proof.
  intros Hs Hm Hf r Hk. unfold bind. specialize (Hs r). specialize (Hm r Hk). unfold R, Rrk in Hs.
  destruct (m r) as [[a|e] r1]; cbn [fst snd] in *; [|exact I]. apply (Hf a Hm r1). congruence.
Qed.
Lemma ens_any {A} k (m : M A) : ens k m (fun _ => True).
Proof. intros r _. destruct (fst (m r)); exact I. Qed.
Lemma ens_ret {A} k (a : A) (q : A -> Prop) : q a -> ens k (ret a) q.
Proof. intros H r _. exact H. Qed.
Lemma ens_err {A} k c (q : A -> Prop) : ens k (error c) q /\ ens k (peek_error c) q.
Proof.
  split; intros r _; [unfold error; destruct (r_position r)|unfold peek_error; destruct (r_peek_position r)]; exact I.
Qed.
Lemma ens_bind_any {A B} k (m : M A) (f : A -> M B) (q : B -> Prop) :
  sat Rrk m -> (forall a, ens k (f a) q) -> ens k (bind m f) q.
Proof. intros Hs Hf. apply (ens_bind k m f (fun _ => True) q Hs (ens_any k m)). intros a _. apply Hf. Qed.

Definition valid (s : bytes) : Prop := utf8_valid s = true.

Lemma ens_as_str k b : ens k (Scan.as_str b) valid.
Proof. intros r _. unfold Scan.as_str. destruct (utf8_valid b) eqn:E; cbn; [exact E|]. unfold error. destruct (r_position r). exact I. Qed.

Lemma ens_finish_str k b : k <> SrcStr -> ens k (finish_str b) valid.
Proof.
  intros Hk r Hr. unfold finish_str. rewrite Hr. destruct k; [contradiction| |]; apply (ens_as_str _ b r Hr).
Qed.

Lemma ens_parse_symbol_rd k fuel scratch : k <> SrcStr -> ens k (parse_symbol_rd fuel scratch) valid.
Proof.
  intros Hk r Hr. unfold parse_symbol_rd. rewrite Hr. destruct k; [contradiction| |].
  - refine (ens_bind_any SrcSlice _ _ valid _ _ r Hr); [rk_solve|]. intros b. apply ens_finish_str. discriminate.
  - refine (ens_bind_any SrcIo _ _ valid _ _ r Hr); [rk_solve|]. intros b. apply ens_as_str.
Qed.

Lemma ens_parse_r6rs_str_rd k fuel : k <> SrcStr -> ens k (parse_r6rs_str_rd fuel) valid.
Proof.
  intros Hk r Hr. unfold parse_r6rs_str_rd. rewrite Hr. destruct k; [contradiction| |].
  - refine (ens_bind_any SrcSlice _ _ valid _ _ r Hr); [rk_solve|]. intros b. apply ens_finish_str. discriminate.
  - refine (ens_bind_any SrcIo _ _ valid _ _ r Hr); [rk_solve|]. intros b. apply ens_as_str.
Qed.

Definition elisp_valid (e : elisp_str) : Prop := match e with ElMultibyte s => valid s | ElUnibyte _ => True end.

Lemma ens_elisp_finish k fl scratch : ens k (elisp_finish fl scratch) elisp_valid.
Proof.
  unfold elisp_finish. destruct (seen_ub fl && negb (seen_mb fl || seen_na fl))%bool.
  - apply ens_ret. exact I.
  - apply (ens_bind k _ _ valid elisp_valid); [rk_solve|apply ens_as_str|]. intros b Hb. apply ens_ret. exact Hb.
Qed.

Lemma ens_elisp_str_io k fuel : forall fl scratch, ens k (elisp_str_io fuel fl scratch) elisp_valid.
Proof.
  induction fuel as [|f IH]; intros fl scratch; cbn [elisp_str_io].
  - intros r _. exact I.
  - apply ens_bind_any; [rk_solve|]. intros ch. destruct (ch =? 34); [apply ens_elisp_finish|].
    destruct (ch =? 92); [|apply IH]. apply ens_bind_any; [rk_solve|]. intros x. apply IH.
Qed.

Lemma ens_ext {A} k (m m' : M A) q : (forall r, m r = m' r) -> ens k m' q -> ens k m q.
Proof. intros E H r Hr. rewrite E. apply H. exact Hr. Qed.

Lemma ens_elisp_str_slice k fuel : forall fl scratch, ens k (elisp_str_slice fuel fl scratch) elisp_valid.
Proof.
  induction fuel as [|f IH]; intros fl scratch.
  - intros r _. exact I.
  - eapply ens_ext; [intros r; apply elisp_str_slice_eq|]. cbv zeta.
    apply ens_bind_any; [rk_solve|]. intros p. destruct (snd p) as [b|]; [|apply ens_err].
    destruct (b =? 34); [apply ens_elisp_finish|]. apply ens_bind_any; [rk_solve|]. intros x. apply IH.
Qed.

Lemma ens_parse_elisp_str_rd k fuel : ens k (parse_elisp_str_rd fuel) elisp_valid.
Proof.
  intros r Hr. unfold parse_elisp_str_rd. cbv beta zeta. pose proof (ens_elisp_str_slice k fuel) as H1. pose proof (ens_elisp_str_io k fuel) as H2.
  destruct (rk r) eqn:E; first [apply (H1 _ _ r); congruence | apply (H2 _ _ r); congruence].
Qed.

(* ---- tokens ---- *)
Definition tok_valid (t : token) : Prop :=
  match t with TSymbol s | TKeyword s | TString s | TQuotation s => valid s | _ => True end.

Lemma ends_with_colon_split name : ends_with_colon name = true -> name = removelast name ++ [58].
Proof.
  unfold ends_with_colon. intros H. destruct name as [|x name] using rev_ind; [discriminate|].
  rewrite rev_unit in H. destruct (N.eq_dec x 58) as [->|Hne].
  - now rewrite removelast_last.
  - destruct x as [|p]; try discriminate. exfalso.
    repeat (destruct p as [p|p|]; try discriminate; try (apply Hne; reflexivity)).
Qed.

Lemma symbol_token_valid ro name : valid name -> tok_valid (symbol_token ro name).
Proof.
  intros Hv. unfold symbol_token.
  destruct (ro_kw_postfix ro && (1 <? length name)%nat && ends_with_colon name)%bool eqn:E.
  - cbn [tok_valid]. assert (Hc : ends_with_colon name = true) by (destruct (ends_with_colon name); [reflexivity|rewrite Bool.andb_false_r in E; discriminate]).
    pose proof (ends_with_colon_split name Hc) as Es. unfold valid in *. rewrite Es in Hv.
    apply (utf8_valid_drop_last_ascii _ 58); [lia|exact Hv].
  - destruct (_ && beq_bytes name (s2b "nil"))%bool; [destruct (ro_nil ro); cbn; auto|].
    destruct (_ && beq_bytes name (s2b "t"))%bool; cbn; auto.
Qed.

Section TokValid.
  Variable ro : parse_options.
  Variable alpha : N -> bool.
  Variable fast : bool.
  Variable std_parse : N -> Z -> f64.
  Variable k : src_kind.
  Hypothesis Hk : k <> SrcStr.

  Lemma ens_parse_symbol fuel : ens k (parse_symbol fuel) valid.
  Proof. apply ens_parse_symbol_rd. exact Hk. Qed.
  Lemma ens_parse_symbol_suffix fuel p : ens k (parse_symbol_suffix fuel p) valid.
  Proof. apply ens_parse_symbol_rd. exact Hk. Qed.

  Lemma ens_sym_arm fuel : ens k (name <- parse_symbol fuel ;; ret (symbol_token ro name)) tok_valid.
  Proof.
    apply (ens_bind k _ _ valid tok_valid); [rk_solve|apply ens_parse_symbol|].
    intros name Hn. apply ens_ret. apply symbol_token_valid. exact Hn.
  Qed.
  Lemma ens_sym_suffix_arm fuel p : ens k (name <- parse_symbol_suffix fuel p ;; ret (symbol_token ro name)) tok_valid.
  Proof.
    apply (ens_bind k _ _ valid tok_valid); [rk_solve|apply ens_parse_symbol_suffix|].
    intros name Hn. apply ens_ret. apply symbol_token_valid. exact Hn.
  Qed.

  Ltac tok_trivial := first [apply ens_ret; first [exact I | reflexivity] | apply ens_err ].

  Lemma ens_parse_token fuel b : ens k (parse_token ro alpha fast std_parse fuel b) tok_valid.
  Proof.
    unfold parse_token.
    destruct (b =? 35).
    { apply ens_bind_any; [rk_solve|]. intros _. apply ens_bind_any; [rk_solve|]. intros o. destruct o as [c|]; [|apply ens_err].
      repeat match goal with
             | |- ens _ (if ?c then _ else _) _ => destruct c
             end;
        try tok_trivial;
        try (apply ens_bind_any; [rk_solve|]; intros ?; apply ens_ret; exact I).
      - apply (ens_bind k _ _ valid tok_valid); [rk_solve|apply ens_parse_symbol|]. intros s Hs. apply ens_ret. exact Hs.
      - apply (ens_bind k _ _ valid tok_valid); [rk_solve|apply ens_parse_symbol_suffix|]. intros s Hs. apply ens_ret. exact Hs. }
    destruct ((b =? 45) || (b =? 43))%bool.
    { apply ens_bind_any; [rk_solve|]. intros _. apply ens_bind_any; [rk_solve|]. intros nx.
      destruct (_ || _)%bool; [apply ens_sym_suffix_arm|].
      apply ens_bind_any; [rk_solve|]. intros n. apply ens_ret. exact I. }
    destruct (is_digit b).
    { destruct (ro_digit ro).
      - apply (ens_bind k _ _ valid tok_valid); [rk_solve|apply ens_parse_symbol|]. intros s Hs.
        destruct (number_of_symbol fast std_parse fuel s); apply ens_ret; [exact I|apply symbol_token_valid; exact Hs].
      - apply ens_bind_any; [rk_solve|]. intros n. apply ens_ret. exact I. }
    destruct (b =? 34).
    { apply ens_bind_any; [rk_solve|]. intros _. destruct (ro_string ro).
      - apply (ens_bind k _ _ valid tok_valid); [rk_solve|apply ens_parse_r6rs_str_rd; exact Hk|]. intros s Hs. apply ens_ret. exact Hs.
      - apply (ens_bind k _ _ elisp_valid tok_valid); [rk_solve|apply ens_parse_elisp_str_rd|].
        intros e He. destruct e; apply ens_ret; [exact I|exact He]. }
    destruct (b =? 40). { apply ens_bind_any; [rk_solve|]. intros _. apply ens_ret. exact I. }
    destruct (b =? 91). { apply ens_bind_any; [rk_solve|]. intros _. destruct (ro_brackets ro); apply ens_ret; exact I. }
    destruct (b =? 58).
    { destruct (ro_kw_prefix ro).
      - apply ens_bind_any; [rk_solve|]. intros _.
        apply (ens_bind k _ _ valid tok_valid); [rk_solve|apply ens_parse_symbol|]. intros s Hs. apply ens_ret. exact Hs.
      - apply (ens_bind k _ _ valid tok_valid); [rk_solve|apply ens_parse_symbol|]. intros s Hs. apply ens_ret. exact Hs. }
    destruct (is_ascii_alpha b); [apply ens_sym_arm|].
    destruct ((b =? 63) && _)%bool.
    { apply ens_bind_any; [rk_solve|]. intros _. apply ens_bind_any; [rk_solve|]. intros c. apply ens_ret. exact I. }
    destruct (b =? 39). { apply ens_bind_any; [rk_solve|]. intros _. apply ens_ret. reflexivity. }
    destruct (b =? 96). { apply ens_bind_any; [rk_solve|]. intros _. apply ens_ret. reflexivity. }
    destruct (b =? 44).
    { apply ens_bind_any; [rk_solve|]. intros _. apply ens_bind_any; [rk_solve|]. intros nx.
      destruct (nx =? 64); [apply ens_bind_any; [rk_solve|]; intros _|]; apply ens_ret; reflexivity. }
    destruct (127 <? b).
    { apply ens_bind_any; [rk_solve|]. intros _. apply ens_bind_any; [rk_solve|]. intros r.
      destruct (negb (alpha (snd r))); [apply ens_err|apply ens_sym_suffix_arm]. }
    destruct (memb b SYMBOL_EXTENDED); [apply ens_sym_arm|].
    intros r _. unfold peek_error. destruct (r_peek_position r). exact I.
  Qed.
End TokValid.

(* ---- values ---- *)
Definition pens {A} (k : src_kind) (m : PM A) (post : A -> Prop) : Prop :=
  forall s, rk (rd s) = k -> match fst (m s) with POk a => post a | PErr _ => True end.

Lemma pens_bind {A B} k (m : PM A) (f : A -> PM B) (p : A -> Prop) (q : B -> Prop) :
  psat Rrk m -> pens k m p -> (forall a, p a -> pens k (f a) q) -> pens k (pbind m f) q.
Proof.
  intros Hs Hm Hf s Hk. rewrite pbind_unfold. specialize (Hs s). specialize (Hm s Hk). unfold Rrk in Hs.
  destruct (m s) as [[a|e] s1]; cbn [fst snd] in *; [|exact I]. apply (Hf a Hm s1). congruence.
Qed.
Lemma pens_any {A} k (m : PM A) : pens k m (fun _ => True).
Proof. intros s _. destruct (fst (m s)); exact I. Qed.
Lemma pens_bind_any {A B} k (m : PM A) (f : A -> PM B) (q : B -> Prop) :
  psat Rrk m -> (forall a, pens k (f a) q) -> pens k (pbind m f) q.
Proof. intros Hs Hf. apply (pens_bind k m f (fun _ => True) q Hs (pens_any k m)). intros a _. apply Hf. Qed.
Lemma pens_ret {A} k (a : A) (q : A -> Prop) : q a -> pens k (pret a) q.
Proof. intros H s _. exact H. Qed.
Lemma pens_fail {A} k e (q : A -> Prop) : pens k (pfail e) q.
Proof. intros s _. exact I. Qed.
Lemma pens_liftR {A} k (m : M A) (q : A -> Prop) : ens k m q -> pens k (liftR m) q.
Proof.
  intros H s Hk. unfold liftR. specialize (H (rd s) Hk). destruct (m (rd s)) as [[a|e] r']; cbn [fst] in *; [exact H|exact I].
Qed.
Lemma pens_liftR_err {A} k c (q : A -> Prop) : pens k (liftR (peek_error (A := A) c)) q.
Proof. apply pens_liftR. apply ens_err. Qed.

Lemma psat_rk_liftR {A} (m : M A) : sat Rrk m -> psat Rrk (liftR m).
Proof. apply (psat_liftR Rrk). Qed.

(* the nest block: attempt body; inc_depth; attempt end_seq; both; kk *)
Lemma pens_nest_seq {A B} k (body : PM A) (endm : M unit) (kk : A -> PM B) (p : A -> Prop) (q : B -> Prop) :
  psat Rrk body -> pens k body p -> sat Rrk endm -> (forall a, p a -> pens k (kk a) q) ->
  pens k (pbind (attempt body) (fun r => pbind inc_depth (fun _ =>
          pbind (attempt (liftR endm)) (fun e => pbind (both r e) kk)))) q.
Proof.
  intros Hsb Hb Hse Hkk s Hk. rewrite pbind_unfold, attempt_unfold.
  specialize (Hsb s). specialize (Hb s Hk). unfold Rrk in Hsb.
  destruct (body s) as [[a|[e|pk]] s1]; cbn [fst snd] in *.
  - rewrite pbind_unfold. pose proof (psat_inc_depth Rrk Rrk_ret Rrk_seq Rrk_fuel s1) as Hi. unfold Rrk in Hi.
    destruct (inc_depth s1) as [[u|e] s2]; cbn [fst snd] in *; [|exact I].
    rewrite pbind_unfold, attempt_unfold. pose proof (psat_liftR Rrk endm Hse s2) as He. unfold Rrk in He.
    destruct (liftR endm s2) as [[u'|[e|pk]] s3]; cbn [fst snd] in *.
    + cbn [both]. rewrite pbind_unfold. cbn [pret]. apply (Hkk a Hb s3). congruence.
    + destruct e; rewrite ?pbind_unfold; cbn [both pfail fst]; exact I.
    + exact I.
  - destruct e; try exact I; rewrite pbind_unfold;
      destruct (inc_depth s1) as [[u|e'] s2]; try exact I;
      rewrite pbind_unfold, attempt_unfold;
      destruct (liftR endm s2) as [[u'|[e'|pk]] s3]; try exact I;
      try (destruct e'; rewrite ?pbind_unfold; cbn [both pfail fst]; exact I);
      rewrite pbind_unfold; cbn [both pfail fst]; exact I.
  - exact I.
Qed.

Lemma pens_nest_quote {A B} k (body : PM A) (kk : A -> PM B) (p : A -> Prop) (q : B -> Prop) :
  psat Rrk body -> pens k body p -> (forall a, p a -> pens k (kk a) q) ->
  pens k (pbind (attempt body) (fun r => pbind inc_depth (fun _ => pbind (lift r) kk))) q.
Proof.
  intros Hsb Hb Hkk s Hk. rewrite pbind_unfold, attempt_unfold.
  specialize (Hsb s). specialize (Hb s Hk). unfold Rrk in Hsb.
  destruct (body s) as [[a|[e|pk]] s1]; cbn [fst snd] in *.
  - rewrite pbind_unfold. pose proof (psat_inc_depth Rrk Rrk_ret Rrk_seq Rrk_fuel s1) as Hi. unfold Rrk in Hi.
    destruct (inc_depth s1) as [[u|e] s2]; cbn [fst snd] in *; [|exact I].
    cbn [lift]. rewrite pbind_unfold. cbn [pret]. apply (Hkk a Hb s2). congruence.
  - destruct e; try exact I; rewrite pbind_unfold; destruct (inc_depth s1) as [[u|e'] s2]; try exact I;
      rewrite pbind_unfold; cbn [lift pfail fst]; exact I.
  - exact I.
Qed.

Lemma strs_valid_build acc d : Forall strs_valid acc -> strs_valid d -> strs_valid (build acc d).
Proof. induction 1 as [|x acc Hx Hacc IH]; intros Hd; cbn [build strs_valid]; auto. Qed.
Lemma strs_valid_vector l : Forall strs_valid l -> strs_valid (Vector l).
Proof. induction 1 as [|x l Hx Hl IH]; cbn [strs_valid]; auto. Qed.
Lemma Forall_snoc {A} (P : A -> Prop) l x : Forall P l -> P x -> Forall P (l ++ [x]).
Proof. intros Hl Hx. apply Forall_app. split; [exact Hl|repeat constructor; exact Hx]. Qed.

Lemma symbol_value_valid ro name : valid name -> strs_valid (symbol_value ro name).
Proof.
  intros H. pose proof (symbol_token_valid ro name H) as Ht. unfold symbol_value.
  destruct (symbol_token ro name); cbn [strs_valid tok_valid] in *; auto.
Qed.

Definition opt_valid (o : option value) : Prop := match o with Some v => strs_valid v | None => True end.

Section ValuesValid.
  Variable ro : parse_options.
  Variable alpha : N -> bool.
  Variable fast : bool.
  Variable std_parse : N -> Z -> f64.
  Variable k : src_kind.
  Hypothesis Hk : k <> SrcStr.
  Local Notation next_value := (next_value ro alpha fast std_parse).
  Local Notation parse_list := (parse_list ro alpha fast std_parse).
  Local Notation parse_vector := (parse_vector ro alpha fast std_parse).

  Let rk_values := psat_values Rrk Rrk_ret Rrk_seq Rrk_fuel rk_peek rk_next rk_eat rk_error rk_peek_error rk_error_consume
                     rk_take_run rk_take_symbol fast std_parse ro alpha Rrk_rec1 Rrk_rec2.

  Ltac prk := first [ solve [apply psat_rk_liftR; rk_solve] | solve [rk_solve]
                    | solve [apply (proj1 (rk_values _))] | solve [apply (proj1 (proj2 (rk_values _)))]
                    | solve [apply (proj2 (proj2 (rk_values _)))] ].

  Theorem values_valid fuel :
    pens k (next_value fuel) opt_valid /\
    (forall t acc, Forall strs_valid acc -> pens k (parse_list fuel t acc) strs_valid) /\
    (forall t acc, Forall strs_valid acc -> pens k (parse_vector fuel t acc) (Forall strs_valid)).
  Proof.
    induction fuel as [|f (IHv & IHl & IHvec)].
    - split; [|split]; intros; cbn [Parser.next_value Parser.parse_list Parser.parse_vector]; apply pens_fail.
    - split; [|split]; intros; cbn [Parser.next_value Parser.parse_list Parser.parse_vector].
      + apply pens_bind_any; [prk|]. intros o. destruct o as [b|]; [|apply pens_ret; exact I].
        apply (pens_bind k _ _ tok_valid opt_valid); [prk|apply pens_liftR, ens_parse_token; exact Hk|].
        intros tok Ht. destruct tok; cbn [tok_valid] in Ht; try (apply pens_ret; cbn [opt_valid strs_valid]; auto; fail).
        * (* list *)
          apply pens_bind_any; [prk|]. intros _.
          apply (pens_nest_seq k _ _ _ strs_valid opt_valid); [prk|apply IHl; constructor|rk_solve|].
          intros l Hl. apply pens_ret. exact Hl.
        * (* quotation *)
          apply pens_bind_any; [prk|]. intros _.
          apply (pens_nest_quote k _ _ opt_valid opt_valid); [prk|exact IHv|].
          intros o Ho. destruct o as [d|]; [|apply pens_liftR_err].
          apply pens_ret. cbn [opt_valid vlist build strs_valid]. auto.
        * (* vector *)
          apply pens_bind_any; [prk|]. intros _.
          apply (pens_nest_seq k _ _ _ (Forall strs_valid) opt_valid); [prk|apply IHvec; constructor|rk_solve|].
          intros l Hl. apply pens_ret. cbn [opt_valid]. apply strs_valid_vector. exact Hl.
        * (* byte vector *)
          apply pens_bind_any; [prk|]. intros bs. apply pens_ret. exact I.
      + apply pens_bind_any; [prk|]. intros o. destruct o as [c|]; [|apply pens_liftR_err].
        destruct (is_closer c).
        { destruct (negb (c =? t)); [apply pens_liftR_err|]. apply pens_ret. apply strs_valid_build; [assumption|exact I]. }
        destruct (c =? 46).
        { apply pens_bind_any; [apply psat_rk_liftR; apply (sat_bind Rrk Rrk_seq); [exact rk_eat|intros _; rk_solve]|]. intros nx.
          destruct (lone_dot nx).
          - destruct acc as [|x acc'].
            + apply pens_bind_any; [prk|]. intros o3. destruct o3; apply pens_liftR_err.
            + apply (pens_bind k _ _ opt_valid strs_valid); [prk|exact IHv|]. intros ov Hov.
              destruct ov as [cdr|]; [|apply pens_liftR_err].
              apply pens_bind_any; [prk|]. intros o2. destruct o2 as [c2|]; [|apply pens_liftR_err].
              destruct (c2 =? t); [|apply pens_liftR_err]. apply pens_ret. apply strs_valid_build; assumption.
          - apply (pens_bind k _ _ valid strs_valid); [prk|apply pens_liftR, ens_parse_symbol_suffix; exact Hk|].
            intros name Hn. apply IHl. apply Forall_snoc; [assumption|apply symbol_value_valid; exact Hn]. }
        apply (pens_bind k _ _ opt_valid strs_valid); [prk|exact IHv|]. intros ov Hov.
        destruct ov as [v|]; [|apply pens_liftR_err]. apply IHl. apply Forall_snoc; assumption.
      + apply pens_bind_any; [prk|]. intros o. destruct o as [c|]; [|apply pens_liftR_err].
        destruct (is_closer c).
        { destruct (negb (c =? t)); [apply pens_liftR_err|]. apply pens_ret. assumption. }
        apply (pens_bind k _ _ opt_valid (Forall strs_valid)); [prk|exact IHv|]. intros ov Hov.
        destruct ov as [v|]; [|apply pens_liftR_err]. apply IHvec. apply Forall_snoc; assumption.
  Qed.
End ValuesValid.

Require Import DatumProofs.

Section EntryValid.
  Variable ro : parse_options.
  Variable alpha : N -> bool.
  Variable fast : bool.
  Variable std_parse : N -> Z -> f64.

  Theorem next_value_valid k fuel s o s' : k <> SrcStr -> rk (rd s) = k ->
    next_value ro alpha fast std_parse fuel s = (POk (Some o), s') -> strs_valid o.
  Proof.
    intros Hk Hr E. pose proof (proj1 (values_valid ro alpha fast std_parse k Hk fuel) s Hr) as H.
    rewrite E in H. exact H.
  Qed.

  Theorem from_trait_valid k inp v : k <> SrcStr ->
    from_trait ro alpha fast std_parse k inp = POk v -> strs_valid v.
  Proof.
    intros Hk E. unfold from_trait in E. set (fuel := fuel_for inp) in *.
    assert (Hp : pens k (pbind (expect_value ro alpha fast std_parse fuel) (fun v => pbind (expect_end_p fuel) (fun _ => pret v))) strs_valid).
    { apply (pens_bind k _ _ strs_valid strs_valid).
      - apply (psat_expect_value Rrk Rrk_ret Rrk_seq Rrk_fuel rk_peek rk_next rk_eat rk_error rk_peek_error rk_error_consume
                 rk_take_run rk_take_symbol fast std_parse ro alpha Rrk_rec1 Rrk_rec2).
      - unfold expect_value. apply (pens_bind k _ _ opt_valid strs_valid).
        + apply (psat_values Rrk Rrk_ret Rrk_seq Rrk_fuel rk_peek rk_next rk_eat rk_error rk_peek_error rk_error_consume
                   rk_take_run rk_take_symbol fast std_parse ro alpha Rrk_rec1 Rrk_rec2).
        + apply (values_valid ro alpha fast std_parse k Hk fuel).
        + intros o Ho. destruct o; [apply pens_ret; exact Ho|apply pens_liftR_err].
      - intros v0 Hv0. apply pens_bind_any; [|intros _; apply pens_ret; exact Hv0].
        apply (psat_expect_end Rrk Rrk_ret Rrk_seq Rrk_fuel rk_peek rk_next rk_eat rk_peek_error). }
    specialize (Hp (init_state k inp) eq_refl). rewrite E in Hp. exact Hp.
  Qed.

  Theorem datum_from_trait_valid k inp d : k <> SrcStr ->
    datum_from_trait ro alpha fast std_parse k inp = POk d -> strs_valid (dvalue d).
  Proof.
    intros Hk E. apply (from_trait_valid k inp); [exact Hk|]. rewrite from_trait_agree, E. reflexivity.
  Qed.
End EntryValid.
