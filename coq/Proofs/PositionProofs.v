(* C19 (and the span endpoints of C11): every position the parser reports is
   the position just after some prefix of the input's bytes, hence in bounds.
   Instance of the generic traversal with the reader invariant "line/column =
   position after the bytes consumed so far". *)
From Coq Require Import SpecFloat Lia ZifyBool ZifyNat ZifyN.
Require Import Base Value Float PrintOptions ParseOptions Utf8 Reader Scan Num NumberOps Parser RelFramework.

Definition bytes_in (l : list event) : bytes :=
  flat_map (fun e => match e with EByte b => [b] | _ => [] end) l.
Definition adv (q : N * N) (b : N) : N * N := advance (fst q) (snd q) b.
Definition pos_from (q : N * N) (p : bytes) : N * N := fold_left adv p q.
Definition pos_after (p : bytes) : N * N := pos_from (1, 0) p.

Lemma pos_from_app q a b : pos_from q (a ++ b) = pos_from (pos_from q a) b.
Proof. apply fold_left_app. Qed.

Lemma bytes_in_skip_intr l : bytes_in (skip_intr l) = bytes_in l.
Proof. induction l as [|[b| |e] l IH]; cbn [skip_intr bytes_in flat_map app]; auto. Qed.

Section Positions.
  Variable W : bytes.   (* the bytes of the whole input, in order *)

  Definition inv (r : reader) : Prop :=
    exists consumed, W = consumed ++ bytes_in (rinput r) /\ (rline r, rcol r) = pos_after consumed.
  (* (l, cl) is the position after a prefix of the input *)
  Definition prefix_pos (l cl : N) : Prop := exists p q, W = p ++ q /\ (l, cl) = pos_after p.

  Definition Rpos (r : reader) (x : option perr) (r' : reader) : Prop :=
    inv r -> inv r' /\ (forall c l cl, x = Some (ESyntax c l cl) -> prefix_pos l cl).

  Lemma Rpos_ret r : Rpos r None r.
  Proof. intros H. split; [exact H|]. intros; discriminate. Qed.
  Lemma Rpos_seq r r1 x r2 : Rpos r None r1 -> Rpos r1 x r2 -> Rpos r x r2.
  Proof. intros H1 H2 Hi. apply H2. apply H1. exact Hi. Qed.
  Lemma Rpos_fuel r : Rpos r (Some EFuel) r.
  Proof. intros H. split; [exact H|]. intros; discriminate. Qed.
  Lemma Rpos_rec1 r e r1 x r2 : Rpos r (Some e) r1 -> Rpos r1 x r2 -> Rpos r (Some e) r2.
  Proof. intros H1 H2 Hi. destruct (H1 Hi) as [Hi1 He]. destruct (H2 Hi1) as [Hi2 _]. split; assumption. Qed.
  Lemma Rpos_rec2 r e r1 e' r2 : Rpos r (Some e) r1 -> Rpos r1 (Some e') r2 -> Rpos r (Some e') r2.
  Proof. intros H1 H2 Hi. destruct (H1 Hi) as [Hi1 _]. exact (H2 Hi1). Qed.

  (* results without a syntax error only need the invariant *)
  Lemma Rpos_inv r x r' : (forall c l cl, x <> Some (ESyntax c l cl)) -> (inv r -> inv r') -> Rpos r x r'.
  Proof. intros Hx H Hi. split; [auto|]. intros c l cl E. exfalso. eapply Hx; exact E. Qed.

  Lemma inv_same_bytes r r' : bytes_in (rinput r') = bytes_in (rinput r) -> rline r' = rline r -> rcol r' = rcol r ->
    inv r -> inv r'.
  Proof. intros Hb Hl Hc (consumed & HW & Hp). exists consumed. rewrite Hb, Hl, Hc. auto. Qed.

  Lemma inv_consume r b l : rinput r = EByte b :: l \/ bytes_in (rinput r) = b :: bytes_in l ->
    inv r -> inv (consume r b l).
  Proof.
    intros Hin (consumed & HW & Hp).
    assert (Hb : bytes_in (rinput r) = b :: bytes_in l) by (destruct Hin as [->|H]; [reflexivity|exact H]).
    exists (consumed ++ [b]). unfold consume. destruct (advance (rline r) (rcol r) b) as [ln cl] eqn:Ea. cbn [rinput rline rcol].
    split.
    - rewrite HW, Hb, <- app_assoc. reflexivity.
    - unfold pos_after. rewrite pos_from_app. fold (pos_after consumed). rewrite <- Hp. unfold pos_from, adv. cbn [fold_left fst snd].
      now rewrite Ea.
  Qed.

  Lemma sat_peek_pos : sat Rpos peek.
  Proof.
    intros r. unfold peek, r_peek, R. destruct (rpending r) eqn:Ep.
    - destruct (rinput r) as [|[b| |e] l]; apply Rpos_inv; try (intros; discriminate); auto.
    - pose proof (bytes_in_skip_intr (rinput r)) as Hn.
      destruct (skip_intr (rinput r)) as [|[b| |e] l] eqn:Es; cbn [fst snd erase];
        apply Rpos_inv; try (intros; discriminate); try (intros Hi; exact Hi);
        apply inv_same_bytes; cbn [rinput rline rcol]; try reflexivity; rewrite <- Hn; reflexivity.
  Qed.

  Lemma sat_next_pos : sat Rpos next_char.
  Proof.
    intros r. unfold next_char, r_next, R.
    assert (Hn : bytes_in (if rpending r then rinput r else skip_intr (rinput r)) = bytes_in (rinput r)).
    { destruct (rpending r); [reflexivity|apply bytes_in_skip_intr]. }
    destruct (if rpending r then rinput r else skip_intr (rinput r)) as [|[b| |e] l]; cbn [fst snd erase];
      apply Rpos_inv; try (intros; discriminate); try (intros Hi; exact Hi).
    - apply inv_same_bytes; cbn [rinput rline rcol]; try reflexivity. rewrite <- Hn. reflexivity.
    - apply inv_consume. right. rewrite <- Hn. reflexivity.
    - apply inv_same_bytes; cbn [rinput rline rcol]; try reflexivity. rewrite <- Hn. reflexivity.
  Qed.

  Lemma inv_discard r : inv r -> inv (r_discard r).
  Proof.
    intros Hi. unfold r_discard. destruct (rk r); try destruct (rpending r); try exact Hi;
      destruct (rinput r) as [|[b| |e] l] eqn:E; try exact Hi; apply inv_consume; auto.
  Qed.

  Lemma sat_eat_pos : sat Rpos eat_char.
  Proof. intros r. unfold eat_char, R. cbn [fst snd erase]. apply Rpos_inv; [intros; discriminate|apply inv_discard]. Qed.

  Lemma position_prefix r : inv r -> prefix_pos (rline r) (rcol r).
  Proof. intros (consumed & HW & Hp). exists consumed, (bytes_in (rinput r)). auto. Qed.

  Lemma peek_position_prefix r : inv r -> prefix_pos (fst (r_peek_position r)) (snd (r_peek_position r)).
  Proof.
    intros Hi. pose proof (position_prefix r Hi) as Hcur.
    assert (Hnext : forall b l, rinput r = EByte b :: l ->
              prefix_pos (fst (advance (rline r) (rcol r) b)) (snd (advance (rline r) (rcol r) b))).
    { intros b l E. destruct Hi as (consumed & HW & Hp). exists (consumed ++ [b]), (bytes_in l). split.
      - rewrite HW, E, <- app_assoc. reflexivity.
      - unfold pos_after. rewrite pos_from_app. fold (pos_after consumed). rewrite <- Hp.
        unfold pos_from, adv. cbn [fold_left fst snd]. destruct (advance (rline r) (rcol r) b); reflexivity. }
    unfold r_peek_position. destruct (rk r); try destruct (rpending r); try exact Hcur;
      destruct (rinput r) as [|[b| |e] l] eqn:E; try exact Hcur; eapply Hnext; reflexivity.
  Qed.

  Lemma sat_error_pos A c : sat Rpos (@error A c).
  Proof.
    intros r. unfold error, R, r_position. cbn [fst snd erase]. intros Hi. split; [exact Hi|].
    intros c' l cl E. inversion E; subst. apply position_prefix. exact Hi.
  Qed.
  Lemma sat_peek_error_pos A c : sat Rpos (@peek_error A c).
  Proof.
    intros r. unfold peek_error, R. pose proof (peek_position_prefix r) as Hp.
    destruct (r_peek_position r) as [l0 cl0]. cbn [fst snd erase] in *. intros Hi. split; [exact Hi|].
    intros c' l cl E. inversion E; subst. apply Hp. exact Hi.
  Qed.
  Lemma sat_error_consume_pos A c : sat Rpos (@error_consume A c).
  Proof.
    intros r. unfold error_consume, peek_error, R. pose proof (peek_position_prefix r) as Hp.
    destruct (r_peek_position r) as [l0 cl0]. cbn [fst snd erase] in *. intros Hi. split; [apply inv_discard; exact Hi|].
    intros c' l cl E. inversion E; subst. apply Hp. exact Hi.
  Qed.

  (* the slice readers' bulk steps *)
  Lemma span_plain_bytes l : forall acc, exists run,
    fst (span_plain l acc) = acc ++ run /\ bytes_in l = run ++ bytes_in (snd (span_plain l acc)).
  Proof.
    induction l as [|[b| |e] l IH]; intros acc; cbn [span_plain]; try (exists []; rewrite app_nil_r; split; reflexivity).
    destruct ((b =? 92) || (b =? 34))%bool; [exists []; rewrite app_nil_r; split; reflexivity|].
    destruct (IH (acc ++ [b])) as (run & E1 & E2). exists (b :: run). rewrite E1, <- app_assoc. split; [reflexivity|].
    change (bytes_in (EByte b :: l)) with (b :: bytes_in l). rewrite E2. reflexivity.
  Qed.
  Lemma span_symbol_bytes l : forall acc, exists run,
    fst (span_symbol l acc) = acc ++ run /\ bytes_in l = run ++ bytes_in (snd (span_symbol l acc)).
  Proof.
    induction l as [|[b| |e] l IH]; intros acc; cbn [span_symbol]; try (exists []; rewrite app_nil_r; split; reflexivity).
    destruct (is_symbol_terminator b); [exists []; rewrite app_nil_r; split; reflexivity|].
    destruct (IH (acc ++ [b])) as (run & E1 & E2). exists (b :: run). rewrite E1, <- app_assoc. split; [reflexivity|].
    change (bytes_in (EByte b :: l)) with (b :: bytes_in l). rewrite E2. reflexivity.
  Qed.

  Lemma inv_advance_over r run rest : bytes_in (rinput r) = run ++ bytes_in rest -> inv r -> inv (advance_over r run rest).
  Proof.
    intros Hb (consumed & HW & Hp). exists (consumed ++ run). unfold advance_over.
    destruct (fold_left _ run (rline r, rcol r)) as [ln cl] eqn:Ef. cbn [rinput rline rcol]. split.
    - rewrite HW, Hb, <- app_assoc. reflexivity.
    - unfold pos_after. rewrite pos_from_app. fold (pos_after consumed). rewrite <- Hp. unfold pos_from, adv. now rewrite Ef.
  Qed.

  Lemma sat_take_run_pos : sat Rpos take_run.
  Proof.
    intros r. unfold take_run, R. destruct (span_plain_bytes (rinput r) []) as (run & E1 & E2).
    destruct (span_plain (rinput r) []) as [run' rest]. cbn [fst snd app] in E1, E2. subst run'.
    destruct rest as [|[b| |e] rest']; cbn [fst snd erase]; apply Rpos_inv; try (intros; discriminate); intros Hi.
    - apply inv_advance_over; assumption.
    - apply inv_consume; [left; unfold advance_over; destruct (fold_left _ _ _); reflexivity|].
      apply inv_advance_over; assumption.
    - apply inv_advance_over; assumption.
    - apply inv_advance_over; assumption.
  Qed.
  Lemma sat_take_symbol_pos : sat Rpos take_symbol_run.
  Proof.
    intros r. unfold take_symbol_run, R. destruct (span_symbol_bytes (rinput r) []) as (run & E1 & E2).
    destruct (span_symbol (rinput r) []) as [run' rest]. cbn [fst snd app] in E1, E2. subst run'.
    cbn [fst snd erase]. apply Rpos_inv; [intros; discriminate|]. intros Hi. apply inv_advance_over; assumption.
  Qed.

  Section Parse.
    Variable ro : parse_options.
    Variable alpha : N -> bool.
    Variable fast : bool.
    Variable std_parse : N -> Z -> f64.

    Definition pos_values := psat_values Rpos Rpos_ret Rpos_seq Rpos_fuel sat_peek_pos sat_next_pos sat_eat_pos sat_error_pos
      sat_peek_error_pos sat_error_consume_pos sat_take_run_pos sat_take_symbol_pos fast std_parse ro alpha Rpos_rec1 Rpos_rec2.
    Definition pos_datums := psat_datums Rpos Rpos_ret Rpos_seq Rpos_fuel sat_peek_pos sat_next_pos sat_eat_pos sat_error_pos
      sat_peek_error_pos sat_error_consume_pos sat_take_run_pos sat_take_symbol_pos fast std_parse ro alpha Rpos_rec1 Rpos_rec2.

    Lemma psat_pos_bind {A B} (m : PM A) (f : A -> PM B) :
      psat Rpos m -> (forall a, psat Rpos (f a)) -> psat Rpos (pbind m f).
    Proof. apply (psat_bind Rpos Rpos_seq). Qed.

    (* any call on a parser whose reader satisfies the invariant *)
    Theorem next_value_positions fuel s : inv (rd s) ->
      let '(x, s') := next_value ro alpha fast std_parse fuel s in
      inv (rd s') /\ (forall c l cl, x = PErr (XErr (ESyntax c l cl)) -> prefix_pos l cl).
    Proof.
      intros Hi. pose proof (proj1 (pos_values fuel) s Hi) as H.
      destruct (next_value ro alpha fast std_parse fuel s) as [x s']. cbn [fst snd] in H.
      destruct H as [H1 H2]. split; [exact H1|]. intros c l cl ->. eapply H2. reflexivity.
    Qed.
    Theorem next_datum_positions fuel s : inv (rd s) ->
      let '(x, s') := next_datum ro alpha fast std_parse fuel s in
      inv (rd s') /\ (forall c l cl, x = PErr (XErr (ESyntax c l cl)) -> prefix_pos l cl).
    Proof.
      intros Hi. pose proof (proj1 (pos_datums fuel) s Hi) as H.
      destruct (next_datum ro alpha fast std_parse fuel s) as [x s']. cbn [fst snd] in H.
      destruct H as [H1 H2]. split; [exact H1|]. intros c l cl ->. eapply H2. reflexivity.
    Qed.
  End Parse.
End Positions.

(* ---- a prefix position is inside the text ---- *)
(* lengths of the lines of w, the first one continuing a line that already has [cur] bytes *)
Fixpoint line_lens (w : bytes) (cur : N) : list N :=
  match w with
  | [] => [cur]
  | b :: w' => if b =? 10 then cur :: line_lens w' 0 else line_lens w' (cur + 1)
  end.

Lemma line_lens_hd w : forall cur, exists len rest, line_lens w cur = len :: rest /\ cur <= len.
Proof.
  induction w as [|b w IH]; intros cur; cbn [line_lens].
  - exists cur, []. split; [reflexivity|lia].
  - destruct (b =? 10).
    + exists cur, (line_lens w 0). split; [reflexivity|lia].
    + destruct (IH (cur + 1)) as (len & rest & E & H). exists len, rest. split; [exact E|lia].
Qed.

Lemma pos_from_in_lines p : forall q l0 c0,
  let '(l, c) := pos_from (l0, c0) p in
  l0 <= l /\ exists len, nth_error (line_lens (p ++ q) c0) (N.to_nat (l - l0)) = Some len /\ c <= len.
Proof.
  induction p as [|b p IH]; intros q l0 c0.
  - cbn [pos_from fold_left app]. split; [lia|]. destruct (line_lens_hd q c0) as (len & rest & E & H).
    exists len. rewrite E. replace (N.to_nat (l0 - l0)) with 0%nat by lia. split; [reflexivity|exact H].
  - unfold pos_from. cbn [fold_left app line_lens]. unfold adv at 2. cbn [fst snd]. unfold advance.
    destruct (b =? 10).
    + specialize (IH q (l0 + 1) 0). unfold pos_from in IH. destruct (fold_left adv p (l0 + 1, 0)) as [l c].
      destruct IH as (Hl & len & E & Hc). split; [lia|]. exists len. split; [|exact Hc].
      replace (N.to_nat (l - l0)) with (S (N.to_nat (l - (l0 + 1)))) by lia. exact E.
    + specialize (IH q l0 (c0 + 1)). unfold pos_from in IH. destruct (fold_left adv p (l0, c0 + 1)) as [l c].
      exact IH.
Qed.

(* 1-based line within the lines of the text, column at most that line's length *)
Definition in_bounds (W : bytes) (l cl : N) : Prop :=
  1 <= l /\ exists len, nth_error (line_lens W 0) (N.to_nat (l - 1)) = Some len /\ cl <= len.

Theorem prefix_pos_in_bounds W l cl : prefix_pos W l cl -> in_bounds W l cl.
Proof.
  intros (p & q & HW & Hp). pose proof (pos_from_in_lines p q 1 0) as H. unfold pos_after in Hp. rewrite <- Hp in H.
  rewrite <- HW in H. exact H.
Qed.

Lemma inv_init W k inp : W = bytes_in inp -> inv W (mk_reader k inp).
Proof. intros ->. exists []. split; reflexivity. Qed.

(* the single-shot entry points *)
Theorem from_trait_positions ro alpha fast std_parse k inp c l cl :
  from_trait ro alpha fast std_parse k inp = PErr (XErr (ESyntax c l cl)) -> in_bounds (bytes_in inp) l cl.
Proof.
  intros E. apply prefix_pos_in_bounds. unfold from_trait in E.
  set (W := bytes_in inp). set (fuel := fuel_for inp) in *.
  assert (Hp : psat (Rpos W) (pbind (expect_value ro alpha fast std_parse fuel) (fun v => pbind (expect_end_p fuel) (fun _ => pret v)))).
  { apply psat_pos_bind; [|intros v; apply psat_pos_bind; [|intros _; apply psat_pret; apply Rpos_ret]].
    - apply (psat_expect_value (Rpos W) (Rpos_ret W) (Rpos_seq W) (Rpos_fuel W) (sat_peek_pos W) (sat_next_pos W) (sat_eat_pos W)
               (sat_error_pos W) (sat_peek_error_pos W) (sat_error_consume_pos W) (sat_take_run_pos W) (sat_take_symbol_pos W)
               fast std_parse ro alpha (Rpos_rec1 W) (Rpos_rec2 W)).
    - apply (psat_expect_end (Rpos W) (Rpos_ret W) (Rpos_seq W) (Rpos_fuel W) (sat_peek_pos W) (sat_next_pos W) (sat_eat_pos W)
               (sat_peek_error_pos W)). }
  specialize (Hp (init_state k inp) (inv_init W k inp eq_refl)). rewrite E in Hp. destruct Hp as [_ H]. eapply H. reflexivity.
Qed.

Theorem datum_from_trait_positions ro alpha fast std_parse k inp c l cl :
  datum_from_trait ro alpha fast std_parse k inp = PErr (XErr (ESyntax c l cl)) -> in_bounds (bytes_in inp) l cl.
Proof.
  intros E. apply prefix_pos_in_bounds. unfold datum_from_trait in E.
  set (W := bytes_in inp). set (fuel := fuel_for inp) in *.
  assert (Hp : psat (Rpos W) (pbind (expect_datum ro alpha fast std_parse fuel) (fun v => pbind (expect_end_p fuel) (fun _ => pret v)))).
  { apply psat_pos_bind; [|intros v; apply psat_pos_bind; [|intros _; apply psat_pret; apply Rpos_ret]].
    - apply (psat_expect_datum (Rpos W) (Rpos_ret W) (Rpos_seq W) (Rpos_fuel W) (sat_peek_pos W) (sat_next_pos W) (sat_eat_pos W)
               (sat_error_pos W) (sat_peek_error_pos W) (sat_error_consume_pos W) (sat_take_run_pos W) (sat_take_symbol_pos W)
               fast std_parse ro alpha (Rpos_rec1 W) (Rpos_rec2 W)).
    - apply (psat_expect_end (Rpos W) (Rpos_ret W) (Rpos_seq W) (Rpos_fuel W) (sat_peek_pos W) (sat_next_pos W) (sat_eat_pos W)
               (sat_peek_error_pos W)). }
  specialize (Hp (init_state k inp) (inv_init W k inp eq_refl)). rewrite E in Hp. destruct Hp as [_ H]. eapply H. reflexivity.
Qed.

