(* Fuel is irrelevant once it suffices. The model's loops run on fuel and one
   place swallows the fuel error: number_of_symbol re-parses a digit-initial
   symbol on a fresh reader and turns every failure, the fuel error included,
   into "not a number". So "no fuel error is ever reported" (C03_total) leaves
   a question open: could a run with little fuel silently differ from a run
   with more? No: for every reader with at most n events left and every two
   fuel values above the bound of FuelProofs, every function of the parser
   returns exactly the same result and state. The re-parse is covered because
   a scanned symbol is no longer than the input it was scanned from. *)
From Coq Require Import SpecFloat Lia ZifyBool ZifyNat ZifyN.
Require Import Base Value Float PrintOptions ParseOptions Utf8 Reader Scan Num NumberOps Parser.
Require Import RelFramework SpanProofs FuelProofs CrossProofs.

(* um mi ms (CrossProofs): mi reports the fuel error or behaves exactly like ms *)
Lemma um_of_eq {A} (mi ms : M A) : (forall r, mi r = ms r) -> um mi ms.
Proof. intros H r. right. apply H. Qed.
Lemma um_by_rk {A} (mi ms : M A) (fi fs : src_kind -> M A) :
  (forall r, mi r = fi (rk r) r) -> (forall r, ms r = fs (rk r) r) -> (forall k, um (fi k) (fs k)) -> um mi ms.
Proof. intros Ei Es H r. rewrite Ei, Es. apply H. Qed.

Create HintDb umdb.
Ltac um_step2 :=
  first
    [ match goal with |- um ?a ?b => constr_eq a b; apply um_refl end | apply um_fuel | assumption
    | solve [eauto 3 with umdb]
    | apply um_bind; [|intros ?]
    | match goal with
      | |- um (if ?c then _ else _) (if ?c then _ else _) => destruct c
      | |- um (match ?x with _ => _ end) (match ?x with _ => _ end) => destruct x
      | |- um (let '(_, _) := ?x in _) (let '(_, _) := ?x in _) => destruct x
      end ].
Ltac um_auto2 := repeat um_step2.
#[export] Hint Extern 1 (_ <= _)%nat => lia : umdb.

Ltac um_loop IH := match goal with |- um _ _ => idtac end.

(* ---- scanners ---- *)
Lemma um_scan_symbol_io fi : forall fs scratch, (fi <= fs)%nat -> um (scan_symbol_io fi scratch) (scan_symbol_io fs scratch).
Proof.
  induction fi as [|fi IH]; intros fs scratch Hf; [apply um_fuel|]. destruct fs as [|fs]; [lia|]. cbn [scan_symbol_io].
  assert (H' : forall y, um (scan_symbol_io fi y) (scan_symbol_io fs y)) by (intros; apply IH; lia). um_auto2.
Qed.
Lemma um_parse_symbol_rd fi fs scratch : (fi <= fs)%nat -> um (parse_symbol_rd fi scratch) (parse_symbol_rd fs scratch).
Proof.
  intros Hf.
  apply (um_by_rk _ _ (fun k => match k with SrcIo => b <- scan_symbol_io fi scratch ;; Scan.as_str b | _ => b <- scan_symbol_slice scratch ;; finish_str b end)
                      (fun k => match k with SrcIo => b <- scan_symbol_io fs scratch ;; Scan.as_str b | _ => b <- scan_symbol_slice scratch ;; finish_str b end));
    [intros r; unfold parse_symbol_rd; destruct (rk r); reflexivity|intros r; unfold parse_symbol_rd; destruct (rk r); reflexivity|].
  pose proof (um_scan_symbol_io fi fs scratch Hf). intros k; destruct k; um_auto2.
Qed.
#[export] Hint Resolve um_parse_symbol_rd um_hex_escape_loop um_parse_r6rs_escape um_elisp_hex_loop um_elisp_octal_loop um_parse_elisp_escape : umdb.

Lemma um_r6rs_str_io fi : forall fs scratch, (fi <= fs)%nat -> um (r6rs_str_io fi scratch) (r6rs_str_io fs scratch).
Proof.
  induction fi as [|fi IH]; intros fs scratch Hf; [apply um_fuel|]. destruct fs as [|fs]; [lia|]. cbn [r6rs_str_io].
  assert (H' : forall y, um (r6rs_str_io fi y) (r6rs_str_io fs y)) by (intros; apply IH; lia).
  assert (He : um (parse_r6rs_escape fi) (parse_r6rs_escape fs)) by (apply um_parse_r6rs_escape; lia). um_auto2.
Qed.
Lemma um_r6rs_str_slice fi : forall fs scratch, (fi <= fs)%nat -> um (r6rs_str_slice fi scratch) (r6rs_str_slice fs scratch).
Proof.
  induction fi as [|fi IH]; intros fs scratch Hf; [apply um_fuel|]. destruct fs as [|fs]; [lia|].
  intros r. rewrite !r6rs_str_slice_eq. revert r.
  assert (H' : forall y, um (r6rs_str_slice fi y) (r6rs_str_slice fs y)) by (intros; apply IH; lia).
  assert (He : um (parse_r6rs_escape fi) (parse_r6rs_escape fs)) by (apply um_parse_r6rs_escape; lia). um_auto2.
Qed.
Lemma um_parse_r6rs_str_rd fi fs : (fi <= fs)%nat -> um (parse_r6rs_str_rd fi) (parse_r6rs_str_rd fs).
Proof.
  intros Hf.
  apply (um_by_rk _ _ (fun k => match k with SrcIo => b <- r6rs_str_io fi [] ;; Scan.as_str b | _ => b <- r6rs_str_slice fi [] ;; finish_str b end)
                      (fun k => match k with SrcIo => b <- r6rs_str_io fs [] ;; Scan.as_str b | _ => b <- r6rs_str_slice fs [] ;; finish_str b end));
    [intros r; unfold parse_r6rs_str_rd; destruct (rk r); reflexivity|intros r; unfold parse_r6rs_str_rd; destruct (rk r); reflexivity|].
  pose proof (um_r6rs_str_io fi fs [] Hf). pose proof (um_r6rs_str_slice fi fs [] Hf). intros k; destruct k; um_auto2.
Qed.
Lemma um_elisp_str_io fi : forall fs fl scratch, (fi <= fs)%nat -> um (elisp_str_io fi fl scratch) (elisp_str_io fs fl scratch).
Proof.
  induction fi as [|fi IH]; intros fs fl scratch Hf; [apply um_fuel|]. destruct fs as [|fs]; [lia|]. cbn [elisp_str_io].
  assert (H' : forall x y, um (elisp_str_io fi x y) (elisp_str_io fs x y)) by (intros; apply IH; lia).
  assert (He : um (parse_elisp_escape fi) (parse_elisp_escape fs)) by (apply um_parse_elisp_escape; lia). um_auto2.
Qed.
Lemma um_elisp_str_slice fi : forall fs fl scratch, (fi <= fs)%nat -> um (elisp_str_slice fi fl scratch) (elisp_str_slice fs fl scratch).
Proof.
  induction fi as [|fi IH]; intros fs fl scratch Hf; [apply um_fuel|]. destruct fs as [|fs]; [lia|].
  intros r. rewrite !elisp_str_slice_eq. revert r. cbv zeta.
  assert (H' : forall x y, um (elisp_str_slice fi x y) (elisp_str_slice fs x y)) by (intros; apply IH; lia).
  assert (He : um (parse_elisp_escape fi) (parse_elisp_escape fs)) by (apply um_parse_elisp_escape; lia). um_auto2.
Qed.
Lemma um_parse_elisp_str_rd fi fs : (fi <= fs)%nat -> um (parse_elisp_str_rd fi) (parse_elisp_str_rd fs).
Proof.
  intros Hf. pose (fl0 := {| seen_ub := false; seen_mb := false; seen_na := false |}).
  apply (um_by_rk _ _ (fun k => match k with SrcIo => elisp_str_io fi fl0 [] | _ => elisp_str_slice fi fl0 [] end)
                      (fun k => match k with SrcIo => elisp_str_io fs fl0 [] | _ => elisp_str_slice fs fl0 [] end));
    [intros r; unfold parse_elisp_str_rd; cbv zeta; destruct (rk r); reflexivity|intros r; unfold parse_elisp_str_rd; cbv zeta; destruct (rk r); reflexivity|].
  intros k; destruct k; first [apply um_elisp_str_io; exact Hf|apply um_elisp_str_slice; exact Hf].
Qed.
#[export] Hint Resolve um_parse_r6rs_str_rd um_parse_elisp_str_rd : umdb.

Lemma um_r6rs_char_hex_loop fi : forall fs x first, (fi <= fs)%nat -> um (r6rs_char_hex_loop fi x first) (r6rs_char_hex_loop fs x first).
Proof.
  induction fi as [|fi IH]; intros fs x first Hf; [apply um_fuel|]. destruct fs as [|fs]; [lia|]. cbn [r6rs_char_hex_loop].
  assert (H' : forall y z, um (r6rs_char_hex_loop fi y z) (r6rs_char_hex_loop fs y z)) by (intros; apply IH; lia). um_auto2.
Qed.
Lemma um_char_name_loop fi : forall fs scratch, (fi <= fs)%nat -> um (char_name_loop fi scratch) (char_name_loop fs scratch).
Proof.
  induction fi as [|fi IH]; intros fs scratch Hf; [apply um_fuel|]. destruct fs as [|fs]; [lia|]. cbn [char_name_loop].
  assert (H' : forall y, um (char_name_loop fi y) (char_name_loop fs y)) by (intros; apply IH; lia). um_auto2.
Qed.
#[export] Hint Resolve um_r6rs_char_hex_loop um_char_name_loop : umdb.
Lemma um_parse_r6rs_char fi fs : (fi <= fs)%nat -> um (parse_r6rs_char fi) (parse_r6rs_char fs).
Proof. intros Hf. unfold parse_r6rs_char. um_auto2. Qed.
Lemma um_decode_elisp_char_escape fi fs : (fi <= fs)%nat -> um (decode_elisp_char_escape fi) (decode_elisp_char_escape fs).
Proof. intros Hf. unfold decode_elisp_char_escape, decode_elisp_hex_escape, decode_elisp_octal_escape. um_auto2. Qed.
#[export] Hint Resolve um_parse_r6rs_char um_decode_elisp_char_escape : umdb.
Lemma um_parse_elisp_char fi fs : (fi <= fs)%nat -> um (parse_elisp_char fi) (parse_elisp_char fs).
Proof. intros Hf. unfold parse_elisp_char. um_auto2. Qed.
#[export] Hint Resolve um_parse_elisp_char : umdb.

(* ---- numbers ---- *)
Section NumMono.
  Variable fast : bool.
  Variable std_parse : N -> Z -> f64.

  Lemma um_skip_digits fi : forall fs, (fi <= fs)%nat -> um (skip_digits fi) (skip_digits fs).
  Proof.
    induction fi as [|fi IH]; intros fs Hf; [apply um_fuel|]. destruct fs as [|fs]; [lia|]. cbn [skip_digits].
    assert (H' : um (skip_digits fi) (skip_digits fs)) by (apply IH; lia). um_auto2.
  Qed.
  Hint Resolve um_skip_digits : umdb.
  Lemma um_parse_exponent_overflow fi fs p s pe : (fi <= fs)%nat -> um (parse_exponent_overflow fi p s pe) (parse_exponent_overflow fs p s pe).
  Proof. intros Hf. unfold parse_exponent_overflow. um_auto2. Qed.
  Hint Resolve um_parse_exponent_overflow : umdb.
  Lemma um_exponent_digits fi : forall fs p s pe se e, (fi <= fs)%nat ->
    um (exponent_digits fast std_parse fi p s pe se e) (exponent_digits fast std_parse fs p s pe se e).
  Proof.
    induction fi as [|fi IH]; intros fs p s pe se e Hf; [apply um_fuel|]. destruct fs as [|fs]; [lia|]. cbn [exponent_digits]. cbv zeta.
    assert (H' : forall a b c d e', um (exponent_digits fast std_parse fi a b c d e') (exponent_digits fast std_parse fs a b c d e')) by (intros; apply IH; lia).
    assert (Ho : forall a b c, um (parse_exponent_overflow fi a b c) (parse_exponent_overflow fs a b c)) by (intros; apply um_parse_exponent_overflow; lia).
    um_auto2.
  Qed.
  Hint Resolve um_exponent_digits : umdb.
  Lemma um_parse_exponent fi fs p s se : (fi <= fs)%nat -> um (parse_exponent fast std_parse fi p s se) (parse_exponent fast std_parse fs p s se).
  Proof. intros Hf. unfold parse_exponent. um_auto2. Qed.
  Hint Resolve um_parse_exponent : umdb.
  Lemma um_decimal_digits fi : forall fs s e o, (fi <= fs)%nat -> um (decimal_digits fi s e o) (decimal_digits fs s e o).
  Proof.
    induction fi as [|fi IH]; intros fs s e o Hf; [apply um_fuel|]. destruct fs as [|fs]; [lia|]. cbn [decimal_digits]. cbv zeta.
    assert (H' : forall a b c, um (decimal_digits fi a b c) (decimal_digits fs a b c)) by (intros; apply IH; lia).
    assert (Hs : um (skip_digits fi) (skip_digits fs)) by (apply um_skip_digits; lia). um_auto2.
  Qed.
  Hint Resolve um_decimal_digits : umdb.
  Lemma um_parse_decimal fi fs p s e : (fi <= fs)%nat -> um (parse_decimal fast std_parse fi p s e) (parse_decimal fast std_parse fs p s e).
  Proof. intros Hf. unfold parse_decimal. apply um_bind; [apply um_refl|intros _]. apply um_bind; [auto with umdb|]. intros [[sig ex] one]. um_auto2. Qed.
  Hint Resolve um_parse_decimal : umdb.
  Lemma um_parse_long_integer fi : forall fs radix p s e, (fi <= fs)%nat ->
    um (parse_long_integer fast std_parse fi radix p s e) (parse_long_integer fast std_parse fs radix p s e).
  Proof.
    induction fi as [|fi IH]; intros fs radix p s e Hf; [apply um_fuel|]. destruct fs as [|fs]; [lia|]. cbn [parse_long_integer]. cbv zeta.
    assert (H' : forall a b c d, um (parse_long_integer fast std_parse fi a b c d) (parse_long_integer fast std_parse fs a b c d)) by (intros; apply IH; lia).
    assert (Hd : forall a b c, um (parse_decimal fast std_parse fi a b c) (parse_decimal fast std_parse fs a b c)) by (intros; apply um_parse_decimal; lia).
    assert (He : forall a b c, um (parse_exponent fast std_parse fi a b c) (parse_exponent fast std_parse fs a b c)) by (intros; apply um_parse_exponent; lia).
    um_auto2.
  Qed.
  Hint Resolve um_parse_long_integer : umdb.
  Lemma um_parse_num_tail fi fs radix p s : (fi <= fs)%nat -> um (parse_num_tail fast std_parse fi radix p s) (parse_num_tail fast std_parse fs radix p s).
  Proof. intros Hf. unfold parse_num_tail. um_auto2. Qed.
  Hint Resolve um_parse_num_tail : umdb.
  Lemma um_num_literal_loop fi : forall fs radix p s, (fi <= fs)%nat ->
    um (num_literal_loop fast std_parse fi radix p s) (num_literal_loop fast std_parse fs radix p s).
  Proof.
    induction fi as [|fi IH]; intros fs radix p s Hf; [apply um_fuel|]. destruct fs as [|fs]; [lia|]. cbn [num_literal_loop].
    assert (H' : forall a b c, um (num_literal_loop fast std_parse fi a b c) (num_literal_loop fast std_parse fs a b c)) by (intros; apply IH; lia).
    assert (Ht : forall a b c, um (parse_num_tail fast std_parse fi a b c) (parse_num_tail fast std_parse fs a b c)) by (intros; apply um_parse_num_tail; lia).
    assert (Hl : forall a b c d, um (parse_long_integer fast std_parse fi a b c d) (parse_long_integer fast std_parse fs a b c d)) by (intros; apply um_parse_long_integer; lia).
    um_auto2.
  Qed.
  Hint Resolve um_num_literal_loop : umdb.
  Lemma um_parse_num_literal fi fs radix p : (fi <= fs)%nat -> um (parse_num_literal fast std_parse fi radix p) (parse_num_literal fast std_parse fs radix p).
  Proof. intros Hf. unfold parse_num_literal. um_auto2. Qed.
End NumMono.
#[export] Hint Resolve um_skip_digits um_parse_exponent_overflow um_exponent_digits um_parse_exponent um_decimal_digits um_parse_decimal
  um_parse_long_integer um_parse_num_tail um_num_literal_loop um_parse_num_literal : umdb.

(* ---- tokens ---- *)
Section TokenMono.
  Variable fast : bool.
  Variable std_parse : N -> Z -> f64.

  Lemma um_parse_num_token fi fs radix p : (fi <= fs)%nat -> um (parse_num_token fast std_parse fi radix p) (parse_num_token fast std_parse fs radix p).
  Proof. intros Hf. unfold parse_num_token. um_auto2. Qed.
  Hint Resolve um_parse_num_token : umdb.
  Lemma um_parse_radix_literal fi fs radix : (fi <= fs)%nat -> um (parse_radix_literal fast std_parse fi radix) (parse_radix_literal fast std_parse fs radix).
  Proof. intros Hf. unfold parse_radix_literal. um_auto2. Qed.
  Hint Resolve um_parse_radix_literal : umdb.
  Lemma um_parse_number fi fs : (fi <= fs)%nat -> um (parse_number fast std_parse fi) (parse_number fast std_parse fs).
  Proof. intros Hf. unfold parse_number. um_auto2. Qed.
  Hint Resolve um_parse_number : umdb.
  Lemma um_skip_comment fi : forall fs, (fi <= fs)%nat -> um (skip_comment fi) (skip_comment fs).
  Proof.
    induction fi as [|fi IH]; intros fs Hf; [apply um_fuel|]. destruct fs as [|fs]; [lia|]. cbn [skip_comment].
    assert (H' : um (skip_comment fi) (skip_comment fs)) by (apply IH; lia). um_auto2.
  Qed.
  Lemma um_parse_whitespace fi : forall fs, (fi <= fs)%nat -> um (parse_whitespace fi) (parse_whitespace fs).
  Proof.
    induction fi as [|fi IH]; intros fs Hf; [apply um_fuel|]. destruct fs as [|fs]; [lia|]. cbn [parse_whitespace].
    assert (H' : um (parse_whitespace fi) (parse_whitespace fs)) by (apply IH; lia).
    assert (Hc : um (skip_comment fi) (skip_comment fs)) by (apply um_skip_comment; lia). um_auto2.
  Qed.
  Hint Resolve um_parse_whitespace : umdb.
  Lemma um_parse_symbol fi fs : (fi <= fs)%nat -> um (parse_symbol fi) (parse_symbol fs).
  Proof. intros Hf. unfold parse_symbol. um_auto2. Qed.
  Lemma um_parse_symbol_suffix fi fs p : (fi <= fs)%nat -> um (parse_symbol_suffix fi p) (parse_symbol_suffix fs p).
  Proof. intros Hf. unfold parse_symbol_suffix. um_auto2. Qed.
  Hint Resolve um_parse_symbol um_parse_symbol_suffix : umdb.
  Lemma um_end_seq fi fs close : (fi <= fs)%nat -> um (end_seq fi close) (end_seq fs close).
  Proof. intros Hf. unfold end_seq. um_auto2. Qed.
  Lemma um_expect_end fi fs : (fi <= fs)%nat -> um (expect_end fi) (expect_end fs).
  Proof. intros Hf. unfold expect_end. um_auto2. Qed.
  Lemma um_byte_list_loop fi : forall fs close acc, (fi <= fs)%nat ->
    um (byte_list_loop fast std_parse fi close acc) (byte_list_loop fast std_parse fs close acc).
  Proof.
    induction fi as [|fi IH]; intros fs close acc Hf; [apply um_fuel|]. destruct fs as [|fs]; [lia|]. cbn [byte_list_loop].
    assert (H' : forall a b, um (byte_list_loop fast std_parse fi a b) (byte_list_loop fast std_parse fs a b)) by (intros; apply IH; lia).
    assert (Hw : um (parse_whitespace fi) (parse_whitespace fs)) by (apply um_parse_whitespace; lia).
    assert (Hn : um (parse_number fast std_parse fi) (parse_number fast std_parse fs)) by (apply um_parse_number; lia).
    um_auto2.
  Qed.
  Lemma um_parse_byte_list fi fs close : (fi <= fs)%nat -> um (parse_byte_list fast std_parse fi close) (parse_byte_list fast std_parse fs close).
  Proof. intros Hf. pose proof (fun a b => um_byte_list_loop fi fs a b Hf). unfold parse_byte_list. um_auto2. Qed.
End TokenMono.

(* ---- a scanned symbol is no longer than the input it was scanned from ---- *)
Lemma scan_symbol_io_len fuel : forall scratch r b r', scan_symbol_io fuel scratch r = (Ok b, r') ->
  (length b + rem r' <= length scratch + rem r)%nat.
Proof.
  induction fuel as [|f IH]; intros scratch r b r'; [discriminate|]. rewrite scan_symbol_io_unfold.
  pose proof (peek_cases r) as Hc. destruct (r_peek r) as [[[ch|]|e] r1]; [| |discriminate].
  - destruct Hc as [Hb Hle]. destruct (is_symbol_terminator ch).
    + destruct (beq_bytes scratch [46]); [unfold error; destruct (r_position r1); discriminate|].
      unfold ret. intros H. inversion H; subst. lia.
    + intros H. apply IH in H. rewrite app_length in H. cbn [length] in H. pose proof (discard_at ch r1 Hb). lia.
  - destruct (is_truncated_symbol scratch); [unfold error; destruct (r_position r1); discriminate|].
    destruct (beq_bytes scratch [46]); [unfold error; destruct (r_position r1); discriminate|].
    unfold ret. intros H. inversion H; subst. lia.
Qed.
Lemma span_symbol_lens l : forall acc, (length (fst (span_symbol l acc)) + length (snd (span_symbol l acc)) = length acc + length l)%nat.
Proof.
  induction l as [|[b| |e] l IH]; intros acc; cbn [span_symbol fst snd length]; try lia.
  destruct (is_symbol_terminator b); cbn [fst snd length]; [lia|]. rewrite IH, app_length. cbn [length]. lia.
Qed.
Lemma scan_symbol_slice_len scratch r b r' : scan_symbol_slice scratch r = (Ok b, r') ->
  (length b + rem r' <= length scratch + rem r)%nat.
Proof.
  unfold scan_symbol_slice. pose proof (span_symbol_lens (rinput r) []) as Hl.
  destruct (span_symbol (rinput r) []) as [scanned rest]. cbn [fst snd length] in Hl. cbv zeta.
  destruct (_ && _); [unfold error; destruct (r_position _); discriminate|].
  destruct (beq_bytes _ _); [unfold error; destruct (r_position _); discriminate|].
  unfold ret. intros H. inversion H; subst. rewrite advance_over_rem, app_length. unfold rem. lia.
Qed.
Lemma as_str_same b r x r' : Scan.as_str b r = (Ok x, r') -> x = b /\ r' = r.
Proof. unfold Scan.as_str. destruct (utf8_valid b); [unfold ret; intros H; inversion H; auto|unfold error; destruct (r_position r); discriminate]. Qed.
Lemma finish_str_same b r x r' : finish_str b r = (Ok x, r') -> x = b /\ r' = r.
Proof. unfold finish_str. destruct (rk r); [unfold ret; intros H; inversion H; auto|apply as_str_same|apply as_str_same]. Qed.
Lemma parse_symbol_rd_len fuel scratch r b r' : parse_symbol_rd fuel scratch r = (Ok b, r') ->
  (length b + rem r' <= length scratch + rem r)%nat.
Proof.
  unfold parse_symbol_rd. destruct (rk r); unfold bind.
  - destruct (scan_symbol_slice scratch r) as [[x|e] r1] eqn:E; [|discriminate]. intros H. apply finish_str_same in H. destruct H; subst.
    apply (scan_symbol_slice_len scratch r); exact E.
  - destruct (scan_symbol_slice scratch r) as [[x|e] r1] eqn:E; [|discriminate]. intros H. apply finish_str_same in H. destruct H; subst.
    apply (scan_symbol_slice_len scratch r); exact E.
  - destruct (scan_symbol_io fuel scratch r) as [[x|e] r1] eqn:E; [|discriminate]. intros H. apply as_str_same in H. destruct H; subst.
    apply (scan_symbol_io_len fuel scratch r); exact E.
Qed.

Section TokenIrrelevant.
  Variable ro : parse_options.
  Variable alpha : N -> bool.
  Variable fast : bool.
  Variable std_parse : N -> Z -> f64.
  Hypothesis Hfp : forall pos sig e n, sig <= u64_MAX -> ok n (f64_from_parts fast std_parse pos sig e).

  (* the re-parse of a digit-initial symbol: enough fuel for the symbol's own length *)
  Lemma number_of_symbol_mono fi fs symbol : (length symbol < fi)%nat -> (fi <= fs)%nat ->
    number_of_symbol fast std_parse fi symbol = number_of_symbol fast std_parse fs symbol.
  Proof.
    intros Hl Hf. unfold number_of_symbol. set (s0 := mk_reader SrcSlice (bytes_events symbol)).
    assert (Hrem : (rem s0 <= length symbol)%nat) by (unfold s0, mk_reader, rem, bytes_events; cbn [rinput]; rewrite map_length; lia).
    destruct (ok_parse_num_literal fast std_parse Hfp fi 10 true (length symbol) rok10 Hl s0 Hrem) as [Hne _].
    destruct (um_parse_num_literal fast std_parse fi fs 10 true Hf s0) as [E|E]; [contradiction|]. rewrite E. reflexivity.
  Qed.

  Theorem token_fuel_irrelevant n fi fs b r : (rem r <= n)%nat -> (n < fi)%nat -> (fi <= fs)%nat ->
    fst (parse_token ro alpha fast std_parse fi b r) = Err EFuel \/
    parse_token ro alpha fast std_parse fi b r = parse_token ro alpha fast std_parse fs b r.
  Proof.
    intros Hr Hn Hf. unfold parse_token.
    assert (Hum : forall (mi ms : M token), um mi ms -> fst (mi r) = Err EFuel \/ mi r = ms r) by (intros mi ms H; apply H).
    destruct (b =? 35); [apply Hum; um_auto2|].
    destruct ((b =? 45) || (b =? 43)); [apply Hum; um_auto2|].
    destruct (is_digit b).
    { destruct (ro_digit ro); [|apply Hum; um_auto2].
      destruct (um_parse_symbol fi fs Hf r) as [E|E].
      - left. unfold bind. destruct (parse_symbol fi r) as [[x|e] r1]; cbn [fst] in E; [discriminate|]. inversion E. reflexivity.
      - right. unfold bind. rewrite E. destruct (parse_symbol fs r) as [[symbol|e] r1] eqn:Es; [|reflexivity].
        unfold parse_symbol in Es. apply parse_symbol_rd_len in Es. cbn [length] in Es.
        rewrite (number_of_symbol_mono fi fs symbol ltac:(lia) Hf). reflexivity. }
    apply Hum. um_auto2.
  Qed.
End TokenIrrelevant.

(* ---- the parser proper: two fuels, one result ---- *)
Definition peq {A} (n : nat) (m1 m2 : PM A) : Prop := forall s, (rem (rd s) <= n)%nat -> m1 s = m2 s.
Definition peqat {A} (b : N) (n : nat) (m1 m2 : PM A) : Prop :=
  forall s, at_byte b (rd s) -> (rem (rd s) <= n)%nat -> m1 s = m2 s.
Definition pmono {A} (n : nat) (m : PM A) : Prop := forall s, (rem (rd s) <= n)%nat -> (rem (rd (snd (m s))) <= rem (rd s))%nat.

Lemma peq_refl {A} n (m : PM A) : peq n m m.
Proof. intros s _. reflexivity. Qed.
Lemma peqat_weaken {A} b n (m1 m2 : PM A) : peq n m1 m2 -> peqat b n m1 m2.
Proof. intros H s _ Hs. apply H. exact Hs. Qed.
Lemma peq_mono {A} n n' (m1 m2 : PM A) : (n <= n')%nat -> peq n' m1 m2 -> peq n m1 m2.
Proof. intros Hn H s Hs. apply H. lia. Qed.
Lemma pmono_pok {A} n (m : PM A) : pok n m -> pmono n m.
Proof. intros H s Hs. apply (H s Hs). Qed.
Lemma pmono_same {A} n (m : PM A) : (forall s, rd (snd (m s)) = rd s) -> pmono n m.
Proof. intros H s _. rewrite H. lia. Qed.
Lemma pmono_attempt {A} n (m : PM A) : pmono n m -> pmono n (attempt m).
Proof.
  intros H s Hs. specialize (H s Hs). rewrite attempt_unfold. destruct (m s) as [[a|[e|k]] s1]; cbn [snd] in *; try exact H.
  destruct e; exact H.
Qed.
Lemma peq_attempt {A} n (m1 m2 : PM A) : peq n m1 m2 -> peq n (attempt m1) (attempt m2).
Proof. intros H s Hs. rewrite !attempt_unfold, (H s Hs). reflexivity. Qed.

Lemma peq_bind {A B} n (m1 m2 : PM A) (f1 f2 : A -> PM B) :
  pmono n m1 -> peq n m1 m2 -> (forall a, peq n (f1 a) (f2 a)) -> peq n (pbind m1 f1) (pbind m2 f2).
Proof.
  intros Hm He Hf s Hs. rewrite !pbind_unfold, <- (He s Hs). specialize (Hm s Hs).
  destruct (m1 s) as [[a|e] s1]; cbn [snd] in *; [apply Hf; lia|reflexivity].
Qed.
Lemma peqat_bind {A B} b n (m : PM A) (f1 f2 : A -> PM B) :
  pmono n m -> (forall a, peq n (f1 a) (f2 a)) -> peqat b n (pbind m f1) (pbind m f2).
Proof. intros Hm Hf s _ Hs. apply (peq_bind n m m f1 f2 Hm (peq_refl n m) Hf s Hs). Qed.

Lemma liftR_eq {A} n (mi ms : M A) s : ok n mi -> um mi ms -> (rem (rd s) <= n)%nat -> liftR mi s = liftR ms s.
Proof.
  intros Ho Hu Hs. unfold liftR. destruct (Ho (rd s) Hs) as [Hne _]. destruct (Hu (rd s)) as [E|E]; [contradiction|]. rewrite E. reflexivity.
Qed.
Lemma peq_liftR {A} n (mi ms : M A) : ok n mi -> um mi ms -> peq n (liftR mi) (liftR ms).
Proof. intros Ho Hu s Hs. apply (liftR_eq n); assumption. Qed.
Lemma pmono_liftR {A} n (m : M A) : ok n m -> pmono n (liftR m).
Proof. intros H. apply pmono_pok. apply pok_liftR. exact H. Qed.

Section ParserMono.
  Variable ro : parse_options.
  Variable alpha : N -> bool.
  Variable fast : bool.
  Variable std_parse : N -> Z -> f64.
  Hypothesis Hfp : forall pos sig e n, sig <= u64_MAX -> ok n (f64_from_parts fast std_parse pos sig e).

  Local Notation next_value := (next_value ro alpha fast std_parse).
  Local Notation parse_list := (parse_list ro alpha fast std_parse).
  Local Notation parse_vector := (parse_vector ro alpha fast std_parse).
  Local Notation next_datum := (next_datum ro alpha fast std_parse).
  Local Notation parse_list_meta := (parse_list_meta ro alpha fast std_parse).
  Local Notation parse_vector_meta := (parse_vector_meta ro alpha fast std_parse).
  Local Notation parse_token := (parse_token ro alpha fast std_parse).
  Let okws := ok_parse_whitespace alpha fast std_parse Hfp.

  Lemma peq_bind_ws {A} fi fs n (k1 k2 : option N -> PM A) : (S n < fi)%nat -> (fi <= fs)%nat ->
    peq n (k1 None) (k2 None) -> (forall b, peqat b n (k1 (Some b)) (k2 (Some b))) ->
    peq n (pbind (liftR (parse_whitespace fi)) k1) (pbind (liftR (parse_whitespace fs)) k2).
  Proof.
    intros Hn Hf Hnone Hsome s Hs. rewrite !pbind_unfold.
    rewrite <- (liftR_eq n _ _ s (okws fi n Hn) (um_parse_whitespace fi fs Hf) Hs). unfold liftR.
    destruct (okws fi n Hn (rd s) Hs) as [_ H2]. pose proof (ws_at_byte fi (rd s)) as Hb.
    destruct (parse_whitespace fi (rd s)) as [[[b|]|e] r1]; cbn [fst snd] in *; [| |reflexivity].
    - apply Hsome; [exact Hb|cbn [rd]; lia].
    - apply Hnone. cbn [rd]. lia.
  Qed.

  Lemma peqat_bind_token {A} fi fs b n (k1 k2 : token -> PM A) : (n < fi)%nat -> (fi <= fs)%nat ->
    (forall tok n', n = S n' -> peq n' (k1 tok) (k2 tok)) ->
    peqat b n (pbind (liftR (parse_token fi b)) k1) (pbind (liftR (parse_token fs b)) k2).
  Proof.
    intros Hn Hf Hk s Hb Hs. rewrite !pbind_unfold. unfold liftR.
    destruct (ok_parse_token ro alpha fast std_parse Hfp fi b n Hn (rd s) Hs) as [Hne _].
    destruct (token_fuel_irrelevant ro alpha fast std_parse Hfp n fi fs b (rd s) Hs Hn Hf) as [E|E]; [contradiction|]. rewrite <- E.
    pose proof (token_consumes ro alpha fast std_parse fi b (rd s) Hb) as Hc.
    destruct (parse_token fi b (rd s)) as [[tok|e] r1]; [|reflexivity].
    destruct n as [|n']; [lia|]. apply (Hk tok n' eq_refl). cbn [rd]. lia.
  Qed.
  Lemma peqat_bind_position {A} b n (k1 k2 : N * N -> PM A) :
    (forall p, peqat b n (k1 p) (k2 p)) -> peqat b n (pbind (liftR position) k1) (pbind (liftR position) k2).
  Proof.
    intros Hk s Hb Hs. rewrite !pbind_unfold. unfold liftR, position. destruct s as [r d]. cbn [rd depth] in *.
    apply (Hk _ {| rd := r; depth := d |}); assumption.
  Qed.
  Lemma peqat_bind_eat_peek {A} b n (k1 k2 : option N -> PM A) :
    (forall nx n', n = S n' -> peq n' (k1 nx) (k2 nx)) ->
    peqat b n (pbind (liftR (eat_char ;;; peek)) k1) (pbind (liftR (eat_char ;;; peek)) k2).
  Proof.
    intros Hk s Hb Hs. rewrite !pbind_unfold. unfold liftR.
    change ((eat_char ;;; peek) (rd s)) with (r_peek (r_discard (rd s))).
    pose proof (discard_at b (rd s) Hb) as Hd. pose proof (peek_cases (r_discard (rd s))) as Hc.
    destruct (r_peek (r_discard (rd s))) as [[o|e] r1]; [|reflexivity].
    assert (Hle : (rem r1 <= rem (r_discard (rd s)))%nat) by (destruct o; [apply Hc|exact Hc]).
    destruct n as [|n']; [lia|]. apply (Hk o n' eq_refl). cbn [rd]. lia.
  Qed.
  Lemma peq_bind_item {A B} n (m1 m2 : PM (option A)) (k1 k2 : option A -> PM B) :
    pokv n m1 -> peq n m1 m2 -> peq n (k1 None) (k2 None) ->
    (forall a n', n = S n' -> peq n' (k1 (Some a)) (k2 (Some a))) -> peq n (pbind m1 k1) (pbind m2 k2).
  Proof.
    intros Hm He Hnone Hsome s Hs. rewrite !pbind_unfold, <- (He s Hs). destruct (Hm s Hs) as [[_ H2] H3]. unfold item_strict in H3.
    destruct (m1 s) as [[[a|]|e] s1]; cbn [fst snd] in *; [| |reflexivity].
    - destruct n as [|n']; [lia|]. apply (Hsome a n' eq_refl). lia.
    - apply Hnone. lia.
  Qed.

  Lemma pmono_inc_depth n : pmono n inc_depth.
  Proof. apply pmono_pok. apply pok_inc_depth. Qed.
  Lemma pmono_both {A} n (r : res A) (e : res unit) : pmono n (both r e).
  Proof. apply pmono_same. intros s. destruct r; destruct e; reflexivity. Qed.
  Lemma pmono_lift {A} n (r : res A) : pmono n (lift r).
  Proof. apply pmono_same. intros s. destruct r; reflexivity. Qed.

  Lemma peq_nest_seq {A B} n (body1 body2 : PM A) (end1 end2 : M unit) (k1 k2 : A -> PM B) :
    pmono n body1 -> peq n body1 body2 -> ok n end1 -> um end1 end2 -> (forall a, peq n (k1 a) (k2 a)) ->
    peq n (pbind (attempt body1) (fun r => pbind inc_depth (fun _ => pbind (attempt (liftR end1)) (fun e => pbind (both r e) k1))))
          (pbind (attempt body2) (fun r => pbind inc_depth (fun _ => pbind (attempt (liftR end2)) (fun e => pbind (both r e) k2)))).
  Proof.
    intros Hm He Ho Hu Hk. apply peq_bind; [apply pmono_attempt; exact Hm|apply peq_attempt; exact He|]. intros r.
    apply peq_bind; [apply pmono_inc_depth|apply peq_refl|]. intros _.
    apply peq_bind; [apply pmono_attempt; apply pmono_liftR; exact Ho|apply peq_attempt; apply peq_liftR; assumption|]. intros e.
    apply peq_bind; [apply pmono_both|apply peq_refl|exact Hk].
  Qed.
  Lemma peq_nest_quote {A B} n (body1 body2 : PM A) (k1 k2 : A -> PM B) :
    pmono n body1 -> peq n body1 body2 -> (forall a, peq n (k1 a) (k2 a)) ->
    peq n (pbind (attempt body1) (fun r => pbind inc_depth (fun _ => pbind (lift r) k1)))
          (pbind (attempt body2) (fun r => pbind inc_depth (fun _ => pbind (lift r) k2))).
  Proof.
    intros Hm He Hk. apply peq_bind; [apply pmono_attempt; exact Hm|apply peq_attempt; exact He|]. intros r.
    apply peq_bind; [apply pmono_inc_depth|apply peq_refl|]. intros _.
    apply peq_bind; [apply pmono_lift|apply peq_refl|exact Hk].
  Qed.
  Lemma pmono_enter n : pmono n enter_nesting.
  Proof. apply pmono_pok. apply pok_enter_nesting. Qed.

  Theorem mono_values fi : forall fs, (fi <= fs)%nat ->
    (forall n, (2 * n + 3 <= fi)%nat -> peq n (next_value fi) (next_value fs)) /\
    (forall n t acc, (2 * n + 4 <= fi)%nat -> peq n (parse_list fi t acc) (parse_list fs t acc)) /\
    (forall n t acc, (2 * n + 4 <= fi)%nat -> peq n (parse_vector fi t acc) (parse_vector fs t acc)).
  Proof.
    induction fi as [|f IH]; intros fs Hf; [repeat split; intros; lia|]. destruct fs as [|g]; [lia|].
    destruct (IH g ltac:(lia)) as (IHv & IHl & IHvec).
    destruct (fuel_values ro alpha fast std_parse Hfp f) as (Fv & Fl & Fvec).
    split; [|split].
    - intros n Hn. cbn [Parser.next_value]. apply peq_bind_ws; [lia|lia|apply peq_refl|]. intros b.
      apply peqat_bind_token; [lia|lia|]. intros tok n' Hn'.
      destruct tok; try apply peq_refl.
      + apply peq_bind; [apply pmono_enter|apply peq_refl|intros _].
        apply peq_nest_seq; [apply pmono_pok; apply Fl; lia|apply IHl; lia|apply (ok_end_seq alpha fast std_parse Hfp); lia|apply um_end_seq; lia|intros; apply peq_refl].
      + apply peq_bind; [apply pmono_enter|apply peq_refl|intros _].
        apply peq_nest_quote; [intros s Hs; apply (proj1 (Fv n' ltac:(lia) s Hs))|apply IHv; lia|intros; apply peq_refl].
      + apply peq_bind; [apply pmono_enter|apply peq_refl|intros _].
        apply peq_nest_seq; [apply pmono_pok; apply Fvec; lia|apply IHvec; lia|apply (ok_end_seq alpha fast std_parse Hfp); lia|apply um_end_seq; lia|intros; apply peq_refl].
      + apply peq_bind; [apply pmono_liftR; apply (ok_parse_byte_list alpha fast std_parse Hfp); lia
                        |apply peq_liftR; [apply (ok_parse_byte_list alpha fast std_parse Hfp); lia|apply um_parse_byte_list; lia]|intros; apply peq_refl].
    - intros n t acc Hn. cbn [Parser.parse_list]. apply peq_bind_ws; [lia|lia|apply peq_refl|]. intros c.
      destruct (is_closer c); [apply peqat_weaken; apply peq_refl|].
      destruct (c =? 46).
      + apply peqat_bind_eat_peek. intros nx n' Hn'. destruct (lone_dot nx).
        * destruct acc as [|a0 acc']; [apply peq_refl|].
          apply peq_bind_item; [apply Fv; lia|apply IHv; lia|apply peq_refl|]. intros cdr n'' Hn''.
          apply peq_bind; [apply pmono_liftR; apply okws; lia|apply peq_liftR; [apply okws; lia|apply um_parse_whitespace; lia]|intros; apply peq_refl].
        * apply peq_bind; [apply pmono_liftR; apply ok_parse_symbol_suffix; lia
                          |apply peq_liftR; [apply ok_parse_symbol_suffix; lia|apply um_parse_symbol_suffix; lia]|].
          intros name. apply IHl. lia.
      + apply peqat_weaken. apply peq_bind_item; [apply Fv; lia|apply IHv; lia|apply peq_refl|]. intros v n' Hn'. apply IHl. lia.
    - intros n t acc Hn. cbn [Parser.parse_vector]. apply peq_bind_ws; [lia|lia|apply peq_refl|]. intros c.
      destruct (is_closer c); [apply peqat_weaken; apply peq_refl|].
      apply peqat_weaken. apply peq_bind_item; [apply Fv; lia|apply IHv; lia|apply peq_refl|]. intros v n' Hn'. apply IHvec. lia.
  Qed.

  Theorem mono_datums fi : forall fs, (fi <= fs)%nat ->
    (forall n, (2 * n + 3 <= fi)%nat -> peq n (next_datum fi) (next_datum fs)) /\
    (forall n t acc, (2 * n + 4 <= fi)%nat -> peq n (parse_list_meta fi t acc) (parse_list_meta fs t acc)) /\
    (forall n t acc, (2 * n + 4 <= fi)%nat -> peq n (parse_vector_meta fi t acc) (parse_vector_meta fs t acc)).
  Proof.
    induction fi as [|f IH]; intros fs Hf; [repeat split; intros; lia|]. destruct fs as [|g]; [lia|].
    destruct (IH g ltac:(lia)) as (IHv & IHl & IHvec).
    destruct (fuel_datums ro alpha fast std_parse Hfp f) as (Fv & Fl & Fvec).
    split; [|split].
    - intros n Hn. cbn [Parser.next_datum]. apply peq_bind_ws; [lia|lia|apply peq_refl|]. intros b.
      apply peqat_bind_position. intros start. apply peqat_bind_token; [lia|lia|]. intros tok n' Hn'. cbv zeta.
      destruct tok; try apply peq_refl.
      + apply peq_bind; [apply pmono_enter|apply peq_refl|intros _].
        apply peq_nest_seq; [apply pmono_pok; apply Fl; lia|apply IHl; lia|apply (ok_end_seq alpha fast std_parse Hfp); lia|apply um_end_seq; lia|intros; apply peq_refl].
      + apply peq_bind; [apply pmono_liftR; apply ok_position|apply peq_refl|intros token_end].
        apply peq_bind; [apply pmono_enter|apply peq_refl|intros _].
        apply peq_nest_quote; [intros s Hs; apply (proj1 (Fv n' ltac:(lia) s Hs))|apply IHv; lia|intros; apply peq_refl].
      + apply peq_bind; [apply pmono_enter|apply peq_refl|intros _].
        apply peq_nest_seq; [apply pmono_pok; apply Fvec; lia|apply IHvec; lia|apply (ok_end_seq alpha fast std_parse Hfp); lia|apply um_end_seq; lia|intros; apply peq_refl].
      + apply peq_bind; [apply pmono_liftR; apply (ok_parse_byte_list alpha fast std_parse Hfp); lia
                        |apply peq_liftR; [apply (ok_parse_byte_list alpha fast std_parse Hfp); lia|apply um_parse_byte_list; lia]|intros; apply peq_refl].
    - intros n t acc Hn. cbn [Parser.parse_list_meta]. apply peq_bind_ws; [lia|lia|apply peq_refl|]. intros c.
      destruct (is_closer c); [apply peqat_weaken; apply peq_refl|].
      destruct (c =? 46).
      + apply peqat_bind_position. intros start. apply peqat_bind_eat_peek. intros nx n' Hn'. destruct (lone_dot nx).
        * destruct acc as [|a0 acc']; [apply peq_refl|].
          apply peq_bind_item; [apply Fv; lia|apply IHv; lia|apply peq_refl|]. intros cdr n'' Hn''.
          apply peq_bind; [apply pmono_liftR; apply okws; lia|apply peq_liftR; [apply okws; lia|apply um_parse_whitespace; lia]|intros; apply peq_refl].
        * apply peq_bind; [apply pmono_liftR; apply ok_parse_symbol_suffix; lia
                          |apply peq_liftR; [apply ok_parse_symbol_suffix; lia|apply um_parse_symbol_suffix; lia]|].
          intros name. apply peq_bind; [apply pmono_liftR; apply ok_position|apply peq_refl|]. intros e. apply IHl. lia.
      + apply peqat_weaken. apply peq_bind_item; [apply Fv; lia|apply IHv; lia|apply peq_refl|]. intros v n' Hn'. apply IHl. lia.
    - intros n t acc Hn. cbn [Parser.parse_vector_meta]. apply peq_bind_ws; [lia|lia|apply peq_refl|]. intros c.
      destruct (is_closer c); [apply peqat_weaken; apply peq_refl|].
      apply peqat_weaken. apply peq_bind_item; [apply Fv; lia|apply IHv; lia|apply peq_refl|]. intros v n' Hn'. apply IHvec. lia.
  Qed.
End ParserMono.
