(* C06: read failures are never swallowed. Instance of the generic traversal:
   the number of failure events left in the input only decreases together
   with an error result -- at reader level exactly that I/O error. *)
From Coq Require Import SpecFloat Lia.
Require Import Base Value Float PrintOptions ParseOptions Utf8 Reader Scan Num NumberOps Parser RelFramework.

Fixpoint nfail (l : list event) : nat :=
  match l with
  | [] => 0
  | EFail _ :: l' => S (nfail l')
  | _ :: l' => nfail l'
  end.
Definition nf (r : reader) : nat := nfail (rinput r).

(* strong form (reader level): consuming a failure event means returning it *)
Definition Rio (r : reader) (x : option perr) (r' : reader) : Prop :=
  (nf r' <= nf r)%nat /\ ((nf r' < nf r)%nat -> exists io, x = Some (EIo io)).
(* weak form (parser level, where the first error raised wins over one met
   while closing the sequence): consuming a failure event means an error *)
Definition Rio_w (r : reader) (x : option perr) (r' : reader) : Prop :=
  (nf r' <= nf r)%nat /\ ((nf r' < nf r)%nat -> x <> None).

Lemma Rio_weaken r x r' : Rio r x r' -> Rio_w r x r'.
Proof. intros [H1 H2]. split; [exact H1|]. intros H. destruct (H2 H) as [io ->]. discriminate. Qed.

Lemma nfail_skip_intr l : nfail (skip_intr l) = nfail l.
Proof. induction l as [|[b| |e] l IH]; cbn [skip_intr nfail]; auto. Qed.

Lemma Rio_same r x r' : nf r' = nf r -> Rio r x r'.
Proof. intros H. split; lia. Qed.

Lemma sat_peek_io : sat Rio peek.
Proof.
  intros r. unfold peek, r_peek, R. destruct (rpending r) eqn:Ep.
  - destruct (rinput r) as [|[b| |e] l]; apply Rio_same; reflexivity.
  - pose proof (nfail_skip_intr (rinput r)) as Hn.
    destruct (skip_intr (rinput r)) as [|[b| |e] l] eqn:Es; cbn [fst snd erase].
    + apply Rio_same. unfold nf. cbn [rinput]. now rewrite <- Hn.
    + apply Rio_same. unfold nf. cbn [rinput]. now rewrite <- Hn.
    + apply Rio_same. reflexivity.
    + unfold Rio, nf. cbn [rinput]. rewrite <- Hn. cbn [nfail]. split; [lia|]. intros _. eexists; reflexivity.
Qed.

Lemma consume_nf r b l : nf (consume r b l) = nfail l.
Proof. unfold consume, nf. destruct (advance (rline r) (rcol r) b). reflexivity. Qed.

Lemma sat_next_io : sat Rio next_char.
Proof.
  intros r. unfold next_char, r_next, R.
  assert (Hn : nfail (if rpending r then rinput r else skip_intr (rinput r)) = nf r).
  { destruct (rpending r); [reflexivity|apply nfail_skip_intr]. }
  destruct (if rpending r then rinput r else skip_intr (rinput r)) as [|[b| |e] l]; cbn [fst snd erase].
  - apply Rio_same. unfold nf at 1. cbn [rinput]. exact Hn.
  - apply Rio_same. rewrite consume_nf. exact Hn.
  - apply Rio_same. reflexivity.
  - unfold Rio. unfold nf at 1 3. cbn [rinput]. rewrite <- Hn. cbn [nfail]. split; [lia|]. intros _. eexists; reflexivity.
Qed.

Lemma discard_nf r : nf (r_discard r) = nf r.
Proof.
  unfold r_discard. destruct (rk r); try destruct (rpending r);
    try reflexivity; destruct (rinput r) as [|[b| |e] l] eqn:E; try reflexivity;
    rewrite consume_nf; unfold nf; rewrite E; reflexivity.
Qed.

Lemma sat_eat_io : sat Rio eat_char.
Proof. intros r. unfold eat_char, R. cbn [fst snd]. apply Rio_same. apply discard_nf. Qed.

Lemma sat_error_io A c : sat Rio (@error A c).
Proof. intros r. unfold error, R. destruct (r_position r). apply Rio_same. reflexivity. Qed.
Lemma sat_peek_error_io A c : sat Rio (@peek_error A c).
Proof. intros r. unfold peek_error, R. destruct (r_peek_position r). apply Rio_same. reflexivity. Qed.
Lemma sat_error_consume_io A c : sat Rio (@error_consume A c).
Proof.
  intros r. unfold error_consume, peek_error, R. destruct (r_peek_position r). cbn [fst snd].
  apply Rio_same. apply discard_nf.
Qed.

Lemma span_plain_nfail l : forall acc, nfail (snd (span_plain l acc)) = nfail l.
Proof.
  induction l as [|[b| |e] l IH]; intros acc; cbn [span_plain]; try reflexivity.
  destruct ((b =? 92) || (b =? 34))%bool; [reflexivity|]. rewrite IH. reflexivity.
Qed.
Lemma span_symbol_nfail l : forall acc, nfail (snd (span_symbol l acc)) = nfail l.
Proof.
  induction l as [|[b| |e] l IH]; intros acc; cbn [span_symbol]; try reflexivity.
  destruct (is_symbol_terminator b); [reflexivity|]. rewrite IH. reflexivity.
Qed.
Lemma advance_over_nf r bs rest : nf (advance_over r bs rest) = nfail rest.
Proof. unfold advance_over, nf. destruct (fold_left _ bs _). reflexivity. Qed.

Lemma sat_take_run_io : sat Rio take_run.
Proof.
  intros r. unfold take_run, R. pose proof (span_plain_nfail (rinput r) []) as Hn.
  destruct (span_plain (rinput r) []) as [run rest]. cbn [snd] in Hn.
  destruct rest as [|[b| |e] rest']; cbn [fst snd erase]; apply Rio_same;
    rewrite ?consume_nf, ?advance_over_nf; unfold nf; rewrite <- Hn; reflexivity.
Qed.
Lemma sat_take_symbol_io : sat Rio take_symbol_run.
Proof.
  intros r. unfold take_symbol_run, R. pose proof (span_symbol_nfail (rinput r) []) as Hn.
  destruct (span_symbol (rinput r) []) as [scanned rest]. cbn [fst snd erase] in *.
  apply Rio_same. rewrite advance_over_nf. unfold nf. now rewrite <- Hn.
Qed.

(* closure of the two relations *)
Lemma Rio_ret r : Rio r None r.  Proof. apply Rio_same. reflexivity. Qed.
Lemma Rio_seq r r1 x r2 : Rio r None r1 -> Rio r1 x r2 -> Rio r x r2.
Proof.
  intros [H1 H2] [H3 H4]. assert (nf r1 = nf r).
  { destruct (Nat.eq_dec (nf r1) (nf r)); [assumption|]. destruct H2 as [io Hio]; [lia|discriminate]. }
  split; [lia|]. intros Hlt. apply H4. lia.
Qed.
Lemma Rio_fuel r : Rio r (Some EFuel) r.  Proof. apply Rio_same. reflexivity. Qed.

Lemma Rio_w_ret r : Rio_w r None r.  Proof. apply Rio_weaken, Rio_ret. Qed.
Lemma Rio_w_seq r r1 x r2 : Rio_w r None r1 -> Rio_w r1 x r2 -> Rio_w r x r2.
Proof.
  intros [H1 H2] [H3 H4]. assert (nf r1 = nf r).
  { destruct (Nat.eq_dec (nf r1) (nf r)); [assumption|]. exfalso. apply H2; [lia|reflexivity]. }
  split; [lia|]. intros Hlt. apply H4. lia.
Qed.
Lemma Rio_w_fuel r : Rio_w r (Some EFuel) r.  Proof. apply Rio_weaken, Rio_fuel. Qed.
Lemma Rio_w_rec1 r e r1 x r2 : Rio_w r (Some e) r1 -> Rio_w r1 x r2 -> Rio_w r (Some e) r2.
Proof. intros [H1 _] [H3 _]. split; [lia|]. intros _. discriminate. Qed.
Lemma Rio_w_rec2 r e r1 e' r2 : Rio_w r (Some e) r1 -> Rio_w r1 (Some e') r2 -> Rio_w r (Some e') r2.
Proof. intros [H1 _] [H3 _]. split; [lia|]. intros _. discriminate. Qed.

Lemma sat_weaken {A} (m : M A) : sat Rio m -> sat Rio_w m.
Proof. intros H r. apply Rio_weaken. apply H. Qed.

Section IoTheorems.
  Variable ro : parse_options.
  Variable alpha : N -> bool.
  Variable fast : bool.
  Variable std_parse : N -> Z -> f64.

  (* reader level: a token that consumed a failure event returns that error *)
  Theorem token_io_error fuel b r :
    let '(x, r') := parse_token ro alpha fast std_parse fuel b r in
    (nf r' <= nf r)%nat /\ ((nf r' < nf r)%nat -> exists io, x = Err (EIo io)).
  Proof.
    pose proof (sat_parse_token Rio Rio_ret Rio_seq Rio_fuel sat_peek_io sat_next_io sat_eat_io sat_error_io
                  sat_peek_error_io sat_error_consume_io sat_take_run_io sat_take_symbol_io fast std_parse ro alpha fuel b r) as H.
    unfold R, Rio in H. destruct (parse_token ro alpha fast std_parse fuel b r) as [x r']. cbn [fst snd] in H.
    destruct H as [H1 H2]. split; [exact H1|]. intros Hlt. destruct (H2 Hlt) as [io Hio].
    destruct x as [a|e]; cbn [erase] in Hio; [discriminate|]. inversion Hio. eexists; reflexivity.
  Qed.

  Let values := psat_values Rio_w Rio_w_ret Rio_w_seq Rio_w_fuel
                  (sat_weaken _ sat_peek_io) (sat_weaken _ sat_next_io) (sat_weaken _ sat_eat_io)
                  (fun A c => sat_weaken _ (sat_error_io A c)) (fun A c => sat_weaken _ (sat_peek_error_io A c))
                  (fun A c => sat_weaken _ (sat_error_consume_io A c))
                  (sat_weaken _ sat_take_run_io) (sat_weaken _ sat_take_symbol_io)
                  fast std_parse ro alpha Rio_w_rec1 Rio_w_rec2.
  Let datums := psat_datums Rio_w Rio_w_ret Rio_w_seq Rio_w_fuel
                  (sat_weaken _ sat_peek_io) (sat_weaken _ sat_next_io) (sat_weaken _ sat_eat_io)
                  (fun A c => sat_weaken _ (sat_error_io A c)) (fun A c => sat_weaken _ (sat_peek_error_io A c))
                  (fun A c => sat_weaken _ (sat_error_consume_io A c))
                  (sat_weaken _ sat_take_run_io) (sat_weaken _ sat_take_symbol_io)
                  fast std_parse ro alpha Rio_w_rec1 Rio_w_rec2.

  (* parser level: whatever consumed a failure event did not succeed *)
  Theorem next_value_no_swallow fuel s :
    let '(x, s') := next_value ro alpha fast std_parse fuel s in
    (nf (rd s') <= nf (rd s))%nat /\ ((nf (rd s') < nf (rd s))%nat -> exists e, x = PErr e).
  Proof.
    pose proof (proj1 (values fuel) s) as H. unfold Rio_w in H.
    destruct (next_value ro alpha fast std_parse fuel s) as [x s']. cbn [fst snd] in H.
    destruct H as [H1 H2]. split; [exact H1|]. intros Hlt. specialize (H2 Hlt).
    destruct x as [a|e]; [exfalso; apply H2; reflexivity|eexists; reflexivity].
  Qed.

  Theorem next_datum_no_swallow fuel s :
    let '(x, s') := next_datum ro alpha fast std_parse fuel s in
    (nf (rd s') <= nf (rd s))%nat /\ ((nf (rd s') < nf (rd s))%nat -> exists e, x = PErr e).
  Proof.
    pose proof (proj1 (datums fuel) s) as H. unfold Rio_w in H.
    destruct (next_datum ro alpha fast std_parse fuel s) as [x s']. cbn [fst snd] in H.
    destruct H as [H1 H2]. split; [exact H1|]. intros Hlt. specialize (H2 Hlt).
    destruct x as [a|e]; [exfalso; apply H2; reflexivity|eexists; reflexivity].
  Qed.
End IoTheorems.

(* a failure is an error at the reader, never end of input; interrupts are retried *)
Lemma next_fail r e l : rpending r = false -> skip_intr (rinput r) = EFail e :: l ->
  exists r', r_next r = (Err (EIo e), r').
Proof. intros Hp Hs. unfold r_next. rewrite Hp, Hs. eexists; reflexivity. Qed.
Lemma peek_fail r e l : rpending r = false -> skip_intr (rinput r) = EFail e :: l ->
  exists r', r_peek r = (Err (EIo e), r').
Proof. intros Hp Hs. unfold r_peek. rewrite Hp, Hs. eexists; reflexivity. Qed.
Lemma next_eof_real r r' : rpending r = false -> r_next r = (Ok None, r') ->
  skip_intr (rinput r) = [] \/ exists l, skip_intr (rinput r) = EInterrupted :: l.
Proof.
  intros Hp H. unfold r_next in H. rewrite Hp in H.
  destruct (skip_intr (rinput r)) as [|[b| |e] l]; try discriminate; [left; reflexivity|right; eexists; reflexivity].
Qed.
Lemma skip_intr_no_intr l : forall l', skip_intr l <> EInterrupted :: l'.
Proof. induction l as [|[b| |e] l IH]; cbn [skip_intr]; intros l'; try discriminate. apply IH. Qed.
Lemma interrupted_invisible_next r : rpending r = false ->
  r_next {| rk := rk r; rline := rline r; rcol := rcol r; rpending := false; rinput := EInterrupted :: rinput r |} = r_next r.
Proof. intros Hp. unfold r_next. cbn [rpending rinput skip_intr rk rline rcol]. rewrite Hp.
  destruct (skip_intr (rinput r)) as [|[b| |e] l] eqn:E; try reflexivity.
  exfalso. eapply skip_intr_no_intr; exact E. Qed.
