Require Import Base Value Float NumberOps.
From Coq Require Import SpecFloat ZifyBool.

Definition count_true (l : list bool) : nat := length (filter (fun b => b) l).

Lemma one_kind v : count_true (kind_predicates v) = 1%nat.
Proof. destruct v; reflexivity. Qed.

Lemma is_as_all v :
  is_string v = isSome (as_str v) /\ is_symbol v = isSome (as_symbol v) /\
  is_keyword v = isSome (as_keyword v) /\ is_bytes v = isSome (as_bytes v) /\
  is_number v = isSome (as_number v) /\ is_boolean v = isSome (as_bool v) /\
  is_char v = isSome (as_char v) /\ is_nil v = isSome (as_nil v) /\
  is_null_v v = isSome (as_null v) /\ is_cons_v v = isSome (as_cons v) /\
  is_vector v = isSome (as_slice v) /\
  is_i64 v = isSome (as_i64 v) /\ is_u64 v = isSome (as_u64 v).
Proof.
  repeat split; try reflexivity; destruct v; try reflexivity;
    destruct n; cbn; try reflexivity; destruct (Z.of_N n <=? i64_max)%Z; reflexivity.
Qed.

(* is_f64 is "the payload is a float", as_f64 converts integers too *)
Lemma is_f64_spec v : is_f64 v = true <-> exists f, v = Number (Float f).
Proof.
  split.
  - destruct v; try discriminate. destruct n; try discriminate. intros _; now exists f.
  - intros [f ->]; reflexivity.
Qed.
Lemma as_f64_some v : isSome (as_f64 v) = is_number v.
Proof. destruct v; try reflexivity. destruct n; reflexivity. Qed.

Lemma as_name_spec v :
  isSome (as_name v) = match kind_of v with KString | KSymbol | KKeyword => true | _ => false end.
Proof. destruct v; reflexivity. Qed.

(* mathematical value of an integer number *)
Definition int_value (v : value) : option Z :=
  match v with
  | Number (PosInt n) => Some (Z.of_N n)
  | Number (NegInt i) => Some i
  | _ => None
  end.

Lemma from_signed bits i : signed_in_range bits i = true -> (bits <= 64)%N -> (1 <= bits)%N ->
  let v := value_from_prim (PSigned bits i) in
  as_i64 v = Some i /\
  as_u64 v = (if (0 <=? i)%Z then Some (Z.to_N i) else None) /\
  is_f64 v = false /\
  as_f64 v = Some (f64_of_Z i) /\
  int_value v = Some i.
Proof.
  unfold signed_in_range. intros H Hb Hb1.
  assert (2 ^ (Z.of_N bits - 1) <= 2 ^ 63)%Z by (apply Z.pow_le_mono_r; lia).
  change (2 ^ 63)%Z with 9223372036854775808%Z in H0.
  cbn [value_from_prim]. unfold num_from_signed.
  destruct (0 <=? i)%Z eqn:E.
  - cbn. unfold i64_max. rewrite Z2N.id by lia.
    destruct (i <=? 9223372036854775807)%Z eqn:E2; [|lia].
    repeat split. unfold f64_of_N. now rewrite Z2N.id by lia.
  - cbn. repeat split.
Qed.

Lemma from_unsigned bits u : unsigned_in_range bits u = true -> (bits <= 64)%N ->
  let v := value_from_prim (PUnsigned bits u) in
  as_u64 v = Some u /\
  as_i64 v = (if (Z.of_N u <=? i64_max)%Z then Some (Z.of_N u) else None) /\
  is_f64 v = false /\
  as_f64 v = Some (f64_of_N u) /\
  int_value v = Some (Z.of_N u).
Proof. intros _ _. cbn. repeat split. Qed.

Lemma from_float f :
  let v := value_from_prim (PF64 f) in
  as_f64 v = Some f /\ as_i64 v = None /\ as_u64 v = None /\ is_f64 v = true /\
  is_i64 v = false /\ is_u64 v = false.
Proof. cbn. repeat split. Qed.

Lemma from_f32 x :
  let v := value_from_prim (PF32 x) in
  as_f64 v = Some (f64_of_f32 x) /\ as_i64 v = None /\ as_u64 v = None /\ is_f64 v = true.
Proof. cbn. repeat split. Qed.

Lemma from_f64_checked f :
  num_from_f64 f = if is_finite_f64 f then Some (Float f) else None.
Proof. reflexivity. Qed.

Lemma payloads :
  (forall s, as_str (String s) = Some s) /\ (forall c, as_char (Char c) = Some c) /\
  (forall b, as_bool (Bool b) = Some b) /\ (forall b, as_bytes (Bytes b) = Some b) /\
  (forall a d, as_pair (Cons a d) = Some (a, d)) /\ (forall l, as_slice (Vector l) = Some l) /\
  (forall s, as_symbol (Symbol s) = Some s) /\ (forall s, as_keyword (Keyword s) = Some s).
Proof. repeat split. Qed.

(* Comparison with an integer primitive is equality of mathematical values. *)
Lemma eq_signed_spec v bits i : signed_in_range bits i = true -> (1 <= bits <= 64)%N ->
  (forall z, v = Number (NegInt z) -> (i64_min <= z < 0)%Z) ->
  (forall n, v = Number (PosInt n) -> (n <= u64_max)%N) ->
  value_eq_prim v (PSigned bits i) = true <-> int_value v = Some i.
Proof.
  unfold signed_in_range; intros H Hb Hneg Hpos.
  assert (2 ^ (Z.of_N bits - 1) <= 2 ^ 63)%Z by (apply Z.pow_le_mono_r; lia).
  change (2 ^ 63)%Z with 9223372036854775808%Z in H0.
  cbn [value_eq_prim]. unfold eq_i64, as_i64.
  destruct v; cbn; try (split; [discriminate|discriminate]).
  destruct n; cbn.
  - unfold i64_max. destruct (Z.of_N n <=? 9223372036854775807)%Z eqn:E.
    + split; [intros; f_equal; lia|intros [= ->]; lia].
    + split; [discriminate|intros [= <-]; lia].
  - split; [intros; f_equal; lia|intros [= ->]; lia].
  - split; discriminate.
Qed.

Lemma eq_unsigned_spec v bits u : unsigned_in_range bits u = true -> (bits <= 64)%N ->
  (forall z, v = Number (NegInt z) -> (z < 0)%Z) ->
  value_eq_prim v (PUnsigned bits u) = true <-> int_value v = Some (Z.of_N u).
Proof.
  intros _ _ Hneg. cbn [value_eq_prim]. unfold eq_u64, as_u64.
  destruct v; cbn; try (split; discriminate).
  destruct n; cbn.
  - split; [intros; f_equal; lia|intros [= H]; lia].
  - specialize (Hneg z eq_refl). split; [discriminate|intros [= ->]; lia].
  - split; discriminate.
Qed.

Lemma eq_symmetric v p : value_eq_prim v p = prim_eq_value p v.
Proof. reflexivity. Qed.

Lemma eq_via_accessor v p :
  value_eq_prim v p =
  match p with
  | PSigned _ i => match as_i64 v with Some x => (x =? i)%Z | None => false end
  | PUnsigned _ u => match as_u64 v with Some x => x =? u | None => false end
  | PF32 x => match as_f64 v with Some y => f64_eqb y (f64_of_f32 x) | None => false end
  | PF64 f => match as_f64 v with Some y => f64_eqb y f | None => false end
  | PBool b => match as_bool v with Some x => Bool.eqb x b | None => false end
  | PStr s => match as_str v with Some x => beq_bytes x s | None => false end
  end.
Proof. destruct p; reflexivity. Qed.
