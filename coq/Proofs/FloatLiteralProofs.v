(* C05: a decimal literal with a fraction and/or an exponent whose digits fit
   in 2^53 and whose exponent is at most 22 in magnitude reads, with
   fast-float-parsing, as the correctly rounded double of the value it denotes:
   DecimalProofs (text -> significand, exponent) composed with ClingerProofs. *)
From Coq Require Import ZArith Reals Lia SpecFloat ZifyBool ZifyNat ZifyN.
From Flocq Require Import Core BinarySingleNaN.
Require Import Base Value Float PrintOptions ParseOptions Utf8 Reader Scan Num NumberOps Parser.
Require Import ReaderProofs ScanProofs TokenProofs NumTokenProofs DecimalProofs ClingerProofs.

Local Open Scope N_scope.

(* the exponent a literal denotes: the written exponent minus the number of fraction digits *)
Definition written_exp (ex : option (N * option bool * bytes)) : Z :=
  match ex with
  | None => 0
  | Some (_, sg, es) => if sign_pos sg then Z.of_N (dfold 0 es) else (- Z.of_N (dfold 0 es))%Z
  end.
Definition lit_exp_exact (fs : bytes) (ex : option (N * option bool * bytes)) : Z :=
  (written_exp ex - Z.of_nat (length fs))%Z.

Lemma lit_exp_is_exact fs ex : (Z.abs (lit_exp_exact fs ex) <= 22)%Z -> lit_exp fs ex = lit_exp_exact fs ex.
Proof.
  unfold lit_exp, lit_exp_exact, exp_value, written_exp, sat_i32, i32_MIN, i32_MAX.
  destruct ex as [[[ec sg] es]|]; [|lia].
  destruct (sign_pos sg); intros H;
    repeat match goal with |- context [if ?c then _ else _] => destruct c eqn:? end; lia.
Qed.

Section FloatLit.
  Variable alpha : N -> bool.
  Variable std_parse : N -> Z -> f64.
  Local Notation ro := default_ro.
  Local Notation parse_token := (parse_token ro alpha true std_parse).
  Local Notation bfloat := (binary_float 53 1024).
  Local Notation rnd64 := (round radix2 (SpecFloat.fexp 53 1024) ZnearestE).

  (* the number token routine on such a literal *)
  Lemma num_token_decimal_fast fuel r pos d ip fs ex rest :
    all_digits (d :: ip) -> all_digits fs -> is_float_lit fs ex -> exp_ok ex ->
    (Z.of_N (lit_sig (d :: ip) fs) < 2 ^ 53)%Z -> (Z.abs (lit_exp_exact fs ex) <= 22)%Z ->
    (S (length (lit_text (d :: ip) fs ex)) < fuel)%nat -> delim_ok rest ->
    at_bytes r (lit_text (d :: ip) fs ex ++ rest) ->
    exists (b : bfloat) r',
      parse_num_token true std_parse fuel 10 pos r = (Ok (Float (if pos then B2SF b else f64_neg (B2SF b))), r') /\
      at_bytes r' rest /\ rk r' = rk r /\ is_finite b = true /\
      B2R b = rnd64 (dec_value (lit_sig (d :: ip) fs) (lit_exp_exact fs ex)).
  Proof.
    intros Hdi Hdf Hfl Hex Hsig Hexp Hf Hr Ha. unfold parse_num_token.
    destruct (num_literal_decimal true std_parse fuel r pos d ip fs ex rest Hdi Hdf Hfl Hex
                ltac:(unfold u64_MAX; lia) Hf Hr Ha) as (r1 & E1 & Ha1 & Hk1).
    rewrite (lit_exp_is_exact fs ex Hexp) in E1.
    destruct (from_parts_fast std_parse pos (lit_sig (d :: ip) fs) (lit_exp_exact fs ex) r1 Hsig Hexp) as (b & Eb & Hfin & Hv).
    exists b. unfold bind at 1. rewrite E1. unfold bind at 1. rewrite Eb. unfold ret at 1.
    destruct rest as [|c rest'].
    - destruct (m_peek_nil r1 Ha1) as (r2 & E2 & Ha2 & Hk2). unfold bind. rewrite E2.
      exists r2. unfold ret. repeat split; auto; congruence.
    - destruct (m_peek_cons r1 c rest' Ha1) as (r2 & E2 & Ha2 & Hp2 & Hk2). unfold bind. rewrite E2.
      assert (Ed : is_delimiter c = true) by (delim_cases Hr; reflexivity). rewrite Ed.
      exists r2. unfold ret. repeat split; auto; congruence.
  Qed.

  (* digits [. digits] [e [sign] digits] *)
  Theorem tok_decimal_fast fuel r d ip fs ex rest :
    all_digits (d :: ip) -> all_digits fs -> is_float_lit fs ex -> exp_ok ex ->
    (Z.of_N (lit_sig (d :: ip) fs) < 2 ^ 53)%Z -> (Z.abs (lit_exp_exact fs ex) <= 22)%Z ->
    (S (length (lit_text (d :: ip) fs ex)) < fuel)%nat -> delim_ok rest ->
    at_bytes r (lit_text (d :: ip) fs ex ++ rest) ->
    exists (b : bfloat) r',
      parse_token fuel d r = (Ok (TNumber (Float (B2SF b))), r') /\ at_bytes r' rest /\ rk r' = rk r /\
      is_finite b = true /\ B2R b = rnd64 (dec_value (lit_sig (d :: ip) fs) (lit_exp_exact fs ex)).
  Proof.
    intros Hdi Hdf Hfl Hex Hsig Hexp Hf Hr Ha. pose proof (Forall_inv Hdi) as Hdig. cbv beta in Hdig.
    destruct (num_token_decimal_fast fuel r true d ip fs ex rest Hdi Hdf Hfl Hex Hsig Hexp Hf Hr Ha)
      as (b & r1 & E1 & Ha1 & Hk1 & Hfin & Hv).
    exists b, r1. rewrite (token_digit alpha true std_parse fuel d Hdig), (bind_ok _ _ _ _ _ E1). unfold ret. auto.
  Qed.

  (* sign digits [. digits] [e [sign] digits] *)
  Theorem tok_signed_decimal_fast fuel r sg d ip fs ex rest : sg = 43 \/ sg = 45 ->
    all_digits (d :: ip) -> all_digits fs -> is_float_lit fs ex -> exp_ok ex ->
    (Z.of_N (lit_sig (d :: ip) fs) < 2 ^ 53)%Z -> (Z.abs (lit_exp_exact fs ex) <= 22)%Z ->
    (S (S (length (lit_text (d :: ip) fs ex))) < fuel)%nat -> delim_ok rest ->
    at_bytes r (sg :: lit_text (d :: ip) fs ex ++ rest) -> peeked r ->
    exists (b : bfloat) r',
      parse_token fuel sg r = (Ok (TNumber (Float (if sg =? 43 then B2SF b else f64_neg (B2SF b)))), r') /\
      at_bytes r' rest /\ rk r' = rk r /\
      is_finite b = true /\ B2R b = rnd64 (dec_value (lit_sig (d :: ip) fs) (lit_exp_exact fs ex)).
  Proof.
    intros Hsg Hdi Hdf Hfl Hex Hsig Hexp Hf Hr Ha Hp. pose proof (Forall_inv Hdi) as Hdig. cbv beta in Hdig.
    rewrite (token_sign alpha true std_parse fuel sg Hsg). unfold sign_arm.
    pose proof Ha as Ha'. unfold lit_text in Ha'. cbn [app] in Ha'.
    step. step. rewrite (digit_not_symbolish alpha std_parse d Hdig).
    assert (Ha2 : at_bytes r1 (lit_text (d :: ip) fs ex ++ rest)) by (unfold lit_text; cbn [app]; exact Ha1).
    destruct (num_token_decimal_fast fuel r1 (sg =? 43) d ip fs ex rest Hdi Hdf Hfl Hex Hsig Hexp ltac:(lia) Hr Ha2)
      as (b & r2 & E2 & Ha3 & Hk3 & Hfin & Hv).
    exists b, r2. rewrite (bind_ok _ _ _ _ _ E2). unfold ret. repeat split; auto; congruence.
  Qed.
End FloatLit.
