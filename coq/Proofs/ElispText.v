(* The text the printer emits under Options::elisp(), as a plain recursive function. *)
Require Import Base Value PrintOptions Printer PrinterProofs TextProofs.

Section ElispText.
  Variable ryu : f64 -> bytes.
  Local Notation F := (custom_fmt ryu elisp_po).

  Definition eesc_bytes (b : N) : bytes :=
    match escape_of b with
    | None => [b]
    | Some e => flatten (write_elisp_char_escape e)
    end.
  Definition estr_text (s : bytes) : bytes := [34] ++ flat_map eesc_bytes s ++ [34].

  Definition echar_text (c : N) : bytes :=
    if (32 <=? c) && (c <? 127) then
      (if memb c ELISP_ESCAPE_CHARS then [63; 92; c] else [63; c])
    else [63; 92; 120] ++ hex_of_N c.

  Definition octal_text (o : N) : bytes :=
    [92; octal_digit ((o / 64) mod 8); octal_digit ((o / 8) mod 8); octal_digit (o mod 8)].
  Definition ebytes_text (bs : bytes) : bytes := [34] ++ flat_map octal_text bs ++ [34].

  Definition atom_etext (v : value) : bytes :=
    match v with
    | Nil => s2b "nil"
    | Null => s2b "()"
    | Bool b => if b then s2b "t" else s2b "nil"
    | Number n => number_text ryu n
    | Char c => echar_text c
    | Symbol s => s
    | Keyword s => 58 :: s
    | String s => estr_text s
    | Bytes b => ebytes_text b
    | Cons _ _ | Vector _ => []
    end.

  Fixpoint etxt (v : value) : bytes :=
    match v with
    | Cons a d => [40] ++ etxt a ++ etxt_tail d ++ [41]
    | Vector l =>
        [91] ++ (fix elems (first : bool) (l : list value) : bytes :=
                   match l with
                   | [] => []
                   | x :: l' => (if first then [] else [32]) ++ etxt x ++ elems false l'
                   end) true l ++ [93]
    | _ => atom_etext v
    end
  with etxt_tail (d : value) : bytes :=
    match d with
    | Null => []
    | Cons a d' => [32] ++ etxt a ++ etxt_tail d'
    | Vector l =>
        [32; 46; 32] ++ ([91] ++ (fix elems (first : bool) (l : list value) : bytes :=
                                    match l with
                                    | [] => []
                                    | x :: l' => (if first then [] else [32]) ++ etxt x ++ elems false l'
                                    end) true l ++ [93])
    | _ => [32; 46; 32] ++ atom_etext d
    end.

  Definition evec_elems : bool -> list value -> bytes :=
    fix elems (first : bool) (l : list value) : bytes :=
      match l with
      | [] => []
      | x :: l' => (if first then [] else [32]) ++ etxt x ++ elems false l'
      end.

  Lemma etxt_vector l : etxt (Vector l) = [91] ++ evec_elems true l ++ [93].
  Proof. reflexivity. Qed.
  Lemma etxt_tail_noncons d : is_cons d = false -> is_null d = false -> etxt_tail d = [32; 46; 32] ++ etxt d.
  Proof. destruct d; try discriminate; reflexivity. Qed.
  Lemma etxt_cons a d : etxt (Cons a d) = [40] ++ etxt a ++ etxt_tail d ++ [41].
  Proof. reflexivity. Qed.
  Lemma etxt_tail_cons a d : etxt_tail (Cons a d) = [32] ++ etxt a ++ etxt_tail d.
  Proof. reflexivity. Qed.

  Lemma eflatten_esc frag s :
    flatten (esc_contents F frag s) = rev frag ++ flat_map eesc_bytes s.
  Proof.
    revert frag; induction s as [|b s IH]; intros frag; cbn [esc_contents flat_map].
    - destruct frag; [reflexivity|]. cbn [custom_fmt write_string_fragment]. rewrite flatten_wall. now rewrite app_nil_r.
    - unfold eesc_bytes at 1. destruct (escape_of b) as [e|] eqn:E.
      + rewrite !flatten_app, IH. cbn [rev app]. cbn [custom_fmt write_char_escape elisp_po po_string].
        destruct frag; [reflexivity|]. cbn [custom_fmt write_string_fragment]. rewrite flatten_wall.
        rewrite <- ?app_assoc. reflexivity.
      + rewrite IH. cbn [rev]. rewrite <- ?app_assoc. reflexivity.
  Qed.

  Lemma eflatten_octets l : flatten (elisp_octets l) = flat_map octal_text l.
  Proof.
    induction l as [|o l IH]; cbn [elisp_octets flat_map]; [reflexivity|].
    rewrite !flatten_app, !flatten_wall, IH. reflexivity.
  Qed.

  Lemma eflatten_atom v : is_cons v = false -> (forall l, v <> Vector l) ->
    flatten (print_atom F v) = atom_etext v.
  Proof.
    intros Hc Hv.
    destruct v as [| |b|n|c|s|s|s|bs|a d|l]; try discriminate;
      cbn [print_atom custom_fmt write_nil write_null write_bool write_number write_char write_symbol
           write_keyword write_bytes atom_etext elisp_po po_char].
    - unfold c_write_nil. cbn [elisp_po po_nil]. now rewrite flatten_wall.
    - now rewrite flatten_wall.
    - unfold c_write_bool. cbn [elisp_po po_bool]. destruct b; now rewrite flatten_wall.
    - destruct n; cbn [d_write_number number_text]; now rewrite flatten_wall.
    - unfold write_elisp_char, echar_text. destruct (_ && _); [destruct (memb c ELISP_ESCAPE_CHARS)|];
        rewrite ?flatten_app, ?flatten_wall; reflexivity.
    - unfold format_escaped_str, estr_text. cbn [custom_fmt begin_string end_string].
      rewrite !flatten_app, !flatten_wall, eflatten_esc. reflexivity.
    - now rewrite flatten_wall.
    - unfold c_write_keyword. cbn [elisp_po po_keyword]. rewrite flatten_app, !flatten_wall. reflexivity.
    - unfold c_write_bytes, ebytes_text. cbn [elisp_po po_bytes]. rewrite !flatten_app, eflatten_octets, !flatten_wall. reflexivity.
    - exfalso. eapply Hv. reflexivity.
  Qed.

  Lemma eprint_txt_both v :
    flatten (print F v) = etxt v /\ flatten (print_tail F v) = etxt_tail v.
  Proof.
    assert (Htail : forall d, is_cons d = false -> is_null d = false -> (forall l, d <> Vector l) ->
              flatten (print_tail F d) = [32; 46; 32] ++ atom_etext d).
    { intros d Hc Hn Hv. rewrite <- (eflatten_atom d Hc Hv).
      destruct d; try discriminate; try (exfalso; eapply Hv; reflexivity);
        cbn [print_tail]; unfold dot_seq;
        cbn [custom_fmt begin_seq_element write_dot end_seq_element d_begin_seq_element];
        rewrite ?flatten_app, ?flatten_wall, ?flatten_nil, ?app_nil_r; reflexivity. }
    induction v as [| |b|n|c|s|s|s|b|a d [IHa _] [IHd1 IHd2]|l H] using value_ind';
      try (split; [apply eflatten_atom; [reflexivity|intros; discriminate]
                  |first [reflexivity | apply Htail; [reflexivity|reflexivity|intros; discriminate]]]).
    - split; rewrite ?print_cons, ?print_tail_cons, ?etxt_cons, ?etxt_tail_cons;
        cbn [custom_fmt begin_list end_list begin_seq_element end_seq_element d_begin_seq_element];
        rewrite !flatten_app, !flatten_wall, ?flatten_nil, IHa, IHd2; cbn [app]; reflexivity.
    - assert (He : forall first,
                 flatten ((fix elems (first : bool) (l : list value) : trace :=
                             match l with
                             | [] => []
                             | x :: l' => begin_seq_element F first ++ print F x
                                            ++ end_seq_element F ++ elems false l'
                             end) first l) = evec_elems first l).
      { induction H as [|x l [Hx _] _ IH]; intros first; [reflexivity|].
        cbn [evec_elems]. rewrite !flatten_app, Hx, IH.
        cbn [custom_fmt begin_seq_element end_seq_element d_begin_seq_element]. destruct first; rewrite ?flatten_wall, ?flatten_nil; reflexivity. }
      split.
      + cbn [print]. rewrite etxt_vector, !flatten_app, He. cbn [custom_fmt begin_vector end_vector].
        unfold c_begin_vector, c_end_vector. cbn [elisp_po po_vector]. now rewrite !flatten_wall.
      + cbn [print_tail]. change (etxt_tail (Vector l)) with ([32; 46; 32] ++ etxt (Vector l)). rewrite etxt_vector.
        unfold dot_seq. rewrite !flatten_app, He.
        cbn [custom_fmt begin_seq_element write_dot end_seq_element begin_vector end_vector d_begin_seq_element].
        unfold c_begin_vector, c_end_vector. cbn [elisp_po po_vector].
        rewrite !flatten_wall, ?flatten_nil, ?app_nil_r. reflexivity.
  Qed.

  Theorem print_elisp_is_etxt v : print_custom ryu elisp_po v = etxt v.
  Proof. unfold print_custom, trace_custom. apply eprint_txt_both. Qed.
End ElispText.
