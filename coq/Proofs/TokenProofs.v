(* Token-level reading lemmas for the default dialect, all source kinds. *)
From Coq Require Import SpecFloat ZifyBool ZifyNat ZifyN.
Require Import Base Value Float PrintOptions ParseOptions Utf8 Reader Scan Num NumberOps Parser.
Require Import ReaderProofs ScanProofs.

Ltac step_peek :=
  match goal with
  | H : at_bytes ?r (?b :: ?l) |- context [bind peek _ ?r] =>
      let r' := fresh "r" in let E := fresh "E" in let Ha := fresh "Ha" in
      let Hp := fresh "Hp" in let Hk := fresh "Hk" in
      destruct (m_peek_cons r b l H) as (r' & E & Ha & Hp & Hk);
      rewrite (bind_ok _ _ _ _ _ E); clear E
  | H : at_bytes ?r [] |- context [bind peek _ ?r] =>
      let r' := fresh "r" in let E := fresh "E" in let Ha := fresh "Ha" in let Hk := fresh "Hk" in
      destruct (m_peek_nil r H) as (r' & E & Ha & Hk);
      rewrite (bind_ok _ _ _ _ _ E); clear E
  end.
Ltac step_peek0 :=
  match goal with
  | H : at_bytes ?r (?b :: ?l) |- context [bind peek_or_null _ ?r] =>
      let r' := fresh "r" in let E := fresh "E" in let Ha := fresh "Ha" in
      let Hp := fresh "Hp" in let Hk := fresh "Hk" in
      destruct (m_peek_or_null_cons r b l H) as (r' & E & Ha & Hp & Hk);
      rewrite (bind_ok _ _ _ _ _ E); clear E
  | H : at_bytes ?r [] |- context [bind peek_or_null _ ?r] =>
      let r' := fresh "r" in let E := fresh "E" in let Ha := fresh "Ha" in let Hk := fresh "Hk" in
      destruct (m_peek_or_null_nil r H) as (r' & E & Ha & Hk);
      rewrite (bind_ok _ _ _ _ _ E); clear E
  end.
Ltac step_next :=
  match goal with
  | H : at_bytes ?r (?b :: ?l) |- context [bind next_char _ ?r] =>
      let r' := fresh "r" in let E := fresh "E" in let Ha := fresh "Ha" in let Hk := fresh "Hk" in
      destruct (m_next_cons r b l H) as (r' & E & Ha & Hk);
      rewrite (bind_ok _ _ _ _ _ E); clear E
  | H : at_bytes ?r [] |- context [bind next_char _ ?r] =>
      let r' := fresh "r" in let E := fresh "E" in let Ha := fresh "Ha" in let Hk := fresh "Hk" in
      destruct (m_next_nil r H) as (r' & E & Ha & Hk);
      rewrite (bind_ok _ _ _ _ _ E); clear E
  end.
Ltac step_eat :=
  match goal with
  | H : at_bytes ?r (?b :: ?l), Hp : peeked ?r |- context [bind eat_char _ ?r] =>
      let r' := fresh "r" in let E := fresh "E" in let Ha := fresh "Ha" in let Hk := fresh "Hk" in
      destruct (m_eat r b l H Hp) as (r' & E & Ha & Hk);
      rewrite (bind_ok _ _ _ _ _ E); clear E
  end.
Ltac step := first [step_eat | step_peek | step_peek0 | step_next].

(* ---- whitespace ---- *)
Definition is_ws (c : N) : bool := memb c [32; 10; 9; 13; 12].
Definition starts_datum (c : N) : Prop := is_ws c = false /\ c <> 59.

Lemma ws_here fuel r b l : (1 <= fuel)%nat -> at_bytes r (b :: l) -> starts_datum b ->
  exists r', Parser.parse_whitespace fuel r = (Ok (Some b), r') /\ at_bytes r' (b :: l) /\ peeked r' /\ rk r' = rk r.
Proof.
  intros Hf Ha [Hw Hc]. destruct fuel as [|f]; [lia|]. cbn [Parser.parse_whitespace].
  step. assert (E59 : (b =? 59) = false) by lia. rewrite E59.
  unfold is_ws in Hw. rewrite Hw. exists r0. unfold ret. auto.
Qed.

Lemma ws_space fuel r b l : (2 <= fuel)%nat -> at_bytes r (32 :: b :: l) -> starts_datum b ->
  exists r', Parser.parse_whitespace fuel r = (Ok (Some b), r') /\ at_bytes r' (b :: l) /\ peeked r' /\ rk r' = rk r.
Proof.
  intros Hf Ha Hb. destruct fuel as [|f]; [lia|]. cbn [Parser.parse_whitespace].
  step. change (32 =? 59) with false. change (memb 32 [32; 10; 9; 13; 12]) with true. cbv iota.
  step. destruct (ws_here f r1 b l) as (r2 & E & Ha2 & Hp2 & Hk2); [lia|exact Ha1|exact Hb|].
  exists r2. rewrite E. repeat split; auto; congruence.
Qed.

Lemma ws_eof fuel r : (1 <= fuel)%nat -> at_bytes r [] ->
  exists r', Parser.parse_whitespace fuel r = (Ok None, r') /\ at_bytes r' [].
Proof.
  intros Hf Ha. destruct fuel as [|f]; [lia|]. cbn [Parser.parse_whitespace]. step.
  exists r0. unfold ret. auto.
Qed.

(* ---- trivia: whitespace and line comments ---- *)
Inductive trivia : bytes -> Prop :=
| tv_nil : trivia []
| tv_ws c t : is_ws c = true -> trivia t -> trivia (c :: t)
| tv_comment body t : Forall (fun c => c <> 10) body -> trivia t -> trivia (59 :: body ++ 10 :: t).

(* a final comment without a newline, allowed only at the very end of the input *)
Inductive trivia_eof : bytes -> Prop :=
| te_trivia t : trivia t -> trivia_eof t
| te_open t body : trivia t -> Forall (fun c => c <> 10) body -> trivia_eof (t ++ 59 :: body).

Lemma skip_comment_line body : forall fuel r l, (length body < fuel)%nat -> Forall (fun c => c <> 10) body ->
  at_bytes r (body ++ 10 :: l) ->
  exists r', Parser.skip_comment fuel r = (Ok true, r') /\ at_bytes r' l /\ rk r' = rk r.
Proof.
  induction body as [|c body IH]; intros fuel r l Hf Hb Ha; (destruct fuel as [|f]; [cbn in Hf; lia|]);
    cbn [Parser.skip_comment app] in *.
  - step. change (10 =? 10) with true. cbv iota. exists r0. unfold ret. auto.
  - step. inversion Hb as [|? ? Hc Hb']; subst. assert (E : (c =? 10) = false) by lia. rewrite E.
    destruct (IH f r0 l ltac:(cbn in Hf; lia) Hb' Ha0) as (r1 & E1 & Ha1 & Hk1).
    exists r1. repeat split; auto; congruence.
Qed.

Lemma skip_comment_open body : forall fuel r, (length body < fuel)%nat -> Forall (fun c => c <> 10) body ->
  at_bytes r body ->
  exists r', Parser.skip_comment fuel r = (Ok false, r') /\ at_bytes r' [] /\ rk r' = rk r.
Proof.
  induction body as [|c body IH]; intros fuel r Hf Hb Ha; (destruct fuel as [|f]; [cbn in Hf; lia|]);
    cbn [Parser.skip_comment] in *.
  - step. exists r0. unfold ret. auto.
  - step. inversion Hb as [|? ? Hc Hb']; subst. assert (E : (c =? 10) = false) by lia. rewrite E.
    destruct (IH f r0 ltac:(cbn in Hf; lia) Hb' Ha0) as (r1 & E1 & Ha1 & Hk1).
    exists r1. repeat split; auto; congruence.
Qed.

Lemma ws_trivia t : trivia t -> forall fuel r b l, (length t < fuel)%nat -> at_bytes r (t ++ b :: l) -> starts_datum b ->
  exists r', Parser.parse_whitespace fuel r = (Ok (Some b), r') /\ at_bytes r' (b :: l) /\ peeked r' /\ rk r' = rk r.
Proof.
  induction 1 as [|c t Hc Ht IH|body t Hb Ht IH]; intros fuel r b l Hf Ha Hs.
  - apply ws_here; auto.
  - destruct fuel as [|f]; [cbn in Hf; lia|]. cbn [Parser.parse_whitespace app] in *. step.
    destruct (c =? 59) eqn:E59; [apply N.eqb_eq in E59; subst c; discriminate Hc|].
    unfold is_ws in Hc. rewrite Hc. step.
    destruct (IH f r1 b l ltac:(cbn in Hf; lia) Ha1 Hs) as (r2 & E2 & Ha2 & Hp2 & Hk2).
    exists r2. repeat split; auto; congruence.
  - destruct fuel as [|f]; [cbn in Hf; lia|]. cbn [Parser.parse_whitespace app] in *. step.
    change (59 =? 59) with true. cbv iota.
    assert (Ha' : at_bytes r0 ((59 :: body) ++ 10 :: t ++ b :: l)).
    { cbn [app]. rewrite <- app_assoc in Ha0. exact Ha0. }
    destruct (skip_comment_line (59 :: body) f r0 (t ++ b :: l)) as (r1 & E1 & Ha1 & Hk1).
    { cbn [length] in *. rewrite app_length in Hf. cbn [length] in Hf. lia. }
    { constructor; [discriminate|exact Hb]. }
    { exact Ha'. }
    rewrite (bind_ok _ _ _ _ _ E1).
    destruct (IH f r1 b l) as (r2 & E2 & Ha2 & Hp2 & Hk2); [|exact Ha1|exact Hs|].
    { cbn [length] in Hf. rewrite app_length in Hf. cbn [length] in Hf. lia. }
    exists r2. repeat split; auto; congruence.
Qed.

Lemma trivia_app t1 t2 : trivia t1 -> trivia t2 -> trivia (t1 ++ t2).
Proof.
  induction 1 as [|c t Hc Ht IH|body t Hb Ht IH]; intros H2.
  - exact H2.
  - cbn [app]. apply tv_ws; [exact Hc|exact (IH H2)].
  - change ((59 :: body ++ 10 :: t) ++ t2) with (59 :: (body ++ 10 :: t) ++ t2).
    rewrite <- app_assoc. cbn [app]. apply tv_comment; [exact Hb|exact (IH H2)].
Qed.

(* trivia up to the end of the input, the last comment possibly without its newline *)
Lemma ws_trivia_eof t : trivia t -> forall fuel r, (length t < fuel)%nat -> at_bytes r t ->
  exists r', Parser.parse_whitespace fuel r = (Ok None, r') /\ at_bytes r' [] /\ rk r' = rk r.
Proof.
  induction 1 as [|c t Hc Ht IH|body t Hb Ht IH]; intros fuel r Hf Ha.
  - destruct fuel as [|f]; [cbn in Hf; lia|]. cbn [Parser.parse_whitespace]. step. exists r0. unfold ret. auto.
  - destruct fuel as [|f]; [cbn in Hf; lia|]. cbn [Parser.parse_whitespace app] in *. step.
    destruct (c =? 59) eqn:E59; [apply N.eqb_eq in E59; subst c; discriminate Hc|].
    unfold is_ws in Hc. rewrite Hc. step.
    destruct (IH f r1 ltac:(cbn in Hf; lia) Ha1) as (r2 & E2 & Ha2 & Hk2).
    exists r2. repeat split; auto; congruence.
  - destruct fuel as [|f]; [cbn in Hf; lia|]. cbn [Parser.parse_whitespace app] in *. step.
    change (59 =? 59) with true. cbv iota.
    destruct (skip_comment_line (59 :: body) f r0 t) as (r1 & E1 & Ha1 & Hk1).
    { cbn [length] in *. rewrite app_length in Hf. cbn [length] in Hf. lia. }
    { constructor; [discriminate|exact Hb]. }
    { exact Ha0. }
    rewrite (bind_ok _ _ _ _ _ E1).
    destruct (IH f r1) as (r2 & E2 & Ha2 & Hk2); [|exact Ha1|].
    { cbn [length] in Hf. rewrite app_length in Hf. cbn [length] in Hf. lia. }
    exists r2. repeat split; auto; congruence.
Qed.

Lemma ws_trivia_open t : trivia t -> forall (body : bytes) fuel r, Forall (fun c => c <> 10) body ->
  (S (length (t ++ 59%N :: body)) < fuel)%nat -> at_bytes r (t ++ 59 :: body) ->
  exists r', Parser.parse_whitespace fuel r = (Ok None, r') /\ at_bytes r' [] /\ rk r' = rk r.
Proof.
  induction 1 as [|c t Hc Ht IH|cb t Hb Ht IH]; intros body fuel r Hbody Hf Ha.
  - destruct fuel as [|f]; [cbn in Hf; lia|]. cbn [Parser.parse_whitespace app] in *. step.
    change (59 =? 59) with true. cbv iota.
    destruct (skip_comment_open (59 :: body) f r0) as (r1 & E1 & Ha1 & Hk1).
    { cbn [length] in *. lia. }
    { constructor; [discriminate|exact Hbody]. }
    { exact Ha0. }
    rewrite (bind_ok _ _ _ _ _ E1). exists r1. unfold ret. repeat split; auto; congruence.
  - destruct fuel as [|f]; [cbn in Hf; lia|]. cbn [Parser.parse_whitespace app] in *. step.
    destruct (c =? 59) eqn:E59; [apply N.eqb_eq in E59; subst c; discriminate Hc|].
    unfold is_ws in Hc. rewrite Hc. step.
    destruct (IH body f r1 Hbody ltac:(cbn in Hf; lia) Ha1) as (r2 & E2 & Ha2 & Hk2).
    exists r2. repeat split; auto; congruence.
  - destruct fuel as [|f]; [cbn in Hf; lia|]. cbn [Parser.parse_whitespace app] in *. step.
    change (59 =? 59) with true. cbv iota.
    assert (Ha' : at_bytes r0 ((59 :: cb) ++ 10 :: t ++ 59 :: body)).
    { cbn [app]. rewrite <- app_assoc in Ha0. exact Ha0. }
    destruct (skip_comment_line (59 :: cb) f r0 (t ++ 59 :: body)) as (r1 & E1 & Ha1 & Hk1).
    { cbn [length] in *. rewrite !app_length in Hf. cbn [length] in Hf. lia. }
    { constructor; [discriminate|exact Hb]. }
    { exact Ha'. }
    rewrite (bind_ok _ _ _ _ _ E1).
    destruct (IH body f r1 Hbody) as (r2 & E2 & Ha2 & Hk2); [|exact Ha1|].
    { cbn [length] in Hf. rewrite !app_length in Hf. cbn [length] in Hf. rewrite app_length. cbn [length]. lia. }
    exists r2. repeat split; auto; congruence.
Qed.

Lemma ws_trivia_end t : trivia_eof t -> forall fuel r, (S (length t) < fuel)%nat -> at_bytes r t ->
  exists r', Parser.parse_whitespace fuel r = (Ok None, r') /\ at_bytes r' [] /\ rk r' = rk r.
Proof.
  intros [t' Ht|t' body Ht Hb] fuel r Hf Ha.
  - apply (ws_trivia_eof t' Ht); auto. lia.
  - apply (ws_trivia_open t' Ht body); auto.
Qed.

(* the first byte of non-empty trivia ends any token *)
Lemma trivia_head_ws t : trivia t -> t <> [] -> exists c t', t = c :: t' /\ (is_ws c = true \/ c = 59).
Proof. intros [|c t' Hc _|body t' _ _] Hne; [contradiction|exists c, t'; auto|eexists _, _; split; [reflexivity|auto]]. Qed.

(* a decision procedure for trivia, for examples *)
Fixpoint is_trivia_b (in_comment : bool) (t : bytes) : bool :=
  match t with
  | [] => negb in_comment
  | c :: t' => if in_comment then is_trivia_b (negb (c =? 10)) t'
               else if c =? 59 then is_trivia_b true t' else is_ws c && is_trivia_b false t'
  end.
Lemma is_trivia_b_sound t :
  (is_trivia_b false t = true -> trivia t) /\
  (is_trivia_b true t = true -> exists body t', t = body ++ 10 :: t' /\ Forall (fun c => c <> 10) body /\ trivia t').
Proof.
  induction t as [|c t [IH1 IH2]]; cbn [is_trivia_b]; split; intros H; try discriminate.
  - constructor.
  - destruct (c =? 59) eqn:E.
    + apply N.eqb_eq in E. subst c. destruct (IH2 H) as (body & t' & -> & Hb & Ht). constructor; assumption.
    + apply andb_true_iff in H. destruct H as [Hc H]. constructor; auto.
  - destruct (c =? 10) eqn:E; cbn [negb] in H.
    + apply N.eqb_eq in E. subst c. exists [], t. repeat split; auto.
    + destruct (IH2 H) as (body & t' & -> & Hb & Ht). exists (c :: body), t'. repeat split; auto.
      constructor; [lia|exact Hb].
Qed.
Lemma is_trivia_ok t : is_trivia_b false t = true -> trivia t.
Proof. apply is_trivia_b_sound. Qed.

(* expect_ident on matching text *)
Lemma expect_ident_ok ident : forall r rest, at_bytes r (ident ++ rest) ->
  exists r', Parser.expect_ident ident r = (Ok tt, r') /\ at_bytes r' rest /\ rk r' = rk r.
Proof.
  induction ident as [|c ident IH]; intros r rest Ha; cbn [expect_ident app] in *.
  - exists r. unfold ret. auto.
  - step. rewrite N.eqb_refl. destruct (IH r0 rest Ha0) as (r1 & E & Ha1 & Hk1).
    exists r1. rewrite E. repeat split; auto; congruence.
Qed.


(* what may follow a datum: end of input, whitespace (space, LF, tab, CR, FF), a
   ';' comment, or an opening or closing parenthesis or bracket *)
Definition delim_ok (rest : bytes) : Prop :=
  match rest with [] => True | d :: _ => is_symbol_terminator d = true end.
Lemma delim_ok_terminator rest : delim_ok rest -> at_terminator rest.
Proof. destruct rest as [|d rest]; [auto|]. intros H; exact H. Qed.
Lemma delim_ok_cases d rest : delim_ok (d :: rest) ->
  d = 32 \/ d = 10 \/ d = 9 \/ d = 13 \/ d = 12 \/ d = 41 \/ d = 93 \/ d = 40 \/ d = 91 \/ d = 59.
Proof.
  cbn [delim_ok]. unfold is_symbol_terminator, memb. cbn [existsb]. intros H.
  repeat (apply orb_true_iff in H; destruct H as [H|H]; [apply N.eqb_eq in H; subst; tauto|]). discriminate.
Qed.
Ltac delim_cases H :=
  let H' := fresh in pose proof (delim_ok_cases _ _ H) as H';
  destruct H' as [->|[->|[->|[->|[->|[->|[->|[->|[->| ->]]]]]]]]].


Section Tokens.
  Variable alpha : N -> bool.
  Variable fast : bool.
  Variable std_parse : N -> Z -> f64.
  Local Notation ro := default_ro.
  Local Notation parse_whitespace := (parse_whitespace).
  Local Notation parse_token := (parse_token ro alpha fast std_parse).

  (* '#' tokens *)
  Definition hash_arm (fuel : nat) : M token :=
    eat_char ;;;
    o <- next_char ;;
    match o with
    | None => peek_error EofWhileParsingValue
    | Some c =>
        if c =? 116 then ret (TBool true)
        else if c =? 102 then ret (TBool false)
        else if c =? 110 then expect_ident (s2b "il") ;;; ret TNil
        else if c =? 40 then ret (TVecOpen 41)
        else if (c =? 58) && ro_kw_octo ro then s <- parse_symbol fuel ;; ret (TKeyword s)
        else if c =? 118 then expect_ident (s2b "u8") ;;; ret (TByteVecOpen 41)
        else if c =? 117 then expect_ident (s2b "8") ;;; ret (TByteVecOpen 41)
        else if c =? 98 then n <- parse_radix_literal fast std_parse fuel 2 ;; ret (TNumber n)
        else if c =? 111 then n <- parse_radix_literal fast std_parse fuel 8 ;; ret (TNumber n)
        else if c =? 100 then n <- parse_radix_literal fast std_parse fuel 10 ;; ret (TNumber n)
        else if c =? 120 then n <- parse_radix_literal fast std_parse fuel 16 ;; ret (TNumber n)
        else if c =? 92 then ch <- parse_r6rs_char fuel ;; ret (TChar ch)
        else if (c =? 37) && ro_racket ro then s <- parse_symbol_suffix fuel (s2b "#%") ;; ret (TSymbol s)
        else peek_error ExpectedSomeIdent
    end.
  Lemma token_hash fuel : parse_token fuel 35 = hash_arm fuel.
  Proof. reflexivity. Qed.

  Lemma tok_nil fuel r rest : at_bytes r (s2b "#nil" ++ rest) -> peeked r ->
    exists r', parse_token fuel 35 r = (Ok TNil, r') /\ at_bytes r' rest /\ rk r' = rk r.
  Proof.
    intros Ha Hp. rewrite token_hash. unfold hash_arm. change (s2b "#nil" ++ rest) with (35 :: 110 :: s2b "il" ++ rest) in Ha.
    step. step. cbv beta iota. change (110 =? 116) with false. change (110 =? 102) with false. change (110 =? 110) with true. cbv iota.
    destruct (expect_ident_ok (s2b "il") r1 rest Ha1) as (r2 & E & Ha2 & Hk2).
    rewrite (bind_ok _ _ _ _ _ E). exists r2. unfold ret. repeat split; auto; congruence.
  Qed.

  Lemma tok_bool fuel r (b : bool) rest : at_bytes r ((if b then s2b "#t" else s2b "#f") ++ rest) -> peeked r ->
    exists r', parse_token fuel 35 r = (Ok (TBool b), r') /\ at_bytes r' rest /\ rk r' = rk r.
  Proof.
    intros Ha Hp. rewrite token_hash. unfold hash_arm.
    destruct b.
    - change (s2b "#t" ++ rest) with (35 :: 116 :: rest) in Ha. step. step. cbv beta iota.
      change (116 =? 116) with true. cbv iota. exists r1. unfold ret. repeat split; auto; congruence.
    - change (s2b "#f" ++ rest) with (35 :: 102 :: rest) in Ha. step. step. cbv beta iota.
      change (102 =? 116) with false. change (102 =? 102) with true. cbv iota.
      exists r1. unfold ret. repeat split; auto; congruence.
  Qed.

  Lemma tok_vecopen fuel r rest : at_bytes r (s2b "#(" ++ rest) -> peeked r ->
    exists r', parse_token fuel 35 r = (Ok (TVecOpen 41), r') /\ at_bytes r' rest /\ rk r' = rk r.
  Proof.
    intros Ha Hp. rewrite token_hash. unfold hash_arm.
    change (s2b "#(" ++ rest) with (35 :: 40 :: rest) in Ha. step. step. cbv beta iota.
    change (40 =? 116) with false. change (40 =? 102) with false. change (40 =? 110) with false.
    change (40 =? 40) with true. cbv iota. exists r1. unfold ret. repeat split; auto; congruence.
  Qed.

  Lemma tok_bytevec fuel r rest : at_bytes r (s2b "#u8" ++ rest) -> peeked r ->
    exists r', parse_token fuel 35 r = (Ok (TByteVecOpen 41), r') /\ at_bytes r' rest /\ rk r' = rk r.
  Proof.
    intros Ha Hp. rewrite token_hash. unfold hash_arm.
    change (s2b "#u8" ++ rest) with (35 :: 117 :: s2b "8" ++ rest) in Ha. step. step. cbv beta iota.
    change (117 =? 116) with false. change (117 =? 102) with false. change (117 =? 110) with false.
    change (117 =? 40) with false. change (117 =? 58) with false. change (117 =? 118) with false.
    change (117 =? 117) with true. cbv iota. cbn [andb].
    destruct (expect_ident_ok (s2b "8") r1 rest Ha1) as (r2 & E & Ha2 & Hk2).
    rewrite (bind_ok _ _ _ _ _ E). exists r2. unfold ret. repeat split; auto; congruence.
  Qed.

  (* keywords: #: then a symbol *)
  Lemma tok_keyword fuel r name rest : (length name < fuel)%nat ->
    no_terminator name -> at_terminator rest -> symbol_ok name ->
    at_bytes r (s2b "#:" ++ name ++ rest) -> peeked r ->
    exists r', parse_token fuel 35 r = (Ok (TKeyword name), r') /\ at_bytes r' rest /\ rk r' = rk r.
  Proof.
    intros Hf Hn Ht Hok Ha Hp. rewrite token_hash. unfold hash_arm.
    change (s2b "#:" ++ name ++ rest) with (35 :: 58 :: name ++ rest) in Ha. step. step. cbv beta iota.
    change (58 =? 116) with false. change (58 =? 102) with false. change (58 =? 110) with false.
    change (58 =? 40) with false. change (58 =? 58) with true. cbn [andb ro_kw_octo default_ro]. cbv iota.
    unfold parse_symbol.
    destruct (parse_symbol_spec name fuel [] rest r1 Hf Hn Ht Ha1 Hok) as (r2 & E & Ha2 & Hk2 & _).
    rewrite (bind_ok _ _ _ _ _ E). exists r2. unfold ret. cbn [app]. repeat split; auto; congruence.
  Qed.

  (* parentheses *)
  Lemma tok_listopen fuel r rest : at_bytes r (40 :: rest) -> peeked r ->
    exists r', parse_token fuel 40 r = (Ok (TListOpen 41), r') /\ at_bytes r' rest /\ rk r' = rk r.
  Proof.
    intros Ha Hp. change (parse_token fuel 40) with (eat_char ;;; ret (TListOpen 41)).
    step. exists r0. unfold ret. auto.
  Qed.


  (* ---- symbols ---- *)
  Lemma symbol_token_default name : symbol_token ro name = TSymbol name.
  Proof. reflexivity. Qed.

  Definition sym_arm (fuel : nat) : M token := name <- parse_symbol fuel ;; ret (symbol_token ro name).

  Lemma token_alpha fuel c : is_ascii_alpha c = true -> parse_token fuel c = sym_arm fuel.
  Proof.
    intros H. unfold is_ascii_alpha, is_ascii_lower, is_ascii_upper, in_range in H.
    unfold Parser.parse_token.
    replace (c =? 35) with false by lia. replace ((c =? 45) || (c =? 43)) with false by lia.
    replace (is_digit c) with false by (unfold is_digit, in_range; lia).
    replace (c =? 34) with false by lia. replace (c =? 40) with false by lia.
    replace (c =? 91) with false by lia. replace (c =? 58) with false by lia.
    replace (is_ascii_alpha c) with true by (unfold is_ascii_alpha, is_ascii_lower, is_ascii_upper, in_range; lia).
    reflexivity.
  Qed.

  Definition ext_initial : bytes := s2b "!$%&*./<=>?@^_~".
  Lemma token_ext fuel c : In c ext_initial -> parse_token fuel c = sym_arm fuel.
  Proof.
    intros H. unfold ext_initial in H. cbn in H.
    repeat (destruct H as [<-|H]; [reflexivity|]). contradiction.
  Qed.
  Lemma token_colon fuel : parse_token fuel 58 = (s <- parse_symbol fuel ;; ret (TSymbol s)).
  Proof. reflexivity. Qed.

  Lemma tok_symbol_direct fuel r c s' rest :
    (is_ascii_alpha c = true \/ In c ext_initial \/ c = 58) ->
    (length (c :: s') < fuel)%nat -> no_terminator (c :: s') -> at_terminator rest -> symbol_ok (c :: s') ->
    at_bytes r ((c :: s') ++ rest) ->
    exists r', parse_token fuel c r = (Ok (TSymbol (c :: s')), r') /\ at_bytes r' rest /\ rk r' = rk r.
  Proof.
    intros Hc Hf Hn Ht Hok Ha.
    destruct (parse_symbol_spec (c :: s') fuel [] rest r Hf Hn Ht Ha Hok) as (r2 & E & Ha2 & Hk2 & _).
    cbn [app] in E.
    destruct Hc as [Hc|[Hc|Hc]].
    - rewrite (token_alpha fuel c Hc). unfold sym_arm, parse_symbol. rewrite (bind_ok _ _ _ _ _ E).
      exists r2. unfold ret. auto.
    - rewrite (token_ext fuel c Hc). unfold sym_arm, parse_symbol. rewrite (bind_ok _ _ _ _ _ E).
      exists r2. unfold ret. auto.
    - subst c. rewrite token_colon. unfold parse_symbol. rewrite (bind_ok _ _ _ _ _ E).
      exists r2. unfold ret. auto.
  Qed.

  (* sign-initial symbols *)
  Definition sign_next_ok (c2 : N) : bool :=
    (c2 =? 0) || is_delimiter c2 || is_sign_subsequent c2 || (c2 =? 46) || (127 <? c2).

  Definition sign_arm (fuel : nat) (c : N) : M token :=
    eat_char ;;;
    nx <- peek_or_null ;;
    if (nx =? 0) || is_delimiter nx || is_sign_subsequent nx || (nx =? 46) || (127 <? nx) then
      name <- parse_symbol_suffix fuel [c] ;; ret (symbol_token ro name)
    else n <- parse_num_token fast std_parse fuel 10 (c =? 43) ;; ret (TNumber n).
  Lemma token_sign fuel c : c = 43 \/ c = 45 -> parse_token fuel c = sign_arm fuel c.
  Proof. intros [->| ->]; reflexivity. Qed.

  Lemma tok_symbol_sign fuel r c s' rest : c = 43 \/ c = 45 ->
    (match s' with [] => True | c2 :: _ => sign_next_ok c2 = true end) ->
    (length (c :: s') < fuel)%nat -> no_terminator (c :: s') -> delim_ok rest -> symbol_ok (c :: s') ->
    at_bytes r ((c :: s') ++ rest) -> peeked r ->
    exists r', parse_token fuel c r = (Ok (TSymbol (c :: s')), r') /\ at_bytes r' rest /\ rk r' = rk r.
  Proof.
    intros Hc Hnext Hf Hn Hd Hok Ha Hp. rewrite (token_sign fuel c Hc). unfold sign_arm.
    cbn [app] in Ha. step.
    assert (Hn' : no_terminator s') by (inversion Hn; assumption).
    assert (Ht : at_terminator rest) by (apply delim_ok_terminator; exact Hd).
    assert (Hf' : (length s' < fuel)%nat) by (cbn in Hf; lia).
    (* the byte after the sign selects the symbol branch *)
    assert (Hbranch : exists r1, peek_or_null r0 = (Ok (match s' ++ rest with [] => 0 | b :: _ => b end), r1) /\
                                 at_bytes r1 (s' ++ rest) /\ rk r1 = rk r0).
    { destruct (s' ++ rest) as [|b l] eqn:El.
      - destruct (m_peek_or_null_nil r0 Ha0) as (r1 & E & Ha1 & Hk1). exists r1. auto.
      - destruct (m_peek_or_null_cons r0 b l Ha0) as (r1 & E & Ha1 & _ & Hk1). exists r1. auto. }
    destruct Hbranch as (r1 & E1 & Ha1 & Hk1). rewrite (bind_ok _ _ _ _ _ E1).
    assert (Hcond : (let nx := match s' ++ rest with [] => 0 | b :: _ => b end in
                     (nx =? 0) || is_delimiter nx || is_sign_subsequent nx || (nx =? 46) || (127 <? nx)) = true).
    { destruct s' as [|c2 s'']; cbn [app].
      - destruct rest as [|d rest']; [reflexivity|]. delim_cases Hd; reflexivity.
      - exact Hnext. }
    cbv zeta in Hcond. rewrite Hcond.
    unfold parse_symbol_suffix.
    destruct (parse_symbol_spec s' fuel [c] rest r1 Hf' Hn' Ht Ha1 Hok) as (r2 & E2 & Ha2 & Hk2 & _).
    rewrite (bind_ok _ _ _ _ _ E2). exists r2. unfold ret. cbn [app]. repeat split; auto; congruence.
  Qed.


  (* ---- symbols that begin with a non-ASCII letter ---- *)
  Definition high_arm (fuel : nat) (b0 : N) : M token :=
    eat_char ;;;
    r <- decode_utf8_sequence_b b0 ;;
    if negb (alpha (snd r)) then peek_error ExpectedSomeValue
    else name <- parse_symbol_suffix fuel (fst r) ;; ret (symbol_token ro name).

  Lemma token_high fuel b0 : 127 < b0 -> parse_token fuel b0 = high_arm fuel b0.
  Proof.
    intros H. unfold Parser.parse_token.
    replace (b0 =? 35) with false by lia. replace ((b0 =? 45) || (b0 =? 43)) with false by lia.
    replace (is_digit b0) with false by (unfold is_digit, in_range; lia).
    replace (b0 =? 34) with false by lia. replace (b0 =? 40) with false by lia.
    replace (b0 =? 91) with false by lia. replace (b0 =? 58) with false by lia.
    replace (is_ascii_alpha b0) with false by (unfold is_ascii_alpha, is_ascii_lower, is_ascii_upper, in_range; lia).
    replace (b0 =? 63) with false by lia. cbn [andb].
    replace (b0 =? 39) with false by lia. replace (b0 =? 96) with false by lia. replace (b0 =? 44) with false by lia.
    replace (127 <? b0) with true by lia. reflexivity.
  Qed.

  Definition cont_len (b0 : N) : nat := if in_range 192 223 b0 then 1%nat else N.to_nat ((b0 - 192) / 16).
  Definition lead_ok (b0 : N) : bool := in_range 192 223 b0 || in_range 224 247 b0.

  Lemma take_bytes_spec l : forall acc r tail, at_bytes r (l ++ tail) ->
    exists r', take_bytes (length l) acc r = (Ok (acc ++ l), r') /\ at_bytes r' tail /\ rk r' = rk r.
  Proof.
    induction l as [|c l IH]; intros acc r tail Ha; cbn [length take_bytes app] in *.
    - exists r. unfold ret. rewrite app_nil_r. auto.
    - step. destruct (IH (acc ++ [c]) r0 tail Ha0) as (r1 & E & Ha1 & Hk1).
      exists r1. rewrite E, <- app_assoc. repeat split; auto; congruence.
  Qed.

  Lemma tok_symbol_nonascii fuel r b0 conts s' rest :
    127 < b0 -> lead_ok b0 = true -> length conts = cont_len b0 -> utf8_valid (b0 :: conts) = true ->
    alpha (utf8_decode_head (b0 :: conts)) = true ->
    (length s' < fuel)%nat -> no_terminator s' -> at_terminator rest -> symbol_ok ((b0 :: conts) ++ s') ->
    at_bytes r ((b0 :: conts) ++ s' ++ rest) -> peeked r ->
    exists r', parse_token fuel b0 r = (Ok (TSymbol ((b0 :: conts) ++ s')), r') /\ at_bytes r' rest /\ rk r' = rk r.
  Proof.
    intros Hhi Hlead Hlen Hv Hal Hf Hn Ht Hok Ha Hp. rewrite (token_high fuel b0 Hhi). unfold high_arm.
    cbn [app] in Ha. step.
    assert (Ed : exists r1, decode_utf8_sequence_b b0 r0 = (Ok (b0 :: conts, utf8_decode_head (b0 :: conts)), r1) /\
                            at_bytes r1 (s' ++ rest) /\ rk r1 = rk r0).
    { unfold decode_utf8_sequence_b. unfold lead_ok in Hlead. rewrite Hlead. cbv zeta.
      fold (cont_len b0). rewrite <- Hlen.
      destruct (take_bytes_spec conts [b0] r0 (s' ++ rest) Ha0) as (r1 & E1 & Ha1 & Hk1).
      rewrite (bind_ok _ _ _ _ _ E1). cbn [app]. rewrite Hv. exists r1. unfold ret. auto. }
    destruct Ed as (r1 & E1 & Ha1 & Hk1). rewrite (bind_ok _ _ _ _ _ E1). cbn [fst snd]. rewrite Hal. cbn [negb].
    unfold parse_symbol_suffix.
    destruct (parse_symbol_spec s' fuel (b0 :: conts) rest r1 Hf Hn Ht Ha1 Hok) as (r2 & E2 & Ha2 & Hk2 & _).
    rewrite (bind_ok _ _ _ _ _ E2). exists r2. unfold ret. repeat split; auto; congruence.
  Qed.

End Tokens.
