(* C06: the error is the I/O error unless the delivered prefix already
   determines the outcome. Two streams that agree on a prefix `pre`: in one the
   prefix is followed by a hard failure e (and anything after it), in the other
   by any continuation `cont`. Reading both side by side, every function of the
   parser either - on the failing stream - ends in the I/O error e, or returns
   the same result on both and leaves the readers at the same place inside the
   prefix. At the entry points: from_reader on the failing stream returns the
   I/O error e, or it returns exactly what it returns on pre ++ cont for EVERY
   cont - the prefix determines the result. *)
From Coq Require Import SpecFloat Lia ZifyBool ZifyNat ZifyN.
Require Import Base Value Float PrintOptions ParseOptions Utf8 Reader Scan Num NumberOps Parser.
Require Import RelFramework.

Lemma skip_split suf X :
  (skip_intr suf = [] /\ skip_intr (suf ++ X) = skip_intr X) \/
  (exists ev s', skip_intr suf = ev :: s' /\ ev <> EInterrupted /\ skip_intr (suf ++ X) = ev :: s' ++ X).
Proof.
  induction suf as [|[b| |e0] s IH]; cbn [skip_intr app].
  - left. split; reflexivity.
  - right. exists (EByte b), s. repeat split; try reflexivity. discriminate.
  - exact IH.
  - right. exists (EFail e0), s. repeat split; try reflexivity. discriminate.
Qed.

Create HintDb sdb.
Section IoFail.
  Variable ioe : N.
  Variable post cnt : list event.

  (* r1 reads pre ++ cnt, r2 reads pre ++ EFail ioe :: post; both are somewhere inside pre *)
  Definition srel (r1 r2 : reader) : Prop :=
    rk r1 = SrcIo /\ rk r2 = SrcIo /\ rline r1 = rline r2 /\ rcol r1 = rcol r2 /\ rpending r1 = rpending r2 /\
    exists suf, rinput r1 = suf ++ cnt /\ rinput r2 = suf ++ EFail ioe :: post /\
                (rpending r2 = true -> exists b s', suf = EByte b :: s').

  Definition esc {A} (x : res A) : Prop :=
    match x with Err EFuel => True | Err (EIo e') => e' = ioe | _ => False end.
  Definition sc {A} (m : M A) (r1 r2 : reader) : Prop :=
    esc (fst (m r2)) \/ (fst (m r1) = fst (m r2) /\ srel (snd (m r1)) (snd (m r2))).
  Definition sx {A} (m : M A) : Prop := forall r1 r2, srel r1 r2 -> sc m r1 r2.

  Lemma sx_ret {A} (a : A) : sx (ret a).
  Proof. intros r1 r2 H. right. split; [reflexivity|exact H]. Qed.
  Lemma sx_fuel {A} : sx (@out_of_fuel A).
  Proof. intros r1 r2 H. left. exact I. Qed.
  Lemma mk_srel ln cl p suf : (p = true -> exists b s', suf = EByte b :: s') ->
    srel {| rk := SrcIo; rline := ln; rcol := cl; rpending := p; rinput := suf ++ cnt |}
         {| rk := SrcIo; rline := ln; rcol := cl; rpending := p; rinput := suf ++ EFail ioe :: post |}.
  Proof.
    intros H. unfold srel. cbn [rk rline rcol rpending rinput]. repeat (split; [reflexivity|]).
    exists suf. split; [reflexivity|]. split; [reflexivity|exact H].
  Qed.
  Lemma has_head b s' : true = true -> exists b0 s0, EByte b :: s' = EByte b0 :: s0.
  Proof. intros _. exists b, s'. reflexivity. Qed.
  Lemma no_head (suf : list event) : false = true -> exists b0 s0, suf = EByte b0 :: s0.
  Proof. intros H; discriminate H. Qed.

  Lemma sx_peek : sx peek.
  Proof.
    intros [k1 ln1 cl1 p1 i1] [k2 ln2 cl2 p2 i2] (K1 & K2 & L & C & P & suf & I1 & I2 & Hp). cbn [rk rline rcol rpending rinput] in *. subst.
    unfold sc, peek, r_peek. cbn [rpending rinput rk rline rcol]. destruct p2.
    - destruct (Hp eq_refl) as (b & s' & ->). cbn [app fst snd]. right. split; [reflexivity|].
      apply (mk_srel ln2 cl2 true (EByte b :: s')). apply has_head.
    - destruct (skip_split suf (EFail ioe :: post)) as [[Es E2]|(ev & s' & Es & Hne & E2)].
      + left. rewrite E2. cbn [skip_intr fst esc]. reflexivity.
      + destruct (skip_split suf cnt) as [[Es' _]|(ev' & s'' & Es' & _ & E1)]; [rewrite Es in Es'; discriminate|].
        rewrite Es in Es'. inversion Es'; subst ev' s''. rewrite E1, E2. right.
        destruct ev as [b| |e0]; [| contradiction |]; cbn [fst snd]; (split; [reflexivity|]).
        * apply (mk_srel ln2 cl2 true (EByte b :: s')). apply has_head.
        * apply (mk_srel ln2 cl2 false s'). apply no_head.
  Qed.
  Lemma consume_srel ln cl b s' :
    srel (let '(ln', cl') := advance ln cl b in {| rk := SrcIo; rline := ln'; rcol := cl'; rpending := false; rinput := s' ++ cnt |})
         (let '(ln', cl') := advance ln cl b in {| rk := SrcIo; rline := ln'; rcol := cl'; rpending := false; rinput := s' ++ EFail ioe :: post |}).
  Proof. destruct (advance ln cl b) as [l2 c2]. apply (mk_srel l2 c2 false s'). apply no_head. Qed.
  Lemma sx_next : sx next_char.
  Proof.
    intros [k1 ln1 cl1 p1 i1] [k2 ln2 cl2 p2 i2] (K1 & K2 & L & C & P & suf & I1 & I2 & Hp). cbn [rk rline rcol rpending rinput] in *. subst.
    unfold sc, next_char, r_next. cbn [rpending rinput rk rline rcol]. destruct p2.
    - destruct (Hp eq_refl) as (b & s' & ->). cbn [app fst snd]. right. split; [reflexivity|].
      unfold consume. cbn [rk rline rcol]. apply consume_srel.
    - destruct (skip_split suf (EFail ioe :: post)) as [[Es E2]|(ev & s' & Es & Hne & E2)].
      + left. rewrite E2. cbn [skip_intr fst esc]. reflexivity.
      + destruct (skip_split suf cnt) as [[Es' _]|(ev' & s'' & Es' & _ & E1)]; [rewrite Es in Es'; discriminate|].
        rewrite Es in Es'. inversion Es'; subst ev' s''. rewrite E1, E2. right.
        destruct ev as [b| |e0]; [| contradiction |]; cbn [fst snd]; (split; [reflexivity|]).
        * unfold consume. cbn [rk rline rcol]. apply consume_srel.
        * apply (mk_srel ln2 cl2 false s'). apply no_head.
  Qed.
  Lemma discard_srel r1 r2 : srel r1 r2 -> srel (r_discard r1) (r_discard r2).
  Proof.
    destruct r1 as [k1 ln1 cl1 p1 i1], r2 as [k2 ln2 cl2 p2 i2]. intros (K1 & K2 & L & C & P & suf & I1 & I2 & Hp).
    cbn [rk rline rcol rpending rinput] in *. subst. unfold r_discard. cbn [rk rpending rinput]. destruct p2.
    - destruct (Hp eq_refl) as (b & s' & ->). cbn [app]. unfold consume. cbn [rk rline rcol]. apply consume_srel.
    - apply (mk_srel ln2 cl2 false suf). apply no_head.
  Qed.
  Lemma sx_eat : sx eat_char.
  Proof. intros r1 r2 H. right. unfold eat_char. cbn [fst snd]. split; [reflexivity|apply discard_srel; exact H]. Qed.
  Lemma peek_position_srel r1 r2 : srel r1 r2 -> r_peek_position r1 = r_peek_position r2.
  Proof.
    intros (K1 & K2 & L & C & P & suf & I1 & I2 & Hp). unfold r_peek_position. rewrite K1, K2, P, L, C.
    destruct (rpending r2); [|reflexivity]. destruct (Hp eq_refl) as (b & s' & ->). rewrite I1, I2. reflexivity.
  Qed.
  Lemma sx_error {A} c : sx (@error A c).
  Proof.
    intros r1 r2 H. right. pose proof H as (K1 & K2 & L & C & _). unfold error, r_position. rewrite L, C. cbn [fst snd]. split; [reflexivity|exact H].
  Qed.
  Lemma sx_peek_error {A} c : sx (@peek_error A c).
  Proof.
    intros r1 r2 H. right. unfold peek_error. rewrite (peek_position_srel r1 r2 H). destruct (r_peek_position r2). cbn [fst snd]. split; [reflexivity|exact H].
  Qed.
  Lemma sx_error_consume {A} c : sx (@error_consume A c).
  Proof.
    intros r1 r2 H. right. unfold error_consume, peek_error. rewrite (peek_position_srel r1 r2 H). destruct (r_peek_position r2). cbn [fst snd].
    split; [reflexivity|apply discard_srel; exact H].
  Qed.
  Lemma sx_position : sx position.
  Proof.
    intros r1 r2 H. right. pose proof H as (K1 & K2 & L & C & _). unfold position, r_position. rewrite L, C. cbn [fst snd]. split; [reflexivity|exact H].
  Qed.

Lemma sx_bind {A B} (m : M A) (f : A -> M B) : sx m -> (forall a, sx (f a)) -> sx (bind m f).
Proof.
  intros Hm Hf r1 r2 H. unfold sc, bind. destruct (Hm r1 r2 H) as [E|[E Hr]].
  - left. destruct (m r2) as [[a|e] r2']; cbn [fst esc] in *; [contradiction|exact E].
  - destruct (m r1) as [[a1|e1] r1']; destruct (m r2) as [[a2|e2] r2']; cbn [fst snd] in *; try discriminate.
    + inversion E; subst a2. apply Hf. exact Hr.
    + right. split; [inversion E; reflexivity|exact Hr].
Qed.
Lemma sx_ext {A} (m m' : M A) : (forall r, m r = m' r) -> sx m' -> sx m.
Proof. intros E H r1 r2 Hr. unfold sc. rewrite !E. apply H. exact Hr. Qed.


Ltac sx_step :=
  first
    [ first [apply sx_ret | apply sx_fuel | apply sx_peek | apply sx_next | apply sx_eat
            | apply sx_error | apply sx_peek_error | apply sx_error_consume | apply sx_position ]
    | solve [eauto 3 with sdb]
    | apply sx_bind; [|intros ?]
    | match goal with
      | |- sx (match ?x with _ => _ end) => destruct x
      | |- sx (if ?x then _ else _) => destruct x
      | |- sx (let '(_, _) := ?x in _) => destruct x
      end ].
Ltac sx_auto := repeat sx_step.

Lemma sx_peek_or_null : sx peek_or_null.
Proof. unfold peek_or_null. sx_auto. Qed.
Lemma sx_next_or_eof : sx next_or_eof.
Proof. unfold next_or_eof. sx_auto. Qed.
Lemma sx_next_or_eof_char : sx next_or_eof_char.
Proof. unfold next_or_eof_char. sx_auto. Qed.
Lemma sx_as_str b : sx (Scan.as_str b).
Proof. unfold Scan.as_str. sx_auto. Qed.
#[local] Hint Resolve sx_peek_or_null sx_next_or_eof sx_next_or_eof_char sx_as_str : sdb.





Lemma sx_scan_symbol_io fuel : forall scratch, sx (scan_symbol_io fuel scratch).
Proof. induction fuel as [|f IH]; intros scratch; cbn [scan_symbol_io]; sx_auto. Qed.
Lemma sx_parse_symbol_rd fuel scratch : sx (parse_symbol_rd fuel scratch).
Proof.
  intros r1 r2 H. pose proof H as (K1 & K2 & _). unfold sc, parse_symbol_rd. rewrite K1, K2.
  pose proof sx_scan_symbol_io. assert (Hs : sx (b <- scan_symbol_io fuel scratch ;; Scan.as_str b)) by sx_auto. apply Hs. exact H.
Qed.
#[local] Hint Resolve sx_parse_symbol_rd : sdb.

Lemma sx_hex_escape_loop fuel : forall x, sx (hex_escape_loop fuel x).
Proof. induction fuel as [|f IH]; intros x; cbn [hex_escape_loop]; sx_auto. Qed.
Lemma sx_parse_r6rs_escape fuel : sx (parse_r6rs_escape fuel).
Proof. pose proof sx_hex_escape_loop. unfold parse_r6rs_escape, decode_r6rs_hex_escape. sx_auto. Qed.
#[local] Hint Resolve sx_parse_r6rs_escape : sdb.


Lemma sx_r6rs_str_io fuel : forall scratch, sx (r6rs_str_io fuel scratch).
Proof. induction fuel as [|f IH]; intros scratch; cbn [r6rs_str_io]; sx_auto. Qed.
Lemma sx_parse_r6rs_str_rd fuel : sx (parse_r6rs_str_rd fuel).
Proof.
  intros r1 r2 H. pose proof H as (K1 & K2 & _). unfold sc, parse_r6rs_str_rd. rewrite K1, K2.
  pose proof sx_r6rs_str_io. assert (Hs : sx (b <- r6rs_str_io fuel [] ;; Scan.as_str b)) by sx_auto. apply Hs. exact H.
Qed.
#[local] Hint Resolve sx_parse_r6rs_str_rd : sdb.

Lemma sx_elisp_hex_loop fuel : forall x, sx (elisp_hex_loop fuel x).
Proof. induction fuel as [|f IH]; intros x; cbn [elisp_hex_loop]; sx_auto. Qed.
Lemma sx_decode_elisp_uni_escape k : forall x, sx (decode_elisp_uni_escape k x).
Proof. induction k as [|k IH]; intros x; cbn [decode_elisp_uni_escape]; sx_auto. Qed.
Lemma sx_elisp_octal_loop fuel : forall x, sx (elisp_octal_loop fuel x).
Proof. induction fuel as [|f IH]; intros x; cbn [elisp_octal_loop]; sx_auto. Qed.
Lemma sx_elisp_char_escape_of x : sx (elisp_char_escape_of x).
Proof. unfold elisp_char_escape_of. sx_auto. Qed.
Lemma sx_elisp_uni_escape_of x : sx (elisp_uni_escape_of x).
Proof. unfold elisp_uni_escape_of. sx_auto. Qed.
#[local] Hint Resolve sx_elisp_hex_loop sx_decode_elisp_uni_escape sx_elisp_octal_loop sx_elisp_char_escape_of sx_elisp_uni_escape_of : sdb.
Lemma sx_parse_elisp_escape fuel : sx (parse_elisp_escape fuel).
Proof. unfold parse_elisp_escape, decode_elisp_hex_escape, decode_elisp_octal_escape. sx_auto. Qed.
#[local] Hint Resolve sx_parse_elisp_escape : sdb.
Lemma sx_elisp_finish fl scratch : sx (elisp_finish fl scratch).
Proof. unfold elisp_finish. sx_auto. Qed.
#[local] Hint Resolve sx_elisp_finish : sdb.


Lemma sx_elisp_str_io fuel : forall fl scratch, sx (elisp_str_io fuel fl scratch).
Proof. induction fuel as [|f IH]; intros fl scratch; cbn [elisp_str_io]; cbv zeta; sx_auto. Qed.
Lemma sx_parse_elisp_str_rd fuel : sx (parse_elisp_str_rd fuel).
Proof.
  intros r1 r2 H. pose proof H as (K1 & K2 & _). unfold sc, parse_elisp_str_rd. cbv zeta. rewrite K1, K2.
  apply sx_elisp_str_io. exact H.
Qed.
#[local] Hint Resolve sx_parse_elisp_str_rd : sdb.

Lemma sx_take_bytes k : forall acc, sx (take_bytes k acc).
Proof. induction k as [|k IH]; intros acc; cbn [take_bytes]; sx_auto. Qed.
#[local] Hint Resolve sx_take_bytes : sdb.
Lemma sx_decode_utf8_sequence_b c : sx (decode_utf8_sequence_b c).
Proof. unfold decode_utf8_sequence_b. sx_auto. Qed.
#[local] Hint Resolve sx_decode_utf8_sequence_b : sdb.
Lemma sx_decode_utf8_sequence c : sx (decode_utf8_sequence c).
Proof. unfold decode_utf8_sequence. sx_auto. Qed.
#[local] Hint Resolve sx_decode_utf8_sequence : sdb.
Lemma sx_r6rs_char_hex_loop fuel : forall x first, sx (r6rs_char_hex_loop fuel x first).
Proof. induction fuel as [|f IH]; intros x first; cbn [r6rs_char_hex_loop]; sx_auto. Qed.
Lemma sx_char_name_loop fuel : forall scratch, sx (char_name_loop fuel scratch).
Proof. induction fuel as [|f IH]; intros scratch; cbn [char_name_loop]; sx_auto. Qed.
Lemma sx_open_ended_char x : sx (open_ended_char x).
Proof. unfold open_ended_char. sx_auto. Qed.
#[local] Hint Resolve sx_r6rs_char_hex_loop sx_char_name_loop sx_open_ended_char : sdb.
Lemma sx_parse_r6rs_char fuel : sx (parse_r6rs_char fuel).
Proof. unfold parse_r6rs_char. sx_auto. Qed.
#[local] Hint Resolve sx_parse_r6rs_char : sdb.
Lemma sx_as_char x : sx (Scan.as_char x).
Proof. unfold Scan.as_char. sx_auto. Qed.
#[local] Hint Resolve sx_as_char : sdb.
Lemma sx_decode_elisp_char_escape fuel : sx (decode_elisp_char_escape fuel).
Proof. unfold decode_elisp_char_escape, decode_elisp_hex_escape, decode_elisp_octal_escape. sx_auto. Qed.
#[local] Hint Resolve sx_decode_elisp_char_escape : sdb.
Lemma sx_parse_elisp_char fuel : sx (parse_elisp_char fuel).
Proof. unfold parse_elisp_char. sx_auto. Qed.
#[local] Hint Resolve sx_parse_elisp_char : sdb.

(* ---- numbers: neither reader looks at its kind ---- *)
Section NumIo.
  Variable fast : bool.
  Variable std_parse : N -> Z -> f64.

  Lemma sx_fast_loop fuel : forall f e, sx (f64_from_parts_fast_loop fuel f e).
  Proof. induction fuel as [|k IH]; intros f e; cbn [f64_from_parts_fast_loop]; sx_auto. Qed.
  Lemma sx_f64_from_parts pos sig e : sx (f64_from_parts fast std_parse pos sig e).
  Proof. pose proof sx_fast_loop. unfold f64_from_parts. cbv zeta. sx_auto. Qed.
  Hint Resolve sx_f64_from_parts : sdb.
  Lemma sx_skip_digits fuel : sx (skip_digits fuel).
  Proof. induction fuel as [|f IH]; cbn [skip_digits]; sx_auto. Qed.
  Hint Resolve sx_skip_digits : sdb.
  Lemma sx_parse_exponent_overflow fuel p s pe : sx (parse_exponent_overflow fuel p s pe).
  Proof. unfold parse_exponent_overflow. sx_auto. Qed.
  Hint Resolve sx_parse_exponent_overflow : sdb.
  Lemma sx_exponent_digits fuel : forall p s pe se e, sx (exponent_digits fast std_parse fuel p s pe se e).
  Proof. induction fuel as [|f IH]; intros p s pe se e; cbn [exponent_digits]; cbv zeta; sx_auto. Qed.
  Hint Resolve sx_exponent_digits : sdb.
  Lemma sx_parse_exponent fuel p s se : sx (parse_exponent fast std_parse fuel p s se).
  Proof. unfold parse_exponent. sx_auto. Qed.
  Hint Resolve sx_parse_exponent : sdb.
  Lemma sx_decimal_digits fuel : forall s e o, sx (decimal_digits fuel s e o).
  Proof. induction fuel as [|f IH]; intros s e o; cbn [decimal_digits]; cbv zeta; sx_auto. Qed.
  Hint Resolve sx_decimal_digits : sdb.
  Lemma sx_parse_decimal fuel p s e : sx (parse_decimal fast std_parse fuel p s e).
  Proof. unfold parse_decimal. sx_auto. Qed.
  Hint Resolve sx_parse_decimal : sdb.
  Lemma sx_parse_long_integer fuel : forall radix p s e, sx (parse_long_integer fast std_parse fuel radix p s e).
  Proof. induction fuel as [|f IH]; intros radix p s e; cbn [parse_long_integer]; cbv zeta; sx_auto. Qed.
  Hint Resolve sx_parse_long_integer : sdb.
  Lemma sx_parse_num_tail fuel radix p s : sx (parse_num_tail fast std_parse fuel radix p s).
  Proof. unfold parse_num_tail. sx_auto. Qed.
  Hint Resolve sx_parse_num_tail : sdb.
  Lemma sx_num_literal_loop fuel : forall radix p s, sx (num_literal_loop fast std_parse fuel radix p s).
  Proof. induction fuel as [|f IH]; intros radix p s; cbn [num_literal_loop]; sx_auto. Qed.
  Hint Resolve sx_num_literal_loop : sdb.
  Lemma sx_parse_num_literal fuel radix p : sx (parse_num_literal fast std_parse fuel radix p).
  Proof. unfold parse_num_literal. sx_auto. Qed.
End NumIo.
#[local] Hint Resolve sx_f64_from_parts sx_skip_digits sx_parse_exponent_overflow sx_exponent_digits sx_parse_exponent
  sx_decimal_digits sx_parse_decimal sx_parse_long_integer sx_parse_num_tail sx_num_literal_loop sx_parse_num_literal : sdb.

(* ---- tokens ---- *)
Section TokenIo.
  Variable ro : parse_options.
  Variable alpha : N -> bool.
  Variable fast : bool.
  Variable std_parse : N -> Z -> f64.

  Lemma sx_parse_num_token fuel radix p : sx (parse_num_token fast std_parse fuel radix p).
  Proof. unfold parse_num_token. sx_auto. Qed.
  Hint Resolve sx_parse_num_token : sdb.
  Lemma sx_parse_radix_literal fuel radix : sx (parse_radix_literal fast std_parse fuel radix).
  Proof. unfold parse_radix_literal. sx_auto. Qed.
  Hint Resolve sx_parse_radix_literal : sdb.
  Lemma sx_parse_number fuel : sx (parse_number fast std_parse fuel).
  Proof. unfold parse_number. sx_auto. Qed.
  Hint Resolve sx_parse_number : sdb.
  Lemma sx_skip_comment fuel : sx (skip_comment fuel).
  Proof. induction fuel as [|f IH]; cbn [skip_comment]; sx_auto. Qed.
  Hint Resolve sx_skip_comment : sdb.
  Lemma sx_parse_whitespace fuel : sx (parse_whitespace fuel).
  Proof. induction fuel as [|f IH]; cbn [parse_whitespace]; sx_auto. Qed.
  Hint Resolve sx_parse_whitespace : sdb.
  Lemma sx_parse_symbol fuel : sx (parse_symbol fuel).
  Proof. unfold parse_symbol. sx_auto. Qed.
  Lemma sx_parse_symbol_suffix fuel p : sx (parse_symbol_suffix fuel p).
  Proof. unfold parse_symbol_suffix. sx_auto. Qed.
  Hint Resolve sx_parse_symbol sx_parse_symbol_suffix : sdb.
  Lemma sx_expect_ident ident : sx (expect_ident ident).
  Proof. induction ident as [|c ident IH]; cbn [expect_ident]; sx_auto. Qed.
  Hint Resolve sx_expect_ident : sdb.
  Lemma sx_parse_token fuel b : sx (parse_token ro alpha fast std_parse fuel b).
  Proof. unfold parse_token. fold (@error_consume token ExpectedSomeValue). sx_auto. Qed.
  Lemma sx_end_seq fuel close : sx (end_seq fuel close).
  Proof. unfold end_seq. sx_auto. Qed.
  Lemma sx_expect_end fuel : sx (expect_end fuel).
  Proof. unfold expect_end. sx_auto. Qed.
  Lemma sx_byte_list_loop fuel : forall close acc, sx (byte_list_loop fast std_parse fuel close acc).
  Proof. induction fuel as [|f IH]; intros close acc; cbn [byte_list_loop]; sx_auto. Qed.
  Lemma sx_parse_byte_list fuel close : sx (parse_byte_list fast std_parse fuel close).
  Proof. pose proof sx_byte_list_loop. unfold parse_byte_list. sx_auto. Qed.
End TokenIo.

(* ---- the parser proper ---- *)
Definition sprel (s1 s2 : pstate) : Prop := srel (rd s1) (rd s2) /\ depth s1 = depth s2.
(* the ways the failing run may part company: out of fuel, the I/O error e, or
   a panic (fuel and panics are excluded for whole parses by C03) *)
Definition pesc {A} (x : pres A) : Prop :=
  match x with
  | PErr (XErr EFuel) => True
  | PErr (XErr (EIo e')) => e' = ioe
  | PErr (XPanic _) => True
  | _ => False
  end.
Definition is_pok {A} (x : pres A) : Prop := match x with POk _ => True | _ => False end.
(* same result and same depth; the readers still agree as long as the result
   is a value (after an error the cleanup that remains looks at the input only
   to produce a second error, which the first one hides) *)
Definition psc {A} (m : PM A) (s1 s2 : pstate) : Prop :=
  pesc (fst (m s2)) \/ fst (m s1) = PErr (XErr EFuel) \/
  (fst (m s1) = fst (m s2) /\ depth (snd (m s1)) = depth (snd (m s2)) /\
   (is_pok (fst (m s2)) -> srel (rd (snd (m s1))) (rd (snd (m s2))))).
Definition psx {A} (m : PM A) : Prop := forall s1 s2, sprel s1 s2 -> psc m s1 s2.

Lemma esc_pesc {A} (e : perr) : esc (@Err A e) -> pesc (@PErr A (XErr e)).
Proof. destruct e as [c l cl|io|]; cbn [esc pesc]; auto. Qed.

Lemma psx_pret {A} (a : A) : psx (pret a).
Proof. intros s1 s2 [Hr Hd]. right. right. cbn [pret fst snd]. split; [reflexivity|split; [exact Hd|intros _; exact Hr]]. Qed.
Lemma psx_panic {A} k : psx (@panic A k).
Proof. intros s1 s2 H. left. exact I. Qed.
Lemma psx_fuel {A} : psx (@pfail A (XErr EFuel)).
Proof. intros s1 s2 H. left. exact I. Qed.
Lemma psx_liftR {A} (m : M A) : sx m -> psx (liftR m).
Proof.
  intros Hm s1 s2 [Hr Hd]. unfold psc, liftR. destruct (Hm (rd s1) (rd s2) Hr) as [E|[E Hr']].
  - left. destruct (m (rd s2)) as [[a|e] r2']; cbn [fst] in *; [contradiction|]. apply esc_pesc. exact E.
  - right. right. destruct (m (rd s1)) as [[a1|e1] r1']; destruct (m (rd s2)) as [[a2|e2] r2']; cbn [fst snd rd depth] in *; try discriminate;
      inversion E; subst; (split; [reflexivity|split; [exact Hd|intros _; exact Hr']]).
Qed.
Lemma psx_bind {A B} (m : PM A) (f : A -> PM B) : psx m -> (forall a, psx (f a)) -> psx (pbind m f).
Proof.
  intros Hm Hf s1 s2 H. unfold psc. rewrite !pbind_unfold. destruct (Hm s1 s2 H) as [E|[E|(E & Hd & Hr)]].
  - left. destruct (m s2) as [[a|[e|k]] s2']; cbn [fst pesc] in *; [contradiction|exact E|exact E].
  - right. left. destruct (m s1) as [[a|x] s1']; cbn [fst] in *; [discriminate|]. inversion E. reflexivity.
  - destruct (m s1) as [[a1|x1] s1']; destruct (m s2) as [[a2|x2] s2']; cbn [fst snd] in *; try discriminate.
    + inversion E; subst a2. apply Hf. split; [apply Hr; exact I|exact Hd].
    + inversion E; subst x2. right. right. cbn [fst snd is_pok]. split; [reflexivity|split; [exact Hd|intros []]].
Qed.
Lemma psx_get_depth : psx get_depth.
Proof. intros s1 s2 [Hr Hd]. right. right. unfold get_depth. cbn [fst snd]. rewrite Hd. split; [reflexivity|split; [reflexivity|intros _; exact Hr]]. Qed.
Lemma psx_set_depth d : psx (set_depth d).
Proof. intros s1 s2 [Hr Hd]. right. right. unfold set_depth. cbn [fst snd rd depth]. split; [reflexivity|split; [reflexivity|intros _; exact Hr]]. Qed.
Lemma psx_dec_depth : psx dec_depth.
Proof. unfold dec_depth. apply psx_bind; [apply psx_get_depth|]. intros d. destruct (d =? 0); [apply psx_panic|apply psx_set_depth]. Qed.
Lemma psx_inc_depth : psx inc_depth.
Proof. unfold inc_depth. apply psx_bind; [apply psx_get_depth|]. intros d. destruct (255 <=? d); [apply psx_panic|apply psx_set_depth]. Qed.
Lemma psx_err {A} c : psx (liftR (@peek_error A c)).
Proof. apply psx_liftR. apply sx_peek_error. Qed.
Lemma psx_enter_nesting : psx enter_nesting.
Proof.
  unfold enter_nesting. apply psx_bind; [apply psx_dec_depth|]. intros _. apply psx_bind; [apply psx_get_depth|]. intros d.
  destruct (d =? 0); [|apply psx_pret]. apply psx_bind; [apply psx_inc_depth|]. intros _. apply psx_err.
Qed.

(* ---- the cleanup after a nested form ---- *)
Definition seq_cont {A B} (endm : M unit) (k : A -> PM B) (r : res A) : PM B :=
  pbind inc_depth (fun _ => pbind (attempt (liftR endm)) (fun e => pbind (both r e) k)).
Definition quote_cont {A B} (k : A -> PM B) (r : res A) : PM B :=
  pbind inc_depth (fun _ => pbind (lift r) k).

(* once the body has failed, the failure is what comes out, whatever the input looks like *)
Lemma seq_cont_err {A B} (endm : M unit) (k : A -> PM B) x s :
  ((255 <=? depth s) = true /\ fst (seq_cont endm k (Err x) s) = PErr (XPanic 2)) \/
  ((255 <=? depth s) = false /\ depth (snd (seq_cont endm k (Err x) s)) = depth s + 1 /\
   (fst (seq_cont endm k (Err x) s) = PErr (XErr x) \/ fst (seq_cont endm k (Err x) s) = PErr (XErr EFuel))).
Proof.
  unfold seq_cont, inc_depth. rewrite !pbind_unfold. unfold get_depth. cbn [fst snd].
  destruct (255 <=? depth s) eqn:E.
  - left. split; [reflexivity|]. reflexivity.
  - right. split; [reflexivity|]. cbn [set_depth]. rewrite !pbind_unfold, attempt_unfold. unfold liftR. cbn [rd depth].
    destruct (endm (rd s)) as [[u|e] r']; cbn [fst snd].
    + rewrite pbind_unfold. cbn [both pfail fst snd depth]. split; [reflexivity|left; reflexivity].
    + destruct e as [c l cl|io|]; rewrite ?pbind_unfold; cbn [both pfail fst snd depth]; (split; [reflexivity|]); auto.
Qed.
Lemma quote_cont_err {A B} (k : A -> PM B) x s :
  ((255 <=? depth s) = true /\ fst (quote_cont k (Err x) s) = PErr (XPanic 2)) \/
  ((255 <=? depth s) = false /\ depth (snd (quote_cont k (Err x) s)) = depth s + 1 /\
   fst (quote_cont k (Err x) s) = PErr (XErr x)).
Proof.
  unfold quote_cont, inc_depth. rewrite !pbind_unfold. unfold get_depth. cbn [fst snd].
  destruct (255 <=? depth s) eqn:E.
  - left. split; reflexivity.
  - right. split; [reflexivity|]. cbn [set_depth]. rewrite !pbind_unfold. cbn [lift pfail fst snd depth]. split; reflexivity.
Qed.

Lemma psx_seq_cont_ok {A B} (endm : M unit) (k : A -> PM B) a : sx endm -> (forall a, psx (k a)) -> psx (seq_cont endm k (Ok a)).
Proof.
  intros He Hk. unfold seq_cont. apply psx_bind; [apply psx_inc_depth|]. intros _.
  intros s1 s2 H. unfold psc. rewrite !pbind_unfold, !attempt_unfold.
  destruct (psx_liftR endm He s1 s2 H) as [E|[E|(E & Hd & Hr)]].
  - left. destruct (liftR endm s2) as [[u|[e|kk]] s2']; cbn [fst pesc] in E; try contradiction; [|exact I].
    destruct e as [c l cl|io|]; try contradiction; [|exact I].
    cbn [fst snd]. rewrite pbind_unfold. cbn [both pfail fst pesc]. exact E.
  - right. left. destruct (liftR endm s1) as [[u|x] s1']; cbn [fst] in E; [discriminate|]. inversion E. reflexivity.
  - destruct (liftR endm s1) as [[u1|x1] s1']; destruct (liftR endm s2) as [[u2|x2] s2']; cbn [fst snd] in *; try discriminate.
    + rewrite !pbind_unfold. cbn [both pret]. apply Hk. split; [apply Hr; exact I|exact Hd].
    + inversion E; subst x2. destruct x1 as [e|kk]; [|left; exact I]. destruct e as [c l cl|io|]; [| |left; exact I];
        cbn [fst snd]; rewrite !pbind_unfold; cbn [both pfail fst snd]; right; right; (split; [reflexivity|split; [exact Hd|intros []]]).
Qed.
Lemma psx_quote_cont_ok {A B} (k : A -> PM B) a : (forall a, psx (k a)) -> psx (quote_cont k (Ok a)).
Proof. intros Hk. unfold quote_cont. apply psx_bind; [apply psx_inc_depth|]. intros _. apply psx_bind; [apply psx_pret|exact Hk]. Qed.

Lemma psx_nest_gen {A B} (body : PM A) (cont : res A -> PM B) :
  psx body -> (forall a, psx (cont (Ok a))) ->
  (forall x s, ((255 <=? depth s) = true /\ fst (cont (Err x) s) = PErr (XPanic 2)) \/
               ((255 <=? depth s) = false /\ depth (snd (cont (Err x) s)) = depth s + 1 /\
                (fst (cont (Err x) s) = PErr (XErr x) \/ fst (cont (Err x) s) = PErr (XErr EFuel)))) ->
  psx (pbind (attempt body) cont).
Proof.
  intros Hb Hok Herr s1 s2 H. unfold psc. rewrite !pbind_unfold, !attempt_unfold.
  destruct (Hb s1 s2 H) as [E|[E|(E & Hd & Hr)]].
  - left. destruct (body s2) as [[a|[e|kk]] s2']; cbn [fst pesc] in E; try contradiction; [|exact I].
    destruct e as [c l cl|io|]; try contradiction; [|exact I].
    cbn [fst snd]. destruct (Herr (EIo io) s2') as [[_ E2]|(_ & _ & [E2|E2])]; rewrite E2; cbn [pesc]; first [exact I|exact E].
  - right. left. destruct (body s1) as [[a|x] s1']; cbn [fst] in E; [discriminate|]. inversion E. reflexivity.
  - destruct (body s1) as [[a1|x1] s1']; destruct (body s2) as [[a2|x2] s2']; cbn [fst snd] in *; try discriminate.
    + inversion E; subst a2. apply Hok. split; [apply Hr; exact I|exact Hd].
    + inversion E; subst x2. destruct x1 as [e|kk]; [|left; exact I].
      destruct e as [c l cl|io|]; [| |left; exact I]; cbn [fst snd].
      * destruct (Herr (ESyntax c l cl) s2') as [[_ E2]|(P2 & D2 & [E2|E2])]; [left; rewrite E2; exact I| |left; rewrite E2; exact I].
        destruct (Herr (ESyntax c l cl) s1') as [[P1 _]|(_ & D1 & [E1|E1])]; [rewrite Hd, P2 in P1; discriminate| |right; left; exact E1].
        right. right. rewrite E1, E2, D1, D2, Hd. split; [reflexivity|split; [reflexivity|intros []]].
      * destruct (Herr (EIo io) s2') as [[_ E2]|(P2 & D2 & [E2|E2])]; [left; rewrite E2; exact I| |left; rewrite E2; exact I].
        destruct (Herr (EIo io) s1') as [[P1 _]|(_ & D1 & [E1|E1])]; [rewrite Hd, P2 in P1; discriminate| |right; left; exact E1].
        right. right. rewrite E1, E2, D1, D2, Hd. split; [reflexivity|split; [reflexivity|intros []]].
Qed.

Lemma psx_nest_seq {A B} (body : PM A) (endm : M unit) (k : A -> PM B) :
  psx body -> sx endm -> (forall a, psx (k a)) ->
  psx (pbind (attempt body) (fun r =>
       pbind inc_depth (fun _ =>
       pbind (attempt (liftR endm)) (fun e =>
       pbind (both r e) k)))).
Proof.
  intros Hb He Hk. apply (psx_nest_gen body (seq_cont endm k)); [exact Hb| |].
  - intros a. apply psx_seq_cont_ok; assumption.
  - intros x s. apply seq_cont_err.
Qed.
Lemma psx_nest_quote {A B} (body : PM A) (k : A -> PM B) :
  psx body -> (forall a, psx (k a)) ->
  psx (pbind (attempt body) (fun r => pbind inc_depth (fun _ => pbind (lift r) k))).
Proof.
  intros Hb Hk. apply (psx_nest_gen body (quote_cont k)); [exact Hb| |].
  - intros a. apply psx_quote_cont_ok; assumption.
  - intros x s. destruct (quote_cont_err k x s) as [H|(P & D & E)]; [left; exact H|right; split; [exact P|split; [exact D|left; exact E]]].
Qed.


Section ParserIo.
  Variable ro : parse_options.
  Variable alpha : N -> bool.
  Variable fast : bool.
  Variable std_parse : N -> Z -> f64.

  Local Notation next_value := (next_value ro alpha fast std_parse).
  Local Notation parse_list := (parse_list ro alpha fast std_parse).
  Local Notation parse_vector := (parse_vector ro alpha fast std_parse).
  Local Notation next_datum := (next_datum ro alpha fast std_parse).
  Local Notation parse_list_meta := (parse_list_meta ro alpha fast std_parse).
  Local Notation parse_vector_meta := (parse_vector_meta ro alpha fast std_parse).
  Local Notation parse_token := (parse_token ro alpha fast std_parse).

  Lemma psx_ws {A} fuel (k : option N -> PM A) : (forall o, psx (k o)) -> psx (pbind (liftR (parse_whitespace fuel)) k).
  Proof. intros Hk. apply psx_bind; [apply psx_liftR; apply sx_parse_whitespace|exact Hk]. Qed.
  Lemma psx_token {A} fuel b (k : token -> PM A) : (forall tok, psx (k tok)) -> psx (pbind (liftR (parse_token fuel b)) k).
  Proof. intros Hk. apply psx_bind; [apply psx_liftR; apply sx_parse_token|exact Hk]. Qed.
  Lemma psx_eat_peek {A} (k : option N -> PM A) : (forall nx, psx (k nx)) -> psx (pbind (liftR (eat_char ;;; peek)) k).
  Proof. intros Hk. apply psx_bind; [apply psx_liftR; sx_auto|exact Hk]. Qed.
  Lemma psx_position_then {A} (k : N * N -> PM A) : (forall p, psx (k p)) -> psx (pbind (liftR position) k).
  Proof. intros Hk. apply psx_bind; [apply psx_liftR; sx_auto|exact Hk]. Qed.

  Theorem str_values fuel :
    psx (next_value fuel) /\ (forall t acc, psx (parse_list fuel t acc)) /\ (forall t acc, psx (parse_vector fuel t acc)).
  Proof.
    induction fuel as [|f (IHv & IHl & IHvec)]; [repeat split; intros; apply psx_fuel|].
    split; [|split].
    - cbn [Parser.next_value]. apply psx_ws. intros [b|]; [|apply psx_pret]. apply psx_token. intros tok.
      destruct tok; try apply psx_pret.
      + apply psx_bind; [apply psx_enter_nesting|intros _].
        apply psx_nest_seq; [apply IHl|apply sx_end_seq|intros l; apply psx_pret].
      + apply psx_bind; [apply psx_enter_nesting|intros _].
        apply psx_nest_quote; [exact IHv|]. intros o. destruct o; [apply psx_pret|apply psx_err].
      + apply psx_bind; [apply psx_enter_nesting|intros _].
        apply psx_nest_seq; [apply IHvec|apply sx_end_seq|intros l; apply psx_pret].
      + apply psx_bind; [apply psx_liftR; apply sx_parse_byte_list|intros; apply psx_pret].
    - intros t acc. cbn [Parser.parse_list]. apply psx_ws. intros [c|]; [|apply psx_err].
      destruct (is_closer c). { destruct (negb (c =? t)); [apply psx_err|apply psx_pret]. }
      destruct (c =? 46).
      + apply psx_eat_peek. intros nx. destruct (lone_dot nx).
        * destruct acc as [|a0 acc'].
          -- apply psx_bind; [apply psx_liftR; sx_auto|]. intros o3. destruct o3; apply psx_err.
          -- apply psx_bind; [exact IHv|]. intros ov. destruct ov as [cdr|]; [|apply psx_err].
             apply psx_ws. intros o2.
             destruct o2 as [c2|]; [destruct (c2 =? t); [apply psx_pret|apply psx_err]|apply psx_err].
        * apply psx_bind; [apply psx_liftR; apply sx_parse_symbol_suffix|]. intros name. apply IHl.
      + apply psx_bind; [exact IHv|]. intros ov. destruct ov; [apply IHl|apply psx_err].
    - intros t acc. cbn [Parser.parse_vector]. apply psx_ws. intros [c|]; [|apply psx_err].
      destruct (is_closer c). { destruct (negb (c =? t)); [apply psx_err|apply psx_pret]. }
      apply psx_bind; [exact IHv|]. intros ov. destruct ov; [apply IHvec|apply psx_err].
  Qed.

  Theorem str_datums fuel :
    psx (next_datum fuel) /\ (forall t acc, psx (parse_list_meta fuel t acc)) /\ (forall t acc, psx (parse_vector_meta fuel t acc)).
  Proof.
    induction fuel as [|f (IHv & IHl & IHvec)]; [repeat split; intros; apply psx_fuel|].
    split; [|split].
    - cbn [Parser.next_datum]. apply psx_ws. intros [b|]; [|apply psx_pret].
      apply psx_position_then. intros start. apply psx_token. intros tok. cbv zeta.
      destruct tok; try (apply psx_position_then; intros; apply psx_pret).
      + apply psx_bind; [apply psx_enter_nesting|intros _].
        apply psx_nest_seq; [apply IHl|apply sx_end_seq|]. intros l. apply psx_position_then. intros; apply psx_pret.
      + apply psx_position_then. intros token_end. apply psx_bind; [apply psx_enter_nesting|intros _].
        apply psx_nest_quote; [exact IHv|]. intros o. destruct o; [apply psx_pret|apply psx_err].
      + apply psx_bind; [apply psx_enter_nesting|intros _].
        apply psx_nest_seq; [apply IHvec|apply sx_end_seq|]. intros l. apply psx_position_then. intros; apply psx_pret.
      + apply psx_bind; [apply psx_liftR; apply sx_parse_byte_list|]. intros. apply psx_position_then. intros; apply psx_pret.
    - intros t acc. cbn [Parser.parse_list_meta]. apply psx_ws. intros [c|]; [|apply psx_err].
      destruct (is_closer c). { destruct (negb (c =? t)); [apply psx_err|apply psx_pret]. }
      destruct (c =? 46).
      + apply psx_position_then. intros start. apply psx_eat_peek. intros nx. destruct (lone_dot nx).
        * destruct acc as [|a0 acc'].
          -- apply psx_bind; [apply psx_liftR; sx_auto|]. intros o3. destruct o3; apply psx_err.
          -- apply psx_bind; [exact IHv|]. intros ov. destruct ov as [cdr|]; [|apply psx_err].
             apply psx_ws. intros o2.
             destruct o2 as [c2|]; [destruct (c2 =? t); [apply psx_pret|apply psx_err]|apply psx_err].
        * apply psx_bind; [apply psx_liftR; apply sx_parse_symbol_suffix|]. intros name.
          apply psx_position_then. intros e. apply IHl.
      + apply psx_bind; [exact IHv|]. intros ov. destruct ov; [apply IHl|apply psx_err].
    - intros t acc. cbn [Parser.parse_vector_meta]. apply psx_ws. intros [c|]; [|apply psx_err].
      destruct (is_closer c). { destruct (negb (c =? t)); [apply psx_err|apply psx_pret]. }
      apply psx_bind; [exact IHv|]. intros ov. destruct ov; [apply IHvec|apply psx_err].
  Qed.

  Lemma psx_expect_value fuel : psx (expect_value ro alpha fast std_parse fuel).
  Proof. unfold expect_value. apply psx_bind; [apply str_values|]. intros o. destruct o; [apply psx_pret|apply psx_err]. Qed.
  Lemma psx_expect_datum fuel : psx (expect_datum ro alpha fast std_parse fuel).
  Proof. unfold expect_datum. apply psx_bind; [apply str_datums|]. intros o. destruct o; [apply psx_pret|apply psx_err]. Qed.
  Lemma psx_expect_end fuel : psx (expect_end_p fuel).
  Proof. unfold expect_end_p. apply psx_liftR. apply sx_expect_end. Qed.

  Lemma init_sprel (pre : list event) : sprel (init_state SrcIo (pre ++ cnt)) (init_state SrcIo (pre ++ EFail ioe :: post)).
  Proof.
    unfold sprel, init_state, mk_reader. cbn [rd depth]. split; [|reflexivity]. apply (mk_srel 1 0 false pre). apply no_head.
  Qed.

  (* with one step budget on both sides *)
  Theorem io_fail_values fuel (pre : list event) :
    psc (pbind (expect_value ro alpha fast std_parse fuel) (fun v => pbind (expect_end_p fuel) (fun _ => pret v)))
        (init_state SrcIo (pre ++ cnt)) (init_state SrcIo (pre ++ EFail ioe :: post)).
  Proof.
    assert (H : psx (pbind (expect_value ro alpha fast std_parse fuel) (fun v => pbind (expect_end_p fuel) (fun _ => pret v)))).
    { apply psx_bind; [apply psx_expect_value|]. intros v. apply psx_bind; [apply psx_expect_end|intros; apply psx_pret]. }
    apply H. apply init_sprel.
  Qed.
  Theorem io_fail_datums fuel (pre : list event) :
    psc (pbind (expect_datum ro alpha fast std_parse fuel) (fun v => pbind (expect_end_p fuel) (fun _ => pret v)))
        (init_state SrcIo (pre ++ cnt)) (init_state SrcIo (pre ++ EFail ioe :: post)).
  Proof.
    assert (H : psx (pbind (expect_datum ro alpha fast std_parse fuel) (fun v => pbind (expect_end_p fuel) (fun _ => pret v)))).
    { apply psx_bind; [apply psx_expect_datum|]. intros v. apply psx_bind; [apply psx_expect_end|intros; apply psx_pret]. }
    apply H. apply init_sprel.
  Qed.
End ParserIo.
End IoFail.
