(* A generic traversal of the whole reader-level parser: any relation between
   "reader before, result, reader after" that is closed under sequencing and
   holds of the reader primitives holds of every scanner, number routine and
   token function. Instantiated for source positions (C19), for read failures
   (C06) and for the source kind. *)
From Coq Require Import SpecFloat.
Require Import Base Value Float PrintOptions ParseOptions Utf8 Reader Scan Num NumberOps Parser.

(* SliceRead's bulk steps as primitives *)
Definition take_run : M (bytes * option N) :=
  fun s =>
    let '(run, rest) := span_plain (rinput s) [] in
    let s1 := advance_over s run rest in
    match rest with
    | EByte b :: rest' => (Ok (run, Some b), consume s1 b rest')
    | _ => (Ok (run, None), s1)
    end.

Definition take_symbol_run : M (bytes * bool) :=
  fun s =>
    let '(scanned, rest) := span_symbol (rinput s) [] in
    (Ok (scanned, match rest with [] => true | _ => false end), advance_over s scanned rest).

(* peek_error, then discard the offending byte *)
Definition error_consume {A} (c : errcode) : M A :=
  fun s => let '(r, s') := peek_error (A := A) c s in (r, r_discard s').

Lemma scan_symbol_slice_eq scratch r :
  scan_symbol_slice scratch r =
  (p <- take_symbol_run ;;
   let whole := scratch ++ fst p in
   if snd p && is_truncated_symbol whole then error EofWhileParsingValue
   else if beq_bytes whole [46] then error InvalidSymbol else ret whole) r.
Proof.
  unfold scan_symbol_slice, take_symbol_run, bind. destruct (span_symbol (rinput r) []) as [scanned rest].
  cbn [fst snd]. destruct (_ && _); [reflexivity|]. destruct (beq_bytes _ _); reflexivity.
Qed.

Lemma r6rs_str_slice_eq f scratch r :
  r6rs_str_slice (S f) scratch r =
  (p <- take_run ;;
   match snd p with
   | Some b => if b =? 34 then ret (scratch ++ fst p)
               else e <- parse_r6rs_escape f ;; r6rs_str_slice f (scratch ++ fst p ++ e)
   | None => error EofWhileParsingString
   end) r.
Proof.
  cbn [r6rs_str_slice]. unfold take_run, bind. destruct (span_plain (rinput r) []) as [run rest].
  destruct rest as [|[b| |e] rest']; cbn [fst snd]; try reflexivity; destruct (b =? 34); reflexivity.
Qed.

Lemma elisp_str_slice_eq f fl scratch r :
  elisp_str_slice (S f) fl scratch r =
  (p <- take_run ;;
   let fl1 := if existsb (fun b => 127 <? b) (fst p)
              then {| seen_ub := seen_ub fl; seen_mb := seen_mb fl; seen_na := true |} else fl in
   match snd p with
   | Some b => if b =? 34 then elisp_finish fl1 (scratch ++ fst p)
               else x <- parse_elisp_escape f ;;
                    elisp_str_slice f (note_escape fl1 (snd x)) (scratch ++ fst p ++ fst x)
   | None => error EofWhileParsingString
   end) r.
Proof.
  cbn [elisp_str_slice]. unfold take_run, bind. destruct (span_plain (rinput r) []) as [run rest].
  destruct rest as [|[b| |e] rest']; cbn [fst snd]; try reflexivity; destruct (b =? 34); reflexivity.
Qed.

Definition erase {A} (x : res A) : option perr := match x with Ok _ => None | Err e => Some e end.

Section RelM.
  (* reader before, the error if any, reader after *)
  Variable R0 : reader -> option perr -> reader -> Prop.
  Definition R {A} (r : reader) (x : res A) (r' : reader) : Prop := R0 r (erase x) r'.

  Definition sat {A} (m : M A) : Prop := forall r, R r (fst (m r)) (snd (m r)).

  Hypothesis R0_ret : forall r, R0 r None r.
  Hypothesis R0_seq : forall r r1 x r2, R0 r None r1 -> R0 r1 x r2 -> R0 r x r2.
  Hypothesis R0_fuel : forall r, R0 r (Some EFuel) r.

  Lemma R_ret : forall A (a : A) r, R r (Ok a) r.
  Proof. intros. apply R0_ret. Qed.
  Lemma R_seq : forall A B r (a : A) r1 (x : res B) r2, R r (Ok a) r1 -> R r1 x r2 -> R r x r2.
  Proof. intros A B r a r1 x r2. apply R0_seq. Qed.
  Lemma R_err : forall A B r e r1, @R A r (Err e) r1 -> @R B r (Err e) r1.
  Proof. intros A B r e r1 H. exact H. Qed.
  Lemma R_fuel : forall A r, @R A r (Err EFuel) r.
  Proof. intros. apply R0_fuel. Qed.
  Hypothesis sat_peek : sat peek.
  Hypothesis sat_next : sat next_char.
  Hypothesis sat_eat : sat eat_char.
  Hypothesis sat_error : forall A c, sat (@error A c).
  Hypothesis sat_peek_error : forall A c, sat (@peek_error A c).
  Hypothesis sat_error_consume : forall A c, sat (@error_consume A c).
  Hypothesis sat_take_run : sat take_run.
  Hypothesis sat_take_symbol : sat take_symbol_run.

  Lemma sat_ret {A} (a : A) : sat (ret a).
  Proof. intros r. apply R_ret. Qed.

  Lemma sat_bind {A B} (m : M A) (f : A -> M B) : sat m -> (forall a, sat (f a)) -> sat (bind m f).
  Proof.
    intros Hm Hf r. unfold bind. specialize (Hm r). destruct (m r) as [[a|e] r1]; cbn [fst snd] in *.
    - eapply R_seq; [exact Hm|apply Hf].
    - eapply R_err. exact Hm.
  Qed.

  Lemma sat_out_of_fuel {A} : sat (@out_of_fuel A).
  Proof. intros r. apply R_fuel. Qed.

  Lemma sat_ext {A} (m m' : M A) : (forall r, m r = m' r) -> sat m' -> sat m.
  Proof. intros E H r. rewrite E. apply H. Qed.

  Lemma sat_by_rk {A} (m : M A) (f : src_kind -> M A) :
    (forall r, m r = f (rk r) r) -> (forall k, sat (f k)) -> sat m.
  Proof. intros E H r. rewrite E. apply (H (rk r)). Qed.

  Ltac sat_step :=
    first
      [ apply sat_ret | apply sat_out_of_fuel | apply sat_peek | apply sat_next | apply sat_eat
      | apply sat_error | apply sat_peek_error | apply sat_error_consume | apply sat_take_run | apply sat_take_symbol
      | assumption
      | apply sat_bind; [|intros ?]
      | match goal with
        | |- sat (match ?x with _ => _ end) => destruct x
        | |- sat (if ?x then _ else _) => destruct x
        | |- sat (let '(_, _) := ?x in _) => destruct x
        end ].
  Ltac sat_auto := repeat sat_step.

  Lemma sat_peek_or_null : sat peek_or_null.
  Proof. unfold peek_or_null. sat_auto. Qed.
  Lemma sat_next_or_eof : sat next_or_eof.
  Proof. unfold next_or_eof. sat_auto. Qed.
  Lemma sat_next_or_eof_char : sat next_or_eof_char.
  Proof. unfold next_or_eof_char. sat_auto. Qed.
  Lemma sat_as_str (b : bytes) : sat (Scan.as_str b).
  Proof. unfold Scan.as_str. sat_auto. Qed.
  Lemma sat_finish_str b : sat (finish_str b).
  Proof.
    apply (sat_by_rk _ (fun k => match k with SrcStr => ret b | _ => Scan.as_str b end));
      [intros r; unfold finish_str; destruct (rk r); reflexivity|].
    intros k; destruct k; first [apply sat_ret | apply sat_as_str].
  Qed.
  Hint Resolve sat_peek_or_null sat_next_or_eof sat_next_or_eof_char sat_as_str sat_finish_str : sat.
  Ltac sat_auto' := repeat first [solve [auto with sat] | sat_step].

  (* ---- symbols ---- *)
  Lemma sat_scan_symbol_io fuel : forall scratch, sat (scan_symbol_io fuel scratch).
  Proof. induction fuel as [|f IH]; intros scratch; cbn [scan_symbol_io]; sat_auto'. Qed.
  Lemma sat_scan_symbol_slice scratch : sat (scan_symbol_slice scratch).
  Proof. eapply sat_ext; [intros r; apply scan_symbol_slice_eq|]. cbv zeta. sat_auto'. Qed.
  Lemma sat_parse_symbol_rd fuel scratch : sat (parse_symbol_rd fuel scratch).
  Proof.
    apply (sat_by_rk _ (fun k => match k with
                                 | SrcIo => b <- scan_symbol_io fuel scratch ;; Scan.as_str b
                                 | _ => b <- scan_symbol_slice scratch ;; finish_str b
                                 end)); [intros r; unfold parse_symbol_rd; destruct (rk r); reflexivity|].
    pose proof sat_scan_symbol_io. pose proof sat_scan_symbol_slice.
    intros k; destruct k; sat_auto'.
  Qed.
  Hint Resolve sat_parse_symbol_rd : sat.

  (* ---- strings ---- *)
  Lemma sat_hex_escape_loop fuel : forall n, sat (hex_escape_loop fuel n).
  Proof. induction fuel as [|f IH]; intros n; cbn [hex_escape_loop]; sat_auto'. Qed.
  Lemma sat_parse_r6rs_escape fuel : sat (parse_r6rs_escape fuel).
  Proof. pose proof sat_hex_escape_loop. unfold parse_r6rs_escape, decode_r6rs_hex_escape. sat_auto'. Qed.
  Hint Resolve sat_parse_r6rs_escape : sat.
  Lemma sat_r6rs_str_io fuel : forall scratch, sat (r6rs_str_io fuel scratch).
  Proof. induction fuel as [|f IH]; intros scratch; cbn [r6rs_str_io]; sat_auto'. Qed.
  Lemma sat_r6rs_str_slice fuel : forall scratch, sat (r6rs_str_slice fuel scratch).
  Proof.
    induction fuel as [|f IH]; intros scratch; [cbn [r6rs_str_slice]; sat_auto'|].
    eapply sat_ext; [intros r; apply r6rs_str_slice_eq|]. sat_auto'.
  Qed.
  Lemma sat_parse_r6rs_str_rd fuel : sat (parse_r6rs_str_rd fuel).
  Proof.
    apply (sat_by_rk _ (fun k => match k with
                                 | SrcIo => b <- r6rs_str_io fuel [] ;; Scan.as_str b
                                 | _ => b <- r6rs_str_slice fuel [] ;; finish_str b
                                 end)); [intros r; unfold parse_r6rs_str_rd; destruct (rk r); reflexivity|].
    pose proof sat_r6rs_str_io. pose proof sat_r6rs_str_slice.
    intros k; destruct k; sat_auto'.
  Qed.
  Hint Resolve sat_parse_r6rs_str_rd : sat.

  Lemma sat_elisp_hex_loop fuel : forall n, sat (elisp_hex_loop fuel n).
  Proof. induction fuel as [|f IH]; intros n; cbn [elisp_hex_loop]; sat_auto'. Qed.
  Lemma sat_decode_elisp_uni_escape k : forall n, sat (decode_elisp_uni_escape k n).
  Proof. induction k as [|k IH]; intros n; cbn [decode_elisp_uni_escape]; sat_auto'. Qed.
  Lemma sat_elisp_octal_loop fuel : forall n, sat (elisp_octal_loop fuel n).
  Proof. induction fuel as [|f IH]; intros n; cbn [elisp_octal_loop]; sat_auto'. Qed.
  Lemma sat_elisp_char_escape_of n : sat (elisp_char_escape_of n).
  Proof. unfold elisp_char_escape_of. sat_auto'. Qed.
  Lemma sat_elisp_uni_escape_of n : sat (elisp_uni_escape_of n).
  Proof. unfold elisp_uni_escape_of. sat_auto'. Qed.
  Lemma sat_parse_elisp_escape fuel : sat (parse_elisp_escape fuel).
  Proof.
    pose proof sat_elisp_hex_loop. pose proof sat_decode_elisp_uni_escape. pose proof sat_elisp_octal_loop.
    pose proof sat_elisp_char_escape_of. pose proof sat_elisp_uni_escape_of.
    unfold parse_elisp_escape, decode_elisp_hex_escape, decode_elisp_octal_escape. sat_auto'.
  Qed.
  Hint Resolve sat_parse_elisp_escape : sat.
  Lemma sat_elisp_finish fl scratch : sat (elisp_finish fl scratch).
  Proof. unfold elisp_finish. sat_auto'. Qed.
  Hint Resolve sat_elisp_finish : sat.
  Lemma sat_elisp_str_io fuel : forall fl scratch, sat (elisp_str_io fuel fl scratch).
  Proof. induction fuel as [|f IH]; intros fl scratch; cbn [elisp_str_io]; sat_auto'. Qed.
  Lemma sat_elisp_str_slice fuel : forall fl scratch, sat (elisp_str_slice fuel fl scratch).
  Proof.
    induction fuel as [|f IH]; intros fl scratch; [cbn [elisp_str_slice]; sat_auto'|].
    eapply sat_ext; [intros r; apply elisp_str_slice_eq|]. cbv zeta. sat_auto'.
  Qed.
  Lemma sat_parse_elisp_str_rd fuel : sat (parse_elisp_str_rd fuel).
  Proof.
    apply (sat_by_rk _ (fun k => match k with
                                 | SrcIo => elisp_str_io fuel {| seen_ub := false; seen_mb := false; seen_na := false |} []
                                 | _ => elisp_str_slice fuel {| seen_ub := false; seen_mb := false; seen_na := false |} []
                                 end)); [intros r; unfold parse_elisp_str_rd; cbv zeta; destruct (rk r); reflexivity|].
    pose proof sat_elisp_str_io. pose proof sat_elisp_str_slice.
    intros k; destruct k; sat_auto'.
  Qed.
  Hint Resolve sat_parse_elisp_str_rd : sat.

  (* ---- characters ---- *)
  Lemma sat_take_bytes k : forall acc, sat (take_bytes k acc).
  Proof. induction k as [|k IH]; intros acc; cbn [take_bytes]; sat_auto'. Qed.
  Lemma sat_decode_utf8_sequence_b c : sat (decode_utf8_sequence_b c).
  Proof. pose proof sat_take_bytes. unfold decode_utf8_sequence_b. sat_auto'. Qed.
  Hint Resolve sat_decode_utf8_sequence_b : sat.
  Lemma sat_decode_utf8_sequence c : sat (decode_utf8_sequence c).
  Proof. unfold decode_utf8_sequence. sat_auto'. Qed.
  Hint Resolve sat_decode_utf8_sequence : sat.
  Lemma sat_r6rs_char_hex_loop fuel : forall n first, sat (r6rs_char_hex_loop fuel n first).
  Proof. induction fuel as [|f IH]; intros n first; cbn [r6rs_char_hex_loop]; sat_auto'. Qed.
  Lemma sat_char_name_loop fuel : forall scratch, sat (char_name_loop fuel scratch).
  Proof. induction fuel as [|f IH]; intros scratch; cbn [char_name_loop]; sat_auto'. Qed.
  Lemma sat_open_ended_char n : sat (open_ended_char n).
  Proof. unfold open_ended_char. sat_auto'. Qed.
  Hint Resolve sat_open_ended_char : sat.
  Lemma sat_parse_r6rs_char fuel : sat (parse_r6rs_char fuel).
  Proof. pose proof sat_r6rs_char_hex_loop. pose proof sat_char_name_loop. unfold parse_r6rs_char. sat_auto'. Qed.
  Hint Resolve sat_parse_r6rs_char : sat.
  Lemma sat_as_char (n : N) : sat (Scan.as_char n).
  Proof. unfold Scan.as_char. sat_auto'. Qed.
  Hint Resolve sat_as_char : sat.
  Lemma sat_decode_elisp_char_escape fuel : sat (decode_elisp_char_escape fuel).
  Proof.
    pose proof sat_elisp_hex_loop. pose proof sat_decode_elisp_uni_escape. pose proof sat_elisp_octal_loop.
    unfold decode_elisp_char_escape, decode_elisp_hex_escape, decode_elisp_octal_escape. sat_auto'.
  Qed.
  Hint Resolve sat_decode_elisp_char_escape : sat.
  Lemma sat_parse_elisp_char fuel : sat (parse_elisp_char fuel).
  Proof. unfold parse_elisp_char. sat_auto'. Qed.
  Hint Resolve sat_parse_elisp_char : sat.

  (* ---- numbers ---- *)
  Variable fast : bool.
  Variable std_parse : N -> Z -> f64.
  Lemma sat_fast_loop fuel : forall f e, sat (f64_from_parts_fast_loop fuel f e).
  Proof. induction fuel as [|k IH]; intros f e; cbn [f64_from_parts_fast_loop]; sat_auto'. Qed.
  Lemma sat_f64_from_parts pos sig e : sat (f64_from_parts fast std_parse pos sig e).
  Proof. pose proof sat_fast_loop. unfold f64_from_parts. cbv zeta. sat_auto'. Qed.
  Hint Resolve sat_f64_from_parts : sat.
  Lemma sat_skip_digits fuel : sat (skip_digits fuel).
  Proof. induction fuel as [|f IH]; cbn [skip_digits]; sat_auto'. Qed.
  Hint Resolve sat_skip_digits : sat.
  Lemma sat_parse_exponent_overflow fuel p s pe : sat (parse_exponent_overflow fuel p s pe).
  Proof. unfold parse_exponent_overflow. sat_auto'. Qed.
  Hint Resolve sat_parse_exponent_overflow : sat.
  Lemma sat_exponent_digits fuel : forall p s pe se e, sat (exponent_digits fast std_parse fuel p s pe se e).
  Proof. induction fuel as [|f IH]; intros p s pe se e; cbn [exponent_digits]; cbv zeta; sat_auto'. Qed.
  Lemma sat_parse_exponent fuel p s se : sat (parse_exponent fast std_parse fuel p s se).
  Proof. pose proof sat_exponent_digits. unfold parse_exponent. sat_auto'. Qed.
  Hint Resolve sat_parse_exponent : sat.
  Lemma sat_decimal_digits fuel : forall s e o, sat (decimal_digits fuel s e o).
  Proof. induction fuel as [|f IH]; intros s e o; cbn [decimal_digits]; cbv zeta; sat_auto'. Qed.
  Lemma sat_parse_decimal fuel p s e : sat (parse_decimal fast std_parse fuel p s e).
  Proof. pose proof sat_decimal_digits. unfold parse_decimal. sat_auto'. Qed.
  Hint Resolve sat_parse_decimal : sat.
  Lemma sat_parse_long_integer fuel : forall radix p s e, sat (parse_long_integer fast std_parse fuel radix p s e).
  Proof. induction fuel as [|f IH]; intros radix p s e; cbn [parse_long_integer]; cbv zeta; sat_auto'. Qed.
  Hint Resolve sat_parse_long_integer : sat.
  Lemma sat_parse_num_tail fuel radix p s : sat (parse_num_tail fast std_parse fuel radix p s).
  Proof. unfold parse_num_tail. sat_auto'. Qed.
  Hint Resolve sat_parse_num_tail : sat.
  Lemma sat_num_literal_loop fuel : forall radix p s, sat (num_literal_loop fast std_parse fuel radix p s).
  Proof. induction fuel as [|f IH]; intros radix p s; cbn [num_literal_loop]; sat_auto'. Qed.
  Lemma sat_parse_num_literal fuel radix p : sat (parse_num_literal fast std_parse fuel radix p).
  Proof. pose proof sat_num_literal_loop. unfold parse_num_literal. sat_auto'. Qed.
  Hint Resolve sat_parse_num_literal : sat.

  (* ---- tokens ---- *)
  Variable ro : parse_options.
  Variable alpha : N -> bool.
  Lemma sat_skip_comment fuel : sat (skip_comment fuel).
  Proof. induction fuel as [|f IH]; cbn [skip_comment]; sat_auto'. Qed.
  Hint Resolve sat_skip_comment : sat.
  Lemma sat_parse_whitespace fuel : sat (parse_whitespace fuel).
  Proof. induction fuel as [|f IH]; cbn [parse_whitespace]; sat_auto'. Qed.
  Hint Resolve sat_parse_whitespace : sat.
  Lemma sat_parse_symbol fuel : sat (parse_symbol fuel).
  Proof. unfold parse_symbol. sat_auto'. Qed.
  Lemma sat_parse_symbol_suffix fuel p : sat (parse_symbol_suffix fuel p).
  Proof. unfold parse_symbol_suffix. sat_auto'. Qed.
  Hint Resolve sat_parse_symbol sat_parse_symbol_suffix : sat.
  Lemma sat_expect_ident ident : sat (expect_ident ident).
  Proof. induction ident as [|c ident IH]; cbn [expect_ident]; sat_auto'. Qed.
  Hint Resolve sat_expect_ident : sat.
  Lemma sat_parse_num_token fuel radix p : sat (parse_num_token fast std_parse fuel radix p).
  Proof. unfold parse_num_token. sat_auto'. Qed.
  Hint Resolve sat_parse_num_token : sat.
  Lemma sat_parse_radix_literal fuel radix : sat (parse_radix_literal fast std_parse fuel radix).
  Proof. unfold parse_radix_literal. sat_auto'. Qed.
  Hint Resolve sat_parse_radix_literal : sat.
  Lemma sat_parse_number fuel : sat (parse_number fast std_parse fuel).
  Proof. unfold parse_number. sat_auto'. Qed.
  Hint Resolve sat_parse_number : sat.
  Lemma sat_parse_token fuel b : sat (parse_token ro alpha fast std_parse fuel b).
  Proof.
    unfold parse_token. fold (@error_consume token ExpectedSomeValue). sat_auto'.
  Qed.
  (* ---- progress: a successful token consumes the byte it was dispatched on ----
     lt0 r r' says that r' is strictly further in the input than r; it is kept
     by whatever R0-related step follows. *)
  Variable lt0 : reader -> reader -> Prop.
  Definition at_byte (b : N) (r : reader) : Prop := rpending r = true /\ exists l, rinput r = EByte b :: l.
  Definition strict {A} (b : N) (m : M A) : Prop :=
    forall r, at_byte b r -> match m r with (Ok _, r') => lt0 r r' | (Err _, _) => True end.
  Hypothesis lt0_then : forall r r1 r2, lt0 r r1 -> R0 r1 None r2 -> lt0 r r2.
  Hypothesis strict_eat : forall b, strict b eat_char.
  Hypothesis strict_next : forall b, strict b next_char.
  Hypothesis strict_symbol_rd : forall b fuel scratch, is_symbol_terminator b = false -> strict b (parse_symbol_rd fuel scratch).

  Lemma strict_bind_l {A B} b (m : M A) (f : A -> M B) : strict b m -> (forall a, sat (f a)) -> strict b (bind m f).
  Proof.
    intros Hm Hf r Hr. unfold bind. specialize (Hm r Hr). destruct (m r) as [[a|e] r1]; [|exact I].
    specialize (Hf a r1). unfold R in Hf. destruct (f a r1) as [[c|e] r2]; cbn [fst snd erase] in Hf; [|exact I].
    eapply lt0_then; eauto.
  Qed.
  Lemma peek_or_null_at b r : at_byte b r -> peek_or_null r = (Ok b, r).
  Proof. intros [Hp [l Hl]]. unfold peek_or_null, bind, peek, r_peek, ret. rewrite Hp, Hl. reflexivity. Qed.
  Lemma strict_after_peek0 {A} b (f : N -> M A) : strict b (f b) -> strict b (bind peek_or_null f).
  Proof. intros H r Hr. unfold bind. rewrite (peek_or_null_at b r Hr). apply H. exact Hr. Qed.

  Lemma strict_parse_symbol b fuel : is_symbol_terminator b = false -> strict b (parse_symbol fuel).
  Proof. intros H. unfold parse_symbol. apply strict_symbol_rd. exact H. Qed.
  Lemma strict_parse_num_literal b fuel radix p : strict b (parse_num_literal fast std_parse fuel radix p).
  Proof. pose proof sat_num_literal_loop. unfold parse_num_literal. apply strict_bind_l; [apply strict_next|intros ?; sat_auto']. Qed.
  Lemma strict_parse_num_token b fuel radix p : strict b (parse_num_token fast std_parse fuel radix p).
  Proof. unfold parse_num_token. apply strict_bind_l; [apply strict_parse_num_literal|intros ?; sat_auto']. Qed.

  Lemma digit_not_terminator b : is_digit b = true -> is_symbol_terminator b = false.
  Proof.
    unfold is_digit, in_range. intros H. apply andb_prop in H. destruct H as [H1 H2].
    apply N.leb_le in H1. apply N.leb_le in H2. unfold is_symbol_terminator, memb. cbn [existsb].
    repeat match goal with |- (?x =? ?y) || _ = false => replace (x =? y) with false by (symmetry; apply N.eqb_neq; intros ->; cbv in H1, H2; first [apply H1; reflexivity | apply H2; reflexivity]); cbn [orb] end.
    reflexivity.
  Qed.

  Theorem strict_parse_token fuel b : strict b (parse_token ro alpha fast std_parse fuel b).
  Proof.
    unfold parse_token. fold (@error_consume token ExpectedSomeValue).
    destruct (b =? 35). { apply strict_bind_l; [apply strict_eat|intros ?; sat_auto']. }
    destruct ((b =? 45) || (b =? 43)). { apply strict_bind_l; [apply strict_eat|intros ?; sat_auto']. }
    destruct (is_digit b) eqn:Ed.
    { destruct (ro_digit ro).
      - apply strict_bind_l; [apply strict_parse_symbol; apply digit_not_terminator; exact Ed|intros ?; sat_auto'].
      - apply strict_bind_l; [apply strict_parse_num_token|intros ?; sat_auto']. }
    destruct (b =? 34). { apply strict_bind_l; [apply strict_eat|intros ?; sat_auto']. }
    destruct (b =? 40). { apply strict_bind_l; [apply strict_eat|intros ?; sat_auto']. }
    destruct (b =? 91). { apply strict_bind_l; [apply strict_eat|intros ?; sat_auto']. }
    destruct (b =? 58) eqn:E58.
    { destruct (ro_kw_prefix ro).
      - apply strict_bind_l; [apply strict_eat|intros ?; sat_auto'].
      - apply strict_bind_l; [apply strict_parse_symbol; apply N.eqb_eq in E58; subst b; reflexivity|intros ?; sat_auto']. }
    destruct (is_ascii_alpha b) eqn:Ea.
    { apply strict_bind_l; [apply strict_parse_symbol|intros ?; sat_auto'].
      unfold is_ascii_alpha, is_ascii_lower, is_ascii_upper, in_range in Ea.
      unfold is_symbol_terminator, memb. cbn [existsb].
      destruct (b =? 32) eqn:E1; [apply N.eqb_eq in E1; subst b; discriminate Ea|].
      destruct (b =? 10) eqn:E2; [apply N.eqb_eq in E2; subst b; discriminate Ea|].
      destruct (b =? 9) eqn:E3; [apply N.eqb_eq in E3; subst b; discriminate Ea|].
      destruct (b =? 13) eqn:E4; [apply N.eqb_eq in E4; subst b; discriminate Ea|].
      destruct (b =? 12) eqn:E5; [apply N.eqb_eq in E5; subst b; discriminate Ea|].
      destruct (b =? 41) eqn:E6; [apply N.eqb_eq in E6; subst b; discriminate Ea|].
      destruct (b =? 93) eqn:E7; [apply N.eqb_eq in E7; subst b; discriminate Ea|].
      destruct (b =? 40) eqn:E8; [apply N.eqb_eq in E8; subst b; discriminate Ea|].
      destruct (b =? 91) eqn:E9; [apply N.eqb_eq in E9; subst b; discriminate Ea|].
      destruct (b =? 59) eqn:E10; [apply N.eqb_eq in E10; subst b; discriminate Ea|]. reflexivity. }
    destruct ((b =? 63) && _). { apply strict_bind_l; [apply strict_eat|intros ?; sat_auto']. }
    destruct (b =? 39). { apply strict_bind_l; [apply strict_eat|intros ?; sat_auto']. }
    destruct (b =? 96). { apply strict_bind_l; [apply strict_eat|intros ?; sat_auto']. }
    destruct (b =? 44). { apply strict_bind_l; [apply strict_eat|intros ?; sat_auto']. }
    destruct (127 <? b). { apply strict_bind_l; [apply strict_eat|intros ?; sat_auto']. }
    destruct (memb b SYMBOL_EXTENDED) eqn:Ex.
    { apply strict_bind_l; [apply strict_parse_symbol|intros ?; sat_auto'].
      unfold SYMBOL_EXTENDED, memb in Ex. cbn [s2b existsb] in Ex.
      repeat (apply orb_true_iff in Ex; destruct Ex as [Ex|Ex]; [apply N.eqb_eq in Ex; subst b; reflexivity|]). discriminate Ex. }
    intros r _. unfold error_consume, peek_error. destruct (r_peek_position r). exact I.
  Qed.

  Lemma sat_end_seq fuel close : sat (end_seq fuel close).
  Proof. unfold end_seq. sat_auto'. Qed.
  Lemma sat_expect_end fuel : sat (expect_end fuel).
  Proof. unfold expect_end. sat_auto'. Qed.
  Lemma sat_byte_list_loop fuel : forall close acc, sat (byte_list_loop fast std_parse fuel close acc).
  Proof. induction fuel as [|f IH]; intros close acc; cbn [byte_list_loop]; sat_auto'. Qed.
  Lemma sat_parse_byte_list fuel close : sat (parse_byte_list fast std_parse fuel close).
  Proof. pose proof sat_byte_list_loop. unfold parse_byte_list. sat_auto'. Qed.

  Lemma sat_position : sat position.
  Proof. intros r. apply R_ret. Qed.

  (* ---- the parser proper: nesting budget, error recovery around end_seq ---- *)
  (* once an error has been raised, what still runs before it is reported
     (inc_depth, end_seq) keeps the relation, whichever error is reported *)
  Hypothesis R0_rec1 : forall r e r1 x r2, R0 r (Some e) r1 -> R0 r1 x r2 -> R0 r (Some e) r2.
  Hypothesis R0_rec2 : forall r e r1 e' r2, R0 r (Some e) r1 -> R0 r1 (Some e') r2 -> R0 r (Some e') r2.

  Definition perase {A} (p : pres A) : option perr :=
    match p with POk _ => None | PErr (XErr e) => Some e | PErr (XPanic _) => Some EFuel end.
  Definition psat {A} (m : PM A) : Prop := forall s, R0 (rd s) (perase (fst (m s))) (rd (snd (m s))).

  Lemma psat_pret {A} (a : A) : psat (pret a).
  Proof. intros s. apply R0_ret. Qed.
  Lemma psat_panic {A} k : psat (@panic A k).
  Proof. intros s. apply R0_fuel. Qed.
  Lemma psat_fuel {A} : psat (@pfail A (XErr EFuel)).
  Proof. intros s. apply R0_fuel. Qed.
  Lemma psat_liftR {A} (m : M A) : sat m -> psat (liftR m).
  Proof.
    intros H s. unfold liftR. specialize (H (rd s)). unfold R in H.
    destruct (m (rd s)) as [[a|e] r']; cbn [fst snd rd perase erase] in *; exact H.
  Qed.
  Lemma psat_bind {A B} (m : PM A) (f : A -> PM B) : psat m -> (forall a, psat (f a)) -> psat (pbind m f).
  Proof.
    intros Hm Hf s. unfold pbind. specialize (Hm s). destruct (m s) as [[a|e] s1]; cbn [fst snd] in *.
    - eapply R0_seq; [exact Hm|apply Hf].
    - exact Hm.
  Qed.
  Lemma psat_get_depth : psat get_depth.
  Proof. intros s. apply R0_ret. Qed.
  Lemma psat_set_depth d : psat (set_depth d).
  Proof. intros s. apply R0_ret. Qed.

  Ltac psat_step :=
    first
      [ apply psat_pret | apply psat_panic | apply psat_fuel | apply psat_get_depth | apply psat_set_depth
      | assumption
      | apply psat_liftR; solve [auto with sat | apply sat_position | apply sat_peek_error | apply sat_peek
                                 | apply sat_parse_token | apply sat_end_seq | apply sat_parse_byte_list | apply sat_expect_end
                                 | apply sat_bind; [apply sat_eat|intros ?; apply sat_peek] ]
      | apply psat_bind; [|intros ?]
      | match goal with
        | |- psat (match ?x with _ => _ end) => destruct x
        | |- psat (if ?x then _ else _) => destruct x
        | |- psat (let '(_, _) := ?x in _) => destruct x
        end ].
  Ltac psat_auto := repeat psat_step.

  Lemma psat_dec_depth : psat dec_depth.
  Proof. unfold dec_depth. psat_auto. Qed.
  Lemma psat_inc_depth : psat inc_depth.
  Proof. unfold inc_depth. psat_auto. Qed.
  Lemma psat_enter_nesting : psat enter_nesting.
  Proof. pose proof psat_dec_depth. pose proof psat_inc_depth. unfold enter_nesting. psat_auto. Qed.

  Lemma pbind_unfold {A B} (m : PM A) (f : A -> PM B) s :
    pbind m f s = match m s with (POk a, s') => f a s' | (PErr e, s') => (PErr e, s') end.
  Proof. reflexivity. Qed.
  Lemma attempt_unfold {A} (m : PM A) s :
    attempt m s = match m s with
                  | (POk a, s') => (POk (Ok a), s')
                  | (PErr (XErr EFuel), s') => (PErr (XErr EFuel), s')
                  | (PErr (XPanic k), s') => (PErr (XPanic k), s')
                  | (PErr (XErr e), s') => (POk (Err e), s')
                  end.
  Proof. reflexivity. Qed.

  (* what runs after the body of a nested form failed with e0: inc_depth, then [after] *)
  Lemma psat_after_error {B} (after : PM B) e0 s1 s2 :
    R0 (rd s1) (Some e0) (rd s2) ->
    (forall s3, R0 (rd s1) (Some e0) (rd s3) ->
                R0 (rd s1) (perase (fst (after s3))) (rd (snd (after s3)))) ->
    R0 (rd s1) (perase (fst (pbind inc_depth (fun _ => after) s2))) (rd (snd (pbind inc_depth (fun _ => after) s2))).
  Proof.
    intros H0 Hafter. rewrite pbind_unfold. pose proof (psat_inc_depth s2) as Hi.
    destruct (inc_depth s2) as [[u|[e1|pk]] s3]; cbn [fst snd perase] in Hi |- *.
    - apply Hafter. eapply R0_rec1; [exact H0|exact Hi].
    - eapply R0_rec2; [exact H0|exact Hi].
    - eapply R0_rec2; [exact H0|exact Hi].
  Qed.

  (* attempt body; inc_depth; attempt end_seq; both; k *)
  Lemma psat_nest_seq {A B} (body : PM A) (endm : M unit) (k : A -> PM B) :
    psat body -> sat endm -> (forall a, psat (k a)) ->
    psat (pbind (attempt body) (fun r =>
          pbind inc_depth (fun _ =>
          pbind (attempt (liftR endm)) (fun e =>
          pbind (both r e) k)))).
  Proof.
    intros Hbody Hend Hk s1. pose proof (Hbody s1) as Hb.
    rewrite pbind_unfold, attempt_unfold.
    assert (Herr : forall e0 s2, e0 <> EFuel -> R0 (rd s1) (Some e0) (rd s2) ->
              let m := pbind inc_depth (fun _ => pbind (attempt (liftR endm)) (fun e1 => pbind (both (Err e0) e1) k)) in
              R0 (rd s1) (perase (fst (m s2))) (rd (snd (m s2)))).
    { intros e0 s2 Hne H0 m. unfold m. apply (psat_after_error _ e0 s1 s2 H0). intros s3 Hmid.
      rewrite pbind_unfold, attempt_unfold. pose proof (psat_liftR endm Hend s3) as He.
      destruct (liftR endm s3) as [[u'|[e1|pk]] s4]; cbn [fst snd perase] in He |- *.
      - rewrite pbind_unfold. cbn [both pfail fst snd perase]. eapply R0_rec1; [exact Hmid|exact He].
      - destruct e1; rewrite ?pbind_unfold; cbn [both pfail fst snd perase];
          first [eapply R0_rec1; [exact Hmid|exact He] | eapply R0_rec2; [exact Hmid|exact He]].
      - eapply R0_rec2; [exact Hmid|exact He]. }
    destruct (body s1) as [[a|[e|pk]] s2]; cbn [fst snd perase] in Hb.
    - (* body succeeded *)
      eapply R0_seq; [exact Hb|].
      apply (psat_bind inc_depth _ psat_inc_depth). intros _ s3.
      pose proof (psat_liftR endm Hend s3) as He.
      rewrite pbind_unfold, attempt_unfold.
      destruct (liftR endm s3) as [[u|[e|pk]] s4]; cbn [fst snd perase] in He |- *.
      + eapply R0_seq; [exact He|]. cbn [both]. apply (psat_bind (pret a) k (psat_pret a) Hk).
      + destruct e; rewrite ?pbind_unfold; cbn [both pfail fst snd perase]; exact He.
      + exact He.
    - destruct e as [c l cl|io|].
      + apply Herr; [discriminate|exact Hb].
      + apply Herr; [discriminate|exact Hb].
      + exact Hb.
    - exact Hb.
  Qed.

  (* attempt body; inc_depth; lift; k  (quotations) *)
  Lemma psat_nest_quote {A B} (body : PM A) (k : A -> PM B) :
    psat body -> (forall a, psat (k a)) ->
    psat (pbind (attempt body) (fun r => pbind inc_depth (fun _ => pbind (lift r) k))).
  Proof.
    intros Hbody Hk s1. pose proof (Hbody s1) as Hb.
    rewrite pbind_unfold, attempt_unfold.
    assert (Herr : forall e0 s2, R0 (rd s1) (Some e0) (rd s2) ->
              let m := pbind inc_depth (fun _ => pbind (lift (Err e0)) k) in
              R0 (rd s1) (perase (fst (m s2))) (rd (snd (m s2)))).
    { intros e0 s2 H0 m. unfold m. apply (psat_after_error _ e0 s1 s2 H0). intros s3 Hmid.
      rewrite pbind_unfold. cbn [lift pfail fst snd perase]. exact Hmid. }
    destruct (body s1) as [[a|[e|pk]] s2]; cbn [fst snd perase] in Hb.
    - eapply R0_seq; [exact Hb|].
      apply (psat_bind inc_depth _ psat_inc_depth). intros _. cbn [lift]. apply (psat_bind (pret a) k (psat_pret a) Hk).
    - destruct e as [c l cl|io|]; [apply Herr; exact Hb|apply Herr; exact Hb|exact Hb].
    - exact Hb.
  Qed.

  Local Notation next_value := (next_value ro alpha fast std_parse).
  Local Notation parse_list := (parse_list ro alpha fast std_parse).
  Local Notation parse_vector := (parse_vector ro alpha fast std_parse).
  Local Notation next_datum := (next_datum ro alpha fast std_parse).
  Local Notation parse_list_meta := (parse_list_meta ro alpha fast std_parse).
  Local Notation parse_vector_meta := (parse_vector_meta ro alpha fast std_parse).

  Ltac psat_main :=
    repeat first
      [ apply psat_nest_seq; [| solve [apply sat_end_seq] | intros ?]
      | apply psat_nest_quote; [| intros ?]
      | apply psat_bind; [solve [apply psat_enter_nesting]|intros ?]
      | psat_step ].

  Theorem psat_values fuel :
    psat (next_value fuel) /\ (forall t acc, psat (parse_list fuel t acc)) /\ (forall t acc, psat (parse_vector fuel t acc)).
  Proof.
    induction fuel as [|f (IHv & IHl & IHvec)].
    - split; [|split]; intros; cbn [Parser.next_value Parser.parse_list Parser.parse_vector]; apply psat_fuel.
    - split; [|split]; intros; cbn [Parser.next_value Parser.parse_list Parser.parse_vector]; psat_main; auto.
  Qed.

  Theorem psat_datums fuel :
    psat (next_datum fuel) /\ (forall t acc, psat (parse_list_meta fuel t acc)) /\
    (forall t acc, psat (parse_vector_meta fuel t acc)).
  Proof.
    induction fuel as [|f (IHv & IHl & IHvec)].
    - split; [|split]; intros; cbn [Parser.next_datum Parser.parse_list_meta Parser.parse_vector_meta]; apply psat_fuel.
    - split; [|split]; intros; cbn [Parser.next_datum Parser.parse_list_meta Parser.parse_vector_meta]; cbv zeta; psat_main; auto.
  Qed.

  Theorem psat_expect_value fuel : psat (expect_value ro alpha fast std_parse fuel).
  Proof. pose proof (proj1 (psat_values fuel)). unfold expect_value. psat_main. Qed.
  Theorem psat_expect_datum fuel : psat (expect_datum ro alpha fast std_parse fuel).
  Proof. pose proof (proj1 (psat_datums fuel)). unfold expect_datum. psat_main. Qed.
  Theorem psat_expect_end fuel : psat (expect_end_p fuel).
  Proof. unfold expect_end_p. psat_main. Qed.
End RelM.
