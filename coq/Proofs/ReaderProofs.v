(* The reader on pure byte input: what peek / next / discard and the
   whitespace loop do, for all three source kinds. *)
From Coq Require Import ZifyBool ZifyNat.
Require Import Base Utf8 Reader Scan.

(* the reader is positioned at the byte string [l] (no interrupts, no failures) *)
Definition at_bytes (r : reader) (l : bytes) : Prop := rinput r = bytes_events l.
(* a reader that may be discarded from: for IoRead the head byte has been peeked *)
Definition peeked (r : reader) : Prop := rk r = SrcIo -> rpending r = true.

Lemma skip_intr_bytes l : skip_intr (bytes_events l) = bytes_events l.
Proof. destruct l; reflexivity. Qed.

Lemma peek_nil r : at_bytes r [] -> exists r', r_peek r = (Ok None, r') /\ at_bytes r' [] /\ rk r' = rk r.
Proof.
  unfold at_bytes, r_peek. intros H. rewrite H. cbn [bytes_events map skip_intr].
  destruct (rpending r); eexists; (split; [reflexivity|]); unfold at_bytes; cbn; auto.
Qed.

Lemma peek_cons r b l : at_bytes r (b :: l) ->
  exists r', r_peek r = (Ok (Some b), r') /\ at_bytes r' (b :: l) /\ rpending r' = true /\ rk r' = rk r.
Proof.
  unfold at_bytes, r_peek. intros H. rewrite H. cbn [bytes_events map skip_intr].
  destruct (rpending r) eqn:E.
  - exists r. repeat split; auto.
  - eexists. split; [reflexivity|]. cbn. repeat split; auto.
Qed.

Lemma next_nil r : at_bytes r [] -> exists r', r_next r = (Ok None, r') /\ at_bytes r' [] /\ rk r' = rk r.
Proof.
  unfold at_bytes, r_next. intros H. rewrite H. cbn [bytes_events map skip_intr].
  destruct (rpending r); eexists; (split; [reflexivity|]); unfold at_bytes; cbn; auto.
Qed.

Lemma next_cons r b l : at_bytes r (b :: l) ->
  exists r', r_next r = (Ok (Some b), r') /\ at_bytes r' l /\ rk r' = rk r.
Proof.
  unfold at_bytes, r_next. intros H. rewrite H. cbn [bytes_events map skip_intr].
  destruct (rpending r); eexists; (split; [reflexivity|]); unfold consume;
    destruct (advance (rline r) (rcol r) b); cbn; auto.
Qed.

Lemma discard_cons r b l : at_bytes r (b :: l) -> peeked r ->
  at_bytes (r_discard r) l /\ rk (r_discard r) = rk r.
Proof.
  unfold at_bytes, r_discard, peeked. intros H Hp. rewrite H. cbn [bytes_events map].
  destruct (rk r) eqn:Ek.
  - unfold consume. destruct (advance (rline r) (rcol r) b). cbn. auto.
  - unfold consume. destruct (advance (rline r) (rcol r) b). cbn. auto.
  - rewrite (Hp eq_refl). unfold consume. destruct (advance (rline r) (rcol r) b). cbn. auto.
Qed.

(* monadic forms *)
Lemma m_peek_cons r b l : at_bytes r (b :: l) ->
  exists r', peek r = (Ok (Some b), r') /\ at_bytes r' (b :: l) /\ peeked r' /\ rk r' = rk r.
Proof.
  intros H. destruct (peek_cons r b l H) as (r' & E & Ha & Hp & Hk).
  exists r'. unfold peek, peeked. repeat split; auto.
Qed.
Lemma m_peek_nil r : at_bytes r [] -> exists r', peek r = (Ok None, r') /\ at_bytes r' [] /\ rk r' = rk r.
Proof. apply peek_nil. Qed.

Lemma m_eat r b l : at_bytes r (b :: l) -> peeked r ->
  exists r', eat_char r = (Ok tt, r') /\ at_bytes r' l /\ rk r' = rk r.
Proof.
  intros H Hp. destruct (discard_cons r b l H Hp) as [Ha Hk].
  exists (r_discard r). unfold eat_char. auto.
Qed.

Lemma m_peek_or_null_cons r b l : at_bytes r (b :: l) ->
  exists r', peek_or_null r = (Ok b, r') /\ at_bytes r' (b :: l) /\ peeked r' /\ rk r' = rk r.
Proof.
  intros H. destruct (m_peek_cons r b l H) as (r' & E & Ha & Hp & Hk).
  exists r'. unfold peek_or_null, bind, ret. rewrite E. auto.
Qed.
Lemma m_peek_or_null_nil r : at_bytes r [] ->
  exists r', peek_or_null r = (Ok 0, r') /\ at_bytes r' [] /\ rk r' = rk r.
Proof.
  intros H. destruct (m_peek_nil r H) as (r' & E & Ha & Hk).
  exists r'. unfold peek_or_null, bind, ret. rewrite E. auto.
Qed.

Lemma m_next_cons r b l : at_bytes r (b :: l) ->
  exists r', next_char r = (Ok (Some b), r') /\ at_bytes r' l /\ rk r' = rk r.
Proof. apply next_cons. Qed.
Lemma m_next_nil r : at_bytes r [] -> exists r', next_char r = (Ok None, r') /\ at_bytes r' [] /\ rk r' = rk r.
Proof. apply next_nil. Qed.

Lemma bind_ok {A B} (m : M A) (f : A -> M B) r a r' : m r = (Ok a, r') -> bind m f r = f a r'.
Proof. intros E. unfold bind. now rewrite E. Qed.
