(* Characters, strings and byte vectors read back from their printed text. *)
From Coq Require Import SpecFloat ZifyBool ZifyNat ZifyN.
Require Import Base Value Float PrintOptions Printer ParseOptions Utf8 Reader Scan Num NumberOps Parser.
Require Import ReaderProofs ScanProofs TextProofs TokenProofs NumTokenProofs.
Ltac Zify.zify_post_hook ::= Z.div_mod_to_equations.

Lemma next_or_eof_cons r b l : at_bytes r (b :: l) ->
  exists r', next_or_eof r = (Ok b, r') /\ at_bytes r' l /\ rk r' = rk r.
Proof.
  intros H. destruct (m_next_cons r b l H) as (r' & E & Ha & Hk).
  exists r'. unfold next_or_eof. rewrite (bind_ok _ _ _ _ _ E). unfold ret. auto.
Qed.
Lemma next_or_eof_char_cons r b l : at_bytes r (b :: l) ->
  exists r', next_or_eof_char r = (Ok b, r') /\ at_bytes r' l /\ rk r' = rk r.
Proof.
  intros H. destruct (m_next_cons r b l H) as (r' & E & Ha & Hk).
  exists r'. unfold next_or_eof_char. rewrite (bind_ok _ _ _ _ _ E). unfold ret. auto.
Qed.
Ltac step_noe :=
  match goal with
  | H : at_bytes ?r (?b :: ?l) |- context [bind next_or_eof _ ?r] =>
      let r' := fresh "r" in let E := fresh "E" in let Ha := fresh "Ha" in let Hk := fresh "Hk" in
      destruct (next_or_eof_cons r b l H) as (r' & E & Ha & Hk);
      rewrite (bind_ok _ _ _ _ _ E); clear E
  | H : at_bytes ?r (?b :: ?l) |- context [bind next_or_eof_char _ ?r] =>
      let r' := fresh "r" in let E := fresh "E" in let Ha := fresh "Ha" in let Hk := fresh "Hk" in
      destruct (next_or_eof_char_cons r b l H) as (r' & E & Ha & Hk);
      rewrite (bind_ok _ _ _ _ _ E); clear E
  end.

(* ---- hexadecimal ---- *)
Definition hexval (c : N) : N := match decode_hex_val c with Some v => v | None => 0 end.
Definition hfold (acc : N) (ds : bytes) : N := fold_left (fun a c => a * 16 + hexval c) ds acc.
Definition is_lower_hex (c : N) : bool := in_range 48 57 c || in_range 97 102 c.
Definition all_lower_hex (ds : bytes) : Prop := Forall (fun c => is_lower_hex c = true) ds.

Lemma hfold_app acc a b : hfold acc (a ++ b) = hfold (hfold acc a) b.
Proof. unfold hfold. apply fold_left_app. Qed.
Lemma hfold_ge ds : forall acc, acc <= hfold acc ds.
Proof.
  induction ds as [|d ds IH]; intros acc; cbn [hfold fold_left]; [lia|].
  specialize (IH (acc * 16 + hexval d)). unfold hfold in IH. lia.
Qed.

Lemma hexval_lower v : v < 16 -> is_lower_hex (hex_digit_lower v) = true /\ hexval (hex_digit_lower v) = v.
Proof.
  intros H. unfold hex_digit_lower, is_lower_hex, hexval, decode_hex_val, in_range.
  destruct (v <? 10) eqn:E.
  - replace ((48 <=? 48 + v) && (48 + v <=? 57)) with true by lia. split; [reflexivity|lia].
  - replace ((48 <=? 87 + v) && (87 + v <=? 57)) with false by lia.
    replace ((65 <=? 87 + v) && (87 + v <=? 70)) with false by lia.
    replace ((97 <=? 87 + v) && (87 + v <=? 102)) with true by lia. split; [reflexivity|lia].
Qed.

Lemma hex_digits_spec fuel : forall n acc, n < 2 ^ N.of_nat fuel ->
  exists ds, hex_digits_fuel (S fuel) n acc = ds ++ acc /\ ds <> [] /\ all_lower_hex ds /\ hfold 0 ds = n.
Proof.
  induction fuel as [|f IH]; intros n acc Hn.
  - assert (n = 0) by (change (2 ^ N.of_nat 0) with 1 in Hn; lia). subst n. exists [48]. cbn.
    repeat split; try discriminate. repeat constructor.
  - cbn [hex_digits_fuel]. destruct (hexval_lower (n mod 16) ltac:(lia)) as [Hl Hv16].
    destruct (n <? 16) eqn:E16.
    + exists [hex_digit_lower (n mod 16)]. repeat split; try discriminate.
      * constructor; [exact Hl|constructor].
      * unfold hfold; cbn [fold_left]. rewrite Hv16. lia.
    + assert (Hq : n / 16 < 2 ^ N.of_nat f).
      { rewrite Nat2N.inj_succ, N.pow_succ_r' in Hn. lia. }
      destruct (IH (n / 16) (hex_digit_lower (n mod 16) :: acc) Hq) as (ds & E & Hne & Hd & Hv).
      exists (ds ++ [hex_digit_lower (n mod 16)]). rewrite <- app_assoc. cbn [app]. repeat split.
      * exact E.
      * destruct ds; discriminate.
      * apply Forall_app. split; [exact Hd|]. constructor; [exact Hl|constructor].
      * rewrite hfold_app, Hv. unfold hfold; cbn [fold_left]. rewrite Hv16. lia.
Qed.

Lemma hex_of_N_spec n : exists ds, hex_of_N n = ds /\ ds <> [] /\ all_lower_hex ds /\ hfold 0 ds = n.
Proof.
  unfold hex_of_N. destruct (hex_digits_spec (N.size_nat n) n [] (size_nat_bound n)) as (ds & E & H).
  exists ds. rewrite E, app_nil_r. auto.
Qed.

Lemma lower_hex_facts c : is_lower_hex c = true ->
  decode_hex_val c = Some (hexval c) /\ is_delimiter_chr c = false.
Proof.
  unfold is_lower_hex, hexval, decode_hex_val, is_delimiter_chr, memb, in_range. cbn [existsb]. intros H.
  split; [|lia].
  destruct ((48 <=? c) && (c <=? 57)); [reflexivity|].
  destruct ((65 <=? c) && (c <=? 70)); [reflexivity|].
  destruct ((97 <=? c) && (c <=? 102)); [reflexivity|]. cbn in H. discriminate.
Qed.

Lemma delim_chr_of_delim_ok d rest : delim_ok (d :: rest) -> is_delimiter_chr d = true.
Proof. intros H. delim_cases H; reflexivity. Qed.

(* ---- #\ characters ---- *)
Lemma char_hex_loop ds : forall fuel r n rest, (length ds < fuel)%nat -> all_lower_hex ds -> delim_ok rest ->
  hfold n ds < cp_limit -> at_bytes r (ds ++ rest) -> ds <> [] \/ True ->
  forall first, (ds = [] -> first = false) ->
  exists r', r6rs_char_hex_loop fuel n first r = (Ok (Some (hfold n ds)), r') /\ at_bytes r' rest /\ rk r' = rk r.
Proof.
  induction ds as [|d ds IH]; intros fuel r n rest Hf Hd Hr Hmax Ha _ first Hfirst;
    (destruct fuel as [|f]; [cbn in Hf; lia|]); cbn [r6rs_char_hex_loop]; cbn [app] in Ha.
  - rewrite (Hfirst eq_refl). destruct rest as [|b rest].
    + step. exists r0. unfold ret. cbn [hfold fold_left]. repeat split; auto.
    + step. rewrite (delim_chr_of_delim_ok b rest Hr). exists r0. unfold ret. cbn [hfold fold_left]. repeat split; auto.
  - inversion Hd as [|? ? Hdig Hd']; subst. destruct (lower_hex_facts d Hdig) as [Hdec Hnd].
    step. rewrite Hnd. step. rewrite Hdec.
    change (hfold n (d :: ds)) with (hfold (n * 16 + hexval d) ds) in *.
    pose proof (hfold_ge ds (n * 16 + hexval d)) as Hge.
    assert (Elim : (cp_limit <=? n) = false) by (unfold cp_limit in *; lia). rewrite Elim.
    destruct (IH f r1 (n * 16 + hexval d) rest ltac:(cbn in Hf; lia) Hd' Hr Hmax Ha1 (or_intror I) false ltac:(reflexivity))
      as (r2 & E & Ha2 & Hk2).
    exists r2. repeat split; auto; congruence.
Qed.

Lemma char_hex_loop_none fuel r n rest : (0 < fuel)%nat -> delim_ok rest -> at_bytes r rest ->
  exists r', r6rs_char_hex_loop fuel n true r = (Ok None, r') /\ at_bytes r' rest /\ rk r' = rk r.
Proof.
  intros Hf Hr Ha. destruct fuel as [|f]; [lia|]. cbn [r6rs_char_hex_loop]. destruct rest as [|b rest].
  - step. exists r0. unfold ret. auto.
  - step. rewrite (delim_chr_of_delim_ok b rest Hr). exists r0. unfold ret. auto.
Qed.

Lemma parse_char_spec fuel r c rest : is_scalar c = true -> (length (char_text c) < fuel)%nat -> delim_ok rest ->
  at_bytes r (char_text c ++ rest) ->
  exists body, char_text c = 35 :: 92 :: body /\
    forall r1, at_bytes r1 (body ++ rest) -> rk r1 = rk r ->
    exists r', parse_r6rs_char fuel r1 = (Ok c, r') /\ at_bytes r' rest /\ rk r' = rk r.
Proof.
  intros Hs Hf Hr _. unfold char_text in *. destruct ((32 <=? c) && (c <? 127)) eqn:Ep.
  - exists [c]. split; [reflexivity|]. intros r1 Ha Hk1. cbn [app] in Ha. unfold parse_r6rs_char.
    step_noe. destruct (c =? 120) eqn:Ex.
    + assert (c = 120) by lia. subst c.
      destruct (char_hex_loop_none fuel r0 0 rest ltac:(cbn in Hf; lia) Hr Ha0) as (r2 & E2 & Ha2 & Hk2).
      rewrite (bind_ok _ _ _ _ _ E2). exists r2. unfold ret. repeat split; auto; congruence.
    + replace (127 <? c) with false by lia. destruct rest as [|b rest].
      * step. exists r2. unfold ret. repeat split; auto; congruence.
      * step. rewrite (delim_chr_of_delim_ok b rest Hr). exists r2. unfold ret. repeat split; auto; congruence.
  - destruct (hex_of_N_spec c) as (ds & E & Hne & Hd & Hv). rewrite E in *.
    exists (120 :: ds). split; [reflexivity|]. intros r1 Ha Hk1. cbn [app] in Ha. unfold parse_r6rs_char.
    step_noe. change (120 =? 120) with true. cbv iota.
    assert (Hlim : hfold 0 ds < cp_limit) by (rewrite Hv; unfold is_scalar, cp_limit in *; lia).
    destruct (char_hex_loop ds fuel r0 0 rest ltac:(cbn in Hf; lia) Hd Hr Hlim Ha0 (or_intror I) true
                ltac:(intros ->; contradiction)) as (r2 & E2 & Ha2 & Hk2).
    rewrite (bind_ok _ _ _ _ _ E2). unfold open_ended_char. rewrite Hv, Hs. exists r2. unfold ret. repeat split; auto; congruence.
Qed.

Section CharTokens.
  Variable alpha : N -> bool.
  Variable fast : bool.
  Variable std_parse : N -> Z -> f64.
  Local Notation ro := default_ro.
  Local Notation parse_token := (parse_token ro alpha fast std_parse).

  Theorem tok_char fuel r c rest : is_scalar c = true -> (length (char_text c) < fuel)%nat -> delim_ok rest ->
    at_bytes r (char_text c ++ rest) -> peeked r ->
    exists r', parse_token fuel 35 r = (Ok (TChar c), r') /\ at_bytes r' rest /\ rk r' = rk r.
  Proof.
    intros Hs Hf Hr Ha Hp. destruct (parse_char_spec fuel r c rest Hs Hf Hr Ha) as (body & Eb & Hbody).
    rewrite Eb in Ha. cbn [app] in Ha. rewrite token_hash. unfold hash_arm. step. step. cbv beta iota.
    change (92 =? 116) with false. change (92 =? 102) with false. change (92 =? 110) with false.
    change (92 =? 40) with false. change (92 =? 58) with false. change (92 =? 118) with false.
    change (92 =? 117) with false. change (92 =? 98) with false. change (92 =? 111) with false.
    change (92 =? 100) with false. change (92 =? 120) with false. change (92 =? 92) with true. cbn [andb]. cbv iota.
    destruct (Hbody r1 Ha1 ltac:(congruence)) as (r2 & E2 & Ha2 & Hk2).
    rewrite (bind_ok _ _ _ _ _ E2). exists r2. unfold ret. auto.
  Qed.
End CharTokens.

(* ---- strings ---- *)
Ltac eval_eqb :=
  repeat match goal with
         | |- context [N.eqb ?a ?b] =>
             let v := eval vm_compute in (N.eqb a b) in
             match v with
             | true => change (N.eqb a b) with true
             | false => change (N.eqb a b) with false
             end
         end; cbv iota.

Lemma hex_upper_facts v : v < 16 ->
  decode_hex_val (hex_digit_upper v) = Some v /\ (hex_digit_upper v =? 59) = false.
Proof.
  intros H. unfold hex_digit_upper, decode_hex_val, in_range. destruct (v <? 10) eqn:E.
  - replace ((48 <=? 48 + v) && (48 + v <=? 57)) with true by lia. split; [f_equal; lia|lia].
  - replace ((48 <=? 55 + v) && (55 + v <=? 57)) with false by lia.
    replace ((65 <=? 55 + v) && (55 + v <=? 70)) with true by lia. split; [f_equal; lia|lia].
Qed.

(* every escape the printer writes is a backslash followed by text that
   parse_r6rs_escape turns back into the escaped byte *)
Lemma escape_roundtrip b e : escape_of b = Some e ->
  exists body, esc_bytes b = 92 :: body /\
    forall fuel r tail, (4 < fuel)%nat -> at_bytes r (body ++ tail) ->
    exists r', parse_r6rs_escape fuel r = (Ok [b], r') /\ at_bytes r' tail /\ rk r' = rk r.
Proof.
  intros He. unfold esc_bytes. rewrite He. unfold escape_of in He.
  Ltac simple_esc b k :=
    assert (b = k) by lia; subst b;
    match goal with He : Some _ = Some _ |- _ => inversion He; subst; clear He end;
    eexists; split; [reflexivity|]; intros fuel r tail Hf Ha; cbn [app] in Ha;
    unfold parse_r6rs_escape; step_noe; eval_eqb;
    match goal with |- exists r', ret _ ?r0 = _ /\ _ => exists r0; unfold ret; auto end.
  destruct (b =? 7) eqn:E7; [simple_esc b 7|].
  destruct (b =? 8) eqn:E8; [simple_esc b 8|].
  destruct (b =? 9) eqn:E9; [simple_esc b 9|].
  destruct (b =? 10) eqn:E10; [simple_esc b 10|].
  destruct (b =? 13) eqn:E13; [simple_esc b 13|].
  destruct (b =? 34) eqn:E34; [simple_esc b 34|].
  destruct (b =? 92) eqn:E92; [simple_esc b 92|].
  destruct ((b <? 32) || (b =? 127)) eqn:Ec; [|discriminate].
  inversion He; subst e; clear He. cbn [write_r6rs_char_escape flatten wall app].
  assert (Hb : b < 128) by lia.
  destruct (hex_upper_facts (b / 16) ltac:(lia)) as [Hd1 Hs1].
  destruct (hex_upper_facts (b mod 16) ltac:(lia)) as [Hd2 Hs2].
  eexists. split; [cbn; reflexivity|]. intros fuel r tail Hf Ha. cbn [app] in Ha.
  unfold parse_r6rs_escape. step_noe. eval_eqb.
  unfold decode_r6rs_hex_escape.
  destruct fuel as [|[|[|[|f]]]]; try lia.
  assert (exists r', hex_escape_loop (S (S (S (S f)))) 0 r0 = (Ok b, r') /\ at_bytes r' tail /\ rk r' = rk r0)
    as (r' & E' & Ha' & Hk').
  { cbn [hex_escape_loop]. step_noe. rewrite Hs1, Hd1. change (cp_limit <=? 0) with false. cbv iota.
    step_noe. rewrite Hs2, Hd2. replace (cp_limit <=? 0 * 16 + b / 16) with false by (unfold cp_limit; lia).
    step_noe. change (59 =? 59) with true. cbv iota. exists r3. unfold ret.
    split; [f_equal; f_equal; lia|]. split; [auto|congruence]. }
  rewrite (bind_ok _ _ _ _ _ E'). replace (is_scalar b) with true by (unfold is_scalar; lia).
  unfold utf8_encode. replace (b <? 128) with true by lia. exists r'. unfold ret. repeat split; auto; congruence.
Qed.

Lemma escape_none_plain b : escape_of b = None -> esc_bytes b = [b] /\ (b =? 34) = false /\ (b =? 92) = false.
Proof.
  intros H. unfold esc_bytes. rewrite H. split; [reflexivity|]. unfold escape_of in H.
  destruct (b =? 7); [discriminate|]. destruct (b =? 8); [discriminate|]. destruct (b =? 9); [discriminate|].
  destruct (b =? 10); [discriminate|]. destruct (b =? 13); [discriminate|].
  destruct (b =? 34); [discriminate|]. destruct (b =? 92); [discriminate|]. auto.
Qed.

Definition str_body (s : bytes) : bytes := flat_map esc_bytes s.

Lemma r6rs_str_io_spec s : forall fuel scratch r rest, (length (str_body s) + 5 < fuel)%nat ->
  at_bytes r (str_body s ++ 34 :: rest) ->
  exists r', r6rs_str_io fuel scratch r = (Ok (scratch ++ s), r') /\ at_bytes r' rest /\ rk r' = rk r.
Proof.
  induction s as [|b s IH]; intros fuel scratch r rest Hf Ha;
    (destruct fuel as [|f]; [lia|]); cbn [r6rs_str_io]; cbn [str_body flat_map app] in Ha, Hf.
  - step_noe. change (34 =? 34) with true. cbv iota. exists r0. unfold ret. rewrite app_nil_r. auto.
  - fold (str_body s) in *. rewrite app_length in Hf. destruct (escape_of b) as [e|] eqn:Ee.
    + destruct (escape_roundtrip b e Ee) as (body & Eb & Hbody). rewrite Eb in *. cbn [app length] in Ha, Hf.
      step_noe. change (92 =? 34) with false. change (92 =? 92) with true. cbv iota.
      rewrite <- app_assoc in Ha0.
      destruct (Hbody f r0 (str_body s ++ 34 :: rest) ltac:(lia) Ha0) as (r1 & E1 & Ha1 & Hk1).
      rewrite (bind_ok _ _ _ _ _ E1).
      destruct (IH f (scratch ++ [b]) r1 rest ltac:(lia) Ha1) as (r2 & E2 & Ha2 & Hk2).
      exists r2. rewrite E2, <- app_assoc. repeat split; auto; congruence.
    + destruct (escape_none_plain b Ee) as (Eb & E34 & E92). rewrite Eb in *. cbn [app length] in Ha, Hf.
      step_noe. rewrite E34, E92.
      destruct (IH f (scratch ++ [b]) r0 rest ltac:(lia) Ha0) as (r2 & E2 & Ha2 & Hk2).
      exists r2. rewrite E2, <- app_assoc. repeat split; auto; congruence.
Qed.

(* SliceRead: runs of plain bytes are copied in one piece *)
Definition plain_run (p : bytes) : Prop := Forall (fun b => escape_of b = None) p.

Lemma span_plain_run p : forall t tail acc, plain_run p -> t = 92 \/ t = 34 ->
  span_plain (bytes_events (p ++ t :: tail)) acc = (acc ++ p, bytes_events (t :: tail)).
Proof.
  induction p as [|b p IH]; intros t tail acc Hp Ht; cbn [app bytes_events map span_plain].
  - replace ((t =? 92) || (t =? 34)) with true by lia. rewrite app_nil_r. reflexivity.
  - inversion Hp as [|? ? Hb Hp']; subst. destruct (escape_none_plain b Hb) as (_ & E34 & E92).
    rewrite E34, E92. cbn [orb]. fold (bytes_events (p ++ t :: tail)).
    rewrite (IH t tail (acc ++ [b]) Hp' Ht), <- app_assoc. reflexivity.
Qed.

Fixpoint split_plain (s : bytes) : bytes * bytes :=
  match s with
  | [] => ([], [])
  | b :: s' => match escape_of b with
               | None => let '(p, q) := split_plain s' in (b :: p, q)
               | Some _ => ([], s)
               end
  end.

Lemma split_plain_spec s : let '(p, q) := split_plain s in
  s = p ++ q /\ plain_run p /\ str_body s = p ++ str_body q /\ (length q <= length s)%nat /\
  match q with [] => True | e :: _ => escape_of e <> None end.
Proof.
  induction s as [|b s IH]; cbn [split_plain].
  - repeat split; auto. constructor.
  - destruct (escape_of b) as [e|] eqn:Ee.
    + repeat split; auto. constructor. congruence.
    + destruct (split_plain s) as [p q]. destruct IH as (Hs & Hp & Hb & Hl & Hq).
      repeat split.
      * cbn [app]. congruence.
      * constructor; assumption.
      * cbn [str_body flat_map]. fold (str_body s). destruct (escape_none_plain b Ee) as (-> & _). cbn [app]. congruence.
      * cbn [length]. lia.
      * exact Hq.
Qed.

Lemma consume_at r b l : at_bytes (consume r b (bytes_events l)) l /\ rk (consume r b (bytes_events l)) = rk r.
Proof. unfold consume, at_bytes. destruct (advance (rline r) (rcol r) b). cbn. auto. Qed.

Lemma r6rs_str_slice_spec n : forall s, (length s <= n)%nat -> forall fuel scratch r rest,
  (length (str_body s) + 5 < fuel)%nat -> at_bytes r (str_body s ++ 34 :: rest) ->
  exists r', r6rs_str_slice fuel scratch r = (Ok (scratch ++ s), r') /\ at_bytes r' rest /\ rk r' = rk r.
Proof.
  induction n as [|n IH]; intros s Hlen fuel scratch r rest Hf Ha;
    (destruct fuel as [|f]; [lia|]); cbn [r6rs_str_slice];
    pose proof (split_plain_spec s) as Hsp; destruct (split_plain s) as [p q];
    destruct Hsp as (Hs & Hp & Hb & Hl & Hq); unfold at_bytes in Ha; rewrite Ha, Hb, <- app_assoc.
  - destruct q as [|e q]; [|subst s; rewrite app_length in Hlen; cbn in Hlen; lia].
    cbn [str_body flat_map app]. rewrite (span_plain_run p 34 rest [] Hp (or_intror eq_refl)).
    cbn [app bytes_events map]. fold (bytes_events rest). change (34 =? 34) with true. cbv iota.
    destruct (advance_over_at r p (34 :: rest)) as [_ Hk1]. cbn [bytes_events map] in Hk1. fold (bytes_events rest) in Hk1.
    destruct (consume_at (advance_over r p (EByte 34 :: bytes_events rest)) 34 rest) as [Ha2 Hk2].
    rewrite app_nil_r in Hs. subst s. eexists. unfold ret. split; [reflexivity|]. split; [exact Ha2|congruence].
  - destruct q as [|e q].
    + cbn [str_body flat_map app]. rewrite (span_plain_run p 34 rest [] Hp (or_intror eq_refl)).
      cbn [app bytes_events map]. fold (bytes_events rest). change (34 =? 34) with true. cbv iota.
      destruct (advance_over_at r p (34 :: rest)) as [_ Hk1]. cbn [bytes_events map] in Hk1. fold (bytes_events rest) in Hk1.
      destruct (consume_at (advance_over r p (EByte 34 :: bytes_events rest)) 34 rest) as [Ha2 Hk2].
      rewrite app_nil_r in Hs. subst s. eexists. unfold ret. split; [reflexivity|]. split; [exact Ha2|congruence].
    + destruct (escape_of e) as [esc|] eqn:Ee; [|contradiction].
      destruct (escape_roundtrip e esc Ee) as (body & Eb & Hbody).
      cbn [str_body flat_map]. fold (str_body q). rewrite Eb. cbn [app]. rewrite <- app_assoc.
      rewrite (span_plain_run p 92 (body ++ str_body q ++ 34 :: rest) [] Hp (or_introl eq_refl)).
      cbn [app bytes_events map]. fold (bytes_events (body ++ str_body q ++ 34 :: rest)).
      change (92 =? 34) with false. cbv iota.
      set (tailtxt := body ++ str_body q ++ 34 :: rest).
      destruct (advance_over_at r p (92 :: tailtxt)) as [_ Hk1]. cbn [bytes_events map] in Hk1. fold (bytes_events tailtxt) in Hk1.
      destruct (consume_at (advance_over r p (EByte 92 :: bytes_events tailtxt)) 92 tailtxt) as [Ha2 Hk2].
      set (r2 := consume (advance_over r p (EByte 92 :: bytes_events tailtxt)) 92 (bytes_events tailtxt)) in *.
      assert (Hlens : (length (str_body s) = length p + S (length body) + length (str_body q))%nat).
      { rewrite Hb. cbn [str_body flat_map]. fold (str_body q). rewrite Eb. rewrite !app_length. cbn [length]. lia. }
      destruct (Hbody f r2 (str_body q ++ 34 :: rest) ltac:(lia) Ha2) as (r3 & E3 & Ha3 & Hk3).
      rewrite (bind_ok _ _ _ _ _ E3).
      assert (Hq' : (length q <= n)%nat) by (subst s; rewrite app_length in Hlen; cbn in Hlen; lia).
      destruct (IH q Hq' f (scratch ++ p ++ [e]) r3 rest ltac:(lia) Ha3) as (r4 & E4 & Ha4 & Hk4).
      exists r4. rewrite E4. subst s. rewrite <- !app_assoc. cbn [app]. repeat split; auto; congruence.
Qed.

Lemma parse_r6rs_str_spec s fuel r rest : utf8_valid s = true -> (length (str_body s) + 5 < fuel)%nat ->
  at_bytes r (str_body s ++ 34 :: rest) ->
  exists r', parse_r6rs_str_rd fuel r = (Ok s, r') /\ at_bytes r' rest /\ rk r' = rk r.
Proof.
  intros Hv Hf Ha. unfold parse_r6rs_str_rd. destruct (rk r) eqn:Ek.
  - destruct (r6rs_str_slice_spec (length s) s (le_n _) fuel [] r rest Hf Ha) as (r' & E & Ha' & Hk').
    rewrite (bind_ok _ _ _ _ _ E). cbn [app]. unfold finish_str, Scan.as_str. rewrite Hk', Ek. cbv iota. rewrite ?Hv. exists r'. unfold ret. repeat split; auto; congruence.
  - destruct (r6rs_str_slice_spec (length s) s (le_n _) fuel [] r rest Hf Ha) as (r' & E & Ha' & Hk').
    rewrite (bind_ok _ _ _ _ _ E). cbn [app]. unfold finish_str, Scan.as_str. rewrite Hk', Ek. cbv iota. rewrite ?Hv. exists r'. unfold ret. repeat split; auto; congruence.
  - destruct (r6rs_str_io_spec s fuel [] r rest Hf Ha) as (r' & E & Ha' & Hk').
    rewrite (bind_ok _ _ _ _ _ E). cbn [app]. unfold Scan.as_str. rewrite Hv. exists r'. unfold ret. repeat split; auto; congruence.
Qed.

Section StrTokens.
  Variable alpha : N -> bool.
  Variable fast : bool.
  Variable std_parse : N -> Z -> f64.
  Local Notation ro := default_ro.
  Local Notation parse_token := (parse_token ro alpha fast std_parse).

  Theorem tok_string fuel r s rest : utf8_valid s = true -> (length (str_text s) + 5 < fuel)%nat ->
    at_bytes r (str_text s ++ rest) -> peeked r ->
    exists r', parse_token fuel 34 r = (Ok (TString s), r') /\ at_bytes r' rest /\ rk r' = rk r.
  Proof.
    intros Hv Hf Ha Hp. unfold str_text in *. fold (str_body s) in *. cbn [app] in Ha. rewrite <- app_assoc in Ha. cbn [app] in Ha.
    assert (E : parse_token fuel 34 = (eat_char ;;; s <- parse_r6rs_str_rd fuel ;; ret (TString s))) by reflexivity.
    rewrite E. step.
    destruct (parse_r6rs_str_spec s fuel r0 rest Hv ltac:(rewrite !app_length in Hf; cbn [length] in Hf; lia) Ha0)
      as (r1 & E1 & Ha1 & Hk1).
    rewrite (bind_ok _ _ _ _ _ E1). exists r1. unfold ret. repeat split; auto; congruence.
  Qed.
End StrTokens.

(* ---- byte vectors ---- *)
Lemma digit_starts_datum d : is_digit d = true -> starts_datum d.
Proof. unfold is_digit, in_range, starts_datum, is_ws, memb. cbn [existsb]. intros H. split; lia. Qed.

Lemma close_starts_datum : starts_datum 41.
Proof. split; [reflexivity|discriminate]. Qed.

Section ByteVec.
  Variable fast : bool.
  Variable std_parse : N -> Z -> f64.

  Lemma parse_number_digits fuel r d ds rest : (length (d :: ds) < fuel)%nat -> all_digits (d :: ds) -> delim_ok rest ->
    dfold 0 (d :: ds) <= u64_MAX -> at_bytes r ((d :: ds) ++ rest) ->
    exists r', parse_number fast std_parse fuel r = (Ok (PosInt (dfold 0 (d :: ds))), r') /\
               at_bytes r' rest /\ rk r' = rk r.
  Proof.
    intros Hf Hd Hr Hmax Ha. pose proof (Forall_inv Hd) as Hdig. cbv beta in Hdig.
    pose proof Hdig as Hdig'. unfold is_digit, in_range in Hdig'.
    unfold parse_number, parse_radix_literal. cbn [app] in Ha.
    step. replace (d =? 35) with false by lia. step.
    replace (d =? 45) with false by lia. replace (d =? 43) with false by lia.
    destruct (num_token_digits fast std_parse fuel r1 true d ds rest Hf Hd Hr Hmax Ha1) as (r2 & E & Ha2 & Hk2).
    exists r2. rewrite E. unfold int_result. repeat split; auto; congruence.
  Qed.

  Definition octets_ok (bs : bytes) : Prop := Forall (fun o => o < 256) bs.

  Lemma byte_list_loop_spec bs : forall fuel r acc rest first, octets_ok bs ->
    (length (octets_text first bs) + 8 < fuel)%nat ->
    at_bytes r (octets_text first bs ++ 41 :: rest) ->
    exists r', byte_list_loop fast std_parse fuel 41 acc r = (Ok (acc ++ bs), r') /\ at_bytes r' rest /\ rk r' = rk r.
  Proof.
    induction bs as [|o bs IH]; intros fuel r acc rest first Hok Hf Ha;
      (destruct fuel as [|f]; [lia|]); cbn [byte_list_loop]; cbn [octets_text app] in Ha, Hf.
    - destruct (ws_here f r 41 rest ltac:(lia) Ha close_starts_datum) as (r1 & E1 & Ha1 & Hp1 & Hk1).
      rewrite (bind_ok _ _ _ _ _ E1). change (41 =? 41) with true. cbv iota. step.
      exists r0. unfold ret. rewrite app_nil_r. repeat split; auto; congruence.
    - inversion Hok as [|? ? Ho Hok']; subst.
      destruct (dec_of_N_spec o) as (ds & E & Hne & Hd & Hv & _). rewrite E in *.
      destruct ds as [|d ds]; [contradiction|]. pose proof (Forall_inv Hd) as Hdig. cbv beta in Hdig.
      assert (Hstart : exists r1, parse_whitespace f r = (Ok (Some d), r1) /\
                                  at_bytes r1 ((d :: ds) ++ octets_text false bs ++ 41 :: rest) /\ peeked r1 /\ rk r1 = rk r).
      { destruct first; cbn [app] in Ha.
        - rewrite <- app_assoc in Ha. cbn [app] in Ha.
          apply (ws_here f r d _ ltac:(lia) Ha (digit_starts_datum d Hdig)).
        - rewrite <- app_assoc in Ha. cbn [app] in Ha.
          apply (ws_space f r d _ ltac:(lia) Ha (digit_starts_datum d Hdig)). }
      destruct Hstart as (r1 & E1 & Ha1 & Hp1 & Hk1). rewrite (bind_ok _ _ _ _ _ E1).
      replace (d =? 41) with false by (unfold is_digit, in_range in Hdig; lia).
      assert (Hr : delim_ok (octets_text false bs ++ 41 :: rest)).
      { destruct bs as [|o' bs']; reflexivity. }
      rewrite !app_length in Hf. cbn [length] in Hf.
      destruct (parse_number_digits f r1 d ds _ ltac:(destruct first; cbn [length] in Hf |- *; lia) Hd Hr
                  ltac:(rewrite Hv; unfold u64_MAX; lia) Ha1) as (r2 & E2 & Ha2 & Hk2).
      rewrite (bind_ok _ _ _ _ _ E2). rewrite Hv. cbn [num_as_u64]. replace (255 <? o) with false by lia.
      destruct (IH f r2 (acc ++ [o]) rest false Hok' ltac:(lia) Ha2) as (r3 & E3 & Ha3 & Hk3).
      exists r3. rewrite E3, <- app_assoc. repeat split; auto; congruence.
  Qed.

  Lemma parse_byte_list_spec fuel r bs rest : octets_ok bs ->
    (length (octets_text true bs) + 9 < fuel)%nat ->
    at_bytes r (40 :: octets_text true bs ++ 41 :: rest) ->
    exists r', parse_byte_list fast std_parse fuel 41 r = (Ok bs, r') /\ at_bytes r' rest /\ rk r' = rk r.
  Proof.
    intros Hok Hf Ha. unfold parse_byte_list.
    destruct (ws_here fuel r 40 _ ltac:(lia) Ha ltac:(split; [reflexivity|discriminate])) as (r1 & E1 & Ha1 & Hp1 & Hk1).
    rewrite (bind_ok _ _ _ _ _ E1). change (40 =? 40) with true. cbv iota. step.
    destruct (byte_list_loop_spec bs fuel r0 [] rest true Hok ltac:(lia) Ha0) as (r2 & E2 & Ha2 & Hk2).
    exists r2. rewrite E2. cbn [app]. repeat split; auto; congruence.
  Qed.
End ByteVec.
