(* C17, printer side: for every value whose strs are well-formed UTF-8 and
   every printer option set the printed text is well-formed UTF-8. *)
From Coq Require Import SpecFloat Lia ZifyBool ZifyNat ZifyN.
Require Import Base Value Float PrintOptions Printer Utf8 Scan.
Require Import PrinterProofs Utf8Proofs NumTokenProofs CharStrProofs.

Definition U (tr : trace) : Prop := seqs (flatten tr).

Lemma U_nil : U [].  Proof. constructor. Qed.
Lemma U_app a b : U a -> U b -> U (a ++ b).
Proof. unfold U. rewrite flatten_app. apply seqs_app. Qed.
Lemma U_wall_ascii l : all_ascii l -> U (wall l).
Proof. unfold U. rewrite flatten_wall. apply ascii_seqs. Qed.
Lemma U_wall_seqs l : seqs l -> U (wall l).
Proof. unfold U. now rewrite flatten_wall. Qed.
#[export] Hint Resolve U_nil U_app : utf8.

Lemma digits_ascii ds : all_digits ds -> all_ascii ds.
Proof. apply Forall_impl. intros b H. unfold is_digit, in_range in H. lia. Qed.
Lemma lower_hex_ascii ds : all_lower_hex ds -> all_ascii ds.
Proof. apply Forall_impl. intros b H. unfold is_lower_hex, in_range in H. lia. Qed.
Lemma dec_ascii n : all_ascii (dec_of_N n).
Proof. destruct (dec_of_N_spec n) as (ds & -> & _ & Hd & _). apply digits_ascii, Hd. Qed.
Lemma hex_ascii n : all_ascii (hex_of_N n).
Proof. destruct (hex_of_N_spec n) as (ds & -> & _ & Hd & _). apply lower_hex_ascii, Hd. Qed.
Lemma dec_Z_ascii z : all_ascii (dec_of_Z z).
Proof.
  destruct z as [|p|p]; cbn [dec_of_Z]; [repeat constructor; lia|apply dec_ascii|].
  constructor; [lia|apply dec_ascii].
Qed.

Ltac ascii_lit := repeat constructor; lia.

Record utf8_fmt (F : formatter) : Prop := {
  u_nil : U (write_nil F);
  u_null : U (write_null F);
  u_bool : forall b, U (write_bool F b);
  u_number : forall n, U (write_number F n);
  u_char : forall c, U (write_char F c);
  u_bstr : U (begin_string F);
  u_estr : U (end_string F);
  u_frag : forall s, write_string_fragment F s = wall s;
  u_esc : forall b e, escape_of b = Some e -> all_ascii (flatten (write_char_escape F e));
  u_sym : forall s, seqs s -> U (write_symbol F s);
  u_kw : forall s, seqs s -> U (write_keyword F s);
  u_bytes : forall b, U (write_bytes F b);
  u_blist : U (begin_list F);
  u_elist : U (end_list F);
  u_bse : forall b, U (begin_seq_element F b);
  u_ese : U (end_seq_element F);
  u_bvec : forall k, U (begin_vector F k);
  u_evec : U (end_vector F);
  u_dot : U (write_dot F);
}.

Section Utf8Print.
  Variable ryu : f64 -> bytes.
  (* ryu writes digits, '.', 'e', '-', "NaN", "inf": an oracle, assumed ASCII *)
  Hypothesis ryu_ascii : forall f, all_ascii (ryu f).

  Lemma U_number n : U (d_write_number ryu n).
  Proof. destruct n; cbn [d_write_number]; apply U_wall_ascii; auto using dec_ascii, dec_Z_ascii. Qed.

  Lemma U_scheme_char c : U (write_scheme_char c).
  Proof.
    unfold write_scheme_char. destruct ((32 <=? c) && (c <? 127))%bool eqn:E.
    - apply U_wall_ascii. repeat constructor; lia.
    - apply U_app; apply U_wall_ascii; [ascii_lit|apply hex_ascii].
  Qed.
  Lemma U_elisp_char c : U (write_elisp_char c).
  Proof.
    unfold write_elisp_char. destruct ((32 <=? c) && (c <? 127))%bool eqn:E.
    - destruct (memb c ELISP_ESCAPE_CHARS); apply U_wall_ascii; repeat constructor; lia.
    - apply U_app; apply U_wall_ascii; [ascii_lit|apply hex_ascii].
  Qed.

  Lemma U_octets first bs : U (octets d_begin_seq_element [] first bs).
  Proof.
    revert first. induction bs as [|o bs IH]; intros first; cbn [octets]; [apply U_nil|].
    apply U_app; [destruct first; cbn [d_begin_seq_element]; [apply U_nil|apply U_wall_ascii; ascii_lit]|].
    apply U_app; [apply U_wall_ascii, dec_ascii|]. apply U_app; [apply U_nil|apply IH].
  Qed.
  Lemma U_elisp_octets bs : U (elisp_octets bs).
  Proof.
    induction bs as [|o bs IH]; cbn [elisp_octets]; [apply U_nil|].
    repeat apply U_app; try exact IH; apply U_wall_ascii; unfold octal_digit; repeat constructor; lia.
  Qed.

  Lemma hex_upper_ascii v : v < 16 -> hex_digit_upper v < 128.
  Proof. unfold hex_digit_upper. destruct (v <? 10); lia. Qed.

  Lemma escape_of_ctrl b c : escape_of b = Some (EAsciiControl c) -> c < 128.
  Proof.
    unfold escape_of. intros H.
    destruct (b =? 7); [discriminate|]. destruct (b =? 8); [discriminate|]. destruct (b =? 9); [discriminate|].
    destruct (b =? 10); [discriminate|]. destruct (b =? 13); [discriminate|]. destruct (b =? 34); [discriminate|].
    destruct (b =? 92); [discriminate|]. destruct ((b <? 32) || (b =? 127))%bool eqn:E; [|discriminate].
    inversion H; subst. lia.
  Qed.
  Lemma esc_r6rs_ascii b e : escape_of b = Some e -> all_ascii (flatten (write_r6rs_char_escape e)).
  Proof.
    intros H. destruct e as [| | | | | | |c]; cbn; try ascii_lit. pose proof (escape_of_ctrl b c H) as Hc.
    repeat (constructor; [first [lia | apply hex_upper_ascii; lia]|]). constructor.
  Qed.
  Lemma esc_elisp_ascii b e : escape_of b = Some e -> all_ascii (flatten (write_elisp_char_escape e)).
  Proof.
    intros H. destruct e as [| | | | | | |c]; cbn; try ascii_lit. pose proof (escape_of_ctrl b c H) as Hc.
    repeat (constructor; [first [lia | apply hex_upper_ascii; lia]|]). constructor.
  Qed.

  Lemma utf8_default : utf8_fmt (default_fmt ryu).
  Proof.
    constructor; cbn [default_fmt write_nil write_null write_bool write_number write_char begin_string end_string
                      write_string_fragment write_char_escape write_symbol write_keyword write_bytes begin_list end_list
                      begin_seq_element end_seq_element begin_vector end_vector write_dot]; intros;
      try (apply U_wall_ascii; ascii_lit); try apply U_nil; eauto using U_number, U_scheme_char, esc_r6rs_ascii, U_wall_seqs.
    - destruct b; apply U_wall_ascii; ascii_lit.
    - apply U_app; [apply U_wall_ascii; ascii_lit|apply U_wall_seqs; assumption].
    - apply U_app; [destruct (d_begin_vector VByte) eqn:E; unfold d_begin_vector in E; inversion E; apply U_wall_ascii; ascii_lit|].
      apply U_app; [apply U_octets|apply U_wall_ascii; ascii_lit].
    - destruct b; cbn [d_begin_seq_element]; [apply U_nil|apply U_wall_ascii; ascii_lit].
    - destruct k; apply U_wall_ascii; ascii_lit.
  Qed.

  Lemma utf8_custom po : utf8_fmt (custom_fmt ryu po).
  Proof.
    constructor; cbn [custom_fmt write_nil write_null write_bool write_number write_char begin_string end_string
                      write_string_fragment write_char_escape write_symbol write_keyword write_bytes begin_list end_list
                      begin_seq_element end_seq_element begin_vector end_vector write_dot]; intros;
      try (apply U_wall_ascii; ascii_lit); try apply U_nil; auto using U_number, U_wall_seqs.
    - unfold c_write_nil, c_write_bool. destruct (po_nil po); try (apply U_wall_ascii; ascii_lit).
      destruct (po_bool po); apply U_wall_ascii; ascii_lit.
    - unfold c_write_bool. destruct (po_bool po); destruct b; apply U_wall_ascii; ascii_lit.
    - destruct (po_char po); [apply U_scheme_char|apply U_elisp_char].
    - destruct (po_string po); [eapply esc_r6rs_ascii|eapply esc_elisp_ascii]; eassumption.
    - unfold c_write_keyword. destruct (po_keyword po); apply U_app;
        first [apply U_wall_seqs; assumption | apply U_wall_ascii; ascii_lit].
    - unfold c_write_bytes. destruct (po_bytes po); repeat apply U_app;
        first [apply U_octets | apply U_elisp_octets | apply U_wall_ascii; ascii_lit].
    - destruct b; cbn [d_begin_seq_element]; [apply U_nil|apply U_wall_ascii; ascii_lit].
    - unfold c_begin_vector. destruct (po_vector po); try destruct k; try destruct (po_bytes po); apply U_wall_ascii; ascii_lit.
    - unfold c_end_vector. destruct (po_vector po); apply U_wall_ascii; ascii_lit.
  Qed.

  (* the strs inside a value *)
  Fixpoint strs_valid (v : value) : Prop :=
    match v with
    | String s | Symbol s | Keyword s => utf8_valid s = true
    | Cons a d => strs_valid a /\ strs_valid d
    | Vector l => (fix all (l : list value) : Prop := match l with [] => True | x :: l' => strs_valid x /\ all l' end) l
    | _ => True
    end.

  Section Fixed.
    Variable F : formatter.
    Hypothesis HF : utf8_fmt F.

    Definition escF (b : N) : bytes :=
      match escape_of b with None => [b] | Some e => flatten (write_char_escape F e) end.

    Lemma flatten_esc_gen frag s : flatten (esc_contents F frag s) = rev frag ++ flat_map escF s.
    Proof.
      revert frag; induction s as [|b s IH]; intros frag; cbn [esc_contents flat_map].
      - destruct frag; [reflexivity|]. rewrite (u_frag F HF), flatten_wall. now rewrite app_nil_r.
      - unfold escF at 1. destruct (escape_of b) as [e|] eqn:E.
        + rewrite !flatten_app, IH. cbn [rev app]. destruct frag; [reflexivity|].
          rewrite (u_frag F HF), flatten_wall. rewrite <- ?app_assoc. reflexivity.
        + rewrite IH. cbn [rev]. rewrite <- ?app_assoc. reflexivity.
    Qed.

    Lemma escape_of_high b : 128 <= b -> escape_of b = None.
    Proof.
      intros H. unfold escape_of.
      replace (b =? 7) with false by lia. replace (b =? 8) with false by lia. replace (b =? 9) with false by lia.
      replace (b =? 10) with false by lia. replace (b =? 13) with false by lia. replace (b =? 34) with false by lia.
      replace (b =? 92) with false by lia. replace ((b <? 32) || (b =? 127))%bool with false by lia. reflexivity.
    Qed.

    Lemma U_string s : seqs s -> U (format_escaped_str F s).
    Proof.
      intros Hs. unfold format_escaped_str. apply U_app; [apply (u_bstr F HF)|]. apply U_app; [|apply (u_estr F HF)].
      unfold U. rewrite flatten_esc_gen. cbn [rev app]. apply seqs_flat_map; [| |exact Hs].
      - intros b Hb. unfold escF. destruct (escape_of b) eqn:Ee; [apply (u_esc F HF b _ Ee)|repeat constructor; exact Hb].
      - intros b Hb. unfold escF. now rewrite (escape_of_high b Hb).
    Qed.

    Lemma U_atom v : strs_valid v -> U (print_atom F v).
    Proof.
      destruct v; cbn [print_atom strs_valid]; intros H; try apply U_nil;
        first [apply (u_nil F HF) | apply (u_null F HF) | apply (u_bool F HF) | apply (u_number F HF) | apply (u_char F HF)
              | apply (u_bytes F HF) | apply U_string; apply valid_iff_seqs; exact H
              | apply (u_sym F HF); apply valid_iff_seqs; exact H | apply (u_kw F HF); apply valid_iff_seqs; exact H].
    Qed.

    Lemma U_print_both v : strs_valid v -> U (print F v) /\ U (print_tail F v).
    Proof.
      assert (Hdot : U (dot_seq F)) by (unfold dot_seq; repeat apply U_app; [apply (u_bse F HF)|apply (u_dot F HF)|apply (u_ese F HF)]).
      assert (Htail : forall d, strs_valid d -> U (print_atom F d) ->
                U (dot_seq F ++ begin_seq_element F false ++ print_atom F d ++ end_seq_element F)).
      { intros d _ Hd. repeat apply U_app; auto; first [apply (u_bse F HF)|apply (u_ese F HF)|apply (u_dot F HF)]. }
      induction v as [| |b|n|c|s|s|s|bs|a d IHa IHd|l H] using value_ind'; intros Hv;
        try (split; [apply (U_atom _ Hv)|first [apply U_nil | apply (Htail _ Hv (U_atom _ Hv))]]).
      - cbn [strs_valid] in Hv. destruct Hv as [Hva Hvd]. destruct (IHa Hva) as [Ha _]. destruct (IHd Hvd) as [_ Hd].
        split; cbn [print print_tail]; repeat apply U_app; auto;
          first [apply (u_blist F HF) | apply (u_bse F HF) | apply (u_ese F HF) | apply (u_elist F HF)].
      - assert (He : forall first,
                   U ((fix elems (first : bool) (l : list value) : trace :=
                         match l with
                         | [] => []
                         | x :: l' => begin_seq_element F first ++ print F x ++ end_seq_element F ++ elems false l'
                         end) first l)).
        { cbn [strs_valid] in Hv. revert Hv. induction H as [|x l Hx _ IH]; intros Hv first; [apply U_nil|].
          destruct Hv as [Hvx Hvl]. destruct (Hx Hvx) as [Hpx _].
          apply U_app; [apply (u_bse F HF)|]. apply U_app; [exact Hpx|]. apply U_app; [apply (u_ese F HF)|]. apply IH. exact Hvl. }
        split; cbn [print print_tail]; repeat apply U_app; auto;
          first [apply (u_bvec F HF) | apply (u_evec F HF) | apply (u_bse F HF) | apply (u_ese F HF) | apply (u_dot F HF) | apply He].
    Qed.
  End Fixed.

  Theorem print_custom_utf8 po v : strs_valid v -> utf8_valid (print_custom ryu po v) = true.
  Proof. intros H. apply valid_iff_seqs. apply (U_print_both (custom_fmt ryu po) (utf8_custom po) v H). Qed.
  Theorem print0_utf8 v : strs_valid v -> utf8_valid (print0 ryu v) = true.
  Proof. intros H. apply valid_iff_seqs. apply (U_print_both (default_fmt ryu) utf8_default v H). Qed.
End Utf8Print.
