(* Facts about the printer model used by C07 (and later by the round trips). *)
Require Import Base Value PrintOptions Printer.

Definition all_wall (t : trace) : Prop := Forall (fun c => fst c = WAll) t.

Lemma all_wall_nil : all_wall []. Proof. constructor. Qed.
Lemma all_wall_wall b : all_wall (wall b). Proof. repeat constructor. Qed.
Lemma all_wall_app a b : all_wall a -> all_wall b -> all_wall (a ++ b).
Proof. unfold all_wall; intros; apply Forall_app; auto. Qed.
#[export] Hint Resolve all_wall_nil all_wall_wall all_wall_app : wall.

Lemma flatten_app a b : flatten (a ++ b) = flatten a ++ flatten b.
Proof. unfold flatten; now rewrite map_app, concat_app. Qed.
Lemma flatten_wall b : flatten (wall b) = b.
Proof. unfold flatten, wall; simpl; now rewrite app_nil_r. Qed.
Lemma flatten_nil : flatten [] = [].
Proof. reflexivity. Qed.

(* A formatter all of whose methods use write_all only. *)
Record wf_fmt (F : formatter) : Prop := {
  wf_nil : all_wall (write_nil F);
  wf_null : all_wall (write_null F);
  wf_bool : forall b, all_wall (write_bool F b);
  wf_number : forall n, all_wall (write_number F n);
  wf_char : forall c, all_wall (write_char F c);
  wf_bstr : all_wall (begin_string F);
  wf_estr : all_wall (end_string F);
  wf_frag : forall s, all_wall (write_string_fragment F s);
  wf_esc : forall e, all_wall (write_char_escape F e);
  wf_sym : forall s, all_wall (write_symbol F s);
  wf_kw : forall s, all_wall (write_keyword F s);
  wf_bytes : forall b, all_wall (write_bytes F b);
  wf_blist : all_wall (begin_list F);
  wf_elist : all_wall (end_list F);
  wf_bse : forall b, all_wall (begin_seq_element F b);
  wf_ese : all_wall (end_seq_element F);
  wf_bvec : forall k, all_wall (begin_vector F k);
  wf_evec : all_wall (end_vector F);
  wf_dot : all_wall (write_dot F);
}.

Section WithRyu.
  Variable ryu : f64 -> bytes.

  Lemma all_wall_number n : all_wall (d_write_number ryu n).
  Proof. destruct n; simpl; auto with wall. Qed.

  Lemma all_wall_scheme_char c : all_wall (write_scheme_char c).
  Proof. unfold write_scheme_char; destruct (_ && _); auto with wall. Qed.

  Lemma all_wall_elisp_char c : all_wall (write_elisp_char c).
  Proof.
    unfold write_elisp_char; destruct (_ && _); [destruct (memb _ _)|]; auto with wall.
  Qed.

  Lemma all_wall_r6rs_escape e : all_wall (write_r6rs_char_escape e).
  Proof. destruct e; simpl; auto with wall. Qed.

  Lemma all_wall_elisp_escape e : all_wall (write_elisp_char_escape e).
  Proof. destruct e; simpl; auto with wall. Qed.

  Lemma all_wall_bse b : all_wall (d_begin_seq_element b).
  Proof. destruct b; simpl; auto with wall. Qed.

  Lemma all_wall_octets first l : all_wall (octets d_begin_seq_element [] first l).
  Proof.
    revert first; induction l as [|o l IH]; intros first; cbn [octets]; auto with wall.
    apply all_wall_app; [apply all_wall_bse|].
    apply all_wall_app; [auto with wall|]. cbn [app]. apply IH.
  Qed.

  Lemma all_wall_elisp_octets l : all_wall (elisp_octets l).
  Proof. induction l as [|o l IH]; cbn [elisp_octets]; auto 10 with wall. Qed.

  Lemma all_wall_d_begin_vector k : all_wall (d_begin_vector k).
  Proof. destruct k; unfold d_begin_vector; auto with wall. Qed.

  Lemma all_wall_d_write_bytes bs :
    all_wall (d_begin_vector VByte ++ octets d_begin_seq_element [] true bs ++ wall [41]).
  Proof.
    apply all_wall_app; [apply all_wall_d_begin_vector|].
    apply all_wall_app; [apply all_wall_octets|auto with wall].
  Qed.

  Lemma wf_default : wf_fmt (default_fmt ryu).
  Proof.
    constructor; cbn [default_fmt write_nil write_null write_bool write_number write_char
      begin_string end_string write_string_fragment write_char_escape write_symbol
      write_keyword write_bytes begin_list end_list begin_seq_element end_seq_element
      begin_vector end_vector write_dot]; intros;
    first [ solve [auto with wall]
          | apply all_wall_number | apply all_wall_scheme_char | apply all_wall_r6rs_escape
          | apply all_wall_d_write_bytes | apply all_wall_bse | apply all_wall_d_begin_vector
          | match goal with |- all_wall (wall (if ?b then _ else _)) => destruct b; auto with wall end ].
  Qed.

  Lemma all_wall_c_bool po b : all_wall (c_write_bool po b).
  Proof. unfold c_write_bool; destruct (po_bool po), b; auto with wall. Qed.

  Lemma all_wall_c_nil po : all_wall (c_write_nil po).
  Proof. unfold c_write_nil; destruct (po_nil po); auto with wall. apply all_wall_c_bool. Qed.
  Lemma all_wall_c_kw po s : all_wall (c_write_keyword po s).
  Proof. unfold c_write_keyword; destruct (po_keyword po); auto with wall. Qed.
  Lemma all_wall_c_bytes po bs : all_wall (c_write_bytes po bs).
  Proof.
    unfold c_write_bytes; destruct (po_bytes po);
      (apply all_wall_app; [auto with wall|]; apply all_wall_app;
       [first [apply all_wall_octets|apply all_wall_elisp_octets]|auto with wall]).
  Qed.
  Lemma all_wall_c_bvec po k : all_wall (c_begin_vector po k).
  Proof.
    unfold c_begin_vector; destruct (po_vector po); auto with wall.
    destruct k; auto with wall. destruct (po_bytes po); auto with wall.
  Qed.
  Lemma all_wall_c_evec po : all_wall (c_end_vector po).
  Proof. unfold c_end_vector; destruct (po_vector po); auto with wall. Qed.

  Lemma wf_custom po : wf_fmt (custom_fmt ryu po).
  Proof.
    constructor; cbn [custom_fmt write_nil write_null write_bool write_number write_char
      begin_string end_string write_string_fragment write_char_escape write_symbol
      write_keyword write_bytes begin_list end_list begin_seq_element end_seq_element
      begin_vector end_vector write_dot]; intros;
    first [ solve [auto with wall]
          | apply all_wall_c_nil | apply all_wall_c_bool | apply all_wall_number
          | apply all_wall_c_kw | apply all_wall_c_bytes | apply all_wall_bse
          | apply all_wall_c_bvec | apply all_wall_c_evec
          | destruct (po_char po); [apply all_wall_scheme_char|apply all_wall_elisp_char]
          | destruct (po_string po); [apply all_wall_r6rs_escape|apply all_wall_elisp_escape] ].
  Qed.

  Section Fixed.
    Variable F : formatter.
    Hypothesis HF : wf_fmt F.

    Lemma all_wall_esc frag s : all_wall (esc_contents F frag s).
    Proof.
      revert frag; induction s as [|b s IH]; intros frag; simpl.
      - destruct frag; auto with wall. apply (wf_frag F HF).
      - destruct (escape_of b).
        + apply all_wall_app; [destruct frag; auto with wall; apply (wf_frag F HF)|].
          apply all_wall_app; [apply (wf_esc F HF)|apply IH].
        + apply IH.
    Qed.

    Lemma all_wall_atom v : all_wall (print_atom F v).
    Proof.
      destruct HF. destruct v; simpl; auto with wall.
      unfold format_escaped_str. apply all_wall_app; auto. apply all_wall_app; auto.
      apply all_wall_esc.
    Qed.

    Lemma all_wall_dot_seq : all_wall (dot_seq F).
    Proof. destruct HF. unfold dot_seq; auto with wall. Qed.

    Lemma all_wall_print_both v : all_wall (print F v) /\ all_wall (print_tail F v).
    Proof.
      pose proof all_wall_dot_seq as Hdot.
      induction v using value_ind'; try (split; [apply (all_wall_atom _)|]);
        try (cbn [print_tail]; apply all_wall_app; [exact Hdot|];
             apply all_wall_app; [apply (wf_bse F HF)|];
             apply all_wall_app; [apply (all_wall_atom _)|apply (wf_ese F HF)]).
      - (* Null tail *) constructor.
      - (* Cons *)
        destruct IHv1 as [Ha _], IHv2 as [_ Hd]. destruct HF. split; cbn [print print_tail]; auto 10 with wall.
      - (* Vector *)
        assert (He : forall first,
                   all_wall ((fix elems (first : bool) (l : list value) : trace :=
                                match l with
                                | [] => []
                                | x :: l' => begin_seq_element F first ++ print F x ++ end_seq_element F
                                             ++ elems false l'
                                end) first l)).
        { induction H as [|x l [Hx _] _ IH]; intros first; [constructor|].
          destruct HF. auto 10 with wall. }
        destruct HF. split; cbn [print print_tail]; auto 10 with wall.
    Qed.

    Lemma all_wall_print v : all_wall (print F v).
    Proof. apply all_wall_print_both. Qed.
  End Fixed.

  Lemma custom_default_is_default : custom_fmt ryu default_po = default_fmt ryu.
  Proof. reflexivity. Qed.
End WithRyu.
