(* Token-level reading lemmas for Options::elisp(), all source kinds. *)
From Coq Require Import SpecFloat ZifyBool ZifyNat ZifyN.
Require Import Base Value Float PrintOptions Printer ParseOptions Utf8 Reader Scan Num NumberOps Parser.
Require Import ReaderProofs ScanProofs TextProofs TokenProofs NumTokenProofs CharStrProofs ElispText Utf8Proofs Utf8PrintProofs.
Ltac Zify.zify_post_hook ::= Z.div_mod_to_equations.

Section ElispTokens.
  Variable alpha : N -> bool.
  Variable fast : bool.
  Variable std_parse : N -> Z -> f64.
  Local Notation ro := elisp_ro.
  Local Notation parse_token := (parse_token ro alpha fast std_parse).

  (* nil reads as the empty list, every other name as itself *)
  Definition esym_token (name : bytes) : token :=
    if beq_bytes name (s2b "nil") then TNull else TSymbol name.
  Lemma symbol_token_elisp name : symbol_token ro name = esym_token name.
  Proof.
    unfold symbol_token, esym_token. cbn [ro_kw_postfix ro_nil ro_t elisp_ro andb].
    destruct (beq_bytes name (s2b "nil")); reflexivity.
  Qed.

  Lemma etok_listopen fuel r rest : at_bytes r (40 :: rest) -> peeked r ->
    exists r', parse_token fuel 40 r = (Ok (TListOpen 41), r') /\ at_bytes r' rest /\ rk r' = rk r.
  Proof. intros Ha Hp. change (parse_token fuel 40) with (eat_char ;;; ret (TListOpen 41)). step. exists r0. unfold ret. auto. Qed.

  Lemma etok_vecopen fuel r rest : at_bytes r (91 :: rest) -> peeked r ->
    exists r', parse_token fuel 91 r = (Ok (TVecOpen 93), r') /\ at_bytes r' rest /\ rk r' = rk r.
  Proof. intros Ha Hp. change (parse_token fuel 91) with (eat_char ;;; ret (TVecOpen 93)). step. exists r0. unfold ret. auto. Qed.

  Lemma etok_keyword fuel r name rest : (length name < fuel)%nat ->
    no_terminator name -> at_terminator rest -> symbol_ok name ->
    at_bytes r (58 :: name ++ rest) -> peeked r ->
    exists r', parse_token fuel 58 r = (Ok (TKeyword name), r') /\ at_bytes r' rest /\ rk r' = rk r.
  Proof.
    intros Hf Hn Ht Hok Ha Hp.
    change (parse_token fuel 58) with (eat_char ;;; s <- parse_symbol fuel ;; ret (TKeyword s)).
    step. unfold parse_symbol.
    destruct (parse_symbol_spec name fuel [] rest r0 Hf Hn Ht Ha0 Hok) as (r2 & E & Ha2 & Hk2 & _).
    rewrite (bind_ok _ _ _ _ _ E). exists r2. unfold ret. cbn [app]. repeat split; auto; congruence.
  Qed.

  (* symbols: an ASCII letter or one of !$%&*./<=>@^_~ first ('?' and ':' have other meanings here) *)
  Definition eext_initial : bytes := s2b "!$%&*./<=>@^_~".
  Lemma etoken_alpha fuel c : is_ascii_alpha c = true ->
    parse_token fuel c = (name <- parse_symbol fuel ;; ret (symbol_token ro name)).
  Proof.
    intros H. unfold is_ascii_alpha, is_ascii_lower, is_ascii_upper, in_range in H.
    unfold Parser.parse_token.
    replace (c =? 35) with false by lia. replace ((c =? 45) || (c =? 43)) with false by lia.
    replace (is_digit c) with false by (unfold is_digit, in_range; lia).
    replace (c =? 34) with false by lia. replace (c =? 40) with false by lia.
    replace (c =? 91) with false by lia. replace (c =? 58) with false by lia.
    replace (is_ascii_alpha c) with true by (unfold is_ascii_alpha, is_ascii_lower, is_ascii_upper, in_range; lia).
    reflexivity.
  Qed.
  Lemma etoken_ext fuel c : In c eext_initial ->
    parse_token fuel c = (name <- parse_symbol fuel ;; ret (symbol_token ro name)).
  Proof.
    intros H. unfold eext_initial in H. cbn in H.
    repeat (destruct H as [<-|H]; [reflexivity|]). contradiction.
  Qed.

  Lemma etok_symbol_direct fuel r c s' rest :
    (is_ascii_alpha c = true \/ In c eext_initial) ->
    (length (c :: s') < fuel)%nat -> no_terminator (c :: s') -> at_terminator rest -> symbol_ok (c :: s') ->
    at_bytes r ((c :: s') ++ rest) ->
    exists r', parse_token fuel c r = (Ok (esym_token (c :: s')), r') /\ at_bytes r' rest /\ rk r' = rk r.
  Proof.
    intros Hc Hf Hn Ht Hok Ha.
    destruct (parse_symbol_spec (c :: s') fuel [] rest r Hf Hn Ht Ha Hok) as (r2 & E & Ha2 & Hk2 & _).
    cbn [app] in E.
    destruct Hc as [Hc|Hc]; [rewrite (etoken_alpha fuel c Hc)|rewrite (etoken_ext fuel c Hc)];
      unfold parse_symbol; rewrite (bind_ok _ _ _ _ _ E); exists r2; unfold ret; rewrite symbol_token_elisp; auto.
  Qed.

  Lemma etok_symbol_sign fuel r c s' rest : c = 43 \/ c = 45 ->
    (match s' with [] => True | c2 :: _ => sign_next_ok c2 = true end) ->
    (length (c :: s') < fuel)%nat -> no_terminator (c :: s') -> delim_ok rest -> symbol_ok (c :: s') ->
    at_bytes r ((c :: s') ++ rest) -> peeked r ->
    exists r', parse_token fuel c r = (Ok (TSymbol (c :: s')), r') /\ at_bytes r' rest /\ rk r' = rk r.
  Proof.
    intros Hc Hnext Hf Hn Hd Hok Ha Hp.
    assert (Earm : parse_token fuel c =
                   (eat_char ;;; nx <- peek_or_null ;;
                    if (nx =? 0) || is_delimiter nx || is_sign_subsequent nx || (nx =? 46) || (127 <? nx) then
                      name <- parse_symbol_suffix fuel [c] ;; ret (symbol_token ro name)
                    else n <- parse_num_token fast std_parse fuel 10 (c =? 43) ;; ret (TNumber n)))
      by (destruct Hc as [->| ->]; reflexivity).
    rewrite Earm. cbn [app] in Ha. step.
    assert (Hn' : no_terminator s') by (inversion Hn; assumption).
    assert (Ht : at_terminator rest) by (apply delim_ok_terminator; exact Hd).
    assert (Hf' : (length s' < fuel)%nat) by (cbn in Hf; lia).
    assert (Hbranch : exists r1, peek_or_null r0 = (Ok (match s' ++ rest with [] => 0 | b :: _ => b end), r1) /\
                                 at_bytes r1 (s' ++ rest) /\ rk r1 = rk r0).
    { destruct (s' ++ rest) as [|b l] eqn:El.
      - destruct (m_peek_or_null_nil r0 Ha0) as (r1 & E & Ha1 & Hk1). exists r1. auto.
      - destruct (m_peek_or_null_cons r0 b l Ha0) as (r1 & E & Ha1 & _ & Hk1). exists r1. auto. }
    destruct Hbranch as (r1 & E1 & Ha1 & Hk1). rewrite (bind_ok _ _ _ _ _ E1).
    assert (Hcond : (let nx := match s' ++ rest with [] => 0 | b :: _ => b end in
                     (nx =? 0) || is_delimiter nx || is_sign_subsequent nx || (nx =? 46) || (127 <? nx)) = true).
    { destruct s' as [|c2 s'']; cbn [app].
      - destruct rest as [|d rest']; [reflexivity|]. delim_cases Hd; reflexivity.
      - exact Hnext. }
    cbv zeta in Hcond. rewrite Hcond. unfold parse_symbol_suffix.
    destruct (parse_symbol_spec s' fuel [c] rest r1 Hf' Hn' Ht Ha1 Hok) as (r2 & E2 & Ha2 & Hk2 & _).
    rewrite (bind_ok _ _ _ _ _ E2). exists r2. unfold ret. cbn [app]. rewrite symbol_token_elisp. unfold esym_token.
    replace (beq_bytes (c :: s') (s2b "nil")) with false by (destruct Hc as [->| ->]; reflexivity).
    repeat split; auto; congruence.
  Qed.

  (* ---- numbers: a digit-initial token is scanned as a symbol first ---- *)
  Lemma number_of_symbol_digits fuel d ds : all_digits (d :: ds) -> dfold 0 (d :: ds) <= u64_MAX ->
    (length (d :: ds) < fuel)%nat ->
    number_of_symbol fast std_parse fuel (d :: ds) = Some (PosInt (dfold 0 (d :: ds))).
  Proof.
    intros Hd Hmax Hf. unfold number_of_symbol. cbv zeta.
    set (s0 := mk_reader SrcSlice (bytes_events (d :: ds))).
    assert (Ha : at_bytes s0 ((d :: ds) ++ [])) by (rewrite app_nil_r; reflexivity).
    pose proof (Forall_inv Hd) as Hdig. cbv beta in Hdig.
    unfold parse_num_literal. cbn [app] in Ha.
    destruct (m_next_cons s0 d (ds ++ []) Ha) as (r0 & E0 & Ha0 & Hk0). rewrite (bind_ok _ _ _ _ _ E0).
    rewrite (digit_val_digit true d Hdig).
    assert (E10 : (10 <=? d - 48) = false) by (unfold is_digit, in_range in Hdig; lia). rewrite E10.
    inversion Hd as [|? ? _ Hd']; subst.
    change (dfold 0 (d :: ds)) with (dfold (d - 48) ds) in *.
    destruct (num_loop_digits fast std_parse ds fuel r0 true (d - 48) [] ltac:(cbn in Hf; lia) Hd' I Hmax Ha0) as (r1 & E1 & Ha1 & Hk1).
    rewrite E1. unfold int_result.
    destruct (peek_nil r1 Ha1) as (r2 & E2 & _). rewrite E2. reflexivity.
  Qed.

  Lemma etoken_digit fuel c : is_digit c = true ->
    parse_token fuel c = (symbol <- parse_symbol fuel ;;
                          match number_of_symbol fast std_parse fuel symbol with
                          | Some n => ret (TNumber n)
                          | None => ret (symbol_token ro symbol)
                          end).
  Proof.
    intros H. unfold Parser.parse_token. pose proof H as H'. unfold is_digit, in_range in H'.
    replace (c =? 35) with false by lia. replace ((c =? 45) || (c =? 43)) with false by lia.
    rewrite H. reflexivity.
  Qed.

  Lemma digits_no_terminator ds : all_digits ds -> no_terminator ds.
  Proof. apply Forall_impl. intros c H. unfold is_digit, in_range in H. unfold is_symbol_terminator, memb. cbn [existsb]. lia. Qed.

  Theorem etok_posint fuel r n rest : n <= u64_MAX -> (length (dec_of_N n) < fuel)%nat -> delim_ok rest ->
    at_bytes r (dec_of_N n ++ rest) ->
    exists c r', hd_error (dec_of_N n ++ rest) = Some c /\
      parse_token fuel c r = (Ok (TNumber (PosInt n)), r') /\ at_bytes r' rest /\ rk r' = rk r.
  Proof.
    intros Hn Hf Hr Ha. destruct (dec_of_N_spec n) as (ds & E & Hne & Hd & Hv & _). rewrite E in *.
    destruct ds as [|d ds]; [contradiction|]. exists d.
    pose proof (Forall_inv Hd) as Hdig. cbv beta in Hdig.
    assert (Hok : symbol_ok ([] ++ d :: ds)).
    { split; [|apply ascii_valid; apply digits_ascii; exact Hd].
      cbn [app beq_bytes]. unfold is_digit, in_range in Hdig. replace (d =? 46) with false by lia. reflexivity. }
    destruct (parse_symbol_spec (d :: ds) fuel [] rest r Hf (digits_no_terminator _ Hd) (delim_ok_terminator rest Hr) Ha Hok)
      as (r1 & E1 & Ha1 & Hk1 & _).
    exists r1. split; [reflexivity|]. rewrite (etoken_digit fuel d Hdig). unfold parse_symbol. rewrite (bind_ok _ _ _ _ _ E1).
    cbn [app]. rewrite (number_of_symbol_digits fuel d ds Hd ltac:(rewrite Hv; exact Hn) Hf), Hv. unfold ret. auto.
  Qed.

  Theorem etok_negint fuel r i rest : (i64_min <= i < 0)%Z -> (S (length (dec_of_N (Z.to_N (- i)))) < fuel)%nat -> delim_ok rest ->
    at_bytes r (dec_of_Z i ++ rest) -> peeked r ->
    exists r', parse_token fuel 45 r = (Ok (TNumber (NegInt i)), r') /\ at_bytes r' rest /\ rk r' = rk r.
  Proof.
    intros Hi Hf Hr Ha Hp. destruct i as [|p|p]; try lia. cbn [dec_of_Z] in Ha.
    change (Z.to_N (- Z.neg p)) with (Npos p) in Hf.
    destruct (dec_of_N_spec (Npos p)) as (ds & E & Hne & Hd & Hv & Hlz). rewrite E in *.
    destruct ds as [|d ds]; [contradiction|]. pose proof (Forall_inv Hd) as Hdig. cbv beta in Hdig.
    assert (Earm : parse_token fuel 45 =
                   (eat_char ;;; nx <- peek_or_null ;;
                    if (nx =? 0) || is_delimiter nx || is_sign_subsequent nx || (nx =? 46) || (127 <? nx) then
                      name <- parse_symbol_suffix fuel [45] ;; ret (symbol_token ro name)
                    else n <- parse_num_token fast std_parse fuel 10 (45 =? 43) ;; ret (TNumber n))) by reflexivity.
    rewrite Earm. cbn [app] in Ha. step. step.
    rewrite (digit_not_symbolish alpha std_parse d Hdig). change (45 =? 43) with false.
    assert (Hmax : dfold 0 (d :: ds) <= u64_MAX) by (rewrite Hv; unfold i64_min, u64_MAX in *; lia).
    destruct (num_token_digits fast std_parse fuel r1 false d ds rest ltac:(cbn in *; lia) Hd Hr Hmax Ha1) as (r2 & E2 & Ha2 & Hk2).
    rewrite (bind_ok _ _ _ _ _ E2). exists r2. unfold ret. rewrite Hv. unfold int_result.
    assert (E63 : (9223372036854775808 <? N.pos p) = false) by (unfold i64_min in Hi; lia). rewrite E63.
    repeat split; auto; congruence.
  Qed.
End ElispTokens.
