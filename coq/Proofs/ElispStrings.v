(* Characters, strings and unibyte strings under Options::elisp(). *)
From Coq Require Import SpecFloat ZifyBool ZifyNat ZifyN.
Require Import Base Value Float PrintOptions Printer ParseOptions Utf8 Reader Scan Num NumberOps Parser.
Require Import ReaderProofs ScanProofs TextProofs TokenProofs NumTokenProofs CharStrProofs ElispText ElispTokens RelFramework.
Ltac Zify.zify_post_hook ::= Z.div_mod_to_equations.

(* evaluate comparisons between literals *)
Ltac eval_cmp :=
  repeat match goal with
         | |- context [N.eqb ?a ?b] =>
             let v := eval vm_compute in (N.eqb a b) in
             match v with true => change (N.eqb a b) with true | false => change (N.eqb a b) with false end
         | |- context [in_range ?a ?b ?c] =>
             let v := eval vm_compute in (in_range a b c) in
             match v with true => change (in_range a b c) with true | false => change (in_range a b c) with false end
         | |- context [N.ltb ?a ?b] =>
             let v := eval vm_compute in (N.ltb a b) in
             match v with true => change (N.ltb a b) with true | false => change (N.ltb a b) with false end
         end; cbv iota.

Ltac finish_at :=
  match goal with
  | Hx : at_bytes ?rr ?l |- exists r', _ = (Ok _, r') /\ at_bytes r' ?l /\ _ =>
      exists rr; unfold ret; repeat split; auto; congruence
  end.
Ltac last_at k :=
  match goal with
  | Hx : at_bytes ?rr _ |- _ => k rr Hx
  end.

(* ---- ?c characters ---- *)
Lemma elisp_hex_loop_spec ds : forall fuel r n rest, (length ds < fuel)%nat -> all_lower_hex ds -> delim_ok rest ->
  hfold n ds < cp_limit -> at_bytes r (ds ++ rest) ->
  exists r', elisp_hex_loop fuel n r = (Ok (hfold n ds), r') /\ at_bytes r' rest /\ rk r' = rk r.
Proof.
  induction ds as [|d ds IH]; intros fuel r n rest Hf Hd Hr Hmax Ha;
    (destruct fuel as [|f]; [cbn in Hf; lia|]); cbn [elisp_hex_loop]; cbn [app] in Ha.
  - destruct rest as [|b rest].
    + step. exists r0. unfold ret. cbn [hfold fold_left]. auto.
    + step. assert (Hb : decode_hex_val b = None) by (delim_cases Hr; reflexivity). rewrite Hb.
      exists r0. unfold ret. cbn [hfold fold_left]. auto.
  - inversion Hd as [|? ? Hdig Hd']; subst. destruct (lower_hex_facts d Hdig) as [Hdec _].
    step. rewrite Hdec. step.
    change (hfold n (d :: ds)) with (hfold (n * 16 + hexval d) ds) in *.
    pose proof (hfold_ge ds (n * 16 + hexval d)) as Hge.
    assert (Elim : (cp_limit <=? n) = false) by (unfold cp_limit in *; lia). rewrite Elim.
    destruct (IH f r1 (n * 16 + hexval d) rest ltac:(cbn in Hf; lia) Hd' Hr Hmax Ha1) as (r2 & E & Ha2 & Hk2).
    exists r2. repeat split; auto; congruence.
Qed.

Lemma esc_chars_cases c : memb c ELISP_ESCAPE_CHARS = true ->
  c = 40 \/ c = 41 \/ c = 91 \/ c = 93 \/ c = 92 \/ c = 59 \/ c = 124 \/ c = 39 \/ c = 96 \/ c = 35 \/ c = 46 \/ c = 44.
Proof.
  change ELISP_ESCAPE_CHARS with [40; 41; 91; 93; 92; 59; 124; 39; 96; 35; 46; 44]. unfold memb. cbn [existsb]. lia.
Qed.
Lemma esc_chars_not c : memb c ELISP_ESCAPE_CHARS = false -> memb c [40; 41; 91; 93; 59] = false /\ (c =? 92) = false.
Proof.
  change ELISP_ESCAPE_CHARS with [40; 41; 91; 93; 92; 59; 124; 39; 96; 35; 46; 44]. unfold memb. cbn [existsb]. lia.
Qed.

Lemma parse_elisp_char_spec fuel r c rest : is_scalar c = true -> (length (echar_text c) < fuel)%nat -> delim_ok rest ->
  exists body, echar_text c = 63 :: body /\
    forall r1, at_bytes r1 (body ++ rest) -> rk r1 = rk r ->
    exists r', parse_elisp_char fuel r1 = (Ok c, r') /\ at_bytes r' rest /\ rk r' = rk r.
Proof.
  intros Hs Hf Hr. unfold echar_text in *. destruct ((32 <=? c) && (c <? 127)) eqn:Ep.
  - destruct (memb c ELISP_ESCAPE_CHARS) eqn:Em.
    + exists [92; c]. split; [reflexivity|]. intros r1 Ha Hk1. cbn [app] in Ha. unfold parse_elisp_char.
      step. change (127 <? 92) with false. change (memb 92 [40; 41; 91; 93; 59]) with false. change (92 =? 92) with true. cbv iota.
      unfold decode_elisp_char_escape. step_noe.
      destruct (esc_chars_cases c Em) as [->|[->|[->|[->|[->|[->|[->|[->|[->|[->|[->| ->]]]]]]]]]]];
        eval_cmp; finish_at.
    + destruct (esc_chars_not c Em) as [E1 E2].
      exists [c]. split; [reflexivity|]. intros r1 Ha Hk1. cbn [app] in Ha. unfold parse_elisp_char.
      step. replace (127 <? c) with false by lia. rewrite E1, E2. finish_at.
  - destruct (hex_of_N_spec c) as (ds & E & Hne & Hd & Hv). rewrite E in *.
    exists (92 :: 120 :: ds). split; [reflexivity|]. intros r1 Ha Hk1. cbn [app] in Ha. unfold parse_elisp_char.
    step. change (127 <? 92) with false. change (memb 92 [40; 41; 91; 93; 59]) with false. change (92 =? 92) with true. cbv iota.
    unfold decode_elisp_char_escape. step_noe. eval_cmp. unfold decode_elisp_hex_escape.
    assert (Hlim : hfold 0 ds < cp_limit) by (rewrite Hv; unfold is_scalar, cp_limit in *; lia).
    match goal with Hx : at_bytes ?rr (ds ++ rest) |- _ =>
      destruct (elisp_hex_loop_spec ds fuel rr 0 rest ltac:(cbn in Hf; lia) Hd Hr Hlim Hx) as (r9 & E9 & Ha9 & Hk9) end.
    rewrite (bind_ok _ _ _ _ _ E9). unfold open_ended_char. rewrite Hv, Hs. exists r9. unfold ret. repeat split; auto; congruence.
Qed.

Section ElispChar.
  Variable alpha : N -> bool.
  Variable fast : bool.
  Variable std_parse : N -> Z -> f64.
  Local Notation parse_token := (parse_token elisp_ro alpha fast std_parse).

  Theorem etok_char fuel r c rest : is_scalar c = true -> (length (echar_text c) < fuel)%nat -> delim_ok rest ->
    at_bytes r (echar_text c ++ rest) -> peeked r ->
    exists r', parse_token fuel 63 r = (Ok (TChar c), r') /\ at_bytes r' rest /\ rk r' = rk r.
  Proof.
    intros Hs Hf Hr Ha Hp. destruct (parse_elisp_char_spec fuel r c rest Hs Hf Hr) as (body & Eb & Hbody).
    rewrite Eb in Ha. cbn [app] in Ha.
    change (parse_token fuel 63) with (eat_char ;;; ch <- parse_elisp_char fuel ;; ret (TChar ch)).
    step. destruct (Hbody r0 Ha0 ltac:(congruence)) as (r2 & E2 & Ha2 & Hk2).
    rewrite (bind_ok _ _ _ _ _ E2). exists r2. unfold ret. auto.
  Qed.
End ElispChar.

(* ---- strings ---- *)
Lemma take_run_spec r p t tail : plain_run p -> t = 92 \/ t = 34 -> at_bytes r (p ++ t :: tail) ->
  exists r', RelFramework.take_run r = (Ok (p, Some t), r') /\ at_bytes r' tail /\ rk r' = rk r.
Proof.
  intros Hp Ht Ha. unfold RelFramework.take_run. unfold at_bytes in Ha. rewrite Ha.
  rewrite (span_plain_run p t tail [] Hp Ht). cbn [app bytes_events map]. fold (bytes_events tail).
  destruct (advance_over_at r p (t :: tail)) as [_ Hk1]. cbn [bytes_events map] in Hk1. fold (bytes_events tail) in Hk1.
  destruct (consume_at (advance_over r p (EByte t :: bytes_events tail)) t tail) as [Ha2 Hk2].
  eexists. split; [reflexivity|]. split; [exact Ha2|congruence].
Qed.

Definition no_ub (e : elisp_escape) : Prop := e <> EscUnibyte.

Lemma eescape_roundtrip b e : escape_of b = Some e ->
  exists body, eesc_bytes b = 92 :: body /\
    forall fuel r tail, (6 < fuel)%nat -> at_bytes r (body ++ tail) ->
    exists esc r', parse_elisp_escape fuel r = (Ok ([b], esc), r') /\ no_ub esc /\ at_bytes r' tail /\ rk r' = rk r.
Proof.
  intros He. unfold eesc_bytes. rewrite He. unfold escape_of in He.
  Ltac simple_eesc b k :=
    assert (b = k) by lia; subst b;
    match goal with He : Some _ = Some _ |- _ => inversion He; subst; clear He end;
    eexists; split; [reflexivity|]; intros fuel r tail Hf Ha; cbn [app] in Ha;
    unfold parse_elisp_escape; step_noe; eval_cmp;
    match goal with |- exists esc r', ret (_, ?x) ?r0 = _ /\ _ => exists x, r0; unfold ret, no_ub; repeat split; auto; discriminate end.
  destruct (b =? 7) eqn:E7; [simple_eesc b 7|].
  destruct (b =? 8) eqn:E8; [simple_eesc b 8|].
  destruct (b =? 9) eqn:E9; [simple_eesc b 9|].
  destruct (b =? 10) eqn:E10; [simple_eesc b 10|].
  destruct (b =? 13) eqn:E13; [simple_eesc b 13|].
  destruct (b =? 34) eqn:E34; [simple_eesc b 34|].
  destruct (b =? 92) eqn:E92; [simple_eesc b 92|].
  destruct ((b <? 32) || (b =? 127)) eqn:Ec; [|discriminate].
  inversion He; subst e; clear He. cbn [write_elisp_char_escape flatten wall app].
  assert (Hb : b < 128) by lia.
  destruct (hex_upper_facts (b / 16) ltac:(lia)) as [Hd1 _].
  destruct (hex_upper_facts (b mod 16) ltac:(lia)) as [Hd2 _].
  eexists. split; [cbn; reflexivity|]. intros fuel r tail Hf Ha. cbn [app] in Ha.
  unfold parse_elisp_escape. step_noe. eval_cmp.
  assert (exists r', decode_elisp_uni_escape 4 0 r0 = (Ok b, r') /\ at_bytes r' tail /\ rk r' = rk r0) as (r' & E' & Ha' & Hk').
  { cbn [decode_elisp_uni_escape].
    step_noe. change (decode_hex_val 48) with (Some 0). change (cp_limit <=? 0) with false. cbv iota.
    step_noe. change (decode_hex_val 48) with (Some 0). change (cp_limit <=? 0 * 16 + 0) with false. cbv iota.
    step_noe. rewrite Hd1. replace (cp_limit <=? (0 * 16 + 0) * 16 + 0) with false by reflexivity.
    step_noe. rewrite Hd2. replace (cp_limit <=? ((0 * 16 + 0) * 16 + 0) * 16 + b / 16) with false by (unfold cp_limit; lia).
    last_at ltac:(fun rr Hx => exists rr). unfold ret. split; [f_equal; f_equal; lia|]. split; [assumption|congruence]. }
  rewrite (bind_ok _ _ _ _ _ E'). unfold elisp_uni_escape_of. replace (is_scalar b) with true by (unfold is_scalar; lia).
  unfold utf8_encode. replace (b <? 128) with true by lia. exists EscMultibyte, r'. unfold ret, no_ub.
  repeat split; auto; try discriminate; congruence.
Qed.

Definition ebody (s : bytes) : bytes := flat_map eesc_bytes s.

Lemma eescape_none_plain b : escape_of b = None -> eesc_bytes b = [b] /\ (b =? 34) = false /\ (b =? 92) = false.
Proof. intros H. unfold eesc_bytes. rewrite H. split; [reflexivity|]. apply (escape_none_plain b H). Qed.

Lemma note_no_ub fl e : no_ub e -> seen_ub fl = false -> seen_ub (note_escape fl e) = false.
Proof. intros He H. destruct e; cbn [note_escape seen_ub]; auto. exfalso. apply He. reflexivity. Qed.

Lemma elisp_str_io_spec s : forall fuel fl scratch r rest, (length (ebody s) + 8 < fuel)%nat -> seen_ub fl = false ->
  at_bytes r (ebody s ++ 34 :: rest) ->
  exists fl' r', elisp_str_io fuel fl scratch r = elisp_finish fl' (scratch ++ s) r' /\ seen_ub fl' = false /\
                 at_bytes r' rest /\ rk r' = rk r.
Proof.
  induction s as [|b s IH]; intros fuel fl scratch r rest Hf Hub Ha;
    (destruct fuel as [|f]; [lia|]); cbn [elisp_str_io]; cbn [ebody flat_map app] in Ha, Hf.
  - step_noe. change (34 =? 34) with true. cbv iota. exists fl. last_at ltac:(fun rr Hx => exists rr). rewrite app_nil_r. auto.
  - fold (ebody s) in *. rewrite app_length in Hf. destruct (escape_of b) as [e|] eqn:Ee.
    + destruct (eescape_roundtrip b e Ee) as (body & Eb & Hbody). rewrite Eb in *. cbn [app length] in Ha, Hf.
      step_noe. change (92 =? 34) with false. change (92 =? 92) with true. cbv iota.
      rewrite <- app_assoc in Ha0.
      destruct (Hbody f r0 (ebody s ++ 34 :: rest) ltac:(lia) Ha0) as (esc & r1 & E1 & Hesc & Ha1 & Hk1).
      rewrite (bind_ok _ _ _ _ _ E1). cbn [fst snd].
      destruct (IH f (note_escape fl esc) (scratch ++ [b]) r1 rest ltac:(lia) (note_no_ub fl esc Hesc Hub) Ha1)
        as (fl' & r2 & E2 & Hub2 & Ha2 & Hk2).
      exists fl', r2. rewrite E2, <- app_assoc. repeat split; auto; congruence.
    + destruct (eescape_none_plain b Ee) as (Eb & E34 & E92). rewrite Eb in *. cbn [app length] in Ha, Hf.
      step_noe. rewrite E34, E92.
      destruct (IH f (if 127 <? b then {| seen_ub := seen_ub fl; seen_mb := seen_mb fl; seen_na := true |} else fl)
                  (scratch ++ [b]) r0 rest ltac:(lia) ltac:(destruct (127 <? b); exact Hub) Ha0)
        as (fl' & r2 & E2 & Hub2 & Ha2 & Hk2).
      exists fl', r2. rewrite E2, <- app_assoc. repeat split; auto; congruence.
Qed.

Lemma esplit_plain_spec s : let '(p, q) := split_plain s in
  s = p ++ q /\ plain_run p /\ ebody s = p ++ ebody q /\ (length q <= length s)%nat /\
  match q with [] => True | e :: _ => escape_of e <> None end.
Proof.
  induction s as [|b s IH]; cbn [split_plain].
  - repeat split; auto. constructor.
  - destruct (escape_of b) as [e|] eqn:Ee.
    + repeat split; auto. constructor. congruence.
    + destruct (split_plain s) as [p q]. destruct IH as (Hs & Hp & Hb & Hl & Hq).
      repeat split.
      * cbn [app]. congruence.
      * constructor; assumption.
      * cbn [ebody flat_map]. fold (ebody s). destruct (eescape_none_plain b Ee) as (-> & _). cbn [app]. congruence.
      * cbn [length]. lia.
      * exact Hq.
Qed.

Definition na_flag (fl : elisp_flags) (run : bytes) : elisp_flags :=
  if existsb (fun b => 127 <? b) run then {| seen_ub := seen_ub fl; seen_mb := seen_mb fl; seen_na := true |} else fl.
Lemma na_flag_ub fl run : seen_ub (na_flag fl run) = seen_ub fl.
Proof. unfold na_flag. destruct (existsb _ run); reflexivity. Qed.

Lemma elisp_str_slice_spec n : forall s, (length s <= n)%nat -> forall fuel fl scratch r rest,
  (length (ebody s) + 8 < fuel)%nat -> seen_ub fl = false -> at_bytes r (ebody s ++ 34 :: rest) ->
  exists fl' r', elisp_str_slice fuel fl scratch r = elisp_finish fl' (scratch ++ s) r' /\ seen_ub fl' = false /\
                 at_bytes r' rest /\ rk r' = rk r.
Proof.
  induction n as [|n IH]; intros s Hlen fuel fl scratch r rest Hf Hub Ha;
    (destruct fuel as [|f]; [lia|]); rewrite elisp_str_slice_eq; cbv zeta;
    pose proof (esplit_plain_spec s) as Hsp; destruct (split_plain s) as [p q];
    destruct Hsp as (Hs & Hp & Hb & Hl & Hq); rewrite Hb, <- app_assoc in Ha.
  - destruct q as [|e q]; [|subst s; rewrite app_length in Hlen; cbn in Hlen; lia].
    cbn [ebody flat_map app] in Ha.
    destruct (take_run_spec r p 34 rest Hp (or_intror eq_refl) Ha) as (r1 & E1 & Ha1 & Hk1).
    rewrite (bind_ok _ _ _ _ _ E1). cbn [fst snd]. change (34 =? 34) with true. cbv iota.
    rewrite app_nil_r in Hs. subst p. exists (na_flag fl s), r1. fold (na_flag fl s). rewrite na_flag_ub. auto.
  - destruct q as [|e q].
    + cbn [ebody flat_map app] in Ha.
      destruct (take_run_spec r p 34 rest Hp (or_intror eq_refl) Ha) as (r1 & E1 & Ha1 & Hk1).
      rewrite (bind_ok _ _ _ _ _ E1). cbn [fst snd]. change (34 =? 34) with true. cbv iota.
      rewrite app_nil_r in Hs. subst p. exists (na_flag fl s), r1. fold (na_flag fl s). rewrite na_flag_ub. auto.
    + destruct (escape_of e) as [esc|] eqn:Ee; [|contradiction].
      destruct (eescape_roundtrip e esc Ee) as (body & Eb & Hbody).
      cbn [ebody flat_map] in Ha. fold (ebody q) in Ha. rewrite Eb in Ha. cbn [app] in Ha. rewrite <- app_assoc in Ha.
      destruct (take_run_spec r p 92 _ Hp (or_introl eq_refl) Ha) as (r1 & E1 & Ha1 & Hk1).
      rewrite (bind_ok _ _ _ _ _ E1). cbn [fst snd]. change (92 =? 34) with false. cbv iota.
      assert (Hlens : (length (ebody s) = length p + S (length body) + length (ebody q))%nat).
      { rewrite Hb. cbn [ebody flat_map]. fold (ebody q). rewrite Eb. rewrite !app_length. cbn [length]. lia. }
      destruct (Hbody f r1 (ebody q ++ 34 :: rest) ltac:(lia) Ha1) as (ec & r3 & E3 & Hec & Ha3 & Hk3).
      rewrite (bind_ok _ _ _ _ _ E3). cbn [fst snd]. fold (na_flag fl p).
      assert (Hq' : (length q <= n)%nat) by (subst s; rewrite app_length in Hlen; cbn in Hlen; lia).
      destruct (IH q Hq' f (note_escape (na_flag fl p) ec) (scratch ++ p ++ [e]) r3 rest ltac:(lia)
                  (note_no_ub _ ec Hec ltac:(rewrite na_flag_ub; exact Hub)) Ha3) as (fl' & r4 & E4 & Hub4 & Ha4 & Hk4).
      exists fl', r4. rewrite E4. subst s. rewrite <- !app_assoc. cbn [app]. repeat split; auto; congruence.
Qed.

Lemma elisp_finish_multibyte fl b r : seen_ub fl = false -> utf8_valid b = true ->
  elisp_finish fl b r = (Ok (ElMultibyte b), r).
Proof. intros Hub Hv. unfold elisp_finish. rewrite Hub. cbn [andb]. unfold bind, Scan.as_str. rewrite Hv. reflexivity. Qed.

Lemma parse_elisp_str_spec s fuel r rest : utf8_valid s = true -> (length (ebody s) + 8 < fuel)%nat ->
  at_bytes r (ebody s ++ 34 :: rest) ->
  exists r', parse_elisp_str_rd fuel r = (Ok (ElMultibyte s), r') /\ at_bytes r' rest /\ rk r' = rk r.
Proof.
  intros Hv Hf Ha. unfold parse_elisp_str_rd. cbv zeta.
  set (fl0 := {| seen_ub := false; seen_mb := false; seen_na := false |}).
  destruct (rk r) eqn:Ek.
  - destruct (elisp_str_slice_spec (length s) s (le_n _) fuel fl0 [] r rest Hf eq_refl Ha) as (fl' & r' & E & Hub & Ha' & Hk').
    rewrite E. cbn [app]. rewrite (elisp_finish_multibyte fl' s r' Hub Hv). exists r'. repeat split; auto; congruence.
  - destruct (elisp_str_slice_spec (length s) s (le_n _) fuel fl0 [] r rest Hf eq_refl Ha) as (fl' & r' & E & Hub & Ha' & Hk').
    rewrite E. cbn [app]. rewrite (elisp_finish_multibyte fl' s r' Hub Hv). exists r'. repeat split; auto; congruence.
  - destruct (elisp_str_io_spec s fuel fl0 [] r rest Hf eq_refl Ha) as (fl' & r' & E & Hub & Ha' & Hk').
    rewrite E. cbn [app]. rewrite (elisp_finish_multibyte fl' s r' Hub Hv). exists r'. repeat split; auto; congruence.
Qed.

Section ElispStr.
  Variable alpha : N -> bool.
  Variable fast : bool.
  Variable std_parse : N -> Z -> f64.
  Local Notation parse_token := (parse_token elisp_ro alpha fast std_parse).

  Lemma etoken_string fuel :
    parse_token fuel 34 = (eat_char ;;; e <- parse_elisp_str_rd fuel ;;
                           match e with ElMultibyte s => ret (TString s) | ElUnibyte b => ret (TBytes b) end).
  Proof. reflexivity. Qed.

  Theorem etok_string fuel r s rest : utf8_valid s = true -> (length (estr_text s) + 8 < fuel)%nat ->
    at_bytes r (estr_text s ++ rest) -> peeked r ->
    exists r', parse_token fuel 34 r = (Ok (TString s), r') /\ at_bytes r' rest /\ rk r' = rk r.
  Proof.
    intros Hv Hf Ha Hp. unfold estr_text in *. fold (ebody s) in *. cbn [app] in Ha. rewrite <- app_assoc in Ha. cbn [app] in Ha.
    rewrite etoken_string. step.
    destruct (parse_elisp_str_spec s fuel r0 rest Hv ltac:(rewrite !app_length in Hf; cbn [length] in Hf; lia) Ha0)
      as (r1 & E1 & Ha1 & Hk1).
    rewrite (bind_ok _ _ _ _ _ E1). exists r1. unfold ret. repeat split; auto; congruence.
  Qed.
End ElispStr.

(* ---- unibyte strings (byte vectors under the Emacs Lisp syntax) ---- *)
Lemma decode_octal_digit y : y < 8 -> decode_octal_val (48 + y) = Some y.
Proof.
  intros H. unfold decode_octal_val, in_range. replace ((48 <=? 48 + y) && (48 + y <=? 55)) with true by lia. f_equal. lia.
Qed.

Lemma octal_loop_spec fuel r n y z t tail : (3 < fuel)%nat -> y < 8 -> z < 8 -> n < 8 -> t = 92 \/ t = 34 ->
  at_bytes r ((48 + y) :: (48 + z) :: t :: tail) ->
  exists r', elisp_octal_loop fuel n r = (Ok ((n * 8 + y) * 8 + z), r') /\ at_bytes r' (t :: tail) /\ rk r' = rk r.
Proof.
  intros Hf Hy Hz Hn Ht Ha. destruct fuel as [|[|[|f]]]; try lia. cbn [elisp_octal_loop].
  step. rewrite (decode_octal_digit y Hy). step. replace (cp_limit <=? n) with false by (unfold cp_limit; lia).
  step. rewrite (decode_octal_digit z Hz). step. replace (cp_limit <=? n * 8 + y) with false by (unfold cp_limit; lia).
  step. assert (Hd : decode_octal_val t = None) by (destruct Ht as [->| ->]; reflexivity). rewrite Hd.
  finish_at.
Qed.

Lemma octal_escape_spec o fuel r t tail : o < 256 -> (6 < fuel)%nat -> t = 92 \/ t = 34 ->
  at_bytes r (octal_digit ((o / 64) mod 8) :: octal_digit ((o / 8) mod 8) :: octal_digit (o mod 8) :: t :: tail) ->
  exists r', parse_elisp_escape fuel r = (Ok ([o], EscUnibyte), r') /\ at_bytes r' (t :: tail) /\ rk r' = rk r.
Proof.
  intros Ho Hf Ht Ha. unfold octal_digit in Ha.
  assert (Hx : (o / 64) mod 8 = 0 \/ (o / 64) mod 8 = 1 \/ (o / 64) mod 8 = 2 \/ (o / 64) mod 8 = 3) by lia.
  assert (Hval : (((o / 64) mod 8) * 8 + (o / 8) mod 8) * 8 + o mod 8 = o) by lia.
  unfold parse_elisp_escape. step_noe.
  assert (Hloop : forall x, x < 4 -> (o / 64) mod 8 = x ->
            exists r', decode_elisp_octal_escape fuel (48 + x) r0 = (Ok o, r') /\ at_bytes r' (t :: tail) /\ rk r' = rk r0).
  { intros x Hx4 Ex. unfold decode_elisp_octal_escape. replace (48 + x - 48) with x by lia.
    rewrite Ex in *.
    destruct (octal_loop_spec fuel r0 x ((o / 8) mod 8) (o mod 8) t tail ltac:(lia) ltac:(lia) ltac:(lia) ltac:(lia) Ht Ha0)
      as (r1 & E1 & Ha1 & Hk1).
    exists r1. rewrite E1, Hval. auto. }
  assert (Hfin : forall r1, (n <- ret o ;; elisp_char_escape_of n) r1 = (Ok ([o], EscUnibyte), r1)).
  { intros r1. unfold bind, ret, elisp_char_escape_of. replace (is_scalar o) with true by (unfold is_scalar; lia).
    replace (255 <? o) with false by lia. reflexivity. }
  destruct Hx as [Ex|[Ex|[Ex|Ex]]]; rewrite Ex in *; eval_cmp;
    [destruct (Hloop 0 ltac:(lia) eq_refl) as (r1 & E1 & Ha1 & Hk1)
    |destruct (Hloop 1 ltac:(lia) eq_refl) as (r1 & E1 & Ha1 & Hk1)
    |destruct (Hloop 2 ltac:(lia) eq_refl) as (r1 & E1 & Ha1 & Hk1)
    |destruct (Hloop 3 ltac:(lia) eq_refl) as (r1 & E1 & Ha1 & Hk1)];
    rewrite (bind_ok _ _ _ _ _ E1); unfold elisp_char_escape_of;
    replace (is_scalar o) with true by (unfold is_scalar; lia); replace (255 <? o) with false by lia;
    exists r1; unfold ret; repeat split; auto; congruence.
Qed.

Definition obody (bs : bytes) : bytes := flat_map octal_text bs.
Definition ubf (fl : elisp_flags) : elisp_flags := {| seen_ub := true; seen_mb := seen_mb fl; seen_na := seen_na fl |}.
Definition after_bytes (fl : elisp_flags) (bs : bytes) : elisp_flags := match bs with [] => fl | _ => ubf fl end.

Lemma obody_head bs rest : exists t tail, obody bs ++ 34 :: rest = t :: tail /\ (t = 92 \/ t = 34).
Proof. destruct bs as [|o bs]; cbn [obody flat_map octal_text app]; eexists; eexists; split; try reflexivity; auto. Qed.

Lemma after_bytes_cons fl o bs : after_bytes (ubf fl) bs = after_bytes fl (o :: bs).
Proof. destruct bs; reflexivity. Qed.

Lemma bytes_io_spec bs : forall fuel fl scratch r rest, octets_ok bs -> (length (obody bs) + 8 < fuel)%nat ->
  at_bytes r (obody bs ++ 34 :: rest) ->
  exists r', elisp_str_io fuel fl scratch r = elisp_finish (after_bytes fl bs) (scratch ++ bs) r' /\
             at_bytes r' rest /\ rk r' = rk r.
Proof.
  induction bs as [|o bs IH]; intros fuel fl scratch r rest Hok Hf Ha;
    (destruct fuel as [|f]; [lia|]); cbn [elisp_str_io].
  - cbn [obody flat_map app] in Ha. step_noe. change (34 =? 34) with true. cbv iota.
    last_at ltac:(fun rr Hx => exists rr). rewrite app_nil_r. auto.
  - inversion Hok as [|? ? Ho Hok']; subst.
    cbn [obody flat_map octal_text app] in Ha, Hf. fold (obody bs) in Ha, Hf. cbn [length] in Hf.
    step_noe. change (92 =? 34) with false. change (92 =? 92) with true. cbv iota.
    destruct (obody_head bs rest) as (t & tail & Et & Ht). rewrite Et in *.
    destruct (octal_escape_spec o f r0 t tail Ho ltac:(lia) Ht Ha0) as (r1 & E1 & Ha1 & Hk1).
    rewrite (bind_ok _ _ _ _ _ E1). cbn [fst snd note_escape]. fold (ubf fl). rewrite <- Et in Ha1.
    destruct (IH f (ubf fl) (scratch ++ [o]) r1 rest Hok' ltac:(lia) Ha1) as (r2 & E2 & Ha2 & Hk2).
    exists r2. rewrite E2, <- app_assoc, (after_bytes_cons fl o bs). repeat split; auto; congruence.
Qed.

Lemma bytes_slice_spec bs : forall fuel fl scratch r rest, octets_ok bs -> (length (obody bs) + 8 < fuel)%nat ->
  at_bytes r (obody bs ++ 34 :: rest) ->
  exists r', elisp_str_slice fuel fl scratch r = elisp_finish (after_bytes fl bs) (scratch ++ bs) r' /\
             at_bytes r' rest /\ rk r' = rk r.
Proof.
  induction bs as [|o bs IH]; intros fuel fl scratch r rest Hok Hf Ha;
    (destruct fuel as [|f]; [lia|]); rewrite elisp_str_slice_eq; cbv zeta.
  - cbn [obody flat_map app] in Ha.
    destruct (take_run_spec r [] 34 rest ltac:(constructor) (or_intror eq_refl) Ha) as (r1 & E1 & Ha1 & Hk1).
    rewrite (bind_ok _ _ _ _ _ E1). cbn [fst snd existsb]. change (34 =? 34) with true. cbv iota.
    exists r1. rewrite !app_nil_r. auto.
  - inversion Hok as [|? ? Ho Hok']; subst.
    cbn [obody flat_map octal_text app] in Ha, Hf. fold (obody bs) in Ha, Hf. cbn [length] in Hf.
    destruct (take_run_spec r [] 92 _ ltac:(constructor) (or_introl eq_refl) Ha) as (r1 & E1 & Ha1 & Hk1).
    rewrite (bind_ok _ _ _ _ _ E1). cbn [fst snd existsb]. change (92 =? 34) with false. cbv iota.
    destruct (obody_head bs rest) as (t & tail & Et & Ht). rewrite Et in *.
    destruct (octal_escape_spec o f r1 t tail Ho ltac:(lia) Ht Ha1) as (r2 & E2 & Ha2 & Hk2).
    rewrite (bind_ok _ _ _ _ _ E2). cbn [fst snd note_escape app]. fold (ubf fl). rewrite <- Et in Ha2.
    destruct (IH f (ubf fl) (scratch ++ [o]) r2 rest Hok' ltac:(lia) Ha2) as (r3 & E3 & Ha3 & Hk3).
    exists r3. rewrite E3, <- app_assoc, (after_bytes_cons fl o bs). repeat split; auto; congruence.
Qed.

(* what an Emacs Lisp unibyte string reads back as: bytes, or the empty string *)
Definition bytes_token (bs : bytes) : token := match bs with [] => TString [] | _ => TBytes bs end.

Section ElispBytes.
  Variable alpha : N -> bool.
  Variable fast : bool.
  Variable std_parse : N -> Z -> f64.
  Local Notation parse_token := (parse_token elisp_ro alpha fast std_parse).

  Theorem etok_bytes fuel r bs rest : octets_ok bs -> (length (ebytes_text bs) + 8 < fuel)%nat ->
    at_bytes r (ebytes_text bs ++ rest) -> peeked r ->
    exists r', parse_token fuel 34 r = (Ok (bytes_token bs), r') /\ at_bytes r' rest /\ rk r' = rk r.
  Proof.
    intros Hok Hf Ha Hp. unfold ebytes_text in *. fold (obody bs) in *. cbn [app] in Ha. rewrite <- app_assoc in Ha. cbn [app] in Ha.
    rewrite (etoken_string alpha fast std_parse fuel). step.
    assert (Hf' : (length (obody bs) + 8 < fuel)%nat) by (rewrite !app_length in Hf; cbn [length] in Hf; lia).
    set (fl0 := {| seen_ub := false; seen_mb := false; seen_na := false |}).
    assert (Hrun : exists r1, parse_elisp_str_rd fuel r0 = elisp_finish (after_bytes fl0 bs) bs r1 /\ at_bytes r1 rest /\ rk r1 = rk r0).
    { unfold parse_elisp_str_rd. cbv zeta. fold fl0. destruct (rk r0) eqn:Ek.
      - destruct (bytes_slice_spec bs fuel fl0 [] r0 rest Hok Hf' Ha0) as (r1 & E & Ha1 & Hk1). exists r1. rewrite E. cbn [app]. repeat split; auto; congruence.
      - destruct (bytes_slice_spec bs fuel fl0 [] r0 rest Hok Hf' Ha0) as (r1 & E & Ha1 & Hk1). exists r1. rewrite E. cbn [app]. repeat split; auto; congruence.
      - destruct (bytes_io_spec bs fuel fl0 [] r0 rest Hok Hf' Ha0) as (r1 & E & Ha1 & Hk1). exists r1. rewrite E. cbn [app]. repeat split; auto; congruence. }
    destruct Hrun as (r1 & E1 & Ha1 & Hk1). unfold bind. rewrite E1.
    destruct bs as [|o bs]; cbn [after_bytes bytes_token].
    - unfold elisp_finish, fl0. cbn [seen_ub andb]. unfold bind, Scan.as_str. cbn. exists r1. repeat split; auto; congruence.
    - unfold elisp_finish, ubf, fl0. cbn [seen_ub seen_mb seen_na andb orb negb]. unfold ret. exists r1. repeat split; auto; congruence.
  Qed.
End ElispBytes.
