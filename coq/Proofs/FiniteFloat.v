(* C05: no numeric literal is ever read as an infinity or a NaN. Every float the
   number routines return is finite - a magnitude too large for binary64 ends
   in NumberOutOfRange instead (the guards after the one multiplication that
   can overflow), divisions by a power of ten cannot overflow, and the
   operands never are infinities or NaNs themselves. Flocq carries the facts
   about binary64 arithmetic. *)
From Coq Require Import ZArith Reals Lia Lra SpecFloat.
From Flocq Require Import Core BinarySingleNaN.
Require Import Base Value Float PrintOptions ParseOptions Reader Scan Num NumberOps Parser ClingerProofs FuelProofs FloatFuel.

Local Open Scope Z_scope.
Local Existing Instance Hprec.
Local Existing Instance Hmax.
Local Notation bfloat := (binary_float p53 e1024).
Local Notation fexp64 := (SpecFloat.fexp p53 e1024).
Local Notation rnd64 := (round radix2 fexp64 ZnearestE).
Local Existing Instance valid64.

(* a finite double, seen through its bit-level image *)
Definition finb (f : f64) : Prop := exists x : bfloat, f = B2SF x /\ is_finite x = true.

Lemma finb_finite f : finb f -> is_finite_f64 f = true.
Proof. intros (x & -> & H). destruct x; try discriminate; reflexivity. Qed.
Lemma finb_neg f : finb f -> finb (f64_neg f).
Proof.
  intros (x & -> & H). exists (Bopp x). split; [|rewrite is_finite_Bopp; exact H].
  destruct x; reflexivity.
Qed.
Lemma finb_zero s : finb (S754_zero s).
Proof. exists (B754_zero s). split; reflexivity. Qed.

(* the largest double *)
Definition maxf : R := F2R (Defs.Float radix2 (2 ^ 53 - 1) 971).
Lemma maxf_fmt : generic_format radix2 fexp64 maxf.
Proof. apply format_small; [vm_compute; reflexivity|lia]. Qed.
Lemma maxf_lt : (maxf < bpow radix2 1024)%R.
Proof.
  unfold maxf, F2R. simpl Fnum. simpl Fexp. change 1024 with (53 + 971). rewrite bpow_plus.
  apply Rmult_lt_compat_r; [apply bpow_gt_0|]. change (bpow radix2 53) with (IZR (2 ^ 53)). apply IZR_lt. lia.
Qed.
Lemma round_below_max x : (Rabs x <= maxf)%R -> (Rabs (rnd64 x) < bpow radix2 e1024)%R.
Proof.
  intros H. apply Rle_lt_trans with maxf; [|exact maxf_lt].
  apply abs_round_le_generic; [exact valid64|apply valid_rnd_N|exact maxf_fmt|exact H].
Qed.

(* a non-negative integer up to the largest double converts to a finite double, at least 1 when the integer is *)
Lemma bnorm_finite z : 0 <= z -> (IZR z <= maxf)%R ->
  is_finite (bnorm z) = true /\ (0 <= B2R (bnorm z))%R /\ (1 <= z -> (1 <= B2R (bnorm z))%R).
Proof.
  intros Hz Hm. unfold bnorm.
  pose proof (binary_normalize_correct p53 e1024 Hprec Hmax mode_NE z 0 false) as H. cbv zeta in H.
  change (round_mode mode_NE) with ZnearestE in H.
  assert (Hx : F2R (Defs.Float radix2 z 0) = IZR z) by (unfold F2R; simpl; ring). rewrite Hx in H.
  assert (H0 : (0 <= IZR z)%R) by (apply IZR_le; exact Hz).
  rewrite Rlt_bool_true in H by (apply round_below_max; rewrite Rabs_pos_eq by exact H0; exact Hm).
  destruct H as (H1 & H2 & _). rewrite H1. split; [exact H2|]. split.
  - rewrite <- (round_0 radix2 fexp64 ZnearestE). apply round_le; [exact valid64|apply valid_rnd_N|exact H0].
  - intros Hz1. apply round_ge_generic; [exact valid64|apply valid_rnd_N| |apply IZR_le; exact Hz1].
    change 1%R with (bpow radix2 0). apply fmt_bpow. lia.
Qed.

Lemma pow10_finite (k : N) : (k <= 308)%N -> exists y : bfloat, pow10_f64 k = B2SF y /\ is_finite y = true /\ (1 <= B2R y)%R.
Proof.
  intros Hk. unfold pow10_f64. rewrite f64_of_Z_B. exists (bnorm (10 ^ Z.of_N k)).
  assert (H1 : 1 <= 10 ^ Z.of_N k) by (change 1 with (10 ^ 0); apply Z.pow_le_mono_r; lia).
  assert (Hm : (IZR (10 ^ Z.of_N k) <= maxf)%R).
  { unfold maxf, F2R. simpl Fnum. simpl Fexp. change (bpow radix2 971) with (IZR (2 ^ 971)). rewrite <- mult_IZR. apply IZR_le.
    apply Z.le_trans with (10 ^ 308); [apply Z.pow_le_mono_r; lia|vm_compute; discriminate]. }
  destruct (bnorm_finite (10 ^ Z.of_N k) ltac:(lia) Hm) as (A & B & C). split; [reflexivity|]. split; [exact A|apply C; exact H1].
Qed.

Lemma sig_finite (sig : N) : (sig <= u64_MAX)%N -> finb (f64_of_N sig).
Proof.
  intros Hs. destruct (sig_bounds sig Hs) as [_ Hf]. exists (bnorm (Z.of_N sig)). split; [apply f64_of_Z_B|exact Hf].
Qed.

(* finite * finite is finite unless it overflows to an infinity: never a NaN *)
Lemma mul_finite (x y : bfloat) : is_finite x = true -> is_finite y = true ->
  is_infinite_f64 (f64_mul (B2SF x) (B2SF y)) = false -> finb (f64_mul (B2SF x) (B2SF y)).
Proof.
  intros Hx Hy. unfold f64_mul. change Value.prec with p53. change Value.emax with e1024. rewrite SFmul_B.
  pose proof (Bmult_correct p53 e1024 Hprec Hmax mode_NE x y) as H.
  destruct (Rlt_bool _ _).
  - destruct H as (_ & H2 & _). intros _. exists (Bmult mode_NE x y). split; [reflexivity|]. rewrite H2, Hx, Hy. reflexivity.
  - rewrite H. unfold binary_overflow. simpl. discriminate.
Qed.
(* finite / (a finite double >= 1) is finite *)
Lemma div_finite (x y : bfloat) : is_finite x = true -> is_finite y = true -> (1 <= B2R y)%R ->
  finb (f64_div (B2SF x) (B2SF y)).
Proof.
  intros Hx Hy Hy1. unfold f64_div. change Value.prec with p53. change Value.emax with e1024. rewrite SFdiv_B.
  pose proof (Bdiv_correct p53 e1024 Hprec Hmax mode_NE x y ltac:(lra)) as H. change (round_mode mode_NE) with ZnearestE in H.
  assert (Hq : (Rabs (B2R x / B2R y) <= Rabs (B2R x))%R).
  { unfold Rdiv. rewrite Rabs_mult. rewrite (Rabs_pos_eq (/ B2R y)) by (apply Rlt_le, Rinv_0_lt_compat; lra).
    rewrite <- (Rmult_1_r (Rabs (B2R x))) at 2. apply Rmult_le_compat_l; [apply Rabs_pos|]. rewrite <- Rinv_1. apply Rinv_le; lra. }
  rewrite Rlt_bool_true in H.
  - destruct H as (_ & H2 & _). exists (Bdiv mode_NE x y). split; [reflexivity|]. rewrite H2. exact Hx.
  - apply Rle_lt_trans with (Rabs (B2R x)).
    + apply abs_round_le_generic; [exact valid64|apply valid_rnd_N|apply generic_format_abs; apply generic_format_B2R|exact Hq].
    + apply (abs_B2R_lt_emax p53 e1024 x).
Qed.

Lemma neg1_finite f : finb f -> finb (f64_mul f (f64_of_Z (-1))).
Proof.
  intros (x & -> & Hx). rewrite f64_of_Z_B.
  destruct (int_exact (-1) ltac:(vm_compute; reflexivity)) as [Hv Hf].
  apply mul_finite; [exact Hx|exact Hf|].
  unfold f64_mul. change Value.prec with p53. change Value.emax with e1024. rewrite SFmul_B.
  pose proof (Bmult_correct p53 e1024 Hprec Hmax mode_NE x (bnorm (-1))) as H. change (round_mode mode_NE) with ZnearestE in H.
  rewrite Hv in H.
  assert (Hfmt : generic_format radix2 fexp64 (B2R x * IZR (-1))).
  { replace (B2R x * IZR (-1))%R with (- B2R x)%R by (simpl; ring). apply generic_format_opp. apply generic_format_B2R. }
  rewrite (round_generic radix2 fexp64 ZnearestE _ Hfmt) in H.
  rewrite Rlt_bool_true in H.
  - destruct H as (_ & H2 & _). rewrite Hx, Hf in H2. cbn [andb] in H2. destruct (Bmult mode_NE x (bnorm (-1))); try discriminate H2; reflexivity.
  - replace (B2R x * IZR (-1))%R with (- B2R x)%R by (simpl; ring). rewrite Rabs_Ropp. apply (abs_B2R_lt_emax p53 e1024 x).
Qed.

(* integer -> double conversion never yields a NaN *)
Lemma bnorm_not_nan z : B2SF (bnorm z) <> S754_nan.
Proof.
  unfold bnorm. pose proof (binary_normalize_correct p53 e1024 Hprec Hmax mode_NE z 0 false) as H. cbv zeta in H.
  destruct (Rlt_bool _ _).
  - destruct H as (_ & H2 & _). destruct (binary_normalize _ _ _ _ _ _ _ _); try discriminate; simpl; discriminate.
  - rewrite H. unfold binary_overflow. simpl. discriminate.
Qed.

(* a non-zero finite double times any converted integer: finite, or an infinity *)
Lemma mul_by_int_finite (sig : N) z : (1 <= sig <= u64_MAX)%N ->
  is_infinite_f64 (f64_mul (f64_of_N sig) (f64_of_Z z)) = false -> finb (f64_mul (f64_of_N sig) (f64_of_Z z)).
Proof.
  intros [H1 Hs]. unfold f64_of_N. rewrite !f64_of_Z_B.
  assert (Hm : (IZR (Z.of_N sig) <= maxf)%R).
  { unfold maxf, F2R. simpl Fnum. simpl Fexp. change (bpow radix2 971) with (IZR (2 ^ 971)). rewrite <- mult_IZR. apply IZR_le.
    unfold u64_MAX in Hs. apply Z.le_trans with (2 ^ 64); [lia|vm_compute; discriminate]. }
  destruct (bnorm_finite (Z.of_N sig) ltac:(lia) Hm) as (Hf & _ & Hge). specialize (Hge ltac:(lia)).
  pose proof (bnorm_not_nan z) as Hnn.
  destruct (bnorm z) as [sy|sy| |sy my ey Hby] eqn:Ey.
  - apply mul_finite; [exact Hf|reflexivity].
  - (* times an infinity *)
    destruct (bnorm (Z.of_N sig)) as [sx|sx| |sx mx ex Hbx]; try discriminate Hf.
    + simpl in Hge. lra.
    + simpl. discriminate.
  - exfalso. apply Hnn. reflexivity.
  - apply mul_finite; [exact Hf|reflexivity].
Qed.

(* ---- postconditions of the number routines ---- *)
Definition alw {A} (q : A -> Prop) (m : M A) : Prop := forall r, match m r with (Ok a, _) => q a | (Err _, _) => True end.
Lemma alw_ret {A} (q : A -> Prop) a : q a -> alw q (ret a).
Proof. intros H r. exact H. Qed.
Lemma alw_error {A} (q : A -> Prop) c : alw q (error c).
Proof. intros r. unfold error. destruct (r_position r). exact I. Qed.
Lemma alw_peek_error {A} (q : A -> Prop) c : alw q (peek_error c).
Proof. intros r. unfold peek_error. destruct (r_peek_position r). exact I. Qed.
Lemma alw_fuel {A} (q : A -> Prop) : alw q out_of_fuel.
Proof. intros r. exact I. Qed.
Lemma alw_bind {A B} (q : B -> Prop) (m : M A) (f : A -> M B) : (forall a, alw q (f a)) -> alw q (bind m f).
Proof. intros H r. unfold bind. destruct (m r) as [[a|e] r1]; [apply H|exact I]. Qed.
Lemma alw_bind_p {A B} (p : A -> Prop) (q : B -> Prop) (m : M A) (f : A -> M B) :
  alw p m -> (forall a, p a -> alw q (f a)) -> alw q (bind m f).
Proof. intros Hm H r. unfold bind. specialize (Hm r). destruct (m r) as [[a|e] r1]; [apply H; exact Hm|exact I]. Qed.

Definition fin_num (n : number) : Prop := match n with Float f => finb f | _ => True end.

Lemma fast_loop_finite fuel : forall f e, finb f -> alw finb (f64_from_parts_fast_loop fuel f e).
Proof.
  induction fuel as [|k IH]; intros f e Hf; cbn [f64_from_parts_fast_loop]; [apply alw_fuel|].
  destruct (Z.abs e <=? 308)%Z eqn:E.
  - destruct (0 <=? e)%Z eqn:E0.
    + destruct (pow10_finite (Z.to_N e) ltac:(lia)) as (y & Ey & Hy & _). destruct Hf as (x & -> & Hx). rewrite Ey.
      destruct (is_infinite_f64 (f64_mul (B2SF x) (B2SF y))) eqn:Ei; [apply alw_error|].
      apply alw_ret. apply mul_finite; assumption.
    + destruct (pow10_finite (Z.to_N (- e)) ltac:(lia)) as (y & Ey & Hy & Hy1). destruct Hf as (x & -> & Hx). rewrite Ey.
      apply alw_ret. apply div_finite; assumption.
  - destruct (f64_eqb f (S754_zero false)); [apply alw_ret; exact Hf|].
    destruct (0 <=? e)%Z; [apply alw_error|]. apply IH.
    destruct (pow10_finite 308 ltac:(lia)) as (y & Ey & Hy & Hy1). destruct Hf as (x & -> & Hx). rewrite Ey.
    apply div_finite; assumption.
Qed.


Section Finite.
  Variable fast : bool.
  Variable std_parse : N -> Z -> f64.
  (* what the build without fast-float-parsing assumes of str::parse::<f64>: a double, never a NaN *)
  Hypothesis Hstd : fast = false -> forall s e, is_infinite_f64 (std_parse s e) = false -> finb (std_parse s e).

  Lemma from_parts_finite pos sig e : (sig <= u64_MAX)%N -> alw finb (f64_from_parts fast std_parse pos sig e).
  Proof.
    intros Hs. unfold f64_from_parts. pose proof Hstd as Hstd'. revert Hstd'. destruct fast eqn:Ef; intros Hstd'.
    - apply (alw_bind_p finb); [apply fast_loop_finite; apply sig_finite; exact Hs|].
      intros f Hf. apply alw_ret. destruct pos; [exact Hf|apply finb_neg; exact Hf].
    - cbv zeta. destruct (is_infinite_f64 (std_parse sig e)) eqn:Ei; [apply alw_error|].
      apply alw_ret. pose proof (Hstd' eq_refl sig e Ei) as Hf. destruct pos; [exact Hf|apply neg1_finite; exact Hf].
  Qed.

  Lemma overflow_finite fuel p s pe : alw finb (parse_exponent_overflow fuel p s pe).
  Proof.
    unfold parse_exponent_overflow. destruct (_ && _); [apply alw_error|]. apply alw_bind. intros _. apply alw_ret. apply finb_zero.
  Qed.
  Lemma exponent_digits_finite fuel : forall p s pe se e, (s <= u64_MAX)%N ->
    alw finb (exponent_digits fast std_parse fuel p s pe se e).
  Proof.
    induction fuel as [|f IH]; intros p s pe se e Hs; cbn [exponent_digits]; [apply alw_fuel|].
    apply alw_bind. intros c. destruct (is_digit c).
    - apply alw_bind. intros _. cbv zeta. destruct (overflow_Z _ _ _ _); [apply overflow_finite|apply IH; exact Hs].
    - cbv zeta. apply from_parts_finite. exact Hs.
  Qed.
  Lemma parse_exponent_finite fuel p s se : (s <= u64_MAX)%N -> alw finb (parse_exponent fast std_parse fuel p s se).
  Proof.
    intros Hs. unfold parse_exponent. apply alw_bind. intros _. apply alw_bind. intros c. apply alw_bind. intros pe.
    apply alw_bind. intros o. destruct o as [d|]; [|apply alw_error].
    destruct (is_digit d); [apply exponent_digits_finite; exact Hs|apply alw_error].
  Qed.
  Lemma parse_decimal_finite fuel p s e : (s <= u64_MAX)%N -> alw finb (parse_decimal fast std_parse fuel p s e).
  Proof.
    intros Hs. unfold parse_decimal. apply alw_bind. intros _.
    apply (alw_bind_p (fun a : N * Z * bool => (fst (fst a) <= u64_MAX)%N)).
    - intros r. pose proof (decimal_digits_sig fuel s e false r) as H.
      destruct (decimal_digits fuel s e false r) as [[a|err] r1]; [|exact I]. apply (H a r1 Hs eq_refl).
    - intros [[sig ex] one] Hsig. cbn [fst] in Hsig. destruct (negb one).
      + apply alw_bind. intros o. destruct o; apply alw_peek_error.
      + apply alw_bind. intros c. destruct (_ || _); [apply parse_exponent_finite; exact Hsig|apply from_parts_finite; exact Hsig].
  Qed.

  Lemma long_integer_finite fuel : forall radix p s e, (1 <= s <= u64_MAX)%N ->
    alw finb (parse_long_integer fast std_parse fuel radix p s e).
  Proof.
    induction fuel as [|f IH]; intros radix p s e Hs; cbn [parse_long_integer]; [apply alw_fuel|].
    apply alw_bind. intros c. destruct (digit_val (10 <? radix)%N c) as [d|].
    - destruct (radix <=? d)%N; [apply alw_peek_error|]. apply alw_bind. intros _. apply IH. exact Hs.
    - destruct (c =? 46)%N.
      { destruct (negb (radix =? 10)%N); [apply alw_peek_error|apply parse_decimal_finite; apply Hs]. }
      destruct (_ || _).
      { destruct (negb (radix =? 10)%N); [apply alw_peek_error|apply parse_exponent_finite; apply Hs]. }
      destruct (negb (radix =? 10)%N); [|apply from_parts_finite; apply Hs].
      cbv zeta. unfold scale_pow2_radix.
      destruct (is_infinite_f64 _) eqn:Ei; [apply alw_error|]. apply alw_ret.
      pose proof (mul_by_int_finite s _ Hs Ei) as Hf. destruct p; [exact Hf|apply finb_neg; exact Hf].
  Qed.

  Lemma num_tail_finite fuel radix p s : (s <= u64_MAX)%N -> alw fin_num (parse_num_tail fast std_parse fuel radix p s).
  Proof.
    intros Hs. unfold parse_num_tail. apply alw_bind. intros c.
    destruct (c =? 46)%N.
    { destruct (negb _); [apply alw_peek_error|]. apply (alw_bind_p finb); [apply parse_decimal_finite; exact Hs|].
      intros f Hf. apply alw_ret. exact Hf. }
    destruct (_ || _).
    { destruct (negb _); [apply alw_peek_error|]. apply (alw_bind_p finb); [apply parse_exponent_finite; exact Hs|].
      intros f Hf. apply alw_ret. exact Hf. }
    destruct p; [apply alw_ret; exact I|].
    destruct (_ <? s)%N; apply alw_ret.
    - cbn [fin_num]. apply finb_neg. apply sig_finite. exact Hs.
    - unfold num_from_signed. destruct (_ <=? _)%Z; exact I.
  Qed.

  Lemma overflow_true_pos a radix b : radix_ok' radix -> overflow_N a radix b u64_MAX = true -> (1 <= a)%N.
  Proof. intros [->|[->|[->| ->]]]; unfold overflow_N, u64_MAX; intros H; lia. Qed.

  Lemma num_literal_loop_finite fuel : forall radix p s, radix_ok' radix -> (s <= u64_MAX)%N ->
    alw fin_num (num_literal_loop fast std_parse fuel radix p s).
  Proof.
    induction fuel as [|f IH]; intros radix p s Hr Hs; cbn [num_literal_loop]; [apply alw_fuel|].
    apply alw_bind. intros c. destruct (digit_val (10 <? radix)%N c) as [d|] eqn:Ed; [|apply num_tail_finite; exact Hs].
    destruct (radix <=? d)%N eqn:El; [apply alw_peek_error|]. apply alw_bind. intros _.
    destruct (overflow_N s radix d u64_MAX) eqn:Eo.
    - apply (alw_bind_p finb); [apply long_integer_finite; split; [apply (overflow_true_pos s radix d Hr Eo)|exact Hs]|].
      intros fl Hf. apply alw_ret. exact Hf.
    - apply IH; [exact Hr|]. apply (overflow_false_le s radix d u64_MAX Hr ltac:(lia) Eo).
  Qed.
  Lemma num_literal_finite fuel radix p : radix_ok' radix -> alw fin_num (parse_num_literal fast std_parse fuel radix p).
  Proof.
    intros Hr. unfold parse_num_literal. apply alw_bind. intros o. destruct o as [c|]; [|apply alw_peek_error].
    destruct (digit_val true c) as [d|] eqn:Ed; [|apply alw_peek_error]. destruct (radix <=? d)%N eqn:El; [apply alw_peek_error|].
    apply num_literal_loop_finite; [exact Hr|]. pose proof (digit_val_lt _ _ _ Ed). unfold u64_MAX. lia.
  Qed.
  Lemma num_token_finite fuel radix p : radix_ok' radix -> alw fin_num (parse_num_token fast std_parse fuel radix p).
  Proof.
    intros Hr. unfold parse_num_token. apply (alw_bind_p fin_num); [apply num_literal_finite; exact Hr|].
    intros n Hn. apply alw_bind. intros o. destruct o as [c|]; [destruct (is_delimiter c); [apply alw_ret; exact Hn|apply alw_peek_error]|apply alw_ret; exact Hn].
  Qed.
  Lemma radix_literal_finite fuel radix : radix_ok' radix -> alw fin_num (parse_radix_literal fast std_parse fuel radix).
  Proof.
    intros Hr. unfold parse_radix_literal. apply alw_bind. intros c.
    destruct (c =? 45)%N; [apply alw_bind; intros _; apply num_token_finite; exact Hr|].
    destruct (c =? 43)%N; [apply alw_bind; intros _; apply num_token_finite; exact Hr|apply num_token_finite; exact Hr].
  Qed.
  Lemma number_finite fuel : alw fin_num (parse_number fast std_parse fuel).
  Proof.
    unfold parse_number. apply alw_bind. intros c. destruct (c =? 35)%N; [|apply radix_literal_finite; apply rok10].
    apply alw_bind. intros _. apply alw_bind. intros o. destruct o as [x|]; [|apply alw_peek_error].
    repeat match goal with |- alw _ (if ?c then _ else _) => destruct c end;
      first [apply radix_literal_finite; first [apply rok2|apply rok8|apply rok10|apply rok16] | apply alw_peek_error].
  Qed.
End Finite.
