(* C17 / C13 for &str input: StrRead skips the UTF-8 check of scanned symbols
   and strings (from_utf8_unchecked), relying on its input being a str. That
   reliance is justified: when the whole input is well-formed UTF-8, every
   symbol, keyword and string the parser builds from it is well-formed too. *)
From Coq Require Import SpecFloat Lia ZifyBool ZifyNat ZifyN.
Require Import Base Value Float PrintOptions ParseOptions Utf8 Reader Scan Num NumberOps Parser.
Require Import RelFramework PositionProofs Utf8Proofs Utf8PrintProofs DepthProofs Utf8ParseProofs SpanProofs.
Ltac Zify.zify_post_hook ::= Z.div_mod_to_equations.

(* char::encode_utf8 of a scalar value is well-formed *)
Lemma utf8_encode_valid n : is_scalar n = true -> utf8_valid (utf8_encode n) = true.
Proof.
  unfold is_scalar, utf8_encode. intros H.
  destruct (n <? 128) eqn:E1.
  { unfold utf8_valid. cbn [length utf8_valid_fuel utf8_head_len]. rewrite E1. reflexivity. }
  destruct (n <? 2048) eqn:E2.
  { unfold utf8_valid. cbn [length utf8_valid_fuel utf8_head_len skipn].
    replace (192 + n / 64 <? 128) with false by lia.
    replace (in_range 194 223 (192 + n / 64)) with true by (unfold in_range; lia).
    replace (is_cont (128 + n mod 64)) with true by (unfold is_cont, in_range; lia). reflexivity. }
  destruct (n <? 65536) eqn:E3.
  { unfold utf8_valid. cbn [length utf8_valid_fuel utf8_head_len skipn].
    replace (224 + n / 4096 <? 128) with false by lia.
    replace (in_range 194 223 (224 + n / 4096)) with false by (unfold in_range; lia).
    replace (is_cont (128 + n mod 64)) with true by (unfold is_cont, in_range; lia).
    destruct (224 + n / 4096 =? 224) eqn:F1.
    { replace (in_range 160 191 (128 + n / 64 mod 64)) with true by (unfold in_range; lia). reflexivity. }
    destruct (in_range 225 236 (224 + n / 4096) || in_range 238 239 (224 + n / 4096)) eqn:F2.
    { replace (is_cont (128 + n / 64 mod 64)) with true by (unfold is_cont, in_range; lia). reflexivity. }
    replace (224 + n / 4096 =? 237) with true by (unfold in_range in F2; lia).
    replace (in_range 128 159 (128 + n / 64 mod 64)) with true by (unfold in_range in *; lia). reflexivity. }
  unfold utf8_valid. cbn [length utf8_valid_fuel utf8_head_len skipn].
  replace (240 + n / 262144 <? 128) with false by lia.
  replace (in_range 194 223 (240 + n / 262144)) with false by (unfold in_range; lia).
  replace (240 + n / 262144 =? 224) with false by lia.
  replace (in_range 225 236 (240 + n / 262144) || in_range 238 239 (240 + n / 262144)) with false by (unfold in_range; lia).
  replace (240 + n / 262144 =? 237) with false by lia.
  replace (is_cont (128 + n / 64 mod 64)) with true by (unfold is_cont, in_range; lia).
  replace (is_cont (128 + n mod 64)) with true by (unfold is_cont, in_range; lia).
  destruct (240 + n / 262144 =? 240) eqn:G1.
  { replace (in_range 144 191 (128 + n / 4096 mod 64)) with true by (unfold in_range; lia). reflexivity. }
  destruct (in_range 241 243 (240 + n / 262144)) eqn:G2.
  { replace (is_cont (128 + n / 4096 mod 64)) with true by (unfold is_cont, in_range; lia). reflexivity. }
  replace (240 + n / 262144 =? 244) with true by (unfold in_range in G2; lia).
  replace (in_range 128 143 (128 + n / 4096 mod 64)) with true by (unfold in_range in *; lia). reflexivity.
Qed.

(* ---- every event of a str input is a byte: an instance of the generic traversal ---- *)
Definition is_byte (e : event) : Prop := match e with EByte _ => True | _ => False end.
Definition all_bytes (l : list event) : Prop := Forall is_byte l.
Definition Rab (r : reader) (x : option perr) (r' : reader) : Prop := all_bytes (rinput r) -> all_bytes (rinput r').

Lemma Rab_ret r : Rab r None r.  Proof. intros H; exact H. Qed.
Lemma Rab_seq r r1 x r2 : Rab r None r1 -> Rab r1 x r2 -> Rab r x r2.
Proof. unfold Rab. auto. Qed.
Lemma Rab_fuel r : Rab r (Some EFuel) r.  Proof. intros H; exact H. Qed.
Lemma Rab_rec1 r e r1 x r2 : Rab r (Some e) r1 -> Rab r1 x r2 -> Rab r (Some e) r2.
Proof. unfold Rab. auto. Qed.
Lemma Rab_rec2 r e r1 e' r2 : Rab r (Some e) r1 -> Rab r1 (Some e') r2 -> Rab r (Some e') r2.
Proof. unfold Rab. auto. Qed.

Lemma skip_intr_bytes l : all_bytes l -> skip_intr l = l.
Proof. intros H. destruct l as [|[b| |e] l]; try reflexivity. inversion H as [|? ? Hx _]. contradiction. Qed.
Lemma all_bytes_tl e l : all_bytes (e :: l) -> all_bytes l.
Proof. intros H. inversion H; assumption. Qed.

Lemma consume_input r b l : rinput (consume r b l) = l.
Proof. unfold consume. destruct (advance _ _ _). reflexivity. Qed.
Lemma advance_over_input r bs rest : rinput (advance_over r bs rest) = rest.
Proof. unfold advance_over. destruct (fold_left _ _ _). reflexivity. Qed.

Lemma ab_peek : sat Rab peek.
Proof.
  intros r. unfold peek, r_peek, R, Rab. destruct (rpending r).
  - destruct (rinput r) as [|[b| |e] l] eqn:El; cbn [fst snd]; rewrite ?El; auto.
  - intros H. rewrite (skip_intr_bytes _ H). destruct (rinput r) as [|[b| |e] l] eqn:El; cbn [fst snd rinput]; rewrite ?El; auto.
    apply all_bytes_tl in H. exact H.
Qed.
Lemma ab_next : sat Rab next_char.
Proof.
  intros r. unfold next_char, r_next, R, Rab. intros H.
  assert (E : (if rpending r then rinput r else skip_intr (rinput r)) = rinput r) by (destruct (rpending r); [reflexivity|apply skip_intr_bytes; exact H]).
  rewrite E. destruct (rinput r) as [|[b| |e] l] eqn:El; cbn [fst snd rinput].
  - constructor.
  - rewrite consume_input. apply all_bytes_tl in H. exact H.
  - rewrite El. exact H.
  - apply all_bytes_tl in H. exact H.
Qed.
Lemma discard_ab r : all_bytes (rinput r) -> all_bytes (rinput (r_discard r)).
Proof.
  intros H. unfold r_discard. destruct (rk r); try destruct (rpending r); try exact H;
    destruct (rinput r) as [|[b| |e] l] eqn:El; rewrite ?El; try exact H; rewrite consume_input; apply all_bytes_tl in H; exact H.
Qed.
Lemma ab_eat : sat Rab eat_char.
Proof. intros r. unfold eat_char, R, Rab. cbn [fst snd]. apply discard_ab. Qed.
Lemma ab_error A c : sat Rab (@error A c).
Proof. intros r. unfold error, R, Rab. destruct (r_position r). auto. Qed.
Lemma ab_peek_error A c : sat Rab (@peek_error A c).
Proof. intros r. unfold peek_error, R, Rab. destruct (r_peek_position r). auto. Qed.
Lemma ab_error_consume A c : sat Rab (@error_consume A c).
Proof. intros r. unfold error_consume, peek_error, R, Rab. destruct (r_peek_position r). cbn [fst snd]. apply discard_ab. Qed.

Lemma span_plain_suffix l : forall acc, exists p, l = p ++ snd (span_plain l acc).
Proof.
  induction l as [|[b| |e] l IH]; intros acc; cbn [span_plain]; try (exists []; reflexivity).
  destruct ((b =? 92) || (b =? 34)); [exists []; reflexivity|]. destruct (IH (acc ++ [b])) as [p E]. exists (EByte b :: p). cbn [app]. congruence.
Qed.
Lemma span_symbol_suffix l : forall acc, exists p, l = p ++ snd (span_symbol l acc).
Proof.
  induction l as [|[b| |e] l IH]; intros acc; cbn [span_symbol]; try (exists []; reflexivity).
  destruct (is_symbol_terminator b); [exists []; reflexivity|]. destruct (IH (acc ++ [b])) as [p E]. exists (EByte b :: p). cbn [app]. congruence.
Qed.
Lemma all_bytes_suffix p l : all_bytes (p ++ l) -> all_bytes l.
Proof. intros H. apply Forall_app in H. apply H. Qed.

Lemma ab_take_run : sat Rab take_run.
Proof.
  intros r. unfold take_run, R, Rab. intros H. destruct (span_plain_suffix (rinput r) []) as [p E].
  destruct (span_plain (rinput r) []) as [run rest]. cbn [snd] in E. rewrite E in H. apply all_bytes_suffix in H.
  destruct rest as [|[b| |e] rest']; cbn [fst snd]; rewrite ?consume_input, ?advance_over_input; auto.
  apply all_bytes_tl in H. exact H.
Qed.
Lemma ab_take_symbol : sat Rab take_symbol_run.
Proof.
  intros r. unfold take_symbol_run, R, Rab. intros H. destruct (span_symbol_suffix (rinput r) []) as [p E].
  destruct (span_symbol (rinput r) []) as [run rest]. cbn [fst snd] in *. rewrite advance_over_input. rewrite E in H.
  apply all_bytes_suffix in H. exact H.
Qed.

Section StrInput.
  Variable W : bytes.
  Hypothesis HW : utf8_valid W = true.

  Definition rem (r : reader) : bytes := bytes_in (rinput r).
  (* a str reader somewhere inside W *)
  Definition okr (r : reader) : Prop := inv W r /\ rk r = SrcStr /\ all_bytes (rinput r).
  (* the next byte, if any, is not a continuation byte *)
  Definition bnd (r : reader) : Prop := boundary_head (rem r).

  Lemma rem_valid r : okr r -> bnd r -> utf8_valid (rem r) = true.
  Proof. intros ((c & E & _) & _) Hb. pose proof HW as H. rewrite E in H. apply (utf8_valid_split c _ H Hb). Qed.
  Lemma valid_bnd r : utf8_valid (rem r) = true -> bnd r.
  Proof. apply valid_boundary. Qed.
  (* whatever follows an ASCII byte of the input starts a character *)
  Lemma after_ascii r c t : okr r -> rem r = c :: t -> c < 128 -> utf8_valid t = true.
  Proof. intros ((p & E & _) & _) Er Hc. pose proof HW as H. rewrite E in H. unfold rem in Er. rewrite Er in H. apply (utf8_valid_after_ascii p c t H Hc). Qed.

  (* the three invariants travel through every computation the traversal covers *)
  Definition covered {A} (m : M A) : Prop := sat (Rpos W) m /\ sat Rrk m /\ sat Rab m.
  Lemma okr_step {A} (m : M A) r : covered m -> okr r -> okr (snd (m r)).
  Proof.
    intros (H1 & H2 & H3) (Hi & Hk & Ha). specialize (H1 r). specialize (H2 r). specialize (H3 r).
    unfold R, Rpos, Rrk, Rab in *. destruct (H1 Hi) as [Hi' _]. repeat split; auto. congruence.
  Qed.

  Definition hs {A} (pre : reader -> Prop) (m : M A) (post : A -> reader -> Prop) : Prop :=
    forall r, okr r -> pre r -> match m r with (Ok a, r') => okr r' /\ post a r' | (Err _, _) => True end.

  Lemma hs_bind {A B} pre (m : M A) (f : A -> M B) mid post :
    hs pre m mid -> (forall a, hs (mid a) (f a) post) -> hs pre (bind m f) post.
  Proof.
    intros Hm Hf r Ho Hp. unfold bind. specialize (Hm r Ho Hp). destruct (m r) as [[a|e] r1]; [|exact I].
    destruct Hm as [Ho1 Hmid]. apply (Hf a r1 Ho1 Hmid).
  Qed.
  Lemma hs_ret {A} (pre : reader -> Prop) (a : A) (post : A -> reader -> Prop) : (forall r, pre r -> post a r) -> hs pre (ret a) post.
  Proof. intros H r Ho Hp. cbn. auto. Qed.
  Lemma hs_err {A} pre c (post : A -> reader -> Prop) : hs pre (error c) post /\ hs pre (peek_error c) post.
  Proof. split; intros r _ _; [unfold error; destruct (r_position r)|unfold peek_error; destruct (r_peek_position r)]; exact I. Qed.
  Lemma hs_weaken {A} (pre pre' : reader -> Prop) (m : M A) (post post' : A -> reader -> Prop) :
    (forall r, pre' r -> pre r) -> (forall a r, post a r -> post' a r) -> hs pre m post -> hs pre' m post'.
  Proof. intros H1 H2 H r Ho Hp. specialize (H r Ho (H1 r Hp)). destruct (m r) as [[a|e] r1]; [|exact I]. destruct H. auto. Qed.
  Lemma hs_any {A} pre (m : M A) : covered m -> hs pre m (fun _ _ => True).
  Proof. intros Hc r Ho _. pose proof (okr_step m r Hc Ho) as H. destruct (m r) as [[a|e] r1]; [|exact I]. auto. Qed.
  (* a fact that does not mention the reader is carried across a step *)
  Lemma hs_frame {A} (P : Prop) pre (m : M A) post : hs pre m post -> hs (fun r => P /\ pre r) m (fun a r => P /\ post a r).
  Proof. intros H r Ho [HP Hp]. specialize (H r Ho Hp). destruct (m r) as [[a|e] r1]; [|exact I]. tauto. Qed.
  Lemma hs_pure_pre {A} (P : Prop) pre (m : M A) post : (P -> hs pre m post) -> hs (fun r => P /\ pre r) m post.
  Proof. intros H r Ho [HP Hp]. exact (H HP r Ho Hp). Qed.
  Lemma hs_and {A} pre (m : M A) p q : hs pre m p -> hs pre m q -> hs pre m (fun a r => p a r /\ q a r).
  Proof. intros H1 H2 r Ho Hp. specialize (H1 r Ho Hp). specialize (H2 r Ho Hp). destruct (m r) as [[a|e] r1]; [|exact I]. tauto. Qed.

  Ltac pos_prims := first [exact (Rpos_ret W) | exact (Rpos_seq W) | exact (Rpos_fuel W) | exact (Rpos_rec1 W) | exact (Rpos_rec2 W)
    | exact (sat_peek_pos W) | exact (sat_next_pos W) | exact (sat_eat_pos W) | exact (sat_error_pos W) | exact (sat_peek_error_pos W)
    | exact (sat_error_consume_pos W) | exact (sat_take_run_pos W) | exact (sat_take_symbol_pos W)].
  Ltac ab_prims := first [exact Rab_ret | exact Rab_seq | exact Rab_fuel | exact Rab_rec1 | exact Rab_rec2 | exact ab_peek | exact ab_next
    | exact ab_eat | exact ab_error | exact ab_peek_error | exact ab_error_consume | exact ab_take_run | exact ab_take_symbol].
  (* covered m, for a model function whose generic lemma is [lem] *)
  Ltac cov lem := split; [|split]; [apply (lem (Rpos W)); pos_prims | apply (lem Rrk); rk_prim | apply (lem Rab); ab_prims].

  Lemma cov_next : covered next_char.
  Proof. split; [exact (sat_next_pos W)|split; [exact rk_next|exact ab_next]]. Qed.
  Lemma cov_peek : covered peek.
  Proof. split; [exact (sat_peek_pos W)|split; [exact rk_peek|exact ab_peek]]. Qed.
  Lemma cov_eat : covered eat_char.
  Proof. split; [exact (sat_eat_pos W)|split; [exact rk_eat|exact ab_eat]]. Qed.
  Lemma cov_take_run : covered take_run.
  Proof. split; [exact (sat_take_run_pos W)|split; [exact rk_take_run|exact ab_take_run]]. Qed.
  Lemma cov_take_symbol : covered take_symbol_run.
  Proof. split; [exact (sat_take_symbol_pos W)|split; [exact rk_take_symbol|exact ab_take_symbol]]. Qed.

  (* ---- what the primitives do to the remaining input ---- *)
  Lemma next_rem r c r' : okr r -> next_char r = (Ok (Some c), r') -> rem r = c :: rem r'.
  Proof.
    intros (_ & _ & Ha) E. unfold next_char, r_next in E.
    assert (Es : (if rpending r then rinput r else skip_intr (rinput r)) = rinput r) by (destruct (rpending r); [reflexivity|apply skip_intr_bytes; exact Ha]).
    rewrite Es in E. unfold rem. destruct (rinput r) as [|[b| |e] l]; inversion E; subst. rewrite consume_input. reflexivity.
  Qed.
  Lemma eat_rem r b : at_byte b r -> rem r = b :: rem (r_discard r).
  Proof.
    intros [Hp [l Hl]]. unfold rem, r_discard. rewrite Hp, Hl. destruct (rk r); rewrite consume_input; reflexivity.
  Qed.
  Lemma at_byte_rem r b : at_byte b r -> exists t, rem r = b :: t.
  Proof. intros [_ [l Hl]]. unfold rem. rewrite Hl. eexists; reflexivity. Qed.
  Lemma at_ascii_bnd r b : at_byte b r -> b < 128 -> bnd r.
  Proof. intros H Hb. destruct (at_byte_rem r b H) as [t E]. unfold bnd. rewrite E. apply ascii_boundary. exact Hb. Qed.

  (* reading or discarding an ASCII byte leaves the reader at a character boundary *)
  Lemma hs_next_ascii pre : hs pre next_char (fun o r' => match o with Some c => c < 128 -> bnd r' | None => True end).
  Proof.
    intros r Ho _. pose proof (okr_step next_char r cov_next Ho) as Ho'. destruct (next_char r) as [[[c|]|e] r'] eqn:E; try exact I; cbn [snd] in Ho'; split; auto.
    intros Hc. apply valid_bnd. apply (after_ascii r c (rem r') Ho (next_rem r c r' Ho E) Hc).
  Qed.
  Lemma hs_eat_ascii b : b < 128 -> hs (at_byte b) eat_char (fun _ r' => bnd r').
  Proof.
    intros Hb r Ho Hat. pose proof (okr_step eat_char r cov_eat Ho) as Ho'. unfold eat_char in *. cbn [snd] in *. split; [exact Ho'|].
    apply valid_bnd. apply (after_ascii r b _ Ho (eat_rem r b Hat) Hb).
  Qed.

  (* ---- the symbol scanner of SliceRead / StrRead ---- *)
  Lemma span_symbol_bytes l : all_bytes l -> forall acc, exists s rest,
    span_symbol l acc = (acc ++ s, rest) /\ bytes_in l = s ++ bytes_in rest /\ boundary_head (bytes_in rest).
  Proof.
    induction l as [|[b| |e] l IH]; intros Ha acc; cbn [span_symbol].
    - exists [], []. rewrite app_nil_r. repeat split; exact I.
    - destruct (is_symbol_terminator b) eqn:Et.
      + exists [], (EByte b :: l). rewrite app_nil_r. repeat split. cbn [bytes_in flat_map app].
        apply ascii_boundary. unfold is_symbol_terminator, memb in Et. cbn [existsb] in Et.
        repeat (apply orb_true_iff in Et; destruct Et as [Et|Et]; [apply N.eqb_eq in Et; subst b; reflexivity|]). discriminate.
      + destruct (IH (all_bytes_tl _ _ Ha) (acc ++ [b])) as (s & rest & E & Eb & Hb). exists (b :: s), rest.
        rewrite E, <- app_assoc. cbn [app bytes_in flat_map]. repeat split; auto. cbn [bytes_in] in Eb. unfold bytes_in in *. rewrite Eb. reflexivity.
    - inversion Ha as [|? ? Hx _]. contradiction.
    - inversion Ha as [|? ? Hx _]. contradiction.
  Qed.

  Lemma hs_take_symbol : hs bnd take_symbol_run (fun p r' => utf8_valid (fst p) = true /\ bnd r').
  Proof.
    intros r Ho Hb. pose proof (okr_step take_symbol_run r cov_take_symbol Ho) as Ho'.
    unfold take_symbol_run in *. destruct Ho as ((c & EW & Hp) & Hk & Ha).
    destruct (span_symbol_bytes (rinput r) Ha []) as (s & rest & E & Eb & Hrest). rewrite E in *. cbn [fst snd app] in *.
    split; [exact Ho'|]. split.
    - pose proof HW as H. rewrite EW, Eb in H. apply (utf8_valid_slice c s (bytes_in rest) H); [|exact Hrest].
      unfold bnd, rem in Hb. rewrite Eb in Hb. exact Hb.
    - unfold bnd, rem. rewrite advance_over_input. exact Hrest.
  Qed.

  Lemma hs_scan_symbol_slice scratch : hs bnd (scan_symbol_slice scratch)
    (fun name r' => (utf8_valid scratch = true -> utf8_valid name = true) /\ bnd r').
  Proof.
    intros r Ho Hb. rewrite scan_symbol_slice_eq. revert r Ho Hb.
    change (hs bnd (p <- take_symbol_run ;;
                    let whole := scratch ++ fst p in
                    if snd p && is_truncated_symbol whole then error EofWhileParsingValue
                    else if beq_bytes whole [46] then error InvalidSymbol else ret whole)
               (fun name r' => (utf8_valid scratch = true -> utf8_valid name = true) /\ bnd r')).
    eapply hs_bind; [apply hs_take_symbol|]. intros p. cbv zeta.
    destruct (snd p && is_truncated_symbol (scratch ++ fst p)); [apply hs_err|].
    destruct (beq_bytes (scratch ++ fst p) [46]); [apply hs_err|].
    apply hs_ret. intros r [Hv Hb]. split; [|exact Hb]. intros Hs. apply utf8_valid_app; assumption.
  Qed.

  Lemma finish_str_str b r : rk r = SrcStr -> finish_str b r = (Ok b, r).
  Proof. intros H. unfold finish_str. rewrite H. reflexivity. Qed.

  Lemma hs_parse_symbol_rd fuel scratch : hs bnd (parse_symbol_rd fuel scratch)
    (fun name r' => (utf8_valid scratch = true -> utf8_valid name = true) /\ bnd r').
  Proof.
    intros r Ho Hb. unfold parse_symbol_rd. destruct Ho as (Hi & Hk & Ha). rewrite Hk.
    pose proof (hs_scan_symbol_slice scratch r (conj Hi (conj Hk Ha)) Hb) as H. unfold bind.
    destruct (scan_symbol_slice scratch r) as [[name|e] r1]; [|exact I]. destruct H as [Ho1 Hq].
    rewrite (finish_str_str name r1 (proj1 (proj2 Ho1))). auto.
  Qed.

  (* ---- R6RS strings, the slice scanner ---- *)
  Lemma span_plain_bytes l : all_bytes l -> forall acc, exists s rest,
    span_plain l acc = (acc ++ s, rest) /\ bytes_in l = s ++ bytes_in rest /\
    match rest with [] => True | EByte b :: _ => b = 92 \/ b = 34 | _ => False end.
  Proof.
    induction l as [|[b| |e] l IH]; intros Ha acc; cbn [span_plain].
    - exists [], []. rewrite app_nil_r. repeat split; exact I.
    - destruct ((b =? 92) || (b =? 34)) eqn:Et.
      + exists [], (EByte b :: l). rewrite app_nil_r. repeat split. lia.
      + destruct (IH (all_bytes_tl _ _ Ha) (acc ++ [b])) as (s & rest & E & Eb & Hb). exists (b :: s), rest.
        rewrite E, <- app_assoc. cbn [app]. repeat split; auto. unfold bytes_in in *. cbn [flat_map app]. rewrite Eb. reflexivity.
    - inversion Ha as [|? ? Hx _]. contradiction.
    - inversion Ha as [|? ? Hx _]. contradiction.
  Qed.

  Lemma hs_take_run : hs bnd take_run
    (fun p r' => utf8_valid (fst p) = true /\ match snd p with Some b => bnd r' | None => True end).
  Proof.
    intros r Ho Hb. pose proof (okr_step take_run r cov_take_run Ho) as Ho'.
    unfold take_run in *. destruct Ho as ((c & EW & Hp) & Hk & Ha).
    destruct (span_plain_bytes (rinput r) Ha []) as (s & rest & E & Eb & Hrest). rewrite E in *. cbn [app] in *.
    assert (Hbr : boundary_head (bytes_in rest)).
    { destruct rest as [|[b| |e] rest']; try contradiction; [exact I|]. cbn [bytes_in flat_map app]. apply ascii_boundary. lia. }
    assert (Hs : utf8_valid s = true).
    { pose proof HW as H. rewrite EW, Eb in H. apply (utf8_valid_slice c s (bytes_in rest) H); [|exact Hbr].
      unfold bnd, rem in Hb. rewrite Eb in Hb. exact Hb. }
    destruct rest as [|[b| |e] rest']; try contradiction; cbn [fst snd] in *.
    - auto.
    - split; [exact Ho'|]. split; [exact Hs|].
      (* the stop byte is ASCII: what follows it starts a character *)
      unfold bnd, rem. rewrite consume_input. apply valid_boundary.
      pose proof HW as H. rewrite EW, Eb in H. cbn [bytes_in flat_map app] in H.
      rewrite app_assoc in H. apply (utf8_valid_after_ascii (c ++ s) b _ H). lia.
  Qed.

  Lemma cov_next_or_eof : covered next_or_eof.
  Proof. cov sat_next_or_eof. Qed.
  Lemma hs_next_or_eof_ascii pre : hs pre next_or_eof (fun c r' => c < 128 -> bnd r').
  Proof.
    unfold next_or_eof. eapply hs_bind; [apply hs_next_ascii|]. intros o. destruct o as [b|]; [|apply hs_err].
    apply hs_ret. auto.
  Qed.

  Lemma hs_hex_escape_loop fuel : forall n, hs (fun _ => True) (hex_escape_loop fuel n) (fun _ r' => bnd r').
  Proof.
    induction fuel as [|f IH]; intros n; cbn [hex_escape_loop]; [intros r _ _; exact I|].
    eapply hs_bind; [apply hs_next_or_eof_ascii|]. intros c. cbv beta.
    destruct (c =? 59) eqn:E; [apply hs_ret; intros r H; apply H; lia|].
    destruct (decode_hex_val c); [|apply hs_err]. destruct (cp_limit <=? n); [apply hs_err|].
    eapply hs_weaken; [| |apply IH]; cbv beta; auto.
  Qed.

  Lemma hs_parse_r6rs_escape fuel : hs (fun _ => True) (parse_r6rs_escape fuel)
    (fun e r' => utf8_valid e = true /\ bnd r').
  Proof.
    unfold parse_r6rs_escape. eapply hs_bind; [apply hs_next_or_eof_ascii|]. intros ch. cbv beta.
    repeat match goal with
           | |- hs _ (if ch =? ?k then _ else _) _ =>
               let E := fresh "E" in destruct (ch =? k) eqn:E;
               [first [apply hs_ret; intros r H; split; [reflexivity|apply H; lia] | idtac]|]
           end; try apply hs_err.
    apply (hs_bind _ _ _ (fun _ r' => bnd r')); [unfold decode_r6rs_hex_escape; eapply hs_weaken; [| |apply (hs_hex_escape_loop fuel 0)]; cbv beta; auto|].
    intros n. cbv beta. destruct (is_scalar n) eqn:Es; [|apply hs_err].
    apply hs_ret. intros r Hb. split; [apply utf8_encode_valid; exact Es|exact Hb].
  Qed.

  Lemma hs_r6rs_str_slice fuel : forall scratch, hs bnd (r6rs_str_slice fuel scratch)
    (fun s _ => utf8_valid scratch = true -> utf8_valid s = true).
  Proof.
    induction fuel as [|f IH]; intros scratch; [intros r _ _; exact I|].
    intros r Ho Hb. rewrite r6rs_str_slice_eq. revert r Ho Hb.
    change (hs bnd (p <- take_run ;;
                    match snd p with
                    | Some b => if b =? 34 then ret (scratch ++ fst p)
                                else e <- parse_r6rs_escape f ;; r6rs_str_slice f (scratch ++ fst p ++ e)
                    | None => error EofWhileParsingString
                    end) (fun s _ => utf8_valid scratch = true -> utf8_valid s = true)).
    eapply hs_bind; [apply hs_take_run|]. intros p. cbv beta. destruct (snd p) as [b|]; [|apply hs_err].
    destruct (b =? 34).
    - apply hs_ret. intros r [Hv _] Hs. apply utf8_valid_app; assumption.
    - eapply hs_bind.
      + eapply hs_weaken; [| |apply (hs_frame (utf8_valid (fst p) = true) _ _ _ (hs_parse_r6rs_escape f))].
        * intros r [Hv _]. split; [exact Hv|exact I].
        * intros e r H. exact H.
      + intros e. cbv beta. apply hs_pure_pre. intros Hvp. apply hs_pure_pre. intros Hve.
        eapply hs_weaken; [| |apply (IH (scratch ++ fst p ++ e))].
        * intros r Hb. exact Hb.
        * intros s0 r H Hs. apply H. apply utf8_valid_app; [exact Hs|]. apply utf8_valid_app; assumption.
  Qed.

  Lemma hs_parse_r6rs_str_rd fuel : hs bnd (parse_r6rs_str_rd fuel) (fun s _ => utf8_valid s = true).
  Proof.
    intros r Ho Hb. unfold parse_r6rs_str_rd. pose proof Ho as (Hi & Hk & Ha). rewrite Hk.
    pose proof (hs_r6rs_str_slice fuel [] r Ho Hb) as H. unfold bind.
    destruct (r6rs_str_slice fuel [] r) as [[s|e] r1]; [|exact I]. destruct H as [Ho1 Hq].
    rewrite (finish_str_str s r1 (proj1 (proj2 Ho1))). split; [exact Ho1|]. apply Hq. reflexivity.
  Qed.

  (* ---- the first character of a symbol that starts with a non-ASCII letter ---- *)
  Lemma take_bytes_rem k : forall acc r bs r', okr r -> take_bytes k acc r = (Ok bs, r') ->
    exists cs, bs = acc ++ cs /\ rem r = cs ++ rem r'.
  Proof.
    induction k as [|k IH]; intros acc r bs r' Ho E; cbn [take_bytes] in E.
    - inversion E; subst. exists []. rewrite app_nil_r. auto.
    - unfold bind in E. pose proof (okr_step next_char r cov_next Ho) as Ho1.
      destruct (next_char r) as [[[c|]|e] r1] eqn:En; try discriminate; cbn [snd] in Ho1.
      destruct (IH (acc ++ [c]) r1 bs r' Ho1 E) as (cs & Eb & Er). exists (c :: cs).
        rewrite Eb, <- app_assoc. split; [reflexivity|]. rewrite (next_rem r c r1 Ho En), Er. reflexivity.
  Qed.

  (* the byte just consumed *)
  Definition prev (b : N) (r : reader) : Prop := exists c0, W = c0 ++ b :: rem r.
  Lemma hs_eat_prev b : hs (at_byte b) eat_char (fun _ r' => prev b r').
  Proof.
    intros r Ho Hat. pose proof (okr_step eat_char r cov_eat Ho) as Ho'. unfold eat_char in *. cbn [snd] in *. split; [exact Ho'|].
    destruct Ho as ((c & E & _) & _). exists c. rewrite E. fold (rem r). rewrite (eat_rem r b Hat). reflexivity.
  Qed.

  Lemma cov_decode_b b : covered (decode_utf8_sequence_b b).
  Proof. cov sat_decode_utf8_sequence_b. Qed.

  Lemma hs_decode_utf8_sequence_b b : hs (prev b) (decode_utf8_sequence_b b)
    (fun res r' => utf8_valid (fst res) = true /\ bnd r').
  Proof.
    intros r Ho (c0 & EW). pose proof (okr_step _ r (cov_decode_b b) Ho) as Ho'.
    unfold decode_utf8_sequence_b in *. destruct (in_range 192 223 b || in_range 224 247 b) eqn:Eb.
    2:{ unfold error. destruct (r_position r). exact I. }
    set (len := if in_range 192 223 b then 1%nat else N.to_nat ((b - 192) / 16)) in *.
    unfold bind in *. destruct (take_bytes len [b] r) as [[bs|e] r1] eqn:Et; [|exact I].
    destruct (take_bytes_rem len [b] r bs r1 Ho Et) as (cs & Ebs & Er). cbn [app] in Ebs.
    destruct (utf8_valid bs) eqn:Ev; [|unfold error; destruct (r_position r1); exact I].
    cbn [fst snd] in *. split; [exact Ho'|]. split; [exact Ev|].
    apply valid_bnd. pose proof HW as H. rewrite EW, Er in H.
    change (c0 ++ b :: cs ++ rem r1) with (c0 ++ (b :: cs) ++ rem r1) in H.
    assert (Hb : boundary_head ((b :: cs) ++ rem r1)) by (cbn; unfold is_cont, in_range in *; lia).
    destruct (utf8_valid_split c0 _ H Hb) as [_ H1]. subst bs. apply (utf8_valid_after (b :: cs) (rem r1) H1 Ev).
  Qed.

  (* peeking does not move *)
  Lemma peek_rem r : okr r -> rem (snd (peek r)) = rem r.
  Proof.
    intros (_ & _ & Ha). unfold peek, r_peek, rem. destruct (rpending r).
    - destruct (rinput r) as [|[b| |e] l] eqn:El; cbn [snd]; rewrite ?El; reflexivity.
    - rewrite (skip_intr_bytes _ Ha). destruct (rinput r) as [|[b| |e] l] eqn:El; cbn [snd rinput]; rewrite ?El; reflexivity.
  Qed.
  Lemma hs_peek_or_null_keep (P : bytes -> Prop) : hs (fun r => P (rem r)) peek_or_null (fun _ r' => P (rem r')).
  Proof.
    intros r Ho Hp. pose proof (okr_step peek r cov_peek Ho) as Ho'. pose proof (peek_rem r Ho) as Er.
    unfold peek_or_null, bind. destruct (peek r) as [[o|e] r1]; [|exact I]. cbn [snd] in *. rewrite <- Er in Hp.
    destruct o; unfold ret; auto.
  Qed.

  (* results only *)
  Definition hsv {A} (pre : reader -> Prop) (m : M A) (q : A -> Prop) : Prop :=
    forall r, okr r -> pre r -> match m r with (Ok a, _) => q a | (Err _, _) => True end.
  Lemma hsv_bind {A B} pre (m : M A) (f : A -> M B) mid q : hs pre m mid -> (forall a, hsv (mid a) (f a) q) -> hsv pre (bind m f) q.
  Proof.
    intros Hm Hf r Ho Hp. unfold bind. specialize (Hm r Ho Hp). destruct (m r) as [[a|e] r1]; [|exact I].
    destruct Hm as [Ho1 Hmid]. apply (Hf a r1 Ho1 Hmid).
  Qed.
  Lemma hsv_triv {A} pre (m : M A) (q : A -> Prop) : (forall a, q a) -> hsv pre m q.
  Proof. intros H r _ _. destruct (m r) as [[a|e] r1]; auto. Qed.
  Lemma hsv_of_hs {A} pre (m : M A) post (q : A -> Prop) : hs pre m post -> (forall a r, post a r -> q a) -> hsv pre m q.
  Proof. intros H Hq r Ho Hp. specialize (H r Ho Hp). destruct (m r) as [[a|e] r1]; [|exact I]. destruct H. eauto. Qed.
  Lemma hsv_ret {A} (pre : reader -> Prop) (a : A) (q : A -> Prop) : q a -> hsv pre (ret a) q.
  Proof. intros H r _ _. exact H. Qed.
  Lemma hsv_err {A} pre c (q : A -> Prop) : hsv pre (error c) q /\ hsv pre (peek_error c) q.
  Proof. split; intros r _ _; [unfold error; destruct (r_position r)|unfold peek_error; destruct (r_peek_position r)]; exact I. Qed.
  Lemma hsv_weaken {A} (pre pre' : reader -> Prop) (m : M A) (q : A -> Prop) : (forall r, pre' r -> pre r) -> hsv pre m q -> hsv pre' m q.
  Proof. intros H1 H r Ho Hp. exact (H r Ho (H1 r Hp)). Qed.

  (* a symbol read from a boundary and made into a token *)
  Lemma hsv_symbol_arm ro fuel scratch : utf8_valid scratch = true ->
    hsv bnd (name <- parse_symbol_rd fuel scratch ;; ret (symbol_token ro name)) tok_valid.
  Proof.
    intros Hs. eapply hsv_bind; [apply hs_parse_symbol_rd|]. intros name. cbv beta.
    intros r _ [Hv _]. cbn. apply symbol_token_valid. apply Hv. exact Hs.
  Qed.
  Lemma hsv_symbol_plain fuel scratch (mk : bytes -> token) : utf8_valid scratch = true ->
    (forall s, utf8_valid s = true -> tok_valid (mk s)) ->
    hsv bnd (s <- parse_symbol_rd fuel scratch ;; ret (mk s)) tok_valid.
  Proof.
    intros Hs Hmk. eapply hsv_bind; [apply hs_parse_symbol_rd|]. intros name. cbv beta.
    intros r _ [Hv _]. cbn. apply Hmk. apply Hv. exact Hs.
  Qed.

  (* whatever the input: every successful result satisfies q *)
  Definition always {A} (q : A -> Prop) (m : M A) : Prop := forall r, match m r with (Ok a, _) => q a | (Err _, _) => True end.
  Lemma always_ret {A} (q : A -> Prop) a : q a -> always q (ret a).
  Proof. intros H r. exact H. Qed.
  Lemma always_bind {A B} (q : B -> Prop) (m : M A) (f : A -> M B) : (forall a, always q (f a)) -> always q (bind m f).
  Proof. intros H r. unfold bind. destruct (m r) as [[a|e] r1]; [apply H|exact I]. Qed.
  Lemma always_err {A} (q : A -> Prop) c : always q (error c) /\ always q (peek_error c).
  Proof. split; intros r; [unfold error; destruct (r_position r)|unfold peek_error; destruct (r_peek_position r)]; exact I. Qed.
  Lemma hsv_always {A} pre (m : M A) (q : A -> Prop) : always q m -> hsv pre m q.
  Proof. intros H r _ _. apply H. Qed.
  Ltac alw :=
    repeat first
      [ apply always_ret; first [exact I | reflexivity]
      | apply always_err
      | apply always_bind; intros ?
      | match goal with
        | |- always _ (match ?x with _ => _ end) => destruct x
        | |- always _ (if ?x then _ else _) => destruct x
        end ].

  Lemma hsv_pure_pre {A} (P : Prop) pre (m : M A) q : (P -> hsv pre m q) -> hsv (fun r => P /\ pre r) m q.
  Proof. intros H r Ho [HP Hp]. exact (H HP r Ho Hp). Qed.

  Section Token.
    Variable ro : parse_options.
    Variable alpha : N -> bool.
    Variable fast : bool.
    Variable std_parse : N -> Z -> f64.

    Lemma ascii_valid1 c : c < 128 -> utf8_valid [c] = true.
    Proof. intros H. apply ascii_valid. repeat constructor. exact H. Qed.

    Theorem hsv_parse_token fuel b : hsv (at_byte b) (parse_token ro alpha fast std_parse fuel b) tok_valid.
    Proof.
      unfold parse_token.
      destruct (b =? 35) eqn:E35.
      { eapply hsv_bind; [apply (hs_eat_ascii b); lia|]. intros ?u.
        eapply hsv_bind; [apply hs_next_ascii|]. intros o. destruct o as [c|]; [|apply hsv_err]. cbv beta.
        destruct (c =? 116); [apply hsv_ret; exact I|]. destruct (c =? 102); [apply hsv_ret; exact I|].
        destruct (c =? 110); [apply hsv_always; alw|]. destruct (c =? 40); [apply hsv_ret; exact I|].
        destruct ((c =? 58) && ro_kw_octo ro) eqn:Ek.
        { eapply hsv_weaken; [|apply (hsv_symbol_plain fuel [] TKeyword eq_refl)]; [|intros s Hs; exact Hs].
          intros r H. apply H. apply andb_prop in Ek. destruct Ek as [Ek _]. lia. }
        destruct (c =? 118); [apply hsv_always; alw|]. destruct (c =? 117); [apply hsv_always; alw|].
        destruct (c =? 98); [apply hsv_always; alw|]. destruct (c =? 111); [apply hsv_always; alw|].
        destruct (c =? 100); [apply hsv_always; alw|]. destruct (c =? 120); [apply hsv_always; alw|].
        destruct (c =? 92); [apply hsv_always; alw|].
        destruct ((c =? 37) && ro_racket ro) eqn:Er; [|apply hsv_err].
        eapply hsv_weaken; [|apply (hsv_symbol_plain fuel (s2b "#%") TSymbol eq_refl)]; [|intros s Hs; exact Hs].
        intros r H. apply H. apply andb_prop in Er. destruct Er as [Er _]. lia. }
      destruct ((b =? 45) || (b =? 43)) eqn:Esg.
      { assert (Hb : b < 128) by lia.
        eapply hsv_bind; [apply (hs_eat_ascii b Hb)|]. intros ?u.
        eapply hsv_bind; [apply (hs_peek_or_null_keep boundary_head)|]. intros nx. cbv beta.
        match goal with |- hsv _ (if ?c then _ else _) _ => destruct c end; [|apply hsv_always; alw].
        apply (hsv_symbol_arm ro fuel [b]). apply ascii_valid1. exact Hb. }
      destruct (is_digit b) eqn:Ed.
      { assert (Hb : b < 128) by (unfold is_digit, in_range in Ed; lia).
        destruct (ro_digit ro); [|apply hsv_always; alw].
        eapply hsv_bind; [eapply hs_weaken; [| |apply (hs_parse_symbol_rd fuel [])]; [intros r H; exact (at_ascii_bnd r b H Hb)|intros a r H; exact H]|].
        intros name. cbv beta. intros r _ [Hv _].
        destruct (number_of_symbol fast std_parse fuel name); cbn; [exact I|apply symbol_token_valid; apply Hv; reflexivity]. }
      destruct (b =? 34) eqn:E34.
      { eapply hsv_bind; [apply (hs_eat_ascii b); lia|]. intros ?u. destruct (ro_string ro).
        - eapply hsv_bind; [apply hs_parse_r6rs_str_rd|]. intros s0. cbv beta. intros r _ Hv. exact Hv.
        - intros r (_ & Hk & _) _. pose proof (ens_parse_elisp_str_rd SrcStr fuel r Hk) as H. unfold bind.
          destruct (parse_elisp_str_rd fuel r) as [[e|er] r1]; cbn [fst] in H; [|exact I]. destruct e; cbn; [exact I|exact H]. }
      destruct (b =? 40); [apply hsv_always; alw|].
      destruct (b =? 91); [apply hsv_always; alw|].
      destruct (b =? 58) eqn:E58.
      { destruct (ro_kw_prefix ro).
        - eapply hsv_bind; [apply (hs_eat_ascii b); lia|]. intros ?u.
          apply (hsv_symbol_plain fuel [] TKeyword eq_refl). intros s Hs; exact Hs.
        - eapply hsv_weaken; [|apply (hsv_symbol_plain fuel [] TSymbol eq_refl)]; [|intros s Hs; exact Hs].
          intros r H. apply (at_ascii_bnd r b H). lia. }
      destruct (is_ascii_alpha b) eqn:Ea.
      { eapply hsv_weaken; [|apply (hsv_symbol_arm ro fuel [] eq_refl)].
        intros r H. apply (at_ascii_bnd r b H). unfold is_ascii_alpha, is_ascii_lower, is_ascii_upper, in_range in Ea. lia. }
      destruct ((b =? 63) && _); [apply hsv_always; alw|].
      destruct (b =? 39); [apply hsv_always; alw|].
      destruct (b =? 96); [apply hsv_always; alw|].
      destruct (b =? 44); [apply hsv_always; alw|].
      destruct (127 <? b) eqn:Ehi.
      { eapply hsv_bind; [apply hs_eat_prev|]. intros ?u.
        eapply hsv_bind; [apply hs_decode_utf8_sequence_b|]. intros res. cbv beta.
        destruct (negb (alpha (snd res))); [apply hsv_err|].
        apply hsv_pure_pre. intros Hv. apply (hsv_symbol_arm ro fuel (fst res) Hv). }
      destruct (memb b SYMBOL_EXTENDED) eqn:Ex.
      { eapply hsv_weaken; [|apply (hsv_symbol_arm ro fuel [] eq_refl)].
        intros r H. apply (at_ascii_bnd r b H). lia. }
      intros r _ _. unfold peek_error. destruct (r_peek_position r). exact I.
    Qed.
  End Token.

  (* ---- values ---- *)
  Definition psp {A} (pre : reader -> Prop) (m : PM A) (q : A -> Prop) : Prop :=
    forall s, okr (rd s) -> pre (rd s) -> match m s with (POk a, s') => okr (rd s') /\ q a | (PErr _, _) => True end.
  Definition anyr (_ : reader) : Prop := True.

  Lemma psp_bind {A B} pre (m : PM A) (f : A -> PM B) (p : A -> Prop) (q : B -> Prop) :
    psp pre m p -> (forall a, p a -> psp anyr (f a) q) -> psp pre (pbind m f) q.
  Proof.
    intros Hm Hf s Ho Hp. rewrite pbind_unfold. specialize (Hm s Ho Hp). destruct (m s) as [[a|e] s1]; [|exact I].
    destruct Hm as [Ho1 Hpa]. apply (Hf a Hpa s1 Ho1 I).
  Qed.
  Lemma psp_ret {A} pre (a : A) (q : A -> Prop) : q a -> psp pre (pret a) q.
  Proof. intros H s Ho _. cbn. auto. Qed.
  Lemma psp_fail {A} pre e (q : A -> Prop) : psp pre (pfail e) q.
  Proof. intros s _ _. exact I. Qed.
  Lemma psp_err {A} pre c (q : A -> Prop) : psp pre (liftR (peek_error (A := A) c)) q.
  Proof. intros s _ _. unfold liftR, peek_error. destruct (r_peek_position (rd s)). exact I. Qed.
  Lemma psp_weaken {A} (pre pre' : reader -> Prop) (m : PM A) (q : A -> Prop) : (forall r, pre' r -> pre r) -> psp pre m q -> psp pre' m q.
  Proof. intros H1 H s Ho Hp. exact (H s Ho (H1 _ Hp)). Qed.
  (* a reader-level step, keeping what it establishes about the reader for the continuation *)
  Lemma psp_bindR {A B} pre (m : M A) (K : A -> PM B) mid q :
    hs pre m mid -> (forall a, psp (mid a) (K a) q) -> psp pre (pbind (liftR m) K) q.
  Proof.
    intros Hm HK s Ho Hp. rewrite pbind_unfold. unfold liftR. specialize (Hm (rd s) Ho Hp).
    destruct (m (rd s)) as [[a|e] r1]; [|exact I]. destruct Hm as [Ho1 Hmid]. apply (HK a {| rd := r1; depth := depth s |} Ho1 Hmid).
  Qed.
  Lemma psp_liftR {A} pre (m : M A) post (p : A -> Prop) : hs pre m post -> (forall a r, post a r -> p a) -> psp pre (liftR m) p.
  Proof.
    intros Hm Hp s Ho Hpre. unfold liftR. specialize (Hm (rd s) Ho Hpre). destruct (m (rd s)) as [[a|e] r1]; [|exact I].
    destruct Hm as [Ho1 Hq]. cbn [rd]. split; [exact Ho1|eauto].
  Qed.

  (* parser-level steps the traversal covers keep the three invariants *)
  Definition pcovered {A} (m : PM A) : Prop := psat (Rpos W) m /\ psat Rrk m /\ psat Rab m.
  Lemma psp_any {A} pre (m : PM A) : pcovered m -> psp pre m (fun _ => True).
  Proof.
    intros (H1 & H2 & H3) s (Hi & Hk & Ha) _. specialize (H1 s). specialize (H2 s). specialize (H3 s).
    unfold Rpos, Rrk, Rab in *. destruct (m s) as [[a|e] s1]; cbn [fst snd perase] in *; [|exact I].
    destruct (H1 Hi) as [Hi' _]. split; [|exact I]. repeat split; auto. congruence.
  Qed.
  Lemma pcov_liftR {A} (m : M A) : covered m -> pcovered (liftR m).
  Proof. intros (H1 & H2 & H3). split; [|split]; apply psat_liftR; assumption. Qed.
  Lemma pcov_enter : pcovered enter_nesting.
  Proof.
    split; [|split];
      [apply (psat_enter_nesting (Rpos W) (Rpos_ret W) (Rpos_seq W) (Rpos_fuel W) (sat_peek_error_pos W))
      |apply (psat_enter_nesting Rrk Rrk_ret Rrk_seq Rrk_fuel rk_peek_error)
      |apply (psat_enter_nesting Rab Rab_ret Rab_seq Rab_fuel ab_peek_error)].
  Qed.
  Lemma pcov_inc : pcovered inc_depth.
  Proof.
    split; [|split];
      [apply (psat_inc_depth (Rpos W) (Rpos_ret W) (Rpos_seq W) (Rpos_fuel W))
      |apply (psat_inc_depth Rrk Rrk_ret Rrk_seq Rrk_fuel)
      |apply (psat_inc_depth Rab Rab_ret Rab_seq Rab_fuel)].
  Qed.

  (* after parse_whitespace the continuation starts on a pending byte *)
  Lemma cov_ws f : covered (parse_whitespace f).
  Proof. cov sat_parse_whitespace. Qed.
  Lemma psp_ws {B} f (kn : PM B) (ks : N -> PM B) q :
    psp anyr kn q -> (forall c, psp (at_byte c) (ks c) q) ->
    psp anyr (pbind (liftR (parse_whitespace f)) (fun o => match o with None => kn | Some c => ks c end)) q.
  Proof.
    intros Hn Hs s Ho _. rewrite pbind_unfold. unfold liftR.
    pose proof (okr_step _ (rd s) (cov_ws f) Ho) as Ho1. pose proof (ws_at_byte f (rd s)) as Hat.
    destruct (parse_whitespace f (rd s)) as [[o|e] r1]; [|exact I]. cbn [snd] in Ho1.
    destruct o as [c|]; [apply (Hs c {| rd := r1; depth := depth s |} Ho1 Hat)|apply (Hn {| rd := r1; depth := depth s |} Ho1 I)].
  Qed.

  (* attempt body; inc_depth; attempt end_seq; both; kk *)
  Lemma cov_end_seq f c : covered (end_seq f c).
  Proof. cov sat_end_seq. Qed.
  Lemma psp_nest_seq {A B} pre (body : PM A) f c (kk : A -> PM B) (p : A -> Prop) (q : B -> Prop) :
    psp pre body p -> (forall a, p a -> psp anyr (kk a) q) ->
    psp pre (pbind (attempt body) (fun r => pbind inc_depth (fun _ =>
            pbind (attempt (liftR (end_seq f c))) (fun e => pbind (both r e) kk)))) q.
  Proof.
    intros Hb Hkk s Ho Hp. rewrite pbind_unfold, attempt_unfold. specialize (Hb s Ho Hp).
    destruct (body s) as [[a|[e|pk]] s1].
    - destruct Hb as [Ho1 Hpa]. rewrite pbind_unfold.
      pose proof (psp_any anyr inc_depth pcov_inc s1 Ho1 I) as Hi.
      destruct (inc_depth s1) as [[u|e] s2]; [|exact I]. destruct Hi as [Ho2 _].
      rewrite pbind_unfold, attempt_unfold.
      pose proof (psp_any anyr (liftR (end_seq f c)) (pcov_liftR _ (cov_end_seq f c)) s2 Ho2 I) as He.
      destruct (liftR (end_seq f c) s2) as [[u'|[e|pk]] s3].
      + destruct He as [Ho3 _]. cbn [both]. rewrite pbind_unfold. cbn [pret]. apply (Hkk a Hpa s3 Ho3 I).
      + destruct e; rewrite ?pbind_unfold; cbn [both pfail]; exact I.
      + exact I.
    - destruct e; try exact I; rewrite pbind_unfold;
        destruct (inc_depth s1) as [[u|e'] s2]; try exact I;
        rewrite pbind_unfold, attempt_unfold;
        destruct (liftR (end_seq f c) s2) as [[u'|[e'|pk]] s3]; try exact I;
        try (destruct e'; rewrite ?pbind_unfold; cbn [both pfail]; exact I);
        rewrite pbind_unfold; cbn [both pfail]; exact I.
    - exact I.
  Qed.
  Lemma psp_nest_quote {A B} pre (body : PM A) (kk : A -> PM B) (p : A -> Prop) (q : B -> Prop) :
    psp pre body p -> (forall a, p a -> psp anyr (kk a) q) ->
    psp pre (pbind (attempt body) (fun r => pbind inc_depth (fun _ => pbind (lift r) kk))) q.
  Proof.
    intros Hb Hkk s Ho Hp. rewrite pbind_unfold, attempt_unfold. specialize (Hb s Ho Hp).
    destruct (body s) as [[a|[e|pk]] s1].
    - destruct Hb as [Ho1 Hpa]. rewrite pbind_unfold.
      pose proof (psp_any anyr inc_depth pcov_inc s1 Ho1 I) as Hi.
      destruct (inc_depth s1) as [[u|e] s2]; [|exact I]. destruct Hi as [Ho2 _].
      cbn [lift]. rewrite pbind_unfold. cbn [pret]. apply (Hkk a Hpa s2 Ho2 I).
    - destruct e; try exact I; rewrite pbind_unfold; destruct (inc_depth s1) as [[u|e'] s2]; try exact I;
        rewrite pbind_unfold; cbn [lift pfail]; exact I.
    - exact I.
  Qed.

  Lemma hs_of_hsv {A} pre (m : M A) (q : A -> Prop) : hsv pre m q -> covered m -> hs pre m (fun a _ => q a).
  Proof.
    intros Hv Hc r Ho Hp. specialize (Hv r Ho Hp). pose proof (okr_step m r Hc Ho) as Ho'.
    destruct (m r) as [[a|e] r1]; [|exact I]. auto.
  Qed.
  Lemma hs_eat_peek_bnd c : c < 128 -> hs (at_byte c) (eat_char ;;; peek) (fun _ r' => bnd r').
  Proof.
    intros Hc. eapply hs_bind; [apply (hs_eat_ascii c Hc)|]. intros u. cbv beta.
    intros r Ho Hb. pose proof (okr_step peek r cov_peek Ho) as Ho'. pose proof (peek_rem r Ho) as Er.
    destruct (peek r) as [[o|e] r1]; [|exact I]. cbn [snd] in *. split; [exact Ho'|]. unfold bnd. rewrite Er. exact Hb.
  Qed.

  Section Values.
    Variable ro : parse_options.
    Variable alpha : N -> bool.
    Variable fast : bool.
    Variable std_parse : N -> Z -> f64.
    Local Notation next_value := (next_value ro alpha fast std_parse).
    Local Notation parse_list := (parse_list ro alpha fast std_parse).
    Local Notation parse_vector := (parse_vector ro alpha fast std_parse).

    Lemma cov_token f b : covered (parse_token ro alpha fast std_parse f b).
    Proof. cov sat_parse_token. Qed.
    Lemma cov_byte_list f c : covered (parse_byte_list fast std_parse f c).
    Proof. cov sat_parse_byte_list. Qed.
    Lemma psp_token f b : psp (at_byte b) (liftR (parse_token ro alpha fast std_parse f b)) tok_valid.
    Proof.
      eapply psp_liftR; [apply (hs_of_hsv _ _ _ (hsv_parse_token ro alpha fast std_parse f b) (cov_token f b))|].
      intros a r H. exact H.
    Qed.

    Theorem values_valid_str fuel :
      psp anyr (next_value fuel) opt_valid /\
      (forall t acc, Forall strs_valid acc -> psp anyr (parse_list fuel t acc) strs_valid) /\
      (forall t acc, Forall strs_valid acc -> psp anyr (parse_vector fuel t acc) (Forall strs_valid)).
    Proof.
      induction fuel as [|f (IHv & IHl & IHvec)].
      - split; [|split]; intros; cbn [Parser.next_value Parser.parse_list Parser.parse_vector]; apply psp_fail.
      - split; [|split]; intros; cbn [Parser.next_value Parser.parse_list Parser.parse_vector].
        + apply psp_ws; [apply psp_ret; exact I|]. intros b.
          apply (psp_bind _ _ _ tok_valid opt_valid); [apply psp_token|].
          intros tok Ht. destruct tok; cbn [tok_valid] in Ht; try (apply psp_ret; cbn [opt_valid strs_valid]; auto; fail).
          * (* list *)
            apply (psp_bind _ _ _ (fun _ => True)); [apply psp_any, pcov_enter|]. intros u _.
            apply (psp_nest_seq anyr _ f close _ strs_valid opt_valid); [apply IHl; constructor|].
            intros l Hl. apply psp_ret. exact Hl.
          * (* quotation *)
            apply (psp_bind _ _ _ (fun _ => True)); [apply psp_any, pcov_enter|]. intros u _.
            apply (psp_nest_quote anyr _ _ opt_valid opt_valid); [exact IHv|].
            intros o Ho. destruct o as [d|]; [|apply psp_err].
            apply psp_ret. cbn [opt_valid vlist build strs_valid]. auto.
          * (* vector *)
            apply (psp_bind _ _ _ (fun _ => True)); [apply psp_any, pcov_enter|]. intros u _.
            apply (psp_nest_seq anyr _ f close _ (Forall strs_valid) opt_valid); [apply IHvec; constructor|].
            intros l Hl. apply psp_ret. cbn [opt_valid]. apply strs_valid_vector. exact Hl.
          * (* byte vector *)
            apply (psp_bind _ _ _ (fun _ => True)); [apply psp_any, pcov_liftR, cov_byte_list|]. intros bs _. apply psp_ret. exact I.
        + apply psp_ws; [apply psp_err|]. intros c.
          destruct (is_closer c).
          { destruct (negb (c =? t)); [apply psp_err|]. apply psp_ret. apply strs_valid_build; [assumption|exact I]. }
          destruct (c =? 46) eqn:E46.
          { apply (psp_bindR _ _ _ (fun _ r' => bnd r')); [apply hs_eat_peek_bnd; lia|]. intros nx.
            destruct (lone_dot nx).
            - apply (psp_weaken anyr); [intros; exact I|]. destruct acc as [|x acc'].
              + apply (psp_bind _ _ _ (fun _ => True)); [apply psp_any, pcov_liftR, cov_peek|]. intros o3 _. destruct o3; apply psp_err.
              + apply (psp_bind _ _ _ opt_valid strs_valid); [exact IHv|]. intros ov Hov.
                destruct ov as [cdr|]; [|apply psp_err].
                apply (psp_bind _ _ _ (fun _ => True)); [apply psp_any, pcov_liftR, cov_ws|]. intros o2 _.
                destruct o2 as [c2|]; [|apply psp_err]. destruct (c2 =? t); [|apply psp_err].
                apply psp_ret. apply strs_valid_build; assumption.
            - apply (psp_bindR _ _ _ (fun name _ => utf8_valid name = true)).
              + unfold parse_symbol_suffix. eapply hs_weaken; [| |apply (hs_parse_symbol_rd f [46])]; [auto|].
                intros name r [Hv _]. apply Hv. reflexivity.
              + intros name. intros s Ho Hn. apply (IHl t (acc ++ [symbol_value ro name])); [|exact Ho|exact I].
                apply Forall_snoc; [assumption|apply symbol_value_valid; exact Hn]. }
          apply (psp_weaken anyr); [intros; exact I|].
          apply (psp_bind _ _ _ opt_valid strs_valid); [exact IHv|]. intros ov Hov.
          destruct ov as [v|]; [|apply psp_err]. apply IHl. apply Forall_snoc; assumption.
        + apply psp_ws; [apply psp_err|]. intros c.
          destruct (is_closer c).
          { destruct (negb (c =? t)); [apply psp_err|]. apply psp_ret. assumption. }
          apply (psp_weaken anyr); [intros; exact I|].
          apply (psp_bind _ _ _ opt_valid (Forall strs_valid)); [exact IHv|]. intros ov Hov.
          destruct ov as [v|]; [|apply psp_err]. apply IHvec. apply Forall_snoc; assumption.
    Qed.
  End Values.
End StrInput.

Lemma bytes_in_bytes_events W : bytes_in (bytes_events W) = W.
Proof. induction W as [|b W IH]; [reflexivity|]. cbn [bytes_events map bytes_in flat_map app]. unfold bytes_in, bytes_events in IH. rewrite IH. reflexivity. Qed.
Lemma all_bytes_events W : all_bytes (bytes_events W).
Proof. induction W as [|b W IH]; constructor; [exact I|exact IH]. Qed.

(* the entry point on a str *)
Theorem from_trait_str_valid ro alpha fast std_parse W v : utf8_valid W = true ->
  from_trait ro alpha fast std_parse SrcStr (bytes_events W) = POk v -> strs_valid v.
Proof.
  intros HW E. unfold from_trait in E. set (inp := bytes_events W) in *. set (fuel := fuel_for inp) in *.
  assert (Ho : okr W (rd (init_state SrcStr inp))).
  { split; [apply inv_init; unfold inp; rewrite bytes_in_bytes_events; reflexivity|]. split; [reflexivity|apply all_bytes_events]. }
  pose proof (proj1 (values_valid_str W HW ro alpha fast std_parse fuel) (init_state SrcStr inp) Ho I) as H.
  unfold expect_value in E. rewrite !pbind_unfold in E.
  destruct (next_value ro alpha fast std_parse fuel (init_state SrcStr inp)) as [[o|e] s1]; [|cbn in E; discriminate].
  destruct H as [_ Hq]. destruct o as [v0|].
  - cbn [pret] in E. rewrite pbind_unfold in E.
    destruct (expect_end_p fuel s1) as [[u|e] s2]; cbn [fst pret] in E; [|discriminate]. inversion E; subst v0. exact Hq.
  - unfold liftR, peek_error in E. destruct (r_peek_position (rd s1)). cbn in E. discriminate.
Qed.
