(* Scanner lemmas on pure byte input: symbols (both variants). *)
From Coq Require Import ZifyBool ZifyNat.
Require Import Base Utf8 Reader Scan ReaderProofs.

(* ---- UTF-8: a well-formed string is not "truncated" ---- *)
Lemma valid_not_truncated_fuel fuel l : utf8_valid_fuel fuel l = true -> utf8_truncated_fuel fuel l = false.
Proof.
  revert l; induction fuel as [|f IH]; intros l H; destruct l as [|b l]; cbn [utf8_valid_fuel utf8_truncated_fuel] in *;
    try reflexivity; try discriminate.
  destruct (utf8_head_len (b :: l)) as [|n] eqn:E; [discriminate|]. apply IH. exact H.
Qed.
Lemma valid_not_truncated l : utf8_valid l = true -> utf8_truncated l = false.
Proof. apply valid_not_truncated_fuel. Qed.

Definition no_terminator (name : bytes) : Prop := Forall (fun c => is_symbol_terminator c = false) name.
(* what may follow a symbol: the end of input or a terminator *)
Definition at_terminator (rest : bytes) : Prop :=
  match rest with [] => True | d :: _ => is_symbol_terminator d = true end.

(* the symbol text is acceptable: not a lone dot, well-formed UTF-8 *)
Definition symbol_ok (whole : bytes) : Prop := beq_bytes whole [46] = false /\ utf8_valid whole = true.

Lemma symbol_ok_not_truncated whole : symbol_ok whole -> is_truncated_symbol whole = false.
Proof. intros [H1 H2]. unfold is_truncated_symbol. rewrite H1, (valid_not_truncated _ H2). reflexivity. Qed.

Lemma scan_symbol_io_spec name : forall fuel scratch rest r,
  (length name < fuel)%nat -> no_terminator name -> at_terminator rest ->
  at_bytes r (name ++ rest) -> symbol_ok (scratch ++ name) ->
  exists r', scan_symbol_io fuel scratch r = (Ok (scratch ++ name), r') /\ at_bytes r' rest /\
             rk r' = rk r /\ (rest <> [] -> peeked r').
Proof.
  induction name as [|c name IH]; intros fuel scratch rest r Hf Hn Ht Ha Hok.
  - destruct fuel as [|f]; [cbn in Hf; lia|]. cbn [scan_symbol_io app] in *. rewrite app_nil_r in *.
    destruct Hok as [Hdot Hv]. pose proof (symbol_ok_not_truncated _ (conj Hdot Hv)) as Htr.
    destruct rest as [|d rest].
    + destruct (m_peek_nil r Ha) as (r' & E & Ha' & Hk'). rewrite (bind_ok _ _ _ _ _ E).
      rewrite Htr, Hdot. exists r'. unfold ret. repeat split; auto. congruence.
    + destruct (m_peek_cons r d rest Ha) as (r' & E & Ha' & Hp & Hk). rewrite (bind_ok _ _ _ _ _ E).
      cbn [at_terminator] in Ht. rewrite Ht, Hdot. exists r'. unfold ret. repeat split; auto.
  - destruct fuel as [|f]; [cbn in Hf; lia|]. cbn [scan_symbol_io]. cbn [app] in Ha.
    destruct (m_peek_cons r c (name ++ rest) Ha) as (r1 & E1 & Ha1 & Hp1 & Hk1). rewrite (bind_ok _ _ _ _ _ E1).
    inversion Hn as [|? ? Hc Hn']; subst. rewrite Hc.
    destruct (m_eat r1 c (name ++ rest) Ha1 Hp1) as (r2 & E2 & Ha2 & Hk2). rewrite (bind_ok _ _ _ _ _ E2).
    destruct (IH f (scratch ++ [c]) rest r2) as (r3 & E3 & Ha3 & Hk3 & Hp3); auto.
    + cbn in Hf. lia.
    + now rewrite <- app_assoc.
    + exists r3. rewrite <- app_assoc in E3. cbn [app] in E3. repeat split; auto. congruence.
Qed.

Lemma span_symbol_spec name : forall rest acc, no_terminator name -> at_terminator rest ->
  span_symbol (bytes_events (name ++ rest)) acc = (acc ++ name, bytes_events rest).
Proof.
  induction name as [|c name IH]; intros rest acc Hn Ht.
  - cbn [app]. rewrite app_nil_r. destruct rest as [|d rest]; [reflexivity|].
    cbn [bytes_events map span_symbol]. cbn [at_terminator] in Ht. now rewrite Ht.
  - inversion Hn as [|? ? Hc Hn']; subst. cbn [app bytes_events map span_symbol]. rewrite Hc.
    change (map EByte (name ++ rest)) with (bytes_events (name ++ rest)).
    rewrite IH by assumption. now rewrite <- app_assoc.
Qed.

Lemma advance_over_at r bs rest : at_bytes (advance_over r bs (bytes_events rest)) rest /\ rk (advance_over r bs (bytes_events rest)) = rk r.
Proof. unfold advance_over, at_bytes. destruct (fold_left _ bs _). cbn. auto. Qed.

Lemma scan_symbol_slice_spec name scratch rest r :
  no_terminator name -> at_terminator rest -> at_bytes r (name ++ rest) -> symbol_ok (scratch ++ name) ->
  exists r', scan_symbol_slice scratch r = (Ok (scratch ++ name), r') /\ at_bytes r' rest /\ rk r' = rk r.
Proof.
  intros Hn Ht Ha Hok. unfold scan_symbol_slice. unfold at_bytes in Ha. rewrite Ha.
  rewrite (span_symbol_spec name rest [] Hn Ht). cbn [app].
  destruct (advance_over_at r name rest) as [Ha' Hk'].
  destruct Hok as [Hdot Hv]. pose proof (symbol_ok_not_truncated _ (conj Hdot Hv)) as Htr.
  rewrite Htr, Hdot.
  replace (match bytes_events rest with [] => true | _ :: _ => false end && false) with false
    by (destruct (bytes_events rest); reflexivity).
  exists (advance_over r name (bytes_events rest)). unfold ret. auto.
Qed.

(* Read::parse_symbol, any source kind *)
Lemma parse_symbol_spec name fuel scratch rest r :
  (length name < fuel)%nat -> no_terminator name -> at_terminator rest ->
  at_bytes r (name ++ rest) -> symbol_ok (scratch ++ name) ->
  exists r', parse_symbol_rd fuel scratch r = (Ok (scratch ++ name), r') /\ at_bytes r' rest /\
             rk r' = rk r /\ (rest <> [] -> peeked r').
Proof.
  intros Hf Hn Ht Ha Hok. unfold parse_symbol_rd. destruct (rk r) eqn:Ek.
  - destruct (scan_symbol_slice_spec name scratch rest r Hn Ht Ha Hok) as (r' & E & Ha' & Hk').
    rewrite (bind_ok _ _ _ _ _ E). unfold finish_str. rewrite Hk', Ek. exists r'. unfold ret.
    split; [reflexivity|]. split; [exact Ha'|]. split; [congruence|]. intros _ Hio. congruence.
  - destruct (scan_symbol_slice_spec name scratch rest r Hn Ht Ha Hok) as (r' & E & Ha' & Hk').
    rewrite (bind_ok _ _ _ _ _ E). unfold finish_str. rewrite Hk', Ek. unfold as_str.
    destruct Hok as [_ Hv]. rewrite Hv. exists r'. unfold ret.
    split; [reflexivity|]. split; [exact Ha'|]. split; [congruence|]. intros _ Hio. congruence.
  - destruct (scan_symbol_io_spec name fuel scratch rest r Hf Hn Ht Ha Hok) as (r' & E & Ha' & Hk' & Hp').
    rewrite (bind_ok _ _ _ _ _ E). unfold as_str. destruct Hok as [_ Hv]. rewrite Hv.
    exists r'. unfold ret. split; [reflexivity|]. split; [exact Ha'|]. split; [congruence|exact Hp'].
Qed.
