(* C12 / C01: whitespace and line comments at token boundaries do not change
   what is read.  A layout (lay) is a spelling of a value in which every list
   and vector boundary carries explicit trivia; atoms and canonically printed
   sub-values are the leaves. *)
From Coq Require Import SpecFloat ZifyBool ZifyNat ZifyN.
Require Import Base Value Float PrintOptions Printer ParseOptions Utf8 Reader Scan Num NumberOps Parser Depth.
Require Import ReaderProofs ScanProofs TextProofs TokenProofs NumTokenProofs CharStrProofs DepthProofs RoundtripProofs BytesLayout.

Inductive lay :=
| LAtom (v : value)                               (* the printer's text of v, any v *)
| LSeq (vec : bool) (b : body)                    (* "(" body ")"  or  "#(" body ")" *)
| LBytes (p0 : bytes) (os : olay) (cp : bytes)    (* "#u8" trivia "(" octets, each after its trivia, trivia ")" *)
with body :=
| BEnd (cp : bytes)                               (* trivia, then the closing parenthesis *)
| BDot (p1 p2 : bytes) (t : lay) (cp : bytes)     (* trivia "." trivia tail trivia *)
| BItem (p : bytes) (e : lay) (b : body).         (* trivia element, rest of the body *)
Scheme lay_mut := Induction for lay Sort Prop
  with body_mut := Induction for body Sort Prop.
Combined Scheme lay_body_ind from lay_mut, body_mut.

Fixpoint lval (l : lay) : value :=
  match l with
  | LAtom v => v
  | LSeq vec b => if vec then Vector (bitems b) else build (bitems b) (btail b)
  | LBytes _ os _ => Bytes (map snd os)
  end
with bitems (b : body) : list value :=
  match b with BItem _ e b' => lval e :: bitems b' | _ => [] end
with btail (b : body) : value :=
  match b with BEnd _ => Null | BDot _ _ t _ => lval t | BItem _ _ b' => btail b' end.

(* nesting budget the reader needs *)
Fixpoint ldepth (l : lay) : nat :=
  match l with
  | LAtom v => rdepth v
  | LSeq _ b => S (bdepth b)
  | LBytes _ _ _ => 0
  end
with bdepth (b : body) : nat :=
  match b with
  | BEnd _ => 0
  | BDot _ _ t _ => ldepth t
  | BItem _ e b' => Nat.max (ldepth e) (bdepth b')
  end.

Lemma trivia_delim t d rest : trivia t -> delim_ok (d :: rest) -> delim_ok (t ++ d :: rest).
Proof.
  intros Ht Hd. destruct t as [|c t']; [exact Hd|].
  destruct (trivia_head_ws (c :: t') Ht ltac:(discriminate)) as (c0 & t0 & E & Hc). inversion E; subst c0 t0.
  cbn [app delim_ok]. destruct Hc as [Hc| ->]; [|reflexivity].
  unfold is_ws, memb in Hc. cbn [existsb] in Hc. unfold is_symbol_terminator, memb. cbn [existsb].
  repeat (apply orb_true_iff in Hc; destruct Hc as [Hc|Hc]; [apply N.eqb_eq in Hc; subst c; reflexivity|]). discriminate.
Qed.

Lemma delim_ok_app x y : x <> [] -> delim_ok x -> delim_ok (x ++ y).
Proof. destruct x as [|c x']; [contradiction|]. intros _ H. exact H. Qed.

Section Trivia.
  Variable ryu : f64 -> bytes.
  Variable alpha : N -> bool.
  Variable fast : bool.
  Variable std_parse : N -> Z -> f64.
  Local Notation ro := default_ro.
  Local Notation next_value := (next_value ro alpha fast std_parse).
  Local Notation parse_list := (parse_list ro alpha fast std_parse).
  Local Notation parse_vector := (parse_vector ro alpha fast std_parse).
  Local Notation txt := (txt ryu).
  Local Notation rt_ok := (rt_ok alpha).
  Local Notation P := (P ryu alpha fast std_parse).

  Fixpoint ltxt (l : lay) : bytes :=
    match l with
    | LAtom v => txt v
    | LSeq vec b => (if vec then [35; 40] else [40]) ++ btxt b ++ [41]
    | LBytes p0 os cp => 35 :: 117 :: 56 :: p0 ++ 40 :: olay_text os ++ cp ++ [41]
    end
  with btxt (b : body) : bytes :=
    match b with
    | BEnd cp => cp
    | BDot p1 p2 t cp => p1 ++ 46 :: p2 ++ ltxt t ++ cp
    | BItem p e b' => p ++ ltxt e ++ btxt b'
    end.

  (* well-formed layouts: trivia is trivia; an element that is not the first
     is separated from its predecessor (non-empty trivia, or it starts with an
     opening parenthesis); the dot stands alone; only lists have a dotted tail *)
  Fixpoint lok (l : lay) : Prop :=
    match l with
    | LAtom v => rt_ok v
    | LSeq vec b => bok vec true b
    | LBytes p0 os cp => trivia p0 /\ olay_ok true os /\ trivia cp
    end
  with bok (vec first : bool) (b : body) {struct b} : Prop :=
    match b with
    | BEnd cp => trivia cp
    | BDot p1 p2 t cp => vec = false /\ first = false /\ trivia p1 /\ p1 <> [] /\ trivia p2 /\
                         delim_ok (p2 ++ ltxt t) /\ lok t /\ trivia cp
    | BItem p e b' => trivia p /\ (first = true \/ delim_ok (p ++ ltxt e)) /\ lok e /\ bok vec false b'
    end.

  Definition PL (l : lay) : Prop :=
    forall fuel r D pre rest, trivia pre -> lok l -> N.of_nat (ldepth l) < D -> D <= 128 ->
      (length pre + length (ltxt l) + K <= fuel)%nat -> at_bytes r (pre ++ ltxt l ++ rest) -> delim_ok rest ->
      exists r', next_value fuel (mkp r D) = (POk (Some (lval l)), mkp r' D) /\ at_bytes r' rest /\ rk r' = rk r.

  Definition PB (b : body) : Prop :=
    forall vec first fuel r D acc rest, bok vec first b -> N.of_nat (bdepth b) < D -> D <= 128 ->
      (length (btxt b) + 1 + K <= fuel)%nat -> at_bytes r (btxt b ++ 41 :: rest) ->
      (first = false -> acc <> []) ->
      exists r', (if vec then parse_vector fuel 41 acc (mkp r D) = (POk (acc ++ bitems b), mkp r' D)
                  else parse_list fuel 41 acc (mkp r D) = (POk (build (acc ++ bitems b) (btail b)), mkp r' D)) /\
                 at_bytes r' (41 :: rest) /\ rk r' = rk r.

  Lemma ltxt_head l : lok l ->
    exists b t, ltxt l = b :: t /\ starts_datum b /\ is_closer b = false /\ (b = 46 -> exists v, l = LAtom v).
  Proof.
    destruct l as [v|vec b|p0 os cp]; intros Hok.
    - destruct (txt_head ryu alpha std_parse v Hok) as (b & t & E & Hs & Hc & _).
      exists b, t. repeat split; auto; try apply Hs. intros _. eexists; reflexivity.
    - destruct vec; cbn [ltxt app].
      + exists 35, (40 :: btxt b ++ [41]). repeat split; try reflexivity; discriminate.
      + exists 40, (btxt b ++ [41]). repeat split; try reflexivity; discriminate.
    - cbn [ltxt]. eexists 35, _. repeat split; try reflexivity; discriminate.
  Qed.

  Lemma ltxt_nonempty l : lok l -> (1 <= length (ltxt l))%nat.
  Proof. intros H. destruct (ltxt_head l H) as (b & t & E & _). rewrite E. cbn [length]. lia. Qed.

  Lemma PL_atom v : PL (LAtom v).
  Proof.
    intros fuel r D pre rest Hpre Hok HD HD' Hf Ha Hr. cbn [lok ldepth ltxt lval] in *.
    exact (proj1 (next_value_reads_text ryu alpha fast std_parse v) fuel r D pre rest Hpre Hok HD HD' Hf Ha Hr).
  Qed.

  (* one element of a list body *)
  Lemma lelem_step e : PL e -> forall f r D acc pre more, trivia pre -> lok e -> N.of_nat (ldepth e) < D -> D <= 128 ->
    (length pre + length (ltxt e) + K <= f)%nat -> at_bytes r (pre ++ ltxt e ++ more) -> delim_ok more ->
    exists r1, parse_list (S f) 41 acc (mkp r D) = parse_list f 41 (acc ++ [lval e]) (mkp r1 D) /\
               at_bytes r1 more /\ rk r1 = rk r.
  Proof.
    intros HP f r D acc pre more Hpre Hok HD HD' Hf Ha Hm.
    assert (Hna : (forall v, e <> LAtom v) ->
      exists r1, parse_list (S f) 41 acc (mkp r D) = parse_list f 41 (acc ++ [lval e]) (mkp r1 D) /\
                 at_bytes r1 more /\ rk r1 = rk r); [|destruct e as [v|vec b|p0 os cp]; [|apply Hna; discriminate|apply Hna; discriminate]].
    2:{ exact (elem_step ryu alpha fast std_parse v (proj1 (next_value_reads_text ryu alpha fast std_parse v))
               f r D acc pre more Hpre Hok HD HD' Hf Ha Hm). }
    intros Hnot.
    - unfold K in Hf. destruct (ltxt_head e Hok) as (c & t & E & Hst & Hcl & H46).
      assert (E46 : (c =? 46) = false).
      { destruct (c =? 46) eqn:E46; [|reflexivity]. apply N.eqb_eq in E46. destruct (H46 E46) as [v Hv]. exfalso. exact (Hnot v Hv). }
      pose proof Ha as Ha'. rewrite E in Ha'. cbn [app] in Ha'.
      rewrite parse_list_S.
      destruct (ws_pre alpha std_parse f r pre c (t ++ more) ltac:(lia) Hpre Ha' Hst) as (r0 & E0 & Ha0 & Hp0 & Hk0).
      rewrite (pbind_eq _ _ _ _ _ (liftR_ok _ r D _ _ E0)). rewrite Hcl, E46.
      change (c :: t ++ more) with ((c :: t) ++ more) in Ha0. rewrite <- E in Ha0.
      destruct (HP f r0 D [] more tv_nil Hok HD HD' ltac:(unfold K; cbn [length]; lia) Ha0 Hm) as (r1 & E1 & Ha1 & Hk1).
      rewrite (pbind_eq _ _ _ _ _ E1).
      exists r1. split; [reflexivity|]. split; [assumption|congruence].
  Qed.

  (* one element of a vector body *)
  Lemma lelem_step_vec e : PL e -> forall f r D acc pre more, trivia pre -> lok e -> N.of_nat (ldepth e) < D -> D <= 128 ->
    (length pre + length (ltxt e) + K <= f)%nat -> at_bytes r (pre ++ ltxt e ++ more) -> delim_ok more ->
    exists r1, parse_vector (S f) 41 acc (mkp r D) = parse_vector f 41 (acc ++ [lval e]) (mkp r1 D) /\
               at_bytes r1 more /\ rk r1 = rk r.
  Proof.
    intros HP f r D acc pre more Hpre Hok HD HD' Hf Ha Hm. unfold K in Hf.
    destruct (ltxt_head e Hok) as (c & t & E & Hst & Hcl & _).
    pose proof Ha as Ha'. rewrite E in Ha'. cbn [app] in Ha'.
    rewrite parse_vector_S.
    destruct (ws_pre alpha std_parse f r pre c (t ++ more) ltac:(lia) Hpre Ha' Hst) as (r0 & E0 & Ha0 & Hp0 & Hk0).
    rewrite (pbind_eq _ _ _ _ _ (liftR_ok _ r D _ _ E0)). rewrite Hcl.
    change (c :: t ++ more) with ((c :: t) ++ more) in Ha0. rewrite <- E in Ha0.
    destruct (HP f r0 D [] more tv_nil Hok HD HD' ltac:(unfold K; cbn [length]; lia) Ha0 Hm) as (r1 & E1 & Ha1 & Hk1).
    rewrite (pbind_eq _ _ _ _ _ E1).
    exists r1. split; [reflexivity|]. split; [assumption|congruence].
  Qed.

  Lemma btxt_delim vec b rest : bok vec false b -> delim_ok (btxt b ++ 41 :: rest).
  Proof.
    destruct b as [cp|p1 p2 t cp|p e b']; cbn [bok btxt].
    - intros Hcp. apply trivia_delim; [exact Hcp|reflexivity].
    - intros (_ & _ & Hp1 & Hne & _). rewrite <- app_assoc. apply delim_ok_app; [exact Hne|].
      destruct p1 as [|c p1']; [contradiction|].
      exact (trivia_delim (c :: p1') 41 [] Hp1 eq_refl).
    - intros (Hp & [Hf|Hd] & Hok & _); [discriminate|]. rewrite app_assoc, <- app_assoc.
      apply delim_ok_app; [|exact Hd].
      intros E. apply app_eq_nil in E. destruct E as [_ E]. pose proof (ltxt_nonempty e Hok) as Hl. rewrite E in Hl. cbn in Hl. lia.
  Qed.

  Lemma PB_end cp : PB (BEnd cp).
  Proof.
    intros vec first fuel r D acc rest Hok _ _ Hf Ha _. destruct fuel as [|f]; [unfold K in Hf; lia|]. unfold K in Hf.
    cbn [bok btxt bitems btail] in *. rewrite app_nil_r.
    destruct (ws_trivia cp Hok f r 41 rest ltac:(lia) Ha close_starts_datum) as (r0 & E0 & Ha0 & Hp0 & Hk0).
    destruct vec.
    - rewrite parse_vector_S. rewrite (pbind_eq _ _ _ _ _ (liftR_ok _ r D _ _ E0)).
      change (is_closer 41) with true. change (negb (41 =? 41)) with false. cbv iota.
      exists r0. split; [reflexivity|]. auto.
    - rewrite parse_list_S. rewrite (pbind_eq _ _ _ _ _ (liftR_ok _ r D _ _ E0)).
      change (is_closer 41) with true. change (negb (41 =? 41)) with false. cbv iota.
      exists r0. split; [reflexivity|]. auto.
  Qed.

  Lemma PB_item p e b : PL e -> PB b -> PB (BItem p e b).
  Proof.
    intros HPe HPb vec first fuel r D acc rest Hok HD HD' Hf Ha _.
    destruct fuel as [|f]; [unfold K in Hf; lia|]. unfold K in Hf.
    cbn [bok btxt bitems btail bdepth] in *. destruct Hok as (Hp & _ & Hoke & Hokb).
    rewrite <- !app_assoc in Ha. rewrite !app_length in Hf.
    pose proof (ltxt_nonempty e Hoke) as Hlen.
    assert (Hacc : false = false -> acc ++ [lval e] <> []) by (intros _; destruct acc; discriminate).
    destruct vec.
    - destruct (lelem_step_vec e HPe f r D acc p (btxt b ++ 41 :: rest) Hp Hoke ltac:(lia) HD' ltac:(unfold K; lia) Ha
                  (btxt_delim true b rest Hokb)) as (r1 & E1 & Ha1 & Hk1).
      rewrite E1.
      destruct (HPb true false f r1 D (acc ++ [lval e]) rest Hokb ltac:(lia) HD' ltac:(unfold K; lia) Ha1 Hacc)
        as (r2 & E2 & Ha2 & Hk2).
      exists r2. rewrite E2, <- app_assoc. split; [reflexivity|]. split; [assumption|congruence].
    - destruct (lelem_step e HPe f r D acc p (btxt b ++ 41 :: rest) Hp Hoke ltac:(lia) HD' ltac:(unfold K; lia) Ha
                  (btxt_delim false b rest Hokb)) as (r1 & E1 & Ha1 & Hk1).
      rewrite E1.
      destruct (HPb false false f r1 D (acc ++ [lval e]) rest Hokb ltac:(lia) HD' ltac:(unfold K; lia) Ha1 Hacc)
        as (r2 & E2 & Ha2 & Hk2).
      exists r2. rewrite E2, <- app_assoc. split; [reflexivity|]. split; [assumption|congruence].
  Qed.

  Lemma PB_dot p1 p2 t cp : PL t -> PB (BDot p1 p2 t cp).
  Proof.
    intros HPt vec first fuel r D acc rest Hok HD HD' Hf Ha Hacc.
    destruct fuel as [|f]; [unfold K in Hf; lia|]. unfold K in Hf.
    cbn [bok btxt bitems btail bdepth] in *.
    destruct Hok as (-> & -> & Hp1 & Hne & Hp2 & Hd2 & Hokt & Hcp).
    rewrite app_nil_r. rewrite !app_length in Hf. cbn [length] in Hf. rewrite !app_length in Hf.
    rewrite <- !app_assoc in Ha. cbn [app] in Ha. rewrite <- !app_assoc in Ha.
    rewrite parse_list_S.
    destruct (ws_trivia p1 Hp1 f r 46 _ ltac:(lia) Ha ltac:(split; [reflexivity|discriminate])) as (r0 & E0 & Ha0 & Hp0 & Hk0).
    rewrite (pbind_eq _ _ _ _ _ (liftR_ok _ r D _ _ E0)).
    change (is_closer 46) with false. change (46 =? 46) with true. cbv iota.
    destruct (m_eat r0 46 _ Ha0 Hp0) as (r1 & E1 & Ha1 & Hk1).
    (* the byte after the dot ends a symbol *)
    pose proof (ltxt_nonempty t Hokt) as Hlt.
    assert (Hnx : exists nx l, p2 ++ ltxt t ++ cp ++ 41 :: rest = nx :: l /\ is_symbol_terminator nx = true).
    { destruct (p2 ++ ltxt t) as [|nx l] eqn:El.
      - apply app_eq_nil in El. destruct El as [_ El]. rewrite El in Hlt. cbn in Hlt. lia.
      - exists nx, (l ++ cp ++ 41 :: rest). split; [|exact Hd2].
        rewrite (app_assoc p2), El. reflexivity. }
    destruct Hnx as (nx & l & El & Hterm).
    pose proof Ha1 as Ha1'. rewrite El in Ha1'.
    destruct (m_peek_cons r1 nx _ Ha1') as (r2 & E2 & Ha2 & Hp2' & Hk2).
    assert (E12 : (eat_char ;;; peek) r0 = (Ok (Some nx), r2)) by (rewrite (bind_ok _ _ _ _ _ E1); exact E2).
    rewrite (pbind_eq _ _ _ _ _ (liftR_ok _ r0 D _ _ E12)).
    cbn [lone_dot]. rewrite Hterm.
    destruct acc as [|x acc]; [exfalso; apply (Hacc eq_refl); reflexivity|].
    rewrite <- El in Ha2.
    destruct (HPt f r2 D p2 (cp ++ 41 :: rest) Hp2 Hokt HD HD' ltac:(unfold K; lia) Ha2
                (trivia_delim cp 41 rest Hcp eq_refl)) as (r3 & E3 & Ha3 & Hk3).
    rewrite (pbind_eq _ _ _ _ _ E3).
    destruct (ws_trivia cp Hcp f r3 41 rest ltac:(lia) Ha3 close_starts_datum) as (r4 & E4 & Ha4 & Hp4 & Hk4).
    rewrite (pbind_eq _ _ _ _ _ (liftR_ok _ r3 D _ _ E4)). change (41 =? 41) with true. cbv iota.
    exists r4. split; [reflexivity|]. split; [assumption|congruence].
  Qed.

  Lemma PL_seq vec b : PB b -> PL (LSeq vec b).
  Proof.
    intros HPb fuel r D pre rest Hpre Hok HD HD' Hf Ha Hr.
    destruct fuel as [|f]; [unfold K in Hf; lia|]. unfold K in Hf.
    cbn [lok ldepth ltxt lval] in *.
    destruct vec; cbn [app length] in Ha, Hf; rewrite app_length in Hf; cbn [length] in Hf.
    - destruct (next_value_at alpha fast std_parse f r D pre 35 _ ltac:(lia) Hpre Ha starts_35) as (r0 & Ha0 & Hp0 & Hk0 & Hnv).
      destruct (tok_vecopen alpha fast std_parse f r0 _ Ha0 Hp0) as (r1 & E1 & Ha1 & Hk1).
      rewrite (Hnv _ _ E1). cbn [after_token].
      rewrite (pbind_eq _ _ _ _ _ (enter_ok r1 D ltac:(lia))).
      rewrite <- app_assoc in Ha1. cbn [app] in Ha1.
      destruct (HPb true true f r1 (D - 1) [] rest Hok ltac:(lia) ltac:(lia) ltac:(unfold K; lia) Ha1 ltac:(discriminate))
        as (r2 & E2 & Ha2 & Hk2).
      rewrite (pbind_eq _ _ _ _ _ (attempt_ok _ _ _ _ E2)).
      rewrite (pbind_eq _ _ _ _ _ (inc_ok r2 (D - 1) ltac:(lia))).
      replace (D - 1 + 1) with D by lia.
      destruct (end_seq_close f r2 rest ltac:(lia) Ha2) as (r3 & E3 & Ha3 & Hk3).
      rewrite (pbind_eq _ _ _ _ _ (attempt_ok _ _ _ _ (liftR_ok _ r2 D _ _ E3))).
      cbn [both app]. unfold pbind, pret.
      exists r3. split; [reflexivity|]. split; [assumption|congruence].
    - destruct (next_value_at alpha fast std_parse f r D pre 40 _ ltac:(lia) Hpre Ha starts_40) as (r0 & Ha0 & Hp0 & Hk0 & Hnv).
      destruct (tok_listopen alpha fast std_parse f r0 _ Ha0 Hp0) as (r1 & E1 & Ha1 & Hk1).
      rewrite (Hnv _ _ E1). cbn [after_token].
      rewrite (pbind_eq _ _ _ _ _ (enter_ok r1 D ltac:(lia))).
      rewrite <- app_assoc in Ha1. cbn [app] in Ha1.
      destruct (HPb false true f r1 (D - 1) [] rest Hok ltac:(lia) ltac:(lia) ltac:(unfold K; lia) Ha1 ltac:(discriminate))
        as (r2 & E2 & Ha2 & Hk2).
      rewrite (pbind_eq _ _ _ _ _ (attempt_ok _ _ _ _ E2)).
      rewrite (pbind_eq _ _ _ _ _ (inc_ok r2 (D - 1) ltac:(lia))).
      replace (D - 1 + 1) with D by lia.
      destruct (end_seq_close f r2 rest ltac:(lia) Ha2) as (r3 & E3 & Ha3 & Hk3).
      rewrite (pbind_eq _ _ _ _ _ (attempt_ok _ _ _ _ (liftR_ok _ r2 D _ _ E3))).
      cbn [both build app]. unfold pbind, pret.
      exists r3. split; [reflexivity|]. split; [assumption|congruence].
  Qed.

  Lemma PL_bytes p0 os cp : PL (LBytes p0 os cp).
  Proof.
    intros fuel r D pre rest Hpre Hok HD HD' Hf Ha Hr.
    destruct fuel as [|f]; [unfold K in Hf; lia|]. unfold K in Hf.
    cbn [lok ldepth ltxt lval] in *. destruct Hok as (Hp0 & Hos & Hcp).
    cbn [app length] in Ha, Hf. rewrite !app_length in Hf. cbn [length] in Hf. rewrite !app_length in Hf. cbn [length] in Hf.
    destruct (next_value_at alpha fast std_parse f r D pre 35 _ ltac:(lia) Hpre Ha starts_35) as (r0 & Ha0 & Hp0' & Hk0 & Hnv).
    destruct (tok_bytevec alpha fast std_parse f r0 ((p0 ++ 40 :: olay_text os ++ cp ++ [41]) ++ rest) Ha0 Hp0') as (r1 & E1 & Ha1 & Hk1).
    rewrite (Hnv _ _ E1). cbn [after_token].
    rewrite <- !app_assoc in Ha1. cbn [app] in Ha1. rewrite <- !app_assoc in Ha1. cbn [app] in Ha1.
    destruct (parse_byte_list_lay fast std_parse f r1 p0 os cp rest Hp0 Hos Hcp ltac:(lia) Ha1) as (r2 & E2 & Ha2 & Hk2).
    rewrite (pbind_eq _ _ _ _ _ (liftR_ok _ r1 D _ _ E2)).
    exists r2. split; [reflexivity|]. split; [assumption|congruence].
  Qed.

  Theorem reads_layout : (forall l, PL l) /\ (forall b, PB b).
  Proof.
    apply lay_body_ind.
    - apply PL_atom.
    - intros vec b Hb. apply PL_seq. exact Hb.
    - apply PL_bytes.
    - apply PB_end.
    - intros p1 p2 t Ht cp. apply PB_dot. exact Ht.
    - intros p e He b Hb. apply PB_item; assumption.
  Qed.


  Lemma trivia_eof_delim t : trivia_eof t -> delim_ok t.
  Proof.
    intros [t' Ht|t' body Ht Hb].
    - destruct t' as [|c t'']; [exact I|]. exact (trivia_delim (c :: t'') 41 [] Ht eq_refl).
    - exact (trivia_delim t' 59 body Ht eq_refl).
  Qed.

  (* the whole entry point on a layout with trivia before and after *)
  Theorem layout_from_trait k l pre post : trivia pre -> trivia_eof post -> lok l -> (ldepth l <= 127)%nat ->
    from_trait ro alpha fast std_parse k (bytes_events (pre ++ ltxt l ++ post)) = POk (lval l).
  Proof.
    intros Hpre Hpost Hok Hd. unfold from_trait. set (inp := bytes_events (pre ++ ltxt l ++ post)). set (fuel := fuel_for inp).
    assert (Hlen : length inp = (length pre + length (ltxt l) + length post)%nat).
    { unfold inp, bytes_events. rewrite map_length, !app_length. lia. }
    assert (Hfuel : (length pre + length (ltxt l) + K <= fuel)%nat) by (unfold fuel, fuel_for, K; lia).
    assert (Ha : at_bytes (mk_reader k inp) (pre ++ ltxt l ++ post)) by reflexivity.
    destruct (proj1 reads_layout l fuel (mk_reader k inp) initial_depth pre post Hpre Hok
                ltac:(unfold initial_depth; lia) ltac:(unfold initial_depth; lia) Hfuel Ha (trivia_eof_delim post Hpost))
      as (r' & E & Ha' & Hk').
    change (init_state k inp) with (mkp (mk_reader k inp) initial_depth).
    unfold expect_value. rewrite (pbind_eq _ _ _ _ _ (pbind_eq _ _ _ _ _ E)).
    unfold pret at 1. unfold expect_end_p, expect_end.
    destruct (ws_trivia_end post Hpost fuel r' ltac:(unfold fuel, fuel_for; lia) Ha') as (r2 & E2 & Ha2 & _).
    assert (E3 : (o <- parse_whitespace fuel ;; match o with Some _ => peek_error TrailingCharacters | None => ret tt end) r' = (Ok tt, r2))
      by (rewrite (bind_ok _ _ _ _ _ E2); reflexivity).
    rewrite (pbind_eq _ _ _ _ _ (liftR_ok _ r' initial_depth _ _ E3)). reflexivity.
  Qed.

  (* ---- several layouts, each after its own trivia, then trailing trivia ---- *)
  Fixpoint seq_ltxt (ls : list (bytes * lay)) (post : bytes) : bytes :=
    match ls with [] => post | (p, l) :: ls' => p ++ ltxt l ++ seq_ltxt ls' post end.

  (* every item is well formed and, except possibly the first, set off from what precedes it *)
  Fixpoint seq_ok (first : bool) (D : N) (ls : list (bytes * lay)) : Prop :=
    match ls with
    | [] => True
    | (p, l) :: ls' => trivia p /\ (first = true \/ delim_ok (p ++ ltxt l)) /\ lok l /\ N.of_nat (ldepth l) < D /\
                       seq_ok false D ls'
    end.

  Lemma seq_ltxt_delim D ls post : seq_ok false D ls -> trivia_eof post -> delim_ok (seq_ltxt ls post).
  Proof.
    destruct ls as [|[p l] ls']; cbn [seq_ltxt seq_ok].
    - intros _ Hpost. apply trivia_eof_delim. exact Hpost.
    - intros (_ & [Hf|Hd] & Hok & _) _; [discriminate|]. rewrite app_assoc. apply delim_ok_app; [|exact Hd].
      intros E. apply app_eq_nil in E. destruct E as [_ E]. pose proof (ltxt_nonempty l Hok) as Hl. rewrite E in Hl. cbn in Hl. lia.
  Qed.

  Theorem iterate_layouts ls : forall first post fuel n r D, seq_ok first D ls -> trivia_eof post -> D <= 128 ->
    (length (seq_ltxt ls post) + K + 2 <= fuel)%nat -> (length ls < n)%nat -> at_bytes r (seq_ltxt ls post) ->
    iterate_values ro alpha fast std_parse fuel n (mkp r D) = map (fun pl => POk (lval (snd pl))) ls.
  Proof.
    induction ls as [|[p l] ls IH]; intros first post fuel n r D Hall Hpost HD Hf Hn Ha;
      (destruct n as [|n]; [cbn in Hn; lia|]); cbn [iterate_values seq_ltxt] in *.
    - destruct fuel as [|f]; [unfold K in Hf; lia|]. rewrite next_value_S.
      destruct (ws_trivia_end post Hpost f r ltac:(unfold K in Hf; lia) Ha) as (r1 & E1 & _).
      rewrite (pbind_eq _ _ _ _ _ (liftR_ok _ r D _ _ E1)). reflexivity.
    - cbn [seq_ok] in Hall. destruct Hall as (Hp & _ & Hok & Hd & Hall'). rewrite !app_length in Hf.
      destruct (proj1 reads_layout l fuel r D p (seq_ltxt ls post) Hp Hok Hd HD ltac:(lia) Ha
                  (seq_ltxt_delim D ls post Hall' Hpost)) as (r1 & E1 & Ha1 & _).
      rewrite E1. cbn [map snd]. f_equal. apply (IH false post); auto; try lia. cbn [length] in Hn. lia.
  Qed.

  (* trivia carries no information: two layouts of the same value read alike *)
  Corollary same_value_same_result k l1 l2 pre1 post1 pre2 post2 :
    trivia pre1 -> trivia_eof post1 -> lok l1 -> (ldepth l1 <= 127)%nat ->
    trivia pre2 -> trivia_eof post2 -> lok l2 -> (ldepth l2 <= 127)%nat -> lval l1 = lval l2 ->
    from_trait ro alpha fast std_parse k (bytes_events (pre1 ++ ltxt l1 ++ post1)) =
    from_trait ro alpha fast std_parse k (bytes_events (pre2 ++ ltxt l2 ++ post2)).
  Proof.
    intros H1 H2 H3 H4 H5 H6 H7 H8 E. rewrite (layout_from_trait k l1 pre1 post1), (layout_from_trait k l2 pre2 post2); auto.
    now rewrite E.
  Qed.

End Trivia.
