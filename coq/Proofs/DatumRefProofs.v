(* C10, second sentence: walking a datum with its list, vector and pair
   accessors exposes exactly the structure the value's own accessors expose.
   (1) every datum the parser returns - for any input, option set and source -
   carries span information of the same shape as its value; (2) on such a
   datum no accessor panics, the list iterator runs in lockstep with the
   value's list iterator, vector_iter yields every element, as_pair agrees with
   Value::as_pair, and every reference reached this way is again well shaped. *)
From Coq Require Import ZifyBool ZifyNat ZifyN.
Require Import Base Value Float PrintOptions ParseOptions Utf8 Reader Scan Num NumberOps Parser ListOps DatumRef.
Require Import RelFramework.

(* ---- the shape invariant ---- *)
Fixpoint shaped (v : value) (i : span_info) {struct i} : Prop :=
  match i with
  | SPrim _ => is_cons v = false /\ is_vector v = false
  | SCons _ ia id => match v with Cons a d => shaped a ia /\ shaped d id | _ => False end
  | SVec _ ms =>
      match v with
      | Vector l =>
          (fix all (l : list value) (ms : list span_info) {struct ms} : Prop :=
             match ms, l with
             | [], [] => True
             | m :: ms', x :: l' => shaped x m /\ all l' ms'
             | _, _ => False
             end) l ms
      | _ => False
      end
  end.
Definition all_shaped : list value -> list span_info -> Prop :=
  fix all (l : list value) (ms : list span_info) {struct ms} : Prop :=
    match ms, l with
    | [], [] => True
    | m :: ms', x :: l' => shaped x m /\ all l' ms'
    | _, _ => False
    end.
Lemma shaped_vec sp l ms : shaped (Vector l) (SVec sp ms) = all_shaped l ms.
Proof. reflexivity. Qed.

Definition dshaped (d : datum) : Prop := shaped (dvalue d) (dinfo d).
Definition rshaped (r : dref) : Prop := shaped (fst r) (snd r).

Lemma all_shaped_map ds : Forall dshaped ds -> all_shaped (map dvalue ds) (map dinfo ds).
Proof. induction 1 as [|d ds Hd _ IH]; cbn [map all_shaped]; auto. Qed.

Lemma all_shaped_combine l ms : all_shaped l ms ->
  length l = length ms /\ map fst (combine l ms) = l /\ map snd (combine l ms) = ms /\ Forall rshaped (combine l ms).
Proof.
  revert l. induction ms as [|m ms IH]; intros [|x l]; cbn [all_shaped]; try contradiction.
  - intros _. repeat split; constructor.
  - intros [Hx Hl]. destruct (IH l Hl) as (E1 & E2 & E3 & E4). cbn [combine map length fst snd].
    repeat split; try congruence. constructor; [exact Hx|exact E4].
Qed.

Lemma chain_shaped ds tv tm : Forall dshaped ds -> shaped tv tm ->
  shaped (build (map dvalue ds) tv) (chain_meta (map dinfo ds) tm).
Proof. induction 1 as [|d ds Hd _ IH]; intros Ht; cbn [map build chain_meta shaped]; auto. Qed.

Lemma prim_shaped v a b : is_cons v = false -> is_vector v = false -> dshaped (prim_datum v a b).
Proof. intros H1 H2. split; assumption. Qed.

Lemma symbol_value_atom ro name : is_cons (symbol_value ro name) = false /\ is_vector (symbol_value ro name) = false.
Proof. unfold symbol_value. destruct (symbol_token ro name); split; reflexivity. Qed.

Lemma list_datum_shaped ds tail a b : Forall dshaped ds -> (match tail with Some t => dshaped t | None => True end) ->
  dshaped (list_datum (ds, tail) a b).
Proof.
  intros Hds Ht. destruct ds as [|d1 ds]; cbn [list_datum].
  - apply prim_shaped; reflexivity.
  - inversion Hds as [|? ? H1 Hrest]; subst. unfold dshaped, list_meta. cbn [dvalue dinfo map build shaped].
    split; [exact H1|]. apply chain_shaped; [exact Hrest|]. destruct tail as [t|]; [exact Ht|split; reflexivity].
Qed.

Lemma quotation_shaped name q sp : dshaped q -> dshaped (quotation_datum name q sp).
Proof.
  intros Hq. unfold dshaped, quotation_datum, vlist. cbn [dvalue dinfo build shaped].
  repeat split; try reflexivity. exact Hq.
Qed.

Lemma vector_shaped els sp : Forall dshaped els ->
  dshaped {| dvalue := Vector (map dvalue els); dinfo := SVec sp (map dinfo els) |}.
Proof. intros H. unfold dshaped. cbn [dvalue dinfo]. rewrite shaped_vec. apply all_shaped_map. exact H. Qed.

(* ---- a postcondition logic on results only ---- *)
Definition post {A} (m : PM A) (q : A -> Prop) : Prop :=
  forall s, match fst (m s) with POk a => q a | PErr _ => True end.

Lemma post_bind {A B} (m : PM A) (f : A -> PM B) (p : A -> Prop) (q : B -> Prop) :
  post m p -> (forall a, p a -> post (f a) q) -> post (pbind m f) q.
Proof.
  intros Hm Hf s. rewrite pbind_unfold. specialize (Hm s).
  destruct (m s) as [[a|e] s1]; cbn [fst] in *; [|exact I]. apply (Hf a Hm s1).
Qed.
Lemma post_any {A} (m : PM A) : post m (fun _ => True).
Proof. intros s. destruct (fst (m s)); exact I. Qed.
Lemma post_bind_any {A B} (m : PM A) (f : A -> PM B) (q : B -> Prop) : (forall a, post (f a) q) -> post (pbind m f) q.
Proof. intros Hf. apply (post_bind m f (fun _ => True) q (post_any m)). intros a _. apply Hf. Qed.
Lemma post_ret {A} (a : A) (q : A -> Prop) : q a -> post (pret a) q.
Proof. intros H s. exact H. Qed.
Lemma post_fail {A} e (q : A -> Prop) : post (pfail e) q.
Proof. intros s. exact I. Qed.
Lemma post_err {A} c (q : A -> Prop) : post (liftR (peek_error (A := A) c)) q.
Proof. intros s. unfold liftR, peek_error. destruct (r_peek_position (rd s)). exact I. Qed.
Lemma post_attempt {A} (m : PM A) (p : A -> Prop) :
  post m p -> post (attempt m) (fun r => match r with Ok a => p a | Err _ => True end).
Proof.
  intros Hm s. rewrite attempt_unfold. specialize (Hm s).
  destruct (m s) as [[a|[e|k]] s1]; cbn [fst] in *; [exact Hm| |exact I]. destruct e; exact I.
Qed.
Lemma post_both {A} (r : res A) (e : res unit) (p : A -> Prop) :
  (match r with Ok a => p a | Err _ => True end) -> post (both r e) p.
Proof. intros H. destruct r as [a|er]; destruct e as [u|ee]; cbn [both]; try apply post_fail. apply post_ret. exact H. Qed.
Lemma post_lift {A} (r : res A) (p : A -> Prop) :
  (match r with Ok a => p a | Err _ => True end) -> post (lift r) p.
Proof. intros H. destruct r; cbn [lift]; [apply post_ret; exact H|apply post_fail]. Qed.

Definition opt_shaped (o : option datum) : Prop := match o with Some d => dshaped d | None => True end.

Lemma Forall_snoc' {A} (P : A -> Prop) l x : Forall P l -> P x -> Forall P (l ++ [x]).
Proof. intros Hl Hx. apply Forall_app. split; [exact Hl|repeat constructor; exact Hx]. Qed.

Section Shaped.
  Variable ro : parse_options.
  Variable alpha : N -> bool.
  Variable fast : bool.
  Variable std_parse : N -> Z -> f64.
  Local Notation next_datum := (next_datum ro alpha fast std_parse).
  Local Notation parse_list_meta := (parse_list_meta ro alpha fast std_parse).
  Local Notation parse_vector_meta := (parse_vector_meta ro alpha fast std_parse).

  Definition list_res_shaped (l : list datum * option datum) : Prop :=
    Forall dshaped (fst l) /\ match snd l with Some t => dshaped t | None => True end.

  Ltac prim_case := apply post_bind_any; intros ?e; apply post_ret; apply prim_shaped; reflexivity.

  (* every datum the location-tracking parser builds is well shaped *)
  Theorem datums_shaped fuel :
    post (next_datum fuel) opt_shaped /\
    (forall t acc, Forall dshaped acc -> post (parse_list_meta fuel t acc) list_res_shaped) /\
    (forall t acc, Forall dshaped acc -> post (parse_vector_meta fuel t acc) (Forall dshaped)).
  Proof.
    induction fuel as [|f (IHv & IHl & IHvec)].
    - split; [|split]; intros; cbn [Parser.next_datum Parser.parse_list_meta Parser.parse_vector_meta]; apply post_fail.
    - split; [|split]; intros; cbn [Parser.next_datum Parser.parse_list_meta Parser.parse_vector_meta].
      + apply post_bind_any. intros o. destruct o as [b|]; [|apply post_ret; exact I].
        apply post_bind_any. intros start. apply post_bind_any. intros tok. cbv zeta.
        destruct tok; try prim_case.
        * (* list *)
          apply post_bind_any. intros _.
          eapply post_bind; [apply post_attempt; apply (IHl _ []); constructor|]. intros r Hr.
          apply post_bind_any. intros _. apply post_bind_any. intros e.
          eapply post_bind; [apply post_both; exact Hr|]. intros l Hl.
          apply post_bind_any. intros e_pos. apply post_ret. cbn [opt_shaped].
          destruct l as [ds tail]. destruct Hl as [H1 H2]. apply list_datum_shaped; assumption.
        * (* quotation *)
          apply post_bind_any. intros token_end. apply post_bind_any. intros _.
          eapply post_bind; [apply post_attempt; exact IHv|]. intros r Hr.
          apply post_bind_any. intros _.
          eapply post_bind; [apply post_lift; exact Hr|]. intros o Ho.
          destruct o as [d|]; [|apply post_err]. apply post_ret. cbn [opt_shaped]. apply quotation_shaped. exact Ho.
        * (* vector *)
          apply post_bind_any. intros _.
          eapply post_bind; [apply post_attempt; apply (IHvec _ []); constructor|]. intros r Hr.
          apply post_bind_any. intros _. apply post_bind_any. intros e.
          eapply post_bind; [apply post_both; exact Hr|]. intros els Hels.
          apply post_bind_any. intros e_pos. apply post_ret. cbn [opt_shaped]. apply vector_shaped. exact Hels.
        * (* byte vector *)
          apply post_bind_any. intros bs. prim_case.
      + apply post_bind_any. intros o. destruct o as [c|]; [|apply post_err].
        destruct (is_closer c).
        { destruct (negb (c =? t)); [apply post_err|]. apply post_ret. split; [assumption|exact I]. }
        destruct (c =? 46).
        { apply post_bind_any. intros start. apply post_bind_any. intros nx.
          destruct (lone_dot nx).
          - destruct acc as [|x acc'].
            + apply post_bind_any. intros o3. destruct o3; apply post_err.
            + eapply post_bind; [exact IHv|]. intros od Hod.
              destruct od as [cdr|]; [|apply post_err].
              apply post_bind_any. intros o2. destruct o2 as [c2|]; [|apply post_err].
              destruct (c2 =? t); [|apply post_err]. apply post_ret. split; assumption.
          - apply post_bind_any. intros name. apply post_bind_any. intros e.
            apply IHl. apply Forall_snoc'; [assumption|]. apply prim_shaped; apply symbol_value_atom. }
        eapply post_bind; [exact IHv|]. intros od Hod.
        destruct od as [d|]; [|apply post_err]. apply IHl. apply Forall_snoc'; assumption.
      + apply post_bind_any. intros o. destruct o as [c|]; [|apply post_err].
        destruct (is_closer c).
        { destruct (negb (c =? t)); [apply post_err|]. apply post_ret. assumption. }
        eapply post_bind; [exact IHv|]. intros od Hod.
        destruct od as [d|]; [|apply post_err]. apply IHvec. apply Forall_snoc'; assumption.
  Qed.

  Theorem next_datum_shaped fuel s d s' : next_datum fuel s = (POk (Some d), s') -> dshaped d.
  Proof. intros E. pose proof (proj1 (datums_shaped fuel) s) as H. rewrite E in H. exact H. Qed.

  Theorem datum_from_trait_shaped k inp d : datum_from_trait ro alpha fast std_parse k inp = POk d -> dshaped d.
  Proof.
    intros E. unfold datum_from_trait in E. set (fuel := fuel_for inp) in *.
    assert (Hp : post (pbind (expect_datum ro alpha fast std_parse fuel) (fun d => pbind (expect_end_p fuel) (fun _ => pret d))) dshaped).
    { eapply post_bind.
      - unfold expect_datum. eapply post_bind; [apply (proj1 (datums_shaped fuel))|].
        intros o Ho. destruct o as [d0|]; [apply post_ret; exact Ho|apply post_err].
      - intros d0 Hd0. apply post_bind_any. intros _. apply post_ret. exact Hd0. }
    specialize (Hp (init_state k inp)). rewrite E in Hp. exact Hp.
  Qed.

  (* every item of a datum iteration, and every datum in any call history *)
  Theorem iterate_datums_shaped fuel n s : Forall (fun r => match r with POk d => dshaped d | PErr _ => True end)
                                                  (iterate_datums ro alpha fast std_parse fuel n s).
  Proof.
    revert s. induction n as [|n IH]; intros s; cbn [iterate_datums]; [constructor|].
    pose proof (proj1 (datums_shaped fuel) s) as H.
    destruct (next_datum fuel s) as [[[d|]|e] s1]; cbn [fst] in H; [constructor; [exact H|apply IH]|constructor|constructor; [exact I|apply IH]].
  Qed.
End Shaped.

(* ---- the accessors on well-shaped references ---- *)
Definition cur_shaped (c : ref_cursor) : Prop :=
  match c with
  | RCons a d ia id => shaped a ia /\ shaped d id
  | RDot v i | RRest v i => shaped v i
  | RExhausted => True
  end.
(* the value-level cursor a reference cursor corresponds to *)
Definition cur_val (c : ref_cursor) : list_cursor :=
  match c with
  | RCons a d _ _ => LCons a d
  | RDot v _ => LDot v
  | RRest v _ => LRest v
  | RExhausted => LExhausted
  end.

(* list_iter is available exactly when the value's is, and starts in lockstep *)
Theorem ref_list_iter_agrees r : rshaped r ->
  match ref_list_iter r, value_list_iter (fst r) with
  | Some c, Some vc => cur_val c = vc /\ cur_shaped c
  | None, None => True
  | _, _ => False
  end.
Proof.
  destruct r as [v i]. unfold rshaped. cbn [fst snd].
  destruct i as [sp|sp ia id|sp ms]; destruct v; cbn [shaped ref_list_iter value_list_iter]; try tauto;
    try (intros [H1 H2]; discriminate).
  all: intros H; cbn [cur_val cur_shaped]; repeat split; try reflexivity; tauto.
Qed.

(* one step: no panic, the same item as the value iterator, lockstep kept *)
Theorem ref_list_next_agrees c : cur_shaped c ->
  exists o c', ref_list_next c = Val (o, c') /\
               list_iter_next (cur_val c) = (option_map fst o, cur_val c') /\
               cur_shaped c' /\ (match o with Some r => rshaped r | None => True end).
Proof.
  destruct c as [a d ia id|v i|v i|]; cbn [cur_shaped ref_list_next cur_val list_iter_next].
  - intros [Ha Hd]. destruct id as [sp|sp ia' id'|sp ms]; cbn [shaped] in Hd.
    + destruct Hd as [Hc Hv]. destruct (is_null d) eqn:En.
      * destruct d; try discriminate. eexists _, _. repeat split; try reflexivity. exact Ha.
      * eexists _, _. split; [reflexivity|]. split; [destruct d; try discriminate; reflexivity|].
        split; [cbn [cur_shaped shaped]; auto|exact Ha].
    + destruct d as [| | | | | | | | |a' d'|]; try contradiction. destruct Hd as [Ha' Hd'].
      eexists _, _. repeat split; try reflexivity; auto.
    + destruct d; try contradiction. eexists _, _. repeat split; try reflexivity; auto.
  - intros H. eexists _, _. repeat split; try reflexivity; auto.
  - intros H. eexists _, _. repeat split; try reflexivity; auto.
  - intros _. eexists _, _. repeat split; reflexivity.
Qed.

(* any number of steps: never a panic, the items are the value iterator's items *)
Theorem ref_drain_agrees n : forall c, cur_shaped c ->
  exists items, ref_drain n c = Val items /\ map (option_map fst) items = drain n (cur_val c) /\
                Forall (fun o => match o with Some r => rshaped r | None => True end) items.
Proof.
  induction n as [|n IH]; intros c Hc; cbn [ref_drain drain].
  - exists []. repeat split; constructor.
  - destruct (ref_list_next_agrees c Hc) as (o & c' & E & Ev & Hc' & Ho). rewrite E, Ev.
    destruct (IH c' Hc') as (items & Ei & Em & Hi). rewrite Ei. exists (o :: items).
    split; [reflexivity|]. split; [cbn [map]; rewrite Em; reflexivity|constructor; assumption].
Qed.

(* vector_iter yields every element with its own span information *)
Theorem ref_vector_iter_agrees r : rshaped r ->
  match ref_vector_iter r, fst r with
  | Some items, Vector els => map fst items = els /\ length items = length els /\ Forall rshaped items
  | None, Vector _ => False
  | Some _, _ => False
  | None, _ => True
  end.
Proof.
  destruct r as [v i]. unfold rshaped. cbn [fst snd].
  destruct v as [| | | | | | | | | |l];
    try (destruct i as [sp|sp ia id|sp ms]; cbn [shaped ref_vector_iter]; intros H; try exact I; tauto).
  destruct i as [sp|sp ia id|sp ms]; cbn [ref_vector_iter].
  - cbn [shaped]. intros [_ H]. discriminate H.
  - cbn [shaped]. tauto.
  - rewrite shaped_vec. intros H. destruct (all_shaped_combine l ms H) as (E1 & E2 & E3 & E4).
    split; [exact E2|]. split; [transitivity (Nat.min (length l) (length ms)); [apply combine_length|rewrite <- E1; apply Nat.min_id]|exact E4].
Qed.

(* as_pair never panics and agrees with Value::as_pair *)
Theorem ref_as_pair_agrees r : rshaped r ->
  match ref_as_pair r, fst r with
  | Val (Some (ra, rd)), Cons a d => fst ra = a /\ fst rd = d /\ rshaped ra /\ rshaped rd
  | Val None, Cons _ _ => False
  | Val None, _ => True
  | Val (Some _), _ => False
  | Panic, _ => False
  end.
Proof.
  destruct r as [v i]. unfold rshaped, ref_as_pair. cbn [fst snd].
  destruct v; try (intros _; exact I).
  destruct i as [sp|sp ia id|sp ms]; cbn [shaped].
  - intros [H1 H2]. discriminate H1.
  - intros [H1 H2]. repeat split; assumption.
  - tauto.
Qed.

(* references reachable through the accessors *)
Inductive reach : dref -> dref -> Prop :=
| reach_refl r : reach r r
| reach_list r c n items r' r'' : ref_list_iter r = Some c -> ref_drain n c = Val items -> In (Some r') items ->
    reach r' r'' -> reach r r''
| reach_vec r items r' r'' : ref_vector_iter r = Some items -> In r' items -> reach r' r'' -> reach r r''
| reach_car r ra rd r'' : ref_as_pair r = Val (Some (ra, rd)) -> reach ra r'' -> reach r r''
| reach_cdr r ra rd r'' : ref_as_pair r = Val (Some (ra, rd)) -> reach rd r'' -> reach r r''.

Theorem reach_shaped r r' : reach r r' -> rshaped r -> rshaped r'.
Proof.
  induction 1 as [r|r c n items r' r'' Ei Ed Hin _ IH|r items r' r'' Ev Hin _ IH|r ra rd r'' Ep _ IH|r ra rd r'' Ep _ IH]; intros Hr.
  - exact Hr.
  - apply IH. pose proof (ref_list_iter_agrees r Hr) as H. rewrite Ei in H.
    destruct (value_list_iter (fst r)); [|contradiction]. destruct H as [_ Hc].
    destruct (ref_drain_agrees n c Hc) as (items' & E' & _ & Hall). rewrite Ed in E'. inversion E'; subst items'.
    rewrite Forall_forall in Hall. exact (Hall _ Hin).
  - apply IH. pose proof (ref_vector_iter_agrees r Hr) as H. rewrite Ev in H.
    destruct (fst r); try contradiction. destruct H as (_ & _ & Hall). rewrite Forall_forall in Hall. exact (Hall _ Hin).
  - apply IH. pose proof (ref_as_pair_agrees r Hr) as H. rewrite Ep in H. destruct (fst r); try contradiction. apply H.
  - apply IH. pose proof (ref_as_pair_agrees r Hr) as H. rewrite Ep in H. destruct (fst r); try contradiction. apply H.
Qed.
