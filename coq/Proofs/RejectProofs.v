(* C03: input nested more deeply than the budget is rejected with
   RecursionLimitExceeded - not merely "not accepted". Any run of 128 or more
   nesting openers ( [ #( ' ` , ,@ in any mixture, whatever follows, under
   every option set and from every source, makes the entry points return that
   error; at every call, a run of D openers exhausts a budget of D. The first
   error raised inside a nested form is the one reported (the recovery code
   runs end_seq but keeps the body's error), so the limit error raised at the
   innermost opener travels out unchanged. *)
From Coq Require Import SpecFloat Lia ZifyBool ZifyNat ZifyN.
Require Import Base Value Float PrintOptions ParseOptions Utf8 Reader Scan Num NumberOps Parser.
Require Import ReaderProofs TokenProofs OptionProofs RelFramework SpanProofs FuelProofs FloatFuel.

Inductive opener := OParen | OBracket | OVec | OQuote | OQuasi | OUnq | OUnqSplice.
Definition otext (o : opener) : bytes :=
  match o with
  | OParen => [40] | OBracket => [91] | OVec => [35; 40] | OQuote => [39] | OQuasi => [96] | OUnq => [44] | OUnqSplice => [44; 64]
  end.
Definition ohead (o : opener) : N := match o with OParen => 40 | OBracket => 91 | OVec => 35 | OQuote => 39 | OQuasi => 96 | _ => 44 end.
Definition otail (o : opener) : bytes := match o with OVec => [40] | OUnqSplice => [64] | _ => [] end.
Definition otexts (ops : list opener) : bytes := concat (map otext ops).
Lemma otext_split o : otext o = ohead o :: otail o.
Proof. destruct o; reflexivity. Qed.

Definition nesting (t : token) : Prop :=
  match t with TListOpen _ | TVecOpen _ | TQuotation _ => True | _ => False end.
Definition limit_err {A} (x : pres A) : Prop :=
  match x with PErr (XErr (ESyntax RecursionLimitExceeded _ _)) => True | _ => False end.

Section Reject.
  Variable ro : parse_options.
  Variable alpha : N -> bool.
  Variable fast : bool.
  Variable std_parse : N -> Z -> f64.
  Local Notation ptok := (parse_token ro alpha fast std_parse).
  Local Notation nv := (next_value ro alpha fast std_parse).
  Local Notation pl := (parse_list ro alpha fast std_parse).
  Local Notation pv := (parse_vector ro alpha fast std_parse).

  Lemma ohead_starts o : starts_datum (ohead o).
  Proof. destruct o; split; try reflexivity; discriminate. Qed.

  (* the token an opener starts is a nesting token; unless a ',' meets a following '@', exactly its text is consumed *)
  Lemma opener_token f o l r : at_bytes r (otext o ++ l) -> peeked r ->
    exists tok r', ptok f (ohead o) r = (Ok tok, r') /\ nesting tok /\
      ((o = OUnq -> match l with 64 :: _ => False | _ => True end) -> at_bytes r' l).
  Proof.
    intros Ha Hp. destruct o; cbn [otext app ohead] in *.
    - rewrite (token_paren_any alpha fast std_parse ro f). step. unfold ret. eexists; eexists; split; [reflexivity|]. split; [exact I|auto].
    - rewrite (token_bracket_any alpha fast std_parse ro f). step. destruct (ro_brackets ro); unfold ret; eexists; eexists; (split; [reflexivity|]); (split; [exact I|auto]).
    - unfold Parser.parse_token. change (35 =? 35) with true. cbv iota. step. step. cbv beta iota.
      change (40 =? 116) with false. change (40 =? 102) with false. change (40 =? 110) with false. change (40 =? 40) with true. cbv iota.
      unfold ret. eexists; eexists; split; [reflexivity|]. split; [exact I|auto].
    - rewrite (token_quote_any alpha fast std_parse ro f). step. unfold ret. eexists; eexists; split; [reflexivity|]. split; [exact I|auto].
    - rewrite (token_quasiquote_any alpha fast std_parse ro f). step. unfold ret. eexists; eexists; split; [reflexivity|]. split; [exact I|auto].
    - rewrite (token_unquote_any alpha fast std_parse ro f). step. destruct l as [|nx l'].
      + step. change (0 =? 64) with false. cbv iota. unfold ret. eexists; eexists; split; [reflexivity|]. split; [exact I|auto].
      + step. destruct (nx =? 64) eqn:E64.
        * step. unfold ret. eexists; eexists; split; [reflexivity|]. split; [exact I|].
          intros Hc. exfalso. apply N.eqb_eq in E64. subst nx. exact (Hc eq_refl).
        * unfold ret. eexists; eexists; split; [reflexivity|]. split; [exact I|auto].
    - rewrite (token_unquote_any alpha fast std_parse ro f). step. step. change (64 =? 64) with true. cbv iota. step.
      unfold ret. eexists; eexists; split; [reflexivity|]. split; [exact I|auto].
  Qed.
  Definition mk (r : reader) (D : N) : pstate := {| rd := r; depth := D |}.
  Let Hfp := f64_from_parts_ok fast std_parse.

  Lemma enter_fails r : exists l c, enter_nesting (mk r 1) = (PErr (XErr (ESyntax RecursionLimitExceeded l c)), mk r 1).
  Proof.
    unfold enter_nesting, dec_depth, inc_depth, pbind, get_depth, set_depth, mk, liftR, peek_error, panic, pfail, pret. cbn.
    destruct (r_peek_position r) as [l c]. exists l, c. reflexivity.
  Qed.
  Lemma enter_ok r D : 2 <= D -> enter_nesting (mk r D) = (POk tt, mk r (D - 1)).
  Proof.
    intros HD. unfold enter_nesting, dec_depth, pbind, get_depth, set_depth, mk. cbn [depth rd].
    replace (D =? 0) with false by lia. cbn [depth rd]. replace (D - 1 =? 0) with false by lia. reflexivity.
  Qed.
  Lemma inc_ok r D : D < 255 -> inc_depth (mk r D) = (POk tt, mk r (D + 1)).
  Proof. intros HD. unfold inc_depth, pbind, get_depth, set_depth, mk. cbn [depth rd]. replace (255 <=? D) with false by lia. reflexivity. Qed.

  (* the reader never gains events: for any fuel *)
  Lemma nv_rem f s : (rem (rd (snd (nv f s))) <= rem (rd s))%nat.
  Proof.
    exact (proj1 (psat_values Rrem Rrem_ret Rrem_seq Rrem_fuel rem_peek rem_next rem_eat rem_error rem_peek_error rem_error_consume
                    rem_take_run rem_take_symbol fast std_parse ro alpha Rrem_rec1 Rrem_rec2 f) s).
  Qed.

  Lemma is_closer_ohead o : is_closer (ohead o) = false.
  Proof. destruct o; reflexivity. Qed.
  Lemma ohead_not_dot o : (ohead o =? 46) = false.
  Proof. destruct o; reflexivity. Qed.
  Lemma ohead_not_at o : ohead o <> 64.
  Proof. destruct o; discriminate. Qed.

  Lemma at_bytes_rem r l : at_bytes r l -> rem r = length l.
  Proof. unfold at_bytes, rem, bytes_events. intros ->. apply map_length. Qed.

  (* what happens after the body of a nested form failed with a syntax error e0 (lists and vectors) *)
  Lemma after_body_error {A B} f close (k : A -> PM B) c l cl s D : depth s = D - 1 -> 1 <= D <= 128 -> (S (rem (rd s)) < f)%nat ->
    exists s', pbind inc_depth (fun _ => pbind (attempt (liftR (end_seq f close))) (fun e => pbind (both (Err (ESyntax c l cl)) e) k)) s
               = (PErr (XErr (ESyntax c l cl)), s') /\ depth s' = D.
  Proof.
    intros Hd HD Hf. destruct s as [r d]. cbn [depth rd] in *. subst d. rewrite pbind_unfold.
    change {| rd := r; depth := D - 1 |} with (mk r (D - 1)). rewrite (inc_ok r (D - 1) ltac:(lia)). replace (D - 1 + 1) with D by lia.
    rewrite pbind_unfold, attempt_unfold. unfold liftR, mk. cbn [rd depth].
    destruct (ok_end_seq alpha fast std_parse Hfp f close (rem r) Hf r (le_n _)) as [Hne _].
    destruct (end_seq f close r) as [[u|[c2 l2 cl2|io|]] r']; cbn [fst] in Hne.
    - rewrite pbind_unfold. cbn [both pfail fst snd]. eexists. split; [reflexivity|reflexivity].
    - rewrite pbind_unfold. cbn [both pfail fst snd]. eexists. split; [reflexivity|reflexivity].
    - rewrite pbind_unfold. cbn [both pfail fst snd]. eexists. split; [reflexivity|reflexivity].
    - exfalso. apply Hne. reflexivity.
  Qed.

  Lemma otexts_cons_len o ops rest : length (otexts (o :: ops) ++ rest) = (length (otext o) + length (otexts ops ++ rest))%nat.
  Proof. unfold otexts. cbn [map concat]. rewrite <- app_assoc, app_length. reflexivity. Qed.
  Lemma otext_len o : (1 <= length (otext o))%nat.
  Proof. destruct o; cbn; lia. Qed.

  Theorem openers_exhaust : forall ops f r rest, ops <> [] -> N.of_nat (length ops) <= 128 ->
    (2 * length ops + length (otexts ops ++ rest) + 3 <= f)%nat -> at_bytes r (otexts ops ++ rest) ->
    exists l c s', nv f (mk r (N.of_nat (length ops))) = (PErr (XErr (ESyntax RecursionLimitExceeded l c)), s') /\
                   depth s' = N.of_nat (length ops).
  Proof.
    induction ops as [|o ops IH]; intros f r rest Hne HD Hf Ha; [contradiction|].
    set (D := N.of_nat (length (o :: ops))) in *.
    destruct f as [|f1]; [cbn in Hf; lia|]. cbn [Parser.next_value].
    unfold otexts in Ha. cbn [map concat] in Ha. rewrite otext_split in Ha. rewrite <- !app_assoc in Ha. cbn [app] in Ha.
    fold (otexts ops) in Ha.
    destruct (ws_here f1 r (ohead o) (otail o ++ otexts ops ++ rest) ltac:(lia) Ha (ohead_starts o)) as (r1 & Ew & Ha1 & Hp1 & _).
    rewrite pbind_unfold. unfold liftR at 1. cbn [rd depth mk]. rewrite Ew. cbn [mk].
    assert (Ha1' : at_bytes r1 (otext o ++ otexts ops ++ rest)) by (rewrite otext_split; exact Ha1).
    destruct (opener_token f1 o (otexts ops ++ rest) r1 Ha1' Hp1) as (tok & r2 & Et & Hnest & Hl).
    rewrite pbind_unfold. unfold liftR at 1. cbn [rd depth]. rewrite Et.
    change {| rd := r2; depth := D |} with (mk r2 D).
    destruct ops as [|o2 ops'].
    - (* the innermost opener: the budget is spent *)
      change D with 1. destruct (enter_fails r2) as (l & c & Ee).
      destruct tok; try contradiction; rewrite pbind_unfold, Ee; exists l, c, (mk r2 1); split; reflexivity.
    - assert (HD2 : 2 <= D) by (unfold D; cbn [length]; lia).
      assert (Ha2 : at_bytes r2 (otexts (o2 :: ops') ++ rest)).
      { apply Hl. intros ->. unfold otexts. cbn [map concat]. destruct o2; exact I. }
      assert (Hf' : (2 * length (o2 :: ops') + length (otexts (o2 :: ops') ++ rest) + 5 <= S f1)%nat).
      { rewrite (otexts_cons_len o (o2 :: ops') rest) in Hf. pose proof (otext_len o). cbn [length] in Hf |- *. lia. }
      replace (N.of_nat (length (o2 :: ops'))) with (D - 1) in IH by (unfold D; cbn [length]; lia).
      assert (HD' : D - 1 <= 128) by lia.
      destruct tok as [| | | | | | | | |close|name|close|]; try contradiction.
      + (* list *)
        rewrite pbind_unfold, (enter_ok r2 D HD2). rewrite pbind_unfold, attempt_unfold.
        destruct f1 as [|f2]; [cbn [length] in Hf'; lia|]. cbn [Parser.parse_list].
        unfold otexts in Ha2. cbn [map concat] in Ha2. rewrite otext_split in Ha2. rewrite <- !app_assoc in Ha2. cbn [app] in Ha2. fold (otexts ops') in Ha2.
        destruct (ws_here f2 r2 (ohead o2) _ ltac:(cbn [length] in Hf'; lia) Ha2 (ohead_starts o2)) as (r3 & Ew3 & Ha3 & Hp3 & _).
        rewrite pbind_unfold. unfold liftR at 1. cbn [rd depth mk]. rewrite Ew3. rewrite is_closer_ohead, ohead_not_dot.
        change {| rd := r3; depth := D - 1 |} with (mk r3 (D - 1)).
        assert (Ha3' : at_bytes r3 (otexts (o2 :: ops') ++ rest)).
        { unfold otexts. cbn [map concat]. rewrite otext_split. rewrite <- !app_assoc. cbn [app]. exact Ha3. }
        destruct (IH f2 r3 rest ltac:(discriminate) HD' ltac:(cbn [length] in Hf' |- *; lia) Ha3') as (l & cl & s3 & E3 & Hdep).
        pose proof (nv_rem f2 (mk r3 (D - 1))) as Hrem. rewrite E3 in Hrem. cbn [snd] in Hrem. rewrite (pbind_unfold (nv f2)), E3.
        destruct (after_body_error (A := value) (B := option value) (S f2) close (fun l0 => pret (Some l0)) RecursionLimitExceeded l cl s3 D Hdep ltac:(lia)
                    ltac:(cbn [rd mk] in Hrem; rewrite (at_bytes_rem r3 _ Ha3') in Hrem; cbn [length] in Hf'; lia)) as (s4 & E4 & Hd4).
        rewrite E4. exists l, cl, s4. split; [reflexivity|exact Hd4].
      + (* quotation *)
        rewrite pbind_unfold, (enter_ok r2 D HD2). rewrite pbind_unfold, attempt_unfold.
        destruct (IH f1 r2 rest ltac:(discriminate) HD' ltac:(cbn [length] in Hf' |- *; lia) Ha2) as (l & cl & s3 & E3 & Hdep).
        rewrite E3. destruct s3 as [r3 d3]. cbn [depth] in Hdep. subst d3. rewrite pbind_unfold.
        change {| rd := r3; depth := D - 1 |} with (mk r3 (D - 1)). rewrite (inc_ok r3 (D - 1) ltac:(lia)). replace (D - 1 + 1) with D by lia.
        rewrite pbind_unfold. cbn [lift pfail]. exists l, cl, (mk r3 D). split; reflexivity.
      + (* vector *)
        rewrite pbind_unfold, (enter_ok r2 D HD2). rewrite pbind_unfold, attempt_unfold.
        destruct f1 as [|f2]; [cbn [length] in Hf'; lia|]. cbn [Parser.parse_vector].
        unfold otexts in Ha2. cbn [map concat] in Ha2. rewrite otext_split in Ha2. rewrite <- !app_assoc in Ha2. cbn [app] in Ha2. fold (otexts ops') in Ha2.
        destruct (ws_here f2 r2 (ohead o2) _ ltac:(cbn [length] in Hf'; lia) Ha2 (ohead_starts o2)) as (r3 & Ew3 & Ha3 & Hp3 & _).
        rewrite pbind_unfold. unfold liftR at 1. cbn [rd depth mk]. rewrite Ew3. rewrite is_closer_ohead.
        change {| rd := r3; depth := D - 1 |} with (mk r3 (D - 1)).
        assert (Ha3' : at_bytes r3 (otexts (o2 :: ops') ++ rest)).
        { unfold otexts. cbn [map concat]. rewrite otext_split. rewrite <- !app_assoc. cbn [app]. exact Ha3. }
        destruct (IH f2 r3 rest ltac:(discriminate) HD' ltac:(cbn [length] in Hf' |- *; lia) Ha3') as (l & cl & s3 & E3 & Hdep).
        pose proof (nv_rem f2 (mk r3 (D - 1))) as Hrem. rewrite E3 in Hrem. cbn [snd] in Hrem. rewrite (pbind_unfold (nv f2)), E3.
        destruct (after_body_error (A := list value) (B := option value) (S f2) close (fun els => pret (Some (Vector els))) RecursionLimitExceeded l cl s3 D Hdep ltac:(lia)
                    ltac:(cbn [rd mk] in Hrem; rewrite (at_bytes_rem r3 _ Ha3') in Hrem; cbn [length] in Hf'; lia)) as (s4 & E4 & Hd4).
        rewrite E4. exists l, cl, s4. split; [reflexivity|exact Hd4].
  Qed.

  Lemma otexts_app a b : otexts (a ++ b) = otexts a ++ otexts b.
  Proof. unfold otexts. rewrite map_app, concat_app. reflexivity. Qed.

  (* the entry points: 128 or more openers, whatever follows *)
  Theorem over_deep_rejected k ops rest : (128 <= length ops)%nat ->
    exists l c, from_trait ro alpha fast std_parse k (bytes_events (otexts ops ++ rest)) = PErr (XErr (ESyntax RecursionLimitExceeded l c)).
  Proof.
    intros Hlen. rewrite <- (firstn_skipn 128 ops), otexts_app, <- app_assoc.
    set (ops1 := firstn 128 ops). set (rest' := otexts (skipn 128 ops) ++ rest).
    assert (H128 : length ops1 = 128%nat) by (unfold ops1; rewrite firstn_length; lia).
    unfold from_trait. cbv zeta. set (inp := bytes_events (otexts ops1 ++ rest')).
    assert (Hinp : length inp = length (otexts ops1 ++ rest')) by (unfold inp, bytes_events; apply map_length).
    destruct (openers_exhaust ops1 (fuel_for inp) (mk_reader k inp) rest'
                ltac:(intros E; rewrite E in H128; discriminate) ltac:(rewrite H128; reflexivity)
                ltac:(unfold fuel_for; rewrite H128, Hinp; lia) ltac:(reflexivity)) as (l & c & s' & E & Hd).
    exists l, c. rewrite pbind_unfold. unfold expect_value. rewrite pbind_unfold.
    change (init_state k inp) with (mk (mk_reader k inp) initial_depth).
    rewrite H128 in E. change (N.of_nat 128) with initial_depth in E. rewrite E. reflexivity.
  Qed.
End Reject.
