(* C02, the Emacs Lisp pairing: text printed under print::Options::elisp(),
   read under parse::Options::elisp() from a str, a byte slice or a stream,
   gives the value back up to the documented folding: Nil, false and the symbol
   nil become the empty list, true becomes the symbol t, an empty byte vector
   the empty string. *)
From Coq Require Import SpecFloat ZifyBool ZifyNat ZifyN.
Require Import Base Value Float PrintOptions Printer ParseOptions Utf8 Reader Scan Num NumberOps Parser Depth.
Require Import ReaderProofs ScanProofs TextProofs TokenProofs NumTokenProofs CharStrProofs DepthProofs RoundtripProofs.
Require Import ElispText ElispTokens ElispStrings.

(* ---- the documented folding ---- *)
Fixpoint efold (v : value) : value :=
  match v with
  | Nil => Null
  | Bool b => if b then Symbol (s2b "t") else Null
  | Symbol s => if beq_bytes s (s2b "nil") then Null else Symbol s
  | Bytes b => match b with [] => String [] | _ => Bytes b end
  | Cons a d => Cons (efold a) (efold d)
  | Vector l => Vector (map efold l)
  | _ => v
  end.

(* identifiers that are one symbol token under the Emacs Lisp options: an ASCII
   letter or one of !$%&*./<=>@^_~ first, or a sign as in the default dialect *)
Definition eplain_symbol (s : bytes) : Prop :=
  no_terminator s /\ symbol_ok s /\
  match s with
  | [] => False
  | c :: s' =>
      (is_ascii_alpha c = true \/ In c eext_initial)
      \/ ((c = 43 \/ c = 45) /\ match s' with [] => True | c2 :: _ => sign_next_ok c2 = true end)
  end.

Fixpoint ert_ok (v : value) : Prop :=
  match v with
  | Nil | Null | Bool _ => True
  | Number (PosInt n) => n <= u64_MAX
  | Number (NegInt i) => (i64_min <= i < 0)%Z
  | Number (Float _) => False
  | Char c => is_scalar c = true
  | String s => utf8_valid s = true
  | Symbol s => eplain_symbol s
  | Keyword s => no_terminator s /\ symbol_ok s
  | Bytes b => octets_ok b
  | Cons a d => ert_ok a /\ ert_ok d
  | Vector l => (fix all (l : list value) : Prop :=
                   match l with [] => True | x :: l' => ert_ok x /\ all l' end) l
  end.
Definition all_ert_ok : list value -> Prop :=
  fix all (l : list value) : Prop := match l with [] => True | x :: l' => ert_ok x /\ all l' end.

Section ElispRoundtrip.
  Variable ryu : f64 -> bytes.
  Variable alpha : N -> bool.
  Variable fast : bool.
  Variable std_parse : N -> Z -> f64.
  Local Notation ro := elisp_ro.
  Local Notation parse_token := (parse_token ro alpha fast std_parse).
  Local Notation next_value := (next_value ro alpha fast std_parse).
  Local Notation parse_list := (parse_list ro alpha fast std_parse).
  Local Notation parse_vector := (parse_vector ro alpha fast std_parse).
  Local Notation txt := (etxt ryu).
  Local Notation txt_tail := (etxt_tail ryu).
  Local Notation vec_elems := (evec_elems ryu).

  (* what next_value does with a token *)
  Definition after_token (f : nat) (tok : token) : PM (option value) :=
    match tok with
    | TNil => pret (Some Nil)
    | TNull => pret (Some Null)
    | TChar c => pret (Some (Char c))
    | TBool b => pret (Some (Bool b))
    | TNumber n => pret (Some (Number n))
    | TSymbol s => pret (Some (Symbol s))
    | TKeyword s => pret (Some (Keyword s))
    | TString s => pret (Some (String s))
    | TBytes b => pret (Some (Bytes b))
    | TByteVecOpen close => pbind (liftR (parse_byte_list fast std_parse f close)) (fun b => pret (Some (Bytes b)))
    | TVecOpen close =>
        pbind enter_nesting (fun _ =>
        pbind (attempt (parse_vector f close [])) (fun r =>
        pbind inc_depth (fun _ =>
        pbind (attempt (liftR (end_seq f close))) (fun e =>
        pbind (both r e) (fun els => pret (Some (Vector els)))))))
    | TListOpen close =>
        pbind enter_nesting (fun _ =>
        pbind (attempt (parse_list f close [])) (fun r =>
        pbind inc_depth (fun _ =>
        pbind (attempt (liftR (end_seq f close))) (fun e =>
        pbind (both r e) (fun l => pret (Some l))))))
    | TQuotation name =>
        pbind enter_nesting (fun _ =>
        pbind (attempt (next_value f)) (fun r =>
        pbind inc_depth (fun _ =>
        pbind (lift r) (fun o =>
        match o with
        | Some d => pret (Some (vlist [Symbol name; d]))
        | None => liftR (peek_error EofWhileParsingList)
        end))))
    end.

  Lemma next_value_S f :
    next_value (S f) =
    pbind (liftR (parse_whitespace f)) (fun o =>
      match o with
      | None => pret None
      | Some b => pbind (liftR (parse_token f b)) (fun tok => after_token f tok)
      end).
  Proof. reflexivity. Qed.

  (* what may precede a datum: any whitespace and line comments *)
  Definition pre_ok (pre : bytes) : Prop := trivia pre.
  Lemma pre_nil : pre_ok []. Proof. constructor. Qed.
  Lemma pre_space : pre_ok [32]. Proof. apply tv_ws; [reflexivity|constructor]. Qed.

  Lemma ws_pre f r pre b l : (length pre + 2 <= f)%nat -> pre_ok pre -> at_bytes r (pre ++ b :: l) -> starts_datum b ->
    exists r', parse_whitespace f r = (Ok (Some b), r') /\ at_bytes r' (b :: l) /\ peeked r' /\ rk r' = rk r.
  Proof. intros Hf Hpre Ha Hb. apply (ws_trivia pre Hpre); auto. lia. Qed.

  (* skip to the token, read it, continue with the value it stands for *)
  Lemma next_value_at f r D pre b l :
    (length pre + 2 <= f)%nat -> pre_ok pre -> at_bytes r (pre ++ b :: l) -> starts_datum b ->
    exists r0, at_bytes r0 (b :: l) /\ peeked r0 /\ rk r0 = rk r /\
      forall tok r1, parse_token f b r0 = (Ok tok, r1) ->
                     next_value (S f) (mkp r D) = after_token f tok (mkp r1 D).
  Proof.
    intros Hf Hpre Ha Hb.
    destruct (ws_pre f r pre b l Hf Hpre Ha Hb) as (r0 & E0 & Ha0 & Hp0 & Hk0).
    exists r0. repeat split; auto. intros tok r1 Etok. rewrite next_value_S.
    rewrite (pbind_eq _ _ _ _ _ (liftR_ok _ r D _ _ E0)).
    rewrite (pbind_eq _ _ _ _ _ (liftR_ok _ r0 D _ _ Etok)). reflexivity.
  Qed.

  Lemma parse_list_S f t acc :
    parse_list (S f) t acc =
    pbind (liftR (parse_whitespace f)) (fun o =>
      match o with
      | None => liftR (peek_error EofWhileParsingList)
      | Some c =>
          if is_closer c then
            (if negb (c =? t) then liftR (peek_error MismatchedParenthesis) else pret (build acc Null))
          else if c =? 46 then
            pbind (liftR (eat_char ;;; peek)) (fun nx =>
            if lone_dot nx then
              match acc with
              | [] =>
                  pbind (liftR peek) (fun o3 =>
                  match o3 with
                  | Some _ => liftR (peek_error ExpectedSomeValue)
                  | None => liftR (peek_error EofWhileParsingList)
                  end)
              | _ =>
                  pbind (next_value f) (fun ov =>
                  match ov with
                  | None => liftR (peek_error EofWhileParsingValue)
                  | Some cdr =>
                      pbind (liftR (parse_whitespace f)) (fun o2 =>
                      match o2 with
                      | Some c2 => if c2 =? t then pret (build acc cdr)
                                   else liftR (peek_error TrailingCharacters)
                      | None => liftR (peek_error EofWhileParsingList)
                      end)
                  end)
              end
            else
              pbind (liftR (parse_symbol_suffix f [46])) (fun name =>
              parse_list f t (acc ++ [symbol_value ro name])))
          else
            pbind (next_value f) (fun ov =>
            match ov with
            | None => liftR (peek_error EofWhileParsingValue)
            | Some v => parse_list f t (acc ++ [v])
            end)
      end).
  Proof. reflexivity. Qed.

  Lemma parse_vector_S f t acc :
    parse_vector (S f) t acc =
    pbind (liftR (parse_whitespace f)) (fun o =>
      match o with
      | None => liftR (peek_error EofWhileParsingVector)
      | Some c =>
          if is_closer c then
            (if negb (c =? t) then liftR (peek_error MismatchedParenthesis) else pret acc)
          else
            pbind (next_value f) (fun ov =>
            match ov with
            | None => liftR (peek_error EofWhileParsingValue)
            | Some v => parse_vector f t (acc ++ [v])
            end)
      end).
  Proof. reflexivity. Qed.


  Lemma end_seq_closer f r c rest : (1 <= f)%nat -> c = 41 \/ c = 93 -> at_bytes r (c :: rest) ->
    exists r', end_seq f c r = (Ok tt, r') /\ at_bytes r' rest /\ rk r' = rk r.
  Proof.
    intros Hf Hc Ha. unfold end_seq.
    assert (Hs : starts_datum c) by (destruct Hc as [->| ->]; split; try reflexivity; discriminate).
    destruct (ws_here f r c rest Hf Ha Hs) as (r0 & E0 & Ha0 & Hp0 & Hk0).
    rewrite (bind_ok _ _ _ _ _ E0). rewrite N.eqb_refl.
    destruct (m_eat r0 c rest Ha0 Hp0) as (r1 & E1 & Ha1 & Hk1). exists r1. repeat split; auto; congruence.
  Qed.

  Definition K : nat := 16.

  Definition P (v : value) : Prop :=
    forall fuel r D pre rest, pre_ok pre -> ert_ok v -> N.of_nat (rdepth v) < D -> D <= 128 ->
      (length pre + length (txt v) + K <= fuel)%nat -> at_bytes r (pre ++ txt v ++ rest) -> delim_ok rest ->
      exists r', next_value fuel (mkp r D) = (POk (Some (efold v)), mkp r' D) /\ at_bytes r' rest /\ rk r' = rk r.

  Lemma sd c : is_ws c = false -> c <> 59 -> starts_datum c.
  Proof. intros; split; assumption. Qed.

  Lemma esym_first c s' : eplain_symbol (c :: s') -> is_ws c = false /\ c <> 59 /\ is_closer c = false.
  Proof.
    intros (_ & _ & Hfirst). destruct Hfirst as [[Ha|Hi]|[[->| ->] _]].
    - unfold is_ascii_alpha, is_ascii_lower, is_ascii_upper, in_range in Ha.
      unfold is_ws, is_closer, memb. cbn [existsb]. repeat split; lia.
    - unfold eext_initial in Hi. cbn in Hi.
      repeat (destruct Hi as [<-|Hi]; [repeat split; try reflexivity; discriminate|]). contradiction.
    - repeat split; try reflexivity; discriminate.
    - repeat split; try reflexivity; discriminate.
  Qed.

  (* first byte of a printed value *)
  Lemma txt_head v : ert_ok v ->
    exists b t, txt v = b :: t /\ starts_datum b /\ is_closer b = false /\
                (b = 46 -> exists s, v = Symbol s).
  Proof.
    intros Hok.
    assert (Hsimple : forall b t, txt v = b :: t -> is_ws b = false -> b <> 59 -> is_closer b = false -> b <> 46 ->
              exists b t, txt v = b :: t /\ starts_datum b /\ is_closer b = false /\ (b = 46 -> exists s, v = Symbol s)).
    { intros b t E H1 H2 H3 H4. exists b, t. repeat split; auto. intros; contradiction. }
    destruct v as [| |b|n|c|s|s|s|bs|a d|l].
    - eapply (Hsimple 110); try reflexivity; discriminate.
    - eapply (Hsimple 40); try reflexivity; discriminate.
    - destruct b; [eapply (Hsimple 116)|eapply (Hsimple 110)]; try reflexivity; discriminate.
    - destruct n as [n|i|f].
      + cbn [etxt atom_etext number_text]. destruct (dec_of_N_spec n) as (ds & E & Hne & Hd & _). rewrite E.
        destruct ds as [|d ds]; [contradiction|]. pose proof (Forall_inv Hd) as Hdig. cbv beta in Hdig.
        unfold is_digit, in_range in Hdig. exists d, ds. split; [reflexivity|].
        unfold starts_datum, is_ws, is_closer, memb. cbn [existsb]. repeat split; try lia.
      + cbn in Hok. destruct i as [|p|p]; try lia. eapply (Hsimple 45); try reflexivity; discriminate.
      + contradiction.
    - assert (E : exists t, txt (Char c) = 63 :: t)
        by (cbn [etxt atom_etext]; unfold echar_text; destruct (_ && _); [destruct (memb c ELISP_ESCAPE_CHARS)|]; eexists; reflexivity).
      destruct E as [t E]. apply (Hsimple 63 t E); try reflexivity; discriminate.
    - eapply (Hsimple 34); try reflexivity; discriminate.
    - cbn [ert_ok] in Hok. destruct s as [|c s']; [destruct Hok as (_ & _ & []) |].
      destruct (esym_first c s' Hok) as (H1 & H2 & H3). exists c, s'. repeat split; auto. intros _. eexists; reflexivity.
    - eapply (Hsimple 58); try reflexivity; discriminate.
    - eapply (Hsimple 34); try reflexivity; discriminate.
    - eapply (Hsimple 40); try reflexivity; discriminate.
    - eapply (Hsimple 91); try reflexivity; discriminate.
  Qed.

  Ltac p_intro f :=
    intros fuel r D pre rest Hpre Hok HD HD' Hf Ha Hr;
    destruct fuel as [|f]; [unfold K in Hf; lia|]; unfold K in Hf.
  Ltac p_done Hnv E1 r1 :=
    exists r1; rewrite (Hnv _ _ E1); split; [reflexivity|]; split; [assumption|congruence].

  Lemma esym_token_value name : after_token 0 (esym_token name) = pret (Some (efold (Symbol name))).
  Proof. unfold esym_token. cbn [efold]. destruct (beq_bytes name (s2b "nil")); reflexivity. Qed.

  Lemma after_esym f name : after_token f (esym_token name) = pret (Some (efold (Symbol name))).
  Proof. unfold esym_token. cbn [efold]. destruct (beq_bytes name (s2b "nil")); reflexivity. Qed.

  Lemma P_symbol s : P (Symbol s).
  Proof.
    p_intro f. cbn [ert_ok] in Hok. pose proof Hok as (Hn & Hsok & Hfirst).
    change (txt (Symbol s)) with s in *. destruct s as [|c s']; [contradiction|]. cbn [app] in Ha.
    destruct (esym_first c s' Hok) as (W1 & W2 & _).
    destruct (next_value_at f r D pre c _ ltac:(lia) Hpre Ha (sd c W1 W2)) as (r0 & Ha0 & Hp0 & Hk0 & Hnv).
    destruct Hfirst as [Hc|[Hc Hnext]].
    - destruct (etok_symbol_direct alpha fast std_parse f r0 c s' rest Hc ltac:(cbn [length] in *; lia) Hn
                  (delim_ok_terminator rest Hr) Hsok Ha0) as (r1 & E1 & Ha1 & Hk1).
      exists r1. rewrite (Hnv _ _ E1), after_esym. split; [reflexivity|]. split; [assumption|congruence].
    - destruct (etok_symbol_sign alpha fast std_parse f r0 c s' rest Hc Hnext ltac:(cbn [length] in *; lia) Hn
                  Hr Hsok Ha0 Hp0) as (r1 & E1 & Ha1 & Hk1).
      exists r1. rewrite (Hnv _ _ E1). cbn [after_token efold].
      replace (beq_bytes (c :: s') (s2b "nil")) with false by (destruct Hc as [->| ->]; reflexivity).
      split; [reflexivity|]. split; [assumption|congruence].
  Qed.

  Lemma nil_plain : eplain_symbol (s2b "nil") /\ eplain_symbol (s2b "t").
  Proof. unfold eplain_symbol, no_terminator, symbol_ok. repeat split; try reflexivity; repeat constructor; left; left; reflexivity. Qed.

  (* nil, t: printed as symbols *)
  Lemma P_as_symbol v name : txt v = name -> eplain_symbol name -> rdepth v = 0%nat -> efold v = efold (Symbol name) -> P v.
  Proof.
    intros Et Hpl Hd Ef. intros fuel r D pre rest Hpre _ HD HD' Hf Ha Hr.
    rewrite Ef. apply (P_symbol name fuel r D pre rest Hpre Hpl); auto.
    - cbn [rdepth]. rewrite Hd in HD. exact HD.
    - change (txt (Symbol name)) with name. rewrite <- Et. exact Hf.
    - change (txt (Symbol name)) with name. rewrite <- Et. exact Ha.
  Qed.

  Lemma P_nil : P Nil.
  Proof. apply (P_as_symbol Nil (s2b "nil")); [reflexivity|apply nil_plain|reflexivity|reflexivity]. Qed.
  Lemma P_bool b : P (Bool b).
  Proof.
    destruct b; [apply (P_as_symbol (Bool true) (s2b "t"))|apply (P_as_symbol (Bool false) (s2b "nil"))];
      try reflexivity; apply nil_plain.
  Qed.

  Lemma P_keyword s : P (Keyword s).
  Proof.
    p_intro f. destruct Hok as [Hn Hsok].
    change (txt (Keyword s)) with (58 :: s) in *. cbn [app length] in Ha, Hf.
    destruct (next_value_at f r D pre 58 _ ltac:(lia) Hpre Ha ltac:(split; [reflexivity|discriminate])) as (r0 & Ha0 & Hp0 & Hk0 & Hnv).
    destruct (etok_keyword alpha fast std_parse f r0 s rest ltac:(lia) Hn (delim_ok_terminator rest Hr) Hsok Ha0 Hp0)
      as (r1 & E1 & Ha1 & Hk1).
    p_done Hnv E1 r1.
  Qed.

  Lemma P_char c : P (Char c).
  Proof.
    p_intro f. cbn [ert_ok] in Hok. change (txt (Char c)) with (echar_text c) in *.
    assert (E : exists t, echar_text c = 63 :: t)
      by (unfold echar_text; destruct (_ && _); [destruct (memb c ELISP_ESCAPE_CHARS)|]; eexists; reflexivity).
    destruct E as [t E]. pose proof Ha as Ha'. rewrite E in Ha'. cbn [app] in Ha'.
    destruct (next_value_at f r D pre 63 _ ltac:(lia) Hpre Ha' ltac:(split; [reflexivity|discriminate])) as (r0 & Ha0 & Hp0 & Hk0 & Hnv).
    change (63 :: t ++ rest) with ((63 :: t) ++ rest) in Ha0. rewrite <- E in Ha0.
    destruct (etok_char alpha fast std_parse f r0 c rest Hok ltac:(lia) Hr Ha0 Hp0) as (r1 & E1 & Ha1 & Hk1).
    p_done Hnv E1 r1.
  Qed.

  Lemma P_string s : P (String s).
  Proof.
    p_intro f. cbn [ert_ok] in Hok. change (txt (String s)) with (estr_text s) in *.
    pose proof Ha as Ha'. unfold estr_text in Ha'. cbn [app] in Ha'.
    destruct (next_value_at f r D pre 34 _ ltac:(lia) Hpre Ha' ltac:(split; [reflexivity|discriminate])) as (r0 & Ha0 & Hp0 & Hk0 & Hnv).
    destruct (etok_string alpha fast std_parse f r0 s rest Hok ltac:(lia) Ha0 Hp0) as (r1 & E1 & Ha1 & Hk1).
    p_done Hnv E1 r1.
  Qed.

  Lemma P_bytes bs : P (Bytes bs).
  Proof.
    p_intro f. cbn [ert_ok] in Hok. change (txt (Bytes bs)) with (ebytes_text bs) in *.
    pose proof Ha as Ha'. unfold ebytes_text in Ha'. cbn [app] in Ha'.
    destruct (next_value_at f r D pre 34 _ ltac:(lia) Hpre Ha' ltac:(split; [reflexivity|discriminate])) as (r0 & Ha0 & Hp0 & Hk0 & Hnv).
    destruct (etok_bytes alpha fast std_parse f r0 bs rest Hok ltac:(lia) Ha0 Hp0) as (r1 & E1 & Ha1 & Hk1).
    exists r1. rewrite (Hnv _ _ E1). split; [destruct bs; reflexivity|]. split; [assumption|congruence].
  Qed.

  Lemma P_number n : P (Number n).
  Proof.
    p_intro f. destruct n as [n|i|fl]; cbn [ert_ok] in Hok; [| |contradiction].
    - change (txt (Number (PosInt n))) with (dec_of_N n) in *.
      destruct (dec_of_N_spec n) as (ds & E & Hne & Hd & _). destruct ds as [|d ds]; [contradiction|].
      pose proof (Forall_inv Hd) as Hdig. cbv beta in Hdig.
      pose proof Ha as Ha'. rewrite E in Ha'. cbn [app] in Ha'.
      destruct (next_value_at f r D pre d _ ltac:(lia) Hpre Ha' (digit_starts_datum d Hdig)) as (r0 & Ha0 & Hp0 & Hk0 & Hnv).
      change (d :: ds ++ rest) with ((d :: ds) ++ rest) in Ha0. rewrite <- E in Ha0.
      destruct (etok_posint alpha fast std_parse f r0 n rest Hok ltac:(lia) Hr Ha0) as (c & r1 & Ec & E1 & Ha1 & Hk1).
      rewrite E in Ec. cbn in Ec. inversion Ec; subst c.
      p_done Hnv E1 r1.
    - change (txt (Number (NegInt i))) with (dec_of_Z i) in *.
      destruct i as [|p|p]; try lia. pose proof Ha as Ha'. cbn [dec_of_Z app] in Ha'.
      destruct (next_value_at f r D pre 45 _ ltac:(lia) Hpre Ha' ltac:(split; [reflexivity|discriminate])) as (r0 & Ha0 & Hp0 & Hk0 & Hnv).
      destruct (etok_negint alpha fast std_parse f r0 (Z.neg p) rest Hok) as (r1 & E1 & Ha1 & Hk1).
      + change (Z.to_N (- Z.neg p)) with (N.pos p). cbn [dec_of_Z length] in Hf. lia.
      + exact Hr.
      + exact Ha0.
      + exact Hp0.
      + p_done Hnv E1 r1.
  Qed.

  (* ---- lists ---- *)
  Definition body_text (first : bool) (d : value) : bytes :=
    if first then match d with Cons a d' => txt a ++ txt_tail d' | _ => [] end else txt_tail d.

  (* parse_list reads the rest of a list up to, not including, the ')' *)
  Definition Tl (first : bool) (d : value) : Prop :=
    forall fuel r D acc rest, ert_ok d -> N.of_nat (rdepth_rest d) < D -> D <= 128 ->
      (length (body_text first d) + 1 + K <= fuel)%nat ->
      at_bytes r (body_text first d ++ 41 :: rest) ->
      (is_cons d = false -> is_null d = false -> acc <> []) ->
      exists r', parse_list fuel 41 acc (mkp r D) = (POk (build acc (efold d)), mkp r' D) /\
                 at_bytes r' (41 :: rest) /\ rk r' = rk r.

  Lemma Tl_null first : Tl first Null.
  Proof.
    intros fuel r D acc rest _ _ _ Hf Ha _. destruct fuel as [|f]; [unfold K in Hf; lia|]. unfold K in Hf.
    assert (Eb : body_text first Null = []) by (destruct first; reflexivity). rewrite Eb in *. cbn [app] in Ha.
    rewrite parse_list_S.
    destruct (ws_here f r 41 rest ltac:(lia) Ha close_starts_datum) as (r0 & E0 & Ha0 & Hp0 & Hk0).
    rewrite (pbind_eq _ _ _ _ _ (liftR_ok _ r D _ _ E0)).
    change (is_closer 41) with true. change (negb (41 =? 41)) with false. cbv iota.
    exists r0. split; [reflexivity|]. auto.
  Qed.

  Lemma symbol_value_dot t : symbol_value ro (46 :: t) = Symbol (46 :: t).
  Proof. unfold symbol_value. rewrite symbol_token_elisp. reflexivity. Qed.

  Lemma elem_step a : P a -> forall f r D acc pre more, pre_ok pre -> ert_ok a -> N.of_nat (rdepth a) < D -> D <= 128 ->
    (length pre + length (txt a) + K <= f)%nat -> at_bytes r (pre ++ txt a ++ more) -> delim_ok more ->
    exists r1, parse_list (S f) 41 acc (mkp r D) = parse_list f 41 (acc ++ [efold a]) (mkp r1 D) /\
               at_bytes r1 more /\ rk r1 = rk r.
  Proof.
    intros HP f r D acc pre more Hpre Hok HD HD' Hf Ha Hm. unfold K in Hf.
    destruct (txt_head a Hok) as (b & t & E & Hst & Hcl & H46).
    pose proof Ha as Ha'. rewrite E in Ha'. cbn [app] in Ha'.
    rewrite parse_list_S.
    destruct (ws_pre f r pre b (t ++ more) ltac:(lia) Hpre Ha' Hst) as (r0 & E0 & Ha0 & Hp0 & Hk0).
    rewrite (pbind_eq _ _ _ _ _ (liftR_ok _ r D _ _ E0)). rewrite Hcl.
    destruct (b =? 46) eqn:E46.
    - assert (b = 46) by lia. subst b. destruct (H46 eq_refl) as [s ->].
      change (txt (Symbol s)) with s in *. subst s. cbn [ert_ok] in Hok. destruct Hok as (Hn & Hsok & Hfirst).
      assert (Hsymok : t <> []).
      { destruct Hsok as [Hnd _]. intros ->. cbn in Hnd. discriminate. }
      destruct t as [|c2 s'']; [contradiction|]. clear Hfirst Hsymok.
      assert (Hc2 : is_symbol_terminator c2 = false).
      { inversion Hn as [|? ? _ Hn1]; subst. inversion Hn1; assumption. }
      cbn [app] in Ha0.
      destruct (m_eat r0 46 _ Ha0 Hp0) as (r1 & E1 & Ha1 & Hk1).
      destruct (m_peek_cons r1 c2 _ Ha1) as (r2 & E2 & Ha2 & Hp2 & Hk2).
      assert (E12 : (eat_char ;;; peek) r0 = (Ok (Some c2), r2)) by (rewrite (bind_ok _ _ _ _ _ E1); exact E2).
      rewrite (pbind_eq _ _ _ _ _ (liftR_ok _ r0 D _ _ E12)).
      cbn [lone_dot]. rewrite Hc2.
      assert (Hn' : no_terminator (c2 :: s'')) by (inversion Hn; assumption).
      destruct (parse_symbol_spec (c2 :: s'') f [46] more r2 ltac:(cbn [length] in *; lia) Hn'
                  (delim_ok_terminator more Hm) Ha2 Hsok) as (r3 & E3 & Ha3 & Hk3 & _).
      unfold parse_symbol_suffix.
      rewrite (pbind_eq _ _ _ _ _ (liftR_ok _ r2 D _ _ E3)). cbn [app]. rewrite symbol_value_dot.
      exists r3. split; [reflexivity|]. split; [assumption|congruence].
    - change (b :: t ++ more) with ((b :: t) ++ more) in Ha0. rewrite <- E in Ha0.
      destruct (HP f r0 D [] more pre_nil Hok HD HD' ltac:(unfold K; cbn [length]; lia) Ha0 Hm) as (r1 & E1 & Ha1 & Hk1).
      rewrite (pbind_eq _ _ _ _ _ E1).
      exists r1. split; [reflexivity|]. split; [assumption|congruence].
  Qed.

  Lemma txt_nonempty a : ert_ok a -> (1 <= length (txt a))%nat.
  Proof. intros H. destruct (txt_head a H) as (b & t & E & _). rewrite E. cbn [length]. lia. Qed.

  Lemma txt_tail_delim d rest : delim_ok (txt_tail d ++ 41 :: rest).
  Proof.
    destruct d; reflexivity.
  Qed.

  Lemma Tl_cons first a d' : P a -> Tl false d' -> Tl first (Cons a d').
  Proof.
    intros HPa HT fuel r D acc rest Hok HD HD' Hf Ha _. destruct fuel as [|f]; [unfold K in Hf; lia|]. unfold K in Hf.
    cbn [ert_ok] in Hok. destruct Hok as [Hoka Hokd]. cbn [rdepth_rest] in HD.
    pose proof (txt_nonempty a Hoka) as Hlen.
    assert (Eb : body_text first (Cons a d') = (if first then [] else [32]) ++ txt a ++ txt_tail d').
    { destruct first; [reflexivity|]. unfold body_text. rewrite etxt_tail_cons. reflexivity. }
    rewrite Eb in *. rewrite <- !app_assoc in Ha. rewrite !app_length in Hf.
    destruct (elem_step a HPa f r D acc (if first then [] else [32]) (txt_tail d' ++ 41 :: rest)
                ltac:(destruct first; [exact pre_nil|exact pre_space]) Hoka ltac:(lia) HD' ltac:(unfold K; destruct first; cbn [length] in *; lia) Ha
                (txt_tail_delim d' rest)) as (r1 & E1 & Ha1 & Hk1).
    rewrite E1.
    destruct (HT f r1 D (acc ++ [efold a]) rest Hokd ltac:(lia) HD' ltac:(unfold K, body_text; lia) Ha1
                ltac:(intros _ _; destruct acc; discriminate)) as (r2 & E2 & Ha2 & Hk2).
    exists r2. rewrite E2, build_snoc. split; [reflexivity|]. split; [assumption|congruence].
  Qed.

  Lemma rdepth_rest_noncons d : is_cons d = false -> is_null d = false -> rdepth_rest d = rdepth d.
  Proof. destruct d; try discriminate; reflexivity. Qed.

  Lemma Tl_dot d : P d -> is_cons d = false -> is_null d = false -> Tl false d.
  Proof.
    intros HPd Hc Hn fuel r D acc rest Hok HD HD' Hf Ha Hacc. destruct fuel as [|f]; [unfold K in Hf; lia|]. unfold K in Hf.
    rewrite (rdepth_rest_noncons d Hc Hn) in HD.
    unfold body_text in *. rewrite (etxt_tail_noncons ryu d Hc Hn) in *. cbn [app length] in Ha, Hf.
    rewrite parse_list_S.
    destruct (ws_space f r 46 _ ltac:(lia) Ha ltac:(split; [reflexivity|discriminate])) as (r0 & E0 & Ha0 & Hp0 & Hk0).
    rewrite (pbind_eq _ _ _ _ _ (liftR_ok _ r D _ _ E0)).
    change (is_closer 46) with false. change (46 =? 46) with true. cbv iota.
    destruct (m_eat r0 46 _ Ha0 Hp0) as (r1 & E1 & Ha1 & Hk1).
    destruct (m_peek_cons r1 32 _ Ha1) as (r2 & E2 & Ha2 & Hp2 & Hk2).
    assert (E12 : (eat_char ;;; peek) r0 = (Ok (Some 32), r2)) by (rewrite (bind_ok _ _ _ _ _ E1); exact E2).
    rewrite (pbind_eq _ _ _ _ _ (liftR_ok _ r0 D _ _ E12)).
    change (lone_dot (Some 32)) with true. cbv iota.
    destruct acc as [|x acc]; [exfalso; apply (Hacc Hc Hn); reflexivity|].
    destruct (HPd f r2 D [32] (41 :: rest) pre_space Hok HD HD' ltac:(unfold K; cbn [length]; lia) Ha2 (eq_refl : delim_ok (41 :: rest)))
      as (r3 & E3 & Ha3 & Hk3).
    rewrite (pbind_eq _ _ _ _ _ E3).
    destruct (ws_here f r3 41 rest ltac:(lia) Ha3 close_starts_datum) as (r4 & E4 & Ha4 & Hp4 & Hk4).
    rewrite (pbind_eq _ _ _ _ _ (liftR_ok _ r3 D _ _ E4)). change (41 =? 41) with true. cbv iota.
    exists r4. split; [reflexivity|]. split; [assumption|congruence].
  Qed.

  (* "(" body ")" *)
  Lemma list_wrap v : is_cons v = true \/ is_null v = true -> Tl true v -> P v.
  Proof.
    intros Hshape HT. p_intro f.
    assert (Et : txt v = 40 :: body_text true v ++ [41]).
    { destruct v; destruct Hshape as [Hs|Hs]; try discriminate Hs; try reflexivity;
        rewrite etxt_cons; unfold body_text; cbn [app]; now rewrite <- app_assoc. }
    assert (Hdep : 1 < D /\ N.of_nat (rdepth_rest v) < D - 1).
    { destruct v; destruct Hshape as [Hs|Hs]; try discriminate Hs; cbn [rdepth rdepth_rest] in *; lia. }
    rewrite Et in *. cbn [app length] in Ha, Hf. rewrite app_length in Hf. cbn [length] in Hf.
    destruct (next_value_at f r D pre 40 _ ltac:(lia) Hpre Ha ltac:(split; [reflexivity|discriminate])) as (r0 & Ha0 & Hp0 & Hk0 & Hnv).
    destruct (etok_listopen alpha fast std_parse f r0 _ Ha0 Hp0) as (r1 & E1 & Ha1 & Hk1).
    rewrite (Hnv _ _ E1). cbn [after_token].
    rewrite (pbind_eq _ _ _ _ _ (enter_ok r1 D ltac:(lia))).
    rewrite <- app_assoc in Ha1. cbn [app] in Ha1.
    destruct (HT f r1 (D - 1) [] rest Hok ltac:(lia) ltac:(lia) ltac:(unfold K; cbn [length]; lia) Ha1) as (r2 & E2 & Ha2 & Hk2).
    { intros Hc Hn. destruct Hshape; congruence. }
    rewrite (pbind_eq _ _ _ _ _ (attempt_ok _ _ _ _ E2)).
    rewrite (pbind_eq _ _ _ _ _ (inc_ok r2 (D - 1) ltac:(lia))).
    replace (D - 1 + 1) with D by lia.
    destruct (end_seq_closer f r2 41 rest ltac:(lia) (or_introl eq_refl) Ha2) as (r3 & E3 & Ha3 & Hk3).
    rewrite (pbind_eq _ _ _ _ _ (attempt_ok _ _ _ _ (liftR_ok _ r2 D _ _ E3))).
    cbn [both build]. unfold pbind, pret.
    exists r3. split; [reflexivity|]. split; [assumption|congruence].
  Qed.


  (* ---- vectors ---- *)
  Lemma elem_step_vec a : P a -> forall f r D acc pre more, pre_ok pre -> ert_ok a -> N.of_nat (rdepth a) < D -> D <= 128 ->
    (length pre + length (txt a) + K <= f)%nat -> at_bytes r (pre ++ txt a ++ more) -> delim_ok more ->
    exists r1, parse_vector (S f) 93 acc (mkp r D) = parse_vector f 93 (acc ++ [efold a]) (mkp r1 D) /\
               at_bytes r1 more /\ rk r1 = rk r.
  Proof.
    intros HP f r D acc pre more Hpre Hok HD HD' Hf Ha Hm. unfold K in Hf.
    destruct (txt_head a Hok) as (b & t & E & Hst & Hcl & _).
    pose proof Ha as Ha'. rewrite E in Ha'. cbn [app] in Ha'.
    rewrite parse_vector_S.
    destruct (ws_pre f r pre b (t ++ more) ltac:(lia) Hpre Ha' Hst) as (r0 & E0 & Ha0 & Hp0 & Hk0).
    rewrite (pbind_eq _ _ _ _ _ (liftR_ok _ r D _ _ E0)). rewrite Hcl.
    change (b :: t ++ more) with ((b :: t) ++ more) in Ha0. rewrite <- E in Ha0.
    destruct (HP f r0 D [] more pre_nil Hok HD HD' ltac:(unfold K; cbn [length]; lia) Ha0 Hm) as (r1 & E1 & Ha1 & Hk1).
    rewrite (pbind_eq _ _ _ _ _ E1).
    exists r1. split; [reflexivity|]. split; [assumption|congruence].
  Qed.

  Lemma vec_elems_cons first x l :
    vec_elems first (x :: l) = (if first then [] else [32]) ++ txt x ++ vec_elems false l.
  Proof. reflexivity. Qed.

  Lemma vec_rest_delim l rest : delim_ok (vec_elems false l ++ 93 :: rest).
  Proof. destruct l; reflexivity. Qed.

  Lemma Vl l : Forall P l -> forall first fuel r D acc rest, all_ert_ok l ->
    N.of_nat (list_max (map rdepth l)) < D -> D <= 128 ->
    (length (vec_elems first l) + 1 + K <= fuel)%nat -> at_bytes r (vec_elems first l ++ 93 :: rest) ->
    exists r', parse_vector fuel 93 acc (mkp r D) = (POk (acc ++ map efold l), mkp r' D) /\
               at_bytes r' (93 :: rest) /\ rk r' = rk r.
  Proof.
    induction 1 as [|x l HPx _ IH]; intros first fuel r D acc rest Hok HD HD' Hf Ha;
      (destruct fuel as [|f]; [unfold K in Hf; lia|]); unfold K in Hf.
    - assert (Ev : vec_elems first [] = []) by reflexivity. rewrite Ev in *. cbn [app] in Ha.
      rewrite parse_vector_S.
      destruct (ws_here f r 93 rest ltac:(lia) Ha ltac:(split; [reflexivity|discriminate])) as (r0 & E0 & Ha0 & Hp0 & Hk0).
      rewrite (pbind_eq _ _ _ _ _ (liftR_ok _ r D _ _ E0)).
      change (is_closer 93) with true. change (negb (93 =? 93)) with false. cbv iota.
      exists r0. cbn [map]. rewrite app_nil_r. split; [reflexivity|]. auto.
    - cbn [all_ert_ok] in Hok. destruct Hok as [Hokx Hokl]. cbn [map list_max] in HD.
      pose proof (txt_nonempty x Hokx) as Hlen.
      rewrite vec_elems_cons in *. rewrite <- !app_assoc in Ha. rewrite !app_length in Hf.
      destruct (elem_step_vec x HPx f r D acc (if first then [] else [32]) (vec_elems false l ++ 93 :: rest)
                  ltac:(destruct first; [exact pre_nil|exact pre_space]) Hokx ltac:(lia) HD' ltac:(unfold K; destruct first; cbn [length] in *; lia) Ha
                  (vec_rest_delim l rest)) as (r1 & E1 & Ha1 & Hk1).
      rewrite E1.
      destruct (IH false f r1 D (acc ++ [efold x]) rest Hokl ltac:(lia) HD' ltac:(unfold K; cbn [length]; lia) Ha1) as (r2 & E2 & Ha2 & Hk2).
      exists r2. rewrite E2, <- app_assoc. cbn [map app]. split; [reflexivity|]. split; [assumption|congruence].
  Qed.

  Lemma P_vector l : Forall P l -> P (Vector l).
  Proof.
    intros HPl. p_intro f. change (ert_ok (Vector l)) with (all_ert_ok l) in Hok. cbn [rdepth] in HD.
    rewrite etxt_vector in *. cbn [app length] in Ha, Hf.
    rewrite app_length in Hf. cbn [length] in Hf.
    destruct (next_value_at f r D pre 91 _ ltac:(lia) Hpre Ha ltac:(split; [reflexivity|discriminate])) as (r0 & Ha0 & Hp0 & Hk0 & Hnv).
    destruct (etok_vecopen alpha fast std_parse f r0 _ Ha0 Hp0) as (r1 & E1 & Ha1 & Hk1).
    rewrite (Hnv _ _ E1). cbn [after_token].
    rewrite (pbind_eq _ _ _ _ _ (enter_ok r1 D ltac:(lia))).
    rewrite <- app_assoc in Ha1. cbn [app] in Ha1.
    destruct (Vl l HPl true f r1 (D - 1) [] rest Hok ltac:(lia) ltac:(lia) ltac:(unfold K; cbn [length]; lia) Ha1) as (r2 & E2 & Ha2 & Hk2).
    rewrite (pbind_eq _ _ _ _ _ (attempt_ok _ _ _ _ E2)).
    rewrite (pbind_eq _ _ _ _ _ (inc_ok r2 (D - 1) ltac:(lia))).
    replace (D - 1 + 1) with D by lia.
    destruct (end_seq_closer f r2 93 rest ltac:(lia) (or_intror eq_refl) Ha2) as (r3 & E3 & Ha3 & Hk3).
    rewrite (pbind_eq _ _ _ _ _ (attempt_ok _ _ _ _ (liftR_ok _ r2 D _ _ E3))).
    cbn [both app]. unfold pbind, pret.
    exists r3. split; [reflexivity|]. split; [assumption|congruence].
  Qed.

  (* ---- every covered value ---- *)
  Theorem next_value_reads_text v : P v /\ Tl false v.
  Proof.
    induction v as [| |b|n|c|s|s|s|bs|a d [IHa _] [_ IHd]|l H] using value_ind'.
    - split; [apply P_nil|apply Tl_dot; [apply P_nil|reflexivity|reflexivity]].
    - split; [apply list_wrap; [right; reflexivity|apply Tl_null]|apply Tl_null].
    - split; [apply P_bool|apply Tl_dot; [apply P_bool|reflexivity|reflexivity]].
    - split; [apply P_number|apply Tl_dot; [apply P_number|reflexivity|reflexivity]].
    - split; [apply P_char|apply Tl_dot; [apply P_char|reflexivity|reflexivity]].
    - split; [apply P_string|apply Tl_dot; [apply P_string|reflexivity|reflexivity]].
    - split; [apply P_symbol|apply Tl_dot; [apply P_symbol|reflexivity|reflexivity]].
    - split; [apply P_keyword|apply Tl_dot; [apply P_keyword|reflexivity|reflexivity]].
    - split; [apply P_bytes|apply Tl_dot; [apply P_bytes|reflexivity|reflexivity]].
    - split; [apply list_wrap; [left; reflexivity|]|]; apply Tl_cons; assumption.
    - assert (HPl : Forall P l) by (eapply Forall_impl; [|exact H]; intros x [Hx _]; exact Hx).
      split; [apply P_vector; exact HPl|apply Tl_dot; [apply P_vector; exact HPl|reflexivity|reflexivity]].
  Qed.



  Theorem elisp_roundtrip_from_trait k v : ert_ok v -> (rdepth v <= 127)%nat ->
    from_trait ro alpha fast std_parse k (bytes_events (txt v)) = POk (efold v).
  Proof.
    intros Hok Hd. unfold from_trait. set (inp := bytes_events (txt v)). set (fuel := fuel_for inp).
    assert (Hlen : length inp = length (txt v)) by (unfold inp, bytes_events; apply map_length).
    assert (Hfuel : (length (txt v) + K <= fuel)%nat) by (unfold fuel, fuel_for, K; lia).
    assert (Ha : at_bytes (mk_reader k inp) ([] ++ txt v ++ [])) by (rewrite app_nil_r; reflexivity).
    destruct (proj1 (next_value_reads_text v) fuel (mk_reader k inp) initial_depth [] [] pre_nil Hok
                ltac:(unfold initial_depth; lia) ltac:(unfold initial_depth; lia) Hfuel Ha I) as (r' & E & Ha' & Hk').
    change (init_state k inp) with (mkp (mk_reader k inp) initial_depth).
    unfold expect_value. rewrite (pbind_eq _ _ _ _ _ (pbind_eq _ _ _ _ _ E)).
    unfold pret at 1. unfold expect_end_p, expect_end.
    destruct (ws_eof fuel r' ltac:(unfold fuel, fuel_for; lia) Ha') as (r2 & E2 & Ha2).
    assert (E3 : (o <- parse_whitespace fuel ;; match o with Some _ => peek_error TrailingCharacters | None => ret tt end) r' = (Ok tt, r2))
      by (rewrite (bind_ok _ _ _ _ _ E2); reflexivity).
    rewrite (pbind_eq _ _ _ _ _ (liftR_ok _ r' initial_depth _ _ E3)). reflexivity.
  Qed.

End ElispRoundtrip.
